package main

import (
	"encoding/hex"
	"fmt"
)

// splitmix64: every random choice of every generator derives from one state.
type Rng struct{ s uint64 }

func NewRng(seed uint64) *Rng { return &Rng{s: seed*0x9E3779B97F4A7C15 + 0x1234567} }
func (r *Rng) U64() uint64 {
	r.s += 0x9E3779B97F4A7C15
	z := r.s
	z = (z ^ (z >> 30)) * 0xBF58476D1CE4E5B9
	z = (z ^ (z >> 27)) * 0x94D049BB133111EB
	return z ^ (z >> 31)
}
func (r *Rng) Intn(n int) int {
	if n <= 0 {
		return 0
	}
	return int(r.U64() % uint64(n))
}
func (r *Rng) Bool() bool { return r.U64()&1 == 1 }
func (r *Rng) Bytes(n int) []byte {
	b := make([]byte, n)
	for i := 0; i < n; i += 8 {
		x := r.U64()
		for j := 0; j < 8 && i+j < n; j++ {
			b[i+j] = byte(x >> (8 * uint(j)))
		}
	}
	return b
}
func (r *Rng) Pick(xs []int) int { return xs[r.Intn(len(xs))] }

func hx(b []byte) string {
	if len(b) == 0 {
		return "-"
	}
	return hex.EncodeToString(b)
}
func unhx(s string) []byte {
	if s == "-" {
		return nil
	}
	b, err := hex.DecodeString(s)
	if err != nil {
		panic(fmt.Sprintf("bad hex %q", s))
	}
	return b
}

func fnv(b []byte) uint64 {
	h := uint64(14695981039346656037)
	for _, c := range b {
		h = (h ^ uint64(c)) * 1099511628211
	}
	return h
}

// fill is the deterministic pattern shared with the Lean driver.
func fill(n, seed int) []byte {
	b := make([]byte, n)
	for i := range b {
		b[i] = byte(i*131 + seed*7 + 13)
	}
	return b
}

func atoi(s string) int {
	n := 0
	neg := false
	for i, c := range s {
		if i == 0 && c == '-' {
			neg = true
			continue
		}
		if c < '0' || c > '9' {
			panic("bad int " + s)
		}
		n = n*10 + int(c-'0')
	}
	if neg {
		return -n
	}
	return n
}
