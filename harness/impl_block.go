package main

import (
	"bytes"
	"fmt"
	"strings"

	lz4 "github.com/pierrec/lz4/v4"
)

// persistent compressor objects: the "history" of C01/C14.
var fastObj lz4.Compressor
var hcObjs = map[int]*lz4.CompressorHC{}

// oracle requests: lines for the Lean driver with the answer the property demands.
type oracleSink struct {
	req, exp []string
}

func (o *oracleSink) ask(kind, req, exp string) {
	o.req = append(o.req, req)
	o.exp = append(o.exp, kind+" "+exp)
}

func safe(f func() string) (out string) {
	defer func() {
		if r := recover(); r != nil {
			msg := fmt.Sprint(r)
			if i := strings.IndexByte(msg, '\n'); i >= 0 {
				msg = msg[:i]
			}
			out = "panic ; " + strings.ReplaceAll(msg, " ", "_")
		}
	}()
	return f()
}

// implDecode: DA/DG dl dc nil fs dict src
// prints `view ; img=<fnv of dst[:cap)> ; canary=… dstdep=…`
func implDecode(f []string, o *oracleSink) string {
	dl, dc, nilF, fs := atoi(f[1]), atoi(f[2]), f[3] == "1", atoi(f[4])
	// source and dictionary live inside larger buffers (spare capacity, foreign bytes before and after):
	// nothing outside their length may influence the result
	embed := func(b []byte, sentinel byte) []byte {
		if len(b) == 0 {
			return b
		}
		big := make([]byte, 32+len(b)+96)
		for k := range big {
			big[k] = sentinel + byte(k%3)
		}
		copy(big[32:], b)
		return big[32 : 32+len(b)]
	}
	dict0, src0 := unhx(f[5]), unhx(f[6])
	dict, src := embed(dict0, 0xE0), embed(src0, 0xE0)
	buf := fill(dc, fs)
	var dst []byte
	if !nilF {
		dst = buf[:dl]
	}
	srcCopy := append([]byte(nil), src...)
	dictCopy := append([]byte(nil), dict...)
	return safe(func() string {
		n, err := lz4.UncompressBlockWithDict(src, dst, dict)
		img := fnv(buf)
		notes := "canary=ok"
		ref := fill(dc, fs)
		for k := len(dst); k < dc; k++ {
			if buf[k] != ref[k] {
				notes = fmt.Sprintf("canary=DIRTY@%d", k-len(dst))
				break
			}
		}
		if !bytes.Equal(src, srcCopy) || !bytes.Equal(dict, dictCopy) {
			notes += " INPUT-MODIFIED"
		}
		// the same call with other bytes around source and dictionary: same outcome, same destination image
		if !nilF {
			buf3 := fill(dc, fs)
			n3, err3 := lz4.UncompressBlockWithDict(embed(src0, 0x10), buf3[:dl], embed(dict0, 0x10))
			if n3 != n || (err3 == nil) != (err == nil) || !bytes.Equal(buf3, buf) {
				notes += " READS-OUTSIDE-INPUT"
			}
		}
		ask := fmt.Sprintf("SD %d %s %s", len(dst), hx(dict), hx(src))
		if err != nil {
			if n != 0 {
				notes += " err-with-count"
			}
			if len(src) > 0 {
				o.ask("dec", ask, "err")
			}
			return fmt.Sprintf("err ; img=%d ; %s", img, notes)
		}
		if n > len(dst) || n < 0 {
			o.ask("dec", ask, fmt.Sprintf("count-out-of-range %d", n))
			return fmt.Sprintf("ok %d OVER ; img=%d ; %s", n, img, notes)
		}
		v := fmt.Sprintf("ok %d %d", n, fnv(dst[:n]))
		if len(src) > 0 {
			o.ask("dec", ask, v)
		}
		// C04: the result must not depend on the destination's prior contents
		if !nilF {
			buf2 := fill(dc, fs+101)
			n2, err2 := lz4.UncompressBlockWithDict(src, buf2[:dl], dict)
			if err2 != nil || n2 != n || !bytes.Equal(buf2[:n2], dst[:n]) {
				notes += " dstdep=DEP"
			}
		}
		return fmt.Sprintf("%s ; img=%d ; %s", v, img, notes)
	})
}

// implCompress: CF api dl src | CH api depth dl src
func implCompress(f []string, o *oracleSink) string {
	hc := f[0] == "CH"
	api := f[1]
	depth := 0
	i := 2
	if hc {
		depth = atoi(f[2])
		i = 3
	}
	dl := atoi(f[i])
	src := unhx(f[i+1])
	const extra = 64
	buf := make([]byte, dl+extra)
	for k := dl; k < len(buf); k++ {
		buf[k] = 0xA5
	}
	dst := buf[:dl]
	// the destination is dirty (a reused buffer): the result must not depend on its prior contents
	copy(dst, fill(dl, 77))
	for k := range dst {
		dst[k] |= 0x0F
	}
	return safe(func() string {
		var n int
		var err error
		switch {
		case strings.HasPrefix(api, "hist:"):
			// a compressor object whose earlier calls were `hist:<dl>:<src>[:<dl>:<src>…]` (each may have
			// failed on a short destination): the result must not depend on that history
			h := strings.Split(api, ":")[1:]
			var fc lz4.Compressor
			hcc := lz4.CompressorHC{Level: lz4.CompressionLevel(uint32(depth))}
			for k := 0; k+1 < len(h); k += 2 {
				pd, ps := make([]byte, atoi(h[k])), unhx(h[k+1])
				if hc {
					_, _ = hcc.CompressBlock(ps, pd)
				} else {
					_, _ = fc.CompressBlock(ps, pd)
				}
			}
			if hc {
				n, err = hcc.CompressBlock(src, dst)
			} else {
				n, err = fc.CompressBlock(src, dst)
			}
		case !hc && api == "obj":
			n, err = fastObj.CompressBlock(src, dst)
		case !hc:
			n, err = lz4.CompressBlock(src, dst, nil)
		case hc && api == "obj":
			c := hcObjs[0]
			if c == nil {
				c = &lz4.CompressorHC{}
				hcObjs[0] = c
			}
			c.Level = lz4.CompressionLevel(uint32(depth))
			n, err = c.CompressBlock(src, dst)
		default:
			n, err = lz4.CompressBlockHC(src, dst, lz4.CompressionLevel(uint32(depth)), nil, nil)
		}
		canary := "canary=ok"
		for k := dl; k < len(buf); k++ {
			if buf[k] != 0xA5 {
				canary = fmt.Sprintf("canary=DIRTY@%d", k-dl)
				break
			}
		}
		bound := lz4.CompressBlockBound(len(src))
		switch {
		case err != nil && n == 0:
			if dl >= bound {
				return "err BOUND-VIOLATED ; " + canary
			}
			return "err ; " + canary
		case err != nil:
			// a positive count is what callers that ignore the error (the frame layer does) take for a block
			if n > 0 && n <= dl {
				o.ask("strict", "SV "+hx(dst[:n]), "true")
				o.ask("rt", fmt.Sprintf("SD %d - %s", len(src), hx(dst[:n])), fmt.Sprintf("ok %d %d", len(src), fnv(src)))
			}
			return fmt.Sprintf("err-with-count %d ; %s", n, canary)
		case n == 0:
			if dl >= bound {
				return "zero BOUND-VIOLATED ; " + canary
			}
			return "zero ; " + canary
		case n > dl || n < 0:
			return fmt.Sprintf("ok %d OVER ; %s", n, canary)
		}
		// C01: the package's own decoder restores the source
		back := make([]byte, len(src))
		m, derr := lz4.UncompressBlock(dst[:n], back)
		rt := "rt=ok"
		if derr != nil || m != len(src) || !bytes.Equal(back[:m], src) {
			rt = "rt=FAIL"
		}
		// C10 / C11: the independent spec decodes it to the source and finds it strictly valid
		o.ask("strict", "SV "+hx(dst[:n]), "true")
		o.ask("rt", fmt.Sprintf("SD %d - %s", len(src), hx(dst[:n])), fmt.Sprintf("ok %d %d", len(src), fnv(src)))
		// C14: a fresh compressor object gives the same bytes as the one with a history
		det := "det=ok"
		dst2 := make([]byte, dl)
		var n2 int
		if !hc {
			var fresh lz4.Compressor
			n2, _ = fresh.CompressBlock(src, dst2)
		} else {
			fresh := lz4.CompressorHC{Level: lz4.CompressionLevel(uint32(depth))}
			n2, _ = fresh.CompressBlock(src, dst2)
		}
		if n2 != n || !bytes.Equal(dst2[:n2], dst[:n]) {
			det = "det=NONDET"
		}
		return fmt.Sprintf("ok %d %d ; %s %s %s", n, fnv(dst[:n]), canary, rt, det)
	})
}
