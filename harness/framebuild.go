package main

// An independent (of pierrec/lz4) LZ4 frame builder: own XXH32, own greedy block encoder
// with a prefix window (dependent blocks).  Used only to *generate* inputs; what it produces is
// judged by the Lean specification, never trusted.

import "encoding/binary"

func rotl32(x uint32, r uint) uint32 { return x<<r | x>>(32-r) }

func refXXH32(b []byte) uint32 {
	var p1, p2, p3, p4, p5 uint32 = 2654435761, 2246822519, 3266489917, 668265263, 374761393
	n := len(b)
	var h uint32
	i := 0
	if n >= 16 {
		v1, v2, v3, v4 := p1+p2, p2, uint32(0), -p1
		for ; i+16 <= n; i += 16 {
			v1 = rotl32(v1+binary.LittleEndian.Uint32(b[i:])*p2, 13) * p1
			v2 = rotl32(v2+binary.LittleEndian.Uint32(b[i+4:])*p2, 13) * p1
			v3 = rotl32(v3+binary.LittleEndian.Uint32(b[i+8:])*p2, 13) * p1
			v4 = rotl32(v4+binary.LittleEndian.Uint32(b[i+12:])*p2, 13) * p1
		}
		h = rotl32(v1, 1) + rotl32(v2, 7) + rotl32(v3, 12) + rotl32(v4, 18)
	} else {
		h = p5
	}
	h += uint32(n)
	for ; i+4 <= n; i += 4 {
		h = rotl32(h+binary.LittleEndian.Uint32(b[i:])*p3, 17) * p4
	}
	for ; i < n; i++ {
		h = rotl32(h+uint32(b[i])*p5, 11) * p1
	}
	h ^= h >> 15
	h *= p2
	h ^= h >> 13
	h *= p3
	h ^= h >> 16
	return h
}

// encodeBlock greedily encodes all[start:end] as one LZ4 block; matches may start up to 65535
// bytes back, reaching before `start` when dep is true (dependent blocks).  forceOff > 0 plants
// matches at exactly that distance when the bytes agree.
func encodeBlock(all []byte, start, end int, dep bool, r *Rng) []byte {
	var out []byte
	emit := func(lits []byte, off, ml int, last bool) {
		tok := byte(0)
		ll := len(lits)
		if ll >= 15 {
			tok = 0xF0
		} else {
			tok = byte(ll << 4)
		}
		if !last {
			if ml-4 >= 15 {
				tok |= 0xF
			} else {
				tok |= byte(ml - 4)
			}
		}
		out = append(out, tok)
		if ll >= 15 {
			out = appendLen(out, ll-15)
		}
		out = append(out, lits...)
		if last {
			return
		}
		out = append(out, byte(off), byte(off>>8))
		if ml-4 >= 15 {
			out = appendLen(out, ml-4-15)
		}
	}
	lo := start
	if dep {
		lo = 0
	}
	table := map[uint32]int{}
	// index the window before the block
	if dep {
		w := start - 65535
		if w < 0 {
			w = 0
		}
		for p := w; p+4 <= start; p++ {
			table[binary.LittleEndian.Uint32(all[p:])] = p
		}
	}
	anchor := start
	i := start
	for i+4 <= end-5 && end-start >= 13 {
		key := binary.LittleEndian.Uint32(all[i:])
		cand, ok := table[key]
		table[key] = i
		if ok && cand >= lo && i-cand <= 65535 && i-cand > 0 && i < end-12 {
			ml := 4
			for i+ml < end-5 && all[cand+ml] == all[i+ml] {
				ml++
			}
			emit(all[anchor:i], i-cand, ml, false)
			i += ml
			anchor = i
			continue
		}
		i++
	}
	emit(all[anchor:end], 0, 0, true)
	return out
}

type frameOpts struct {
	bsCode     int // 4..7
	blockSize  int // actual cut size (<= block maximum)
	dep        bool
	bc, cc     bool
	size       int64 // -1 = none
	rawEvery   int   // every k-th block stored raw (0 = never)
	flgExtra   byte  // OR-ed into FLG (reserved/dict bits) before the checksum
	bdExtra    byte
	noEndMark  bool
	badHC      bool
	skipFrames int  // leading skippable frames
	version    int  // default 1
	varBlocks  bool // blocks of varying sizes (each at most blockSize)
}

func le32b(x uint32) []byte { return []byte{byte(x), byte(x >> 8), byte(x >> 16), byte(x >> 24)} }

// buildFrame returns the frame and the offsets of its structural fields.
func buildFrame(content []byte, fo frameOpts, r *Rng) (frame []byte, fields []int) {
	for k := 0; k < fo.skipFrames; k++ {
		n := r.Intn(40)
		frame = append(frame, le32b(0x184D2A50+uint32(r.Intn(16)))...)
		frame = append(frame, le32b(uint32(n))...)
		frame = append(frame, r.Bytes(n)...)
	}
	fields = append(fields, len(frame))
	frame = append(frame, le32b(0x184D2204)...)
	ver := fo.version
	if ver == 0 {
		ver = 1
	}
	flg := byte(ver<<6) | fo.flgExtra
	if !fo.dep {
		flg |= 1 << 5
	}
	if fo.bc {
		flg |= 1 << 4
	}
	if fo.size >= 0 {
		flg |= 1 << 3
	}
	if fo.cc {
		flg |= 1 << 2
	}
	bd := byte(fo.bsCode<<4) | fo.bdExtra
	desc := []byte{flg, bd}
	if fo.size >= 0 {
		var s [8]byte
		binary.LittleEndian.PutUint64(s[:], uint64(fo.size))
		desc = append(desc, s[:]...)
	}
	fields = append(fields, len(frame), len(frame)+1)
	frame = append(frame, desc...)
	hc := byte(refXXH32(desc) >> 8)
	if fo.badHC {
		hc ^= 0x10
	}
	fields = append(fields, len(frame))
	frame = append(frame, hc)
	bs := fo.blockSize
	if bs <= 0 {
		bs = 65536
	}
	nb := 0
	for p := 0; p < len(content); {
		step := bs
		if fo.varBlocks && r != nil {
			step = 1 + r.Intn(bs)
			if r.Intn(3) == 0 {
				step = 1 + r.Intn(300)
			}
		}
		e := p + step
		if e > len(content) {
			e = len(content)
		}
		var payload []byte
		raw := fo.rawEvery > 0 && nb%fo.rawEvery == fo.rawEvery-1
		if raw {
			payload = content[p:e]
		} else {
			payload = encodeBlock(content, p, e, fo.dep, r)
			if len(payload) >= e-p {
				// incompressible: a block must not be larger than the block maximum, store it raw
				raw = true
				payload = content[p:e]
			}
		}
		w := uint32(len(payload))
		if raw {
			w |= 1 << 31
		}
		fields = append(fields, len(frame))
		frame = append(frame, le32b(w)...)
		fields = append(fields, len(frame))
		frame = append(frame, payload...)
		if fo.bc {
			fields = append(fields, len(frame))
			frame = append(frame, le32b(refXXH32(payload))...)
		}
		nb++
		p = e
	}
	if !fo.noEndMark {
		fields = append(fields, len(frame))
		frame = append(frame, 0, 0, 0, 0)
	}
	if fo.cc {
		fields = append(fields, len(frame))
		frame = append(frame, le32b(refXXH32(content))...)
	}
	fields = append(fields, len(frame))
	return
}
