package main

import (
	"fmt"

	lz4 "github.com/pierrec/lz4/v4"
)

func implXO(f []string, o *oracleSink) string {
	v := lz4.VerifChecksumZero(unhx(f[1]))
	o.ask("xxh", "SX "+f[1], fmt.Sprint(v))
	return fmt.Sprint(v)
}

func implXS(f []string, o *oracleSink) string {
	var x lz4.VerifXXH
	for _, c := range f[1:] {
		x.Write(unhx(c))
	}
	a := x.Sum32()
	// Sum must not change the state and must append the little-endian value
	b := x.Sum([]byte{9})
	if len(b) != 5 || b[0] != 9 || uint32(b[1])|uint32(b[2])<<8|uint32(b[3])<<16|uint32(b[4])<<24 != a || x.Sum32() != a {
		return fmt.Sprintf("%d SUM-MISMATCH", a)
	}
	var all []byte
	for _, c := range f[1:] {
		all = append(all, unhx(c)...)
	}
	o.ask("xxh", "SX "+hx(all), fmt.Sprint(a))
	return fmt.Sprint(a)
}

// XI v1 v2 v3 v4 totalLen buf chunks...  : injected state, then writes
func implXI(f []string, o *oracleSink) string {
	var x lz4.VerifXXH
	var lanes [4]uint32
	for i := 0; i < 4; i++ {
		lanes[i] = uint32(atou(f[1+i]))
	}
	x.VerifSetState(lanes, atou(f[5]), unhx(f[6]))
	for _, c := range f[7:] {
		x.Write(unhx(c))
	}
	return fmt.Sprint(x.Sum32())
}

func atou(s string) uint64 {
	var n uint64
	for _, c := range s {
		n = n*10 + uint64(c-'0')
	}
	return n
}
