package main

import (
	"bufio"
	"fmt"
	"os"
	"runtime/debug"
	"strings"
)

func implLine(line string, o *oracleSink) string {
	f := strings.Fields(line)
	if len(f) == 0 {
		return "bad-op"
	}
	switch f[0] {
	case "XO":
		return implXO(f, o)
	case "XS":
		return implXS(f, o)
	case "XI":
		return implXI(f, o)
	case "DA", "DG":
		return implDecode(f, o)
	case "CF", "CH":
		return implCompress(f, o)
	}
	if h, ok := extraOps[f[0]]; ok {
		return h(f, o)
	}
	return "bad-op"
}

var hangSeen bool

var extraOps = map[string]func([]string, *oracleSink) string{}

func main() {
	if len(os.Args) < 2 {
		fmt.Fprintln(os.Stderr, "usage: vh impl [oracle-req oracle-exp] | gen <family> <tier> <seed>")
		os.Exit(2)
	}
	// a parser that recursed once per input field would need gigabytes of stack on long repetitions: cap it
	debug.SetMaxStack(32 << 20)
	switch os.Args[1] {
	case "impl":
		in := bufio.NewReaderSize(os.Stdin, 1<<20)
		out := bufio.NewWriterSize(os.Stdout, 1<<20)
		defer out.Flush()
		var oreq, oexp *bufio.Writer
		if len(os.Args) >= 4 {
			fr, _ := os.Create(os.Args[2])
			fe, _ := os.Create(os.Args[3])
			defer fr.Close()
			defer fe.Close()
			oreq, oexp = bufio.NewWriterSize(fr, 1<<20), bufio.NewWriterSize(fe, 1<<20)
			defer oreq.Flush()
			defer oexp.Flush()
		}
		idx := 0
		for {
			line, err := in.ReadString('\n')
			if len(line) > 0 {
				o := &oracleSink{}
				var res string
				if hangSeen {
					// a call never returned: its goroutines are still around, later results would be unreliable
					res = "skipped ; after-hang ; notes"
				} else {
					res = implLine(strings.TrimRight(line, "\n"), o)
					if strings.Contains(res, "HANG") {
						hangSeen = true
					}
				}
				fmt.Fprintln(out, res)
				if oreq != nil {
					for i := range o.req {
						fmt.Fprintln(oreq, o.req[i])
						fmt.Fprintf(oexp, "%d %s\n", idx, o.exp[i])
					}
				}
				idx++
			}
			if err != nil {
				break
			}
		}
	case "gen":
		tier := "quick"
		seed := uint64(1)
		if len(os.Args) > 3 {
			tier = os.Args[3]
		}
		if len(os.Args) > 4 {
			seed = atou(os.Args[4])
		}
		out := bufio.NewWriterSize(os.Stdout, 1<<20)
		defer out.Flush()
		g, ok := generators[os.Args[2]]
		if !ok {
			fmt.Fprintln(os.Stderr, "unknown generator", os.Args[2])
			os.Exit(2)
		}
		g(out, tier == "thorough", NewRng(seed))
	default:
		if h, ok := commands[os.Args[1]]; ok {
			h(os.Args[2:])
			return
		}
		os.Exit(2)
	}
}

var generators = map[string]func(w *bufio.Writer, thorough bool, r *Rng){}
var commands = map[string]func(args []string){}

func init() {
	commands["data"] = func(args []string) { // vh data <token> : writes the bytes to stdout
		os.Stdout.Write(parseData(args[0]))
	}
	commands["fnv"] = func(args []string) { // vh fnv <file>… : size and FNV-1a of each file
		for _, a := range args {
			b, err := os.ReadFile(a)
			if err != nil {
				fmt.Println("error", err)
				continue
			}
			fmt.Println(len(b), fnv(b))
		}
	}
}
