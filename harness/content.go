package main

import (
	"fmt"
	"os"
	"path/filepath"
	"strings"
	"sync/atomic"
)

// genContent is the content generator shared with the Lean driver (Util.genContent).
func genContent(k, seed, n int) []byte {
	switch k {
	case 0:
		return NewRng(uint64(seed)).Bytes(n)
	case 1:
		b := NewRng(uint64(seed)).Bytes(n)
		for i := range b {
			b[i] = byte(97 + int(b[i])%(1+seed%4))
		}
		return b
	case 2:
		b := make([]byte, n)
		for i := range b {
			b[i] = byte(seed % 256)
		}
		return b
	case 3:
		p := 1 + seed%40
		pat := NewRng(uint64(seed)).Bytes(p)
		b := make([]byte, n)
		for i := range b {
			b[i] = pat[i%p]
		}
		return b
	case 4:
		b := NewRng(uint64(seed)).Bytes(n)
		for i := range b {
			if int(b[i])%50 != 0 {
				b[i] = 0
			}
		}
		return b
	case 6: // incompressible first, compressible after
		b := NewRng(uint64(seed)).Bytes(n)
		for i := n / 2; i < n; i++ {
			b[i] = byte(i % 7)
		}
		return b
	case 7: // alternating 64 KiB stretches: incompressible, compressible, …
		b := NewRng(uint64(seed)).Bytes(n)
		for i := range b {
			if i/65536%2 == 1 {
				b[i] = byte(i % 7)
			}
		}
		return b
	default:
		b := NewRng(uint64(seed)).Bytes(n)
		for i := 0; i < n/2; i++ {
			b[i] = byte(i % 7)
		}
		return b
	}
}

// parseData: `k.seed.len` | `x<hex>`
func parseData(t string) []byte {
	if strings.HasPrefix(t, "x") {
		return unhx(t[1:])
	}
	p := strings.Split(t, ".")
	if len(p) != 3 {
		panic("bad data token " + t)
	}
	return genContent(atoi(p[0]), atoi(p[1]), atoi(p[2]))
}

// loadBlob: `@/abs/path[#prefixLen]` | data token
func loadBlob(t string) []byte {
	if strings.HasPrefix(t, "@") {
		body := t[1:]
		cut := -1
		if i := strings.IndexByte(body, '#'); i >= 0 {
			cut = atoi(body[i+1:])
			body = body[:i]
		}
		b, err := os.ReadFile(body)
		if err != nil {
			panic(err)
		}
		if cut >= 0 && cut < len(b) {
			b = b[:cut]
		}
		return b
	}
	return parseData(t)
}

var blobSeq int64

// saveBlob writes b into $VERIF_BLOBDIR and returns its `@path` reference.
func saveBlob(prefix string, b []byte) string {
	dir := os.Getenv("VERIF_BLOBDIR")
	if dir == "" {
		dir = os.TempDir()
	}
	n := atomic.AddInt64(&blobSeq, 1)
	p := filepath.Join(dir, fmt.Sprintf("%s-%d-%d.bin", prefix, os.Getpid(), n))
	if err := os.WriteFile(p, b, 0o644); err != nil {
		panic(err)
	}
	return "@" + p
}
