package main

import (
	"bufio"
	"fmt"
	"strings"

	lz4 "github.com/pierrec/lz4/v4"
)

// PL <op>… : a history on the shared block-buffer pools.
//
//	g<idx>        Get a buffer of class idx (3..7); prints len/cap
//	p<k>:<n>      Put back the first n bytes (a slice) of the k-th buffer obtained so far
//	P<cap>:<n>    Put a foreign buffer make([]byte, n, cap)
//
// What Get returns must not depend on what was put before: len = cap = the class size.
func implPL(f []string, o *oracleSink) string {
	var got [][]byte
	var res []string
	return safe(func() string {
		for _, op := range f[1:] {
			switch op[0] {
			case 'g':
				b := lz4.VerifPoolGet(uint8(atoi(op[1:])))
				got = append(got, b)
				res = append(res, fmt.Sprintf("%d/%d", len(b), cap(b)))
			case 'p':
				p := strings.Split(op[1:], ":")
				k, n := atoi(p[0]), atoi(p[1])
				if k < len(got) && got[k] != nil {
					b := got[k][:cap(got[k])]
					if n > len(b) {
						n = len(b)
					}
					lz4.VerifPoolPut(b[:n])
					got[k] = nil
				}
				res = append(res, "-")
			case 'P':
				p := strings.Split(op[1:], ":")
				c, n := atoi(p[0]), atoi(p[1])
				if n > c {
					n = c
				}
				lz4.VerifPoolPut(make([]byte, n, c))
				res = append(res, "-")
			}
		}
		return strings.Join(res, " ") + " ; - ; notes"
	})
}

func genPool(w *bufio.Writer, thorough bool, r *Rng) {
	n := 200
	if thorough {
		n = 4000
	}
	sizes := []int{0, 1, 100, 65535, 65536, 65537, 262144, 1 << 20, 4 << 20, 8 << 20}
	for i := 0; i < n; i++ {
		var ops []string
		gets := 0
		for k := 2 + r.Intn(8); k > 0; k-- {
			switch r.Intn(4) {
			case 0, 1:
				ops = append(ops, fmt.Sprintf("g%d", 3+r.Intn(5)))
				gets++
			case 2:
				if gets > 0 {
					ops = append(ops, fmt.Sprintf("p%d:%d", r.Intn(gets), r.Pick(sizes)))
				}
			default:
				ops = append(ops, fmt.Sprintf("P%d:%d", r.Pick(sizes[3:]), r.Pick(sizes)))
			}
		}
		// after the puts, every class is asked again
		for idx := 3; idx <= 7; idx++ {
			ops = append(ops, fmt.Sprintf("g%d", idx))
		}
		fmt.Fprintf(w, "PL %s\n", strings.Join(ops, " "))
	}
}

func init() {
	extraOps["PL"] = implPL
	generators["pool"] = genPool
}
