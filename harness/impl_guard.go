package main

import (
	"fmt"
	"syscall"

	lz4 "github.com/pierrec/lz4/v4"
)

// Guard-page validation (supporting evidence for C03, not a proof): src, dst[:len] and dict are each
// placed flush against a PROT_NONE page, so that a single byte read or written past their end — which the
// models say never happens — kills the process (reported as CRASH for that case).

const pageSize = 4096

type guarded struct {
	region []byte
	data   []byte
}

func newGuarded(n int) *guarded {
	pages := (n+pageSize-1)/pageSize + 1 // + the guard page
	if n == 0 {
		pages = 2
	}
	region, err := syscall.Mmap(-1, 0, pages*pageSize, syscall.PROT_READ|syscall.PROT_WRITE, syscall.MAP_ANON|syscall.MAP_PRIVATE)
	if err != nil {
		panic(err)
	}
	guard := region[(pages-1)*pageSize:]
	if err := syscall.Mprotect(guard, syscall.PROT_NONE); err != nil {
		panic(err)
	}
	end := (pages - 1) * pageSize
	return &guarded{region: region, data: region[end-n : end : end]}
}
func (g *guarded) free() { _ = syscall.Munmap(g.region) }

// DP dl fs dict src : decode with guard pages behind src, dst[:dl] and dict
func implDP(f []string, o *oracleSink) string {
	dl, fs := atoi(f[1]), atoi(f[2])
	dict, src := unhx(f[3]), unhx(f[4])
	gs, gd, gk := newGuarded(len(src)), newGuarded(dl), newGuarded(len(dict))
	defer gs.free()
	defer gd.free()
	defer gk.free()
	copy(gs.data, src)
	copy(gd.data, fill(dl, fs))
	copy(gk.data, dict)
	var dst, dct []byte = gd.data, gk.data
	if len(dict) == 0 {
		dct = nil
	}
	return safe(func() string {
		n, err := lz4.UncompressBlockWithDict(gs.data, dst, dct)
		if err != nil {
			return "err ; guarded"
		}
		if n > len(dst) || n < 0 {
			return fmt.Sprintf("ok %d OVER ; guarded", n)
		}
		return fmt.Sprintf("ok %d %d ; guarded", n, fnv(dst[:n]))
	})
}

func init() { extraOps["DP"] = implDP; extraOps["DPG"] = implDP }
