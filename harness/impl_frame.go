package main

import (
	"bytes"
	"encoding/binary"
	"errors"
	"fmt"
	"io"
	"runtime"
	"strings"
	"sync"
	"time"

	lz4 "github.com/pierrec/lz4/v4"
)

var errInjected = errors.New("verif: injected I/O failure")

func errName(err error) string {
	switch {
	case err == nil:
		return "ok"
	case errors.Is(err, errInjected):
		return "injected"
	case errors.Is(err, io.ErrUnexpectedEOF):
		return "unexpEOF"
	case errors.Is(err, io.EOF):
		return "eof"
	case errors.Is(err, lz4.ErrInvalidSourceShortBuffer):
		return "shortbuf"
	case errors.Is(err, lz4.ErrInvalidFrame):
		return "badmagic"
	case errors.Is(err, lz4.ErrInvalidHeaderChecksum):
		return "badhdrck"
	case errors.Is(err, lz4.ErrInvalidBlockChecksum):
		return "badblkck"
	case errors.Is(err, lz4.ErrInvalidFrameChecksum):
		return "badframeck"
	case errors.Is(err, lz4.ErrOptionInvalidBlockSize):
		return "badblksize"
	case errors.Is(err, lz4.ErrOptionClosedOrError):
		return "closedOrErr"
	case errors.Is(err, lz4.ErrInternalUnhandledState):
		return "unhandled"
	case errors.Is(err, io.ErrClosedPipe):
		return "closedpipe"
	case errors.Is(err, lz4.ErrOptionInvalidCompressionLevel):
		return "badlevel"
	case errors.Is(err, lz4.ErrOptionNotApplicable):
		return "notapplicable"
	case err.Error() == "This reader is done":
		return "done"
	}
	return "other:" + strings.ReplaceAll(err.Error(), " ", "_")
}

// scripted sink (safe for use from the library's goroutines and the harness at once)
type scriptSink struct {
	mu     sync.Mutex
	writes [][]byte
	ncalls int
	failAt int  // -1 = never
	once   bool // only call number failAt fails (a transient failure)
}

// newSink: "<k>" = every call from the k-th on fails, "<k>!" = only the k-th call fails, "-1" = never
func newSink(tok string) *scriptSink {
	once := strings.HasSuffix(tok, "!")
	return &scriptSink{failAt: atoi(strings.TrimSuffix(tok, "!")), once: once}
}

func (s *scriptSink) Write(p []byte) (int, error) {
	s.mu.Lock()
	defer s.mu.Unlock()
	k := s.ncalls
	s.ncalls++
	if s.failAt >= 0 && (k == s.failAt || k > s.failAt && !s.once) {
		return 0, errInjected
	}
	s.writes = append(s.writes, append([]byte(nil), p...))
	return len(p), nil
}
func (s *scriptSink) calls() int {
	s.mu.Lock()
	defer s.mu.Unlock()
	return s.ncalls
}
func (s *scriptSink) bytes() []byte {
	s.mu.Lock()
	defer s.mu.Unlock()
	var b []byte
	for _, w := range s.writes {
		b = append(b, w...)
	}
	return b
}
func (s *scriptSink) summary() string {
	all := s.bytes()
	s.mu.Lock()
	defer s.mu.Unlock()
	h := uint64(14695981039346656037)
	for _, w := range s.writes {
		h = (h ^ uint64(len(w))) * 1099511628211
	}
	return fmt.Sprintf("calls=%d,writes=%d,bytes=%d,fnv=%d,pattern=%d", s.ncalls, len(s.writes), len(all), fnv(all), h)
}

// scripted source (safe for use from the library's goroutines and the harness at once)
type scriptSrc struct {
	mu          sync.Mutex
	data        []byte
	rpos        int
	chunk       int
	ncalls      int
	failAt      int
	eofWithData bool
	wrapEOF     bool // the injected error wraps io.ErrUnexpectedEOF (it is still not an end of stream)
	wrapPlain   bool // … or io.EOF itself
	zeroReads   bool // every other call returns (0, nil) first: legal for an io.Reader, and nothing may depend on it
}

// wrappedEOF is the injected failure in a form that `errors.Is(err, io.ErrUnexpectedEOF)` accepts: a
// source error must be passed through whatever it wraps.
type wrappedEOF struct{}

func (wrappedEOF) Error() string        { return "injected failure (wraps unexpected EOF)" }
func (wrappedEOF) Unwrap() error        { return io.ErrUnexpectedEOF }
func (wrappedEOF) Is(target error) bool { return target == errInjected }

type wrappedPlainEOF struct{}

func (wrappedPlainEOF) Error() string        { return "injected failure (wraps EOF)" }
func (wrappedPlainEOF) Unwrap() error        { return io.EOF }
func (wrappedPlainEOF) Is(target error) bool { return target == errInjected }

// srcFail parses a source failure point: "<k>", "<k>~" (wraps io.ErrUnexpectedEOF) or "<k>^" (wraps io.EOF);
// the second result is 0, 1 or 2 accordingly
func srcFail(tok string) (int, int) {
	switch {
	case strings.HasSuffix(tok, "~"):
		return atoi(strings.TrimSuffix(tok, "~")), 1
	case strings.HasSuffix(tok, "^"):
		return atoi(strings.TrimSuffix(tok, "^")), 2
	}
	return atoi(tok), 0
}

func (s *scriptSrc) pos() int   { s.mu.Lock(); defer s.mu.Unlock(); return s.rpos }
func (s *scriptSrc) calls() int { s.mu.Lock(); defer s.mu.Unlock(); return s.ncalls }

func (s *scriptSrc) Read(p []byte) (int, error) {
	s.mu.Lock()
	defer s.mu.Unlock()
	k := s.ncalls
	s.ncalls++
	if s.failAt >= 0 && k >= s.failAt {
		if s.wrapEOF {
			return 0, wrappedEOF{}
		}
		if s.wrapPlain {
			return 0, wrappedPlainEOF{}
		}
		return 0, errInjected
	}
	if len(p) == 0 {
		return 0, nil
	}
	if s.zeroReads && k%2 == 0 {
		return 0, nil
	}
	rem := len(s.data) - s.rpos
	if rem == 0 {
		return 0, io.EOF
	}
	n := len(p)
	if rem < n {
		n = rem
	}
	if s.chunk > 0 && s.chunk < n {
		n = s.chunk
	}
	copy(p, s.data[s.rpos:s.rpos+n])
	s.rpos += n
	if s.eofWithData && s.rpos == len(s.data) {
		return n, io.EOF
	}
	return n, nil
}

// onlyWriter hides ReaderFrom; onlyReader hides WriterTo
type onlyReader struct{ r io.Reader }

func (o onlyReader) Read(p []byte) (int, error) { return o.r.Read(p) }

const opTimeout = 60 * time.Second // long enough for half a million one-block goroutine hand-offs on a loaded machine

// timed runs f under a watchdog: a call that does not return is reported as HANG.
// spareBuf returns scratch[:n] of a long-lived buffer whose capacity exceeds every block size; the
// bytes behind n hold a pattern that spareIntact re-checks (the first 128 KiB and a sample further on).
var spareScratch []byte

const spareCheck = 128 << 10

func spareBuf(n int) []byte {
	need := n + (4 << 20) + 64
	if len(spareScratch) < need {
		spareScratch = make([]byte, need+(1<<20))
		for i := range spareScratch {
			spareScratch[i] = byte(0x5A + i%7)
		}
	}
	for i := 0; i < n; i++ {
		spareScratch[i] = 0xC3
	}
	return spareScratch[:n]
}

func spareIntact(n int) bool {
	ok := true
	lim := n + spareCheck
	for i := n; i < lim; i++ {
		if spareScratch[i] != byte(0x5A+i%7) {
			ok = false
		}
	}
	for i := lim; i < len(spareScratch); i += 4099 {
		if spareScratch[i] != byte(0x5A+i%7) {
			ok = false
		}
	}
	// restore the pattern over what this call used
	for i := 0; i < lim && i < len(spareScratch); i++ {
		spareScratch[i] = byte(0x5A + i%7)
	}
	if !ok {
		for i := range spareScratch {
			spareScratch[i] = byte(0x5A + i%7)
		}
	}
	return ok
}

func timed(f func() string) (string, bool) {
	ch := make(chan string, 1)
	go func() {
		defer func() {
			if r := recover(); r != nil {
				msg := fmt.Sprint(r)
				if i := strings.IndexByte(msg, '\n'); i >= 0 {
					msg = msg[:i]
				}
				ch <- "PANIC:" + strings.ReplaceAll(msg, " ", "_")
			}
		}()
		ch <- f()
	}()
	select {
	case s := <-ch:
		return s, true
	case <-time.After(opTimeout):
		return "HANG", false
	}
}

func parseOptsGo(s string) (opts []lz4.Option, kv map[string]int) {
	kv = map[string]int{}
	for _, p := range strings.Split(s, ",") {
		e := strings.SplitN(p, "=", 2)
		if len(e) != 2 {
			continue
		}
		n := atoi(e[1])
		kv[e[0]] = n
		switch e[0] {
		case "bs":
			opts = append(opts, lz4.BlockSizeOption(lz4.BlockSize(uint32(n))))
		case "bc":
			opts = append(opts, lz4.BlockChecksumOption(n != 0))
		case "cc":
			opts = append(opts, lz4.ChecksumOption(n != 0))
		case "sz":
			opts = append(opts, lz4.SizeOption(uint64(n)))
		case "lvl":
			opts = append(opts, lz4.CompressionLevelOption(lz4.CompressionLevel(uint32(n))))
		case "conc":
			opts = append(opts, lz4.ConcurrencyOption(n))
		case "leg":
			opts = append(opts, lz4.LegacyOption(n != 0))
		}
	}
	return
}

// frame tracks what one frame (between Resets) should contain, for the oracle.
type frameTrack struct {
	data     []byte
	clean    bool // every op succeeded so far
	closed   bool
	closedOK bool   // a Close returned nil
	atClose  string // sink summary when the first Close returned
	flushed  bool   // a Flush cut a block short (legacy: blocks then hold less than 8 MiB)
	usedRF   bool   // ReadFrom delivered data (it ends a source that is a multiple of the block size with an empty block)
	opts     map[string]int
}

// freshFrame: the bytes a NEW Writer with these options emits for one Write of data followed by Close
func freshFrame(opts map[string]int, data []byte) ([]byte, error) {
	var out bytes.Buffer
	zw := lz4.NewWriter(&out)
	o := []lz4.Option{lz4.LegacyOption(opts["leg"] != 0), lz4.BlockSizeOption(lz4.BlockSize(uint32(opts["bs"]))), lz4.BlockChecksumOption(opts["bc"] != 0),
		lz4.ChecksumOption(opts["cc"] != 0), lz4.SizeOption(uint64(opts["sz"])), lz4.CompressionLevelOption(lz4.CompressionLevel(uint32(opts["lvl"]))),
		lz4.ConcurrencyOption(opts["conc"])}
	if err := zw.Apply(o...); err != nil {
		return nil, err
	}
	if len(data) > 0 {
		if _, err := zw.Write(data); err != nil {
			return nil, err
		}
	}
	err := zw.Close()
	return out.Bytes(), err
}

// implW: W <failAt> ops…
func implW(f []string, o *oracleSink) string {
	gBase := 0
	if shadowDepth == 0 {
		gBase = beginConc()
	}
	sink := newSink(f[1])
	zw := lz4.NewWriter(sink)
	cur := map[string]int{"bs": 4 << 20, "bc": 0, "cc": 1, "sz": 0, "lvl": 0, "conc": 1, "leg": 0}
	tr := &frameTrack{clean: sink.failAt < 0, opts: cur}
	var res, sinks, notes []string
	hung := false
	applyFailed := false
	finishFrame := func() {
		sinks = append(sinks, sink.summary())
		if tr.closed && tr.atClose != "" && tr.atClose != sink.summary() {
			notes = append(notes, "SINK-CHANGED-AFTER-CLOSE-RETURNED")
		}
		if tr.clean && tr.closed {
			all := sink.bytes()
			// C14 / C17: whatever the object did before (earlier frames, Resets, option changes), the frame is the
			// one a new Writer with the same options emits for the same data (real code against real code)
			if shadowDepth == 0 && !tr.flushed && !tr.usedRF && !applyFailed {
				if want, err := freshFrame(tr.opts, tr.data); err == nil && !bytes.Equal(want, all) {
					notes = append(notes, "DIFFERS-FROM-FRESH-WRITER")
				}
			}
			ref := saveBlob("wsink", all)
			if tr.opts["leg"] != 0 {
				if tr.flushed {
					o.ask("frame", "SL "+ref, fmt.Sprintf("ok legacy len=%d fnv=%d", len(tr.data), fnv(tr.data)))
				} else {
					o.ask("frame", "SLS "+ref, fmt.Sprintf("ok legacy len=%d fnv=%d sizesok=1", len(tr.data), fnv(tr.data)))
				}
			} else {
				sz := "-"
				if tr.opts["sz"] > 0 {
					sz = fmt.Sprint(tr.opts["sz"])
				}
				o.ask("frame", "SF 1 "+ref, fmt.Sprintf("ok ver=1 indep=1 bc=%d cc=%d size=%s bmax=%d len=%d fnv=%d consumed=%d",
					tr.opts["bc"], tr.opts["cc"], sz, tr.opts["bs"], len(tr.data), fnv(tr.data), len(all)))
			}
			// C02: the package's own Reader restores the data (several regimes)
			for i, rd := range []func() ([]byte, error){
				func() ([]byte, error) { return io.ReadAll(onlyReader{lz4.NewReader(bytes.NewReader(all))}) },
				func() ([]byte, error) {
					var b bytes.Buffer
					_, err := lz4.NewReader(bytes.NewReader(all)).WriteTo(&b)
					return b.Bytes(), err
				},
				func() ([]byte, error) { // sequential, a buffer with room for more than a block at every call
					zr := lz4.NewReader(bytes.NewReader(all))
					buf := make([]byte, 9<<20)
					var out []byte
					for {
						n, err := zr.Read(buf)
						out = append(out, buf[:n]...)
						if err == io.EOF {
							return out, nil
						}
						if err != nil {
							return out, err
						}
					}
				},
				func() ([]byte, error) {
					zr := lz4.NewReader(bytes.NewReader(all))
					_ = zr.Apply(lz4.ConcurrencyOption(4))
					buf := make([]byte, 5<<20)
					var out []byte
					for {
						n, err := zr.Read(buf)
						out = append(out, buf[:n]...)
						if err == io.EOF {
							return out, nil
						}
						if err != nil {
							return out, err
						}
					}
				},
			} {
				got, err := rd()
				if err != nil || !bytes.Equal(got, tr.data) {
					notes = append(notes, fmt.Sprintf("ROUNDTRIP-FAIL[%d]:%s", i, errName(err)))
				}
			}
		}
	}
	for _, op := range f[2:] {
		if hung {
			res = append(res, "skipped")
			continue
		}
		p := strings.Split(op, ":")
		r, ok := timed(func() string {
			switch p[0] {
			case "A":
				opts, kv := parseOptsGo(p[1])
				err := zw.Apply(opts...)
				if err == nil {
					for k, v := range kv {
						cur[k] = v
					}
				} else {
					tr.clean = false
					applyFailed = true // the options before the failing one stay applied: the table is no longer exact
				}
				return errName(err)
			case "w":
				d0 := loadBlob(p[1])
				// io.Writer contract: Write must not retain p. One caller buffer is reused for every Write
				// of the session and scribbled over as soon as Write has returned.
				if cap(callerBuf) < len(d0) {
					callerBuf = make([]byte, len(d0))
				}
				d := callerBuf[:len(d0)]
				copy(d, d0)
				defer func() {
					for i := range d {
						d[i] = 0xEE
					}
					d = d0
				}()
				callsBefore := sink.calls()
				n, err := zw.Write(d)
				if tr.closed && cur["conc"] == 1 && (err == nil && len(d) > 0 || sink.calls() != callsBefore) {
					notes = append(notes, "WRITE-AFTER-CLOSE-ACCEPTED")
				}
				if err != nil || n != len(d) {
					tr.clean = false
				}
				tr.data = append(tr.data, d0[:n]...)
				return fmt.Sprintf("%d/%s", n, errName(err))
			case "f":
				err := zw.Flush()
				tr.flushed = true
				if err != nil {
					tr.clean = false
				} else if tr.clean && cur["conc"] == 1 && cur["leg"] == 0 {
					// C17: after Flush on a sequential Writer the sink is a decodable prefix with everything written so far
					got, _ := io.ReadAll(lz4.NewReader(bytes.NewReader(sink.bytes())))
					if !bytes.Equal(got, tr.data) {
						notes = append(notes, "FLUSH-PREFIX-FAIL")
					}
				}
				return errName(err)
			case "c":
				before := sink.calls()
				wasClosed := tr.closedOK // a Close that failed drained nothing: the pipeline may still be writing
				err := zw.Close()
				if err == nil {
					tr.closedOK = true
				}
				if !tr.closed && err == nil {
					tr.atClose = sink.summary() // what the sink holds at the moment a successful Close returns
				}
				if err != nil {
					tr.clean = false
				}
				if wasClosed && sink.calls() != before {
					notes = append(notes, "SECOND-CLOSE-EMITS")
				}
				tr.closed = true
				return errName(err)
			case "R":
				// Reset waits for the pipeline of a concurrent Writer: the old sink is complete afterwards
				ns := newSink(p[1])
				zw.Reset(ns)
				finishFrame()
				sink = ns
				o2 := map[string]int{}
				for k, v := range cur {
					o2[k] = v
				}
				_ = o2
				tr = &frameTrack{clean: sink.failAt < 0, opts: cur}
				return "-"
			case "rf":
				d := loadBlob(p[1])
				fa, wr := srcFail(p[3])
				src := &scriptSrc{data: d, chunk: atoi(p[2]), failAt: fa, wrapEOF: wr == 1, wrapPlain: wr == 2, eofWithData: p[4] == "1" || p[4] == "3", zeroReads: fa < 0 && (p[4] == "2" || p[4] == "3")}
				n, err := zw.ReadFrom(src)
				tr.usedRF = true
				tr.flushed = true // ReadFrom emits its last, short, chunk as a block of its own, as a Flush does
				if err != nil || int(n) != len(d) {
					tr.clean = false
				}
				if int(n) <= len(d) {
					tr.data = append(tr.data, d[:n]...)
				}
				return fmt.Sprintf("%d/%s", n, errName(err))
			}
			return "bad-op"
		})
		if !ok {
			hung = true
		}
		if tr.closed && p[0] != "c" && p[0] != "R" && p[0] != "A" && !strings.Contains(r, "/ok") && r != "ok" {
			// a failed write after Close must not emit
		}
		res = append(res, r)
	}
	if !hung {
		// synchronise with the goroutines of a concurrent Writer before looking at the sink
		if _, ok := timed(func() string { zw.Reset(nil); return "" }); ok {
			finishFrame()
		} else {
			res = append(res, "HANG-IN-RESET")
		}
	}
	tr.opts = cur
	// C15: a sink failure must be returned by some call, at the latest by Close, and what reached the
	// sink must be a prefix of the fault-free output
	if fa := atoi(strings.TrimSuffix(f[1], "!")); fa >= 0 && !hung && len(f) > 2 && !strings.Contains(strings.Join(f[2:], " "), "R:") {
		hit := sink.calls() > fa
		reported := false
		for _, r := range res {
			if strings.Contains(r, "injected") {
				reported = true
			}
		}
		closedLast := f[len(f)-1] == "c"
		if hit && closedLast && !reported {
			notes = append(notes, "SINK-FAILURE-NOT-REPORTED")
		}
		if shadowDepth == 0 {
			shadowDepth++
			f2 := append([]string{f[0], "-1"}, f[2:]...)
			var o2 oracleSink
			lastShadowSink = nil
			_ = implW(f2, &o2)
			shadowDepth--
			if lastShadowSink != nil && !bytes.HasPrefix(lastShadowSink, sink.bytes()) {
				notes = append(notes, "SINK-NOT-PREFIX-OF-FAULT-FREE")
			}
		}
	}
	if shadowDepth > 0 {
		lastShadowSink = sink.bytes()
	} else if !hung {
		if l := leakCheck(gBase); l != "" {
			notes = append(notes, l)
		}
		traceRequests(o, true)
	}
	if shadowDepth == 0 && !hung {
		if d := poolDiscipline(); d != "" {
			notes = append(notes, d)
		}
	}
	return fmt.Sprintf("%s ; %s ; %s", strings.Join(res, " "), strings.Join(sinks, " "), strings.Join(append(notes, "notes"), " "))
}

var callerBuf []byte
var shadowDepth int
var lastShadowSink []byte

// implR: R <conc> <blob> <chunk> <failAt> <eofWithData> ops…   (+ `E:<blob>` expect exactly, `P:<blob>` expect strict prefix & error)
// seekSrc offers a scripted source as an io.ReadSeeker with the semantics of *bytes.Reader / *os.File: a
// position beyond the end is legal, the next Read then reports io.EOF.
type seekSrc struct{ *scriptSrc }

func (s *seekSrc) Seek(offset int64, whence int) (int64, error) {
	s.mu.Lock()
	defer s.mu.Unlock()
	var base int64
	switch whence {
	case io.SeekCurrent:
		base = int64(s.rpos)
	case io.SeekEnd:
		base = int64(len(s.data))
	}
	p := base + offset
	if p < 0 {
		return 0, fmt.Errorf("negative position")
	}
	if p > int64(len(s.data)) {
		s.rpos = len(s.data) // reads from there on report io.EOF, as for a position past the end
	} else {
		s.rpos = int(p)
	}
	return p, nil
}

// countSink keeps a running FNV-1a of what it is given and nothing else
type countSink struct{ h uint64 }

func (c *countSink) Write(p []byte) (int, error) {
	if c.h == 0 {
		c.h = 14695981039346656037
	}
	for _, b := range p {
		c.h = (c.h ^ uint64(b)) * 1099511628211
	}
	return len(p), nil
}

// readerShadow > 0 while implR runs a comparison session on a new Reader (no oracle requests, no extra checks)
var readerShadow int

// freshReaderTail: C17 "Reset makes the object indistinguishable from a new one with the same options": the
// calls that follow the last Reset of the session are repeated on a NEW Reader (same concurrency, same source
// script) and must give the same results.  Returns "" when the session has no Reset or cannot be compared.
func freshReaderTail(f []string, res []string) string {
	conc := atoi(f[1])
	lastR, ri := -1, 0
	var resIdx []int // index into res of each real op
	ops := f[6:]
	for i, op := range ops {
		if strings.HasPrefix(op, "E:") || strings.HasPrefix(op, "P:") || strings.HasPrefix(op, "X:") || strings.HasPrefix(op, "z:") {
			resIdx = append(resIdx, -1)
			continue
		}
		resIdx = append(resIdx, ri)
		if strings.HasPrefix(op, "R:") {
			lastR = i
		}
		ri++
	}
	if lastR < 0 || ri != len(res) {
		return ""
	}
	for i := 0; i < lastR; i++ {
		if strings.HasPrefix(ops[i], "A:") && resIdx[i] >= 0 {
			if res[resIdx[i]] != "ok" {
				return "" // a refused Apply may have applied some of its options: the table is not exact
			}
			_, kv := parseOptsGo(ops[i][2:])
			if n, ok := kv["conc"]; ok {
				conc = n
			}
		}
	}
	var tail, want []string
	for i := lastR + 1; i < len(ops); i++ {
		if resIdx[i] >= 0 {
			tail = append(tail, ops[i])
			want = append(want, res[resIdx[i]])
		}
	}
	if len(tail) == 0 {
		return ""
	}
	f2 := append([]string{"R", fmt.Sprint(conc), strings.TrimPrefix(ops[lastR], "R:"), f[3], f[4], f[5]}, tail...)
	readerShadow++
	var o2 oracleSink
	line := implR(f2, &o2)
	readerShadow--
	got := strings.Fields(strings.Split(line, " ; ")[0])
	if strings.Join(got, " ") != strings.Join(want, " ") {
		return "DIFFERS-FROM-NEW-READER"
	}
	return ""
}

func implR(f []string, o *oracleSink) string {
	gBase := beginConc()
	conc := atoi(f[1])
	blobRef := f[2]
	data := loadBlob(blobRef)
	mk := func(d []byte) *scriptSrc {
		fa, wr := srcFail(f[4])
		return &scriptSrc{data: d, chunk: atoi(f[3]), failAt: fa, wrapEOF: wr == 1, wrapPlain: wr == 2, eofWithData: f[5] == "1" || f[5] == "3" || f[5] == "5" || f[5] == "7", zeroReads: fa < 0 && (f[5] == "2" || f[5] == "3" || f[5] == "6" || f[5] == "7")}
	}
	src := mk(data)
	// source field >= 4: the same script, offered as an io.ReadSeeker
	seekable := f[5] >= "4" && f[5] <= "7"
	wrap := func(s *scriptSrc) io.Reader {
		if seekable {
			return &seekSrc{s}
		}
		return s
	}
	zr := lz4.NewReader(wrap(src))
	if conc != 1 {
		_ = zr.Apply(lz4.ConcurrencyOption(conc))
	}
	var res, notes []string
	var delivered []byte
	var expect, prefixOf []byte
	haveE, haveP := false, false
	expectErr := ""
	var ms0 runtime.MemStats
	for _, op := range f[6:] {
		if op == "wd" {
			runtime.GC() // the live-heap comparison of `wd` starts from a collected heap
		}
	}
	runtime.ReadMemStats(&ms0)
	cleanEOF, sawErr := false, false
	firstErr := ""
	hung := false
	discardedN, discardedH, discarded := 0, uint64(0), false
	for _, op := range f[6:] {
		p := strings.Split(op, ":")
		if p[0] == "E" {
			expect, haveE = loadBlob(strings.Join(p[1:], ":")), true
			continue
		}
		if p[0] == "P" {
			prefixOf, haveP = loadBlob(strings.Join(p[1:], ":")), true
			continue
		}
		if p[0] == "X" {
			expectErr = p[1]
			continue
		}
		if p[0] == "z" { // a slow consumer
			time.Sleep(time.Duration(atoi(p[1])) * time.Millisecond)
			continue
		}
		if hung {
			res = append(res, "skipped")
			continue
		}
		r, ok := timed(func() string {
			switch p[0] {
			case "r":
				// the caller's buffer is a short slice of a large one: nothing behind len(p) may be touched
				want := atoi(p[1])
				buf := spareBuf(want)
				posBefore := src.pos()
				n, err := zr.Read(buf)
				if n > len(buf) || n < 0 {
					return fmt.Sprintf("%d/BADCOUNT/%s", n, errName(err))
				}
				buf = append([]byte(nil), buf[:n]...) // spareIntact re-arms the scratch area
				if !spareIntact(want) {
					notes = append(notes, "WROTE-BEHIND-LEN")
				}
				if cleanEOF && conc == 1 && src.pos() != posBefore {
					notes = append(notes, "READ-AFTER-EOF-CONSUMES")
				}
				if !cleanEOF && !sawErr {
					delivered = append(delivered, buf[:n]...)
				}
				if err == io.EOF {
					cleanEOF = true
				} else if err != nil {
					if !sawErr && firstErr == "" {
						firstErr = errName(err)
					}
					sawErr = true
				}
				return fmt.Sprintf("%d/%d/%s", n, fnv(buf[:n]), errName(err))
			case "wt":
				sink := newSink(p[1])
				n, err := zr.WriteTo(sink)
				all := sink.bytes()
				if !cleanEOF && !sawErr {
					delivered = append(delivered, all...)
					if err == nil {
						cleanEOF = true
					} else {
						firstErr = errName(err)
						sawErr = true
					}
				}
				return fmt.Sprintf("%d/%d/%s", n, fnv(all), errName(err))
			case "wd":
				// WriteTo into a sink that keeps nothing, then the heap that is still alive while the Reader is:
				// whatever the stream announces, a Reader holds a few block buffers and a 64 KiB window
				cw := &countSink{}
				n, err := zr.WriteTo(cw)
				if !cleanEOF && !sawErr {
					if err == nil {
						cleanEOF = true
					} else {
						firstErr = errName(err)
						sawErr = true
					}
				}
				runtime.GC()
				var ms runtime.MemStats
				runtime.ReadMemStats(&ms)
				live := int64(ms.HeapAlloc) - int64(ms0.HeapAlloc)
				if live > 40<<20 {
					notes = append(notes, fmt.Sprintf("LIVE-HEAP-EXCESS:%dMiB", live>>20))
				}
				runtime.KeepAlive(zr)
				discardedN, discardedH, discarded = int(n), cw.h, true
				return fmt.Sprintf("%d/%d/%s", n, cw.h, errName(err))
			case "s":
				return fmt.Sprint(uint64(zr.Size()))
			case "R":
				d := loadBlob(strings.Join(p[1:], ":"))
				src = mk(d)
				data = d
				blobRef = strings.Join(p[1:], ":")
				zr.Reset(wrap(src))
				delivered, cleanEOF, sawErr = nil, false, false
				return "-"
			case "A":
				opts, _ := parseOptsGo(p[1])
				return errName(zr.Apply(opts...))
			}
			return "bad-op"
		})
		if !ok {
			hung = true
		}
		res = append(res, r)
	}
	if cleanEOF {
		// C05: an independent implementation accepts the consumed bytes with the same output
		cons := src.pos()
		ref := blobRef
		if strings.HasPrefix(ref, "@") {
			if i := strings.IndexByte(ref, '#'); i >= 0 {
				ref = ref[:i]
			}
			ref = fmt.Sprintf("%s#%d", ref, cons)
		} else {
			ref = "x" + hx(data[:cons])
			if cons == 0 {
				ref = "x"
			}
		}
		if len(data) >= 4 && data[0] == 0x02 && data[1] == 0x21 && data[2] == 0x4c && data[3] == 0x18 {
			// the Linux-kernel flavour ends with the total uncompressed size, which is not part of the
			// format the specification describes: the frame in front of it is what must be valid
			if cons == len(data) && cons >= 8 && binary.LittleEndian.Uint32(data[cons-4:]) == uint32(len(delivered)) && strings.HasPrefix(ref, "@") {
				ref = fmt.Sprintf("%s#%d", ref[:strings.IndexByte(ref, '#')], cons-4)
			}
			o.ask("accept", "SL "+ref, fmt.Sprintf("ok legacy len=%d fnv=%d", len(delivered), fnv(delivered)))
		} else if len(data) > 0 && discarded {
			if discardedH == 0 {
				discardedH = 14695981039346656037
			}
			o.ask("accept", "SFC 0 "+ref, fmt.Sprintf("ok len=%d fnv=%d consumed=%d", discardedN, discardedH, cons))
		} else if len(data) > 0 {
			o.ask("accept", "SFC 0 "+ref, fmt.Sprintf("ok len=%d fnv=%d consumed=%d", len(delivered), fnv(delivered), cons))
		}
	}
	if haveE && !(cleanEOF && bytes.Equal(delivered, expect)) {
		notes = append(notes, "WRONG-CONTENT")
	}
	failureHit := src.failAt < 0 || src.calls() > src.failAt
	if expectErr != "" && failureHit {
		if expectErr == "eof" {
			if !cleanEOF {
				notes = append(notes, "EXPECTED-CLEAN-EOF-GOT-"+firstErr)
			}
		} else if firstErr != expectErr {
			notes = append(notes, "EXPECTED-"+expectErr+"-GOT-"+firstErr)
		}
	}
	var ms1 runtime.MemStats
	runtime.ReadMemStats(&ms1)
	// heap taken from the OS during the session.  Short-lived garbage of a long input (one small object per
	// block, collected later) scales with the input and is allowed for; an allocation sized by a field of a
	// short hostile input is not
	if grow := int64(ms1.HeapSys) - int64(ms0.HeapSys); grow > int64(len(data))*200+(160<<20) {
		notes = append(notes, fmt.Sprintf("ALLOC-EXCESS:%dMiB", grow>>20))
	}
	if haveP && failureHit {
		if cleanEOF {
			notes = append(notes, "TRUNC-ACCEPTED")
		}
		if !bytes.HasPrefix(prefixOf, delivered) {
			notes = append(notes, "NOT-PREFIX")
		}
	}
	cons := fmt.Sprint(src.pos())
	abandoned, reused := false, false
	for _, op := range f[6:] {
		if strings.HasPrefix(op, "A:") {
			abandoned = true // a failed Apply leaves a stream half-way: outside the property
		}
		if strings.HasPrefix(op, "R:") {
			reused = true
		}
	}
	if !hung && !abandoned && (cleanEOF || sawErr) {
		// the (last) stream ended (io.EOF or an error was reported): no library goroutine may remain,
		// those of a stream that Reset dropped half-way included (Reset stops them)
		if l := leakCheck(gBase); l != "" {
			notes = append(notes, l)
		}
		if !reused {
			traceRequests(o, true)
		}
	}
	if !hung {
		if d := poolDiscipline(); d != "" {
			notes = append(notes, d)
		}
	}
	if !hung && readerShadow == 0 {
		if d := freshReaderTail(f, res); d != "" {
			notes = append(notes, d)
		}
	}
	return fmt.Sprintf("%s ; consumed=%s ; %s", strings.Join(res, " "), cons, strings.Join(append(notes, "notes"), " "))
}

func init() {
	extraOps["W"] = implW
	extraOps["R"] = implR
}
