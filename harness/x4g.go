package main

import (
	"encoding/binary"
	"fmt"

	lz4 "github.com/pierrec/lz4/v4"
)

// refStream is an independent streaming XXH32 (seed 0) used only as a reference for very long inputs.
type refStream struct {
	v     [4]uint32
	total uint64
	tail  []byte
}

func newRefStream() *refStream {
	var p1, p2 uint32 = 2654435761, 2246822519
	return &refStream{v: [4]uint32{p1 + p2, p2, 0, -p1}}
}
func (r *refStream) write(b []byte) {
	var p1, p2 uint32 = 2654435761, 2246822519
	r.total += uint64(len(b))
	r.tail = append(r.tail, b...)
	i := 0
	for ; i+16 <= len(r.tail); i += 16 {
		for k := 0; k < 4; k++ {
			r.v[k] = rotl32(r.v[k]+binary.LittleEndian.Uint32(r.tail[i+4*k:])*p2, 13) * p1
		}
	}
	r.tail = append(r.tail[:0], r.tail[i:]...)
}
func (r *refStream) sum() uint32 {
	var p1, p2, p3, p4, p5 uint32 = 2654435761, 2246822519, 3266489917, 668265263, 374761393
	var h uint32
	if r.total >= 16 {
		h = rotl32(r.v[0], 1) + rotl32(r.v[1], 7) + rotl32(r.v[2], 12) + rotl32(r.v[3], 18)
	} else {
		h = p5
	}
	h += uint32(r.total)
	i := 0
	for ; i+4 <= len(r.tail); i += 4 {
		h = rotl32(h+binary.LittleEndian.Uint32(r.tail[i:])*p3, 17) * p4
	}
	for ; i < len(r.tail); i++ {
		h = rotl32(h+uint32(r.tail[i])*p5, 11) * p1
	}
	h ^= h >> 15
	h *= p2
	h ^= h >> 13
	h *= p3
	h ^= h >> 16
	return h
}

func init() {
	// vh x4g <seed>: stream 2^32+20 bytes through the real incremental checksum and an independent
	// reference; compare Sum32 at every total length 2^32-2 .. 2^32+20. Prints MISMATCH lines.
	commands["x4g"] = func(args []string) {
		seed := uint64(1)
		if len(args) > 0 {
			seed = atou(args[0])
		}
		chunk := NewRng(seed).Bytes(1 << 20)
		var x lz4.VerifXXH
		ref := newRefStream()
		const target = uint64(1) << 32
		var total uint64
		for total+uint64(len(chunk)) < target-2 {
			x.Write(chunk)
			ref.write(chunk)
			total += uint64(len(chunk))
		}
		rest := int(target - 2 - total)
		x.Write(chunk[:rest])
		ref.write(chunk[:rest])
		total += uint64(rest)
		bad := 0
		for total <= target+20 {
			a, b := x.Sum32(), ref.sum()
			if a != b {
				bad++
				fmt.Printf("MISMATCH total=%d real=%d reference=%d\n", total, a, b)
			}
			x.Write([]byte{byte(total)})
			ref.write([]byte{byte(total)})
			total++
		}
		fmt.Printf("x4g checked lengths %d..%d mismatches=%d\n", target-2, target+20, bad)
	}
}
