package main

import (
	"bufio"
	"bytes"
	"fmt"

	lz4 "github.com/pierrec/lz4/v4"
)

func init() {
	generators["xxh"] = genXXH
	generators["dec"] = genDec
	generators["cmp"] = genCmp
	generators["decguard"] = genDecGuard
}

// ---------- XXH ----------

func genXXH(w *bufio.Writer, thorough bool, r *Rng) {
	// one-shot: all lengths 0..80, then random lengths
	for n := 0; n <= 80; n++ {
		fmt.Fprintf(w, "XO %s\n", hx(r.Bytes(n)))
	}
	nr := 300
	if thorough {
		nr = 5000
	}
	for i := 0; i < nr; i++ {
		fmt.Fprintf(w, "XO %s\n", hx(r.Bytes(r.Intn(3000))))
	}
	// streaming: every buffered-byte count 0..15 x next write length, complete
	next := []int{}
	for n := 0; n <= 33; n++ {
		next = append(next, n)
	}
	next = append(next, 47, 48, 49, 1000)
	for pre := 0; pre <= 15; pre++ {
		for _, n := range next {
			for _, lead := range []int{0, 16, 32} { // with or without earlier full stripes
				fmt.Fprintf(w, "XS %s %s %s\n", hx(r.Bytes(lead+pre)), hx(r.Bytes(n)), hx(r.Bytes(r.Intn(20))))
			}
		}
	}
	// random chunkings incl. empty writes
	for i := 0; i < nr; i++ {
		k := 1 + r.Intn(8)
		fmt.Fprint(w, "XS")
		for j := 0; j < k; j++ {
			n := r.Pick([]int{0, 0, 1, 2, 3, 4, 5, 15, 16, 17, 31, 32, 33, r.Intn(200), r.Intn(2000)})
			fmt.Fprintf(w, " %s", hx(r.Bytes(n)))
		}
		fmt.Fprintln(w)
	}
	// states in which all four lanes are zero (reachable: each lane is zero after a stripe w with
	// lane + w*prime2 = 0 mod 2^32): injected, and reached by a crafted stripe
	for i := 0; i < 24; i++ {
		start := uint64(16 * (1 + r.Intn(5)))
		used := r.Intn(16)
		fmt.Fprintf(w, "XI 0 0 0 0 %d %s %s %s\n", start+uint64(used), hx(r.Bytes(used)), hx(r.Bytes(r.Intn(40))), hx(r.Bytes(r.Intn(20))))
	}
	for i := 0; i < 40; i++ {
		pre := r.Bytes(16 * r.Intn(4))
		in := append(append([]byte{}, pre...), zeroStripe(pre)...)
		rest := r.Bytes(1 + r.Intn(50))
		switch i % 4 {
		case 0:
			fmt.Fprintf(w, "XS %s %s\n", hx(in), hx(rest))
		case 1: // the stripe completes through the buffer
			k := 1 + r.Intn(len(in)-1)
			fmt.Fprintf(w, "XS %s %s %s %s\n", hx(in[:k]), hx(in[k:]), hx(rest), hx(r.Bytes(r.Intn(5))))
		case 2:
			fmt.Fprintf(w, "XS %s %s %s\n", hx(in), hx(rest[:1]), hx(rest[1:]))
		default:
			fmt.Fprintf(w, "XS %s - %s\n", hx(append(in, rest[:len(rest)/2]...)), hx(rest[len(rest)/2:]))
		}
	}
	// injected states around 2^32: total length 2^32-1 .. 2^32+16 after the writes
	for d := -40; d <= 40; d++ {
		for _, used := range []int{0, 1, 7, 15} {
			total := uint64(1<<32) + uint64(int64(d))
			tail := r.Intn(40)
			start := total - uint64(tail)
			// the injected state must be consistent: buffered = start % 16 is forced
			used = int(start % 16)
			lanes := [4]uint32{uint32(r.U64()), uint32(r.U64()), uint32(r.U64()), uint32(r.U64())}
			fmt.Fprintf(w, "XI %d %d %d %d %d %s %s\n", lanes[0], lanes[1], lanes[2], lanes[3], start, hx(r.Bytes(used)), hx(r.Bytes(tail)))
		}
	}
}

// zeroStripe returns the 16 bytes after which all four XXH32 lanes are zero, given the whole
// stripes `pre` hashed before (seed 0).
func zeroStripe(pre []byte) []byte {
	var p1, p2 uint32 = 2654435761, 2246822519
	v := [4]uint32{p1 + p2, p2, 0, 0 - p1}
	rd := func(b []byte) uint32 { return uint32(b[0]) | uint32(b[1])<<8 | uint32(b[2])<<16 | uint32(b[3])<<24 }
	for i := 0; i+16 <= len(pre); i += 16 {
		for l := 0; l < 4; l++ {
			x := v[l] + rd(pre[i+4*l:])*p2
			v[l] = (x<<13 | x>>19) * p1
		}
	}
	// inverse of prime2 modulo 2^32 (Newton)
	inv := uint32(1)
	for k := 0; k < 6; k++ {
		inv *= 2 - p2*inv
	}
	out := make([]byte, 16)
	for l := 0; l < 4; l++ {
		wv := (0 - v[l]) * inv
		out[4*l], out[4*l+1], out[4*l+2], out[4*l+3] = byte(wv), byte(wv>>8), byte(wv>>16), byte(wv>>24)
	}
	return out
}

// ---------- decoders ----------

var lenClasses = []int{0, 0, 1, 2, 3, 4, 7, 8, 13, 14, 15, 16, 17, 18, 19, 30, 47, 48, 49, 100, 269, 270, 271, 600}
var offClasses = []int{0, 1, 2, 3, 4, 7, 8, 9, 15, 16, 17, 18, 19, 31, 32, 33, 100}

func appendLen(p []byte, n int) []byte {
	for n >= 255 {
		p = append(p, 255)
		n -= 255
	}
	return append(p, byte(n))
}

// genBlock builds a block from the sequence grammar; returns block, decoded size, dict length.
func genBlock(r *Rng) (src []byte, decoded int, dictLen int) {
	nseq := 1 + r.Intn(5)
	dictLen = r.Pick([]int{0, 0, 0, 1, 5, 40, 300})
	if r.Intn(400) == 0 {
		dictLen = r.Pick([]int{65535, 65536, 65537, 70000}) // only the last 64 KiB of a dictionary are reachable
	}
	di := 0
	for s := 0; s < nseq; s++ {
		ll := r.Pick(lenClasses)
		ml := r.Pick(lenClasses) // minus 4
		last := s == nseq-1 && r.Intn(4) != 0
		var tok byte
		if ll >= 15 {
			tok = 0xF0
		} else {
			tok = byte(ll << 4)
		}
		if !last {
			if ml >= 15 {
				tok |= 0xF
			} else {
				tok |= byte(ml)
			}
		}
		src = append(src, tok)
		if ll >= 15 {
			src = appendLen(src, ll-15)
		}
		src = append(src, r.Bytes(ll)...)
		di += ll
		if last {
			break
		}
		var off int
		sel := r.Intn(7)
		if sel == 2 && r.Intn(3) != 0 {
			sel = 6 // mostly valid offsets: the error paths are still reached, less often
		}
		switch sel {
		case 0:
			off = r.Pick(offClasses)
		case 1:
			off = di
		case 2:
			off = di + 1 + r.Intn(dictLen+2)
		case 3:
			off = di + dictLen
		case 4:
			if di > 0 {
				off = 1 + r.Intn(di)
			}
		case 5:
			off = r.Pick([]int{65535, 65534, 32768})
		default:
			off = 1 + r.Intn(di+dictLen+1)
		}
		if off > 65535 {
			off = 65535
		}
		src = append(src, byte(off), byte(off>>8))
		if ml >= 15 {
			src = appendLen(src, ml-15)
		}
		di += ml + 4
	}
	// two matches into the dictionary in one block, the first one running on into the block's own output
	// (overlapping or not), short literals in between, room after them: what the decoders remember about
	// the dictionary across the first copy is used by the second
	if dictLen > 8 && r.Intn(6) == 0 {
		src, di = nil, 0
		emit := func(ll, off, ml int) {
			tok := byte(ml - 4)
			if ml-4 >= 15 {
				tok = 0xF
			}
			if ll >= 15 {
				tok |= 0xF0
			} else {
				tok |= byte(ll << 4)
			}
			src = append(src, tok)
			if ll >= 15 {
				src = appendLen(src, ll-15)
			}
			src = append(src, r.Bytes(ll)...)
			di += ll
			src = append(src, byte(off), byte(off>>8))
			if ml-4 >= 15 {
				src = appendLen(src, ml-4-15)
			}
			di += ml
		}
		ll1 := r.Pick([]int{0, 0, 1, 3, 20})
		k1 := 1 + r.Intn(8) // bytes taken from the dictionary
		if k1 > dictLen {
			k1 = dictLen
		}
		emit(ll1, ll1+k1, r.Pick([]int{k1 + 1, k1 + 4, 20, 24, 40}))
		if r.Bool() { // an interior match copied by the long path
			emit(r.Intn(4), 1+r.Intn(di), r.Pick([]int{17, 19, 30}))
		}
		ll2 := r.Pick([]int{0, 1, 4, 14})
		k2 := 1 + r.Intn(dictLen)
		emit(ll2, di+ll2+k2, r.Pick([]int{4, 5, 8, 18}))
		if r.Bool() {
			k3 := 1 + r.Intn(dictLen)
			emit(r.Intn(5), di+k3, 4+r.Intn(10))
		}
		// final literals, long enough to keep the sequences away from the ends
		fl := 40 + r.Intn(40)
		src = append(src, 0xF0)
		src = appendLen(src, fl-15)
		src = append(src, r.Bytes(fl)...)
		di += fl
		return src, di, dictLen
	}
	// directed tail: the decoders' fast paths switch at 14/15/16 literals and 4..18-byte matches, and a
	// block may end with a match, with an empty literal run, or with a short one
	if r.Intn(5) == 0 {
		ll := r.Pick([]int{13, 14, 14, 14, 15, 16, 0, 1})
		ml := r.Pick([]int{0, 1, 4, 8, 12, 13, 14, 14, 15, 16, 30}) // minus 4
		tok := byte(ml)
		if ml >= 15 {
			tok = 0xF
		}
		if ll >= 15 {
			tok |= 0xF0
		} else {
			tok |= byte(ll << 4)
		}
		src = append(src, tok)
		if ll >= 15 {
			src = appendLen(src, ll-15)
		}
		src = append(src, r.Bytes(ll)...)
		di += ll
		off := 0
		switch r.Intn(6) {
		case 0:
			off = di + dictLen // first byte of the history
		case 1:
			off = ml + 4 // just not overlapping
		case 2:
			off = ml + 5
		case 3:
			off = r.Pick([]int{0, 1, 7, 8, 9, 16})
		default:
			if di+dictLen > 0 {
				off = 1 + r.Intn(di+dictLen)
			}
		}
		if off > 65535 {
			off = 65535
		}
		src = append(src, byte(off), byte(off>>8))
		if ml >= 15 {
			src = appendLen(src, ml-15)
		}
		di += ml + 4
		switch r.Intn(4) {
		case 0: // ends with the match
		case 1:
			src = append(src, 0x00)
		case 2:
			src = append(src, 0x10, byte(r.Intn(256)))
			di++
		default:
			src = append(src, 0x50)
			src = append(src, r.Bytes(5)...)
			di += 5
		}
		return src, di, dictLen
	}
	switch r.Intn(16) {
	case 0:
		if len(src) > 1 {
			src = src[:r.Intn(len(src))+1]
		}
	case 1:
		src[r.Intn(len(src))] ^= byte(1 << uint(r.Intn(8)))
	case 2:
		src = append(src, byte(r.Intn(256)))
	}
	return src, di, dictLen
}

func genDec(w *bufio.Writer, thorough bool, r *Rng) {
	n := 20000
	if thorough {
		n = 400000
	}
	// a few fixed witnesses first (D1, D2)
	fmt.Fprintf(w, "DA 23 23 0 1 - 50616263646504%s\n", "00e0303132333435363738394142434412000000")
	for i := 0; i < n; i++ {
		var src []byte
		var dec, dictLen int
		if r.Intn(12) == 0 {
			src = r.Bytes(1 + r.Intn(60))
			dec = r.Intn(100)
		} else {
			src, dec, dictLen = genBlock(r)
		}
		dl := dec + r.Pick([]int{0, 0, 0, 0, 0, -1, -2, -3, -4, -7, -12, -17, -18, 1, 1, 2, 5, 15, 16, 17, 31, 32, 33, 40, 48, 49, 100})
		if dl < 0 {
			dl = 0
		}
		dc := dl + r.Pick([]int{0, 7, 64})
		nilF := 0
		if r.Intn(40) == 0 {
			dl, dc, nilF = 0, 0, 1
		}
		fmt.Fprintf(w, "DA %d %d %d %d %s %s\n", dl, dc, nilF, r.Intn(200), hx(r.Bytes(dictLen)), hx(src))
	}
}

// ---------- compressors ----------

func genSource(r *Rng, maxLen int) []byte {
	n := r.Intn(maxLen + 1)
	switch r.Intn(8) {
	case 0: // random
		return r.Bytes(n)
	case 1: // small alphabet
		b := r.Bytes(n)
		k := 1 + r.Intn(4)
		for i := range b {
			b[i] = byte('a' + int(b[i])%k)
		}
		return b
	case 2: // a run
		b := make([]byte, n)
		c := byte(r.Intn(256))
		for i := range b {
			b[i] = c
		}
		return b
	case 3: // periodic
		p := 1 + r.Intn(40)
		pat := r.Bytes(p)
		b := make([]byte, n)
		for i := range b {
			b[i] = pat[i%p]
		}
		return b
	case 4: // text-like: words from a small dictionary
		words := [][]byte{[]byte("the "), []byte("quick "), []byte("brown "), []byte("fox "), []byte("lz4 "), []byte("compression "), []byte("a "), []byte("of ")}
		var b []byte
		for len(b) < n {
			b = append(b, words[r.Intn(len(words))]...)
		}
		return b[:n]
	case 5: // random with planted repeats at chosen distances
		b := r.Bytes(n)
		for k := 0; k < 4 && n > 40; k++ {
			d := r.Pick([]int{1, 2, 3, 4, 8, 100, 65534, 65535, 65536, 65537, 131070, 131072, 131074})
			l := 4 + r.Intn(60)
			if d+l < n {
				p := d + r.Intn(n-d-l+1)
				copy(b[p:p+l], b[p-d:p-d+l])
			}
		}
		return b
	case 6: // mixed: compressible then incompressible
		b := r.Bytes(n)
		for i := 0; i < n/2; i++ {
			b[i] = byte(i % 7)
		}
		return b
	default: // zeros with sparse noise
		b := make([]byte, n)
		for k := 0; k < n/50; k++ {
			b[r.Intn(n)] = byte(r.Intn(256))
		}
		return b
	}
}

var hcDepths = []int{0, 1, 2, 3, 255, 256, 512, 1024, 2048, 4096, 8192, 16384, 32768, 65536, 70000, 1 << 31}

func emitCmp(w *bufio.Writer, r *Rng, src []byte, dl int) {
	api := "obj"
	switch r.Intn(4) {
	case 0:
		api = "pkg"
	case 1:
		// a fresh object with one or two earlier calls, often failing ones (destination too short)
		api = "hist"
		for k := 1 + r.Intn(2); k > 0; k-- {
			ps := genSource(r, r.Pick([]int{60, 400, 3000, 3000}))
			if r.Bool() && len(ps) > 300 { // late first match: the call fails in the middle of the block
				copy(ps, r.Bytes(len(ps)))
				copy(ps[len(ps)-60:], ps[:60])
			}
			pd := r.Pick([]int{0, 5, 20, 100, len(ps) / 2, boundOf(len(ps))})
			api += fmt.Sprintf(":%d:%s", pd, hx(ps))
		}
	}
	if r.Intn(2) == 0 {
		fmt.Fprintf(w, "CF %s %d %s\n", api, dl, hx(src))
	} else {
		fmt.Fprintf(w, "CH %s %d %d %s\n", api, r.Pick(hcDepths), dl, hx(src))
	}
}

func boundOf(n int) int { return n + n/255 + 16 }

// pickDlFor: as pickDl, but one time in five relative to the size the block really takes
func pickDlFor(r *Rng, src []byte) int {
	if r.Intn(5) == 0 && len(src) > 0 {
		probe := make([]byte, boundOf(len(src)))
		n0, _ := lz4.CompressBlock(src, probe, nil)
		if r.Bool() {
			n0, _ = lz4.CompressBlockHC(src, probe, lz4.Level3, nil, nil)
		}
		if d := n0 - r.Pick([]int{0, 1, 1, 2, 3, 5, 9, 17, -1}); d >= 0 {
			return d
		}
	}
	return pickDl(r, len(src))
}

func pickDl(r *Rng, n int) int {
	b := boundOf(n)
	switch r.Intn(6) {
	case 0, 1:
		return b
	case 2:
		return b + 1 + r.Intn(40)
	case 3:
		return r.Intn(b + 1)
	case 4:
		return n
	default:
		if b > 20 {
			return b - 1 - r.Intn(20)
		}
		return b
	}
}

func genCmp(w *bufio.Writer, thorough bool, r *Rng) {
	// lengths 0..40 on small alphabets, every destination length 0..bound+2 for the shortest
	for n := 0; n <= 40; n++ {
		for rep := 0; rep < 3; rep++ {
			b := r.Bytes(n)
			k := 1 + rep
			for i := range b {
				b[i] = byte('a' + int(b[i])%k)
			}
			if n <= 20 {
				for dl := 0; dl <= boundOf(n)+2; dl += 1 + rep {
					emitCmp(w, r, b, dl)
				}
			} else {
				emitCmp(w, r, b, pickDl(r, n))
			}
		}
	}
	cnt, big := 1500, 30
	maxLen := 3000
	if thorough {
		cnt, big, maxLen = 40000, 400, 20000
	}
	for i := 0; i < cnt; i++ {
		src := genSource(r, maxLen)
		emitCmp(w, r, src, pickDlFor(r, src))
	}
	// window edge: a chunk of early noise repeated at distance exactly 65535 / 65536 / 65537 (one
	// below, at and beyond the largest offset), every alignment, with a long match in between so that
	// the early positions are still in the tables
	edge := 12
	if thorough {
		edge = 120
	}
	for i := 0; i < edge; i++ {
		for _, dist := range []int{65535, 65536, 65537} {
			shift := i % 12
			src := r.Bytes(dist + 600 + r.Intn(3000))
			for k := range src {
				if src[k] == 0 {
					src[k] = 1
				}
			}
			from := 16 + shift + r.Intn(40)
			fillB := byte(0)
			if i%3 == 1 {
				fillB = byte(r.Intn(256))
			}
			for k := 128 + r.Intn(64); k < from+dist; k++ {
				if i%3 == 2 {
					src[k] = byte(k % 5) // periodic filler
				} else {
					src[k] = fillB
				}
			}
			copy(src[from+dist:], src[from:from+20+r.Intn(80)])
			fmt.Fprintf(w, "CF %s %d %s\n", []string{"obj", "pkg"}[i%2], boundOf(len(src)), hx(src))
			fmt.Fprintf(w, "CH obj %d %d %s\n", r.Pick([]int{1, 4, 512}), boundOf(len(src)), hx(src))
		}
	}
	// length-code boundaries: literal runs and matches of exactly 15+255k / 19+255k bytes and their
	// neighbours, as trailing literals, as literals before a match, and as match lengths
	step := 3
	if thorough {
		step = 1
	}
	both := func(src []byte, dl int) {
		fmt.Fprintf(w, "CF %s %d %s\n", []string{"obj", "pkg"}[r.Intn(2)], dl, hx(src))
		fmt.Fprintf(w, "CH %s %d %d %s\n", []string{"obj", "pkg"}[r.Intn(2)], r.Pick([]int{1, 4, 512, 2048}), dl, hx(src))
	}
	for _, base := range []int{270, 525} {
		for d := -20; d <= 20; d += 1 {
			if d%step != 0 && d < -2 || d%step != 0 && d > 6 {
				continue
			}
			L := base + d
			// (a) compressible head, then L bytes without repeats
			head := bytes.Repeat([]byte{byte('a' + r.Intn(20))}, 40+r.Intn(40))
			a := append(append([]byte{}, head...), r.Bytes(L)...)
			both(a, boundOf(len(a)))
			// (b) a repeat of exactly L+4 bytes (match length code L+4-19 ...)
			blk := r.Bytes(L + 4)
			bsrc := append(append(append([]byte{}, blk...), r.Bytes(9)...), blk...)
			bsrc = append(bsrc, r.Bytes(14+r.Intn(8))...)
			both(bsrc, boundOf(len(bsrc)))
			// (c) L literals, then a repeat of the first 40 of them
			c := r.Bytes(L)
			c = append(c, c[:40]...)
			c = append(c, r.Bytes(13+r.Intn(6))...)
			both(c, boundOf(len(c)))
		}
	}
	// every destination length around the size the block really takes (the compressor under test is
	// asked for that size): sources with long matches, so that length bytes fall on the boundary
	sweep := 6
	if thorough {
		sweep = 60
	}
	for i := 0; i < sweep; i++ {
		var src []byte
		switch i % 3 {
		case 0:
			src = append(r.Bytes(20+r.Intn(30)), bytes.Repeat([]byte{byte(r.Intn(256))}, 300+r.Intn(1500))...)
			src = append(src, r.Bytes(20)...)
		case 1:
			blk := r.Bytes(300 + r.Intn(600))
			src = append(append(append([]byte{}, blk...), r.Bytes(5)...), blk...)
			src = append(src, r.Bytes(30)...)
		default:
			src = genSource(r, 2500)
		}
		probe := make([]byte, boundOf(len(src)))
		hc := i%2 == 1
		var n0 int
		if hc {
			n0, _ = lz4.CompressBlockHC(src, probe, lz4.Level4, nil, nil)
		} else {
			n0, _ = lz4.CompressBlock(src, probe, nil)
		}
		lo := n0 - 45
		if lo < 0 {
			lo = 0
		}
		for dl := lo; dl <= n0+2; dl++ {
			if hc {
				fmt.Fprintf(w, "CH obj %d %d %s\n", 2048, dl, hx(src))
			} else {
				fmt.Fprintf(w, "CF obj %d %s\n", dl, hx(src))
			}
		}
	}
	// a long incompressible stretch, then a short repeat of earlier data close to the end: the output so
	// far is already longer than the input when the match is coded
	late := 4
	if thorough {
		late = 40
	}
	for i := 0; i < late; i++ {
		N := r.Pick([]int{60000, 60200, 70000, 131000, 200000}) + r.Intn(300)
		src := r.Bytes(N)
		rep := 19 + r.Intn(180)
		from := N - 100 - r.Intn(30000)
		src = append(src, src[from:from+rep]...)
		src = append(src, r.Bytes(12+r.Intn(25))...)
		both(src, boundOf(len(src)))
	}
	// HC never extends a match backwards and probes with a growing stride (1 + run>>7): the literal runs it
	// can emit in front of a match are the probe positions only.  Those of the form 15+255k (a final 0xFF
	// length byte that needs a terminating zero) are rare; the smallest ones are used here.
	hcRuns := 1
	if thorough {
		hcRuns = 2
	}
	prev, cur, found := 0, 0, 0
	for cur < 4<<20 && found < hcRuns {
		if cur >= 270 && (cur-15)%255 == 0 {
			src := r.Bytes(cur)
			src = append(src, src[prev:prev+40]...)
			src = append(src, r.Bytes(14+r.Intn(10))...)
			fmt.Fprintf(w, "CH obj %d %d %s\n", r.Pick([]int{1, 2, 512}), boundOf(len(src)), hx(src))
			found++
		}
		prev, cur = cur, cur+1+cur>>7
	}
	// around the 64 KiB window and 16-bit table positions
	for i := 0; i < big; i++ {
		n := r.Pick([]int{65533, 65536, 65539, 70000, 131069, 131072, 131075, 200000})
		src := genSource(r, n)
		if len(src) < n/2 {
			src = append(src, genSource(r, n)...)
		}
		// HC on long highly repetitive input is quadratic at large depth: cap depth there
		if r.Intn(2) == 0 {
			fmt.Fprintf(w, "CF obj %d %s\n", pickDl(r, len(src)), hx(src))
		} else {
			fmt.Fprintf(w, "CH obj %d %d %s\n", r.Pick([]int{1, 2, 256, 512}), pickDl(r, len(src)), hx(src))
		}
	}
}

// genDecGuard: the decoder cases again, with every buffer flush against an unmapped page
func genDecGuard(w *bufio.Writer, thorough bool, r *Rng) {
	n := 4000
	if thorough {
		n = 100000
	}
	for i := 0; i < n; i++ {
		var src []byte
		var dec, dictLen int
		if r.Intn(12) == 0 {
			src = r.Bytes(1 + r.Intn(60))
			dec = r.Intn(100)
		} else {
			src, dec, dictLen = genBlock(r)
		}
		dl := dec + r.Pick([]int{0, 0, 0, -1, -2, -3, -4, -7, -12, -17, -18, 1, 2, 5, 15, 16, 17, 31, 32, 33, 40, 48, 49, 100})
		if dl < 0 {
			dl = 0
		}
		fmt.Fprintf(w, "DP %d %d %s %s\n", dl, r.Intn(200), hx(r.Bytes(dictLen)), hx(src))
	}
}
