package main

import (
	"fmt"
	"os"
	"runtime"
	"strings"
	"time"

	lz4 "github.com/pierrec/lz4/v4"
)

// Concurrency instrumentation (C08 / C14): enabled with VERIF_SCHED=<seed> in the environment.

var schedSeed = func() uint64 {
	if s := os.Getenv("VERIF_SCHED"); s != "" {
		return atou(s) + 1
	}
	return 0
}()

var sessionCounter uint64

// beginConc configures the hooks for one session; returns the goroutine baseline.
func beginConc() int {
	sessionCounter++
	if schedSeed != 0 {
		lz4.VerifHookConfigure(schedSeed*1000003+sessionCounter, true, true, true)
	} else {
		// no perturbation, no poisoning: the event log only (pool discipline is checked for every session)
		lz4.VerifHookConfigure(sessionCounter, false, false, true)
	}
	return runtime.NumGoroutine()
}

// poolDiscipline reads the Get/Put events of the session: a buffer is returned to the pools at most once
// per time it was handed out (a second Put makes two later owners share it).
func poolDiscipline() string {
	in := map[uint64]bool{}
	for _, e := range lz4.VerifHookEvents() {
		if e[1] == 0 {
			continue // Put(nil) is legal and pools nothing
		}
		switch e[0] {
		case 14: // EvGet
			delete(in, e[1])
		case 12: // EvPut
			if in[e[1]] {
				return "DOUBLE-PUT"
			}
			in[e[1]] = true
		}
	}
	return ""
}

// leakCheck waits briefly for the library goroutines to finish; returns a note if some remain.
func leakCheck(base int) string {
	deadline := time.Now().Add(500 * time.Millisecond)
	for {
		n := runtime.NumGoroutine()
		if n <= base {
			return ""
		}
		if time.Now().After(deadline) {
			return fmt.Sprintf("GOROUTINE-LEAK:%d", n-base)
		}
		time.Sleep(2 * time.Millisecond)
	}
}

// traces renders the event log as PW / PR oracle requests, one per frame.
func traceRequests(o *oracleSink, complete bool) {
	if schedSeed == 0 {
		return
	}
	evs := lz4.VerifHookEvents()
	// channel addresses are reused after garbage collection: a creation event (submit / sentinel / read)
	// starts a new generation for its address
	ids := map[uint64]int{}
	nextID := 0
	fresh := func(p uint64) int {
		ids[p] = nextID
		nextID++
		return ids[p]
	}
	id := func(p uint64) int {
		if v, ok := ids[p]; ok {
			return v
		}
		return fresh(p)
	}
	var w, r []string
	flushW := func(done bool) {
		if len(w) > 0 {
			c := "0"
			if done {
				c = "1"
			}
			o.ask("trace", "PW "+c+" "+strings.Join(w, " "), "valid")
			w = nil
		}
	}
	flushR := func(done bool) {
		if len(r) > 0 {
			c := "0"
			if done {
				c = "1"
			}
			o.ask("trace", "PR "+c+" "+strings.Join(r, " "), "valid")
			r = nil
		}
	}
	wl := map[uint64]string{1: "s", 2: "c", 3: "w", 4: "r", 5: "S", 6: "D", 13: "q"}
	rl := map[uint64]string{7: "a", 8: "d", 9: "v", 10: "S", 11: "D"}
	pendingRelease := 0
	for _, e := range evs {
		k, p := e[0], e[1]
		if k == 1 || k == 5 || k == 7 || k == 10 {
			fresh(p)
		}
		if l, ok := wl[k]; ok {
			w = append(w, fmt.Sprintf("%s%d", l, id(p)))
			if k == 1 {
				pendingRelease++
			}
			if k == 4 {
				pendingRelease--
			}
			_ = pendingRelease
		}
		if l, ok := rl[k]; ok {
			r = append(r, fmt.Sprintf("%s%d", l, id(p)))
			if k == 11 {
				flushR(true)
			}
		}
	}
	// one Writer frame per `D`: split, keeping the releases that follow a `D` with their frame
	if len(w) > 0 {
		var cur []string
		closed := false
		emit := func() {
			if len(cur) > 0 {
				c := "0"
				if closed {
					c = "1"
				}
				o.ask("trace", "PW "+c+" "+strings.Join(cur, " "), "valid")
			}
			cur, closed = nil, false
		}
		for _, t := range w {
			if closed && t[0] != 'r' {
				emit()
			}
			cur = append(cur, t)
			if t[0] == 'D' {
				closed = true
			}
		}
		emit()
		w = nil
	}
	flushW(false)
	flushR(complete)
}
