package main

import (
	"bufio"
	"bytes"
	"encoding/binary"
	"fmt"
	"strings"

	lz4 "github.com/pierrec/lz4/v4"
)

func init() {
	generators["fw"] = genFW            // Writer sessions: option matrix x inputs x delivery (C02 C09 C14)
	generators["fwck"] = genFWck        // checksum-bearing frames (C13): header with content size, block and content checksums
	generators["frck"] = genFRck        // frames whose header / block / content checksum is wrong in one place (C13)
	generators["fwlife"] = genFWLife    // Writer lifecycle / misuse sequences (C17)
	generators["fwfail"] = genFWFail    // failing sinks (C15)
	generators["fr"] = genFR            // Reader sessions over valid frames (C02 C16 C17)
	generators["frmut"] = genFRMut      // mutated frames (C05)
	generators["frtrunc"] = genFRTrunc  // truncations (C06)
	generators["frhost"] = genFRHostile // hostile input (C07)
	generators["frfail"] = genFRFail    // failing / fragmenting sources (C15)
	generators["conc"] = genConc        // concurrent pipelines under schedule perturbation (C08 C14)
}

var levels = []int{0, 0, 0, 512, 1024, 2048, 4096, 8192, 16384, 32768, 65536, 131072}
var blockSizes = []int{65536, 65536, 65536, 65536, 262144, 1048576, 4194304}

type wopts struct{ bs, bc, cc, sz, lvl, conc, leg int }

func (o wopts) String() string {
	return fmt.Sprintf("bs=%d,bc=%d,cc=%d,sz=%d,lvl=%d,conc=%d,leg=%d", o.bs, o.bc, o.cc, o.sz, o.lvl, o.conc, o.leg)
}

func randOpts(r *Rng, thorough bool) wopts {
	o := wopts{bs: r.Pick(blockSizes), bc: r.Intn(2), cc: r.Intn(2), lvl: r.Pick(levels), conc: r.Pick([]int{1, 1, 2, 4, 0})}
	if !thorough && o.bs > 262144 && r.Intn(3) != 0 {
		o.bs = 65536
	}
	if r.Intn(4) == 0 {
		o.sz = 1 + r.Intn(1<<20)
	}
	if r.Intn(8) == 0 {
		o.leg = 1
	}
	return o
}

// a data token of about n bytes whose kind is cheap enough for the level
func dataTok(r *Rng, n int, lvl int) string {
	kinds := []int{0, 1, 2, 3, 4, 5, 6, 7}
	if lvl >= 4096 {
		kinds = []int{0, 2, 5, 6, 7}
		if n > 100000 {
			n = 100000
		}
	}
	return fmt.Sprintf("%d.%d.%d", r.Pick(kinds), r.Intn(1000), n)
}

func sizesFor(r *Rng, bs int) []int {
	return []int{0, 1, r.Intn(100), bs - 1, bs, bs + 1, 2 * bs, 3*bs + 7, r.Intn(3 * bs)}
}

// splitWrites delivers a total of n bytes of one kind as several writes with flushes in between
func splitWrites(r *Rng, n, lvl int) []string {
	var ops []string
	for n > 0 {
		k := 1 + r.Intn(n)
		if r.Intn(3) == 0 && k > 10 {
			k = r.Intn(10) + 1
		}
		ops = append(ops, "w:"+dataTok(r, k, lvl))
		n -= k
		if r.Intn(4) == 0 {
			ops = append(ops, "f")
		}
	}
	return ops
}

func genFW(w *bufio.Writer, thorough bool, r *Rng) {
	n := 260
	if thorough {
		n = 2500
	}
	for i := 0; i < n; i++ {
		o := randOpts(r, thorough)
		bs := o.bs
		if o.leg == 1 {
			bs = 8 << 20
		}
		sz := r.Pick(sizesFor(r, o.bs))
		if o.leg == 1 && !thorough {
			sz = r.Pick([]int{0, 1, 1000, 70000, 200000})
		}
		if thorough && o.leg == 1 && r.Intn(6) == 0 {
			sz = r.Pick([]int{bs, bs + 1, 2*bs + 5})
		}
		var ops []string
		ops = append(ops, "A:"+o.String())
		switch r.Intn(4) {
		case 0: // one Write
			ops = append(ops, "w:"+dataTok(r, sz, o.lvl))
		case 1, 2: // several writes and flushes
			ops = append(ops, splitWrites(r, sz, o.lvl)...)
		default: // ReadFrom with fragmentation (last field: data with EOF, zero-length reads, both)
			ops = append(ops, fmt.Sprintf("rf:%s:%d:-1:%d", dataTok(r, sz, o.lvl), r.Pick([]int{0, 0, 1, 7, 4096, 65536, 100000}), r.Intn(4)))
		}
		ops = append(ops, "c")
		fmt.Fprintf(w, "W -1 %s\n", strings.Join(ops, " "))
	}
	// blocks larger than the 64 KiB window: content that repeats with period exactly 65536 (one beyond
	// the largest offset) and early noise repeated at distance 65535 / 65536 / 65537 after a long run
	edge := 4
	if thorough {
		edge = 40
	}
	for i := 0; i < edge; i++ {
		chunk := r.Bytes(65536)
		var c1 []byte
		for k := 0; k < 2+i%3; k++ {
			c1 = append(c1, chunk...)
		}
		c1 = append(c1, r.Bytes(r.Intn(50))...)
		dist := []int{65536, 65535, 65537}[i%3]
		c2 := r.Bytes(dist + 2000)
		for k := range c2 {
			if c2[k] == 0 {
				c2[k] = 1
			}
		}
		from := 16 + i%12 + r.Intn(40)
		for k := 128 + r.Intn(64); k < from+dist; k++ {
			c2[k] = 0
		}
		copy(c2[from+dist:], c2[from:from+20+r.Intn(80)])
		for _, c := range [][]byte{c1, c2} {
			o := wopts{bs: r.Pick([]int{262144, 1048576, 4194304}), bc: r.Intn(2), cc: 1, lvl: r.Pick([]int{0, 0, 512, 2048}), conc: r.Pick([]int{1, 1, 4})}
			fmt.Fprintf(w, "W -1 A:%s w:%s c\n", o.String(), saveBlob("edge", c))
		}
	}
	// two frames through one Writer: the declared content size and the other options persist across Reset
	for i := 0; i < 10; i++ {
		sz := r.Pick([]int{5, 100, 70000})
		o := wopts{bs: 65536, bc: r.Intn(2), cc: r.Intn(2), sz: sz, lvl: 0, conc: r.Pick([]int{1, 2})}
		more := []string{"", "A:bc=1", "A:cc=0,lvl=512"}[r.Intn(3)]
		ops := []string{"A:" + o.String(), "w:" + dataTok(r, sz, 0), "c", "R:-1"}
		if more != "" {
			ops = append(ops, more)
		}
		ops = append(ops, "w:"+dataTok(r, sz, 0), "c")
		fmt.Fprintf(w, "W -1 %s\n", strings.Join(ops, " "))
	}
	// crafted: block / content whose XXH32 is 0 (27 11 4b 23), with block checksums
	fmt.Fprintf(w, "W -1 A:bs=65536,bc=1,cc=1,sz=0,lvl=0,conc=1,leg=0 w:x27114b23 c\n")
	fmt.Fprintf(w, "W -1 A:bs=65536,bc=1,cc=0,sz=4,lvl=512,conc=2,leg=0 w:x27114b23 f w:x27114b23 c\n")
	fmt.Fprintf(w, "W -1 A:sz=5 A:bc=1 w:x68656c6c6f c\n")
}

func genFWck(w *bufio.Writer, thorough bool, r *Rng) {
	n := 60
	if thorough {
		n = 600
	}
	for i := 0; i < n; i++ {
		sz := r.Pick([]int{0, 1, 15, 16, 17, 100, 65536, 70000, 140000})
		o := wopts{bs: r.Pick([]int{65536, 65536, 262144}), bc: 1, cc: 1, sz: sz, lvl: r.Pick([]int{0, 0, 512}), conc: r.Pick([]int{1, 1, 2})}
		if r.Intn(5) == 0 {
			o.sz = 1 + r.Intn(1<<30) // any declared size goes into the header checksum
		}
		ops := []string{"A:" + o.String()}
		switch r.Intn(3) {
		case 0:
			ops = append(ops, "w:"+dataTok(r, sz, o.lvl))
		case 1:
			ops = append(ops, splitWrites(r, sz, o.lvl)...)
		default:
			rsz := r.Pick([]int{0, o.bs, 2 * o.bs, sz})
			ops[0] = "A:" + strings.Replace(o.String(), fmt.Sprintf("sz=%d", o.sz), fmt.Sprintf("sz=%d", rsz), 1)
			ops = append(ops, fmt.Sprintf("rf:%s:%d:-1:%d", dataTok(r, rsz, o.lvl), r.Pick([]int{0, 4096}), r.Intn(2)))
		}
		ops = append(ops, "c")
		fmt.Fprintf(w, "W -1 %s\n", strings.Join(ops, " "))
	}
	// a concurrent Writer dropped with blocks in flight (no Close), then a second frame: its content checksum is its own
	for i := 0; i < 8; i++ {
		fmt.Fprintf(w, "W -1 A:bs=65536,bc=%d,cc=1,sz=0,lvl=0,conc=%d,leg=0 w:%s %sR:-1 w:%s c\n", r.Intn(2), r.Pick([]int{2, 4}),
			dataTok(r, r.Pick([]int{200000, 300000}), 0), []string{"", "f "}[r.Intn(2)], dataTok(r, r.Pick([]int{100, 70000}), 0))
	}
	// a Write / Flush boundary right after a stripe that zeroes the four lanes of the content checksum
	for i := 0; i < 12; i++ {
		pre := r.Bytes(16 * r.Intn(4))
		in := append(append([]byte{}, pre...), zeroStripe(pre)...)
		rest := r.Bytes(1 + r.Intn(50))
		fmt.Fprintf(w, "W -1 A:bs=65536,bc=%d,cc=1,sz=0,lvl=0,conc=%d,leg=0 w:x%s f w:x%s c\n", r.Intn(2), r.Pick([]int{1, 2}), hx(in), hx(rest))
	}
}

func genFRck(w *bufio.Writer, thorough bool, r *Rng) {
	n := 30
	if thorough {
		n = 300
	}
	for i := 0; i < n; i++ {
		nb := 1 + r.Intn(4)
		content := genContent(r.Pick([]int{0, 1, 5, 7}), r.Intn(1000), nb*65536-r.Intn(60000))
		fo := frameOpts{bsCode: 4, blockSize: 65536, bc: true, cc: true, size: -1, rawEvery: r.Pick([]int{0, 1, 2})}
		if r.Intn(3) == 0 {
			fo.size = int64(len(content))
		}
		frame, fields := buildFrame(content, fo, r)
		cref := saveBlob("ckc", content)
		conc := r.Pick([]int{1, 1, 2, 4})
		ops := []string{"wt:-1", fmt.Sprintf("r:%d r:%d r:9", len(content)+1, len(content)+1), "r:1000 r:100000 r:100000 r:100000 r:100000 r:9"}[r.Intn(3)]
		fmt.Fprintf(w, "R %d %s 0 -1 0 %s E:%s\n", conc, saveBlob("ck", frame), ops, cref)
		// fields: 0 magic, 1 FLG, 2 HC, then per block size/payload/checksum, then end mark, content checksum
		flip := func(pos int, exp string) {
			if pos < 0 || pos >= len(frame) {
				return
			}
			bad := append([]byte{}, frame...)
			bad[pos] ^= byte(1 << uint(r.Intn(8)))
			fmt.Fprintf(w, "R %d %s 0 -1 0 %s X:%s P:%s\n", conc, saveBlob("ckbad", bad), ops, exp, cref)
		}
		flip(fields[3], "badhdrck")
		blk := r.Intn(nb)
		if 4+3*blk+2 < len(fields) {
			flip(fields[4+3*blk+1]+r.Intn(5), "badblkck") // payload
			flip(fields[4+3*blk+2]+r.Intn(4), "badblkck") // checksum word
		}
		flip(len(frame)-1-r.Intn(4), "badframeck")
	}
}

func genFWLife(w *bufio.Writer, thorough bool, r *Rng) {
	alphabet := func(r *Rng) string {
		switch r.Intn(14) {
		case 0:
			return "A:" + randOpts(r, false).String()
		case 1:
			return "A:bs=12345" // invalid
		case 2:
			return "A:lvl=3" // invalid
		case 3, 4:
			return "w:" + dataTok(r, r.Intn(200), 0)
		case 5:
			return "w:" + dataTok(r, 65536+r.Intn(10), 0)
		case 6:
			return fmt.Sprintf("rf:%s:0:-1:0", dataTok(r, r.Pick([]int{0, 10, 65536, 70000}), 0))
		case 7, 8:
			return "f"
		case 9, 10:
			return "c"
		case 11:
			return "R:-1"
		case 12:
			return "A:bc=1,cc=0"
		default:
			return "A:conc=" + fmt.Sprint(r.Pick([]int{1, 2, 4}))
		}
	}
	// a Writer dropped in the middle of a frame (or after a sink failure) and reused with another block size
	dn := 24
	if thorough {
		dn = 200
	}
	firsts := []string{"bs=4194304", "bs=1048576", "bs=262144", "leg=1", "bs=65536", "leg=1,bs=262144"}
	seconds := []string{"bs=65536", "leg=0", "bs=262144", "leg=0,bs=65536", "bs=1048576", "leg=0,bs=262144"}
	if dn < len(firsts)*len(seconds) {
		dn = len(firsts) * len(seconds)
	}
	for i := 0; i < dn; i++ {
		// every (first, second) pair at least once
		first, second := firsts[i%len(firsts)], seconds[i/len(firsts)%len(seconds)]
		if i%3 == 0 { // a declared content size for the first frame, explicitly none for the second
			first += fmt.Sprintf(",sz=%d", 1+r.Intn(100000))
			second += ",sz=0"
		}
		conc := r.Pick([]int{1, 1, 2, 4})
		fa := -1
		if r.Intn(3) == 0 {
			fa = r.Intn(3)
		}
		mid := []string{"", "f", "c", "f c"}[r.Intn(4)]
		ops := []string{fmt.Sprintf("A:%s,conc=%d", first, conc), "w:" + dataTok(r, r.Pick([]int{1, 100, 70000}), 0)}
		if mid != "" {
			ops = append(ops, strings.Fields(mid)...)
		}
		ops = append(ops, "R:-1", "A:"+second, "w:"+dataTok(r, r.Pick([]int{70000, 140000, 300000}), 0))
		if r.Bool() {
			ops = append(ops, "f", "w:"+dataTok(r, 66000, 0))
		}
		ops = append(ops, "c")
		// and a third frame: what a Reset restores must not come back once it was overridden
		switch r.Intn(3) {
		case 0:
			ops = append(ops, "R:-1", "w:"+dataTok(r, r.Pick([]int{100, 70000, 300000}), 0), "c")
		case 1:
			ops = append(ops, "R:-1", "A:bc=1", "w:"+dataTok(r, r.Pick([]int{100, 70000, 300000}), 0), "c")
		}
		fmt.Fprintf(w, "W %d %s\n", fa, strings.Join(ops, " "))
	}
	n := 1500
	if thorough {
		n = 20000
	}
	for i := 0; i < n; i++ {
		k := 1 + r.Intn(7)
		ops := []string{"A:bs=65536,conc=" + fmt.Sprint(r.Pick([]int{1, 1, 2, 4}))}
		for j := 0; j < k; j++ {
			ops = append(ops, alphabet(r))
		}
		if r.Intn(2) == 0 {
			ops = append(ops, "c")
		}
		fmt.Fprintf(w, "W -1 %s\n", strings.Join(ops, " "))
	}
}

func genFWFail(w *bufio.Writer, thorough bool, r *Rng) {
	n := 60
	if thorough {
		n = 600
	}
	for i := 0; i < n; i++ {
		o := randOpts(r, false)
		o.bs = 65536
		if o.conc == 0 {
			o.conc = 2
		}
		sz := r.Pick([]int{0, 10, 65536, 70000, 140000, 200000})
		var ops []string
		ops = append(ops, "A:"+o.String())
		if r.Intn(3) == 0 {
			ops = append(ops, fmt.Sprintf("rf:%s:%d:-1:0", dataTok(r, sz, o.lvl), r.Pick([]int{0, 5000})))
		} else {
			ops = append(ops, splitWrites(r, sz, o.lvl)...)
		}
		ops = append(ops, "c")
		// every k up to a little beyond the number of sink calls of the fault-free run
		maxCalls := 2 + 3*(sz/65536+2)
		for k := 0; k <= maxCalls; k++ {
			ops2 := append([]string{}, ops...)
			fmt.Fprintf(w, "W %d %s\n", k, strings.Join(ops2, " "))
			if o.conc != 1 && k > 0 {
				// the same session with a *transient* failure: only this one call fails, the sink works again
				// afterwards.  Every call index (size word, data and block checksum writes alike; with block
				// checksums the data writes are the calls 2, 5, 8, …).  Concurrent Writers only: they never touch
				// the sink again after a failure, so the outcome must be that of a lasting failure (a sequential
				// Writer whose Flush failed retries the block on the next Flush, by design)
				fmt.Fprintf(w, "W %d! %s\n", k, strings.Join(ops2, " "))
			}
		}
	}
	// failing source for ReadFrom
	for i := 0; i < n; i++ {
		sz := r.Pick([]int{10, 65536, 70000, 140000})
		for k := 0; k < 6; k++ {
			fmt.Fprintf(w, "W -1 A:bs=65536,conc=%d rf:%s:%d:%d:0 c\n", r.Pick([]int{1, 2}), dataTok(r, sz, 0), r.Pick([]int{0, 30000}), k)
		}
	}
}

// ---------------- Reader side ----------------

// makeFrame builds a frame with the real Writer (for inputs only; judged by the spec).
func realFrame(content []byte, o wopts) []byte {
	var out bytes.Buffer
	zw := lz4.NewWriter(&out)
	opts, _ := parseOptsGo(o.String())
	if err := zw.Apply(opts...); err != nil {
		panic(err)
	}
	_, _ = zw.Write(content)
	_ = zw.Close()
	return out.Bytes()
}

// realFrameFlushed: the same content written as short chunks, each followed by Flush, then the rest
func realFrameFlushed(content []byte, o wopts, r *Rng) []byte {
	var out bytes.Buffer
	zw := lz4.NewWriter(&out)
	opts, _ := parseOptsGo(o.String())
	if err := zw.Apply(opts...); err != nil {
		panic(err)
	}
	p := 0
	for k := 1 + r.Intn(3); k > 0 && p < len(content); k-- {
		n := 1 + r.Intn(200)
		if p+n > len(content) {
			n = len(content) - p
		}
		_, _ = zw.Write(content[p : p+n])
		_ = zw.Flush()
		p += n
	}
	_, _ = zw.Write(content[p:])
	_ = zw.Close()
	return out.Bytes()
}

func readPattern(r *Rng, total int, bs int) []string {
	var ops []string
	switch r.Intn(5) {
	case 0:
		return []string{"wt:-1", "r:10"}
	case 1: // large buffers: direct path
		for got := 0; got <= total; got += bs {
			ops = append(ops, fmt.Sprintf("r:%d", bs+r.Intn(3)*bs))
		}
	case 2: // tiny buffers
		k := 1 + r.Intn(7)
		for got := 0; got <= total && len(ops) < 40; got += k {
			ops = append(ops, fmt.Sprintf("r:%d", k))
		}
		ops = append(ops, fmt.Sprintf("r:%d", total+10))
	default: // mixed
		for got := 0; got <= total && len(ops) < 60; {
			k := r.Pick([]int{0, 1, 100, 4096, bs - 1, bs, bs + 1, 3 * bs, r.Intn(2*bs) + 1})
			ops = append(ops, fmt.Sprintf("r:%d", k))
			got += k
		}
		ops = append(ops, fmt.Sprintf("r:%d", total+10))
	}
	ops = append(ops, "r:5", "s")
	return ops
}

type builtFrame struct {
	ref     string
	content string
	bs      int
	frame   []byte
	fields  []int
	clen    int
	legacy  bool
}

// someFrames produces a variety of valid frames: real Writer and the independent builder
func someFrames(r *Rng, n int, thorough bool) []builtFrame {
	var out []builtFrame
	for i := 0; i < n; i++ {
		var bf builtFrame
		if r.Intn(2) == 0 {
			o := randOpts(r, thorough)
			o.conc = 1
			if o.lvl > 2048 {
				o.lvl = 512
			}
			sz := r.Pick(sizesFor(r, o.bs))
			if o.leg == 1 {
				sz = r.Pick([]int{0, 1, 1000, 70000, 200000})
			}
			content := genContent(r.Intn(8), r.Intn(1000), sz)
			bf.frame = realFrame(content, o)
			if o.leg == 0 && sz > 300 && r.Intn(3) == 0 {
				// written with Flushes after short chunks: small blocks followed by larger ones
				bf.frame = realFrameFlushed(content, o, r)
			}
			bf.bs = o.bs
			bf.legacy = o.leg == 1
			if bf.legacy {
				bf.bs = 8 << 20
			}
			bf.content = saveBlob("content", content)
			bf.clen = len(content)
		} else {
			fo := frameOpts{bsCode: 4 + r.Intn(2), dep: r.Intn(3) != 0, bc: r.Bool(), cc: r.Bool(), size: -1}
			max := 65536 << (2 * uint(fo.bsCode-4))
			fo.blockSize = r.Pick([]int{7, 100, 4096, 40000, 65535, 65536, max})
			if fo.blockSize > max {
				fo.blockSize = max
			}
			if r.Intn(3) == 0 {
				fo.rawEvery = 1 + r.Intn(3)
			}
			if r.Intn(4) == 0 {
				fo.skipFrames = 1 + r.Intn(2)
			}
			fo.varBlocks = r.Intn(3) == 0
			sz := r.Pick([]int{0, 1, 50, 5000, 70000, 140000, 200000, 300000})
			if fo.blockSize < 200 && sz > 5000 {
				sz = 5000
			}
			if r.Intn(4) == 0 {
				fo.size = int64(sz)
			}
			content := genContent(r.Pick([]int{1, 3, 4, 5, 1}), r.Intn(1000), sz)
			// plant matches at distance exactly 65535 and across block boundaries
			if sz > 70000 {
				for k := 0; k < 6; k++ {
					p := 65535 + r.Intn(sz-65535-40)
					copy(content[p:p+30], content[p-65535:p-65535+30])
				}
			}
			// ... and one whose source is the very first byte of the frame, in a later block
			if fo.dep && sz > fo.blockSize+100 && fo.blockSize < 65000 {
				p := fo.blockSize*(1+r.Intn(3)) + r.Intn(fo.blockSize)
				if p+40 < sz && p < 65535 {
					copy(content[0:30], r.Bytes(30))
					copy(content[p:p+30], content[0:30])
				}
			}
			bf.frame, bf.fields = buildFrame(content, fo, r)
			bf.bs = max
			bf.content = saveBlob("content", content)
			bf.clen = len(content)
		}
		bf.ref = saveBlob("frame", bf.frame)
		out = append(out, bf)
	}
	return out
}

func genFR(w *bufio.Writer, thorough bool, r *Rng) {
	poolLines(w, r)
	n := 160
	if thorough {
		n = 1500
	}
	for _, bf := range someFrames(r, n, thorough) {
		for k := 0; k < 2; k++ {
			conc := r.Pick([]int{1, 1, 2, 4})
			ops := readPattern(r, bf.clen, bf.bs)
			fmt.Fprintf(w, "R %d %s %d -1 %d %s E:%s\n", conc, bf.ref, r.Pick([]int{0, 0, 1, 3, 4096}), r.Intn(2), strings.Join(ops, " "), bf.content)
		}
	}
	// lifecycle: reuse through Reset, trailing bytes, Read after EOF, Read after WriteTo
	fr := someFrames(r, 20, false)
	for i := 0; i+1 < len(fr); i++ {
		a, b := fr[i], fr[i+1]
		two := saveBlob("two", append(append([]byte{}, a.frame...), b.frame...))
		fmt.Fprintf(w, "R 1 %s 0 -1 0 r:%d r:10 r:10 s R:%s A:conc=%d r:%d r:7 wt:-1\n", two, a.clen+100, b.ref, r.Pick([]int{1, 2}), b.clen+100)
		fmt.Fprintf(w, "R %d %s 0 -1 0 r:3 A:conc=2 wt:-1 r:9 R:%s wt:-1 r:9 s\n", r.Pick([]int{1, 2}), a.ref, b.ref)
	}
	k := 6
	if thorough {
		k = 60
	}
	reuseLines(w, r, k)
	cumLines(w, r, 2*k)
	tinyHistoryLines(w, r)
	// sources that deliver a prefix and then fail, with errors that wrap io.EOF / io.ErrUnexpectedEOF: never a clean end
	for _, bf := range someFrames(r, 2*k, false) {
		if bf.legacy || len(bf.frame) < 20 {
			continue
		}
		for _, kk := range []int{1, 2, 3, 5} {
			ops := []string{"wt:-1", fmt.Sprintf("r:%d r:%d r:9", bf.clen+10, bf.clen+10)}[r.Intn(2)]
			fmt.Fprintf(w, "R %d %s %d %d%s 0 %s X:injected P:%s\n", r.Pick([]int{1, 1, 4}), bf.ref, r.Pick([]int{0, 7, 4096}), kk, []string{"^", "~", "^"}[r.Intn(3)], ops, bf.content)
		}
	}
	// random call sequences over the whole Reader alphabet, on valid and damaged frames
	ln := 300
	if thorough {
		ln = 4000
	}
	var pool []string
	for _, bf := range someFrames(r, 12, false) {
		pool = append(pool, bf.ref)
		if len(bf.frame) > 12 { // a damaged and a truncated version
			bad := append([]byte{}, bf.frame...)
			bad[7+r.Intn(len(bad)-7)] ^= byte(1 << uint(r.Intn(8)))
			pool = append(pool, saveBlob("lifebad", bad), saveBlob("lifecut", bf.frame[:r.Intn(len(bf.frame))]))
		}
	}
	pool = append(pool, "x", "x04224d18", "x00000000")
	for i := 0; i < ln; i++ {
		k := 1 + r.Intn(7)
		var ops []string
		for j := 0; j < k; j++ {
			switch r.Intn(12) {
			case 0, 1, 2:
				ops = append(ops, fmt.Sprintf("r:%d", r.Pick([]int{0, 1, 7, 100, 4096, 70000, 1 << 20})))
			case 3, 4:
				ops = append(ops, "wt:-1")
			case 5:
				ops = append(ops, fmt.Sprintf("wt:%d", r.Intn(3)))
			case 6:
				ops = append(ops, "s")
			case 7, 8:
				ops = append(ops, "R:"+pool[r.Intn(len(pool))])
			case 9:
				ops = append(ops, fmt.Sprintf("A:conc=%d", r.Pick([]int{1, 2, 4})))
			case 10:
				ops = append(ops, "A:"+[]string{"bs=65536", "conc=2,bc=1", "lvl=512", "cc=1,conc=2", "sz=5", "leg=1"}[r.Intn(6)])
			default:
				ops = append(ops, "r:100000", "r:100000")
			}
		}
		fmt.Fprintf(w, "R %d %s %d -1 %d %s\n", r.Pick([]int{1, 1, 2, 4}), pool[r.Intn(len(pool))], r.Pick([]int{0, 0, 3}), r.Intn(2), strings.Join(ops, " "))
	}
}

// magicWords: first words at and around the three magics: every one-bit change of each of them,
// words whose set bits include all those of a magic (what a mask test would accept), and random words.
func magicWords(r *Rng) []uint32 {
	var ws []uint32
	bases := []uint32{0x184D2204, 0x184C2102, 0x184D2A50, 0x184D2A5F, 0x184D2A57}
	for _, b := range bases {
		for bit := uint(0); bit < 32; bit++ {
			ws = append(ws, b^(1<<bit))
		}
		for k := 0; k < 12; k++ {
			ws = append(ws, b|uint32(r.U64()), b&uint32(r.U64()))
		}
		ws = append(ws, b<<8|b>>24, b>>8|b<<24, b<<24|b>>24|(b&0xff00)<<8|(b>>8)&0xff00)
	}
	for x := uint32(0x184D2A40); x <= 0x184D2A70; x++ {
		ws = append(ws, x)
	}
	ws = append(ws, 0, 1, 0xFFFFFFFF, 0x184D2A50|0x20, 0x1C4D2A50, 0x184D2A70, 0x184D2204, 0x184C2102)
	for k := 0; k < 40; k++ {
		ws = append(ws, uint32(r.U64()))
	}
	return ws
}

// poolLines: frames of a large block-size class whose content is exactly the size of a smaller class,
// read with small buffers: what the Reader returns to the shared block pools afterwards must not change
// how later, unrelated streams are treated (the pools are process-wide state).
func poolLines(w *bufio.Writer, r *Rng) {
	for _, big := range []int{4 << 20, 1 << 20, 262144} {
		for _, small := range []int{65536, 262144, 1 << 20} {
			if small >= big {
				continue
			}
			content := genContent(r.Pick([]int{0, 1, 5}), r.Intn(1000), small)
			fr := realFrame(content, wopts{bs: big, cc: 1, conc: 1})
			ref := saveBlob("pool", fr)
			fmt.Fprintf(w, "R %d %s 0 -1 0 r:100 r:%d r:100 r:9 E:%s\n", r.Pick([]int{1, 2}), ref, small, saveBlob("poolc", content))
			fmt.Fprintf(w, "R 1 %s 0 -1 0 wt:-1\n", ref)
		}
	}
	// a 64 KiB-class frame with a stored block just above the class maximum
	hdr, _ := buildFrame(nil, frameOpts{bsCode: 4, cc: false, size: -1, noEndMark: true}, r)
	for _, sz := range []int{65537, 70000, 262144} {
		b := append(append([]byte{}, hdr...), le32b(0x80000000|uint32(sz))...)
		b = append(b, r.Bytes(sz)...)
		b = append(b, 0, 0, 0, 0)
		fmt.Fprintf(w, "R %d %s 0 -1 0 r:100 r:%d r:9 X:badblksize\n", r.Pick([]int{1, 2}), saveBlob("oversz", b), sz)
	}
}

func blobLen(ref string) int { return len(loadBlob(ref)) }

// skipBoundaries: the ends of the leading skippable frames (a stream cut there ends cleanly: it holds
// complete skippable frames and nothing else)
func skipBoundaries(fr []byte) map[int]bool {
	out := map[int]bool{0: true}
	p := 0
	for p+8 <= len(fr) {
		m := binary.LittleEndian.Uint32(fr[p:])
		if m>>4 != 0x184D2A5 {
			break
		}
		p += 8 + int(binary.LittleEndian.Uint32(fr[p+4:]))
		out[p] = true
	}
	return out
}

// reuseLines: a Reader taken through Reset in every state a previous stream can leave it in:
// a partly consumed block (small and large block sizes), a WriteTo that failed on its destination
// while blocks were in flight, a stream read to its end; the next stream may be a legacy frame with
// the Linux-kernel trailer (total uncompressed size), whose recognition depends on a running count.
func reuseLines(w *bufio.Writer, r *Rng, k int) {
	mk := func(sz, bs, leg int) (string, int) {
		content := genContent(r.Pick([]int{0, 1, 5}), r.Intn(1000), sz)
		fr := realFrame(content, wopts{bs: bs, cc: 1, bc: r.Intn(2), conc: 1, leg: leg})
		if leg == 1 && r.Intn(4) != 0 {
			fr = append(fr, le32b(uint32(sz))...) // kernel flavour
		}
		return saveBlob("reuse", fr), sz
	}
	for i := 0; i < k; i++ {
		bigBs := r.Pick([]int{1 << 20, 4 << 20, 262144})
		a, alen := mk(r.Pick([]int{250000, 300000, 700000}), bigBs, 0)
		b, blen := mk(r.Pick([]int{1000, 70000, 140000}), 65536, 0)
		l, llen := mk(r.Pick([]int{1, 1000, 70000}), 65536, 1)
		conc := r.Pick([]int{1, 1, 2, 4})
		part := r.Pick([]int{1, 100, 70000, 200000, alen - 1})
		// partly consumed block, then a frame with smaller blocks
		fmt.Fprintf(w, "R %d %s 0 -1 0 r:%d R:%s r:%d r:%d r:5 s\n", conc, a, part, b, r.Pick([]int{10, 4096, blen + 10}), blen+10)
		fmt.Fprintf(w, "R %d %s 0 -1 0 r:%d R:%s wt:-1 r:5\n", conc, b, r.Pick([]int{1, 30000}), a)
		// a legacy frame (mostly with the kernel trailer) after some other stream
		fmt.Fprintf(w, "R 1 %s 0 -1 0 r:%d r:9 R:%s r:%d r:9 r:9\n", b, blen+10, l, llen+10)
		fmt.Fprintf(w, "R %d %s %d -1 0 r:%d R:%s wt:-1 r:9 R:%s r:%d r:7\n", r.Pick([]int{1, 1, 2}), a, r.Pick([]int{0, 7}), part, l, l, llen+10)
		fmt.Fprintf(w, "R 1 %s 0 -1 0 wt:-1 r:9 R:%s wt:-1\n", l, l)
		// the stream ends in an error at the content checksum (trailer cut short); the Reader is reused, with
		// several block buffers in flight afterwards
		{
			cut := r.Pick([]int{1, 2, 3, 4})
			fmt.Fprintf(w, "R 1 %s#%d 0 -1 0 r:%d r:%d r:9 R:%s A:conc=4 r:%d r:9 R:%s wt:-1\n", b, blobLen(b)-cut, blen+10, blen+10, a, alen+10, b)
		}
		// a stream read to its end by a concurrent Reader, then the next one (what the pipeline recorded at the end
		// of the first must be gone); a frame that declares its size, then one that does not (Size)
		{
			szc := genContent(r.Pick([]int{0, 1, 5}), r.Intn(1000), 2150+r.Intn(70000))
			szf := saveBlob("reusesz", realFrame(szc, wopts{bs: 65536, cc: 1, sz: len(szc), conc: 1}))
			cc := r.Pick([]int{2, 4})
			fmt.Fprintf(w, "R %d %s 0 -1 0 wt:-1 r:9 R:%s r:%d r:9 s R:%s wt:-1\n", cc, b, a, alen+10, b)
			fmt.Fprintf(w, "R %d %s 0 -1 0 r:%d r:9 R:%s#%d r:%d r:9\n", cc, b, blen+10, a, blobLen(a)/2, alen+10)
			// … and onto a frame WITHOUT content checksum that is cut short: still an error, never a clean end
			nc := genContent(r.Pick([]int{0, 1}), r.Intn(1000), 200000)
			nf := saveBlob("reusenocc", realFrame(nc, wopts{bs: 65536, cc: 0, conc: 1}))
			fmt.Fprintf(w, "R %d %s 0 -1 0 wt:-1 R:%s#%d %s X:unexpEOF P:%s\n", cc, b, nf, 20+r.Intn(blobLen(nf)-30), []string{"wt:-1", "r:300000 r:300000 r:9"}[r.Intn(2)], saveBlob("reusenoccc", nc))
			fmt.Fprintf(w, "R %d %s 0 -1 0 s r:%d s R:%s s r:10 s r:%d s R:%s s\n", r.Pick([]int{1, 2}), szf, len(szc)+10, b, blen+10, szf)
			fmt.Fprintf(w, "R 1 %s 0 -1 0 wt:-1 s R:%s s wt:-1 s\n", szf, b)
		}
		// a frame with dependent blocks, then (Reset) one with independent blocks in which a match reaches back
		// before the start of its block: there is nothing there for an independent block, whatever was read before
		{
			dc := genContent(r.Pick([]int{1, 3, 5}), r.Intn(1000), 20000+r.Intn(100000))
			df, _ := buildFrame(dc, frameOpts{bsCode: 4, blockSize: 4096 + r.Intn(60000), dep: true, cc: true, size: -1}, r)
			desc := []byte{1<<6 | 1<<5, 4 << 4} // independent blocks, no checksums
			bad := append(le32b(0x184D2204), desc...)
			bad = append(bad, byte(refXXH32(desc)>>8))
			off := 50 + r.Intn(3000)
			payload := []byte{0x40, 'a', 'b', 'c', 'd', byte(off), byte(off >> 8), 0x50, 'h', 'e', 'l', 'l', 'o'}
			bad = append(bad, le32b(uint32(len(payload)))...)
			bad = append(bad, payload...)
			bad = append(bad, 0, 0, 0, 0)
			fmt.Fprintf(w, "R %d %s 0 -1 0 wt:-1 R:%s %s X:shortbuf\n", r.Pick([]int{1, 2}), saveBlob("depfirst", df), saveBlob("staledict", bad), []string{"wt:-1", "r:100 r:9"}[r.Intn(2)])
		}
		// the Reader delivered exactly S bytes; the next stream is a legacy frame whose first block is S bytes
		// long (and cut short): the count kept for the legacy trailer must start from zero again
		{
			lc := genContent(r.Pick([]int{1, 3, 5}), r.Intn(1000), 3000+r.Intn(5000))
			lf := realFrame(lc, wopts{bs: 4 << 20, leg: 1, conc: 1})
			if len(lf) > 12 {
				S := int(binary.LittleEndian.Uint32(lf[4:]))
				first := realFrame(r.Bytes(S), wopts{bs: 65536, cc: 1, conc: 1})
				lref, lcref := saveBlob("cumleg", lf), saveBlob("cumlegc", lc)
				fmt.Fprintf(w, "R 1 %s 0 -1 0 r:%d r:9 R:%s#%d r:%d r:9 X:unexpEOF P:%s\n", saveBlob("cumfirst", first), S+10, lref, 8+S/2, len(lc)+10, lcref)
				fmt.Fprintf(w, "R 1 %s 0 -1 0 wt:-1 R:%s wt:-1 E:%s\n", saveBlob("cumfirst", first), lref, lcref)
			}
		}
		// WriteTo fails on its destination with blocks in flight, then the Reader is reused
		fmt.Fprintf(w, "R %d %s 0 -1 0 wt:%d R:%s wt:-1 r:5\n", r.Pick([]int{2, 4, 8}), a, r.Intn(3), b)
		fmt.Fprintf(w, "R %d %s 0 -1 0 wt:%d R:%s r:%d r:5\n", r.Pick([]int{1, 2, 4}), b, r.Intn(2), a, alen+10)
	}
}

// tinyHistoryLines: dependent-block frames whose first block(s) hold fewer than four bytes, and a later block
// with a match that starts in that tiny history and runs on into its own output
func tinyHistoryLines(w *bufio.Writer, r *Rng) {
	for _, h := range []int{1, 2, 3} {
		for _, split := range []bool{false, true} {
			hist := r.Bytes(h)
			desc := []byte{1 << 6, 4 << 4} // dependent blocks, no checksums
			fr := append(le32b(0x184D2204), desc...)
			fr = append(fr, byte(refXXH32(desc)>>8))
			raw := func(b []byte) {
				fr = append(fr, le32b(0x80000000|uint32(len(b)))...)
				fr = append(fr, b...)
			}
			if split && h > 1 {
				raw(hist[:1])
				raw(hist[1:])
			} else {
				raw(hist)
			}
			ml := 4 + r.Intn(11) // 4..14
			payload := []byte{byte(ml - 4), byte(h), 0, 0x50, 'h', 'e', 'l', 'l', 'o'}
			fr = append(fr, le32b(uint32(len(payload)))...)
			fr = append(fr, payload...)
			fr = append(fr, 0, 0, 0, 0)
			content := append([]byte{}, hist...)
			for k := 0; k < ml; k++ {
				content = append(content, content[len(content)-h])
			}
			content = append(content, "hello"...)
			ref, cref := saveBlob("tinyhist", fr), saveBlob("tinyhistc", content)
			fmt.Fprintf(w, "R %d %s 0 -1 0 %s E:%s\n", r.Pick([]int{1, 4}), ref, []string{"wt:-1", "r:100 r:9", "r:1 r:1 r:1 r:100 r:9"}[r.Intn(3)], cref)
		}
	}
}

// cumLines: regular frames in which the size word of a compressed block equals the number of bytes decoded
// before it (the running count that recognises the legacy trailer must not matter outside legacy frames)
func cumLines(w *bufio.Writer, r *Rng, k int) {
	for i := 0; i < k; i++ {
		c2 := genContent(r.Pick([]int{1, 3}), r.Intn(1000), 300+r.Intn(3000))
		p2 := encodeBlock(c2, 0, len(c2), false, r)
		if len(p2) >= len(c2) || len(p2) < 20 {
			continue
		}
		c1 := r.Bytes(len(p2)) // decoded before block 2: exactly len(p2) bytes
		c3 := r.Bytes(1 + r.Intn(50))
		dep, bc, cc := r.Bool(), r.Bool(), r.Bool()
		flg := byte(1 << 6)
		if !dep {
			flg |= 1 << 5
		}
		if bc {
			flg |= 1 << 4
		}
		if cc {
			flg |= 1 << 2
		}
		desc := []byte{flg, 4 << 4}
		fr := append(le32b(0x184D2204), desc...)
		fr = append(fr, byte(refXXH32(desc)>>8))
		blk := func(payload []byte, raw bool) {
			x := uint32(len(payload))
			if raw {
				x |= 1 << 31
			}
			fr = append(fr, le32b(x)...)
			fr = append(fr, payload...)
			if bc {
				fr = append(fr, le32b(refXXH32(payload))...)
			}
		}
		blk(c1, true)
		blk(p2, false)
		blk(c3, true)
		fr = append(fr, 0, 0, 0, 0)
		content := append(append(append([]byte{}, c1...), c2...), c3...)
		if cc {
			fr = append(fr, le32b(refXXH32(content))...)
		}
		ref, cref := saveBlob("cum", fr), saveBlob("cumc", content)
		for _, conc := range []int{1, 4} {
			ops := []string{"wt:-1", fmt.Sprintf("r:%d r:%d r:9", len(content)+10, len(content)+10), "r:50 r:7 r:100000 r:100000 r:9"}[r.Intn(3)]
			fmt.Fprintf(w, "R %d %s 0 -1 0 %s E:%s\n", conc, ref, ops, cref)
		}
	}
}

func genFRMut(w *bufio.Writer, thorough bool, r *Rng) {
	poolLines(w, r)
	n := 60
	per := 40
	if thorough {
		n, per = 400, 80
	}
	frames := someFrames(r, n, thorough)
	// a skippable frame in front whose length has its top bit set (2 GiB and more: the stream is far too short)
	for i := 0; i < 8 && i < len(frames); i++ {
		bf := frames[i]
		if bf.legacy || len(bf.frame) > 400000 {
			continue
		}
		k := r.Intn(20)
		b := append(le32b(0x184D2A50+uint32(r.Intn(16))), le32b(0x80000000|uint32(k))...)
		b = append(b, r.Bytes(k)...)
		b = append(b, bf.frame...)
		fmt.Fprintf(w, "R %d %s 0 -1 0 %s X:unexpEOF\n", r.Pick([]int{1, 4}), saveBlob("skiptop", b), []string{"wt:-1", "r:100000 r:100000 r:9"}[r.Intn(2)])
	}
	for fi, bf := range frames {
		if len(bf.frame) > 400000 {
			continue
		}
		for k := 0; k < per; k++ {
			m := append([]byte{}, bf.frame...)
			switch r.Intn(8) {
			case 0, 1, 2: // bit flip at / near a structural field
				var p int
				if len(bf.fields) > 0 {
					p = bf.fields[r.Intn(len(bf.fields))] + r.Intn(4)
				} else {
					p = r.Pick([]int{0, 4, 5, 6, 7, 8, 9, 10, 11, len(m) - 1, len(m) - 4, len(m) - 5, len(m) - 8})
				}
				if p < 0 || p >= len(m) {
					p = r.Intn(len(m))
				}
				m[p] ^= 1 << uint(r.Intn(8))
			case 3: // random bit flip anywhere
				m[r.Intn(len(m))] ^= 1 << uint(r.Intn(8))
			case 4: // several flips
				for j := 0; j < 3; j++ {
					m[r.Intn(len(m))] ^= byte(1 + r.Intn(255))
				}
			case 5: // splice with another frame
				o := frames[r.Intn(len(frames))].frame
				c1, c2 := r.Intn(len(m)), r.Intn(len(o))
				m = append(append([]byte{}, m[:c1]...), o[c2:]...)
			case 6: // duplicate / delete / swap a region between two fields
				if len(bf.fields) >= 4 {
					i := 2 + r.Intn(len(bf.fields)-3)
					a, b := bf.fields[i], bf.fields[i+1]
					switch r.Intn(3) {
					case 0:
						m = append(append(append([]byte{}, m[:b]...), m[a:b]...), m[b:]...)
					case 1:
						m = append(append([]byte{}, m[:a]...), m[b:]...)
					default:
						m = append(append([]byte{}, m[:a]...), m[b:]...)
						m = append(m, bf.frame[a:b]...)
					}
				} else {
					m[r.Intn(len(m))] ^= 0x80
				}
			default: // byte substitution in the trailer, or 00 / ff at a structural field
				if r.Bool() && len(bf.fields) > 0 {
					p := bf.fields[r.Intn(len(bf.fields))] + r.Intn(4)
					if p >= len(m) {
						p = len(m) - 1
					}
					m[p] = byte(r.Pick([]int{0, 0, 255}))
				} else if len(m) > 8 {
					m[len(m)-1-r.Intn(8)] = byte(r.Intn(256))
				}
			}
			if len(m) == 0 {
				continue
			}
			ref := "x" + hx(m)
			if len(m) > 300 {
				ref = saveBlob(fmt.Sprintf("mut%d", fi), m)
			}
			ops := []string{"wt:-1"}
			if r.Intn(2) == 0 {
				ops = []string{fmt.Sprintf("r:%d", r.Pick([]int{bf.bs * 2, 4096, 100})), fmt.Sprintf("r:%d", bf.clen+bf.bs), fmt.Sprintf("r:%d", bf.clen+bf.bs), "r:5"}
			}
			fmt.Fprintf(w, "R %d %s 0 -1 0 %s\n", r.Pick([]int{1, 1, 4}), ref, strings.Join(ops, " "))
		}
	}
}

func genFRTrunc(w *bufio.Writer, thorough bool, r *Rng) {
	poolLines(w, r)
	legacyTwoBlocks(w, r)
	reuseLines(w, r, 2) // among them: a trailer cut short, then the Reader is reused
	n := 14
	if thorough {
		n = 400
	}
	for _, bf := range someFrames(r, n, thorough) {
		cuts := map[int]bool{}
		L := len(bf.frame)
		if L <= 200 {
			for c := 1; c < L; c++ {
				cuts[c] = true
			}
		} else {
			for _, f := range bf.fields {
				for d := -3; d <= 3; d++ {
					cuts[f+d] = true
				}
			}
			for _, c := range []int{1, 2, 3, 4, 5, 6, 7, 8, 11, 15, 19, L - 1, L - 2, L - 4, L - 5, L - 8, L - 9} {
				cuts[c] = true
			}
			for k := 0; k < 6; k++ {
				cuts[1+r.Intn(L-1)] = true
			}
		}
		frameStart := 0
		if len(bf.fields) > 0 {
			frameStart = bf.fields[0]
		}
		bounds := skipBoundaries(bf.frame)
		for c := range cuts {
			// a cut at the very start of the frame proper (after leading skippable frames) leaves no frame at all
			if c < 1 || c >= L || c == frameStart || bounds[c] {
				continue
			}
			// a legacy frame cut right after its magic is an empty legacy frame
			if bf.legacy && c == frameStart+4 {
				continue
			}
			// legacy frames: a cut on a block boundary is a valid shorter frame; the impl cannot know, so
			// legacy truncations are only generated strictly inside the first block header/payload
			if bf.legacy && c > 8 {
				continue
			}
			ops := "wt:-1"
			if c%2 == 0 {
				ops = fmt.Sprintf("r:%d r:%d r:%d r:9", r.Pick([]int{100, bf.bs, 5000}), bf.clen+bf.bs, bf.clen+bf.bs)
			}
			// the last source field 4 = the source is also an io.Seeker (a file, a bytes.Reader): seeking past its end succeeds
			fmt.Fprintf(w, "R %d %s#%d 0 -1 %d %s P:%s\n", r.Pick([]int{1, 1, 4}), bf.ref, c, r.Pick([]int{0, 0, 4}), ops, bf.content)
		}
	}
}

// legacyTwoBlocks: legacy frames have no end mark; a cut that is not on a block boundary must still be an error
func legacyTwoBlocks(w *bufio.Writer, r *Rng) {
	content := genContent(r.Pick([]int{2, 3}), r.Intn(1000), (8<<20)+1000+r.Intn(5000))
	fr := realFrame(content, wopts{bs: 4 << 20, leg: 1, conc: 1})
	ref, cref := saveBlob("leg2", fr), saveBlob("leg2c", content)
	// find the second block: magic(4) size(4) payload ...
	sz1 := int(binary.LittleEndian.Uint32(fr[4:]))
	second := 8 + sz1
	for _, c := range []int{second + 1, second + 3, second + 4 + r.Intn(len(fr)-second-5), len(fr) - 1} {
		if c <= second || c >= len(fr) {
			continue
		}
		ops := []string{"wt:-1", "r:4194304 r:4194304 r:4194304 r:4194304 r:9", "r:9000000 r:9000000 r:9"}[r.Intn(3)]
		fmt.Fprintf(w, "R 1 %s#%d 0 -1 0 %s X:unexpEOF P:%s\n", ref, c, ops, cref)
	}
}

func genFRHostile(w *bufio.Writer, thorough bool, r *Rng) {
	poolLines(w, r)
	n := 400
	if thorough {
		n = 6000
	}
	ops := func() string {
		if r.Bool() {
			return "wt:-1"
		}
		return "r:100 r:70000 r:5000000 r:10"
	}
	// random bytes, with and without a valid magic / header in front
	for i := 0; i < n; i++ {
		b := r.Bytes(r.Intn(300))
		switch r.Intn(4) {
		case 0:
			b = append(le32b(0x184D2204), b...)
		case 1:
			hdr, _ := buildFrame(nil, frameOpts{bsCode: 4 + r.Intn(4), bc: r.Bool(), cc: r.Bool(), size: -1, noEndMark: true}, r)
			b = append(hdr, b...)
		case 2:
			b = append(le32b(0x184C2102), b...)
		}
		fmt.Fprintf(w, "R %d x%s 0 -1 0 %s\n", r.Pick([]int{1, 4}), hx(b), ops())
	}
	// hostile field values
	hdr, _ := buildFrame(nil, frameOpts{bsCode: 4, cc: true, size: -1, noEndMark: true}, r)
	hdr = hdr[:7]
	for _, sz := range []uint32{0x7FFFFFFF, 0xFFFFFFFF, 0x80000000, 0x00010001, 0x80010001, 65537, 65536} {
		b := append(append([]byte{}, hdr...), le32b(sz)...)
		b = append(b, r.Bytes(100)...)
		fmt.Fprintf(w, "R 1 x%s 0 -1 0 %s\n", hx(b), ops())
		fmt.Fprintf(w, "R 4 x%s 0 -1 0 %s\n", hx(b), ops())
	}
	big, _ := buildFrame([]byte("hello"), frameOpts{bsCode: 7, cc: true, size: -1}, r)
	_ = big
	for _, csz := range []int64{1<<63 - 1, 1 << 62, 0} {
		f, _ := buildFrame([]byte("hello hello hello hello"), frameOpts{bsCode: 4, cc: true, size: csz}, r)
		fmt.Fprintf(w, "R 1 x%s 0 -1 0 s r:100 s r:10\n", hx(f))
	}
	// skippable frames: every magic near the reserved ranges
	valid, _ := buildFrame([]byte("skipped ok"), frameOpts{bsCode: 4, cc: true, size: -1}, r)
	step := 257
	if thorough {
		step = 1
	}
	for x := 0; x < 65536; x += step {
		m := uint32(0x184D0000 | x)
		b := append(le32b(m), le32b(3)...)
		b = append(b, 1, 2, 3)
		b = append(b, valid...)
		if m >= 0x184D2A50 && m <= 0x184D2A5F {
			fmt.Fprintf(w, "R 1 x%s 0 -1 0 wt:-1 X:eof E:x%s\n", hx(b), hx([]byte("skipped ok")))
		} else if m != 0x184D2204 {
			fmt.Fprintf(w, "R 1 x%s 0 -1 0 wt:-1 X:badmagic\n", hx(b))
		}
	}
	for _, m := range magicWords(r) {
		b := append(le32b(m), le32b(3)...)
		b = append(b, 1, 2, 3)
		b = append(b, valid...)
		if m >= 0x184D2A50 && m <= 0x184D2A5F {
			fmt.Fprintf(w, "R %d x%s 0 -1 0 wt:-1 X:eof E:x%s\n", r.Pick([]int{1, 2}), hx(b), hx([]byte("skipped ok")))
		} else if m != 0x184D2204 && m != 0x184C2102 {
			fmt.Fprintf(w, "R %d x%s 0 -1 0 r:100 X:badmagic\n", r.Pick([]int{1, 2}), hx(b))
		}
	}
	for _, m := range []uint32{0x184D2A4F, 0x184D2A50, 0x184D2A51, 0x184D2A5E, 0x184D2A5F, 0x184D2A60, 0x184D2A00, 0x184D2AFF, 0x184D2203, 0x184D2205, 0x184C2101, 0x184C2103} {
		for _, skip := range []uint32{0, 3, 100, 0xFFFFFFFF, 0x80000000, 0x80000003, 0x80000010, 0x7FFFFFFF} {
			b := append(le32b(m), le32b(skip)...)
			b = append(b, 1, 2, 3)
			b = append(b, valid...)
			x := ""
			if m >= 0x184D2A50 && m <= 0x184D2A5F {
				if skip == 3 {
					x = " X:eof E:x" + hx([]byte("skipped ok"))
				}
			} else if m != 0x184D2204 && m != 0x184C2102 {
				x = " X:badmagic"
			}
			fmt.Fprintf(w, "R 1 x%s 0 -1 0 wt:-1%s\n", hx(b), x)
		}
	}
	// long repetitions of a single field
	// (the harness caps goroutine stacks at 32 MiB: a parser that recursed once per field would die here)
	reps := 300000
	if thorough {
		reps = 2000000
	}
	var rep bytes.Buffer
	rep.Write(le32b(0x184C2102))
	rep.Write(le32b(1))
	rep.WriteByte(0)
	for i := 0; i < reps; i++ {
		rep.Write(le32b(0x184C2102))
	}
	fmt.Fprintf(w, "R 1 %s 0 -1 0 wt:-1\n", saveBlob("legacyrep", rep.Bytes()))
	rep.Reset()
	for i := 0; i < 2*reps; i++ {
		rep.Write(le32b(0x184D2A50 + uint32(i%16)))
		rep.Write(le32b(0))
	}
	rep.Write(valid)
	fmt.Fprintf(w, "R 1 %s 0 -1 0 wt:-1\n", saveBlob("skiprep", rep.Bytes()))
	rep.Reset()
	rep.Write(hdr)
	for i := 0; i < reps/4; i++ {
		rep.Write(le32b(0x80000000))
	}
	fmt.Fprintf(w, "R 1 %s 0 -1 0 wt:-1\n", saveBlob("emptyrep", rep.Bytes()))
	fmt.Fprintf(w, "R 4 %s 0 -1 0 wt:-1\n", saveBlob("emptyrep", rep.Bytes()))
	// several undecodable blocks in a row (a big one cut short, tiny invalid ones), then a valid block
	for i := 0; i < 12; i++ {
		code := 4 + r.Intn(4)
		h2, _ := buildFrame(nil, frameOpts{bsCode: code, bc: false, cc: false, size: -1, noEndMark: true}, r)
		var b bytes.Buffer
		b.Write(h2)
		if r.Bool() {
			junk := r.Bytes(2000 + r.Intn(60000))
			junk[0] = 0xF0 // a literal run that overruns the block
			b.Write(le32b(uint32(len(junk))))
			b.Write(junk)
		}
		for k := 2 + r.Intn(5); k > 0; k-- {
			b.Write(le32b(3))
			b.Write([]byte{0xFF, byte(r.Intn(256)), byte(r.Intn(256))})
		}
		b.Write(le32b(0x80000005))
		b.Write([]byte("hello"))
		b.Write(le32b(0))
		ref := saveBlob("multibad", b.Bytes())
		for _, conc := range []int{1, 2, 4} {
			fmt.Fprintf(w, "R %d %s 0 -1 0 %s X:shortbuf\n", conc, ref, ops())
		}
	}
	// many megabyte-sized dependent blocks from a small input (each block: one literal, a match of a megabyte,
	// five literals): the history kept for dependent blocks must stay a window, not the whole stream
	{
		var fr bytes.Buffer
		desc := []byte{1<<6 | 1<<2, 6 << 4} // version 1, dependent blocks, content checksum; 1 MiB blocks
		fr.Write(le32b(0x184D2204))
		fr.Write(desc)
		fr.WriteByte(byte(refXXH32(desc) >> 8))
		blk := []byte{0x1F, 0x00, 0x01, 0x00}
		for k := 0; k < 4111; k++ {
			blk = append(blk, 0xFF)
		}
		blk = append(blk, 246, 0x50, 0, 0, 0, 0, 0)
		nb := 64
		if thorough {
			nb = 96
		}
		for k := 0; k < nb; k++ {
			fr.Write(le32b(uint32(len(blk))))
			fr.Write(blk)
		}
		fr.Write(le32b(0))
		fr.Write(le32b(refXXH32(make([]byte, nb<<20))))
		ref := saveBlob("bigdep", fr.Bytes())
		fmt.Fprintf(w, "R %d %s %d -1 0 wd r:9\n", r.Pick([]int{1, 4}), ref, r.Pick([]int{0, 4096}))
	}
	// a Reader that meets hostile input after it was used for something else
	reuseLines(w, r, 3)
}

func genFRFail(w *bufio.Writer, thorough bool, r *Rng) {
	n := 40
	if thorough {
		n = 300
	}
	for _, bf := range someFrames(r, n, thorough) {
		if bf.clen > 250000 {
			continue
		}
		// fragmentation must not matter: same frame, different chunkings, same expectations
		for _, ch := range []int{0, 1, 2, 3, 5, 4096, 65537} {
			if ch == 1 && len(bf.frame) > 20000 {
				continue
			}
			// the last field: 1 = the final data comes together with io.EOF, 2 = every other call returns (0, nil), 3 = both
			fmt.Fprintf(w, "R %d %s %d -1 %d %s E:%s\n", r.Pick([]int{1, 4}), bf.ref, ch, r.Intn(4),
				[]string{"wt:-1", fmt.Sprintf("r:%d r:%d r:9", bf.clen+1, bf.clen+1)}[r.Intn(2)], bf.content)
		}
		// the source ends early (also inside a leading skippable frame): never a clean end
		if !bf.legacy && len(bf.frame) > 12 {
			start := 0
			if len(bf.fields) > 0 {
				start = bf.fields[0]
			}
			cuts := []int{1 + r.Intn(len(bf.frame)-1), 1 + r.Intn(len(bf.frame)-1), len(bf.frame) - 1}
			if start > 8 {
				cuts = append(cuts, 5, 8, 9, start-1, start/2+4)
			}
			bounds := skipBoundaries(bf.frame)
			for _, c := range cuts {
				if c == start || c <= 0 || c >= len(bf.frame) || bounds[c] {
					continue
				}
				fmt.Fprintf(w, "R %d %s#%d %d -1 %d %s X:unexpEOF P:%s\n", r.Pick([]int{1, 4}), bf.ref, c, r.Pick([]int{0, 3}), r.Intn(2),
					[]string{"wt:-1", fmt.Sprintf("r:%d r:%d r:9", bf.clen+1, bf.clen+1)}[r.Intn(2)], bf.content)
			}
		}
		// the k-th source call fails
		calls := 12
		for k := 0; k < calls; k++ {
			fmt.Fprintf(w, "R %d %s %d %d%s 0 %s X:injected P:%s\n", r.Pick([]int{1, 4}), bf.ref, r.Pick([]int{0, 4096}), k, []string{"", "~", "^"}[r.Intn(3)],
				[]string{"wt:-1", fmt.Sprintf("r:%d r:%d r:9", bf.clen+1, bf.clen+1)}[r.Intn(2)], bf.content)
		}
	}
}

// genConc: sessions that exercise the goroutine pipelines: multi-block inputs, Write/Flush/Write,
// reuse after Close, early decode errors with a slow consumer, failing sinks.
func genConc(w *bufio.Writer, thorough bool, r *Rng) {
	n := 120
	if thorough {
		n = 1500
	}
	for i := 0; i < n; i++ {
		conc := r.Pick([]int{2, 2, 3, 4, 8, 0})
		o := wopts{bs: 65536, bc: r.Intn(2), cc: r.Intn(2), lvl: r.Pick([]int{0, 0, 512}), conc: conc}
		var ops []string
		ops = append(ops, "A:"+o.String())
		frames := 1 + r.Intn(3)
		for fidx := 0; fidx < frames; fidx++ {
			k := 1 + r.Intn(5)
			for j := 0; j < k; j++ {
				switch r.Intn(6) {
				case 0:
					ops = append(ops, "f")
				case 1:
					ops = append(ops, "w:"+dataTok(r, r.Intn(300), 0))
				case 2:
					ops = append(ops, fmt.Sprintf("rf:%s:%d:-1:0", dataTok(r, r.Pick([]int{0, 65536, 200000, 400000}), 0), r.Pick([]int{0, 30000})))
				default:
					ops = append(ops, "w:"+dataTok(r, r.Pick([]int{65536, 65537, 131072, 200000, 300000}), 0))
				}
			}
			if fidx+1 < frames && r.Intn(4) == 0 {
				// the frame is dropped with blocks in flight: Flush (or nothing), then Reset without Close
				if r.Bool() {
					ops = append(ops, "f")
				}
				ops = append(ops, "R:-1")
				if r.Intn(3) == 0 {
					ops = append(ops, "A:"+[]string{"leg=1,bc=1", "leg=1", "bc=1", "leg=0"}[r.Intn(4)])
				}
				continue
			}
			ops = append(ops, "c")
			if r.Intn(4) == 0 {
				ops = append(ops, "c")
			}
			if fidx+1 < frames {
				ops = append(ops, "R:-1")
			}
		}
		fail := -1
		if r.Intn(8) == 0 {
			fail = r.Intn(20)
		}
		fmt.Fprintf(w, "W %d %s\n", fail, strings.Join(ops, " "))
	}
	// reader side: WriteTo fails on its destination while blocks are in flight; the Reader is reused
	for i := 0; i < n/6+4; i++ {
		nb := 6 + r.Intn(10)
		c1 := genContent(r.Pick([]int{0, 1, 5}), r.Intn(1000), nb*65536-r.Intn(3000))
		c2 := genContent(r.Pick([]int{0, 1, 5}), r.Intn(1000), (2+r.Intn(6))*65536+r.Intn(3000))
		f1, _ := buildFrame(c1, frameOpts{bsCode: 4, blockSize: 65536, bc: r.Bool(), cc: true, size: -1}, r)
		f2, _ := buildFrame(c2, frameOpts{bsCode: 4, blockSize: 65536, bc: r.Bool(), cc: true, size: -1}, r)
		conc := r.Pick([]int{2, 3, 4, 8})
		tail := "wt:-1"
		if r.Bool() {
			tail = fmt.Sprintf("r:%d r:%d r:9", len(c2), len(c2))
		}
		fmt.Fprintf(w, "R %d %s 0 -1 0 wt:%d z:%d R:%s %s E:%s\n", conc, saveBlob("cf", f1), r.Intn(4), r.Pick([]int{0, 0, 20}), saveBlob("cf", f2), tail, saveBlob("cc", c2))
	}
	// reader side: frames that contain empty stored blocks (ReadFrom emits one when the source length is a
	// multiple of the block size), read concurrently
	for i := 0; i < n/8+4; i++ {
		nb := r.Pick([]int{0, 1, 2, 3, 5})
		content := genContent(r.Pick([]int{0, 1, 5, 7}), r.Intn(1000), nb*65536)
		var out bytes.Buffer
		zw := lz4.NewWriter(&out)
		_ = zw.Apply(lz4.BlockSizeOption(lz4.Block64Kb), lz4.BlockChecksumOption(r.Bool()), lz4.ChecksumOption(r.Bool()))
		_, _ = zw.ReadFrom(&scriptSrc{data: content, failAt: -1})
		_ = zw.Close()
		fr := out.Bytes()
		if r.Intn(3) == 0 && len(fr) > 11 { // one more empty block in the middle of the frame
			fr = append(append(append([]byte{}, fr[:7]...), 0, 0, 0, 0x80), fr[7:]...)
			if fr[4]&0x10 != 0 {
				fr = append(append(append([]byte{}, fr[:11]...), 0x05, 0x5d, 0xcc, 0x02), fr[11:]...)
			}
		}
		ref, cref := saveBlob("emptyblk", fr), saveBlob("emptyblkc", content)
		for _, conc := range []int{1, 2, 4} {
			ops := []string{"wt:-1", fmt.Sprintf("r:%d r:%d r:9", len(content)+1, len(content)+1)}[r.Intn(2)]
			fmt.Fprintf(w, "R %d %s 0 -1 0 %s E:%s\n", conc, ref, ops, cref)
		}
	}
	// reader side: many-block frames, valid and with one corrupted block, slow consumers
	for i := 0; i < n/2; i++ {
		nb := 6 + r.Intn(14)
		content := genContent(r.Pick([]int{0, 1, 5}), r.Intn(1000), nb*65536-r.Intn(3000))
		fo := frameOpts{bsCode: 4, blockSize: 65536, bc: true, cc: r.Bool(), size: -1}
		frame, fields := buildFrame(content, fo, r)
		cref := saveBlob("cc", content)
		conc := r.Pick([]int{2, 3, 4, 8})
		slow := fmt.Sprintf("z:%d", r.Pick([]int{0, 5, 30, 120}))
		if r.Intn(2) == 0 {
			fmt.Fprintf(w, "R %d %s 0 -1 0 r:1000 %s r:%d r:%d r:9 E:%s\n", conc, saveBlob("cf", frame), slow, len(content), len(content), cref)
			fmt.Fprintf(w, "R %d %s 0 -1 0 wt:-1 E:%s\n", conc, saveBlob("cf", frame), cref)
		} else {
			// corrupt the payload of an early block: its block checksum no longer matches
			bad := append([]byte{}, frame...)
			blk := r.Intn(3)
			pos := fields[4+3*blk+1] + 5
			bad[pos] ^= 0x40
			// often the following blocks are damaged too: several failures in flight at once
			for extra := r.Intn(4); extra > 0; extra-- {
				if b2 := blk + extra; 4+3*b2+1 < len(fields) && fields[4+3*b2+1]+9 < len(bad) {
					bad[fields[4+3*b2+1]+5+r.Intn(4)] ^= byte(1 + r.Intn(255))
				}
			}
			ref := saveBlob("cbad", bad)
			fmt.Fprintf(w, "R %d %s 0 -1 0 r:100 %s r:%d r:%d X:badblkck P:%s\n", conc, ref, slow, len(content), len(content), cref)
			fmt.Fprintf(w, "R %d %s 0 -1 0 wt:-1 X:badblkck P:%s\n", conc, ref, cref)
		}
	}
}
