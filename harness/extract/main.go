// extract regenerates Lz4V/Gen/*.lean from /repo's current source.
//
// It evaluates named constants with go/types and translates a fixed list of
// single-expression leaf functions into Lean definitions over UIntN.  If the
// source no longer has the shape expected (a constant is gone, a function is no
// longer a single return expression) it exits 3 and says what changed: that is a
// broken tie, reported by the check.
package main

import (
	"crypto/sha256"
	"encoding/json"
	"fmt"
	"go/ast"
	"go/constant"
	"go/importer"
	"go/parser"
	"go/token"
	"go/types"
	"os"
	"path/filepath"
	"sort"
	"strings"
)

type pkgInfo struct {
	fset  *token.FileSet
	files []*ast.File
	names []string
	pkg   *types.Package
	info  *types.Info
	dir   string
}

var broken []string

func fail(f string, a ...interface{}) { broken = append(broken, fmt.Sprintf(f, a...)) }

type stubImporter struct{ def types.Importer }

// packages of the module already type-checked by load, by directory base name
var loaded = map[string]*types.Package{}

func (s stubImporter) Import(path string) (*types.Package, error) {
	if p, err := s.def.Import(path); err == nil {
		return p, nil
	}
	if p := loaded[filepath.Base(path)]; p != nil && strings.Contains(path, "/internal/") {
		return p, nil
	}
	// module-internal packages: a stub is enough, constants we read are package-local
	return types.NewPackage(path, filepath.Base(path)), nil
}

func load(dir string, skip func(string) bool) *pkgInfo {
	fset := token.NewFileSet()
	ents, err := os.ReadDir(dir)
	if err != nil {
		fail("cannot read %s: %v", dir, err)
		return nil
	}
	p := &pkgInfo{fset: fset, dir: dir}
	for _, e := range ents {
		n := e.Name()
		if !strings.HasSuffix(n, ".go") || strings.HasSuffix(n, "_test.go") || skip(n) {
			continue
		}
		f, err := parser.ParseFile(fset, filepath.Join(dir, n), nil, parser.ParseComments)
		if err != nil {
			fail("parse %s: %v", n, err)
			continue
		}
		if f.Name.Name == "main" {
			continue
		}
		p.files = append(p.files, f)
		p.names = append(p.names, n)
	}
	conf := types.Config{Importer: stubImporter{importer.Default()}, Error: func(error) {}}
	p.info = &types.Info{Defs: map[*ast.Ident]types.Object{}, Uses: map[*ast.Ident]types.Object{}, Types: map[ast.Expr]types.TypeAndValue{}}
	p.pkg, _ = conf.Check(dir, fset, p.files, p.info)
	if p.pkg != nil && strings.Contains(dir, "/internal/") {
		loaded[filepath.Base(dir)] = p.pkg
	}
	return p
}

// constant lookup: package level, or local to a function (fn != "")
func (p *pkgInfo) constVal(name, fn string) (constant.Value, bool) {
	if fn == "" {
		if o := p.pkg.Scope().Lookup(name); o != nil {
			if c, ok := o.(*types.Const); ok {
				return c.Val(), true
			}
		}
		return nil, false
	}
	for id, o := range p.info.Defs {
		if id.Name != name || o == nil {
			continue
		}
		c, ok := o.(*types.Const)
		if !ok {
			continue
		}
		if f := p.enclosingFunc(id.Pos()); f == fn {
			return c.Val(), true
		}
	}
	return nil, false
}

func (p *pkgInfo) enclosingFunc(pos token.Pos) string {
	for _, f := range p.files {
		for _, d := range f.Decls {
			if fd, ok := d.(*ast.FuncDecl); ok && fd.Pos() <= pos && pos <= fd.End() {
				return funcName(fd)
			}
		}
	}
	return ""
}

func funcName(fd *ast.FuncDecl) string {
	if fd.Recv != nil && len(fd.Recv.List) == 1 {
		t := fd.Recv.List[0].Type
		if s, ok := t.(*ast.StarExpr); ok {
			t = s.X
		}
		if id, ok := t.(*ast.Ident); ok {
			return id.Name + "." + fd.Name.Name
		}
	}
	return fd.Name.Name
}

func (p *pkgInfo) findFunc(name string) *ast.FuncDecl {
	for _, f := range p.files {
		for _, d := range f.Decls {
			if fd, ok := d.(*ast.FuncDecl); ok && funcName(fd) == name {
				return fd
			}
		}
	}
	return nil
}

func (p *pkgInfo) src(n ast.Node) string {
	b, _ := os.ReadFile(p.fset.Position(n.Pos()).Filename)
	return string(b[p.fset.Position(n.Pos()).Offset:p.fset.Position(n.End()).Offset])
}

// ---- expression translation (unsigned wrap-around arithmetic) ----

func leanType(t types.Type) string {
	if t == nil {
		return "?nil"
	}
	switch u := t.Underlying().(type) {
	case *types.Basic:
		switch u.Kind() {
		case types.Uint8:
			return "UInt8"
		case types.Uint16:
			return "UInt16"
		case types.Uint32:
			return "UInt32"
		case types.Uint64:
			return "UInt64"
		case types.Int, types.UntypedInt:
			return "Int"
		case types.Bool:
			return "Bool"
		}
	}
	return "?" + t.String()
}

func (p *pkgInfo) tr(e ast.Expr) string {
	if tv, ok := p.info.Types[e]; ok && tv.Value != nil {
		if tv.Value.Kind() == constant.Int {
			return tv.Value.ExactString()
		}
		if tv.Value.Kind() == constant.Bool {
			return tv.Value.String()
		}
	}
	switch x := e.(type) {
	case *ast.ParenExpr:
		return p.tr(x.X)
	case *ast.StarExpr: // a pointer receiver is the value it points to (setters return the new value)
		return p.tr(x.X)
	case *ast.Ident:
		return x.Name
	case *ast.BasicLit:
		return x.Value
	case *ast.BinaryExpr:
		l, r := p.tr(x.X), p.tr(x.Y)
		op := map[token.Token]string{token.SHL: "<<<", token.SHR: ">>>", token.OR: "|||", token.AND: "&&&", token.XOR: "^^^",
			token.ADD: "+", token.SUB: "-", token.MUL: "*", token.QUO: "/", token.NEQ: "!=", token.EQL: "==", token.GTR: ">", token.LSS: "<", token.GEQ: "≥", token.LEQ: "≤"}[x.Op]
		if x.Op == token.AND_NOT {
			return fmt.Sprintf("(%s &&& ~~~(%s : %s))", l, r, leanType(p.info.Types[x].Type))
		}
		if op == "" {
			fail("untranslatable operator %s in %s", x.Op, p.src(e))
			return "?"
		}
		return fmt.Sprintf("(%s %s %s)", l, op, r)
	case *ast.CallExpr:
		// conversions only
		if tv, ok := p.info.Types[x.Fun]; ok && tv.IsType() && len(x.Args) == 1 {
			from := leanType(p.info.Types[x.Args[0]].Type)
			to := leanType(tv.Type)
			a := p.tr(x.Args[0])
			if from == to {
				return a
			}
			if to == "Int" { // int(uintN): value preserving
				return fmt.Sprintf("((%s).toNat : Int)", a)
			}
			if from == "Int" { // uintN(int): two's complement truncation
				return fmt.Sprintf("(%s.emod %d).toNat.to%s", a, map[string]uint64{"UInt8": 1 << 8, "UInt16": 1 << 16, "UInt32": 1 << 32}[to], to)
			}
			return fmt.Sprintf("(%s).to%s", a, to)
		}
		fail("untranslatable call %s", p.src(e))
		return "?"
	}
	fail("untranslatable expression %s", p.src(e))
	return "?"
}

// leaf translates `func name(params) T { [const …;] return <expr> }`
func (p *pkgInfo) leaf(goName, leanName string) string {
	fd := p.findFunc(goName)
	if fd == nil {
		fail("function %s not found in %s", goName, p.dir)
		return ""
	}
	var ret *ast.ReturnStmt
	for _, st := range fd.Body.List {
		switch s := st.(type) {
		case *ast.DeclStmt: // local const
		case *ast.ReturnStmt:
			ret = s
		default:
			fail("function %s is no longer a single return expression", goName)
			return ""
		}
	}
	if ret == nil || len(ret.Results) != 1 {
		fail("function %s is no longer a single return expression", goName)
		return ""
	}
	var params []string
	for _, f := range fd.Type.Params.List {
		for _, n := range f.Names {
			params = append(params, fmt.Sprintf("(%s : %s)", n.Name, leanType(p.info.Types[f.Type].Type)))
		}
	}
	if fd.Recv != nil {
		f := fd.Recv.List[0]
		params = append([]string{fmt.Sprintf("(%s : %s)", f.Names[0].Name, leanType(p.info.Types[f.Type].Type))}, params...)
	}
	rt := leanType(p.info.Types[fd.Type.Results.List[0].Type].Type)
	return fmt.Sprintf("def %s %s : %s := %s\n", leanName, strings.Join(params, " "), rt, p.tr(ret.Results[0]))
}

// setter translates the two shapes of the generated bit-field setters of frame_gen.go into a function returning
// the new value of the receiver:
//
//	func (x *T) S(v bool) *T { const b = …; if v { *x = E1 } else { *x &^= b }; return x }
//	func (x *T) S(v V) *T    { *x = E; return x }
func (p *pkgInfo) setter(goName, leanName string) string {
	fd := p.findFunc(goName)
	if fd == nil || fd.Recv == nil {
		fail("setter %s not found in %s", goName, p.dir)
		return ""
	}
	bad := func() string { fail("setter %s no longer has one of the two generated shapes", goName); return "" }
	recv := fd.Recv.List[0]
	star, ok := recv.Type.(*ast.StarExpr)
	if !ok || len(recv.Names) != 1 || len(fd.Type.Params.List) != 1 || len(fd.Type.Params.List[0].Names) != 1 {
		return bad()
	}
	x := recv.Names[0].Name
	rt := leanType(p.info.Types[star.X].Type)
	v := fd.Type.Params.List[0].Names[0].Name
	vt := leanType(p.info.Types[fd.Type.Params.List[0].Type].Type)
	isX := func(e ast.Expr) bool {
		s, ok := e.(*ast.StarExpr)
		if !ok {
			return false
		}
		id, ok := s.X.(*ast.Ident)
		return ok && id.Name == x
	}
	// value of `*x` after an assignment statement
	assign := func(st ast.Stmt) (string, bool) {
		a, ok := st.(*ast.AssignStmt)
		if !ok || len(a.Lhs) != 1 || len(a.Rhs) != 1 || !isX(a.Lhs[0]) {
			return "", false
		}
		switch a.Tok {
		case token.ASSIGN:
			return p.tr(a.Rhs[0]), true
		case token.AND_NOT_ASSIGN:
			return fmt.Sprintf("(%s &&& ~~~(%s : %s))", x, p.tr(a.Rhs[0]), rt), true
		}
		return "", false
	}
	var body []ast.Stmt
	for _, st := range fd.Body.List {
		if _, ok := st.(*ast.DeclStmt); !ok {
			body = append(body, st)
		}
	}
	if len(body) != 2 {
		return bad()
	}
	if r, ok := body[1].(*ast.ReturnStmt); !ok || len(r.Results) != 1 {
		return bad()
	} else if id, ok := r.Results[0].(*ast.Ident); !ok || id.Name != x {
		return bad()
	}
	var expr string
	switch st := body[0].(type) {
	case *ast.AssignStmt:
		e, ok := assign(st)
		if !ok {
			return bad()
		}
		expr = e
	case *ast.IfStmt:
		c, ok := st.Cond.(*ast.Ident)
		els, ok2 := st.Else.(*ast.BlockStmt)
		if !ok || !ok2 || c.Name != v || vt != "Bool" || st.Init != nil || len(st.Body.List) != 1 || len(els.List) != 1 {
			return bad()
		}
		a, ok := assign(st.Body.List[0])
		b, ok2 := assign(els.List[0])
		if !ok || !ok2 {
			return bad()
		}
		expr = fmt.Sprintf("if %s then %s else %s", v, a, b)
	default:
		return bad()
	}
	return fmt.Sprintf("def %s (%s : %s) (%s : %s) : %s := %s\n", leanName, x, rt, v, vt, rt, expr)
}

type constSpec struct{ lean, goName, fn string }

func main() {
	repo, out := os.Args[1], os.Args[2]
	noArm := func(n string) bool { return strings.Contains(n, "_arm") || n == "gen.go" }
	blk := load(filepath.Join(repo, "internal/lz4block"), noArm)
	xxh := load(filepath.Join(repo, "internal/xxh32"), noArm)
	strm := load(filepath.Join(repo, "internal/lz4stream"), noArm)
	root := load(repo, noArm)
	facts := map[string]interface{}{}

	var b strings.Builder
	b.WriteString("-- REGENERATED by harness/extract from /repo on every run. Do not edit.\nnamespace Lz4V.Gen\n")
	emit := func(p *pkgInfo, cs []constSpec) {
		for _, c := range cs {
			if p == nil {
				continue
			}
			v, ok := p.constVal(c.goName, c.fn)
			if !ok || v.Kind() != constant.Int {
				fail("constant %s (in %s %s) not found", c.goName, p.dir, c.fn)
				continue
			}
			fmt.Fprintf(&b, "def %s : Nat := %s\n", c.lean, v.ExactString())
			facts[c.lean] = v.ExactString()
		}
	}
	emit(blk, []constSpec{{"minMatch", "minMatch", ""}, {"winSizeLog", "winSizeLog", ""}, {"winSize", "winSize", ""}, {"winMask", "winMask", ""},
		{"hashLog", "hashLog", ""}, {"htSize", "htSize", ""}, {"mfLimit", "mfLimit", ""},
		{"prime6bytes", "prime6bytes", "blockHash"}, {"hasherHC", "hasher", "blockHashHC"},
		{"adaptSkipLogFast", "adaptSkipLog", "Compressor.CompressBlock"}, {"adaptSkipLogHC", "adaptSkipLog", "CompressorHC.CompressBlock"},
		{"Block64Kb", "Block64Kb", ""}, {"Block256Kb", "Block256Kb", ""}, {"Block1Mb", "Block1Mb", ""}, {"Block4Mb", "Block4Mb", ""}, {"Block8Mb", "Block8Mb", ""}})
	emit(strm, []constSpec{{"frameMagic", "frameMagic", ""}, {"frameSkipMagic", "frameSkipMagic", ""}, {"frameMagicLegacy", "frameMagicLegacy", ""}})
	emit(xxh, []constSpec{{"prime1", "prime1", ""}, {"prime2", "prime2", ""}, {"prime3", "prime3", ""}, {"prime4", "prime4", ""}, {"prime5", "prime5", ""},
		{"prime1plus2", "prime1plus2", ""}, {"prime1minus", "prime1minus", ""}})
	emit(root, []constSpec{{"lvlFast", "Fast", ""}, {"lvl1", "Level1", ""}, {"lvl2", "Level2", ""}, {"lvl3", "Level3", ""}, {"lvl4", "Level4", ""},
		{"lvl5", "Level5", ""}, {"lvl6", "Level6", ""}, {"lvl7", "Level7", ""}, {"lvl8", "Level8", ""}, {"lvl9", "Level9", ""},
		{"stNo", "noState", ""}, {"stError", "errorState", ""}, {"stNew", "newState", ""}, {"stRead", "readState", ""}, {"stWrite", "writeState", ""}, {"stClosed", "closedState", ""}})
	b.WriteString("end Lz4V.Gen\n")

	var l strings.Builder
	l.WriteString("-- REGENERATED by harness/extract from /repo on every run. Do not edit.\nimport Lz4V.Gen.Consts\nnamespace Lz4V.Gen\n")
	if xxh != nil {
		l.WriteString("-- internal/xxh32/xxh32zero.go\n")
		for _, n := range []string{"rol1", "rol7", "rol11", "rol12", "rol13", "rol17", "rol18"} {
			l.WriteString(xxh.leaf(n, n))
		}
	}
	if blk != nil {
		l.WriteString("-- internal/lz4block/block.go\n")
		l.WriteString(blk.leaf("blockHash", "blockHash"))
		l.WriteString(blk.leaf("blockHashHC", "blockHashHC"))
		l.WriteString(blk.leaf("CompressBlockBound", "CompressBlockBound"))
	}
	if strm != nil {
		l.WriteString("-- internal/lz4stream/frame_gen.go (getters)\n")
		for _, n := range []string{"ContentChecksum", "Size", "BlockChecksum", "BlockIndependence", "Version"} {
			l.WriteString(strm.leaf("DescriptorFlags."+n, "flag"+n))
		}
		l.WriteString(strm.leaf("DataBlockSize.Uncompressed", "dbsUncompressed"))
		l.WriteString(strm.leaf("DescriptorFlags.BlockSizeIndex", "flagBlockSizeIndex"))
		l.WriteString(strm.leaf("DataBlockSize.size", "dbsSize"))
		l.WriteString("-- internal/lz4stream/frame_gen.go (setters: the new value of the receiver)\n")
		for _, n := range []string{"ContentChecksum", "Size", "BlockChecksum", "BlockIndependence", "Version", "BlockSizeIndex"} {
			l.WriteString(strm.setter("DescriptorFlags."+n+"Set", "set"+n))
		}
		l.WriteString(strm.setter("DataBlockSize.sizeSet", "dbsSetSize"))
		l.WriteString(strm.setter("DataBlockSize.UncompressedSet", "dbsSetUncompressed"))
	}
	l.WriteString("end Lz4V.Gen\n")

	// structural facts
	noUnsafe := true
	for _, p := range []*pkgInfo{blk, strm, root, xxh} {
		if p == nil {
			continue
		}
		for i, f := range p.files {
			for _, im := range f.Imports {
				if im.Path.Value == `"unsafe"` {
					noUnsafe = false
					facts["unsafe_in"] = p.names[i]
				}
			}
		}
	}
	facts["noUnsafe"] = noUnsafe
	// hashes of modelled functions
	hashes := map[string]string{}
	for _, it := range []struct {
		p *pkgInfo
		n string
	}{{blk, "Compressor.CompressBlock"}, {blk, "CompressorHC.CompressBlock"}, {blk, "UncompressBlock"}, {blk, "decodeBlock"}, {blk, "Compressor.get"}, {blk, "Compressor.put"},
		{xxh, "XXHZero.Write"}, {xxh, "XXHZero.Sum32"}, {xxh, "checksumZeroGo"}, {xxh, "updateGo"},
		{strm, "FrameDataBlock.Compress"}, {strm, "FrameDataBlock.Write"}, {strm, "FrameDataBlock.Read"}, {strm, "FrameDataBlock.Uncompress"},
		{strm, "Frame.ParseHeaders"}, {strm, "Frame.CloseW"}, {strm, "Frame.CloseR"}, {strm, "Frame.InitW"}, {strm, "FrameDescriptor.Write"}, {strm, "FrameDescriptor.initR"},
		{strm, "Blocks.initW"}, {strm, "Blocks.initR"}, {strm, "Blocks.close"},
		{root, "Writer.Write"}, {root, "Writer.write"}, {root, "Writer.Flush"}, {root, "Writer.Close"}, {root, "Writer.ReadFrom"}, {root, "Writer.Reset"}, {root, "Writer.Apply"},
		{root, "Reader.Read"}, {root, "Reader.read"}, {root, "Reader.WriteTo"}, {root, "Reader.Reset"}, {root, "Reader.init"}, {root, "CompressingReader.Read"}} {
		if it.p == nil {
			continue
		}
		if fd := it.p.findFunc(it.n); fd != nil {
			h := sha256.Sum256([]byte(it.p.src(fd)))
			hashes[it.n] = fmt.Sprintf("%x", h[:8])
		} else {
			hashes[it.n] = "missing"
		}
	}
	if asm, err := os.ReadFile(filepath.Join(repo, "internal/lz4block/decode_amd64.s")); err == nil {
		h := sha256.Sum256(asm)
		hashes["decode_amd64.s"] = fmt.Sprintf("%x", h[:8])
	}
	facts["hashes"] = hashes
	facts["ties"] = sourceTies(repo)
	// state tables
	if root != nil {
		for _, tn := range []string{"writerStates", "readerStates"} {
			tab := map[string]string{}
			for _, f := range root.files {
				ast.Inspect(f, func(n ast.Node) bool {
					vs, ok := n.(*ast.ValueSpec)
					if !ok || len(vs.Names) != 1 || vs.Names[0].Name != tn || len(vs.Values) != 1 {
						return true
					}
					if cl, ok := vs.Values[0].(*ast.CompositeLit); ok {
						for _, el := range cl.Elts {
							if kv, ok := el.(*ast.KeyValueExpr); ok {
								tab[root.src(kv.Key)] = root.src(kv.Value)
							}
						}
					}
					return false
				})
			}
			facts[tn] = tab
		}
	}
	// the same tables as the slices Go builds from the keyed composite literals (index = current state, value =
	// next state, a missing key is the zero value noState): Gen/States.lean
	var stt strings.Builder
	stt.WriteString("-- REGENERATED by harness/extract from /repo/reader.go and /repo/writer.go on every run. Do not edit.\nnamespace Lz4V.Gen\n")
	if root != nil {
		for _, tn := range []string{"writerStates", "readerStates"} {
			tab, _ := facts[tn].(map[string]string)
			vals := map[int64]int64{}
			max := int64(-1)
			for k, v := range tab {
				kc, ok1 := root.constVal(k, "")
				vc, ok2 := root.constVal(v, "")
				if !ok1 || !ok2 {
					fail("state table %s: %s: %s is not a pair of named states", tn, k, v)
					continue
				}
				ki, _ := constant.Int64Val(kc)
				vi, _ := constant.Int64Val(vc)
				vals[ki] = vi
				if ki > max {
					max = ki
				}
			}
			if len(tab) == 0 {
				fail("state table %s not found", tn)
			}
			var items []string
			for i := int64(0); i <= max; i++ {
				items = append(items, fmt.Sprint(vals[i]))
			}
			fmt.Fprintf(&stt, "def %sTab : List Nat := [%s]\n", tn, strings.Join(items, ", "))
		}
	}
	stt.WriteString("end Lz4V.Gen\n")

	tables := ""
	if blk != nil {
		tables = blk.switchTables()
	}

	if len(broken) > 0 {
		sort.Strings(broken)
		for _, m := range broken {
			fmt.Fprintln(os.Stderr, "BROKEN-TIE:", m)
		}
		os.Exit(3)
	}
	write := func(name, content string) {
		path := filepath.Join(out, name)
		if old, err := os.ReadFile(path); err == nil && string(old) == content {
			return
		}
		if err := os.WriteFile(path, []byte(content), 0o644); err != nil {
			fmt.Fprintln(os.Stderr, err)
			os.Exit(2)
		}
		fmt.Println("updated", name)
	}
	write("Consts.lean", b.String())
	write("Leaf.lean", l.String())
	write("Tables.lean", tables)
	write("States.lean", stt.String())
	fj, _ := json.MarshalIndent(facts, "", " ")
	write("facts.json", string(fj)+"\n")
}
