package main

import (
	"bytes"
	"crypto/sha256"
	"fmt"
	"go/ast"
	"go/parser"
	"go/printer"
	"go/token"
	"os"
	"path/filepath"
	"strings"
)

// sourceTies returns one hash per function, per file's package-level declarations and per assembly
// file of the library (tests, generators and the verif-tagged hook files excluded).  The hash is taken
// over the printed syntax tree without comments, so formatting and comment edits do not change it; any
// change of code does.  The checks compare these with the committed expectations (baseline_ties.json):
// the hand-written Lean models were written against, and validated against, exactly that source.
func sourceTies(repo string) map[string]string {
	ties := map[string]string{}
	dirs := []string{".", "internal/lz4block", "internal/lz4stream", "internal/xxh32", "internal/lz4errors", "cmd/lz4c"}
	for _, d := range dirs {
		ents, err := os.ReadDir(filepath.Join(repo, d))
		if err != nil {
			continue
		}
		for _, e := range ents {
			n := e.Name()
			rel := filepath.ToSlash(filepath.Join(d, n))
			if strings.HasSuffix(n, ".s") {
				if b, err := os.ReadFile(filepath.Join(repo, d, n)); err == nil {
					var norm bytes.Buffer
					for _, l := range strings.Split(string(b), "\n") {
						if i := strings.Index(l, "//"); i >= 0 {
							l = l[:i]
						}
						l = strings.Join(strings.Fields(l), " ")
						if l != "" {
							norm.WriteString(l + "\n")
						}
					}
					h := sha256.Sum256(norm.Bytes())
					ties[rel] = fmt.Sprintf("%x", h[:8])
				}
				continue
			}
			if !strings.HasSuffix(n, ".go") || strings.HasSuffix(n, "_test.go") || strings.HasPrefix(n, "verif_") || n == "gen.go" {
				continue
			}
			fset := token.NewFileSet()
			f, err := parser.ParseFile(fset, filepath.Join(repo, d, n), nil, parser.SkipObjectResolution)
			if err != nil {
				ties[rel+":<unparsable>"] = err.Error()
				continue
			}
			var decls bytes.Buffer
			for _, dc := range f.Decls {
				switch x := dc.(type) {
				case *ast.FuncDecl:
					name := x.Name.Name
					if x.Recv != nil && len(x.Recv.List) > 0 {
						t := x.Recv.List[0].Type
						if s, ok := t.(*ast.StarExpr); ok {
							t = s.X
						}
						if id, ok := t.(*ast.Ident); ok {
							name = id.Name + "." + name
						}
					}
					x.Doc = nil
					var b bytes.Buffer
					_ = printer.Fprint(&b, token.NewFileSet(), x)
					h := sha256.Sum256(b.Bytes())
					key := rel + ":" + name
					if _, dup := ties[key]; dup { // e.g. two `_` functions
						key += "'"
					}
					ties[key] = fmt.Sprintf("%x", h[:8])
				case *ast.GenDecl:
					if x.Tok == token.IMPORT {
						continue
					}
					x.Doc = nil
					for _, sp := range x.Specs {
						switch s := sp.(type) {
						case *ast.ValueSpec:
							s.Doc, s.Comment = nil, nil
						case *ast.TypeSpec:
							s.Doc, s.Comment = nil, nil
							ast.Inspect(s, func(n ast.Node) bool {
								if fl, ok := n.(*ast.Field); ok {
									fl.Doc, fl.Comment = nil, nil
								}
								return true
							})
						}
					}
					_ = printer.Fprint(&decls, token.NewFileSet(), x)
					decls.WriteString("\n")
				}
			}
			h := sha256.Sum256(decls.Bytes())
			ties[rel+":<decls>"] = fmt.Sprintf("%x", h[:8])
		}
	}
	return ties
}
