package main

import (
	"bufio"
	"bytes"
	"fmt"
	"io"
	"strings"

	lz4 "github.com/pierrec/lz4/v4"
)

func init() {
	extraOps["CR"] = implCR
	generators["cr"] = genCR
}

type rc struct{ io.Reader }

func (rc) Close() error { return nil }

// CR <opts|-> <data> <chunk> <failAt> <eofWithData> <tok>…
// tok: <size> one Read(len=size) · A=<opts> Apply · R=<data>:<chunk>:<failAt>:<ewd> Reset(new source)
// The last size is repeated until io.EOF or an error (at most 100000 calls).  Once a Read of a
// session returned an error the remaining sizes of that session are skipped.
func implCR(f []string, o *oracleSink) string {
	mkSrc := func(d, chunk, fa, ewd string) *scriptSrc {
		k, wr := srcFail(fa)
		return &scriptSrc{data: loadBlob(d), chunk: atoi(chunk), failAt: k, wrapEOF: wr == 1, wrapPlain: wr == 2, eofWithData: ewd == "1" || ewd == "3", zeroReads: k < 0 && (ewd == "2" || ewd == "3")}
	}
	src := mkSrc(f[2], f[3], f[4], f[5])
	zr := lz4.NewCompressingReader(rc{src})
	var aerr error
	kv := map[string]int{"bs": 4 << 20, "bc": 0, "cc": 1, "sz": 0}
	kvValid := true
	var res, notes []string
	apply := func(s string) error {
		opts, k2 := parseOptsGo(s)
		var err error
		if r, ok := timed(func() string { err = zr.Apply(opts...); return "" }); !ok || r != "" {
			notes = append(notes, "HANG")
			return fmt.Errorf("HANG-OR-PANIC:%s", r)
		}
		if err == nil {
			for k, v := range k2 {
				kv[k] = v
			}
		} else {
			kvValid = false
		}
		return err
	}
	if f[1] != "-" {
		aerr = apply(f[1])
	}
	var all []byte
	total := 0
	ended, eof := false, false
	lastRead := ""
	// one Read; returns false when the whole run has to stop (anomaly)
	readOne := func(n int) bool {
		buf := make([]byte, n)
		// the caller's buffer is dirty: nothing but the n returned bytes may matter
		for k := range buf {
			buf[k] = 0xC3
		}
		var got int
		var err error
		r, ok := timed(func() string {
			got, err = zr.Read(buf)
			return ""
		})
		if !ok || r != "" {
			res = append(res, "HANG-OR-PANIC:"+r)
			notes = append(notes, "HANG")
			return false
		}
		if got > n || got < 0 {
			notes = append(notes, "BADCOUNT")
			return false
		}
		lastRead = fmt.Sprintf("%d/%d/%s", got, fnv(buf[:got]), errName(err))
		if len(res) < 60 {
			res = append(res, lastRead)
		}
		all = append(all, buf[:got]...)
		total += got
		if err != nil {
			eof = err == io.EOF
			ended = true
			return true
		}
		if n > 0 && got == 0 {
			notes = append(notes, "NO-PROGRESS")
			return false
		}
		return true
	}
	// judge a finished session (its source, what it produced)
	judge := func(src *scriptSrc, final bool, last int, hadReads bool) {
		if eof && kvValid {
			sz := "-"
			if kv["sz"] > 0 {
				sz = fmt.Sprint(kv["sz"])
			}
			o.ask("frame", "SF 1 "+saveBlob("cr", all), fmt.Sprintf("ok ver=1 indep=1 bc=%d cc=%d size=%s bmax=%d len=%d fnv=%d consumed=%d",
				kv["bc"], kv["cc"], sz, kv["bs"], len(src.data), fnv(src.data), len(all)))
			// after io.EOF the reader is done
			if n, err := zr.Read(make([]byte, 8)); n != 0 || err == nil {
				notes = append(notes, "READ-AFTER-EOF")
			}
		} else if src.failAt >= 0 && src.calls() > src.failAt {
			if !strings.HasSuffix(lastRead, "/injected") {
				notes = append(notes, "SOURCE-ERROR-NOT-PASSED")
			}
		} else if final && aerr == nil && kvValid && !eof && len(notes) == 0 && hadReads && last > 0 {
			notes = append(notes, "NO-EOF")
		}
	}
	last, hadReads := 0, false
	toks := f[6:]
	stop := false
	for i, t := range toks {
		switch {
		case strings.HasPrefix(t, "R="):
			judge(src, false, last, hadReads)
			p := strings.Split(t[2:], ":")
			src = mkSrc(p[0], p[1], p[2], p[3])
			if r, ok := timed(func() string { zr.Reset(rc{src}); return "" }); !ok || r != "" {
				res = append(res, "HANG-OR-PANIC:"+r)
				notes = append(notes, "HANG")
				stop = true
			}
			res = append(res, "-")
			all, ended, eof, hadReads, last, lastRead = nil, false, false, false, 0, ""
		case strings.HasPrefix(t, "A="):
			res = append(res, errName(apply(t[2:])))
		default:
			n := atoi(t)
			hadReads = true
			last = n
			if ended {
				continue
			}
			if !readOne(n) {
				stop = true
			}
		}
		if stop {
			break
		}
		_ = i
	}
	if !stop && hadReads && !ended && last > 0 {
		for i := 0; i < 100000 && !ended; i++ {
			if !readOne(last) {
				break
			}
		}
	}
	judge(src, true, last, hadReads)
	return fmt.Sprintf("%s %s ; total=%d ; %s", errName(aerr), strings.Join(res, " "), total, strings.Join(append(notes, "notes"), " "))
}

func genCR(w *bufio.Writer, thorough bool, r *Rng) {
	n := 300
	if thorough {
		n = 6000
	}
	for i := 0; i < n; i++ {
		bs := r.Pick([]int{65536, 65536, 65536, 262144})
		lvl := r.Pick([]int{0, 0, 512, 2048})
		opts := fmt.Sprintf("bs=%d,bc=%d,cc=%d,sz=%d,lvl=%d", bs, r.Intn(2), r.Intn(2), r.Pick([]int{0, 0, 77}), lvl)
		switch r.Intn(12) {
		case 0:
			opts = "-"
		case 1:
			opts = "conc=2" // not applicable
		case 2:
			opts = []string{"bs=1000", "bs=8388608", "bs=8388608,bc=1", "bs=0"}[r.Intn(4)] // 8 MiB exists in legacy frames only
		}
		sz := r.Pick([]int{0, 1, 100, bs - 1, bs, bs + 1, 2 * bs, 2*bs + 100, r.Intn(3 * bs)})
		if opts == "-" && sz > 100000 {
			sz = 100000
		}
		fail := -1
		if r.Intn(6) == 0 {
			fail = r.Intn(8)
		}
		failTok := fmt.Sprint(fail)
		if fail >= 0 {
			failTok += []string{"", "~", "^"}[r.Intn(3)] // the error may wrap io.ErrUnexpectedEOF or io.EOF: still an error, not the end
		}
		var sizes []string
		k := 1 + r.Intn(6)
		for j := 0; j < k; j++ {
			sizes = append(sizes, fmt.Sprint(r.Pick([]int{0, 1, 1, 2, 3, 6, 7, 8, 100, 4096, 65536, 70000, 1 << 20, 5 << 20})))
		}
		if sizes[len(sizes)-1] == "0" {
			sizes = append(sizes, "5")
		}
		// tiny buffers over big inputs would take millions of calls: bound the work
		if sz > 70000 {
			sizes = append(sizes, fmt.Sprint(r.Pick([]int{4096, 65536, 100000})))
		}
		fmt.Fprintf(w, "CR %s %s %d %s %d %s\n", opts, dataTok(r, sz, lvl), r.Pick([]int{0, 0, 1, 5000}), failTok, r.Intn(4), strings.Join(sizes, " "))
	}
	// a Read whose buffer is filled exactly by the header and the first block (nothing spills over), then more
	// reads: the size of the first block is asked from the reader itself
	for i := 0; i < 12; i++ {
		bs := 65536
		bc := r.Intn(2)
		lvl := r.Pick([]int{0, 0, 512})
		opts := fmt.Sprintf("bs=%d,bc=%d,cc=1,lvl=%d", bs, bc, lvl)
		tok := dataTok(r, 2*bs+r.Intn(bs), lvl)
		zr := lz4.NewCompressingReader(rc{&scriptSrc{data: parseData(tok), failAt: -1}})
		o, _ := parseOptsGo(opts)
		_ = zr.Apply(o...)
		probe := make([]byte, 1<<20)
		n, _ := io.ReadFull(zr, probe)
		if n < 11 {
			continue
		}
		first := int(uint32(probe[7])|uint32(probe[8])<<8|uint32(probe[9])<<16|uint32(probe[10])<<24) & 0x7FFFFFFF
		exact := 7 + 4 + first + 4*bc
		fmt.Fprintf(w, "CR %s %s 0 -1 0 %d %d %d 4096\n", opts, tok, exact, r.Pick([]int{exact, 5, 100000}), r.Pick([]int{1, 70000}))
		fmt.Fprintf(w, "CR %s %s 0 -1 0 %d %d 4096\n", opts, tok, exact-1, 1)
	}
	// blocks larger than the window with content of period 65536; HC levels with a final literal run of 15+255k bytes
	{
		chunk := r.Bytes(65536)
		var c1 []byte
		for k := 0; k < 3; k++ {
			c1 = append(c1, chunk...)
		}
		fmt.Fprintf(w, "CR bs=262144,bc=0,cc=1,lvl=0 %s 0 -1 0 100000\n", saveBlob("credge", c1))
		fmt.Fprintf(w, "CR - %s 0 -1 0 4096\n", saveBlob("credge", append(c1, r.Bytes(77)...)))
		for _, tail := range []int{269, 270, 271, 525} {
			text := bytes.Repeat([]byte("the quick brown fox jumps over the lazy dog. "), 30)
			d := append(append([]byte{}, text...), r.Bytes(tail)...)
			fmt.Fprintf(w, "CR bs=65536,bc=0,cc=1,lvl=%d %s 0 -1 0 65536\n", r.Pick([]int{512, 2048}), saveBlob("crtail", d))
			fmt.Fprintf(w, "CR bs=65536,bc=0,cc=1,lvl=0 %s 0 -1 0 65536\n", saveBlob("crtail", d))
		}
	}
	// reuse: Reset (and Apply) in the middle of a stream, after io.EOF, and after a source failure
	bss := []int{65536, 262144, 1048576, 4194304}
	for i := 0; i < n/3+20; i++ {
		opts := "-"
		bs := 4 << 20
		if r.Intn(3) != 0 {
			bs = r.Pick(bss)
			opts = fmt.Sprintf("bs=%d,bc=%d,cc=%d,lvl=0,sz=%d", bs, r.Intn(2), r.Intn(2), r.Pick([]int{0, 0, 77, 123456}))
		}
		sz := r.Pick([]int{0, 10, 3000, 70000, 200000})
		fail := -1
		if r.Intn(3) == 0 {
			fail = r.Intn(4)
		}
		var toks []string
		// first session: a few reads (mostly small: overflow stays pending), sometimes to the end
		k := r.Intn(4)
		for j := 0; j < k; j++ {
			toks = append(toks, fmt.Sprint(r.Pick([]int{1, 3, 7, 8, 20, 100, 4096, 1 << 20})))
		}
		if r.Intn(4) == 0 {
			for j := 0; j < 12; j++ {
				toks = append(toks, "100000")
			}
		}
		sessions := 1 + r.Intn(2)
		for s := 0; s < sessions; s++ {
			sz2 := r.Pick([]int{0, 5, 66000, 140000, 300000})
			fail2 := -1
			if s+1 < sessions && r.Intn(3) == 0 {
				fail2 = r.Intn(4)
			}
			toks = append(toks, fmt.Sprintf("R=%s:%d:%d:%d", dataTok(r, sz2, 0), r.Pick([]int{0, 0, 5000}), fail2, r.Intn(2)))
			if r.Intn(2) == 0 {
				toks = append(toks, fmt.Sprintf("A=bs=%d,bc=%d,sz=%d", r.Pick(bss), r.Intn(2), r.Pick([]int{0, 0, 55})))
			}
			k := 1 + r.Intn(3)
			for j := 0; j < k; j++ {
				toks = append(toks, fmt.Sprint(r.Pick([]int{1, 2, 5, 7, 15, 100, 4096, 70000})))
				if r.Intn(8) == 0 {
					toks = append(toks, "A=bs=262144") // Apply after the first Read: refused, the stream goes on
				}
			}
		}
		toks = append(toks, fmt.Sprint(r.Pick([]int{4096, 65536, 100000})))
		fmt.Fprintf(w, "CR %s %s %d %d %d %s\n", opts, dataTok(r, sz, 0), r.Pick([]int{0, 0, 1, 5000}), fail, r.Intn(2), strings.Join(toks, " "))
	}
}
