package main

import (
	"bufio"
	"fmt"
	"io"
	"strings"

	lz4 "github.com/pierrec/lz4/v4"
)

func init() {
	extraOps["CR"] = implCR
	generators["cr"] = genCR
}

type rc struct{ io.Reader }

func (rc) Close() error { return nil }

// CR <opts|-> <data> <chunk> <failAt> <eofWithData> <size>…
func implCR(f []string, o *oracleSink) string {
	data := parseData(f[2])
	src := &scriptSrc{data: data, chunk: atoi(f[3]), failAt: atoi(f[4]), eofWithData: f[5] == "1"}
	zr := lz4.NewCompressingReader(rc{src})
	var aerr error
	kv := map[string]int{"bs": 4 << 20, "bc": 0, "cc": 1, "sz": 0}
	if f[1] != "-" {
		opts, k2 := parseOptsGo(f[1])
		aerr = zr.Apply(opts...)
		if aerr == nil {
			for k, v := range k2 {
				kv[k] = v
			}
		}
	}
	sizes := []int{}
	for _, s := range f[6:] {
		sizes = append(sizes, atoi(s))
	}
	var res, notes []string
	var all []byte
	last := 0
	total := 0
	eof := false
	for i := 0; i < 100000; i++ {
		n := last
		if len(sizes) > 0 {
			n, sizes = sizes[0], sizes[1:]
		}
		last = n
		buf := make([]byte, n)
		var got int
		var err error
		r, ok := timed(func() string {
			got, err = zr.Read(buf)
			return ""
		})
		if !ok || r != "" {
			res = append(res, "HANG-OR-PANIC:"+r)
			notes = append(notes, "HANG")
			break
		}
		if got > n || got < 0 {
			notes = append(notes, "BADCOUNT")
			break
		}
		if len(res) < 60 {
			res = append(res, fmt.Sprintf("%d/%d/%s", got, fnv(buf[:got]), errName(err)))
		}
		all = append(all, buf[:got]...)
		total += got
		if err != nil {
			eof = err == io.EOF
			break
		}
		if n > 0 && got == 0 {
			notes = append(notes, "NO-PROGRESS")
			break
		}
		if n == 0 && len(sizes) == 0 {
			break
		}
	}
	if eof && aerr == nil {
		sz := "-"
		if kv["sz"] > 0 {
			sz = fmt.Sprint(kv["sz"])
		}
		o.ask("frame", "SF 1 "+saveBlob("cr", all), fmt.Sprintf("ok ver=1 indep=1 bc=%d cc=%d size=%s bmax=%d len=%d fnv=%d consumed=%d",
			kv["bc"], kv["cc"], sz, kv["bs"], len(data), fnv(data), len(all)))
		// after io.EOF the reader is done
		if n, err := zr.Read(make([]byte, 8)); n != 0 || err == nil {
			notes = append(notes, "READ-AFTER-EOF")
		}
	} else if src.failAt >= 0 && src.calls() > src.failAt {
		if len(res) == 0 || !strings.HasSuffix(res[len(res)-1], "/injected") {
			notes = append(notes, "SOURCE-ERROR-NOT-PASSED")
		}
	} else if aerr == nil && !eof && len(notes) == 0 && len(f[6:]) > 0 && last > 0 {
		notes = append(notes, "NO-EOF")
	}
	return fmt.Sprintf("%s %s ; total=%d ; %s", errName(aerr), strings.Join(res, " "), total, strings.Join(append(notes, "notes"), " "))
}

func genCR(w *bufio.Writer, thorough bool, r *Rng) {
	n := 300
	if thorough {
		n = 6000
	}
	for i := 0; i < n; i++ {
		bs := r.Pick([]int{65536, 65536, 65536, 262144})
		lvl := r.Pick([]int{0, 0, 512, 2048})
		opts := fmt.Sprintf("bs=%d,bc=%d,cc=%d,sz=%d,lvl=%d", bs, r.Intn(2), r.Intn(2), r.Pick([]int{0, 0, 77}), lvl)
		switch r.Intn(12) {
		case 0:
			opts = "-"
		case 1:
			opts = "conc=2" // not applicable
		case 2:
			opts = "bs=1000"
		}
		sz := r.Pick([]int{0, 1, 100, bs - 1, bs, bs + 1, 2 * bs, 2*bs + 100, r.Intn(3 * bs)})
		if opts == "-" && sz > 100000 {
			sz = 100000
		}
		fail := -1
		if r.Intn(6) == 0 {
			fail = r.Intn(8)
		}
		var sizes []string
		k := 1 + r.Intn(6)
		for j := 0; j < k; j++ {
			sizes = append(sizes, fmt.Sprint(r.Pick([]int{0, 1, 1, 2, 3, 6, 7, 8, 100, 4096, 65536, 70000, 1 << 20, 5 << 20})))
		}
		if sizes[len(sizes)-1] == "0" {
			sizes = append(sizes, "5")
		}
		// tiny buffers over big inputs would take millions of calls: bound the work
		if sz > 70000 {
			sizes = append(sizes, fmt.Sprint(r.Pick([]int{4096, 65536, 100000})))
		}
		fmt.Fprintf(w, "CR %s %s %d %d %d %s\n", opts, dataTok(r, sz, lvl), r.Pick([]int{0, 0, 1, 5000}), fail, r.Intn(2), strings.Join(sizes, " "))
	}
}
