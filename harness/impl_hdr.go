package main

import (
	"bufio"
	"bytes"
	"encoding/binary"
	"fmt"
	"io"
	"strings"

	lz4 "github.com/pierrec/lz4/v4"
)

var hdReuse *lz4.Reader

func init() {
	extraOps["HD"] = implHD
	extraOps["HM"] = implHM
	generators["hdr"] = genHD
}

// HD flg bd sz mode : tries checksum bytes against ValidFrameHeader and Reader.Read/Size.
// prints: acc=<list of accepted ck> wrong=<error classes seen for rejected ck> size=<Size() when accepted> vfh=<consistent?>
func implHD(f []string, o *oracleSink) string {
	flg, bd := byte(atoi(f[1])), byte(atoi(f[2]))
	hasSize := flg&8 != 0
	var sz uint64
	if f[3] != "-" {
		sz = atou(f[3])
	}
	hdr := []byte{0x04, 0x22, 0x4D, 0x18, flg, bd}
	if hasSize {
		var s [8]byte
		binary.LittleEndian.PutUint64(s[:], sz)
		hdr = append(hdr, s[:]...)
	}
	right := byte(refXXH32(hdr[4:]) >> 8)
	cks := []int{int(right), int(right ^ 1), int(right ^ 0x80), int(right + 1)}
	for _, c := range []int{0, 255} { // the byte values a "not set" test would single out
		if c != int(right) && c != int(right^1) && c != int(right^0x80) && c != int(right+1) {
			cks = append(cks, c)
		}
	}
	if f[4] == "t" {
		cks = cks[:0]
		for c := 0; c < 256; c++ {
			cks = append(cks, c)
		}
	}
	acc := ""
	wrong := map[string]bool{}
	sizeSeen := "-"
	incons := ""
	for _, c := range cks {
		h := append(append([]byte{}, hdr...), byte(c))
		// a complete (empty) frame follows so that Read can run to EOF
		full := append(append([]byte{}, h...), 0, 0, 0, 0)
		if flg&4 != 0 {
			full = append(full, 0x05, 0x5d, 0xcc, 0x02) // XXH32("")
		}
		ok, err := lz4.ValidFrameHeader(h)
		// the Reader goes through the same parser: in the exhaustive mode it is run for the right
		// checksum byte and a sample of wrong ones, ValidFrameHeader for all 256
		if f[4] == "t" && c != int(right) && c%32 != int(right)%32 {
			if ok {
				acc += fmt.Sprintf("%d,", c)
			} else {
				wrong[errName(err)] = true
			}
			continue
		}
		zr := lz4.NewReader(bytes.NewReader(full))
		_, rerr := zr.Read(make([]byte, 16))
		rOK := rerr == nil || rerr == io.EOF
		// the same through sources that deliver the header in pieces: one byte at a time, and five at a time
		// (which cuts the content-size field)
		if c == int(right) || c == int(right^1) {
			for _, chunk := range []int{1, 5} {
				if !hasSize && chunk == 5 {
					continue
				}
				zc := lz4.NewReader(&scriptSrc{data: full, chunk: chunk, failAt: -1})
				_, cerr := zc.Read(make([]byte, 16))
				if errName(cerr) != errName(rerr) || (rOK && zc.Size() != zr.Size()) {
					incons += fmt.Sprintf("fragmented-source(chunk=%d):read=%s/size=%d@%d ", chunk, errName(cerr), uint64(zc.Size()), c)
				}
			}
		}
		if ok != rOK && !(ok && !rOK) {
			incons += fmt.Sprintf("vfh=%v/read=%s@%d ", ok, errName(rerr), c)
		}
		if ok {
			acc += fmt.Sprintf("%d,", c)
			if err != nil {
				incons += "ok-with-error "
			}
			if rOK {
				sizeSeen = fmt.Sprint(uint64(zr.Size()))
				// the same through a long-lived Reader reused with Reset (its previous frame may have had a size)
				if hdReuse == nil {
					hdReuse = lz4.NewReader(bytes.NewReader(full))
				} else {
					hdReuse.Reset(bytes.NewReader(full))
				}
				_, e2 := hdReuse.Read(make([]byte, 16))
				if (e2 != nil && e2 != io.EOF) || fmt.Sprint(uint64(hdReuse.Size())) != sizeSeen {
					incons += fmt.Sprintf("reused-reader:size=%d/err=%s ", uint64(hdReuse.Size()), errName(e2))
				}
			} else {
				incons += fmt.Sprintf("vfh-ok-but-read=%s@%d ", errName(rerr), c)
			}
		} else {
			wrong[errName(err)] = true
			if errName(err) != errName(rerr) && err != nil {
				incons += fmt.Sprintf("vfh=%s/read=%s@%d ", errName(err), errName(rerr), c)
			}
		}
	}
	ws := ""
	for _, k := range []string{"ok", "badhdrck", "badblksize", "badmagic", "unexpEOF", "eof"} {
		if wrong[k] {
			ws += k + ","
		}
	}
	for k := range wrong {
		switch k {
		case "ok", "badhdrck", "badblksize", "badmagic", "unexpEOF", "eof":
		default:
			ws += k + ","
		}
	}
	if incons == "" {
		incons = "consistent"
	}
	// what the property demands, computed from an independent XXH32: accepted iff ck right and code in 4..7
	code := int(bd>>4) & 7
	expAcc, expWrong := "", ""
	tried := map[int]bool{}
	for _, c := range cks {
		tried[c] = true
	}
	validBS := code >= 4 && code <= 7
	if validBS && tried[int(right)] {
		expAcc = fmt.Sprintf("%d,", right)
	}
	if len(cks) > 1 || !tried[int(right)] {
		expWrong += "badhdrck,"
	}
	if !validBS && tried[int(right)] {
		// right checksum, undefined block size: its own distinct error
		if expWrong == "" {
			expWrong = "badblksize,"
		} else {
			expWrong = "badhdrck,badblksize,"
		}
	}
	expSize := "-"
	if expAcc != "" {
		expSize = "0"
		if hasSize {
			expSize = fmt.Sprint(sz)
		}
	}
	res := fmt.Sprintf("acc=%s wrong=%s size=%s", acc, ws, sizeSeen)
	exp := fmt.Sprintf("acc=%s wrong=%s size=%s", expAcc, expWrong, expSize)
	note := "hdr=ok"
	if res != exp {
		note = "HDR-MISMATCH:expected[" + strings.ReplaceAll(exp, " ", "_") + "]"
	}
	if incons != "consistent" {
		note += " HDR-MISMATCH:inconsistent[" + strings.ReplaceAll(strings.TrimSpace(incons), " ", "_") + "]"
	}
	return fmt.Sprintf("%s ; %s ; %s notes", res, incons, note)
}

// an empty frame: magic, FLG (version 1, independent blocks), BD (64 KiB), header checksum, end mark
var emptyFrame = func() []byte {
	d := []byte{0x60, 0x40}
	return append(append([]byte{0x04, 0x22, 0x4D, 0x18}, d...), byte(refXXH32(d)>>8), 0, 0, 0, 0)
}()

// HM <word> : the first word of the input is <word>; a skip length of 4, four bytes, and an empty
// frame follow.  prints vfh=<bool>/<err> read=<n>/<err>
func implHM(f []string, o *oracleSink) string {
	m := uint32(atou(f[1]))
	in := append(le32b(m), le32b(4)...)
	in = append(in, 9, 8, 7, 6)
	in = append(in, emptyFrame...)
	ok, err := lz4.ValidFrameHeader(in)
	zr := lz4.NewReader(bytes.NewReader(in))
	n, rerr := zr.Read(make([]byte, 16))
	res := fmt.Sprintf("vfh=%v/%s read=%d/%s", ok, errName(err), n, errName(rerr))
	note := "hdr=ok"
	exp := ""
	switch {
	case m == 0x184D2204 || m == 0x184C2102:
	case m >= 0x184D2A50 && m <= 0x184D2A5F:
		exp = "vfh=true/ok read=0/eof"
	default:
		// not a magic: ValidFrameHeader says false without error, the Reader reports an invalid frame
		exp = "vfh=false/ok read=0/badmagic"
	}
	if exp != "" && res != exp {
		note = "HDR-MISMATCH:expected[" + strings.ReplaceAll(exp, " ", "_") + "]"
	}
	return fmt.Sprintf("%s ; acc=%d ; %s notes", res, m, note)
}

func genHD(w *bufio.Writer, thorough bool, r *Rng) {
	mode := "q"
	if thorough {
		mode = "t"
	}
	sizes := []uint64{0, 1, 1 << 32, 1 << 63, 1<<64 - 1, r.U64()}
	for d := 0; d < 65536; d++ {
		flg, bd := d&255, d>>8
		if flg&8 != 0 {
			if thorough {
				for _, s := range sizes {
					fmt.Fprintf(w, "HD %d %d %d %s\n", flg, bd, s, mode)
				}
			} else {
				fmt.Fprintf(w, "HD %d %d %d %s\n", flg, bd, sizes[(d/7)%len(sizes)], mode)
			}
		} else {
			fmt.Fprintf(w, "HD %d %d - %s\n", flg, bd, mode)
		}
	}
	// first words that are not the frame magic: ValidFrameHeader returns false without error unless it is
	// one of the sixteen skippable magics (or the legacy magic)
	for _, m := range magicWords(r) {
		fmt.Fprintf(w, "HM %d\n", m)
	}
}
