package main

import (
	"fmt"

	lz4 "github.com/pierrec/lz4/v4"
)

// vh biglen : blocks whose literal or match length is extended by enough 0xFF bytes to reach
// 2^31, 2^32 and a little beyond (lengths that only fit a 64-bit count).  No destination can hold
// them: every decoder must report an error.  One line per (kind, length, len(dst)).
func init() {
	commands["biglen"] = func(args []string) {
		mk := func(kind string, ext int) []byte {
			src := make([]byte, 0, ext+32)
			if kind == "match" {
				src = append(src, 0x1F, 'a', 1, 0)
			} else {
				src = append(src, 0xF0)
			}
			for i := 0; i < ext; i++ {
				src = append(src, 0xFF)
			}
			src = append(src, 0)
			src = append(src, 0x50)
			src = append(src, "bcdef"...)
			return src
		}
		for _, kind := range []string{"match", "lit"} {
			for _, ext := range []int{(1 << 31) / 255, (1<<31)/255 + 1, (1 << 32) / 255, (1<<32)/255 + 1, (1<<32)/255 + 2} {
				src := mk(kind, ext)
				for _, dl := range []int{24, 64, 4096, 1 << 20} {
					dst := make([]byte, dl)
					res := safe(func() string {
						n, err := lz4.UncompressBlock(src, dst)
						if err != nil {
							return "err"
						}
						return fmt.Sprintf("ok %d %d", n, fnv(dst[:n]))
					})
					fmt.Printf("%s ext=%d dl=%d -> %s\n", kind, ext, dl, res)
				}
			}
		}
	}
}
