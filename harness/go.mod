module verifharness

go 1.21

require github.com/pierrec/lz4/v4 v4.0.0

replace github.com/pierrec/lz4/v4 => /repo
