#!/usr/bin/env python3
"""rebaseline.py: record the source the models are validated against (run after every commit to /repo,
never by a check): baseline_hashes.json and baseline_ties.json from a fresh extraction of /repo."""
import json, os, subprocess, sys, tempfile
ROOT = os.path.join(os.path.dirname(os.path.abspath(__file__)), "..")
env = dict(os.environ, GOFLAGS="-mod=mod", GOPROXY="off", GOSUMDB="off", GOTOOLCHAIN="local")
if subprocess.run(["git", "-C", "/repo", "status", "--porcelain", "--untracked-files=no"], stdout=subprocess.PIPE).stdout.strip():
    sys.exit("/repo has uncommitted changes: the baseline is taken from committed source only")
with tempfile.TemporaryDirectory() as d:
    exe = os.path.join(d, "extract")
    subprocess.run(["go", "build", "-o", exe, "./extract"], cwd=os.path.join(ROOT, "harness"), env=env, check=True)
    subprocess.run([exe, "/repo", d], check=True, stdout=subprocess.DEVNULL)
    f = json.load(open(os.path.join(d, "facts.json")))
json.dump(f["hashes"], open(os.path.join(ROOT, "baseline_hashes.json"), "w"), indent=1, sort_keys=True)
json.dump(f["ties"], open(os.path.join(ROOT, "baseline_ties.json"), "w"), indent=1, sort_keys=True)
head = subprocess.run(["git", "-C", "/repo", "rev-parse", "--short", "HEAD"], stdout=subprocess.PIPE).stdout.decode().strip()
print(f"baseline taken at /repo {head}: {len(f['hashes'])} modelled-function hashes, {len(f['ties'])} source ties")
