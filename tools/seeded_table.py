#!/usr/bin/env python3
"""seeded_table.py: the table of DESIGN.md §7 from seeded/*/meta.json (stdout, markdown)."""
import json, os, glob, re
ROOT = os.path.join(os.path.dirname(os.path.abspath(__file__)), "..", "seeded")
FIX = json.load(open(os.path.join(ROOT, "strengthening.json"))) if os.path.exists(os.path.join(ROOT, "strengthening.json")) else {}
rows = []
def key(d):
    m = re.match(r"C(\d+)-([a-z]*)m(\d)", d)
    return (m.group(2), int(m.group(1)), int(m.group(3)))
for d in sorted([x for x in os.listdir(ROOT) if os.path.isdir(os.path.join(ROOT, x))], key=key):
    m = json.load(open(os.path.join(ROOT, d, "meta.json")))
    note = FIX.get(d, "checks strengthened")
    if not m.get("checks_before_strengthening") and d not in FIX:
        first = "detected (failing input)"
    elif note.startswith(("first run:", "validated by hand")):
        first = note
    else:
        first = "missed → " + note
    cut = lambda s, n: (s or "").replace("|", "/").replace("\n", " ")[:n]
    rows.append(f"| {d} | {cut(m.get('summary'), 150)} | {cut(m.get('needs'), 130)} | {first} | {','.join(m.get('detected_by') or []) or '**none**'} |")
print("| id | change | needs | first run | caught by (quick tier) |")
print("|----|--------|-------|-----------|------------------------|")
print("\n".join(rows))
