#!/usr/bin/env python3
"""seedtest.py <prop> <mN> <outdir> [check ids…]
Validates a seeded change produced by an independent agent and runs the checks against it:
 1. scratch worktree of /repo: patch applies, builds (default + noasm), pinned suite still passes,
    demo FAILS with the patch and PASSES without;
 2. patch applied to /repo itself, ./check <ids> run, patch reverted;
 3. everything recorded under /verif/seeded/<prop>-<mN>/.
"""
import sys, os, subprocess, json, shutil, time
prop, mn, outdir = sys.argv[1:4]
ids = sys.argv[4:] or [prop]
ENV = dict(os.environ, GOFLAGS="-mod=mod", GOPROXY="off", GOSUMDB="off", GOTOOLCHAIN="local", GOMAXPROCS="8")
def sh(cmd, cwd=None, timeout=1800):
    p = subprocess.run(cmd, cwd=cwd, env=ENV, stdout=subprocess.PIPE, stderr=subprocess.STDOUT, shell=isinstance(cmd, str), timeout=timeout)
    return p.returncode, p.stdout.decode("utf-8", "replace")
diff = os.path.join(outdir, f"{mn}.diff")
meta = json.load(open(os.path.join(outdir, f"{mn}.json")))
demo = os.path.join(outdir, f"{mn}_demo_test.go")
TAG0 = os.environ.get("SEED_TAG", "")
prev_path = f"/verif/seeded/{prop}-{TAG0}{mn}/meta.json"
prev = json.load(open(prev_path)) if os.path.exists(prev_path) else None
REUSE = os.environ.get("SEED_REUSE") == "1" and prev and prev.get("valid")
wt = f"/tmp/seedwt-{os.getpid()}"
sh(["git", "-C", "/repo", "worktree", "remove", "--force", wt])
rc, o = sh(["git", "-C", "/repo", "worktree", "add", "-q", "--detach", wt, "HEAD"]); assert rc == 0, o
TAG = os.environ.get("SEED_TAG", "")
res = dict(property=prop, id=f"{prop}-{TAG}{mn}", summary=meta.get("summary"), needs=meta.get("needs"), ran={})
def apply(d):
    rc, o = sh(["git", "apply", diff], cwd=d)
    if rc != 0:
        rc, o = sh(f"patch -p1 --fuzz=3 < {diff}", cwd=d)
    return rc, o
try:
    if REUSE:
        res["ran"] = prev["ran"]   # validated in an earlier run (scratch worktree, suite, demo)
        raise StopIteration
    rc, o = apply(wt); res["ran"]["applies"] = rc == 0
    if rc != 0:
        print("PATCH DOES NOT APPLY", o[-500:]); raise SystemExit(3)
    rc1, o1 = sh("go build ./... && go build -tags noasm ./... && go build -tags verif ./...", cwd=wt)
    res["ran"]["builds"] = rc1 == 0
    # pinned suite
    rc2, o2 = sh(f"go test -json -vet=off -count=1 -timeout 25m ./... > /tmp/seed_suite_{os.getpid()}.json 2>/dev/null; true", cwd=wt)
    passed = set()
    for l in open(f"/tmp/seed_suite_{os.getpid()}.json"):
        try: e = json.loads(l)
        except Exception: continue
        if e.get("Action") in ("pass", "skip") and e.get("Test"): passed.add(e["Package"] + "::" + e["Test"])
    base = set(json.load(open("/root/.vp/BASELINE.json"))["stable_pass"])
    missing = [m for m in sorted(base - passed) if "::TestWriterLegacyCommand/" not in m]
    res["ran"]["suite_missing"] = missing[:10]
    # demo with the patch
    ddir = os.path.join(wt, meta.get("demo_dir", ".") or ".")
    shutil.copy(demo, os.path.join(ddir, "zz_seed_demo_test.go"))
    run = meta.get("demo_run", "go test -vet=off -count=1 .")
    rc3, o3 = sh(run, cwd=wt, timeout=900)
    res["ran"]["demo_fails_with_patch"] = rc3 != 0
    res["ran"]["demo_output_with_patch"] = o3[-600:]
    os.remove(os.path.join(ddir, "zz_seed_demo_test.go"))
    sh(["git", "reset", "--hard", "-q", "HEAD"], cwd=wt); sh(["git", "clean", "-fdq"], cwd=wt)
    shutil.copy(demo, os.path.join(ddir, "zz_seed_demo_test.go"))
    rc4, o4 = sh(run, cwd=wt, timeout=900)
    res["ran"]["demo_passes_without_patch"] = rc4 == 0
    if rc4 != 0: res["ran"]["demo_output_without_patch"] = o4[-600:]
except StopIteration:
    pass
finally:
    sh(["git", "-C", "/repo", "worktree", "remove", "--force", wt])
ok = res["ran"].get("builds") and not res["ran"].get("suite_missing") and res["ran"].get("demo_fails_with_patch") and res["ran"].get("demo_passes_without_patch")
res["valid"] = bool(ok)
print(json.dumps({k: v for k, v in res["ran"].items() if "output" not in k}))
checks = {}
if ok and os.environ.get("SEED_VALIDATE_ONLY") != "1":
    rc, o = sh(["git", "-C", "/repo", "status", "--porcelain", "--untracked-files=no"]); assert o.strip() == "", "repo dirty: " + o
    rc, o = apply("/repo"); assert rc == 0, o
    try:
        for i in ids:
            t0 = time.time()
            rc, o = sh(["./check", i, "--tier", "quick"], cwd="/verif", timeout=3600)
            vl = [l for l in o.splitlines() if l.startswith("VIOLATION")]
            fl = [l for l in o.splitlines() if "finding:" in l][:2]
            checks[i] = dict(exit=rc, violation=vl[:1], findings=[f[:400] for f in fl], wall_s=round(time.time() - t0, 1))
            print(i, "exit", rc, vl[:1], [f[:300] for f in fl[:1]])
    finally:
        sh(["git", "-C", "/repo", "reset", "--hard", "-q", "HEAD"]); sh("find /repo -name '*.orig' -o -name '*.rej' | xargs -r rm -f")
res["checks"] = checks
if prev and prev.get("checks") and not prev.get("detected_by"):
    res["checks_before_strengthening"] = prev.get("checks_before_strengthening") or prev["checks"]
elif prev and prev.get("checks_before_strengthening"):
    res["checks_before_strengthening"] = prev["checks_before_strengthening"]
res["detected_by"] = [i for i, c in checks.items() if c["exit"] == 1 and c["violation"]]
res["detected_with_failing_input"] = [i for i, c in checks.items() if c["exit"] == 1 and c["violation"] and "no-failing-input-found" not in c["violation"][0]]
d = f"/verif/seeded/{prop}-{TAG}{mn}"
os.makedirs(d, exist_ok=True)
shutil.copy(diff, os.path.join(d, "patch.diff")); shutil.copy(demo, os.path.join(d, "demo_test.go"))
json.dump(dict(meta, **res), open(os.path.join(d, "meta.json"), "w"), indent=1)
print("DETECTED BY", res["detected_by"], "CONCRETE", res["detected_with_failing_input"], "valid=", res["valid"])
