#!/bin/bash
# quickseed.sh <patch.diff> <check id>… : apply an already validated seeded change to /repo, run the checks, revert.
d=$1; shift
git -C /repo status --porcelain | grep -q . && { echo "/repo not clean"; exit 2; }
git -C /repo apply "$d" || { echo "patch does not apply"; exit 2; }
trap 'git -C /repo reset -q --hard; git -C /repo clean -fdq' EXIT
for id in "$@"; do
  out=$(cd /verif && ./check "$id" 2>&1); rc=$?
  echo "== $id exit=$rc"; echo "$out" | grep -E "VIOLATION|finding" | cut -c1-400 | head -5
done
