#!/bin/bash
# sweep.sh <tier> <seed>… : run every check on the unchanged tree; report alarms and wall time
tier=$1; shift
for seed in "$@"; do
  for p in C01 C02 C03 C04 C05 C06 C07 C08 C09 C10 C11 C12 C13 C14 C15 C16 C17 C18 C19 C20; do
    s=$(date +%s)
    out=$(VERIF_SEED=$seed ./check $p --tier $tier 2>&1); rc=$?
    e=$(( $(date +%s) - s ))
    echo "seed=$seed $p rc=$rc ${e}s $(echo "$out" | grep -E 'VIOLATION|KNOWN' | head -2 | cut -c1-200)"
    if [ $rc -ne 0 ]; then echo "$out" | grep finding | head -3 | cut -c1-600; fi
  done
done
