import Spike.XXH
def hexVal (c : Char) : UInt8 :=
  if c.isDigit then (c.toNat - 48).toUInt8 else (c.toNat - 87).toUInt8
def parseHex (s : String) : List UInt8 :=
  let rec go : List Char → List UInt8
    | a::b::r => (hexVal a * 16 + hexVal b) :: go r
    | _ => []
  go s.toList
partial def loop (h : IO.FS.Stream) : IO Unit := do
  let line ← h.getLine
  if line.isEmpty then return ()
  let bs := parseHex line.trimAscii.toString
  IO.println (XXH.xxh32 bs).toNat
  loop h
def main : IO Unit := do loop (← IO.getStdin)
