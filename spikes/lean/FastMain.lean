import Spike.Fast
open Fast
def hexVal (c : Char) : UInt8 :=
  if c.isDigit then (c.toNat - 48).toUInt8 else (c.toNat - 87).toUInt8
def parseHex (s : String) : Array UInt8 := Id.run do
  let cs := s.toList.toArray
  let mut out : Array UInt8 := Array.mkEmpty (cs.size / 2)
  let mut i := 0
  while i + 1 < cs.size do
    out := out.push (hexVal cs[i]! * 16 + hexVal cs[i+1]!)
    i := i + 2
  out
def fnv (a : Array UInt8) (n : Nat) : UInt64 := Id.run do
  let mut h : UInt64 := 14695981039346656037
  for i in [0:n] do
    h := (h ^^^ (a[i]!).toUInt64) * 1099511628211
  h
partial def loopIO (h : IO.FS.Stream) : IO Unit := do
  let line ← h.getLine
  if line.isEmpty then return ()
  match line.trimAscii.toString.splitOn " " with
  | [dl, srcHex] =>
    match compress (if srcHex == "-" then #[] else parseHex srcHex) dl.toNat! with
    | .ok n d => IO.println s!"{n} ok {fnv d n}"
    | .zero => IO.println "0 ok 0"
    | .err => IO.println "0 err 0"
  | _ => IO.println "bad-op"
  loopIO h
def main : IO Unit := do loopIO (← IO.getStdin)
