namespace XXH
def prime1 : UInt32 := 2654435761
def prime2 : UInt32 := 2246822519
def prime3 : UInt32 := 3266489917
def prime4 : UInt32 := 668265263
def prime5 : UInt32 := 374761393

@[inline] def rol (x : UInt32) (r : UInt32) : UInt32 := (x <<< r) ||| (x >>> (32 - r))

@[inline] def le32 (a b c d : UInt8) : UInt32 :=
  a.toUInt32 ||| (b.toUInt32 <<< 8) ||| (c.toUInt32 <<< 16) ||| (d.toUInt32 <<< 24)

@[inline] def round (v w : UInt32) : UInt32 := rol (v + w * prime2) 13 * prime1

/-- lanes over full 16-byte stripes; returns lanes and the remaining tail (< 16 bytes) -/
def stripes : UInt32 × UInt32 × UInt32 × UInt32 → List UInt8 → (UInt32 × UInt32 × UInt32 × UInt32) × List UInt8
  | (v1,v2,v3,v4), a0::a1::a2::a3::b0::b1::b2::b3::c0::c1::c2::c3::d0::d1::d2::d3::rest =>
      stripes (round v1 (le32 a0 a1 a2 a3), round v2 (le32 b0 b1 b2 b3), round v3 (le32 c0 c1 c2 c3), round v4 (le32 d0 d1 d2 d3)) rest
  | v, tail => (v, tail)

def tail4 : UInt32 → List UInt8 → UInt32
  | h, a::b::c::d::rest => tail4 (rol (h + le32 a b c d * prime3) 17 * prime4) rest
  | h, rest => rest.foldl (fun h x => rol (h + x.toUInt32 * prime5) 11 * prime1) h

def avalanche (h : UInt32) : UInt32 :=
  let h := h ^^^ (h >>> 15)
  let h := h * prime2
  let h := h ^^^ (h >>> 13)
  let h := h * prime3
  h ^^^ (h >>> 16)

/-- reference XXH32 seed 0 -/
def xxh32 (input : List UInt8) : UInt32 :=
  let n := input.length
  if n < 16 then
    avalanche (tail4 (prime5 + n.toUInt32) input)
  else
    let ((v1,v2,v3,v4), tl) := stripes (prime1 + prime2, prime2, 0, 0 - prime1) input
    avalanche (tail4 (rol v1 1 + rol v2 7 + rol v3 12 + rol v4 18 + n.toUInt32) tl)

end XXH
