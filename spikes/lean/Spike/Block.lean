namespace Blk
abbrev Bytes := List UInt8

/-- forward byte-by-byte match copy: the format's meaning of (offset, len) against `out` (dict ++ output so far) -/
def copyMatch (out : Bytes) (off : Nat) : Nat → Bytes
  | 0 => out
  | n+1 => copyMatch (out ++ [out.getD (out.length - off) 0]) off n

/-- extended length: 15-nibble continuation bytes. returns (value, rest) -/
def readLen : Nat → Bytes → Option (Nat × Bytes)
  | acc, b :: rest => if b.toNat = 255 then readLen (acc + 255) rest else some (acc + b.toNat, rest)
  | _, [] => none

/-- Independent spec decoder. `hist` = dict ++ output so far, `dl` = dict length. -/
def specDecode (fuel : Nat) (src : Bytes) (hist : Bytes) (dl : Nat) (maxOut : Nat) : Option Bytes :=
  match fuel with
  | 0 => none
  | fuel+1 =>
  match src with
  | [] => none
  | tok :: r0 =>
    let ll0 := tok.toNat / 16
    let ml0 := tok.toNat % 16
    match (if ll0 = 15 then readLen 15 r0 else some (ll0, r0)) with
    | none => none
    | some (ll, r1) =>
      if r1.length < ll then none else
      let hist1 := hist ++ r1.take ll
      let r2 := r1.drop ll
      if hist1.length - dl > maxOut then none else
      match r2 with
      | [] => if ml0 = 0 then some (hist1.drop dl) else none
      | [_] => none
      | lo :: hi :: r3 =>
        let off := lo.toNat + 256 * hi.toNat
        if off = 0 then none else
        if off > hist1.length then none else
        match (if ml0 = 15 then readLen 15 r3 else some (ml0, r3)) with
        | none => none
        | some (ml, r4) =>
          let hist2 := copyMatch hist1 off (ml + 4)
          if hist2.length - dl > maxOut then none else
          match r4 with
          | [] => some (hist2.drop dl)   -- block may end right after a match (lenient reading, as both decoders do)
          | _ => specDecode fuel r4 hist2 dl maxOut

/-- serialise an extended length -/
def emitLen (n : Nat) : Bytes :=
  if h : n < 255 then [n.toUInt8] else 255 :: emitLen (n - 255)
termination_by n
decreasing_by omega

theorem readLen_emitLen (n acc : Nat) (rest : Bytes) :
    readLen acc (emitLen n ++ rest) = some (acc + n, rest) := by
  induction n using Nat.strongRecOn generalizing acc with
  | _ n ih =>
    unfold emitLen
    split
    · rename_i h
      simp only [List.cons_append, List.nil_append, readLen]
      have hn : n.toUInt8.toNat = n := by
        rw [Nat.toUInt8_eq, UInt8.toNat_ofNat']; omega
      have : ¬ (n = 255) := by omega
      simp only [hn, this, if_false]
    · rename_i h
      have h255 : (255 : UInt8).toNat = 255 := rfl
      simp only [List.cons_append, readLen, h255, if_true]
      rw [ih (n - 255) (by omega)]
      have : acc + 255 + (n - 255) = acc + n := by omega
      rw [this]

structure Seq where
  lits : Bytes
  off : Nat
  ml : Nat      -- match length minus 4

def token (ll ml : Nat) : UInt8 := ((min ll 15) * 16 + min ml 15).toUInt8
def ext (n : Nat) : Bytes := if n < 15 then [] else emitLen (n - 15)

def emitSeq (s : Seq) : Bytes :=
  token s.lits.length s.ml :: (ext s.lits.length ++ (s.lits ++ ((s.off % 256).toUInt8 :: (s.off / 256).toUInt8 :: ext s.ml)))
def emitLast (l : Bytes) : Bytes := token l.length 0 :: (ext l.length ++ l)
def emitAll : List Seq → Bytes → Bytes
  | [], l => emitLast l
  | s :: ss, l => emitSeq s ++ emitAll ss l

def expand (hist : Bytes) : List Seq → Bytes → Bytes
  | [], l => hist ++ l
  | s :: ss, l => expand (copyMatch (hist ++ s.lits) s.off (s.ml + 4)) ss l

/-- well-formedness of a sequence list relative to history -/
def WF (hist : Bytes) : List Seq → Prop
  | [] => True
  | s :: ss => 1 ≤ s.off ∧ s.off < 65536 ∧ s.off ≤ hist.length + s.lits.length ∧
      WF (copyMatch (hist ++ s.lits) s.off (s.ml + 4)) ss

theorem token_hi (ll ml : Nat) : (token ll ml).toNat / 16 = min ll 15 := by
  unfold token; rw [Nat.toUInt8_eq, UInt8.toNat_ofNat']; omega
theorem token_lo (ll ml : Nat) : (token ll ml).toNat % 16 = min ml 15 := by
  unfold token; rw [Nat.toUInt8_eq, UInt8.toNat_ofNat']; omega

theorem readExt (n : Nat) (rest : Bytes) :
    (if min n 15 = 15 then readLen 15 (ext n ++ rest) else some (min n 15, ext n ++ rest)) = some (n, rest) := by
  unfold ext
  by_cases h : n < 15
  · have : min n 15 = n := by omega
    simp [this, h]; omega
  · have : min n 15 = 15 := by omega
    simp only [this, if_true, h, if_false]
    rw [readLen_emitLen]; congr 2; omega

theorem copyMatch_length (out : Bytes) (off n : Nat) : (copyMatch out off n).length = out.length + n := by
  induction n generalizing out with
  | zero => simp [copyMatch]
  | succ n ih => simp [copyMatch, ih]; omega

theorem expand_length_ge (hist : Bytes) (ss : List Seq) (l : Bytes) : hist.length ≤ (expand hist ss l).length := by
  induction ss generalizing hist with
  | nil => simp [expand]
  | cons s ss ih =>
    simp only [expand]
    refine Nat.le_trans ?_ (ih _)
    rw [copyMatch_length]; simp; omega

theorem decode_last (fuel : Nat) (l hist : Bytes) (dl maxOut : Nat)
    (hmax : (hist ++ l).length - dl ≤ maxOut) :
    specDecode (fuel+1) (emitLast l) hist dl maxOut = some ((hist ++ l).drop dl) := by
  unfold emitLast specDecode
  simp only [token_hi, token_lo]
  rw [readExt]
  simp only []
  simp only [List.length_append] at hmax
  simp
  omega

theorem decode_emitAll (ss : List Seq) (l hist : Bytes) (dl maxOut fuel : Nat)
    (hwf : WF hist ss) (hfuel : ss.length < fuel)
    (hmax : (expand hist ss l).length - dl ≤ maxOut) :
    specDecode fuel (emitAll ss l) hist dl maxOut = some ((expand hist ss l).drop dl) := by
  induction ss generalizing hist fuel with
  | nil =>
    cases fuel with
    | zero => simp at hfuel
    | succ f => simp only [emitAll, expand]; exact decode_last f l hist dl maxOut (by simpa [expand] using hmax)
  | cons s ss ih =>
    cases fuel with
    | zero => simp at hfuel
    | succ f =>
      obtain ⟨ho1, ho2, ho3, hwf'⟩ := hwf
      simp only [emitAll, expand, emitSeq, List.cons_append]
      unfold specDecode
      simp only [token_hi, token_lo, List.append_assoc]
      rw [readExt]
      simp only []
      have hlt : ∀ r : Bytes, ¬ ((s.lits ++ r).length < s.lits.length) := by
        intro r; simp
      rw [if_neg (hlt _)]
      simp only [List.take_left, List.drop_left]
      have hlen2 := expand_length_ge (copyMatch (hist ++ s.lits) s.off (s.ml + 4)) ss l
      rw [copyMatch_length] at hlen2
      simp only [expand] at hmax
      have h1 : ¬ ((hist ++ s.lits).length - dl > maxOut) := by simp at hlen2 ⊢; omega
      rw [if_neg h1]
      have hlo : (s.off % 256).toUInt8.toNat = s.off % 256 := by rw [Nat.toUInt8_eq, UInt8.toNat_ofNat']; omega
      have hhi : (s.off / 256).toUInt8.toNat = s.off / 256 := by rw [Nat.toUInt8_eq, UInt8.toNat_ofNat']; omega
      simp only [List.cons_append, hlo, hhi]
      have hoff : s.off % 256 + 256 * (s.off / 256) = s.off := by omega
      rw [hoff]
      have h2 : ¬ (s.off = 0) := by omega
      have h3 : ¬ (s.off > (hist ++ s.lits).length) := by simp; omega
      rw [if_neg h2, if_neg h3, readExt]
      simp only []
      have h4 : ¬ ((copyMatch (hist ++ s.lits) s.off (s.ml + 4)).length - dl > maxOut) := by
        rw [copyMatch_length]; omega
      rw [if_neg h4]
      have hne : emitAll ss l ≠ [] := by cases ss <;> simp [emitAll, emitLast, emitSeq]
      rw [ih _ f hwf' (by simp at hfuel; omega) hmax]
      split
      · contradiction
      · rfl
end Blk
