/-! Spike: statement-level model of lz4block.Compressor.CompressBlock (fast). -/
namespace Fast

def winSize : Nat := 65536
def htSize : Nat := 65536
def mfLimit : Nat := 14
def prime6 : UInt64 := 227718039650203

@[inline] def blockHash (x : UInt64) : Nat := (((x <<< 16) * prime6) >>> 48).toNat % htSize

@[inline] def ld (s : Array UInt8) (i : Nat) : UInt64 := (s[i]!).toUInt64
def load64 (s : Array UInt8) (i : Nat) : UInt64 :=
  ld s i ||| (ld s (i+1) <<< 8) ||| (ld s (i+2) <<< 16) ||| (ld s (i+3) <<< 24) |||
  (ld s (i+4) <<< 32) ||| (ld s (i+5) <<< 40) ||| (ld s (i+6) <<< 48) ||| (ld s (i+7) <<< 56)
def load32 (s : Array UInt8) (i : Nat) : UInt64 :=
  ld s i ||| (ld s (i+1) <<< 8) ||| (ld s (i+2) <<< 16) ||| (ld s (i+3) <<< 24)

/-- table: entry = some (pos % 65536) when in use -/
abbrev Table := Array (Option Nat)

def get (t : Table) (h : Nat) (si : Nat) : Int :=
  let i : Nat := match t[h]! with | some v => v | none => 0
  let i : Int := (i : Int) + ((si - si % winSize : Nat) : Int)
  if i ≥ (si : Int) then i - winSize else i
def put (t : Table) (h : Nat) (si : Nat) : Table := t.set! h (some (si % 65536))

/-- number of equal low-order bytes = TrailingZeros64(x) >> 3 for x ≠ 0 -/
def tzBytes (x : UInt64) : Nat := Id.run do
  let mut n := 0
  let mut y := x
  while n < 8 ∧ (y &&& 0xFF) == 0 do
    y := y >>> 8
    n := n + 1
  n

structure Dst where
  data : Array UInt8   -- size = len(dst)
  di : Nat

inductive Ret where
  | ok (n : Nat) (d : Array UInt8)
  | zero                 -- (0, nil)
  | err                  -- (0, ErrInvalidSourceShortBuffer)

def bound (n : Nat) : Nat := n + n / 255 + 16

/-- emit one sequence; none = short-buffer error -/
def emitSeq (src : Array UInt8) (data0 : Array UInt8) (di0 : Nat) (anchor lLen offset mLen : Nat) : Option (Array UInt8 × Nat) := do
  let len := data0.size
  let mut di := di0
  let mut data := data0
  if di ≥ len then none
  let tok0 : Nat := if mLen < 15 then mLen else 15
  if lLen < 15 then
    data := data.set! di (tok0 + lLen * 16).toUInt8
  else
    data := data.set! di (tok0 + 0xF0).toUInt8
    di := di + 1
    let mut l := lLen - 15
    while l ≥ 255 ∧ di < len do
      data := data.set! di 255
      di := di + 1
      l := l - 255
    if di ≥ len then none
    data := data.set! di l.toUInt8
  di := di + 1
  if di + lLen > len then none
  for i in [0:lLen] do
    data := data.set! (di + i) src[anchor + i]!
  di := di + lLen + 2
  if di > len then none
  data := data.set! (di - 2) (offset % 256).toUInt8
  data := data.set! (di - 1) (offset / 256).toUInt8
  if mLen ≥ 15 then
    let mut m := mLen - 15
    while m ≥ 255 ∧ di < len do
      data := data.set! di 255
      di := di + 1
      m := m - 255
    if di ≥ len then none
    data := data.set! di m.toUInt8
    di := di + 1
  pure (data, di)

def lastLiterals (src : Array UInt8) (data0 : Array UInt8) (di0 : Nat) (anchor : Nat) (notComp : Bool) : Ret := Id.run do
  if notComp ∧ anchor == 0 then return .zero
  let len := data0.size
  let mut di := di0
  let mut data := data0
  if di ≥ len then return .err
  let mut lLen := src.size - anchor
  if lLen < 15 then
    data := data.set! di (lLen * 16).toUInt8
  else
    data := data.set! di 0xF0
    di := di + 1
    lLen := lLen - 15
    while lLen ≥ 255 ∧ di < len do
      data := data.set! di 255
      di := di + 1
      lLen := lLen - 255
    if di ≥ len then return .err
    data := data.set! di lLen.toUInt8
  di := di + 1
  if notComp ∧ di ≥ anchor then return .zero
  if di + src.size - anchor > len then return .err
  for i in [0:src.size - anchor] do
    data := data.set! (di + i) src[anchor + i]!
  return .ok (di + src.size - anchor) data

def compress (src : Array UInt8) (dstLen : Nat) : Ret := Id.run do
  let notComp := dstLen < bound src.size
  let mut t : Table := Array.replicate htSize none
  let mut dd : Array UInt8 := Array.replicate dstLen 0
  let mut ddi := 0
  let mut si := 0
  let mut anchor := 0
  if src.size ≤ mfLimit then return lastLiterals src dd ddi anchor notComp
  let sn := src.size - mfLimit
  while si < sn do
    let m := load64 src si
    let h := blockHash m
    let h2 := blockHash (m >>> 8)
    let ref := get t h si
    let ref2 := get t h2 (si+1)
    t := put t h si
    t := put t h2 (si+1)
    let mut offset : Int := (si : Int) - ref
    let mut found := true
    if offset ≤ 0 ∨ offset ≥ winSize ∨ (m &&& 0xFFFFFFFF) != load32 src ref.toNat then
      let h3 := blockHash (m >>> 16)
      let ref3 := get t h3 (si+2)
      si := si + 1
      offset := (si : Int) - ref2
      if offset ≤ 0 ∨ offset ≥ winSize ∨ ((m >>> 8) &&& 0xFFFFFFFF) != load32 src ref2.toNat then
        si := si + 1
        offset := (si : Int) - ref3
        t := put t h3 si
        if offset ≤ 0 ∨ offset ≥ winSize ∨ ((m >>> 16) &&& 0xFFFFFFFF) != load32 src ref3.toNat then
          si := si + 2 + (si - anchor) / 128
          found := false
    if found then
      let off := offset.toNat
      let mut lLen := si - anchor
      let mut mLen := 4
      -- backward extension: tOff := si - off - 1 (may be -1)
      let mut back := 0
      while lLen > 0 ∧ si - back ≥ off + 1 ∧ src[si - back - 1]! == src[si - back - off - 1]! do
        back := back + 1
        lLen := lLen - 1
        mLen := mLen + 1
      si := si - back
      let base := si + 4
      si := si + mLen
      let mut go := true
      while go ∧ si + 8 ≤ sn do
        let x := load64 src si ^^^ load64 src (si - off)
        if x == 0 then si := si + 8
        else
          si := si + tzBytes x
          go := false
      let ml := si - base
      let cur := dd
      dd := #[]
      match emitSeq src cur ddi anchor lLen off ml with
      | none => return .err
      | some (d', i') =>
        dd := d'
        ddi := i'
      anchor := si
      if si ≥ sn then break
      let hh := blockHash (load64 src (si - 2))
      t := put t hh (si - 2)
  return lastLiterals src dd ddi anchor notComp

end Fast
