/-! Spike: label-by-label model of decode_amd64.s over flat addresses. -/
namespace Asm

def W : Nat := 18446744073709551616  -- 2^64

structure Mem where
  dst : Array UInt8      -- size = cap
  dstLen : Nat
  src : Array UInt8
  dict : Array UInt8
  dstBase : Nat
  srcBase : Nat
  dictBase : Nat

inductive Out where
  | ret (n : Int) (m : Mem)
  | fault (why : String)

abbrev X := Except String

def ld8 (m : Mem) (a : Nat) : X Nat :=
  if m.srcBase ≤ a ∧ a < m.srcBase + m.src.size then pure (m.src[a - m.srcBase]!).toNat
  else if m.dstBase ≤ a ∧ a < m.dstBase + m.dstLen then pure (m.dst[a - m.dstBase]!).toNat
  else if m.dictBase ≤ a ∧ a < m.dictBase + m.dict.size then pure (m.dict[a - m.dictBase]!).toNat
  else throw s!"load fault at {a}"

def st8 (m : Mem) (a : Nat) (v : Nat) : X Mem :=
  if m.dstBase ≤ a ∧ a < m.dstBase + m.dstLen then
    pure { m with dst := m.dst.set! (a - m.dstBase) v.toUInt8 }
  else throw s!"store fault at {a}"

/-- load n bytes (register/xmm load: all read before any is written) -/
def ldN (m : Mem) (a n : Nat) : X (List Nat) := (List.range n).mapM (fun i => ld8 m (a + i))
def stN (m : Mem) (a : Nat) (vs : List Nat) : X Mem := do
  let mut m := m
  let mut i := 0
  for v in vs do
    m ← st8 m (a + i) v
    i := i + 1
  pure m
/-- register-width copy -/
def cpy (m : Mem) (to fr n : Nat) : X Mem := do let vs ← ldN m fr n; stN m to vs
/-- runtime·memmove -/
def memmove := cpy

def sub64 (a b : Nat) : Nat × Bool := if a ≥ b then (a - b, false) else (a + W - b, true)
def add64 (a b : Nat) : Nat × Bool := if a + b < W then (a + b, false) else (a + b - W, true)

structure R where
  di : Nat
  si : Nat
  r8 : Nat
  r9 : Nat
  r11 : Nat
  r12 : Nat
  r13 : Nat
  r14 : Nat
  r15 : Nat

def errCorrupt : Int := -1
def errShortBuf : Int := -2
def errShortDict : Int := -3

inductive Res where
  | done (ret : Int) (m : Mem)

/-- copy_match_loop: byte loop, CX ≥ 1 on entry (DECQ/JNZ: runs CX times, wraps if 0) -/
def copyMatchLoop (m : Mem) (di bx : Nat) : Nat → X (Mem × Nat)
  | 0 => pure (m, di)
  | cx+1 => do
    let v ← ld8 m bx
    let m ← st8 m di v
    copyMatchLoop m (di+1) (bx+1) cx

mutual
/-- label `loop`; fuel = upper bound on iterations -/
partial def loop (m : Mem) (r : R) : X Res := do
  let tok ← ld8 m r.si
  let si := r.si + 1
  let cx := tok / 16
  if cx == 15 then litLenLoop m {r with si := si} tok cx
  else if r.di ≥ r.r12 then copyLiteral m {r with si := si} tok cx
  else if si ≥ r.r13 then copyLiteral m {r with si := si} tok cx
  else do
    -- shortcut stage 1
    let m ← cpy m r.di si 16
    let di := r.di + cx
    let si := si + cx
    let cx := tok % 16
    let lo ← ld8 m si
    let hi ← ld8 m (si+1)
    let dx := lo + 256 * hi
    if dx == 0 then return .done errCorrupt m
    let (si, c) := add64 si 2
    if c then return .done errShortBuf m
    let (ax, c) := sub64 di dx
    if c then return .done errCorrupt m
    if ax > di then return .done errShortBuf m
    let r := {r with di := di, si := si}
    if cx == 15 then matchLenLoopPre m r cx dx
    else if dx < 8 then matchLenLoopPre m r cx dx
    else if ax < r.r11 then matchLenLoopPre m r cx dx
    else do
      let m ← cpy m di ax 8
      let m ← cpy m (di+8) (ax+8) 8
      let m ← cpy m (di+16) (ax+16) 2
      loopcheck m {r with di := di + 4 + cx} cx

partial def litLenLoop (m : Mem) (r : R) (tok cx : Nat) : X Res := do
  if r.si ≥ r.r9 then return .done errShortBuf m
  let bx ← ld8 m r.si
  let r := {r with si := r.si + 1}
  let cx := cx + bx
  if bx == 255 then litLenLoop m r tok cx else copyLiteral m r tok cx

partial def copyLiteral (m : Mem) (r : R) (tok cx : Nat) : X Res := do
  let (ax, c) := add64 r.si cx
  if c then return .done errShortBuf m
  if ax > r.r9 then return .done errShortBuf m
  let (bx, c) := add64 r.di cx
  if c then return .done errShortBuf m
  if bx > r.r8 then return .done errShortBuf m
  let wide := cx ≤ 48 ∧ (r.r8 - r.di) ≥ 48 ∧ (r.r9 - r.si) ≥ 48
  let m ← if wide then do
      let vs ← ldN m r.si 48
      stN m r.di vs
    else memmove m r.di r.si cx
  finishLitCopy m {r with si := r.si + cx, di := r.di + cx} tok

partial def finishLitCopy (m : Mem) (r : R) (tok : Nat) : X Res := do
  let cx := tok % 16
  if r.si ≥ r.r9 then return (← endL m r cx)
  let (si, c) := add64 r.si 2
  if c then return .done errShortBuf m
  if si > r.r9 then return .done errShortBuf m
  let lo ← ld8 m (si-2)
  let hi ← ld8 m (si-1)
  let dx := lo + 256*hi
  if dx == 0 then return .done errCorrupt m
  matchLenLoopPre m {r with si := si} cx dx

partial def matchLenLoopPre (m : Mem) (r : R) (cx dx : Nat) : X Res :=
  if cx % 256 != 15 then copyMatch m r cx dx else matchLenLoop m r cx dx

partial def matchLenLoop (m : Mem) (r : R) (cx dx : Nat) : X Res := do
  if r.si ≥ r.r9 then return .done errShortBuf m
  let bx ← ld8 m r.si
  let r := {r with si := r.si + 1}
  let cx := cx + bx
  if bx == 255 then matchLenLoop m r cx dx else copyMatch m r cx dx

partial def copyMatch (m : Mem) (r : R) (cx dx : Nat) : X Res := do
  let cx := cx + 4
  let (ax, c) := add64 r.di cx
  if c then return .done errShortBuf m
  if ax > r.r8 then return .done errShortBuf m
  let (bx, c) := sub64 r.di dx
  if c then copyMatchFromDict m r cx bx
  else if bx ≤ r.r11 then copyMatchFromDict m r cx bx
  else if r.di > bx + cx then
    -- copy_interior_match
    if cx > 16 ∨ r.r8 - r.di < 16 then memmoveMatch m r cx bx
    else do
      let m ← cpy m r.di bx 16
      loopcheck m {r with di := r.di + cx} 0
  else do
    let (m, di) ← copyMatchLoop m r.di bx cx
    loopcheck m {r with di := di} 0

partial def copyMatchFromDict (m : Mem) (r : R) (cx bx : Nat) : X Res := do
  let (ax, _) := sub64 r.r11 bx
  -- BX = len(dict) - AX ; JS
  let (bx2, _) := sub64 r.r15 ax
  if bx2 ≥ W / 2 then return .done errShortDict m
  let (bx3, _) := add64 bx2 r.r14
  -- CMPQ CX, AX; JLT (signed)
  let slt := (if cx ≥ W/2 then (cx : Int) - W else cx) < (if ax ≥ W/2 then (ax : Int) - W else ax)
  if slt then memmoveMatch m r cx bx3
  else do
    let m ← memmove m r.di bx3 ax
    let di := r.di + ax
    let cx := cx - ax
    let bx := r.r11
    let ax2 := cx + bx
    if ax2 > di then
      if cx == 0 then throw "copy_match_loop entered with CX=0 (2^64 iterations)"
      let (m, di) ← copyMatchLoop m di bx cx
      loopcheck m {r with di := di} 0
    else memmoveMatch m {r with di := di} cx bx

partial def memmoveMatch (m : Mem) (r : R) (cx bx : Nat) : X Res := do
  let m ← memmove m r.di bx cx
  loopcheck m {r with di := r.di + cx} 0

partial def loopcheck (m : Mem) (r : R) (cx : Nat) : X Res :=
  if r.si < r.r9 then loop m r else endL m r cx

partial def endL (m : Mem) (r : R) (cx : Nat) : X Res :=
  if cx != 0 then pure (.done errCorrupt m)
  else pure (.done (Int.ofNat (r.di - r.r11)) m)
end

def decodeBlock (m : Mem) : X Res := do
  if m.src.size == 0 then return .done errCorrupt m
  let r8 := m.dstBase + m.dstLen
  let r9 := m.srcBase + m.src.size
  let r : R := { di := m.dstBase, si := m.srcBase, r8 := r8, r9 := r9, r11 := m.dstBase,
                 r12 := (sub64 r8 32).1, r13 := (sub64 r9 16).1, r14 := m.dictBase, r15 := m.dict.size }
  loop m r

end Asm
