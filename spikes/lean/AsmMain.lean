import Spike.Asm
open Asm
def hexVal (c : Char) : UInt8 :=
  if c.isDigit then (c.toNat - 48).toUInt8 else (c.toNat - 87).toUInt8
def parseHex (s : String) : Array UInt8 := Id.run do
  let cs := s.toList.toArray
  let mut out : Array UInt8 := Array.mkEmpty (cs.size / 2)
  let mut i := 0
  while i + 1 < cs.size do
    out := out.push (hexVal cs[i]! * 16 + hexVal cs[i+1]!)
    i := i + 2
  out
def hexDigit (n : Nat) : Char := if n < 10 then Char.ofNat (48 + n) else Char.ofNat (87 + n)
def toHex (a : Array UInt8) : String := Id.run do
  let mut s := ""
  for b in a do
    s := s.push (hexDigit (b.toNat / 16))
    s := s.push (hexDigit (b.toNat % 16))
  s
partial def loopIO (h : IO.FS.Stream) : IO Unit := do
  let line ← h.getLine
  if line.isEmpty then return ()
  match line.trimAscii.toString.splitOn " " with
  | [dl, nilFlag, dstHex, dictHex, srcHex] =>
    let dst := parseHex dstHex
    let m : Mem := { dst := dst, dstLen := dl.toNat!, src := parseHex srcHex, dict := parseHex dictHex,
                     dstBase := if nilFlag == "1" then 0 else 0xc000100000, srcBase := 0xc000200000, dictBase := 0xc000300000 }
    match decodeBlock m with
    | .ok (.done ret m') => IO.println s!"{if ret < 0 then -1 else ret} {toHex m'.dst}"
    | .error e => IO.println s!"FAULT {e}"
  | _ => IO.println "bad-op"
  loopIO h
def main : IO Unit := do loopIO (← IO.getStdin)
