package spike

import (
	"bytes"
	"errors"
	"fmt"
	"io"
	"io/ioutil"
	"math/rand"
	"testing"

	"github.com/pierrec/lz4/v4"
)

type fragR struct {
	r   io.Reader
	rnd *rand.Rand
}

func (f *fragR) Read(p []byte) (int, error) {
	if len(p) == 0 {
		return 0, nil
	}
	n := 1 + f.rnd.Intn(len(p))
	if f.rnd.Intn(4) == 0 {
		n = 1
	}
	return f.r.Read(p[:n])
}

func TestC18(t *testing.T) {
	rnd := rand.New(rand.NewSource(1))
	bad := 0
	zero := 0
	for it := 0; it < 3000; it++ {
		var sz int
		switch rnd.Intn(5) {
		case 0:
			sz = 0
		case 1:
			sz = 65536 * rnd.Intn(4)
		case 2:
			sz = 65536*rnd.Intn(3) + rnd.Intn(3) - 1
			if sz < 0 {
				sz = 0
			}
		default:
			sz = rnd.Intn(200000)
		}
		in := make([]byte, sz)
		if rnd.Intn(2) == 0 {
			rnd.Read(in)
		} else {
			for i := range in {
				in[i] = byte(i / 7)
			}
		}
		zr := lz4.NewCompressingReader(ioutil.NopCloser(&fragR{bytes.NewReader(in), rnd}))
		zr.Apply(lz4.BlockSizeOption(lz4.Block64Kb), lz4.BlockChecksumOption(rnd.Intn(2) == 0), lz4.ChecksumOption(rnd.Intn(2) == 0))
		var out []byte
		var err error
		for calls := 0; calls < 10000000; calls++ {
			var bs int
			switch rnd.Intn(6) {
			case 0:
				bs = 0
			case 1:
				bs = 1 + rnd.Intn(7)
			case 2:
				bs = 1 + rnd.Intn(100)
			case 3:
				bs = 1 + rnd.Intn(70000)
			default:
				bs = 1 + rnd.Intn(300000)
			}
			p := make([]byte, bs)
			var n int
			n, err = zr.Read(p)
			if n > bs || n < 0 {
				fmt.Println("C18: n out of range")
			}
			if n == 0 && err == nil && bs > 0 {
				zero++
			}
			out = append(out, p[:n]...)
			if err != nil {
				break
			}
		}
		dec, derr := io.ReadAll(lz4.NewReader(bytes.NewReader(out)))
		if err != io.EOF || derr != nil || !bytes.Equal(dec, in) {
			bad++
			if bad < 4 {
				fmt.Println("C18 bad: size", sz, "err", err, "derr", derr, "len out", len(out), len(dec))
			}
		}
	}
	fmt.Println("C18: bad", bad, "of 3000; zero-progress reads:", zero)
}

func TestC14(t *testing.T) {
	rnd := rand.New(rand.NewSource(2))
	diff := 0
	for it := 0; it < 60; it++ {
		in := make([]byte, rnd.Intn(600000))
		for i := range in {
			in[i] = byte(rnd.Intn(4) + i/1000)
		}
		lvl := []lz4.CompressionLevel{lz4.Fast, lz4.Level1, lz4.Level5}[rnd.Intn(3)]
		mk := func(conc int, chunk bool) []byte {
			var b bytes.Buffer
			zw := lz4.NewWriter(&b)
			zw.Apply(lz4.ConcurrencyOption(conc), lz4.BlockSizeOption(lz4.Block64Kb), lz4.CompressionLevelOption(lvl), lz4.BlockChecksumOption(true))
			if chunk {
				p := in
				for len(p) > 0 {
					n := 1 + rnd.Intn(100000)
					if n > len(p) {
						n = len(p)
					}
					zw.Write(p[:n])
					p = p[n:]
				}
			} else {
				zw.Write(in)
			}
			zw.Close()
			return b.Bytes()
		}
		a := mk(1, false)
		if !bytes.Equal(a, mk(4, false)) || !bytes.Equal(a, mk(1, true)) || !bytes.Equal(a, mk(3, true)) {
			diff++
		}
	}
	fmt.Println("C14: frames differing across concurrency/chunking:", diff, "of 60")
}

type failW struct {
	k   int
	buf bytes.Buffer
}

var errSink = errors.New("sink failed")

func (f *failW) Write(p []byte) (int, error) {
	if f.k == 0 {
		return 0, errSink
	}
	f.k--
	return f.buf.Write(p)
}

func TestC15(t *testing.T) {
	in := make([]byte, 300000)
	for i := range in {
		in[i] = byte(i / 3)
	}
	for _, conc := range []int{1, 4} {
		var ref bytes.Buffer
		zw := lz4.NewWriter(&ref)
		zw.Apply(lz4.ConcurrencyOption(conc), lz4.BlockSizeOption(lz4.Block64Kb))
		zw.Write(in)
		zw.Close()
		missed := 0
		for k := 0; k < 40; k++ {
			fw := &failW{k: k}
			zw := lz4.NewWriter(fw)
			zw.Apply(lz4.ConcurrencyOption(conc), lz4.BlockSizeOption(lz4.Block64Kb))
			_, e1 := zw.Write(in)
			e2 := zw.Close()
			surfaced := errors.Is(e1, errSink) || errors.Is(e2, errSink)
			failed := fw.k == 0
			if failed && !surfaced {
				missed++
				fmt.Println("C15: conc", conc, "k", k, "sink failure not surfaced:", e1, e2)
			}
			if !bytes.HasPrefix(ref.Bytes(), fw.buf.Bytes()) {
				fmt.Println("C15: conc", conc, "k", k, "sink not a prefix")
			}
		}
		fmt.Println("C15: conc", conc, "missed", missed)
	}
}
