package spike

import (
	"bytes"
	"fmt"
	"io"
	"testing"

	"github.com/pierrec/lz4/v4"
)

type logR struct {
	r io.Reader
	k int
	i int
}

func (f *logR) Read(p []byte) (int, error) {
	f.i++
	if f.i-1 == f.k {
		fmt.Printf("   src.Read#%d len(p)=%d -> injected\n", f.i-1, len(p))
		return 0, errInjected
	}
	n, err := f.r.Read(p)
	fmt.Printf("   src.Read#%d len(p)=%d -> %d %v\n", f.i-1, len(p), n, err)
	return n, err
}

func TestD18b(t *testing.T) {
	var b bytes.Buffer
	zw := lz4.NewWriter(&b)
	zw.Apply(lz4.LegacyOption(true))
	zw.Write([]byte("hello hello hello hello hello hello"))
	zw.Close()
	fmt.Printf("legacy frame %x\n", b.Bytes())
	for k := 1; k < 3; k++ {
		zr := lz4.NewReader(&logR{bytes.NewReader(b.Bytes()), k, 0})
		fmt.Println(zr.Apply(lz4.ConcurrencyOption(4)))
		buf := make([]byte, 100)
		n, err := zr.Read(buf)
		fmt.Printf("D18b: legacy conc=4 fail at read #%d -> %d %q err=%v\n", k, n, buf[:n], err)
	}
}
