module spike
go 1.14
require github.com/pierrec/lz4/v4 v4.0.0
replace github.com/pierrec/lz4/v4 => /repo
