package spike

import (
	"bytes"
	"encoding/binary"
	"errors"
	"fmt"
	"io"
	"math/bits"
	"math/rand"
	"testing"

	"github.com/pierrec/lz4/v4"
)

const (
	p1 uint32 = 2654435761
	p2 uint32 = 2246822519
	p3 uint32 = 3266489917
	p4 uint32 = 668265263
	p5 uint32 = 374761393
)

func inv32(a uint32) uint32 { // modular inverse of odd a mod 2^32
	x := a
	for i := 0; i < 5; i++ {
		x *= 2 - a*x
	}
	return x
}
func unxorshift(h uint32, s uint) uint32 {
	r := h
	for i := uint(0); i < 32; i += s {
		r = h ^ (r >> s)
	}
	return r
}

// 4-byte input with XXH32(seed 0)==target
func xxh4inv(target uint32) []byte {
	h := target
	h = unxorshift(h, 16)
	h *= inv32(p3)
	h = unxorshift(h, 13)
	h *= inv32(p2)
	h = unxorshift(h, 15)
	// h = rol17(h0 + w*p3) * p4, h0 = 4 + p5
	h *= inv32(p4)
	h = bits.RotateLeft32(h, -17)
	h -= 4 + p5
	w := h * inv32(p3)
	b := make([]byte, 4)
	binary.LittleEndian.PutUint32(b, w)
	return b
}

func TestD7(t *testing.T) {
	in := xxh4inv(0)
	var b bytes.Buffer
	zw := lz4.NewWriter(&b)
	zw.Apply(lz4.BlockChecksumOption(true), lz4.ChecksumOption(false))
	zw.Write(in)
	zw.Close()
	fmt.Printf("D7: input %x frame %x (len %d; expect 7+4+4+4+4=23 with block checksum)\n", in, b.Bytes(), b.Len())
	out, err := io.ReadAll(lz4.NewReader(bytes.NewReader(b.Bytes())))
	fmt.Printf("D7: readback %x err=%v\n", out, err)
}

func TestD12(t *testing.T) {
	src := append(bytes.Repeat([]byte("a"), 24), make([]byte, 200)...)
	rand.Read(src[24:])
	buf := bytes.Repeat([]byte{0xEE}, 400)
	var c lz4.CompressorHC
	n, err := c.CompressBlock(src, buf[:60])
	dirty := 0
	for _, x := range buf[60:] {
		if x != 0xEE {
			dirty++
		}
	}
	fmt.Println("D12 HC: n,err=", n, err, "len(dst)=60 bytes modified beyond len:", dirty)
	buf = bytes.Repeat([]byte{0xEE}, 400)
	var cf lz4.Compressor
	n, err = cf.CompressBlock(src, buf[:60])
	dirty = 0
	for _, x := range buf[60:] {
		if x != 0xEE {
			dirty++
		}
	}
	fmt.Println("D12 fast: n,err=", n, err, "dirty", dirty)
}

func mkframe(in []byte, opts ...lz4.Option) []byte {
	var b bytes.Buffer
	zw := lz4.NewWriter(&b)
	if err := zw.Apply(opts...); err != nil {
		panic(err)
	}
	zw.Write(in)
	zw.Close()
	return b.Bytes()
}

func TestC06(t *testing.T) {
	in := make([]byte, 200000)
	for i := range in {
		in[i] = byte(i / 300)
	}
	fr := mkframe(in, lz4.BlockSizeOption(lz4.Block64Kb), lz4.BlockChecksumOption(true), lz4.SizeOption(200000))
	clean := []int{}
	for cut := 1; cut < len(fr); cut++ {
		out, err := io.ReadAll(lz4.NewReader(bytes.NewReader(fr[:cut])))
		if err == nil {
			clean = append(clean, cut)
		}
		if !bytes.HasPrefix(in, out) {
			fmt.Println("C06: non-prefix at cut", cut)
		}
	}
	fmt.Println("C06: frame len", len(fr), "cuts reported as clean EOF:", clean)
}

func TestD16(t *testing.T) {
	for _, m := range []uint32{0x184D2A50, 0x184D2A5F, 0x184D2A4F, 0x184D2A60, 0x184D2A00, 0x184D2AFF, 0x184D2B50} {
		var hdr [8]byte
		binary.LittleEndian.PutUint32(hdr[:], m)
		binary.LittleEndian.PutUint32(hdr[4:], 3)
		data := append(hdr[:], 1, 2, 3)
		data = append(data, mkframe([]byte("hello"))...)
		out, err := io.ReadAll(lz4.NewReader(bytes.NewReader(data)))
		fmt.Printf("D16: magic %08x -> %q err=%v\n", m, out, err)
	}
}

func TestD15(t *testing.T) {
	big := make([]byte, 300000) // zeros: one 4MB-frame block compressing to ~1.2KB
	fr4 := mkframe(big, lz4.BlockSizeOption(lz4.Block4Mb), lz4.ChecksumOption(false))
	fr64 := mkframe([]byte("x"), lz4.BlockSizeOption(lz4.Block64Kb), lz4.ChecksumOption(false))
	spl := append(append([]byte{}, fr64[:7]...), fr4[7:]...)
	for _, bs := range []int{1 << 20, 4096} {
		zr := lz4.NewReader(bytes.NewReader(spl))
		buf := make([]byte, bs)
		tot := 0
		var err error
		for {
			var n int
			n, err = zr.Read(buf)
			tot += n
			if err != nil {
				break
			}
		}
		fmt.Printf("D15: header says 64KB blocks, block decodes to 300000; read buf %d -> total %d err=%v\n", bs, tot, err)
	}
}

type failAt struct {
	r io.Reader
	k int
}

var errInjected = errors.New("injected")

func (f *failAt) Read(p []byte) (int, error) {
	if f.k == 0 {
		return 0, errInjected
	}
	f.k--
	return f.r.Read(p)
}

func TestD18(t *testing.T) {
	var b bytes.Buffer
	zw := lz4.NewWriter(&b)
	zw.Apply(lz4.LegacyOption(true))
	zw.Write([]byte("hello hello hello hello hello hello"))
	zw.Close()
	for _, conc := range []int{1, 4} {
		for k := 0; k < 4; k++ {
			zr := lz4.NewReader(&failAt{bytes.NewReader(b.Bytes()), k})
			zr.Apply(lz4.ConcurrencyOption(conc))
			out, err := io.ReadAll(zr)
			fmt.Printf("D18: legacy conc=%d fail at read #%d -> %q err=%v\n", conc, k, out, err)
		}
	}
}
