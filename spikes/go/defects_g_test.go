package spike

import (
	"bytes"
	"fmt"
	"io"
	"os"
	"testing"

	"github.com/pierrec/lz4/v4"
)

func TestC16(t *testing.T) {
	a, _ := os.ReadFile("/repo/testdata/Mark.Twain-Tom.Sawyer_long.txt.lz4")
	b, _ := os.ReadFile("/repo/testdata/Mark.Twain-Tom.Sawyer_linked.txt.lz4")
	da, ea := io.ReadAll(lz4.NewReader(bytes.NewReader(a)))
	for _, bs := range []int{0, 1000, 70000, 5 << 20} {
		zr := lz4.NewReader(bytes.NewReader(b))
		zr.Apply(lz4.ConcurrencyOption(4))
		var db []byte
		var eb error
		if bs == 0 {
			var w bytes.Buffer
			_, eb = zr.WriteTo(&w)
			db = w.Bytes()
		} else {
			buf := make([]byte, bs)
			for {
				n, err := zr.Read(buf)
				db = append(db, buf[:n]...)
				if err != nil {
					if err != io.EOF {
						eb = err
					}
					break
				}
			}
		}
		fmt.Println("C16: bufsize", bs, "long", len(da), ea, "linked", len(db), eb, "equal", bytes.Equal(da, db))
	}
}
