package main

import (
	"bufio"
	"encoding/hex"
	"fmt"
	"math/rand"
	"os"
	"strconv"

	"github.com/pierrec/lz4/v4"
)

func fnv(a []byte) uint64 {
	h := uint64(14695981039346656037)
	for _, b := range a {
		h = (h ^ uint64(b)) * 1099511628211
	}
	return h
}

func main() {
	seed, _ := strconv.Atoi(os.Args[1])
	n, _ := strconv.Atoi(os.Args[2])
	maxSize, _ := strconv.Atoi(os.Args[4])
	rnd := rand.New(rand.NewSource(int64(seed)))
	cases := bufio.NewWriterSize(os.Stdout, 1<<20)
	res, _ := os.Create(os.Args[3])
	rw := bufio.NewWriter(res)
	var c lz4.Compressor
	for i := 0; i < n; i++ {
		var sz int
		switch rnd.Intn(5) {
		case 0:
			sz = rnd.Intn(40)
		case 1:
			sz = rnd.Intn(2000)
		case 2:
			sz = 65536 + rnd.Intn(9) - 4 + 65536*rnd.Intn(2)
		default:
			sz = rnd.Intn(maxSize)
		}
		src := make([]byte, sz)
		switch rnd.Intn(5) {
		case 0:
			rnd.Read(src)
		case 1:
			per := 1 + rnd.Intn(30)
			for i := range src {
				src[i] = byte(i % per)
			}
		case 2:
			for i := range src {
				src[i] = byte(rnd.Intn(3))
			}
		case 3:
			// planted repeat at window edge
			rnd.Read(src)
			if sz > 70000 {
				d := 65534 + rnd.Intn(4)
				p := rnd.Intn(sz - d - 40)
				copy(src[p+d:p+d+32], src[p:p+32])
			}
		default:
			w := 1 + rnd.Intn(9)
			for i := range src {
				src[i] = byte(i / w)
			}
		}
		bound := lz4.CompressBlockBound(sz)
		dl := bound
		switch rnd.Intn(4) {
		case 0:
			dl = rnd.Intn(bound + 4)
		case 1:
			dl = sz
		}
		dst := make([]byte, dl)
		nn, err := c.CompressBlock(src, dst)
		hs := hex.EncodeToString(src); if hs == "" { hs = "-" }; fmt.Fprintf(cases, "%d %s\n", dl, hs)
		if err != nil {
			fmt.Fprintf(rw, "0 err 0\n")
		} else if nn == 0 {
			fmt.Fprintf(rw, "0 ok 0\n")
		} else {
			fmt.Fprintf(rw, "%d ok %d\n", nn, fnv(dst[:nn]))
		}
	}
	cases.Flush()
	rw.Flush()
}
