package spike

import (
	"bytes"
	"fmt"
	"io"
	"math/rand"
	"testing"
	"time"

	"github.com/pierrec/lz4/v4"
)

// D1: portable decoder returns n > len(dst)
func TestD1(t *testing.T) {
	src := []byte{0x50, 'a', 'b', 'c', 'd', 'e', 4, 0}
	src = append(src, 0xE0)
	src = append(src, []byte("0123456789ABCD")...)
	src = append(src, 18, 0)
	src = append(src, 0x00)
	dst := make([]byte, 64)
	n, err := lz4.UncompressBlock(src, dst[:23])
	fmt.Println("D1: n,err,len(dst)=", n, err, 23)
}

// D2: nil dst with >16 src
func TestD2(t *testing.T) {
	defer func() { fmt.Println("D2 recovered:", recover()) }()
	src := make([]byte, 40)
	src[0] = 0x10
	n, err := lz4.UncompressBlock(src, nil)
	fmt.Println("D2: n,err=", n, err)
}

// D3: write after close sequential: hang?
type limitW struct{ n int }

func (l *limitW) Write(p []byte) (int, error) {
	l.n += len(p)
	if l.n > 1<<20 {
		return 0, fmt.Errorf("sink over 1MiB: runaway")
	}
	return len(p), nil
}
func TestD3(t *testing.T) {
	w := &limitW{}
	zw := lz4.NewWriter(w)
	zw.Write([]byte("hello"))
	zw.Close()
	before := w.n
	done := make(chan struct{})
	go func() {
		n, err := zw.Write([]byte("x"))
		fmt.Println("D3: write after close n,err=", n, err, "sink grew", w.n-before)
		close(done)
	}()
	select {
	case <-done:
	case <-time.After(3 * time.Second):
		fmt.Println("D3: HANG")
	}
}

// D4: double close
func TestD4(t *testing.T) {
	for _, c := range []int{1, 4} {
		var b bytes.Buffer
		zw := lz4.NewWriter(&b)
		zw.Apply(lz4.ConcurrencyOption(c))
		zw.Write([]byte("hello"))
		zw.Close()
		before := b.Len()
		done := make(chan struct{})
		go func() {
			err := zw.Close()
			fmt.Println("D4: conc", c, "second close err=", err, "extra bytes", b.Len()-before)
			close(done)
		}()
		select {
		case <-done:
		case <-time.After(3 * time.Second):
			fmt.Println("D4: conc", c, "HANG on second Close")
		}
	}
}

// D5: ReadFrom exact multiple + big Read buffer
func TestD5(t *testing.T) {
	for _, sz := range []int{0, 65536, 100} {
		in := make([]byte, sz)
		rand.Read(in)
		var b bytes.Buffer
		zw := lz4.NewWriter(&b)
		zw.Apply(lz4.BlockSizeOption(lz4.Block64Kb))
		zw.ReadFrom(bytes.NewReader(in))
		zw.Close()
		zr := lz4.NewReader(bytes.NewReader(b.Bytes()))
		buf := make([]byte, 1<<17)
		var out []byte
		for {
			n, err := zr.Read(buf)
			out = append(out, buf[:n]...)
			if err != nil {
				fmt.Println("D5: size", sz, "err", err, "out len", len(out), "equal", bytes.Equal(out, in))
				break
			}
		}
	}
}

// D6: read after EOF consumes more
func TestD6(t *testing.T) {
	var b bytes.Buffer
	zw := lz4.NewWriter(&b)
	zw.Write([]byte("hello"))
	zw.Close()
	frame := append([]byte{}, b.Bytes()...)
	two := append(append([]byte{}, frame...), frame...)
	src := bytes.NewReader(two)
	zr := lz4.NewReader(src)
	out, err := io.ReadAll(zr)
	fmt.Printf("D6: first ReadAll %q err=%v remaining src=%d\n", out, err, src.Len())
	buf := make([]byte, 10)
	n, err := zr.Read(buf)
	fmt.Printf("D6: read after EOF n=%d err=%v remaining src=%d\n", n, err, src.Len())
	n, err = zr.Read(buf)
	fmt.Printf("D6: read after EOF n=%d err=%v remaining src=%d\n", n, err, src.Len())
}
