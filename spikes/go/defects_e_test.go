package spike

import (
	"bytes"
	"fmt"
	"testing"
	"time"

	"github.com/pierrec/lz4/v4"
)

func TestD21(t *testing.T) {
	var b bytes.Buffer
	zw := lz4.NewWriter(&b)
	zw.Apply(lz4.ConcurrencyOption(4))
	zw.Write([]byte("hello"))
	zw.Close()
	done := make(chan struct{})
	go func() {
		var b2 bytes.Buffer
		zw.Reset(&b2)
		zw.Write([]byte("again"))
		err := zw.Close()
		fmt.Printf("D21: reuse after Close+Reset ok err=%v frame=%x\n", err, b2.Bytes())
		close(done)
	}()
	select {
	case <-done:
	case <-time.After(3 * time.Second):
		fmt.Println("D21: HANG on Reset after Close (concurrency 4)")
	}
}
