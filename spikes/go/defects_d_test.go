package spike

import (
	"bytes"
	"encoding/binary"
	"fmt"
	"io"
	"math/rand"
	"os"
	"os/exec"
	"runtime/debug"
	"testing"

	"github.com/pierrec/lz4/v4"
)

func TestD10(t *testing.T) {
	bad := 0
	for it := 0; it < 50; it++ {
		in := make([]byte, 300000)
		rand.Read(in)
		var b bytes.Buffer
		zw := lz4.NewWriter(&b)
		zw.Apply(lz4.ConcurrencyOption(4), lz4.BlockSizeOption(lz4.Block64Kb))
		zw.Write(in[:1000])
		zw.Flush()
		zw.Write(in[1000:])
		zw.Close()
		out, err := io.ReadAll(lz4.NewReader(bytes.NewReader(b.Bytes())))
		if err != nil || !bytes.Equal(out, in) {
			bad++
		}
	}
	fmt.Println("D10: concurrent Write/Flush/Write round trips failing:", bad, "of 50")
}

func TestD8child(t *testing.T) {
	if os.Getenv("D8CHILD") == "" {
		t.Skip()
	}
	debug.SetMaxStack(8 << 20)
	n := 200000
	data := make([]byte, 4*(n+1))
	for i := 0; i <= n; i++ {
		binary.LittleEndian.PutUint32(data[4*i:], 0x184C2102)
	}
	_, err := io.ReadAll(lz4.NewReader(bytes.NewReader(data)))
	fmt.Println("D8 child survived err=", err)
}

func TestD8(t *testing.T) {
	cmd := exec.Command(os.Args[0], "-test.run", "TestD8child", "-test.v")
	cmd.Env = append(os.Environ(), "D8CHILD=1")
	out, err := cmd.CombinedOutput()
	s := string(out)
	if len(s) > 300 {
		s = s[:300]
	}
	fmt.Printf("D8: child exit err=%v output head: %s\n", err, s)
}

func TestD19(t *testing.T) {
	modern := mkframe([]byte("modern modern modern"), lz4.BlockChecksumOption(true))
	var b bytes.Buffer
	zw := lz4.NewWriter(&b)
	zw.Apply(lz4.LegacyOption(true))
	zw.Write([]byte("legacy legacy legacy legacy"))
	zw.Close()
	legacy := b.Bytes()
	zr := lz4.NewReader(bytes.NewReader(modern))
	out, err := io.ReadAll(zr)
	fmt.Printf("D19: modern %q %v\n", out, err)
	zr.Reset(bytes.NewReader(legacy))
	out, err = io.ReadAll(zr)
	fmt.Printf("D19: legacy after reset: %q %v\n", out, err)
	zr2 := lz4.NewReader(bytes.NewReader(legacy))
	out, err = io.ReadAll(zr2)
	fmt.Printf("D19: legacy fresh: %q %v\n", out, err)
	// Writer: legacy then reset to... legacy option persists; but modern->legacy flags?
	var b2 bytes.Buffer
	zw2 := lz4.NewWriter(&b2)
	zw2.Apply(lz4.BlockChecksumOption(true), lz4.LegacyOption(true))
	zw2.Write([]byte("legacy legacy legacy legacy"))
	zw2.Close()
	fmt.Printf("D19w: legacy+blockchecksum frame %x\n", b2.Bytes())
	out, err = io.ReadAll(lz4.NewReader(bytes.NewReader(b2.Bytes())))
	fmt.Printf("D19w: readback %q %v\n", out, err)
}
