package main

import (
	"bufio"
	"encoding/hex"
	"fmt"
	"math/rand"
	"os"
	"strconv"

	"github.com/pierrec/lz4/v4"
)

var lenClasses = []int{0, 0, 1, 2, 3, 4, 7, 8, 13, 14, 15, 16, 17, 18, 19, 30, 47, 48, 49, 100, 269, 270, 271, 600}
var offClasses = []int{0, 1, 2, 3, 4, 7, 8, 9, 15, 16, 17, 18, 19, 31, 32, 33, 100}

func appendLen(p []byte, n int) []byte {
	for n >= 255 {
		p = append(p, 255)
		n -= 255
	}
	return append(p, byte(n))
}

func gen(rnd *rand.Rand) (src []byte, decoded int, dictLen int) {
	nseq := 1 + rnd.Intn(5)
	dictLen = []int{0, 0, 0, 1, 5, 40, 300}[rnd.Intn(7)]
	di := 0
	for s := 0; s < nseq; s++ {
		ll := lenClasses[rnd.Intn(len(lenClasses))]
		ml := lenClasses[rnd.Intn(len(lenClasses))] // minus 4
		last := s == nseq-1 && rnd.Intn(4) != 0
		tok := byte(0)
		if ll >= 15 {
			tok = 0xF0
		} else {
			tok = byte(ll << 4)
		}
		if !last {
			if ml >= 15 {
				tok |= 0xF
			} else {
				tok |= byte(ml)
			}
		}
		src = append(src, tok)
		if ll >= 15 {
			src = appendLen(src, ll-15)
		}
		for i := 0; i < ll; i++ {
			src = append(src, byte(rnd.Intn(256)))
		}
		di += ll
		if last {
			break
		}
		var off int
		switch rnd.Intn(6) {
		case 0:
			off = offClasses[rnd.Intn(len(offClasses))]
		case 1:
			off = di
		case 2:
			off = di + 1 + rnd.Intn(dictLen+2)
		case 3:
			off = di + dictLen
		case 4:
			if di > 0 {
				off = 1 + rnd.Intn(di)
			}
		default:
			off = 1 + rnd.Intn(di+dictLen+1)
		}
		if off > 65535 {
			off = 65535
		}
		src = append(src, byte(off), byte(off>>8))
		if ml >= 15 {
			src = appendLen(src, ml-15)
		}
		di += ml + 4
	}
	// mutate sometimes
	switch rnd.Intn(10) {
	case 0:
		if len(src) > 1 {
			src = src[:rnd.Intn(len(src))+1]
		}
	case 1:
		src[rnd.Intn(len(src))] ^= byte(1 << uint(rnd.Intn(8)))
	case 2:
		src = append(src, byte(rnd.Intn(256)))
	}
	return src, di, dictLen
}

func main() {
	seed, _ := strconv.Atoi(os.Args[1])
	n, _ := strconv.Atoi(os.Args[2])
	rnd := rand.New(rand.NewSource(int64(seed)))
	cases := bufio.NewWriter(os.Stdout)
	res, _ := os.Create(os.Args[3])
	rw := bufio.NewWriter(res)
	for i := 0; i < n; i++ {
		src, dec, dictLen := gen(rnd)
		dl := dec + []int{0, 0, 0, -1, -2, -3, 1, 2, 5, 15, 16, 17, 31, 32, 33, 40, 48, 49, 100}[rnd.Intn(19)]
		if dl < 0 {
			dl = 0
		}
		capx := dl + []int{0, 7, 64}[rnd.Intn(3)]
		nilDst := false
		if rnd.Intn(40) == 0 && len(src) <= 16 {
			dl, capx, nilDst = 0, 0, true
		}
		buf := make([]byte, capx)
		rnd.Read(buf)
		dict := make([]byte, dictLen)
		rnd.Read(dict)
		nf := "0"
		if nilDst {
			nf = "1"
		}
		fmt.Fprintf(cases, "%d %s %s %s %s\n", dl, nf, hex.EncodeToString(buf), hex.EncodeToString(dict), hex.EncodeToString(src))
		var dst []byte
		if !nilDst {
			dst = buf[:dl]
		}
		ret, err := lz4.UncompressBlockWithDict(src, dst, dict)
		if err != nil {
			ret = -1
		}
		fmt.Fprintf(rw, "%d %s\n", ret, hex.EncodeToString(buf))
	}
	cases.Flush()
	rw.Flush()
}
