package spike

import (
	"bytes"
	"encoding/binary"
	"fmt"
	"io"
	"math/rand"
	"testing"

	"github.com/pierrec/lz4/v4"
)

func xxh32ref(b []byte) uint32 {
	n := len(b)
	var h uint32
	p := 0
	rol := func(x uint32, r uint) uint32 { return x<<r | x>>(32-r) }
	if n >= 16 {
		q1 := p1; v1, v2, v3, v4 := q1+p2, p2, uint32(0), -q1
		for ; p+16 <= n; p += 16 {
			v1 = rol(v1+binary.LittleEndian.Uint32(b[p:])*p2, 13) * p1
			v2 = rol(v2+binary.LittleEndian.Uint32(b[p+4:])*p2, 13) * p1
			v3 = rol(v3+binary.LittleEndian.Uint32(b[p+8:])*p2, 13) * p1
			v4 = rol(v4+binary.LittleEndian.Uint32(b[p+12:])*p2, 13) * p1
		}
		h = rol(v1, 1) + rol(v2, 7) + rol(v3, 12) + rol(v4, 18)
	} else {
		h = p5
	}
	h += uint32(n)
	for ; p+4 <= n; p += 4 {
		h = rol(h+binary.LittleEndian.Uint32(b[p:])*p3, 17) * p4
	}
	for ; p < n; p++ {
		h = rol(h+uint32(b[p])*p5, 11) * p1
	}
	h ^= h >> 15
	h *= p2
	h ^= h >> 13
	h *= p3
	h ^= h >> 16
	return h
}

func TestC19(t *testing.T) {
	bad := 0
	n := 0
	for d := 0; d < 65536; d++ {
		flg, bd := byte(d), byte(d>>8)
		hdr := []byte{0x04, 0x22, 0x4d, 0x18, flg, bd}
		if flg&8 != 0 {
			hdr = append(hdr, 1, 2, 3, 4, 5, 6, 7, 0x88)
		}
		want := byte(xxh32ref(hdr[4:]) >> 8)
		idx := bd >> 4 & 7
		for ck := 0; ck < 256; ck += 1 {
			if d%7 != 0 && ck != int(want) && ck != int(want)^1 {
				continue
			}
			in := append(append([]byte{}, hdr...), byte(ck))
			ok, err := lz4.ValidFrameHeader(in)
			n++
			expOK := byte(ck) == want && idx >= 4
			if ok != expOK {
				bad++
			}
			if byte(ck) != want && (err == nil || err.Error()[:28] != "lz4: invalid header checksum") {
				bad++
			}
			if byte(ck) == want && idx < 4 && err != lz4.ErrOptionInvalidBlockSize {
				bad++
			}
		}
	}
	fmt.Println("C19: headers", n, "disagreements", bad)
}

// strict validity of a block vs src
func strictCheck(blk []byte, srcLen int) string {
	si, di := 0, 0
	lastMatchStart := -1
	lastMatchEnd := -1
	for {
		if si >= len(blk) {
			return "ran out"
		}
		tok := blk[si]
		si++
		ll := int(tok >> 4)
		if ll == 15 {
			for {
				if si >= len(blk) {
					return "trunc"
				}
				x := blk[si]
				si++
				ll += int(x)
				if x != 255 {
					break
				}
			}
		}
		si += ll
		di += ll
		if si > len(blk) {
			return "lit overrun"
		}
		if si == len(blk) {
			if tok&15 != 0 {
				return "last seq has match nibble"
			}
			break
		}
		if si+2 > len(blk) {
			return "trunc off"
		}
		off := int(blk[si]) | int(blk[si+1])<<8
		si += 2
		if off == 0 || off > di {
			return fmt.Sprintf("bad offset %d at di %d", off, di)
		}
		ml := int(tok & 15)
		if ml == 15 {
			for {
				if si >= len(blk) {
					return "trunc ml"
				}
				x := blk[si]
				si++
				ml += int(x)
				if x != 255 {
					break
				}
			}
		}
		ml += 4
		lastMatchStart = di
		di += ml
		lastMatchEnd = di
		if si == len(blk) {
			return "ends after match"
		}
	}
	if di != srcLen {
		return "size mismatch"
	}
	if lastMatchStart >= 0 {
		if srcLen-lastMatchEnd < 5 {
			return "last 5 not literals"
		}
		if srcLen-lastMatchStart < 12 {
			return "last match starts within 12 of end"
		}
	}
	return ""
}

func TestC10C11(t *testing.T) {
	rnd := rand.New(rand.NewSource(7))
	bad := 0
	cases := 0
	for it := 0; it < 30000; it++ {
		var n int
		switch rnd.Intn(4) {
		case 0:
			n = rnd.Intn(40)
		case 1:
			n = rnd.Intn(600)
		default:
			n = rnd.Intn(5000)
		}
		src := make([]byte, n)
		switch rnd.Intn(4) {
		case 0:
			rnd.Read(src)
		case 1:
			per := 1 + rnd.Intn(20)
			for i := range src {
				src[i] = byte(i % per)
			}
		case 2:
			for i := range src {
				src[i] = byte(rnd.Intn(3))
			}
		default:
			for i := range src {
				src[i] = byte(i / (1 + rnd.Intn(9)))
			}
		}
		bound := lz4.CompressBlockBound(n)
		dl := bound
		if rnd.Intn(2) == 0 {
			dl = rnd.Intn(bound + 4)
		}
		buf := bytes.Repeat([]byte{0xEE}, bound+64)
		dst := buf[:dl]
		hc := rnd.Intn(2) == 0
		var nn int
		var err error
		func() {
			defer func() {
				if r := recover(); r != nil {
					bad++
					fmt.Println("PANIC", r)
				}
			}()
			if hc {
				c := lz4.CompressorHC{Level: lz4.CompressionLevel([]int{0, 1, 2, 16, 512, 70000}[rnd.Intn(6)])}
				nn, err = c.CompressBlock(src, dst)
			} else {
				var c lz4.Compressor
				nn, err = c.CompressBlock(src, dst)
			}
		}()
		cases++
		dirty := false
		for _, x := range buf[dl:] {
			if x != 0xEE {
				dirty = true
			}
		}
		msg := ""
		if dirty {
			msg = "dirty beyond len"
		} else if nn > dl {
			msg = "n > len"
		} else if dl >= bound && (nn <= 0 || err != nil) {
			msg = "bound but failed"
		} else if nn > 0 {
			msg = strictCheck(dst[:nn], n)
			if msg == "" {
				out := make([]byte, n)
				m, e := lz4.UncompressBlock(dst[:nn], out)
				if e != nil || m != n || !bytes.Equal(out, src) {
					msg = "roundtrip"
				}
			}
		}
		if msg != "" && !(hc && (msg == "dirty beyond len" || msg == "n > len")) {
			bad++
			if bad < 6 {
				fmt.Println("C10/C11:", msg, "hc", hc, "n", n, "dl", dl, "bound", bound, "ret", nn, err)
			}
		}
	}
	fmt.Println("C10/C11: cases", cases, "bad (excluding known HC cap overrun D12)", bad)
}

func TestD24(t *testing.T) {
	hdr := []byte{0x04, 0x22, 0x4d, 0x18, 0x40, 0x40}
	hdr = append(hdr, byte(xxh32ref(hdr[4:])>>8))
	f1 := append([]byte{}, hdr...)
	secret := []byte("TOPSECRETDATA!")
	var sz [4]byte
	binary.LittleEndian.PutUint32(sz[:], uint32(len(secret))|0x80000000)
	f1 = append(f1, sz[:]...)
	f1 = append(f1, secret...)
	f1 = append(f1, 0, 0, 0, 0)
	f2 := append([]byte{}, hdr...)
	blk := []byte{0x00, 0x04, 0x00}
	binary.LittleEndian.PutUint32(sz[:], uint32(len(blk)))
	f2 = append(f2, sz[:]...)
	f2 = append(f2, blk...)
	f2 = append(f2, 0, 0, 0, 0)
	zr := lz4.NewReader(bytes.NewReader(f1))
	o1, e1 := io.ReadAll(zr)
	zr.Reset(bytes.NewReader(f2))
	o2, e2 := io.ReadAll(zr)
	o3, e3 := io.ReadAll(lz4.NewReader(bytes.NewReader(f2)))
	fmt.Printf("D24: first %q %v; reused reader on hostile frame: %q %v; fresh reader: %q %v\n", o1, e1, o2, e2, o3, e3)
}
