import Lz4V.Util
import Lz4V.Spec.XXH32
import Lz4V.Spec.Block
import Lz4V.Spec.Frame
import Lz4V.Model.PipeW
import Lz4V.Model.PipeR
/-!
# lz4v-spec — the independent specifications as an executable oracle

Imports nothing regenerated from the Go source and no model: it keeps
working when a change to /repo breaks the regenerated files or a model.
-/
open Lz4V Lz4V.Util

def specDecodeView (src dict : Array UInt8) (maxOut : Nat) : String :=
  match Spec.Block.decode src.toList dict.toList maxOut with
  | none => "err"
  | some out => s!"ok {out.size} {fnv out out.size}"

def specStep (f : List String) : Option String :=
  match f with
  | ["SD", mo, dictH, srcH] => some (specDecodeView (parseHex srcH) (parseHex dictH) mo.toNat!)
  | ["SV", blkH] => some s!"{Spec.Block.strictValid (parseHex blkH).toList}"
  | ["SX", h] => some s!"{(Spec.XXH32.xxh32 (parseHex h).toList).toNat}"
  | _ => none

def loadBlob (t : String) : IO (Array UInt8) := do
  if t.startsWith "@" then
    let body := (t.drop 1).toString
    let (path, cut) := match body.splitOn "#" with
      | [p, n] => (p, n.toNat?)
      | _ => (body, none)
    let b ← IO.FS.readBinFile path
    let a : Array UInt8 := b.data
    pure (match cut with | some n => a.extract 0 n | none => a)
  else pure (parseData t)

def b2n (b : Bool) : Nat := if b then 1 else 0

def frameView (bytes : Array UInt8) (strict : Bool) : String :=
  match Spec.Frame.decode bytes.toList strict with
  | .error e => s!"err {repr e}"
  | .ok r =>
    let i := r.info
    let sz := match i.contentSize with | some n => s!"{n}" | none => "-"
    s!"ok ver={i.version} indep={b2n i.blockIndep} bc={b2n i.blockChecksum} cc={b2n i.contentChecksum} size={sz} bmax={i.blockMax} len={r.content.size} fnv={fnv r.content r.content.size} consumed={r.consumed}"

def frameViewC (bytes : Array UInt8) (strict : Bool) : String :=
  -- no frame at all (empty input or skippable frames only) is an empty stream, not a truncated frame
  if Spec.Frame.onlySkippable (bytes.size + 1) bytes.toList then
    s!"ok len=0 fnv={fnv #[] 0} consumed={bytes.size}" else
  match Spec.Frame.decode bytes.toList strict with
  | .error e => s!"err {repr e}"
  | .ok r => s!"ok len={r.content.size} fnv={fnv r.content r.content.size} consumed={r.consumed}"

def legacyView (bytes : Array UInt8) (withSizes : Bool) : String :=
  match Spec.Frame.decodeLegacy bytes.toList with
  | .error e => s!"err {repr e}"
  | .ok (c, sizes) =>
    let base := s!"ok legacy len={c.size} fnv={fnv c c.size}"
    if withSizes then s!"{base} sizesok={b2n (Spec.Frame.legacySizesOk sizes)}" else base

/-- event tokens: letter + channel number, e.g. `s0 c0 q0 w0 r0 S1 D1` -/
def parseW (t : String) : Option Model.PipeW.Ev :=
  let n := (t.drop 1).toString.toNat!
  match t.front with
  | 's' => some (.submit n) | 'c' => some (.compressed n) | 'q' => some (.dequeued n) | 'w' => some (.written n)
  | 'r' => some (.released n) | 'S' => some (.sentinel n) | 'D' => some (.done n) | _ => none

def parseR (t : String) : Option Model.PipeR.Ev :=
  let n := (t.drop 1).toString.toNat!
  match t.front with
  | 'a' => some (.read n) | 'd' => some (.decoded n) | 'v' => some (.delivered n)
  | 'S' => some (.sentinel n) | 'D' => some (.done n) | _ => none

partial def loopIO (hin hout : IO.FS.Stream) : IO Unit := do
  let line ← hin.getLine
  if line.isEmpty then return ()
  let f := line.trimAscii.toString.splitOn " "
  match f with
  | ["SF", strict, blob] => hout.putStrLn (frameView (← loadBlob blob) (strict == "1"))
  | "PW" :: complete :: toks =>
    hout.putStrLn (if Model.PipeW.validTraceStrict (toks.filterMap parseW) (complete == "1") then "valid" else "INVALID")
  | "PR" :: complete :: toks =>
    hout.putStrLn (if Model.PipeR.validTraceStrict (toks.filterMap parseR) (complete == "1") then "valid" else "INVALID")
  | ["SFC", strict, blob] => hout.putStrLn (frameViewC (← loadBlob blob) (strict == "1"))
  | ["SL", blob] => hout.putStrLn (legacyView (← loadBlob blob) false)
  | ["SLS", blob] => hout.putStrLn (legacyView (← loadBlob blob) true)
  | _ => hout.putStrLn ((specStep f).getD "bad-op")
  loopIO hin hout

def main : IO Unit := do loopIO (← IO.getStdin) (← IO.getStdout)
