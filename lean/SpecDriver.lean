import Lz4V.Util
import Lz4V.Spec.XXH32
import Lz4V.Spec.Block
/-!
# lz4v-spec — the independent specifications as an executable oracle

Imports nothing regenerated from the Go source and no model: it keeps
working when a change to /repo breaks the regenerated files or a model.
-/
open Lz4V Lz4V.Util

def specDecodeView (src dict : Array UInt8) (maxOut : Nat) : String :=
  match Spec.Block.decode src.toList dict.toList maxOut with
  | none => "err"
  | some out => s!"ok {out.size} {fnv out out.size}"

def specStep (f : List String) : Option String :=
  match f with
  | ["SD", mo, dictH, srcH] => some (specDecodeView (parseHex srcH) (parseHex dictH) mo.toNat!)
  | ["SV", blkH] => some s!"{Spec.Block.strictValid (parseHex blkH).toList}"
  | ["SX", h] => some s!"{(Spec.XXH32.xxh32 (parseHex h).toList).toNat}"
  | _ => none

partial def loopIO (hin hout : IO.FS.Stream) : IO Unit := do
  let line ← hin.getLine
  if line.isEmpty then return ()
  hout.putStrLn ((specStep (line.trimAscii.toString.splitOn " ")).getD "bad-op")
  loopIO hin hout

def main : IO Unit := do loopIO (← IO.getStdin) (← IO.getStdout)
