import Lz4V.Util
import Lz4V.Spec.XXH32
import Lz4V.Spec.Block
import Lz4V.Model.XXH
import Lz4V.Model.DecodeGo
import Lz4V.Model.DecodeAsm
import Lz4V.Model.Fast
import Lz4V.Model.HC
import Lz4V.Model.FrameW
import Lz4V.Model.FrameR
import Lz4V.Session
/-!
# lz4v-driver — runs the Lean models and specifications on a case stream

One case per input line, one result line per case:
`<view> ; <extra> | <spec view>` where `<view> ; <extra>` is what the model
predicts the real code prints for the same case and `<spec view>` is what the
independent specification says `<view>` must be.
-/
open Lz4V Lz4V.Util

def specDecodeView (src dict : Array UInt8) (maxOut : Nat) : String :=
  match Spec.Block.decode src.toList dict.toList maxOut with
  | none => "err"
  | some out => s!"ok {out.size} {fnv out out.size}"

/-- block decoded by the spec; used as round-trip oracle for the compressors -/
def roundTrip (blk : Array UInt8) (n : Nat) (src : Array UInt8) : String :=
  let b := (blk.extract 0 n).toList
  let rt := match Spec.Block.decode b [] src.size with
    | some out => if out == src then "rt=ok" else "rt=DIFF"
    | none => "rt=ERR"
  let sv := if Spec.Block.strictValid b then "strict=ok" else "strict=BAD"
  s!"{rt} {sv}"

def cmpView (r : Model.Emit.Ret) : String × Option (Array UInt8 × Nat) :=
  match r with
  | .ok n d => (s!"ok {n} {fnv d n}", some (d, n))
  | .zero => ("zero", none)
  | .err => ("err", none)
  | .panic => ("panic", none)

def step (line : String) : String :=
  match line.trimAscii.toString.splitOn " " with
  | ["XO", h] =>
    let bs := (parseHex h).toList
    s!"{(Model.XXH.checksumZero bs).toNat} | {(Spec.XXH32.xxh32 bs).toNat}"
  | "XS" :: chunks =>
    let cs := chunks.map (fun c => (parseHex c).toList)
    let st := cs.foldl Model.XXH.write Model.XXH.zero
    s!"{(Model.XXH.sum32 st).toNat} | {(Spec.XXH32.xxh32 cs.flatten).toNat}"
  | "XI" :: v1 :: v2 :: v3 :: v4 :: tl :: bufH :: chunks =>
    let st0 : Model.XXH.State :=
      ⟨⟨v1.toNat!.toUInt32, v2.toNat!.toUInt32, v3.toNat!.toUInt32, v4.toNat!.toUInt32⟩,
       tl.toNat!.toUInt64, (parseHex bufH).toList⟩
    let st := (chunks.map (fun c => (parseHex c).toList)).foldl Model.XXH.write st0
    s!"{(Model.XXH.sum32 st).toNat} | -"
  | ["DG", dl, dc, nilF, fs, dictH, srcH] =>
    -- portable decoder model: the capacity is clipped to len at entry
    let src := parseHex srcH; let dict := parseHex dictH
    let img := fill dc.toNat! fs.toNat!
    let dlen := if nilF == "1" then 0 else dl.toNat!
    let dst := img.extract 0 dlen
    let rest := img.extract dlen img.size
    let mv := match Model.DecodeGo.decodeBlock dst src dict with
      | .ok di d =>
        let im := d ++ rest
        if di > d.size then s!"ok {di} OVER ; img={fnv im im.size}"
        else s!"ok {di} {fnv d di} ; img={fnv im im.size}"
      | .err d => let im := d ++ rest; s!"err ; img={fnv im im.size}"
    let mv := if src.size == 0 then s!"ok 0 {fnv #[] 0} ; img={fnv img img.size}" else mv
    s!"{mv} | {specDecodeView src dict dlen}"
  | ["DA", dl, dc, nilF, fs, dictH, srcH] =>
    let src := parseHex srcH; let dict := parseHex dictH
    let dst := fill dc.toNat! fs.toNat!
    -- `UncompressBlock` replaces an empty destination (nil included) by an empty slice of a
    -- local array, so the decoder always sees a real base address
    let _ := nilF
    let dstBase : Nat := 0xc000100000
    let dictBase : Nat := if dict.size == 0 then 0 else 0xc000300000
    let m : Model.DecodeAsm.Mem := ⟨dst, dl.toNat!, src, dict, dstBase, 0xc000200000, dictBase⟩
    let mv := match Model.DecodeAsm.decodeBlock m with
      | .ok (ret, m2) =>
        let d := m2.dst
        if ret < 0 then s!"err ; img={fnv d d.size}"
        else s!"ok {ret} {fnv d (min ret.toNat d.size)} ; img={fnv d d.size}"
      | .error e => s!"FAULT {e} ; img=0"
    let mv := if src.size == 0 then s!"ok 0 {fnv #[] 0} ; img={fnv dst dst.size}" else mv
    s!"{mv} | {specDecodeView src dict dl.toNat!}"
  | ["CF", _, dl, srcH] =>
    let src := parseHex srcH
    let (v, r) := cmpView (Model.Fast.compressBlock src (Array.replicate dl.toNat! 0))
    match r with
    | some (d, n) => s!"{v} | {roundTrip d n src}"
    | none => s!"{v} | -"
  | ["CH", _, depth, dl, srcH] =>
    let src := parseHex srcH
    let (v, r) := cmpView (Model.HC.compressBlock src (Array.replicate dl.toNat! 0) depth.toNat!)
    match r with
    | some (d, n) => s!"{v} | {roundTrip d n src}"
    | none => s!"{v} | -"
  | ["SD", mo, dictH, srcH] =>
    s!"{specDecodeView (parseHex srcH) (parseHex dictH) mo.toNat!}"
  | ["SV", blkH] =>
    s!"{Spec.Block.strictValid (parseHex blkH).toList}"
  | _ => "bad-op"

partial def loopIO (hin : IO.FS.Stream) (hout : IO.FS.Stream) : IO Unit := do
  let line ← hin.getLine
  if line.isEmpty then return ()
  let f := line.trimAscii.toString.splitOn " "
  match f with
  -- guard-page runs: the same decode, destination capacity = length; DPG = portable decoder
  | ["DP", dl, fs, dictH, srcH] => hout.putStrLn (step s!"DA {dl} {dl} 0 {fs} {dictH} {srcH}")
  | ["DPG", dl, fs, dictH, srcH] => hout.putStrLn (step s!"DG {dl} {dl} 0 {fs} {dictH} {srcH}")
  | "W" :: rest => hout.putStrLn (← Session.writerSession rest)
  | "R" :: rest => hout.putStrLn (← Session.readerSession rest)
  | "HD" :: rest => hout.putStrLn (Session.hdSession rest)
  | "HM" :: rest => hout.putStrLn (Session.hmSession rest)
  | "PL" :: rest => hout.putStrLn (Session.plSession rest)
  | "CR" :: rest => hout.putStrLn (← Session.crSession rest)
  | _ => hout.putStrLn (step line)
  loopIO hin hout

def main : IO Unit := do
  let hin ← IO.getStdin
  let hout ← IO.getStdout
  loopIO hin hout
