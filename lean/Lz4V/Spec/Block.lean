/-!
# Spec.Block — the LZ4 block format

Written from lz4_Block_format.md, independently of the Go/assembly code.

A block is a series of sequences.  Each sequence is: a token (high nibble =
literal length, low nibble = match length − 4), optional literal-length
extension bytes (each adds 0‥255; a byte < 255 ends the extension), the
literals, a 2-byte little-endian offset (0 is invalid), optional match-length
extension bytes.  A match `(offset, len)` copies `len` bytes starting `offset`
bytes back in the history (dictionary followed by the output so far), byte by
byte, so that it may overlap the bytes it is producing.  The last sequence
stops after its literals.

`decode` is the *lenient* reading that C04 quantifies over and that both
decoders of the package implement: a block may also end right after a match.
`StrictValid` (further down) is the strict reading used for emitted blocks (C10).
-/
namespace Lz4V.Spec.Block

abbrev Bytes := List UInt8

/-- The format's meaning of a match: append `n` bytes, each copied from `off` bytes back. -/
def copyMatch (h : Array UInt8) (off : Nat) : Nat → Array UInt8
  | 0 => h
  | n+1 => copyMatch (h.push (h.getD (h.size - off) 0)) off n

/-- Extension bytes of a length whose nibble is 15. Returns the value and the rest. -/
def readLen : Nat → Bytes → Option (Nat × Bytes)
  | acc, b :: rest => if b.toNat = 255 then readLen (acc + 255) rest else some (acc + b.toNat, rest)
  | _, [] => none

/-- A length field: nibble, plus extension bytes when the nibble is 15. -/
def readField (nib : Nat) (r : Bytes) : Option (Nat × Bytes) :=
  if nib = 15 then readLen 15 r else some (nib, r)

/-- Move `n` literal bytes from the input onto the history; `none` if the input is shorter.
(`takeLits n r h = some (h ++ r.take n, r.drop n)` when `n ≤ r.length`.) -/
def takeLits : Nat → Bytes → Array UInt8 → Option (Array UInt8 × Bytes)
  | 0, r, h => some (h, r)
  | n+1, b :: r, h => takeLits n r (h.push b)
  | _+1, [], _ => none

/-- Sequence-by-sequence decoder. `hist` = dictionary ++ output so far, `dl` = dictionary
length, `maxOut` = the most output the caller accepts.  `none` = invalid block. -/
def decodeAux : (fuel : Nat) → (src : Bytes) → (hist : Array UInt8) → (dl maxOut : Nat) → Option (Array UInt8)
  | 0, _, _, _, _ => none
  | _+1, [], _, _, _ => none
  | fuel+1, tok :: r0, hist, dl, maxOut =>
    match readField (tok.toNat / 16) r0 with
    | none => none
    | some (ll, r1) =>
      if hist.size + ll - dl > maxOut then none else
      match takeLits ll r1 hist with
      | none => none
      | some (hist1, r2) =>
      match r2 with
      | [] => if tok.toNat % 16 = 0 then some hist1 else none
      | [_] => none
      | lo :: hi :: r3 =>
        let off := lo.toNat + 256 * hi.toNat
        if off = 0 then none else
        if off > hist1.size then none else
        match readField (tok.toNat % 16) r3 with
        | none => none
        | some (ml, r4) =>
          if hist1.size + (ml + 4) - dl > maxOut then none else
          let hist2 := copyMatch hist1 off (ml + 4)
          match r4 with
          | [] => some hist2      -- lenient: the block may end right after a match
          | _ => decodeAux fuel r4 hist2 dl maxOut

/-- `decode src dict maxOut`: the bytes the format defines for block `src` with dictionary
`dict`, or `none` if the block is invalid (zero offset, offset before the dictionary,
truncated sequence) or would produce more than `maxOut` bytes. -/
def decode (src dict : Bytes) (maxOut : Nat) : Option (Array UInt8) :=
  (decodeAux (src.length + 1) src dict.toArray dict.length maxOut).map
    (fun h => h.extract dict.length h.size)

/-! ## Canonical serialisation of sequences (an independent encoder) -/

structure Seq where
  lits : Bytes
  off : Nat
  ml : Nat      -- match length minus 4
deriving Repr

def emitLen (n : Nat) : Bytes :=
  if n < 255 then [n.toUInt8] else 255 :: emitLen (n - 255)
termination_by n
decreasing_by omega

def token (ll ml : Nat) : UInt8 := ((min ll 15) * 16 + min ml 15).toUInt8
def ext (n : Nat) : Bytes := if n < 15 then [] else emitLen (n - 15)

def emitSeq (s : Seq) : Bytes :=
  token s.lits.length s.ml ::
    (ext s.lits.length ++ (s.lits ++ ((s.off % 256).toUInt8 :: (s.off / 256).toUInt8 :: ext s.ml)))
def emitLast (l : Bytes) : Bytes := token l.length 0 :: (ext l.length ++ l)
def emitAll : List Seq → Bytes → Bytes
  | [], l => emitLast l
  | s :: ss, l => emitSeq s ++ emitAll ss l

/-- The expansion of a sequence list against a history. -/
def expand (hist : Array UInt8) : List Seq → Bytes → Array UInt8
  | [], l => hist ++ l
  | s :: ss, l => expand (copyMatch (hist ++ s.lits) s.off (s.ml + 4)) ss l

/-- Offsets are valid relative to the history. -/
def WF (hist : Array UInt8) : List Seq → Prop
  | [] => True
  | s :: ss => 1 ≤ s.off ∧ s.off < 65536 ∧ s.off ≤ hist.size + s.lits.length ∧
      WF (copyMatch (hist ++ s.lits) s.off (s.ml + 4)) ss

/-! ## The strict reading (C10) -/

/-- Parse a block into sequences and last literals, strict grammar: the final
sequence is literals-only (token's match nibble 0 and the block ends after its literals). -/
def parseAux : (fuel : Nat) → (src : Bytes) → Option (List Seq × Bytes)
  | 0, _ => none
  | _+1, [] => none
  | fuel+1, tok :: r0 =>
    match readField (tok.toNat / 16) r0 with
    | none => none
    | some (ll, r1) =>
      match takeLits ll r1 #[] with
      | none => none
      | some (la, r2) =>
      let lits := la.toList
      match r2 with
      | [] => if tok.toNat % 16 = 0 then some ([], lits) else none
      | [_] => none
      | lo :: hi :: r3 =>
        match readField (tok.toNat % 16) r3 with
        | none => none
        | some (ml, r4) =>
          match parseAux fuel r4 with
          | none => none
          | some (ss, l) => some (⟨lits, lo.toNat + 256 * hi.toNat, ml⟩ :: ss, l)

def parse (src : Bytes) : Option (List Seq × Bytes) := parseAux (src.length + 1) src

/-- positions: every match's offset is in 1‥65535 and does not reach before the start of the
output (no dictionary); returns the decoded length after the sequences, and the start
position (in the decoded output) of the last match. -/
def offsetsOk : (pos : Nat) → List Seq → Bool
  | _, [] => true
  | pos, s :: ss =>
    let p := pos + s.lits.length
    (1 ≤ s.off && s.off ≤ 65535 && s.off ≤ p) && offsetsOk (p + s.ml + 4) ss

def seqsLen : List Seq → Nat
  | [] => 0
  | s :: ss => s.lits.length + s.ml + 4 + seqsLen ss

/-- start (in the decoded output) of the last match, if any -/
def lastMatchStart : (pos : Nat) → List Seq → Option Nat
  | _, [] => none
  | pos, [s] => some (pos + s.lits.length)
  | pos, s :: ss => lastMatchStart (pos + s.lits.length + s.ml + 4) ss

/-- The strictest reading of the block format ("end of block" parsing restrictions):
* the block parses with a literals-only final sequence;
* every offset is within 1‥65535 and within the output produced so far;
* the last 5 bytes of the decoded output are literals;
* the last match starts at least 12 bytes before the end of the decoded output
  (consequently an input shorter than 13 bytes is encoded as literals only). -/
def strictValid (blk : Bytes) : Bool :=
  match parse blk with
  | none => false
  | some (ss, l) =>
    let total := seqsLen ss + l.length
    offsetsOk 0 ss &&
    (ss.isEmpty || (5 ≤ l.length &&
      match lastMatchStart 0 ss with
      | none => true
      | some st => st + 12 ≤ total))

end Lz4V.Spec.Block
