/-!
# Spec.XXH32 — reference XXH32 with seed 0

Written from the xxHash specification (xxhash_spec.md, "XXH32 algorithm
description"), independently of the Go code.  The input is a list of bytes of
unbounded length; the choice between the short-input and the four-lane path is
made on the unbounded length.
-/
namespace Lz4V.Spec.XXH32

abbrev Bytes := List UInt8

def PRIME32_1 : UInt32 := 0x9E3779B1
def PRIME32_2 : UInt32 := 0x85EBCA77
def PRIME32_3 : UInt32 := 0xC2B2AE3D
def PRIME32_4 : UInt32 := 0x27D4EB2F
def PRIME32_5 : UInt32 := 0x165667B1

@[inline] def rotl (x : UInt32) (r : UInt32) : UInt32 := (x <<< r) ||| (x >>> (32 - r))

@[inline] def le32 (a b c d : UInt8) : UInt32 :=
  a.toUInt32 ||| (b.toUInt32 <<< 8) ||| (c.toUInt32 <<< 16) ||| (d.toUInt32 <<< 24)

/-- Step 2: one accumulator round. -/
@[inline] def round (acc lane : UInt32) : UInt32 :=
  rotl (acc + lane * PRIME32_2) 13 * PRIME32_1

structure Lanes where
  v1 : UInt32
  v2 : UInt32
  v3 : UInt32
  v4 : UInt32
deriving DecidableEq, Repr

/-- Step 1: initialise the accumulators (seed 0). -/
def init : Lanes := ⟨PRIME32_1 + PRIME32_2, PRIME32_2, 0, 0 - PRIME32_1⟩

/-- Step 2: consume all full 16-byte stripes; returns lanes and the remaining tail (< 16 bytes). -/
def stripes : Lanes → Bytes → Lanes × Bytes
  | ⟨v1, v2, v3, v4⟩,
    a0::a1::a2::a3::b0::b1::b2::b3::c0::c1::c2::c3::d0::d1::d2::d3::rest =>
      stripes ⟨round v1 (le32 a0 a1 a2 a3), round v2 (le32 b0 b1 b2 b3),
               round v3 (le32 c0 c1 c2 c3), round v4 (le32 d0 d1 d2 d3)⟩ rest
  | v, tail => (v, tail)

/-- Step 3: accumulator convergence. -/
def converge (v : Lanes) : UInt32 := rotl v.v1 1 + rotl v.v2 7 + rotl v.v3 12 + rotl v.v4 18

/-- Step 5: consume the remaining input, 4 bytes at a time then byte by byte. -/
def tail : UInt32 → Bytes → UInt32
  | h, a::b::c::d::rest => tail (rotl (h + le32 a b c d * PRIME32_3) 17 * PRIME32_4) rest
  | h, rest => rest.foldl (fun h x => rotl (h + x.toUInt32 * PRIME32_5) 11 * PRIME32_1) h

/-- Step 6: final mix (avalanche). -/
def avalanche (h : UInt32) : UInt32 :=
  let h := h ^^^ (h >>> 15)
  let h := h * PRIME32_2
  let h := h ^^^ (h >>> 13)
  let h := h * PRIME32_3
  h ^^^ (h >>> 16)

/-- Reference XXH32, seed 0.  Step 4 adds the total length modulo 2^32. -/
def xxh32 (input : Bytes) : UInt32 :=
  let n := input.length
  if n < 16 then
    avalanche (tail (PRIME32_5 + n.toUInt32) input)
  else
    let r := stripes init input
    avalanche (tail (converge r.1 + n.toUInt32) r.2)

end Lz4V.Spec.XXH32
