import Lz4V.Spec.XXH32
import Lz4V.Spec.Block
/-!
# Spec.Frame — the LZ4 frame format (v1.6.x) and the legacy frame format

Written from lz4_Frame_format.md, independently of the Go code.

`decode bytes strict` parses zero or more skippable frames, then one LZ4 frame,
and returns the frame's parameters, the decoded content and the number of bytes
consumed — or the reason the bytes are not a frame.

* `strict = true` is the format as specified (what a *writer* must produce, C09):
  version 01, all reserved bits zero, no dictionary id.
* `strict = false` is the acceptance grammar that C19 fixes for this package's
  Reader (and that C05's oracle must therefore use): the header checksum byte must be
  right and the block-size code must be 4‥7; version and reserved bits are not examined
  and no dictionary-id field is read.

Everything else is common: the block size word (0 = end mark, high bit = stored
uncompressed, low 31 bits ≤ block maximum), the optional block checksum = XXH32 of the
block *as stored*, decoded blocks no larger than the block maximum, dependent blocks
decoding against the previous 64 KiB of content, the optional content checksum =
XXH32 of the whole content.
-/
namespace Lz4V.Spec.Frame
open Lz4V.Spec

abbrev Bytes := List UInt8

inductive Err where
  | truncated | badMagic | badHeaderChecksum | badBlockSize | badVersion | reservedBits | dictId
  | blockTooLarge | badBlock | badBlockChecksum | badContentChecksum | fuel
deriving Repr, DecidableEq

structure Info where
  version : Nat
  blockIndep : Bool
  blockChecksum : Bool
  contentChecksum : Bool
  contentSize : Option Nat
  blockMax : Nat
  legacy : Bool := false
deriving Repr, DecidableEq

def magic : Nat := 0x184D2204
def skipLo : Nat := 0x184D2A50
def skipHi : Nat := 0x184D2A5F
def legacyMagic : Nat := 0x184C2102

/-- little-endian 32-bit word -/
def u32 : Bytes → Option (Nat × Bytes)
  | a :: b :: c :: d :: r => some (a.toNat + 256 * b.toNat + 65536 * c.toNat + 16777216 * d.toNat, r)
  | _ => none

def u64 (bs : Bytes) : Option (Nat × Bytes) :=
  match u32 bs with
  | none => none
  | some (lo, r) => match u32 r with
    | none => none
    | some (hi, r') => some (lo + 4294967296 * hi, r')

/-- split off `n` bytes, `none` if fewer remain (linear in `n`) -/
def splitN : Nat → Bytes → Array UInt8 → Option (Array UInt8 × Bytes)
  | 0, r, acc => some (acc, r)
  | n+1, b :: r, acc => splitN n r (acc.push b)
  | _+1, [], _ => none

def dropN : Nat → Bytes → Option Bytes
  | 0, r => some r
  | n+1, _ :: r => dropN n r
  | _+1, [] => none

def blockMaxOf (code : Nat) : Option Nat :=
  match code with
  | 4 => some 65536 | 5 => some 262144 | 6 => some 1048576 | 7 => some 4194304 | _ => none

def xxh (a : Array UInt8) : Nat := (XXH32.xxh32 a.toList).toNat

/-- the last `n` elements -/
def lastN (a : Array UInt8) (n : Nat) : Array UInt8 := a.extract (a.size - n) a.size

/-- Data blocks up to and including the end mark. Returns the content and the rest. -/
def blocks (info : Info) : (fuel : Nat) → Bytes → Array UInt8 → Except Err (Array UInt8 × Bytes)
  | 0, _, _ => .error .fuel
  | fuel+1, bs, content =>
    match u32 bs with
    | none => .error .truncated
    | some (w, r) =>
      if w = 0 then .ok (content, r) else
      let raw := w ≥ 2147483648
      let sz := w % 2147483648
      if sz > info.blockMax then .error .blockTooLarge else
      match splitN sz r #[] with
      | none => .error .truncated
      | some (payload, r) =>
        let ck : Except Err Bytes :=
          if info.blockChecksum then
            match u32 r with
            | none => .error .truncated
            | some (c, r') => if c = xxh payload then .ok r' else .error .badBlockChecksum
          else .ok r
        match ck with
        | .error e => .error e
        | .ok r =>
          if raw then blocks info fuel r (content ++ payload) else
          let dict : Bytes := if info.blockIndep then [] else (lastN content 65536).toList
          match Block.decode payload.toList dict info.blockMax with
          | none => .error .badBlock
          | some out => blocks info fuel r (content ++ out)

structure Result where
  info : Info
  content : Array UInt8
  consumed : Nat
deriving Repr

/-- frame descriptor after the magic: FLG, BD, [content size], HC -/
def header (bs : Bytes) (strict : Bool) : Except Err (Info × Bytes) :=
  match bs with
  | flg :: bd :: r =>
    let f := flg.toNat; let b := bd.toNat
    let hasSize := f / 8 % 2 = 1
    match (if hasSize then (u64 r).map (fun (v, r') => (some v, r')) else some (none, r)) with
    | none => .error .truncated
    | some (csz, r') =>
      match r' with
      | [] => .error .truncated
      | hc :: rest =>
        let desc : Bytes := flg :: bd :: (if hasSize then r.take 8 else [])
        if hc.toNat ≠ (XXH32.xxh32 desc).toNat / 256 % 256 then .error .badHeaderChecksum else
        match blockMaxOf (b / 16 % 8) with
        | none => .error .badBlockSize
        | some bm =>
          if strict ∧ f / 64 ≠ 1 then .error .badVersion else
          if strict ∧ (f / 2 % 2 = 1 ∨ b / 128 = 1 ∨ b % 16 ≠ 0) then .error .reservedBits else
          if strict ∧ f % 2 = 1 then .error .dictId else
          .ok ({ version := f / 64, blockIndep := f / 32 % 2 = 1, blockChecksum := f / 16 % 2 = 1,
                 contentChecksum := f / 4 % 2 = 1, contentSize := csz, blockMax := bm }, rest)
  | _ => .error .truncated

/-- skippable frames, then the frame magic -/
def skipToFrame : (fuel : Nat) → Bytes → Except Err Bytes
  | 0, _ => .error .fuel
  | fuel+1, bs =>
    match u32 bs with
    | none => .error .truncated
    | some (m, r) =>
      if m = magic then .ok r
      else if skipLo ≤ m ∧ m ≤ skipHi then
        match u32 r with
        | none => .error .truncated
        | some (n, r') => match dropN n r' with
          | none => .error .truncated
          | some r'' => skipToFrame fuel r''
      else .error .badMagic

/-- the input holds no frame at all: nothing, or skippable frames only (an empty stream) -/
def onlySkippable : (fuel : Nat) → Bytes → Bool
  | 0, _ => false
  | _+1, [] => true
  | fuel+1, bs =>
    match u32 bs with
    | none => false
    | some (m, r) =>
      if skipLo ≤ m ∧ m ≤ skipHi then
        match u32 r with
        | none => false
        | some (n, r') => match dropN n r' with
          | none => false
          | some r'' => onlySkippable fuel r''
      else false

def decode (bytes : Bytes) (strict : Bool) : Except Err Result :=
  match skipToFrame (bytes.length + 1) bytes with
  | .error e => .error e
  | .ok r =>
    match header r strict with
    | .error e => .error e
    | .ok (info, r) =>
      match blocks info (r.length + 1) r #[] with
      | .error e => .error e
      | .ok (content, r) =>
        if info.contentChecksum then
          match u32 r with
          | none => .error .truncated
          | some (c, r') =>
            if c = xxh content then .ok ⟨info, content, bytes.length - r'.length⟩ else .error .badContentChecksum
        else .ok ⟨info, content, bytes.length - r.length⟩

/-! ## Legacy frames: magic, then `size:u32` + LZ4 block, each decoding to at most 8 MiB;
the frame ends at the end of the input (optionally after a word equal to the total decoded size,
the Linux-kernel variant); a repeated legacy magic continues the stream. The decoded block sizes are returned so that C09 can
state "every block but the last holds exactly 8 MiB". -/

def legacyBlockMax : Nat := 8388608

def legacyBlocks : (fuel : Nat) → Bytes → Array UInt8 → List Nat → Except Err (Array UInt8 × List Nat)
  | 0, _, _, _ => .error .fuel
  | fuel+1, bs, content, sizes =>
    match bs with
    | [] => .ok (content, sizes.reverse)
    | _ =>
      match u32 bs with
      | none => .error .truncated
      | some (w, r) =>
        -- another legacy magic: a concatenated legacy frame continues the stream
        if w = legacyMagic then legacyBlocks fuel r content sizes else
        -- Linux-kernel variant (documented by the package): a last word holding the total decoded size
        if w = content.size % 4294967296 ∧ r.isEmpty then .ok (content, sizes.reverse) else
        -- a legacy block size has no flag bit; a compressed 8 MiB block cannot exceed the LZ4 bound
        if w > legacyBlockMax + legacyBlockMax / 255 + 16 then .error .blockTooLarge else
        match splitN w r #[] with
        | none => .error .truncated
        | some (payload, r) =>
          match Block.decode payload.toList [] legacyBlockMax with
          | none => .error .badBlock
          | some out => legacyBlocks fuel r (content ++ out) (out.size :: sizes)

/-- returns content and the decoded size of every block -/
def decodeLegacy (bytes : Bytes) : Except Err (Array UInt8 × List Nat) :=
  match u32 bytes with
  | none => .error .truncated
  | some (m, r) => if m ≠ legacyMagic then .error .badMagic else legacyBlocks (r.length + 1) r #[] []

/-- all blocks but the last hold exactly 8 MiB -/
def legacySizesOk : List Nat → Bool
  | [] => true
  | [_] => true
  | s :: rest => s == legacyBlockMax && legacySizesOk rest

end Lz4V.Spec.Frame
