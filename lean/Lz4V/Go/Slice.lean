/-!
# Go.Slice — the few Go slice operations the models use, on `Array UInt8`

A Go `[]byte` whose capacity has been clipped to its length is an
`Array UInt8`.  Out-of-range indexing / slicing is a run-time panic in Go; the
models test the range explicitly and return their error value, so the helpers
below are only ever called in range (they are total anyway).
-/
namespace Lz4V.Go

/-- `copy(dst[di:di+n], src[si:si+n])` for *distinct* backing arrays, in range. -/
def blit (dst : Array UInt8) (di : Nat) (src : Array UInt8) (si : Nat) : Nat → Array UInt8
  | 0 => dst
  | n+1 => blit (dst.set! di src[si]!) (di+1) src (si+1) n

/-- forward byte-by-byte copy inside one array: `for k < n { a[di+k] = a[si+k] }` -/
def copyFwd (a : Array UInt8) (di si : Nat) : Nat → Array UInt8
  | 0 => a
  | n+1 => copyFwd (a.set! di a[si]!) (di+1) (si+1) n

/-- `copy(a[di:di+n], a[si:si+n])` inside one array: Go's `copy` has memmove semantics
(the source bytes are read before any is overwritten). -/
def copyWithin (a : Array UInt8) (di si n : Nat) : Array UInt8 :=
  blit a di (a.extract si (si+n)) 0 n

/-- `binary.LittleEndian.Uint16(p[i:])` -/
@[inline] def le16 (a : Array UInt8) (i : Nat) : Nat := a[i]!.toNat + 256 * a[i+1]!.toNat

@[inline] def ld (s : Array UInt8) (i : Nat) : UInt64 := (s[i]!).toUInt64
/-- `binary.LittleEndian.Uint32(p[i:])` (as a 64-bit value) -/
def le32 (s : Array UInt8) (i : Nat) : UInt64 :=
  ld s i ||| (ld s (i+1) <<< 8) ||| (ld s (i+2) <<< 16) ||| (ld s (i+3) <<< 24)
/-- `binary.LittleEndian.Uint64(p[i:])` -/
def le64 (s : Array UInt8) (i : Nat) : UInt64 :=
  ld s i ||| (ld s (i+1) <<< 8) ||| (ld s (i+2) <<< 16) ||| (ld s (i+3) <<< 24) |||
  (ld s (i+4) <<< 32) ||| (ld s (i+5) <<< 40) ||| (ld s (i+6) <<< 48) ||| (ld s (i+7) <<< 56)

/-- `bits.TrailingZeros64(x) >> 3` for `x ≠ 0`: the number of zero low-order bytes. -/
def tzBytes (x : UInt64) : Nat :=
  if x &&& 0xFF != 0 then 0 else
  if x &&& 0xFF00 != 0 then 1 else
  if x &&& 0xFF0000 != 0 then 2 else
  if x &&& 0xFF000000 != 0 then 3 else
  if x &&& 0xFF00000000 != 0 then 4 else
  if x &&& 0xFF0000000000 != 0 then 5 else
  if x &&& 0xFF000000000000 != 0 then 6 else
  if x &&& 0xFF00000000000000 != 0 then 7 else 8

end Lz4V.Go
