/-!
# Go.IO — scripted `io.Writer` / `io.Reader` and the error values the models can return
-/
namespace Lz4V.Go

/-- the error values observable through the package API, as a small enum (the harness maps
Go errors to the same names with `errors.Is`) -/
inductive Err where
  | eof | unexpectedEOF | injected
  | shortBuffer | badMagic | badHeaderChecksum | badBlockChecksum | badFrameChecksum | badBlockSize
  | closedOrError | unhandledState | closedPipe | badLevel | notApplicable | readerDone
deriving DecidableEq, Repr

def Err.name : Err → String
  | .eof => "eof" | .unexpectedEOF => "unexpEOF" | .injected => "injected"
  | .shortBuffer => "shortbuf" | .badMagic => "badmagic" | .badHeaderChecksum => "badhdrck"
  | .badBlockChecksum => "badblkck" | .badFrameChecksum => "badframeck" | .badBlockSize => "badblksize"
  | .closedOrError => "closedOrErr" | .unhandledState => "unhandled" | .closedPipe => "closedpipe"
  | .badLevel => "badlevel" | .notApplicable => "notapplicable" | .readerDone => "done"

def errName : Option Err → String
  | none => "ok"
  | some e => e.name

/-- a sink that accepts every write except the `failAt`-th call (0-based), which writes nothing
and returns the injected error; every later call fails too. `calls` = writes so far. -/
structure Sink where
  writes : Array (Array UInt8) := #[]
  calls : Nat := 0
  failAt : Option Nat := none

def Sink.write (s : Sink) (p : Array UInt8) : Sink × Option Err :=
  match s.failAt with
  | some k => if s.calls ≥ k then ({ s with calls := s.calls + 1 }, some .injected)
              else ({ s with writes := s.writes.push p, calls := s.calls + 1 }, none)
  | none => ({ s with writes := s.writes.push p, calls := s.calls + 1 }, none)

def Sink.bytes (s : Sink) : Array UInt8 := s.writes.foldl (· ++ ·) #[]

/-- a scripted source: `data[pos:]` remains; each `Read` returns at most `chunk` bytes
(`chunk = 0` means "as many as requested"); the `failAt`-th call returns the injected error;
`eofWithData`: the last bytes are returned together with `io.EOF`. -/
structure Source where
  data : Array UInt8
  pos : Nat := 0
  chunk : Nat := 0
  calls : Nat := 0
  failAt : Option Nat := none
  eofWithData : Bool := false

/-- `src.Read(p)` with `len(p) = want`: returns the source, the bytes and the error -/
def Source.read (s : Source) (want : Nat) : Source × Array UInt8 × Option Err :=
  let s' := { s with calls := s.calls + 1 }
  match s.failAt with
  | some k => if s.calls ≥ k then (s', #[], some .injected) else go s'
  | none => go s'
where
  go (s : Source) : Source × Array UInt8 × Option Err :=
    let rem := s.data.size - s.pos
    if want = 0 then (s, #[], none) else
    if rem = 0 then (s, #[], some .eof) else
    let n := min (min want rem) (if s.chunk = 0 then want else s.chunk)
    let out := s.data.extract s.pos (s.pos + n)
    let s := { s with pos := s.pos + n }
    if s.eofWithData ∧ s.pos = s.data.size then (s, out, some .eof) else (s, out, none)

/-- `io.ReadFull(src, buf)` with `len(buf) = want` -/
def readFull (s : Source) (want : Nat) : Source × Array UInt8 × Option Err :=
  loop s #[] (want + 1)
where
  loop (s : Source) (acc : Array UInt8) : Nat → Source × Array UInt8 × Option Err
    | 0 => (s, acc, none)
    | fuel+1 =>
      if acc.size ≥ want then (s, acc, none) else
      let (s, got, e) := s.read (want - acc.size)
      let acc := acc ++ got
      match e with
      | none =>
        -- a reader returning (0, nil) for a non-empty request makes no progress; io.ReadFull keeps calling.
        if got.size = 0 then (s, acc, some .unexpectedEOF) else loop s acc fuel
      | some err =>
        if acc.size ≥ want then (s, acc, none)
        else if err = .eof ∧ acc.size > 0 then (s, acc, some .unexpectedEOF)
        else (s, acc, some err)

end Lz4V.Go
