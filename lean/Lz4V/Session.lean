import Lz4V.Util
import Lz4V.Model.FrameW
import Lz4V.Model.FrameR
import Lz4V.Model.CReader
/-!
# Session — line-protocol front end of the Writer / Reader models

`W <failAt> <op>…`   ops: `A:k=v,k=v…` Apply · `w:<data>` Write · `f` Flush · `c` Close ·
                     `R:<failAt>` Reset(new sink) · `rf:<data>:<chunk>:<failAt>:<eofWithData>` ReadFrom
`R <conc> <blob> <chunk> <failAt> <eofWithData> <op>…`
                     ops: `r:<n>` Read · `wt:<failAt>` WriteTo · `s` Size · `R:<blob>` Reset · `A:conc=<n>` Apply
data = `k.seed.len` | `x<hex>`; blob = `@/abs/path[#prefixLen]` | `x<hex>`
-/
namespace Lz4V.Session
open Lz4V Lz4V.Util Lz4V.Go Lz4V.Model

/-- a failure point: `-1` never; `k` from the k-th call on; `k!` (a transient failure of the k-th call only) is
the same for the model, because no Writer or Reader calls its sink or source again after a failure -/
def optNat (s : String) : Option Nat :=
  let s := ((s.replace "!" "").replace "~" "").replace "^" ""
  if s == "-1" || s == "-" then none else s.toNat?

def loadBlob (t : String) : IO (Array UInt8) := do
  if t.startsWith "@" then
    let body := (t.drop 1).toString
    let (path, cut) := match body.splitOn "#" with
      | [p, n] => (p, n.toNat?)
      | _ => (body, none)
    let b ← IO.FS.readBinFile path
    let a : Array UInt8 := b.data
    pure (match cut with | some n => a.extract 0 n | none => a)
  else pure (parseData t)

def parseOpts (s : String) : List FrameW.Opt × Option Nat :=
  (s.splitOn ",").foldl (fun (acc, conc) kv =>
    match kv.splitOn "=" with
    | [k, v] =>
      let n := v.toNat!
      match k with
      | "bs" => (acc ++ [.blockSize n], conc)
      | "bc" => (acc ++ [.blockChecksum (n != 0)], conc)
      | "cc" => (acc ++ [.checksum (n != 0)], conc)
      | "sz" => (acc ++ [.size n], conc)
      | "lvl" => (acc ++ [.level n], conc)
      | "conc" => (acc ++ [.concurrency n], some n)
      | "leg" => (acc ++ [.legacy (n != 0)], conc)
      | _ => (acc, conc)
    | _ => (acc, conc)) ([], none)

def sinkSummary (s : Sink) : String :=
  let all := s.bytes
  let sizes := s.writes.foldl (fun h w => (h ^^^ w.size.toUInt64) * 1099511628211) 14695981039346656037
  s!"calls={s.calls},writes={s.writes.size},bytes={all.size},fnv={fnv all all.size},pattern={sizes}"

def writerSession (f : List String) : IO String := do
  match f with
  | fa :: ops =>
    let mut w := FrameW.new (optNat fa)
    let mut res : Array String := #[]
    let mut sinks : Array String := #[]
    for op in ops do
      match op.splitOn ":" with
      | ["A", o] =>
        let (opts, _) := parseOpts o
        let (w', e) := FrameW.apply w opts
        w := w'; res := res.push (errName e)
      | ["w", d] =>
        let (w', n, e) := FrameW.write w (← loadBlob d)
        w := w'; res := res.push s!"{n}/{errName e}"
      | ["f"] => let (w', e) := FrameW.flush w; w := w'; res := res.push (errName e)
      | ["c"] => let (w', e) := FrameW.close w; w := w'; res := res.push (errName e)
      | ["R", fa] =>
        sinks := sinks.push (sinkSummary w.sink)
        w := FrameW.reset w (optNat fa); res := res.push "-"
      | ["rf", d, chunk, fa, ewd] =>
        let src : Source := { data := (← loadBlob d), chunk := chunk.toNat!, failAt := optNat fa, eofWithData := ewd == "1" || ewd == "3" || ewd == "5" || ewd == "7" }
        let (w', _, n, e) := FrameW.readFrom w src
        w := w'; res := res.push s!"{n}/{errName e}"
      | _ => res := res.push "bad-op"
    sinks := sinks.push (sinkSummary w.sink)
    pure s!"{" ".intercalate res.toList} ; {" ".intercalate sinks.toList}"
  | _ => pure "bad-op"

def readerSession (f : List String) : IO String := do
  match f with
  | conc :: blob :: chunk :: fa :: ewd :: ops =>
    let data ← loadBlob blob
    let mkSrc (d : Array UInt8) : Source := { data := d, chunk := chunk.toNat!, failAt := optNat fa, eofWithData := ewd == "1" || ewd == "3" || ewd == "5" || ewd == "7" }
    let mut r : FrameR.R := { FrameR.new (mkSrc data) with num := conc.toNat! }
    let mut res : Array String := #[]
    for op in ops do
      if op.startsWith "E:" || op.startsWith "P:" || op.startsWith "X:" || op.startsWith "z:" then continue   -- expectations for the harness only
      match op.splitOn ":" with
      | ["r", n] =>
        let (r', out, e) := FrameR.read r n.toNat!
        r := r'; res := res.push s!"{out.size}/{fnv out out.size}/{errName e}"
      | ["wt", fa] =>
        let (r', sink, n, e) := FrameR.writeTo r { failAt := optNat fa }
        let all := sink.bytes
        r := r'; res := res.push s!"{n}/{fnv all all.size}/{errName e}"
      | ["wd"] =>
        -- WriteTo into a sink that keeps nothing (the harness measures the live heap): same call, same answer
        let (r', sink, n, e) := FrameR.writeTo r { failAt := none }
        let all := sink.bytes
        r := r'; res := res.push s!"{n}/{fnv all all.size}/{errName e}"
      | ["s"] => res := res.push s!"{FrameR.size r}"
      | ["R", b] =>
        let d ← loadBlob b
        r := FrameR.reset r (mkSrc d); res := res.push "-"
      | ["A", o] =>
        let (opts, _) := parseOpts o
        -- Reader.Apply: only ConcurrencyOption applies to a Reader; the options run in order and the first
        -- error stops them (and, through `state.check`, puts the Reader in the error state)
        if r.st = Gen.stError then res := res.push (errName r.err)
        else if r.st ≠ Gen.stNew then
          r := FrameR.check r (some .closedOrError); res := res.push "closedOrErr"
        else
          let mut e : Option Err := none
          for op in opts do
            if e.isNone then
              match op with
              | .concurrency n => r := { r with num := n }
              | _ => e := some .notApplicable
          r := FrameR.check r e
          res := res.push (errName e)
      | _ => res := res.push "bad-op"
    pure s!"{" ".intercalate res.toList} ; consumed={r.src.pos}"
  | _ => pure "bad-op"

/-- `CR <opts|-> <data> <chunk> <failAt> <eofWithData> <tok>…`: the compressing reader.
`<size>` = one `Read` with a buffer of that length; `A=<opts>` = Apply; `R=<data>:<chunk>:<failAt>:<ewd>` =
Reset onto a new source.  The last size is repeated until io.EOF or an error (at most 100000 calls); once
a Read of a session returned an error the remaining sizes of that session are skipped. -/
def crSession (f : List String) : IO String := do
  match f with
  | o :: d :: chunk :: fa :: ewd :: toks =>
    let mkSrc (d : Array UInt8) (chunk fa ewd : String) : Source :=
      { data := d, chunk := chunk.toNat!, failAt := optNat fa, eofWithData := ewd == "1" || ewd == "3" || ewd == "5" || ewd == "7" }
    let c0 := CReader.new (mkSrc (← loadBlob d) chunk fa ewd)
    let (c1, ae) := if o == "-" then (c0, none) else CReader.apply c0 (parseOpts o).1
    let mut c := c1
    let mut res : Array String := #[]
    let mut total := 0
    let mut ended := false
    let mut last := 0
    let mut hadReads := false
    for t in toks do
      if t.startsWith "R=" then
        match ((t.drop 2).toString).splitOn ":" with
        | [d, chunk, fa, ewd] =>
          c := CReader.reset c (mkSrc (← loadBlob d) chunk fa ewd)
          res := res.push "-"
          ended := false; last := 0; hadReads := false
        | _ => res := res.push "bad-op"
      else if t.startsWith "A=" then
        let (c', e) := CReader.apply c (parseOpts (t.drop 2).toString).1
        c := c'; res := res.push (errName e)
      else
        let n := t.toNat!
        hadReads := true; last := n
        if !ended then
          let (c', out, e) := CReader.read c n
          c := c'
          if res.size < 60 then res := res.push s!"{out.size}/{fnv out out.size}/{errName e}"
          total := total + out.size
          if e.isSome then ended := true
    if hadReads && !ended && last > 0 then
      for _ in [0:100000] do
        if ended then break
        let (c', out, e) := CReader.read c last
        c := c'
        if res.size < 60 then res := res.push s!"{out.size}/{fnv out out.size}/{errName e}"
        total := total + out.size
        if e.isSome then ended := true
    pure s!"{errName ae} {" ".intercalate res.toList} ; total={total}"
  | _ => pure "bad-op"

/-- `HD flg bd sz mode`: the header-acceptance table of C19 as the model predicts it -/
def hdSession (f : List String) : String :=
  match f with
  | [flgS, bdS, szS, mode] =>
    let flg := flgS.toNat!; let bd := bdS.toNat!
    let hasSize := flg / 8 % 2 = 1
    let sz := if szS == "-" then 0 else szS.toNat!
    let desc : Array UInt8 := #[flg.toUInt8, bd.toUInt8] ++ (if hasSize then FrameW.le64 sz else #[])
    let hdr := FrameW.le32 Gen.frameMagic ++ desc
    let right := (XXH.checksumZero desc.toList).toNat / 256 % 256
    let cks : List Nat := if mode == "t" then List.range 256
      else
        let base := [right, Nat.xor right 1, Nat.xor right 128, (right + 1) % 256]
        base ++ ([0, 255].filter (fun c => !base.contains c))
    let tail : Array UInt8 := #[0, 0, 0, 0] ++ (if flg / 4 % 2 = 1 then #[0x05, 0x5d, 0xcc, 0x02] else #[])
    let (acc, wrong, size) := cks.foldl (fun (acc, wrong, size) c =>
      let h := hdr.push c.toUInt8
      let (_, e) := FrameR.parseHeaders (FrameR.new { data := h }) (h.size + 2)
      match e with
      | none =>
        let (r, _, _) := FrameR.read (FrameR.new { data := h ++ tail }) 16
        (acc ++ s!"{c},", wrong, s!"{FrameR.size r}")
      | some e => (acc, if wrong.contains e.name then wrong else wrong ++ [e.name], size)) ("", [], "-")
    let order := ["ok", "badhdrck", "badblksize", "badmagic", "unexpEOF", "eof"]
    let ws := (order.filter wrong.contains).foldl (fun s k => s ++ k ++ ",") ""
    s!"acc={acc} wrong={ws} size={size}"
  | _ => "bad-op"

/-- `HM word`: a first word, a skip length of 4, four bytes and an empty frame: what `ValidFrameHeader`
and the first `Read` answer -/
def hmSession (f : List String) : String :=
  match f with
  | [ws] =>
    let d : Array UInt8 := #[0x60, 0x40]
    let empty := FrameW.le32 Gen.frameMagic ++ d ++ #[((XXH.checksumZero d.toList).toNat / 256 % 256).toUInt8, 0, 0, 0, 0]
    let inp := FrameW.le32 ws.toNat! ++ FrameW.le32 4 ++ #[9, 8, 7, 6] ++ empty
    let (_, e) := FrameR.parseHeaders (FrameR.new { data := inp }) (inp.size + 2)
    -- ValidFrameHeader: ErrInvalidFrame becomes (false, nil)
    let vfh := match e with
      | none => "true/ok"
      | some .badMagic => "false/ok"
      | some e => s!"false/{e.name}"
    let (_, out, e2) := FrameR.read (FrameR.new { data := inp }) 16
    s!"vfh={vfh} read={out.size}/{errName e2}"
  | _ => "bad-op"

/-- `PL op…`: a history on the block-buffer pools.  Whatever `sync.Pool` returns (`Props.Pool.get_size`), a
buffer obtained for class `idx` has length and capacity `poolSize idx`: that is all the model has to say. -/
def plSession (f : List String) : String :=
  " ".intercalate (f.map (fun op =>
    if op.startsWith "g" then
      let n := FrameW.poolSize (op.drop 1).toString.toNat!
      s!"{n}/{n}"
    else "-"))

end Lz4V.Session
