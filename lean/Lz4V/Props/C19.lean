import Lz4V.Proofs.Header
import Lz4V.Spec.Frame
import Lz4V.Props.C13
/-!
# C19 — the frame header parser accepts a header exactly when the header checksum byte is right
and the block-size code is 4‥7, reports distinct errors otherwise, and exposes the content size unchanged
-/
namespace Lz4V.Props.C19
open Lz4V Lz4V.Go Lz4V.Model

/-- the bytes of a header: magic, FLG, BD, optional 8-byte content size (present iff FLG bit 3), checksum byte -/
def headerBytes (flg bd ck : UInt8) (sz : UInt64) : Array UInt8 :=
  FrameW.le32 Gen.frameMagic ++ #[flg, bd] ++
    (if flg.toNat / 8 % 2 = 1 then FrameW.le64 sz.toNat else #[]) ++ #[ck]

/-- descriptor bytes covered by the header checksum -/
def descBytes (flg bd : UInt8) (sz : UInt64) : List UInt8 :=
  [flg, bd] ++ (if flg.toNat / 8 % 2 = 1 then (FrameW.le64 sz.toNat).toList else [])

/-- the right checksum byte: second byte of the reference XXH32 of the descriptor -/
def hc (flg bd : UInt8) (sz : UInt64) : UInt8 :=
  ((Spec.XXH32.xxh32 (descBytes flg bd sz)).toNat / 256 % 256).toUInt8

def validCode (bd : UInt8) : Prop := let c := bd.toNat / 16 % 8; c = 4 ∨ c = 5 ∨ c = 6 ∨ c = 7

instance (bd : UInt8) : Decidable (validCode bd) := by unfold validCode; infer_instance

/-- a whole-read source holding `bytes` -/
def srcOf (bytes : Array UInt8) : Source := { data := bytes }

/-- run the model's parser on header ++ rest -/
def parse (flg bd ck : UInt8) (sz : UInt64) (rest : Array UInt8) : FrameR.R × Option Err :=
  let b := headerBytes flg bd ck sz ++ rest
  FrameR.parseHeaders (FrameR.new (srcOf b)) (b.size + 2)

/-! ## the parse, computed -/

theorem headerBytes_size (flg bd ck : UInt8) (sz : UInt64) :
    (headerBytes flg bd ck sz).size = if flg.toNat / 8 % 2 = 1 then 15 else 7 := by
  unfold headerBytes FrameW.le64 FrameW.le32
  split <;> simp

/-- the parse is the checksum / block-size verdict over a reader state that has consumed exactly the
header, holds the flags word `FLG + 256·BD` and the content size -/
theorem parse_eq (flg bd ck : UInt8) (sz : UInt64) (rest : Array UInt8) :
    ∃ r0 : FrameR.R,
      parse flg bd ck sz rest = Proofs.Header.verdict r0 ck (descBytes flg bd sz) bd ∧
      r0.src.pos = (headerBytes flg bd ck sz).size ∧
      r0.flags = Proofs.Header.flagsOf flg bd ∧
      r0.contentSize = (if flg.toNat / 8 % 2 = 1 then sz.toNat else 0) ∧
      r0.st = Gen.stNew := by
  by_cases hs : flg.toNat / 8 % 2 = 1
  · obtain ⟨a0, a1, a2, a3, hA⟩ := Proofs.Header.le32_lit (sz.toNat % 4294967296)
    obtain ⟨b0, b1, b2, b3, hB⟩ := Proofs.Header.le32_lit (sz.toNat / 4294967296)
    obtain ⟨m0, m1, m2, m3, hM⟩ := Proofs.Header.le32_lit Gen.frameMagic
    have h64 : FrameW.le64 sz.toNat = #[a0, a1, a2, a3, b0, b1, b2, b3] := by
      unfold FrameW.le64; rw [hA, hB]; simp
    have hb : headerBytes flg bd ck sz ++ rest =
        #[m0, m1, m2, m3, flg, bd, a0, a1, a2, a3, b0, b1, b2, b3, ck] ++ rest := by
      unfold headerBytes; rw [if_pos hs, h64, hM]; simp
    refine ⟨{ src := { data := headerBytes flg bd ck sz ++ rest, pos := 15, calls := 3 }, magic := Gen.frameMagic,
              flags := Proofs.Header.flagsOf flg bd, contentSize := sz.toNat }, ?_, ?_, ?_, ?_, rfl⟩
    · unfold parse
      simp only []
      show FrameR.parseHeaders (FrameR.new (Proofs.Header.srcOf _)) _ = _
      rw [Proofs.Header.parse_size (headerBytes flg bd ck sz ++ rest) flg bd a0 ck sz.toNat sz.toNat_lt
        ((headerBytes flg bd ck sz ++ rest).size + 1)
        (by rw [hb]; simp) (by rw [hb, hM]; simp) (by rw [hb]; simp)
        (by rw [hb, h64]; simp) hs]
      unfold descBytes
      rw [if_pos hs]
    · rw [headerBytes_size, if_pos hs]
    · rfl
    · rw [if_pos hs]
  · obtain ⟨m0, m1, m2, m3, hM⟩ := Proofs.Header.le32_lit Gen.frameMagic
    have hb : headerBytes flg bd ck sz ++ rest = #[m0, m1, m2, m3, flg, bd, ck] ++ rest := by
      unfold headerBytes; rw [if_neg hs, hM]; simp
    refine ⟨{ src := { data := headerBytes flg bd ck sz ++ rest, pos := 7, calls := 2 }, magic := Gen.frameMagic,
              flags := Proofs.Header.flagsOf flg bd }, ?_, ?_, ?_, ?_, rfl⟩
    · unfold parse
      simp only []
      show FrameR.parseHeaders (FrameR.new (Proofs.Header.srcOf _)) _ = _
      rw [Proofs.Header.parse_nosize (headerBytes flg bd ck sz ++ rest) flg bd ck
        ((headerBytes flg bd ck sz ++ rest).size + 1)
        (by rw [hb]; simp) (by rw [hb, hM]; simp) (by rw [hb]; simp) hs]
      unfold descBytes
      rw [if_neg hs]
      rfl
    · rw [headerBytes_size, if_neg hs]
    · rfl
    · rw [if_neg hs]

/-- the model's checksum test is `ck ≠ hc` (through C13: model XXH32 = reference XXH32) -/
theorem ck_test (flg bd ck : UInt8) (sz : UInt64) :
    ck.toNat ≠ (XXH.checksumZero (descBytes flg bd sz)).toNat / 256 % 256 ↔ ck ≠ hc flg bd sz := by
  rw [C13.oneshot, Proofs.Header.byte_ne_iff _ _ (by omega)]
  rfl

/-- the error of the verdict, as a function of the two conditions of C19 -/
theorem verdict_snd (r0 : FrameR.R) (flg bd ck : UInt8) (sz : UInt64) :
    (Proofs.Header.verdict r0 ck (descBytes flg bd sz) bd).2 =
      if ck ≠ hc flg bd sz then some .badHeaderChecksum
      else if ¬ validCode bd then some .badBlockSize else none := by
  unfold Proofs.Header.verdict
  by_cases h1 : ck ≠ hc flg bd sz
  · rw [if_pos ((ck_test flg bd ck sz).2 h1), if_pos h1]
  · rw [if_neg (fun h => h1 ((ck_test flg bd ck sz).1 h)), if_neg h1]
    by_cases h2 : validCode bd
    · have h2' : ¬ ¬ (bd.toNat / 16 % 8 = 4 ∨ bd.toNat / 16 % 8 = 5 ∨ bd.toNat / 16 % 8 = 6 ∨ bd.toNat / 16 % 8 = 7) :=
        fun h => h h2
      rw [if_neg h2', if_neg (fun h => h h2)]
    · have h2' : ¬ (bd.toNat / 16 % 8 = 4 ∨ bd.toNat / 16 % 8 = 5 ∨ bd.toNat / 16 % 8 = 6 ∨ bd.toNat / 16 % 8 = 7) := h2
      rw [if_pos h2', if_pos h2]

theorem parse_snd (flg bd ck : UInt8) (sz : UInt64) (rest : Array UInt8) :
    (parse flg bd ck sz rest).2 =
      if ck ≠ hc flg bd sz then some .badHeaderChecksum
      else if ¬ validCode bd then some .badBlockSize else none := by
  obtain ⟨r0, h, -⟩ := parse_eq flg bd ck sz rest
  rw [h, verdict_snd]

/-! ## the property -/

theorem c19_accept_iff (flg bd ck : UInt8) (sz : UInt64) (rest : Array UInt8) :
    (parse flg bd ck sz rest).2 = none ↔ (ck = hc flg bd sz ∧ validCode bd) := by
  rw [parse_snd]
  by_cases h1 : ck = hc flg bd sz
  · by_cases h2 : validCode bd
    · simp [h1, h2]
    · simp [h1, h2]
  · simp [h1]

theorem c19_bad_checksum (flg bd ck : UInt8) (sz : UInt64) (rest : Array UInt8) (h : ck ≠ hc flg bd sz) :
    (parse flg bd ck sz rest).2 = some .badHeaderChecksum := by
  rw [parse_snd, if_pos h]

theorem c19_bad_block_size (flg bd : UInt8) (sz : UInt64) (rest : Array UInt8) (h : ¬ validCode bd) :
    (parse flg bd (hc flg bd sz) sz rest).2 = some .badBlockSize := by
  rw [parse_snd, if_neg (fun h => h rfl), if_pos h]

/-- the parser consumes exactly the header and the content size is exposed unchanged (and is 0 when the
header carries none); the flags word is `FLG + 256·BD` -/
theorem c19_size (flg bd : UInt8) (sz : UInt64) (rest : Array UInt8) (h : validCode bd) :
    let r := (parse flg bd (hc flg bd sz) sz rest).1
    r.src.pos = (headerBytes flg bd (hc flg bd sz) sz).size ∧
    r.contentSize = (if flg.toNat / 8 % 2 = 1 then sz.toNat else 0) ∧
    r.flags.toNat = flg.toNat + 256 * bd.toNat := by
  obtain ⟨r0, hp, h1, h2, h3, -⟩ := parse_eq flg bd (hc flg bd sz) sz rest
  have hv : Proofs.Header.verdict r0 (hc flg bd sz) (descBytes flg bd sz) bd =
      ({ r0 with cks := XXH.reset r0.cks }, none) := by
    unfold Proofs.Header.verdict
    have h' : ¬ ¬ (bd.toNat / 16 % 8 = 4 ∨ bd.toNat / 16 % 8 = 5 ∨ bd.toNat / 16 % 8 = 6 ∨ bd.toNat / 16 % 8 = 7) :=
      fun hne => hne h
    rw [if_neg (fun hne => (ck_test flg bd _ sz).1 hne rfl), if_neg h']
  simp only []
  rw [hp, hv]
  refine ⟨h1, h3, ?_⟩
  show r0.flags.toNat = _
  rw [h2, Proofs.Header.flagsOf_toNat]

/-- `c19_size` with the content-size clause in the form originally asked for -/
theorem c19_size' (flg bd : UInt8) (sz : UInt64) (rest : Array UInt8) (h : validCode bd) :
    let r := (parse flg bd (hc flg bd sz) sz rest).1
    r.src.pos = (headerBytes flg bd (hc flg bd sz) sz).size ∧
    r.contentSize = (if flg.toNat / 8 % 2 = 1 then sz.toNat else r.contentSize) ∧
    r.flags.toNat = flg.toNat + 256 * bd.toNat := by
  obtain ⟨h1, h2, h3⟩ := c19_size flg bd sz rest h
  refine ⟨h1, ?_, h3⟩
  by_cases hs : flg.toNat / 8 % 2 = 1
  · rw [if_pos hs]; rw [if_pos hs] at h2; exact h2
  · rw [if_neg hs]


/-- at the level of the `Reader` object: after `init` (the first `Read` of a new reader) has parsed a valid
header, `Reader.Size()` is the header's content size — or 0 when the header carries none -/
theorem c19_reader_size (flg bd : UInt8) (sz : UInt64) (rest : Array UInt8) (h : validCode bd) :
    let res := FrameR.init (FrameR.new (srcOf (headerBytes flg bd (hc flg bd sz) sz ++ rest)))
    res.2 = none ∧
    FrameR.size (FrameR.next res.1 none).1 = (if flg.toNat / 8 % 2 = 1 then sz.toNat else 0) := by
  obtain ⟨r0, hp, h1, h2, h3, h4⟩ := parse_eq flg bd (hc flg bd sz) sz rest
  have h' : ¬ ¬ (bd.toNat / 16 % 8 = 4 ∨ bd.toNat / 16 % 8 = 5 ∨ bd.toNat / 16 % 8 = 6 ∨ bd.toNat / 16 % 8 = 7) :=
    fun hne => hne h
  have hv : Proofs.Header.verdict r0 (hc flg bd sz) (descBytes flg bd sz) bd =
      ({ r0 with cks := XXH.reset r0.cks }, none) := by
    unfold Proofs.Header.verdict
    rw [if_neg (fun hne => (ck_test flg bd _ sz).1 hne rfl), if_neg h']
  have hq : FrameR.parseHeaders (FrameR.new (srcOf (headerBytes flg bd (hc flg bd sz) sz ++ rest)))
      ((FrameR.new (srcOf (headerBytes flg bd (hc flg bd sz) sz ++ rest))).src.data.size + 2) =
      ({ r0 with cks := XXH.reset r0.cks }, none) := by
    rw [← hv, ← hp]; rfl
  obtain ⟨e1, e2, e3, e4⟩ := Proofs.Header.init_ok _ _ hq
  refine ⟨e1, ?_⟩
  rw [Proofs.Header.size_next _ (e2.trans h4), e3, e4]
  show (if Gen.flagSize r0.flags = true then r0.contentSize else 0) = _
  rw [h2, h3]
  by_cases hs : flg.toNat / 8 % 2 = 1
  · rw [if_pos ((Proofs.Header.flagSize_flagsOf flg bd).2 hs), if_pos hs]
  · rw [if_neg (fun hh => hs ((Proofs.Header.flagSize_flagsOf flg bd).1 hh)), if_neg hs]

/-- a first word that is neither a frame magic nor one of the sixteen skippable magics is an invalid frame -/
theorem c19_bad_magic (m : Nat) (rest : Array UInt8) (hm : m < 2 ^ 32)
    (h1 : m ≠ Gen.frameMagic) (h2 : m ≠ Gen.frameMagicLegacy) (h3 : ¬ (0x184D2A50 ≤ m ∧ m ≤ 0x184D2A5F)) :
    (FrameR.parseHeaders (FrameR.new (srcOf (FrameW.le32 m ++ rest))) ((FrameW.le32 m ++ rest).size + 2)).2
      = some .badMagic := by
  obtain ⟨m0, m1, m2, m3, hM⟩ := Proofs.Header.le32_lit m
  show (FrameR.parseHeaders (FrameR.new (Proofs.Header.srcOf _)) _).2 = _
  rw [Proofs.Header.parse_badMagic (FrameW.le32 m ++ rest) m ((FrameW.le32 m ++ rest).size + 1) hm
    (by rw [hM]; simp) (by rw [hM]; simp) h1 h2 h3]

/-! ## agreement with the independent specification -/

theorem blockMaxOf_none (c : Nat) (h : ¬ (c = 4 ∨ c = 5 ∨ c = 6 ∨ c = 7)) : Spec.Frame.blockMaxOf c = none := by
  unfold Spec.Frame.blockMaxOf
  split <;> first | rfl | omega

theorem blockMaxOf_some (c : Nat) (h : c = 4 ∨ c = 5 ∨ c = 6 ∨ c = 7) : ∃ bm, Spec.Frame.blockMaxOf c = some bm := by
  rcases h with h | h | h | h <;> subst h <;> exact ⟨_, rfl⟩

/-- the specification's header grammar (lenient), computed on a descriptor without content size -/
theorem spec_nosize (flg bd ck : UInt8) (restL : List UInt8) (hs : ¬ flg.toNat / 8 % 2 = 1) :
    (∃ info r, Spec.Frame.header (flg :: bd :: ck :: restL) false = .ok (info, r)) ↔
      (ck.toNat = (Spec.XXH32.xxh32 [flg, bd]).toNat / 256 % 256 ∧ validCode bd) := by
  unfold Spec.Frame.header validCode
  simp only [hs, if_false]
  by_cases hck : ck.toNat = (Spec.XXH32.xxh32 [flg, bd]).toNat / 256 % 256
  · by_cases hv : (bd.toNat / 16 % 8 = 4 ∨ bd.toNat / 16 % 8 = 5 ∨ bd.toNat / 16 % 8 = 6 ∨ bd.toNat / 16 % 8 = 7)
    · obtain ⟨bm, hbm⟩ := blockMaxOf_some _ hv
      simp [hck, hbm, hv]
    · simp [hck, blockMaxOf_none _ hv, hv]
  · simp [hck]

theorem spec_size (flg bd ck a0 a1 a2 a3 b0 b1 b2 b3 : UInt8) (restL : List UInt8) (hs : flg.toNat / 8 % 2 = 1) :
    (∃ info r, Spec.Frame.header (flg :: bd :: a0 :: a1 :: a2 :: a3 :: b0 :: b1 :: b2 :: b3 :: ck :: restL) false = .ok (info, r)) ↔
      (ck.toNat = (Spec.XXH32.xxh32 [flg, bd, a0, a1, a2, a3, b0, b1, b2, b3]).toNat / 256 % 256 ∧ validCode bd) := by
  unfold Spec.Frame.header validCode
  simp only [hs, if_true, Spec.Frame.u64, Spec.Frame.u32, Option.map]
  by_cases hck : ck.toNat = (Spec.XXH32.xxh32 [flg, bd, a0, a1, a2, a3, b0, b1, b2, b3]).toNat / 256 % 256
  · by_cases hv : (bd.toNat / 16 % 8 = 4 ∨ bd.toNat / 16 % 8 = 5 ∨ bd.toNat / 16 % 8 = 6 ∨ bd.toNat / 16 % 8 = 7)
    · obtain ⟨bm, hbm⟩ := blockMaxOf_some _ hv
      simp [hck, hbm, hv]
    · simp [hck, blockMaxOf_none _ hv, hv]
  · simp [hck]

/-- agreement with the independent specification's header grammar (lenient mode) -/
theorem c19_spec (flg bd ck : UInt8) (sz : UInt64) (rest : Array UInt8) :
    ((parse flg bd ck sz rest).2 = none ↔
      ∃ info r, Spec.Frame.header ((headerBytes flg bd ck sz ++ rest).toList.drop 4) false = .ok (info, r)) := by
  rw [c19_accept_iff]
  obtain ⟨m0, m1, m2, m3, hM⟩ := Proofs.Header.le32_lit Gen.frameMagic
  have hck : ∀ k, k < 256 → (ck = k.toUInt8 ↔ ck.toNat = k) := by
    intro k hk
    have := Proofs.Header.byte_ne_iff ck k hk
    constructor
    · intro h; exact Classical.byContradiction (fun hne => this.1 hne h)
    · intro h; exact Classical.byContradiction (fun hne => this.2 hne h)
  by_cases hs : flg.toNat / 8 % 2 = 1
  · obtain ⟨a0, a1, a2, a3, hA⟩ := Proofs.Header.le32_lit (sz.toNat % 4294967296)
    obtain ⟨b0, b1, b2, b3, hB⟩ := Proofs.Header.le32_lit (sz.toNat / 4294967296)
    have h64 : FrameW.le64 sz.toNat = #[a0, a1, a2, a3, b0, b1, b2, b3] := by
      unfold FrameW.le64; rw [hA, hB]; simp
    have hb : (headerBytes flg bd ck sz ++ rest).toList.drop 4 =
        flg :: bd :: a0 :: a1 :: a2 :: a3 :: b0 :: b1 :: b2 :: b3 :: ck :: rest.toList := by
      unfold headerBytes; rw [if_pos hs, h64, hM]; simp
    have hd : descBytes flg bd sz = [flg, bd, a0, a1, a2, a3, b0, b1, b2, b3] := by
      unfold descBytes; rw [if_pos hs, h64]; rfl
    rw [hb, spec_size _ _ _ _ _ _ _ _ _ _ _ _ hs, ← hd]
    unfold hc
    rw [hck _ (by omega)]
  · have hb : (headerBytes flg bd ck sz ++ rest).toList.drop 4 = flg :: bd :: ck :: rest.toList := by
      unfold headerBytes; rw [if_neg hs, hM]; simp
    have hd : descBytes flg bd sz = [flg, bd] := by
      unfold descBytes; rw [if_neg hs]; rfl
    rw [hb, spec_nosize _ _ _ _ hs, ← hd]
    unfold hc
    rw [hck _ (by omega)]

/-! ## non-vacuity: concrete headers -/

/-- FLG = 0x64 (version 01, independent blocks, content checksum), BD = 0x40 (64 KiB): the checksum byte is 0xA7 -/
example : hc 0x64 0x40 0 = 0xA7 := by decide
example : validCode 0x40 := by decide
example : ¬ validCode 0x30 := by decide

/-- the standard 7-byte header `04 22 4D 18 64 40 A7` is accepted … -/
example : (parse 0x64 0x40 0xA7 0 #[1, 2, 3]).2 = none :=
  (c19_accept_iff 0x64 0x40 0xA7 0 #[1, 2, 3]).2 ⟨by decide, by decide⟩
/-- … one wrong checksum bit is rejected as a bad header checksum … -/
example : (parse 0x64 0x40 0xA6 0 #[1, 2, 3]).2 = some .badHeaderChecksum :=
  c19_bad_checksum 0x64 0x40 0xA6 0 #[1, 2, 3] (by decide)
/-- … and block-size code 3 with its right checksum byte is rejected as a bad block size -/
example : (parse 0x64 0x30 (hc 0x64 0x30 0) 0 #[1, 2, 3]).2 = some .badBlockSize :=
  c19_bad_block_size 0x64 0x30 0 #[1, 2, 3] (by decide)

/-- the same facts obtained by evaluating the model in the kernel, independently of the theorems above -/
example : (parse 0x64 0x40 0xA7 0 #[1, 2, 3]).2 = none := by decide +kernel
example : (parse 0x64 0x40 0xA6 0 #[1, 2, 3]).2 = some .badHeaderChecksum := by decide +kernel
example : (parse 0x64 0x30 (hc 0x64 0x30 0) 0 #[1, 2, 3]).2 = some .badBlockSize := by decide +kernel
/-- a 15-byte header with a content size: consumed exactly, size exposed -/
example : (parse 0x6C 0x70 (hc 0x6C 0x70 1234567890123) 1234567890123 #[9]).2 = none := by decide +kernel
example : (parse 0x6C 0x70 (hc 0x6C 0x70 1234567890123) 1234567890123 #[9]).1.contentSize = 1234567890123 := by
  decide +kernel
example : (parse 0x6C 0x70 (hc 0x6C 0x70 1234567890123) 1234567890123 #[9]).1.src.pos = 15 := by decide +kernel
example : (FrameR.parseHeaders (FrameR.new (srcOf (FrameW.le32 0x12345678 ++ #[0])))
    ((FrameW.le32 0x12345678 ++ #[0]).size + 2)).2 = some .badMagic := by decide +kernel
/-- the specification accepts the standard header too -/
example : ∃ info r, Spec.Frame.header ((headerBytes 0x64 0x40 0xA7 0 ++ #[1, 2, 3]).toList.drop 4) false
    = .ok (info, r) := (c19_spec 0x64 0x40 0xA7 0 #[1, 2, 3]).1 (by decide +kernel)

end Lz4V.Props.C19
