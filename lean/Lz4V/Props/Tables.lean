import Lz4V.Gen.Tables
import Lz4V.Model.Pool
/-!
# The size-class tables of `internal/lz4block/blocks.go`, regenerated, agree with the models

`Gen/Tables.lean` is translated on every run from the `switch` statements of `Index`,
`BlockSizeIndex.IsValid`, `BlockSizeIndex.Get` and `Put` (and the `New` functions of the five pools).
The hand-written definitions the models use (`FrameW.indexOf`, `FrameW.poolSize`, the validity test
`idx = 4 ∨ … ∨ idx = 7` of `FrameW.applyOne` / `FrameR.parseHeaders`, `Pool.classOf`) are proved
equal to those tables for every argument.  A change of a case, of a returned index, of a pool's size
or of what `Put` files by breaks these theorems at build time.
-/
namespace Lz4V.Props.Tables
open Lz4V.Gen Lz4V.Model

theorem beq_false_of_ne {a b : Nat} (h : ¬ a = b) : (a == b) = false := by simpa using h

theorem indexOf_gen (b : Nat) : FrameW.indexOf b = (indexTable.lookup b).getD indexDefault := by
  by_cases h1 : b = Block64Kb
  · subst h1; rfl
  by_cases h2 : b = Block256Kb
  · subst h2; rfl
  by_cases h3 : b = Block1Mb
  · subst h3; rfl
  by_cases h4 : b = Block4Mb
  · subst h4; rfl
  by_cases h5 : b = Block8Mb
  · subst h5; rfl
  have e : FrameW.indexOf b = 0 := by
    unfold FrameW.indexOf
    rw [if_neg h1, if_neg h2, if_neg h3, if_neg h4, if_neg h5]
  rw [e]
  have g1 : ¬ b = 65536 := h1
  have g2 : ¬ b = 262144 := h2
  have g3 : ¬ b = 1048576 := h3
  have g4 : ¬ b = 4194304 := h4
  have g5 : ¬ b = 8388608 := h5
  simp only [indexTable, indexDefault, List.lookup, beq_false_of_ne g1, beq_false_of_ne g2, beq_false_of_ne g3,
    beq_false_of_ne g4, beq_false_of_ne g5, Option.getD]

theorem poolSize_gen (idx : Nat) : FrameW.poolSize idx = (getSizes.lookup idx).getD 0 := by
  by_cases h1 : idx = 4
  · subst h1; rfl
  by_cases h2 : idx = 5
  · subst h2; rfl
  by_cases h3 : idx = 6
  · subst h3; rfl
  by_cases h4 : idx = 7
  · subst h4; rfl
  by_cases h5 : idx = 3
  · subst h5; rfl
  have e1 : FrameW.poolSize idx = 0 := by
    unfold FrameW.poolSize
    split <;> first | rfl | contradiction
  rw [e1]
  simp only [getSizes, List.lookup, beq_false_of_ne h1, beq_false_of_ne h2, beq_false_of_ne h3, beq_false_of_ne h4,
    beq_false_of_ne h5, Option.getD]

/-- the validity test of the models is `BlockSizeIndex.IsValid` -/
theorem valid_gen (i : Nat) : (i = 4 ∨ i = 5 ∨ i = 6 ∨ i = 7) ↔ i ∈ validIndexes := by
  simp [validIndexes]

/-- `Put` files a buffer of capacity `c` into the pool whose buffers have size `c` … -/
theorem put_own_class : ∀ p ∈ putClasses, p.1 = p.2 := by
  decide

/-- … exactly for the capacities `Pool.classOf` knows, and into the class `Get` serves with that size -/
theorem classOf_cases (c : Nat) :
    (c = Block64Kb ∧ Pool.classOf c = some 4) ∨ (c = Block256Kb ∧ Pool.classOf c = some 5) ∨
    (c = Block1Mb ∧ Pool.classOf c = some 6) ∨ (c = Block4Mb ∧ Pool.classOf c = some 7) ∨
    (c = Block8Mb ∧ Pool.classOf c = some 3) ∨
    ((¬ c = 65536 ∧ ¬ c = 262144 ∧ ¬ c = 1048576 ∧ ¬ c = 4194304 ∧ ¬ c = 8388608) ∧ Pool.classOf c = none) := by
  by_cases h1 : c = Block64Kb
  · subst h1; exact Or.inl ⟨rfl, rfl⟩
  by_cases h2 : c = Block256Kb
  · subst h2; exact Or.inr (Or.inl ⟨rfl, rfl⟩)
  by_cases h3 : c = Block1Mb
  · subst h3; exact Or.inr (Or.inr (Or.inl ⟨rfl, rfl⟩))
  by_cases h4 : c = Block4Mb
  · subst h4; exact Or.inr (Or.inr (Or.inr (Or.inl ⟨rfl, rfl⟩)))
  by_cases h5 : c = Block8Mb
  · subst h5; exact Or.inr (Or.inr (Or.inr (Or.inr (Or.inl ⟨rfl, rfl⟩))))
  refine Or.inr (Or.inr (Or.inr (Or.inr (Or.inr ⟨⟨h1, h2, h3, h4, h5⟩, ?_⟩))))
  unfold Pool.classOf
  rw [if_neg h1, if_neg h2, if_neg h3, if_neg h4, if_neg h5]

theorem classOf_gen (c : Nat) : (Pool.classOf c).isSome ↔ c ∈ putClasses.map (·.1) := by
  rcases classOf_cases c with ⟨h, e⟩ | ⟨h, e⟩ | ⟨h, e⟩ | ⟨h, e⟩ | ⟨h, e⟩ | ⟨⟨g1, g2, g3, g4, g5⟩, e⟩
  all_goals rw [e]
  · subst h; decide
  · subst h; decide
  · subst h; decide
  · subst h; decide
  · subst h; decide
  · simp [putClasses, g1, g2, g3, g4, g5]

theorem classOf_get (c i : Nat) (h : Pool.classOf c = some i) : getSizes.lookup i = some c := by
  rcases classOf_cases c with ⟨hc, e⟩ | ⟨hc, e⟩ | ⟨hc, e⟩ | ⟨hc, e⟩ | ⟨hc, e⟩ | ⟨_, e⟩
  all_goals rw [e] at h
  all_goals first | (cases h; subst hc; rfl) | cases h

end Lz4V.Props.Tables
