import Lz4V.Proofs.FrameRFrag
import Lz4V.Proofs.FrameRReadTrunc
import Lz4V.Props.C05
import Lz4V.Props.C06
/-!
# C15 (Reader half) — read fragmentation is irrelevant to the frame Reader; a failure of the source is reported

The frame Reader reads its source only through `io.ReadFull` and `io.CopyN(ioutil.Discard, …)`.  Over a source that
does not fail both return the same bytes / result / consumption whatever the size of the pieces the source hands
out and whether the last bytes come together with `io.EOF` (`C15.readFull_spec`, `Proofs.Frag.discardN_char`), so
the whole session is the same (`frag_writeTo`, `frag_read`).  Over a source that fails from its `k`-th `Read` call
on, the session is the fault-free one until that call is made; the call returns the injected error, which every
layer passes on unchanged (`unexpected` only rewrites `io.EOF`), and nothing more is delivered
(`source_failure_writeTo`, `source_failure_read`).
-/
namespace Lz4V.Props.C15r
open Lz4V Lz4V.Go Lz4V.Model
open Lz4V.Proofs.Frag

/-- run WriteTo on a fresh Reader over an arbitrary scripted source -/
def readAllSrc (s : Source) (num : Nat) : Array UInt8 × Option Err × Nat :=
  let r : FrameR.R := { FrameR.new s with num := num }
  let (r, sink, _, e) := FrameR.writeTo r {}
  (sink.bytes, e, r.src.pos)

/-- run Read with the given buffer sizes (as `Run.readWith`) over an arbitrary source -/
def readWithSrc (s : Source) (sizes : List Nat) (num : Nat) : Array UInt8 × Option Err × Nat :=
  let r : FrameR.R := { FrameR.new s with num := num }
  Run.readWith.go r #[] sizes

/-- the runners of `Model.Run` are these over the whole-read source -/
theorem readAll_eq (bytes : Array UInt8) (num : Nat) : Run.readAll bytes num = readAllSrc { data := bytes } num := rfl
theorem readWith_eq (bytes : Array UInt8) (sizes : List Nat) (num : Nat) :
    Run.readWith bytes sizes num = readWithSrc { data := bytes } sizes num := rfl

theorem pfx (a X : Array UInt8) : a = (a ++ X).extract 0 a.size := by simp

/-- a fresh Reader with concurrency `num` (its source is replaced below) -/
def rN (num : Nat) : FrameR.R := { src := { data := #[] }, num := num }

theorem newR (s : Source) (num : Nat) :
    ({ FrameR.new s with num := num } : FrameR.R) = { rN num with src := s } := rfl

theorem readAllSrc_eq (s : Source) (num : Nat) : readAllSrc s num =
    ((FrameR.writeTo { rN num with src := s } {}).2.1.bytes, (FrameR.writeTo { rN num with src := s } {}).2.2.2,
      (FrameR.writeTo { rN num with src := s } {}).1.src.pos) := by
  unfold readAllSrc
  simp only [newR]

theorem readWithSrc_eq (s : Source) (sizes : List Nat) (num : Nat) : readWithSrc s sizes num =
    Run.readWith.go { rN num with src := s } #[] sizes := rfl

/-- the WriteTo sessions over two sources with the same data at the same position, the second of which never fails:
the same, or the first one returned the injected error having written a prefix -/
theorem readAllSrc_rel (k : Option Nat) (s s' : Source) (num : Nat) (h : RelS k s s') :
    readAllSrc s num = readAllSrc s' num ∨
    (k ≠ none ∧ (readAllSrc s num).2.1 = some .injected ∧
      (readAllSrc s num).1 = (readAllSrc s' num).1.extract 0 (readAllSrc s num).1.size) := by
  rw [readAllSrc_eq, readAllSrc_eq]
  have hst : (rN num).st = Gen.stNew := rfl
  rcases writeTo_rel k {} (rN num) s s' hst h with ⟨h1, hr⟩ | ⟨hk, hinj, X, hX⟩
  · left
    rw [h1, hr.1.2.1]
  · right
    refine ⟨hk, hinj, ?_⟩
    simp only []
    rw [hX]
    exact pfx _ _

theorem readWithSrc_rel (k : Option Nat) (s s' : Source) (sizes : List Nat) (num : Nat) (h : RelS k s s') :
    readWithSrc s sizes num = readWithSrc s' sizes num ∨
    (k ≠ none ∧ (readWithSrc s sizes num).2.1 = some .injected ∧
      (readWithSrc s sizes num).1 = (readWithSrc s' sizes num).1.extract 0 (readWithSrc s sizes num).1.size) := by
  rw [readWithSrc_eq, readWithSrc_eq]
  rcases go_rel k sizes (rN num) s s' #[] h with h1 | ⟨hk, hinj, X, hX⟩
  · left; exact h1
  · right
    refine ⟨hk, hinj, ?_⟩
    rw [hX]
    exact pfx _ _

/-- FRAGMENTATION IS IRRELEVANT: for every byte string (valid frame or not) the delivered bytes, the result and
the consumption are the same for every non-failing fragmentation of the source, incl. 1-byte reads and data
returned together with io.EOF -/
theorem frag_writeTo (bytes : Array UInt8) (c : Nat) (ewd : Bool) (num : Nat) :
    readAllSrc { data := bytes, chunk := c, eofWithData := ewd } num = Run.readAll bytes num := by
  rw [readAll_eq]
  rcases readAllSrc_rel none { data := bytes, chunk := c, eofWithData := ewd } { data := bytes } num
    ⟨rfl, rfl, rfl, rfl⟩ with h | ⟨hk, -⟩
  · exact h
  · exact absurd rfl hk

theorem frag_read (bytes : Array UInt8) (c : Nat) (ewd : Bool) (sizes : List Nat) (num : Nat) :
    readWithSrc { data := bytes, chunk := c, eofWithData := ewd } sizes num = Run.readWith bytes sizes num := by
  rw [readWith_eq]
  rcases readWithSrc_rel none { data := bytes, chunk := c, eofWithData := ewd } { data := bytes } sizes num
    ⟨rfl, rfl, rfl, rfl⟩ with h | ⟨hk, -⟩
  · exact h
  · exact absurd rfl hk

/-- … in particular any two fragmentations give the same session -/
theorem frag_any (bytes : Array UInt8) (c₁ c₂ : Nat) (e₁ e₂ : Bool) (sizes : List Nat) (num : Nat) :
    readAllSrc { data := bytes, chunk := c₁, eofWithData := e₁ } num =
      readAllSrc { data := bytes, chunk := c₂, eofWithData := e₂ } num ∧
    readWithSrc { data := bytes, chunk := c₁, eofWithData := e₁ } sizes num =
      readWithSrc { data := bytes, chunk := c₂, eofWithData := e₂ } sizes num := by
  rw [frag_writeTo, frag_writeTo, frag_read, frag_read]
  exact ⟨rfl, rfl⟩

/-- SOURCE FAILURE: if the k-th call on the source fails, then either the failure point is never reached (the run
is the fault-free one) or the Reader returns the injected error — never nil / io.EOF — and what it delivered is a
prefix of what the fault-free run delivers -/
theorem source_failure_writeTo (bytes : Array UInt8) (c : Nat) (k : Nat) (num : Nat) :
    let res := readAllSrc { data := bytes, chunk := c, failAt := some k } num
    let ok := Run.readAll bytes num
    res = ok ∨ (res.2.1 = some .injected ∧ res.1 = ok.1.extract 0 res.1.size) := by
  intro res ok
  rcases readAllSrc_rel (some k) { data := bytes, chunk := c, failAt := some k } { data := bytes } num
    ⟨rfl, rfl, rfl, rfl⟩ with h | ⟨-, h1, h2⟩
  · exact Or.inl h
  · exact Or.inr ⟨h1, h2⟩

theorem source_failure_read (bytes : Array UInt8) (c : Nat) (k : Nat) (sizes : List Nat) (num : Nat) :
    let res := readWithSrc { data := bytes, chunk := c, failAt := some k } sizes num
    let ok := Run.readWith bytes sizes num
    res = ok ∨ (res.2.1 = some .injected ∧ res.1 = ok.1.extract 0 res.1.size) := by
  intro res ok
  rcases readWithSrc_rel (some k) { data := bytes, chunk := c, failAt := some k } { data := bytes } sizes num
    ⟨rfl, rfl, rfl, rfl⟩ with h | ⟨-, h1, h2⟩
  · exact Or.inl h
  · exact Or.inr ⟨h1, h2⟩

/-- the same with `eofWithData` and any starting state of the call counter -/
theorem source_failure_general (bytes : Array UInt8) (c k calls : Nat) (ewd : Bool) (sizes : List Nat) (num : Nat) :
    let s : Source := { data := bytes, chunk := c, calls := calls, failAt := some k, eofWithData := ewd }
    (readAllSrc s num = Run.readAll bytes num ∨
      ((readAllSrc s num).2.1 = some .injected ∧
        (readAllSrc s num).1 = (Run.readAll bytes num).1.extract 0 (readAllSrc s num).1.size)) ∧
    (readWithSrc s sizes num = Run.readWith bytes sizes num ∨
      ((readWithSrc s sizes num).2.1 = some .injected ∧
        (readWithSrc s sizes num).1 = (Run.readWith bytes sizes num).1.extract 0 (readWithSrc s sizes num).1.size)) := by
  intro s
  constructor
  · rcases readAllSrc_rel (some k) s { data := bytes } num ⟨rfl, rfl, rfl, rfl⟩ with h | ⟨-, h1, h2⟩
    · exact Or.inl h
    · exact Or.inr ⟨h1, h2⟩
  · rcases readWithSrc_rel (some k) s { data := bytes } sizes num ⟨rfl, rfl, rfl, rfl⟩ with h | ⟨-, h1, h2⟩
    · exact Or.inl h
    · exact Or.inr ⟨h1, h2⟩

/-- C06 for Read sessions: every proper prefix of a spec-valid frame read through Read calls never ends in io.EOF,
and delivers a prefix of the content -/
theorem c06_truncated_read (F : Array UInt8) (info : Spec.Frame.Info) (content : Array UInt8)
    (hF : Spec.Frame.decode F.toList false = .ok ⟨info, content, F.size⟩)
    (hmagic : FrameR.u32 F = Gen.frameMagic) (k : Nat) (hk0 : 0 < k) (hk : k < F.size)
    (sizes : List Nat) (num : Nat) :
    let res := Run.readWith (F.extract 0 k) sizes num
    res.2.1 ≠ some .eof ∧ res.1 = content.extract 0 res.1.size :=
  Proofs.FrameR.truncated_read_core F info content hF hmagic k hk0 hk sizes num

/-- C06 under any fragmentation of the source, for both ways of reading: the truncated frame is never presented
as complete (WriteTo: an error other than io.EOF; Read: never io.EOF) and a prefix of the content is delivered -/
theorem c06_truncated_frag (F : Array UInt8) (info : Spec.Frame.Info) (content : Array UInt8)
    (hF : Spec.Frame.decode F.toList false = .ok ⟨info, content, F.size⟩)
    (hmagic : FrameR.u32 F = Gen.frameMagic) (k : Nat) (hk0 : 0 < k) (hk : k < F.size)
    (c : Nat) (ewd : Bool) (sizes : List Nat) (num : Nat) :
    let s : Source := { data := F.extract 0 k, chunk := c, eofWithData := ewd }
    ((readAllSrc s num).2.1 ≠ none ∧ (readAllSrc s num).2.1 ≠ some .eof ∧
      (readAllSrc s num).1 = content.extract 0 (readAllSrc s num).1.size) ∧
    ((readWithSrc s sizes num).2.1 ≠ some .eof ∧
      (readWithSrc s sizes num).1 = content.extract 0 (readWithSrc s sizes num).1.size) := by
  intro s
  rw [frag_writeTo, frag_read]
  exact ⟨C06.c06_truncated F info content hF hmagic k hk0 hk num,
    c06_truncated_read F info content hF hmagic k hk0 hk sizes num⟩

/-! ## non-vacuity -/

open Lz4V.Props.C05

/-- one-byte reads, the last byte together with io.EOF: the 30-byte frame `exDep` decodes as from a whole read -/
example : readAllSrc { data := exDep, chunk := 1, eofWithData := true } 1 =
    (#[97, 98, 99, 98, 99, 98, 99, 98, 99, 98, 99], none, 30) := by decide +kernel
example : readAllSrc { data := exDep, chunk := 1, eofWithData := true } 1 = Run.readAll exDep 1 :=
  frag_writeTo _ _ _ _
/-- a skippable frame first (`io.CopyN`), 3-byte reads; the two trailing bytes are not consumed -/
example : readAllSrc { data := exSkip, chunk := 3, eofWithData := true } 1 = (#[97, 98, 99], none, 28) := by
  decide +kernel
/-- a Read session with buffers of 2, 0, 100 and 1 bytes over one-byte source reads -/
example : readWithSrc { data := exRaw, chunk := 1, eofWithData := true } [2, 0, 100, 1] 4 =
    (#[97, 98, 99], some .eof, 18) := by decide +kernel
example : readWithSrc { data := exDep, chunk := 1, eofWithData := true } [4, 0, 100, 1] 1 =
    Run.readWith exDep [4, 0, 100, 1] 1 := frag_read _ _ _ _ _

/-- the source (3-byte reads) fails at its 7th call, inside the second block: "abc" was delivered, the result is
the injected error -/
example : readAllSrc { data := exDep, chunk := 3, failAt := some 6 } 1 = (#[97, 98, 99], some .injected, 14) := by
  decide +kernel
example : readWithSrc { data := exDep, chunk := 3, failAt := some 6 } [4, 100, 1] 1 =
    (#[97, 98, 99], some .injected, 14) := by decide +kernel
/-- the failure hits the last read (the end mark): everything was delivered, still the injected error -/
example : readAllSrc { data := exRaw, chunk := 3, failAt := some 7 } 4 = (#[97, 98, 99], some .injected, 17) := by
  decide +kernel
/-- the failure hits `io.CopyN` over the skippable frame -/
example : readAllSrc { data := exSkip, chunk := 2, failAt := some 5 } 1 = (#[], some .injected, 10) := by
  decide +kernel
/-- the failure point is never reached (the session makes 8 calls): the fault-free run -/
example : readAllSrc { data := exRaw, chunk := 3, failAt := some 8 } 4 = Run.readAll exRaw 4 := by
  rw [exRaw_run]; decide +kernel
/-- both disjuncts of `source_failure_writeTo` occur -/
example : readAllSrc { data := exDep, chunk := 3, failAt := some 6 } 1 ≠ Run.readAll exDep 1 := by
  rw [exDep_run]; decide +kernel

/-- the frame cut inside its second block, read with 2-byte buffers -/
example : Run.readWith (exDep.extract 0 20) [2, 2, 2] 1 = (#[97, 98, 99], some .unexpectedEOF, 20) := by
  decide +kernel
/-- `c06_truncated_read` instantiated at every cut of the 30-byte frame -/
example (k : Nat) (hk0 : 0 < k) (hk : k < 30) (sizes : List Nat) (num : Nat) :
    (Run.readWith (exDep.extract 0 k) sizes num).2.1 ≠ some .eof := by
  obtain ⟨info, h⟩ := C06.exDep_valid
  exact (c06_truncated_read exDep info _ h (by decide) k hk0 hk sizes num).1

end Lz4V.Props.C15r

#print axioms Lz4V.Props.C15r.frag_writeTo
#print axioms Lz4V.Props.C15r.frag_read
#print axioms Lz4V.Props.C15r.frag_any
#print axioms Lz4V.Props.C15r.source_failure_writeTo
#print axioms Lz4V.Props.C15r.source_failure_read
#print axioms Lz4V.Props.C15r.source_failure_general
#print axioms Lz4V.Props.C15r.c06_truncated_read
#print axioms Lz4V.Props.C15r.c06_truncated_frag
#print axioms Lz4V.Props.C15r.readAllSrc_rel
#print axioms Lz4V.Props.C15r.readWithSrc_rel
#print axioms Lz4V.Proofs.Frag.discardN_char
