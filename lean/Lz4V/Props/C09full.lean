import Lz4V.Props.C09
import Lz4V.Props.C01hc
/-!
# C09 with the HC hypothesis discharged

`Lz4V.Props.C09.c09_writer` takes the correctness of the HC block compressor as an explicit
hypothesis (`HCCorrect`); `Lz4V.Props.C01hc.c11_hc` proves it.
-/
namespace Lz4V.Props.C09
open Lz4V Lz4V.Model Lz4V.Model.FrameW

/-- the HC block compressor is correct at every search depth (from `C01hc.c11_hc`) -/
theorem hcCorrect : HCCorrect := by
  intro src dst depth
  have h := Lz4V.Props.C01hc.c11_hc src dst depth
  cases hr : HC.compressBlock src dst depth with
  | ok n d =>
    rw [hr] at h
    exact ⟨h.1, h.2.1, h.2.2.2.1⟩
  | zero => trivial
  | err => trivial
  | panic => trivial

/-- C09 / C02 (write side), non-legacy frames, every compression level, every concurrency setting,
every option list `Apply` accepts: a clean session emits one frame that the strict specification
decodes to the concatenation of the chunks, with the configured parameters. -/
theorem c09_writer_all (opts : List Opt) (chunks : List (Array UInt8))
    (hclean : (Run.writeSession opts chunks).2 = none)
    (hnl : (cfgOf opts).legacy = false)
    (hsz : (cfgOf opts).contentSize < 2 ^ 64)
    (hlen : (Run.concat chunks).size < 2 ^ 64) :
    ∃ info, Spec.Frame.decode (Run.writtenBytes opts chunks).toList true =
        .ok ⟨info, Run.concat chunks, (Run.writtenBytes opts chunks).size⟩ ∧
      info.version = 1 ∧ info.blockIndep = true ∧
      info.blockChecksum = Gen.flagBlockChecksum (cfgOf opts).flags ∧
      info.contentChecksum = Gen.flagContentChecksum (cfgOf opts).flags ∧
      info.contentSize = (if Gen.flagSize (cfgOf opts).flags then some (cfgOf opts).contentSize else none) ∧
      info.blockMax = poolSize (blockSizeIndex (cfgOf opts).flags) :=
  c09_writer opts chunks hcCorrect hclean hnl hsz hlen

/-- a session on the all-accepting sink is clean as soon as `Apply` accepts the options -/
theorem c09_clean_all (opts : List Opt) (chunks : List (Array UInt8))
    (hap : (apply (new none) opts).2 = none) (hnl : (cfgOf opts).legacy = false) :
    (Run.writeSession opts chunks).2 = none :=
  c09_clean opts chunks hcCorrect hap hnl

/-- non-vacuity: an HC session (level 1, announced size, no content checksum, three chunks) -/
example : ∃ info, Spec.Frame.decode
      (Run.writtenBytes [.level 512, .size 5, .checksum false] [#[7, 7], #[], #[7, 7, 7]]).toList true =
        .ok ⟨info, #[7, 7, 7, 7, 7], 28⟩ := by
  obtain ⟨info, h, _⟩ :=
    c09_writer_all [.level 512, .size 5, .checksum false] [#[7, 7], #[], #[7, 7, 7]]
      (by decide +kernel) (by decide +kernel) (by decide +kernel) (by decide +kernel)
  rw [show Run.concat [#[7, 7], #[], #[7, 7, 7]] = #[7, 7, 7, 7, 7] by decide +kernel,
    show (Run.writtenBytes [.level 512, .size 5, .checksum false] [#[7, 7], #[], #[7, 7, 7]]).size = 28
      by decide +kernel] at h
  exact ⟨info, h⟩

end Lz4V.Props.C09

#print axioms Lz4V.Props.C09.hcCorrect
#print axioms Lz4V.Props.C09.c09_writer_all
#print axioms Lz4V.Props.C09.c09_clean_all
