import Lz4V.Proofs.FrameR3
import Lz4V.Props.C05
import Lz4V.Props.C06
/-!
# C16 — completeness of the frame Reader (dependent blocks included)

Every byte string the lenient frame specification decodes is decoded by the Reader model to exactly
the specified content, followed by a clean end — whatever the block sizes, the number of blocks, the
match distances across blocks (up to 65535 bytes back: the Reader's 64 KiB window is a long enough
suffix of the content, `Proofs.FrameR.decode_prefix` / `dict_update`), stored blocks, blocks that
decode to nothing, checksums, leading skippable frames, trailing bytes and the configured concurrency.

Proof (`Proofs/FrameR3.lean`): the facts `Spec.Frame.decode` established about the bytes force the
Reader along its success path (`parseHeaders_noerr`, `readBlock_complete`, `closeR_ok`), so no call can
fail (`readAll_noerr`, `go_noerr`); the soundness lemmas of C05 (`readAll_cases`, `readWith_eof`) then
describe the clean end, and `end_unique` identifies it with the specification's result.

Remark on the format: a *compressed* block of stored size 0 cannot occur (the size word 0 is the end
mark; `0x80000000` is a stored block of 0 bytes, accepted by both sides); blocks that decode to 0 bytes
do occur (payload `00`) and are covered (`exZero` below).
-/
namespace Lz4V.Props.C16
open Lz4V Lz4V.Go Lz4V.Model Lz4V.Proofs.FrameR

/-- COMPLETENESS / C16: every byte string the (lenient) specification decodes — in particular every
frame with dependent blocks, matches reaching up to 65535 bytes back across any number of blocks of any
sizes, raw blocks included — is decoded by the Reader to exactly the specified content, followed by a
clean end, whatever the configured concurrency; through WriteTo … -/
theorem c16_writeTo (F : Array UInt8) (info : Spec.Frame.Info) (content : Array UInt8) (c : Nat) (num : Nat)
    (hF : Spec.Frame.decode F.toList false = .ok ⟨info, content, c⟩)
    (hsz : content.size < 2 ^ 64) :
    Run.readAll F num = (content, none, c) :=
  readAll_complete F info content c num hF hsz

/-- … and through Read with any sequence of buffer sizes that is long enough to reach the end:
the bytes delivered up to and including the call that returns io.EOF are exactly the content.
(`Run.readWith` stops with `none` when `sizes` runs out before the end: then what was delivered is a
prefix of the content. No other error is possible.) -/
theorem c16_read (F : Array UInt8) (info : Spec.Frame.Info) (content : Array UInt8) (c : Nat) (num : Nat)
    (sizes : List Nat) (out : Array UInt8) (e : Option Err) (c' : Nat)
    (hF : Spec.Frame.decode F.toList false = .ok ⟨info, content, c⟩)
    (hsz : content.size < 2 ^ 64)
    (hrun : Run.readWith F sizes num = (out, e, c')) :
    (e = some .eof → out = content ∧ c' = c) ∧ (e = none → out = content.extract 0 out.size) ∧
    (e = some .eof ∨ e = none) :=
  readWith_complete F info content c num sizes out e c' hF hsz hrun

/-- corollary: a valid frame is never rejected, whatever the Read sizes -/
theorem c16_read_no_error (F : Array UInt8) (info : Spec.Frame.Info) (content : Array UInt8) (c : Nat) (num : Nat)
    (sizes : List Nat)
    (hF : Spec.Frame.decode F.toList false = .ok ⟨info, content, c⟩)
    (hsz : content.size < 2 ^ 64) :
    (Run.readWith F sizes num).2.1 = some .eof ∨ (Run.readWith F sizes num).2.1 = none :=
  (c16_read F info content c num sizes _ _ _ hF hsz rfl).2.2

/-! ## non-vacuity

The specification is evaluated by the kernel on concrete frames (through `okTriple`, because
`Spec.Frame.Result` has no decidable equality), then the theorems are instantiated. -/

def okTriple : Except Spec.Frame.Err Spec.Frame.Result → Option (Spec.Frame.Info × Array UInt8 × Nat)
  | .ok r => some (r.info, r.content, r.consumed)
  | .error _ => none

theorem eq_ok_of_okTriple {x : Except Spec.Frame.Err Spec.Frame.Result} {i : Spec.Frame.Info} {ct : Array UInt8}
    {n : Nat} (h : okTriple x = some (i, ct, n)) : x = .ok ⟨i, ct, n⟩ := by
  cases x with
  | ok w =>
    simp only [okTriple, Option.some.injEq, Prod.mk.injEq] at h
    obtain ⟨rfl, rfl, rfl⟩ := h
    rfl
  | error e => simp [okTriple] at h

open Lz4V.Props.C05

def infoDep : Spec.Frame.Info :=
  { version := 1, blockIndep := false, blockChecksum := false, contentChecksum := true, contentSize := none,
    blockMax := 65536 }

def infoRaw : Spec.Frame.Info :=
  { version := 1, blockIndep := true, blockChecksum := false, contentChecksum := false, contentSize := none,
    blockMax := 65536 }

/-- `C05.exDep`: dependent blocks (the second block's match reaches into the first), content checksum -/
theorem exDep_spec : Spec.Frame.decode exDep.toList false =
    .ok ⟨infoDep, #[97, 98, 99, 98, 99, 98, 99, 98, 99, 98, 99], 30⟩ :=
  eq_ok_of_okTriple (by decide +kernel)

/-- the Reader decodes it, at every concurrency setting … -/
example (num : Nat) : Run.readAll exDep num = (#[97, 98, 99, 98, 99, 98, 99, 98, 99, 98, 99], none, 30) :=
  c16_writeTo exDep _ _ 30 num exDep_spec (by decide)

/-- … which agrees with the direct evaluation of the model (`C05.exDep_run`) -/
example : Run.readAll exDep 1 = (#[97, 98, 99, 98, 99, 98, 99, 98, 99, 98, 99], none, 30) := exDep_run

/-- `Read` with buffers of 4, 1 and 100 bytes (`C05.exDep_read` evaluates the model): the theorem's
conclusion about a session that reached `io.EOF` -/
example : (#[97, 98, 99, 98, 99, 98, 99, 98, 99, 98, 99] : Array UInt8) =
    #[97, 98, 99, 98, 99, 98, 99, 98, 99, 98, 99] ∧ 30 = 30 :=
  (c16_read exDep _ _ 30 1 [4, 1, 100] _ _ _ exDep_spec (by decide) exDep_read).1 rfl

/-- a session whose buffers run out before the end (`[4, 1]`: 5 of 11 bytes): a prefix, no error -/
theorem exDep_short : Run.readWith exDep [4, 1] 1 = (#[97, 98, 99, 98, 99], none, 22) := by decide +kernel

example : (#[97, 98, 99, 98, 99] : Array UInt8) =
    (#[97, 98, 99, 98, 99, 98, 99, 98, 99, 98, 99] : Array UInt8).extract 0 (#[97, 98, 99, 98, 99] : Array UInt8).size :=
  (c16_read exDep _ _ 30 1 [4, 1] _ _ _ exDep_spec (by decide) exDep_short).2.1 rfl

/-- whatever the buffer sizes and the concurrency: never an error on this frame -/
example (sizes : List Nat) (num : Nat) :
    (Run.readWith exDep sizes num).2.1 = some .eof ∨ (Run.readWith exDep sizes num).2.1 = none :=
  c16_read_no_error exDep _ _ 30 num sizes exDep_spec (by decide)

/-- `C05.exSkip`: a skippable frame first, two trailing bytes that are not consumed (`c = 28 < 30`) -/
theorem exSkip_spec : Spec.Frame.decode exSkip.toList false = .ok ⟨infoRaw, #[0x61, 0x62, 0x63], 28⟩ :=
  eq_ok_of_okTriple (by decide +kernel)

example (num : Nat) : Run.readAll exSkip num = (#[0x61, 0x62, 0x63], none, 28) :=
  c16_writeTo exSkip _ _ 28 num exSkip_spec (by decide)

/-- a compressed block that decodes to nothing (payload `00`: token 0, no literals, end of block),
then a stored block `abc`, end mark -/
def exZero : Array UInt8 :=
  #[0x04, 0x22, 0x4D, 0x18, 0x60, 0x40, 0x82, 1, 0, 0, 0, 0x00, 3, 0, 0, 0x80, 0x61, 0x62, 0x63, 0, 0, 0, 0]

theorem exZero_spec : Spec.Frame.decode exZero.toList false = .ok ⟨infoRaw, #[0x61, 0x62, 0x63], 23⟩ :=
  eq_ok_of_okTriple (by decide +kernel)

example (num : Nat) : Run.readAll exZero num = (#[0x61, 0x62, 0x63], none, 23) :=
  c16_writeTo exZero _ _ 23 num exZero_spec (by decide)

/-- independent evaluation of the model on the same frame, through `Read` (a 70000-byte buffer: blocks are
decoded directly into it; the empty block delivers nothing and the loop goes on) -/
example : Run.readWith exZero [70000, 1] 1 = (#[0x61, 0x62, 0x63], some .eof, 23) := by decide +kernel

/-- a stored block of 0 bytes (size word `0x80000000`) is a block, not an end mark, on both sides -/
def exRaw0 : Array UInt8 :=
  #[0x04, 0x22, 0x4D, 0x18, 0x60, 0x40, 0x82, 0, 0, 0, 0x80, 3, 0, 0, 0x80, 0x61, 0x62, 0x63, 0, 0, 0, 0]

theorem exRaw0_spec : Spec.Frame.decode exRaw0.toList false = .ok ⟨infoRaw, #[0x61, 0x62, 0x63], 22⟩ :=
  eq_ok_of_okTriple (by decide +kernel)

example (num : Nat) : Run.readAll exRaw0 num = (#[0x61, 0x62, 0x63], none, 22) :=
  c16_writeTo exRaw0 _ _ 22 num exRaw0_spec (by decide)

end Lz4V.Props.C16

#print axioms Lz4V.Props.C16.c16_writeTo
#print axioms Lz4V.Props.C16.c16_read
#print axioms Lz4V.Props.C16.c16_read_no_error
