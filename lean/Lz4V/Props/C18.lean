import Lz4V.Proofs.CReaderWriter
/-!
# C18 — the compressing reader (`CompressingReader`, compressing_reader.go)

Reading from the compressing reader with ANY sequence of buffer sizes yields, concatenated, one
well-formed frame — byte for byte the frame the Writer model emits for the same options and content —
that the strict frame specification decodes to exactly the source's bytes with the configured
parameters, followed by `io.EOF`; each call returns at most `want` bytes and makes progress when
`want > 0`; an error ends the session with no bytes returned.

Definitions (`Proofs/CReader*.lean`): `session`, `output`, `srcOf`, `frameOf`.
`frameOf cfg data` = header (`hdrArr cfg`: magic, FLG, BD, optional content size, HC) ++ one
`FrameW.writeBlock` per `poolSize`-sized slice of `data` (the last one possibly short, none for empty
`data`) ++ end mark (++ content checksum); `frameOf_eq_writer` shows it is `Run.writtenBytes opts [data]`.

All statements hold for the model as given; nothing had to be weakened.  Remarks:
* `read_progress` does not need `c.st ≠ .done` (a done reader returns an error, which is progress in
  the sense of the statement); the hypothesis is kept as given.
* `frame_eq_writer` does not need `happly` (if `Apply` fails the options before the failing one stay
  applied and the reader still works); kept as given.
* a call with `want = 0` returns `(0, nil)` in every state, even on a done reader (`read_zero`): the
  `out.reset(p)` path "the overflow fills the buffer" is taken; that is why progress and `reaches_eof`
  ask for positive sizes (allowed by the `io.Reader` contract for `len(p) == 0`).
* a call may return fewer than `want` bytes without error although more of the frame is still to come
  (578 of 1000 in the `#eval` evidence at the end): when the source is exhausted `Read` returns what
  the encoder produced, and `io.EOF` comes with the next call; a legal short read.
* when a call fails, the bytes it had already placed into the caller's buffer (old overflow, header) are
  not reported (`n = 0`); see the `failAt` examples.
-/
namespace Lz4V.Props.C18
open Lz4V Lz4V.Go Lz4V.Model Lz4V.Model.CReader
open Lz4V.Proofs.CReader (session output srcOf frameOf)

/-! ## (1) at most `want` bytes, whatever the state and the source -/
theorem read_le (c : CR) (want : Nat) : (read c want).2.1.size ≤ want :=
  Proofs.CReader.read_le c want

/-! ## (2) progress -/
theorem read_progress (c : CR) (want : Nat) (hw : 0 < want) (_hc : c.st ≠ .done) :
    0 < (read c want).2.1.size ∨ (read c want).2.2 ≠ none :=
  Proofs.CReader.read_progress c want hw

/-! ## (3) the frame -/

/-- the output of a session that ends with `io.EOF` is `frameOf`, for any buffer sizes -/
theorem frame_eq_writer (opts : List FrameW.Opt) (data : Array UInt8) (sizes : List Nat)
    (_happly : (apply (new (srcOf data)) opts).2 = none)
    (rs : List (Nat × Array UInt8 × Option Err)) (c' : CR)
    (hs : session (apply (new (srcOf data)) opts).1 sizes = (rs, c'))
    (heof : (rs.getLast?.map (·.2.2)) = some (some .eof)) :
    output rs = frameOf (apply (new (srcOf data)) opts).1.cfg data := by
  have h := Proofs.CReader.session_frame opts data sizes
  rw [hs] at h
  exact h heof

/-- `frameOf` is the Writer's frame: `NewWriter`, `Apply(opts)`, ONE `Write(data)`, `Close` on an
all-accepting sink reports no error, works with the same configuration and writes exactly `frameOf` -/
theorem frameOf_eq_writer (opts : List FrameW.Opt) (data : Array UInt8)
    (happly : (apply (new (srcOf data)) opts).2 = none) :
    frameOf (apply (new (srcOf data)) opts).1.cfg data = Run.writtenBytes opts [data] ∧
      (Run.writeSession opts [data]).2 = none ∧
      (FrameW.apply (FrameW.new none) opts).1.cfg = (apply (new (srcOf data)) opts).1.cfg := by
  obtain ⟨h1, h2, h3⟩ := Proofs.CReader.writer_bytes opts data happly
  exact ⟨h1.symm, h2, h3⟩

/-- hence: the session output is the Writer's output -/
theorem output_eq_writer (opts : List FrameW.Opt) (data : Array UInt8) (sizes : List Nat)
    (happly : (apply (new (srcOf data)) opts).2 = none)
    (rs : List (Nat × Array UInt8 × Option Err)) (c' : CR)
    (hs : session (apply (new (srcOf data)) opts).1 sizes = (rs, c'))
    (heof : (rs.getLast?.map (·.2.2)) = some (some .eof)) :
    output rs = Run.writtenBytes opts [data] := by
  rw [frame_eq_writer opts data sizes happly rs c' hs heof, (frameOf_eq_writer opts data happly).1]

/-- the strict specification accepts the session output and decodes it to the content, with the
configured frame parameters (proved directly from the `FrameW` block/header lemmas; the block
compressors' correctness is `C01fast`/`C01hc`, no hypothesis left) -/
theorem frame_valid_info (opts : List FrameW.Opt) (data : Array UInt8) (sizes : List Nat)
    (_happly : (apply (new (srcOf data)) opts).2 = none) (hsz : data.size < 2 ^ 64)
    (hcs : (apply (new (srcOf data)) opts).1.cfg.contentSize < 2 ^ 64)
    (rs : List (Nat × Array UInt8 × Option Err)) (c' : CR)
    (hs : session (apply (new (srcOf data)) opts).1 sizes = (rs, c'))
    (heof : (rs.getLast?.map (·.2.2)) = some (some .eof)) :
    ∃ info, Spec.Frame.decode (output rs).toList true = .ok ⟨info, data, (output rs).size⟩ ∧
      info.version = 1 ∧ info.blockIndep = true ∧ info.legacy = false ∧
      info.blockChecksum = Gen.flagBlockChecksum (apply (new (srcOf data)) opts).1.cfg.flags ∧
      info.contentChecksum = Gen.flagContentChecksum (apply (new (srcOf data)) opts).1.cfg.flags ∧
      info.contentSize = (if Gen.flagSize (apply (new (srcOf data)) opts).1.cfg.flags
        then some (apply (new (srcOf data)) opts).1.cfg.contentSize else none) ∧
      info.blockMax = FrameW.poolSize (FrameW.blockSizeIndex (apply (new (srcOf data)) opts).1.cfg.flags) := by
  rw [frame_eq_writer opts data sizes _happly rs c' hs heof]
  exact ⟨_, Proofs.CReader.frameOf_valid opts data hsz hcs, rfl, rfl, rfl, rfl, rfl, rfl, rfl⟩

theorem frame_valid (opts : List FrameW.Opt) (data : Array UInt8) (sizes : List Nat)
    (happly : (apply (new (srcOf data)) opts).2 = none) (hsz : data.size < 2 ^ 64)
    (hcs : (apply (new (srcOf data)) opts).1.cfg.contentSize < 2 ^ 64)
    (rs : List (Nat × Array UInt8 × Option Err)) (c' : CR)
    (hs : session (apply (new (srcOf data)) opts).1 sizes = (rs, c'))
    (heof : (rs.getLast?.map (·.2.2)) = some (some .eof)) :
    ∃ info, Spec.Frame.decode (output rs).toList true = .ok ⟨info, data, (output rs).size⟩ := by
  obtain ⟨info, h, _⟩ := frame_valid_info opts data sizes happly hsz hcs rs c' hs heof
  exact ⟨info, h⟩

/-! ## (4) errors end the session; after `io.EOF` the reader is done -/

/-- every call before the last one of a session (in particular before the one that returns `io.EOF`)
returns no error, and every call returns at most the bytes asked for -/
theorem eof_last (c : CR) (sizes : List Nat) (rs : List (Nat × Array UInt8 × Option Err)) (c' : CR)
    (hs : session c sizes = (rs, c')) :
    (∀ r ∈ rs.dropLast, r.2.2 = none) ∧ (∀ r ∈ rs, r.2.1.size ≤ r.1) := by
  have h1 := Proofs.CReader.session_init_none sizes c
  have h2 := Proofs.CReader.session_le sizes c
  rw [hs] at h1 h2
  exact ⟨h1, h2⟩

theorem after_eof_done (c : CR) (want : Nat) (h : (read c want).2.2 = some .eof) :
    (read c want).1.st = .done :=
  (Proofs.CReader.read_err c want (Proofs.CReader.ne_none_of_eq_some h)).2

/-- `io.EOF` is only ever returned by a reader that has emitted the whole frame (state `flushing`) and
whose overflow has been delivered completely; it comes with no bytes -/
theorem eof_only_when_flushed (c : CR) (want : Nat) (h : (read c want).2.2 = some .eof) :
    c.st = .flushing ∧ c.ov = #[] ∧ (read c want).2.1 = #[] :=
  ⟨(Proofs.CReader.read_eof c want h).1, (Proofs.CReader.read_eof c want h).2,
    (Proofs.CReader.read_err c want (Proofs.CReader.ne_none_of_eq_some h)).1⟩

/-- a done reader keeps failing (`readerDone`), without bytes -/
theorem done_stays_done (c : CR) (want : Nat) (hw : 0 < want) (hov : c.ov = #[]) (h : c.st = .done) :
    read c want = ({ c with ov := #[], ovPosNonZero := false }, #[], some .readerDone) := by
  rw [Proofs.CReader.read_eq, if_neg (by rw [hov]; simp; omega)]
  obtain ⟨st, cfg, src, cks, ov, opz⟩ := c
  simp only at h hov
  subst h
  rfl

/-! ## (5) termination -/

/-- with one-byte buffers the session reaches `io.EOF` after at most `frame size + 1` calls
(stated, as given, for `k ≥ frame size + 2`) -/
theorem reaches_eof (opts : List FrameW.Opt) (data : Array UInt8)
    (_happly : (apply (new (srcOf data)) opts).2 = none) (k : Nat)
    (hk : k ≥ (frameOf (apply (new (srcOf data)) opts).1.cfg data).size + 2) :
    let (rs, _) := session (apply (new (srcOf data)) opts).1 (List.replicate k 1)
    rs.getLast?.map (·.2.2) = some (some .eof) := by
  have h := Proofs.CReader.session_reaches opts data k
    (by show (frameOf (apply (new (srcOf data)) opts).1.cfg data).size < k; omega)
  generalize session (apply (new (srcOf data)) opts).1 (List.replicate k 1) = p at h
  obtain ⟨rs, c'⟩ := p
  exact h

/-- the same with the projection instead of the pattern-matching `let` -/
theorem reaches_eof' (opts : List FrameW.Opt) (data : Array UInt8)
    (_happly : (apply (new (srcOf data)) opts).2 = none) (k : Nat)
    (hk : k ≥ (frameOf (apply (new (srcOf data)) opts).1.cfg data).size + 2) :
    (session (apply (new (srcOf data)) opts).1 (List.replicate k 1)).1.getLast?.map (·.2.2) =
      some (some .eof) :=
  Proofs.CReader.session_reaches opts data k
    (by show (frameOf (apply (new (srcOf data)) opts).1.cfg data).size < k; omega)

/-- …and by then it has delivered the whole frame, one byte per call -/
theorem reaches_eof_frame (opts : List FrameW.Opt) (data : Array UInt8) (k : Nat)
    (hk : k ≥ (frameOf (apply (new (srcOf data)) opts).1.cfg data).size + 1) :
    output (session (apply (new (srcOf data)) opts).1 (List.replicate k 1)).1 =
      frameOf (apply (new (srcOf data)) opts).1.cfg data :=
  Proofs.CReader.session_frame opts data _ (Proofs.CReader.session_reaches opts data k
    (by show (frameOf (apply (new (srcOf data)) opts).1.cfg data).size < k; omega))

/-! ## (6) a source error is passed through -/

/-- whatever error a call returns (`io.EOF`, the source's injected error, …), it returns no bytes with
it and the reader is done -/
theorem error_no_bytes (c : CR) (want : Nat) (h : (read c want).2.2 ≠ none) :
    (read c want).2.1 = #[] ∧ (read c want).1.st = .done :=
  Proofs.CReader.read_err c want h

theorem source_error_passed (c : CR) (want : Nat) (h : (read c want).2.2 = some .injected) :
    (read c want).2.1 = #[] ∧ (read c want).1.st = .done :=
  error_no_bytes c want (Proofs.CReader.ne_none_of_eq_some h)

/-- the error does come from the source: in the middle of a frame, a call that has to pull from the
source (the overflow does not fill the buffer) and whose `io.ReadFull` fails with an error other than
`io.EOF`/`io.ErrUnexpectedEOF` returns exactly that error -/
theorem source_error_surfaces (c : CR) (want : Nat) (e : Err) (hst : c.st = .reading)
    (hov : c.ov.size < want)
    (hsrc : (readFull c.src (FrameW.poolSize (FrameW.blockSizeIndex c.cfg.flags))).2.2 = some e)
    (he : e ≠ .eof ∧ e ≠ .unexpectedEOF) :
    (read c want).2.2 = some e := by
  rw [Proofs.CReader.read_eq, if_neg (by omega)]
  obtain ⟨st, cfg, src, cks, ov, opz⟩ := c
  simp only at hst hsrc
  subst hst
  show (Proofs.CReader.loopF want (FrameW.blockSizeIndex cfg.flags)
    { st := .reading, cfg := cfg, src := src, cks := cks, ov := #[], ovPosNonZero := false } ov
    (src.data.size / (max (FrameW.poolSize (FrameW.blockSizeIndex cfg.flags)) 1) + 2 + 1)).2.2 = some e
  rw [Proofs.CReader.loop_succ]
  simp only
  generalize readFull src (FrameW.poolSize (FrameW.blockSizeIndex cfg.flags)) = r at hsrc
  obtain ⟨s, got, e'⟩ := r
  simp only at hsrc
  subst hsrc
  simp only
  rw [if_neg (by intro h; rcases h with h | h; exact he.1 h; exact he.2 h)]
  rfl

/-- a zero-length read never reports anything, in any state -/
theorem read_zero (c : CR) : (read c 0).2 = (#[], none) := by
  rw [Proofs.CReader.read_eq, if_pos (Nat.zero_le _)]
  simp

/-! ## non-vacuity -/

private def ex3 : CR := (apply (new (srcOf #[1, 2, 3])) []).1

/-- a concrete session over a 3-byte source with buffer sizes 1, 7, 100, 5 (default options: 4 MiB
blocks, content checksum), by kernel evaluation of the model: 1 + 7 + 14 bytes, then `io.EOF` -/
example : (session ex3 [1, 7, 100, 5]).1 =
    [(1, #[4], none),
     (7, #[34, 77, 24, 100, 112, 185, 3], none),
     (100, #[0, 0, 128, 1, 2, 3, 0, 0, 0, 0, 196, 120, 156, 245], none),
     (5, #[], some .eof)] ∧ (session ex3 [1, 7, 100, 5]).2.st = .done := by
  decide +kernel

/-- the hypotheses of `frame_eq_writer` / `frame_valid` hold for it … -/
example : (apply (new (srcOf #[1, 2, 3])) []).2 = none ∧
    (session ex3 [1, 7, 100, 5]).1.getLast?.map (·.2.2) = some (some .eof) ∧
    (#[1, 2, 3] : Array UInt8).size < 2 ^ 64 ∧ ex3.cfg.contentSize < 2 ^ 64 := by
  decide +kernel

/-- … so the theorems apply: the 22 bytes delivered are the Writer's frame and decode to `[1,2,3]` -/
example : output (session ex3 [1, 7, 100, 5]).1 = Run.writtenBytes [] [#[1, 2, 3]] ∧
    ∃ info, Spec.Frame.decode (output (session ex3 [1, 7, 100, 5]).1).toList true = .ok ⟨info, #[1, 2, 3], 22⟩ := by
  have hs : session ex3 [1, 7, 100, 5] = ((session ex3 [1, 7, 100, 5]).1, (session ex3 [1, 7, 100, 5]).2) :=
    by generalize session ex3 [1, 7, 100, 5] = p; rfl
  refine ⟨output_eq_writer [] #[1, 2, 3] [1, 7, 100, 5] (by decide +kernel) _ _ hs (by decide +kernel), ?_⟩
  have h := frame_valid [] #[1, 2, 3] [1, 7, 100, 5] (by decide +kernel) (by decide +kernel)
    (by decide +kernel) _ _ hs (by decide +kernel)
  rw [show (output (session ex3 [1, 7, 100, 5]).1).size = 22 by decide +kernel] at h
  exact h

/-- the bytes, evaluated independently of the theorems -/
example : output (session ex3 [1, 7, 100, 5]).1 =
      #[4, 34, 77, 24, 100, 112, 185, 3, 0, 0, 128, 1, 2, 3, 0, 0, 0, 0, 196, 120, 156, 245] ∧
    frameOf ex3.cfg #[1, 2, 3] =
      #[4, 34, 77, 24, 100, 112, 185, 3, 0, 0, 128, 1, 2, 3, 0, 0, 0, 0, 196, 120, 156, 245] ∧
    Run.writtenBytes [] [#[1, 2, 3]] =
      #[4, 34, 77, 24, 100, 112, 185, 3, 0, 0, 128, 1, 2, 3, 0, 0, 0, 0, 196, 120, 156, 245] := by
  decide +kernel

/-- options are reflected (64 KiB blocks, block checksums, announced size), zero-length reads in
between change nothing, the empty source gives the 15-byte empty frame (no data block) -/
example : output (session (apply (new (srcOf #[1, 2, 3])) [.blockSize 65536, .blockChecksum true, .size 3]).1
        [1, 0, 7, 0, 0, 100, 5, 5]).1 =
      #[4, 34, 77, 24, 124, 64, 3, 0, 0, 0, 0, 0, 0, 0, 116, 3, 0, 0, 128, 1, 2, 3, 196, 120, 156, 245,
        0, 0, 0, 0, 196, 120, 156, 245] ∧
    frameOf (apply (new (srcOf #[])) []).1.cfg #[] =
      #[4, 34, 77, 24, 100, 112, 185, 0, 0, 0, 0, 5, 93, 204, 2] ∧
    Run.writtenBytes [] [#[]] = #[4, 34, 77, 24, 100, 112, 185, 0, 0, 0, 0, 5, 93, 204, 2] := by
  decide +kernel

/-- `reaches_eof` applies: the frame has 22 bytes, so 24 one-byte reads end with `io.EOF` and have
delivered the frame -/
example : (session (apply (new (srcOf #[1, 2, 3])) []).1 (List.replicate 24 1)).1.getLast?.map (·.2.2) =
      some (some .eof) ∧
    output (session (apply (new (srcOf #[1, 2, 3])) []).1 (List.replicate 24 1)).1 =
      frameOf (apply (new (srcOf #[1, 2, 3])) []).1.cfg #[1, 2, 3] :=
  ⟨reaches_eof' [] #[1, 2, 3] (by decide +kernel) 24 (by decide +kernel),
   reaches_eof_frame [] #[1, 2, 3] 24 (by decide +kernel)⟩

/-- the options the compressing reader refuses -/
example : (apply (new (srcOf #[])) [.concurrency 2]).2 = some .notApplicable ∧
    (apply (new (srcOf #[])) [.legacy true]).2 = some .notApplicable ∧
    (apply (new (srcOf #[])) [.blockSize 8388608]).2 = some .badBlockSize := by
  decide +kernel

/-- (6) is not vacuous: a source whose first `Read` fails makes the first call return the injected
error, no bytes (the 7 header bytes already placed in the buffer are not reported), reader done; the
next call reports `readerDone` -/
example :
    let c : CR := new { data := #[1, 2, 3], failAt := some 0 }
    (read c 100).2 = (#[], some .injected) ∧ (read c 100).1.st = .done ∧
    (read (read c 100).1 100).2 = (#[], some .readerDone) := by
  decide +kernel

/-- a source that delivers its 3 bytes and fails at its second `Read` (the one that would report
`io.EOF`): `io.ReadFull` reports the error and so does the very first call, whatever the buffer size -/
example :
    let c : CR := new { data := #[1, 2, 3], failAt := some 1 }
    (read c 4).2 = (#[], some .injected) ∧ (read c 4).1.st = .done := by
  decide +kernel

/-
`#eval` evidence for a multi-block session whose content is an exact multiple of the block size
(2 × 64 KiB; kernel evaluation of the compressor over 131072 bytes is not attempted):

  #eval (frameOf (apply (new (srcOf (Array.replicate 131072 7))) [.blockSize 65536]).1.cfg (Array.replicate 131072 7))
          == Run.writtenBytes [.blockSize 65536] [Array.replicate 131072 7]                        -- true
  #eval (output (session (apply (new (srcOf (Array.replicate 131072 7))) [.blockSize 65536]).1
          [3,1000,5,0,2000,10,10]).1) == Run.writtenBytes [.blockSize 65536] [Array.replicate 131072 7]  -- true
  #eval (session (apply (new (srcOf (Array.replicate 131072 7))) [.blockSize 65536]).1
          [3,1000,5,0,2000,10,10]).1.map (fun r => (r.1, r.2.1.size, errName r.2.2))
  -- [(3, 3, "ok"), (1000, 578, "ok"), (5, 0, "eof")]      (581 bytes: two data blocks, no empty third one)
-/

end Lz4V.Props.C18

#print axioms Lz4V.Props.C18.read_le
#print axioms Lz4V.Props.C18.read_progress
#print axioms Lz4V.Props.C18.frame_eq_writer
#print axioms Lz4V.Props.C18.frameOf_eq_writer
#print axioms Lz4V.Props.C18.output_eq_writer
#print axioms Lz4V.Props.C18.frame_valid_info
#print axioms Lz4V.Props.C18.frame_valid
#print axioms Lz4V.Props.C18.eof_last
#print axioms Lz4V.Props.C18.after_eof_done
#print axioms Lz4V.Props.C18.eof_only_when_flushed
#print axioms Lz4V.Props.C18.done_stays_done
#print axioms Lz4V.Props.C18.reaches_eof
#print axioms Lz4V.Props.C18.reaches_eof'
#print axioms Lz4V.Props.C18.reaches_eof_frame
#print axioms Lz4V.Props.C18.error_no_bytes
#print axioms Lz4V.Props.C18.source_error_passed
#print axioms Lz4V.Props.C18.source_error_surfaces
#print axioms Lz4V.Props.C18.read_zero
