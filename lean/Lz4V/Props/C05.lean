import Lz4V.Proofs.FrameR
import Lz4V.Proofs.FrameRRead
import Lz4V.Proofs.FrameRLegacy
/-!
# C05 — acceptance soundness of the frame Reader

Whenever the (model of the) Reader finishes a stream cleanly, the independent frame specification
`Spec.Frame.decode … (strict := false)` accepts exactly the consumed bytes and yields the same output.
-/
namespace Lz4V.Props.C05
open Lz4V Lz4V.Go Lz4V.Model Lz4V.Proofs.FrameR

theorem toList_split (bytes : Array UInt8) (p : Nat) (hp : p ≤ bytes.size) :
    bytes.toList = (bytes.extract 0 p).toList ++ (bytes.extract p bytes.size).toList := by
  rw [← Array.toList_append, ← extract_split bytes 0 p bytes.size (by omega) hp]
  simp

/- Full statement as given (NOT provable in this generality, see `c05_writeTo_partial`):
theorem c05_writeTo (bytes out : Array UInt8) (num c : Nat)
    (h : Run.readAll bytes num = (out, none, c))
    (hmodern : ∃ r, Spec.Frame.skipToFrame (bytes.size + 1) bytes.toList = .ok r) :
    c ≤ bytes.size ∧ ∃ info, Spec.Frame.decode (bytes.extract 0 c).toList false = .ok ⟨info, out, c⟩
-/

/-- C05 for frames in the current format, read through WriteTo: clean completion implies that the
specification (lenient header grammar = what the Reader is specified to accept) accepts the consumed
bytes with the same output. `num` is the configured concurrency (the model decodes sequentially).

Added hypothesis relative to `c05_writeTo`: `hsz : out.size < 2 ^ 64`.  It is only used when the
frame carries a content checksum: the streaming XXH32 of the Go code keeps the total length in a
`uint64` (and treats a zero total as "not started"), so model and reference hash can only be proved
equal for contents shorter than 2^64 bytes (`C13.stream`).  Every Go slice satisfies it. -/
theorem c05_writeTo_partial (bytes out : Array UInt8) (num c : Nat)
    (h : Run.readAll bytes num = (out, none, c))
    (hmodern : ∃ r, Spec.Frame.skipToFrame (bytes.size + 1) bytes.toList = .ok r)
    (hsz : out.size < 2 ^ 64) :
    c ≤ bytes.size ∧ ∃ info, Spec.Frame.decode (bytes.extract 0 c).toList false = .ok ⟨info, out, c⟩ := by
  rcases readAll_cases bytes num with ⟨e, -, he, -, -⟩ | ⟨p, hp4, hp, hbad⟩ |
    ⟨pm, h0, info, content, pe, hpm, hh0, hskip, hhdr, hreach, -, hout, -, hend⟩
  · rw [h] at he; simp at he
  · obtain ⟨r, hr⟩ := hmodern
    rw [toList_split bytes p hp, hbad _ _ (by omega)] at hr
    simp at hr
  · rw [h] at hout hend
    simp only [] at hout hend
    subst hout
    obtain ⟨hc, hd⟩ := decode_of_parts bytes pm h0 pe c info out hpm hh0 hskip hhdr hreach (hend trivial) hsz
    exact ⟨hc, info, hd⟩

/- Full statement as given (NOT provable in this generality, see `c05_read_partial`):
theorem c05_read (bytes out : Array UInt8) (sizes : List Nat) (num c : Nat)
    (h : Run.readWith bytes sizes num = (out, some .eof, c))
    (hmodern : ∃ r, Spec.Frame.skipToFrame (bytes.size + 1) bytes.toList = .ok r) :
    c ≤ bytes.size ∧ ∃ info, Spec.Frame.decode (bytes.extract 0 c).toList false = .ok ⟨info, out, c⟩
-/

/-- the same for any sequence of Read calls (any buffer sizes, including 0) that ends with io.EOF.
Added hypothesis relative to `c05_read`: `hsz : out.size < 2 ^ 64` (see `c05_writeTo_partial`). -/
theorem c05_read_partial (bytes out : Array UInt8) (sizes : List Nat) (num c : Nat)
    (h : Run.readWith bytes sizes num = (out, some .eof, c))
    (hmodern : ∃ r, Spec.Frame.skipToFrame (bytes.size + 1) bytes.toList = .ok r)
    (hsz : out.size < 2 ^ 64) :
    c ≤ bytes.size ∧ ∃ info, Spec.Frame.decode (bytes.extract 0 c).toList false = .ok ⟨info, out, c⟩ := by
  obtain ⟨r, hr⟩ := hmodern
  rcases readWith_eof bytes sizes num out c h with htr | ⟨p, hp4, hp, hbad⟩ |
    ⟨pm, h0, info, pe, hpm, hh0, hskip, hhdr, hreach, hend⟩
  · rw [htr _ (by omega)] at hr; simp at hr
  · rw [toList_split bytes p hp, hbad _ _ (by omega)] at hr
    simp at hr
  · obtain ⟨hc, hd⟩ := decode_of_parts bytes pm h0 pe c info out hpm hh0 hskip hhdr hreach hend hsz
    exact ⟨hc, info, hd⟩

/-! ## legacy frames

History.  Against the Reader model as first written (= the unchanged Go tree) `c05_legacy` was FALSE,
machine-checked on two witnesses (both kept below as regression examples):

* a legacy frame has no block-independence flag, `ParseHeaders` leaves the descriptor flags zero, so
  `Reader.read` passed the previous output to `UncompressBlock` as dictionary: a block whose match
  offset reaches before its own start was accepted (`legacyDictWitness`, 18 bytes: delivered
  "ababababa", nil) although the legacy format decodes every block on its own;
* a size word 0 that is not the running total was read as an empty block and skipped
  (`legacyEmptyBlockWitness`, 14 bytes: delivered "a", nil); an empty LZ4 block is not a valid block.

The model now mirrors the corrected code (`blockRead`: a zero-length legacy block is `badBlockSize`;
`uncompress`: no dictionary for legacy frames) and `c05_legacy` is proved exactly as stated. -/

/-- legacy frames (input starting with the legacy magic) -/
theorem c05_legacy (bytes out : Array UInt8) (num c : Nat)
    (h : Run.readAll bytes num = (out, none, c))
    (hleg : FrameR.u32 bytes = Gen.frameMagicLegacy ∧ 4 ≤ bytes.size) :
    ∃ sizes, Spec.Frame.decodeLegacy (bytes.extract 0 c).toList = .ok (out, sizes) := by
  have hl := legacy_readAll bytes num hleg
  rw [h] at hl
  have hl' : lrunAll bytes = some (out, c) := by rw [← hl]; rfl
  exact (lrunAll_spec bytes out c hleg.2 hleg.1 hl').2

/-- Exact characterisation of what the Reader accepts on a legacy stream: `Proofs.FrameR.lrunAll`
(a functional description in terms of `Spec.Block.decode`, evaluable by the kernel without the 8 MiB
destination buffer of the Go decoder model). -/
theorem c05_legacy_exact (bytes out : Array UInt8) (num c : Nat)
    (hleg : FrameR.u32 bytes = Gen.frameMagicLegacy ∧ 4 ≤ bytes.size) :
    Run.readAll bytes num = (out, none, c) ↔ lrunAll bytes = some (out, c) := by
  rw [← legacy_readAll bytes num hleg, obs_eq_some]

/-- the consumed length of a clean legacy session is within the input -/
theorem c05_legacy_consumed (bytes out : Array UInt8) (num c : Nat)
    (h : Run.readAll bytes num = (out, none, c))
    (hleg : FrameR.u32 bytes = Gen.frameMagicLegacy ∧ 4 ≤ bytes.size) : 4 ≤ c ∧ c ≤ bytes.size := by
  have hl := legacy_readAll bytes num hleg
  rw [h] at hl
  have hl' : lrunAll bytes = some (out, c) := by rw [← hl]; rfl
  exact (lrunAll_spec bytes out c hleg.2 hleg.1 hl').1

/-- legacy magic; block 1 = `10 61` ("a"); block 2 = `13 62 02 00`: literal "b", then a 7-byte match
at offset 2, i.e. starting one byte before the block's own output -/
def legacyDictWitness : Array UInt8 :=
  #[0x02, 0x21, 0x4C, 0x18, 2, 0, 0, 0, 0x10, 0x61, 4, 0, 0, 0, 0x13, 0x62, 0x02, 0x00]

/-- legacy magic; block 1 = `10 61` ("a"); then a size word 0 (≠ running total 1) -/
def legacyEmptyBlockWitness : Array UInt8 :=
  #[0x02, 0x21, 0x4C, 0x18, 2, 0, 0, 0, 0x10, 0x61, 0, 0, 0, 0]

def isOk : Except Spec.Frame.Err (Array UInt8 × List Nat) → Bool
  | .ok _ => true
  | .error _ => false

/-- regression: the specification rejects both witnesses … -/
example : isOk (Spec.Frame.decodeLegacy legacyDictWitness.toList) = false := by decide +kernel
example : isOk (Spec.Frame.decodeLegacy legacyEmptyBlockWitness.toList) = false := by decide +kernel

/-- … and so does the Reader now (no clean completion, whatever the concurrency) -/
theorem legacyDictWitness_rejected (num : Nat) (out : Array UInt8) (c : Nat) :
    Run.readAll legacyDictWitness num ≠ (out, none, c) := by
  intro h
  have := (c05_legacy_exact legacyDictWitness out num c (by decide)).mp h
  have h2 : lrunAll legacyDictWitness = none := by decide +kernel
  rw [h2] at this
  simp at this

theorem legacyEmptyBlockWitness_rejected (num : Nat) (out : Array UInt8) (c : Nat) :
    Run.readAll legacyEmptyBlockWitness num ≠ (out, none, c) := by
  intro h
  have := (c05_legacy_exact legacyEmptyBlockWitness out num c (by decide)).mp h
  have h2 : lrunAll legacyEmptyBlockWitness = none := by decide +kernel
  rw [h2] at this
  simp at this

/-! ## non-vacuity

Concrete frames on which the hypotheses hold (`Run.readAll` / `Run.readWith` evaluated by the kernel)
and the theorems are instantiated. -/

/-- the 15-byte empty frame (independent blocks, content checksum `02CC5D05`) -/
def exEmpty : Array UInt8 :=
  #[0x04, 0x22, 0x4D, 0x18, 0x64, 0x40, 0xA7, 0, 0, 0, 0, 0x05, 0x5D, 0xCC, 0x02]

/-- one stored ("raw") block `abc`, no checksums -/
def exRaw : Array UInt8 :=
  #[0x04, 0x22, 0x4D, 0x18, 0x60, 0x40, 0x82, 3, 0, 0, 0x80, 0x61, 0x62, 0x63, 0, 0, 0, 0]

/-- dependent blocks + content checksum: raw `abc`, then the compressed block `13 62 02 00`
(literal `b`, 7-byte match at offset 2 reaching into the previous block), end mark, XXH32 of the 11 bytes -/
def exDep : Array UInt8 :=
  #[0x04, 0x22, 0x4D, 0x18, 0x44, 0x40, 0x5E, 3, 0, 0, 0x80, 0x61, 0x62, 0x63, 4, 0, 0, 0, 0x13, 0x62, 0x02, 0x00,
    0, 0, 0, 0, 0xB4, 0x5F, 0xD3, 0xF9]

/-- a skippable frame (magic `184D2A50`, 2 bytes), then `exRaw`, then 2 bytes that are not consumed -/
def exSkip : Array UInt8 :=
  #[0x50, 0x2A, 0x4D, 0x18, 2, 0, 0, 0, 9, 9,
    0x04, 0x22, 0x4D, 0x18, 0x60, 0x40, 0x82, 3, 0, 0, 0x80, 0x61, 0x62, 0x63, 0, 0, 0, 0, 7, 7]

theorem exEmpty_run : Run.readAll exEmpty 1 = (#[], none, 15) := by decide +kernel
theorem exRaw_run : Run.readAll exRaw 4 = (#[0x61, 0x62, 0x63], none, 18) := by decide +kernel
theorem exDep_run : Run.readAll exDep 1 = (#[97, 98, 99, 98, 99, 98, 99, 98, 99, 98, 99], none, 30) := by
  decide +kernel
theorem exSkip_run : Run.readAll exSkip 1 = (#[0x61, 0x62, 0x63], none, 28) := by decide +kernel

example : ∃ info, Spec.Frame.decode (exEmpty.extract 0 15).toList false = .ok ⟨info, #[], 15⟩ :=
  (c05_writeTo_partial exEmpty _ 1 15 exEmpty_run ⟨_, rfl⟩ (by decide)).2
example : ∃ info, Spec.Frame.decode (exRaw.extract 0 18).toList false = .ok ⟨info, #[0x61, 0x62, 0x63], 18⟩ :=
  (c05_writeTo_partial exRaw _ 4 18 exRaw_run ⟨_, rfl⟩ (by decide)).2
example : ∃ info, Spec.Frame.decode (exDep.extract 0 30).toList false =
    .ok ⟨info, #[97, 98, 99, 98, 99, 98, 99, 98, 99, 98, 99], 30⟩ :=
  (c05_writeTo_partial exDep _ 1 30 exDep_run ⟨_, rfl⟩ (by decide)).2
/-- only the 28 consumed bytes are claimed: the two trailing bytes stay in the source -/
example : ∃ info, Spec.Frame.decode (exSkip.extract 0 28).toList false = .ok ⟨info, #[0x61, 0x62, 0x63], 28⟩ :=
  (c05_writeTo_partial exSkip _ 1 28 exSkip_run ⟨_, rfl⟩ (by decide)).2

/-- `Read` with buffers of 2, 0 and 5 bytes: the block is buffered (2 < 64 KiB) and handed out piecewise -/
theorem exRaw_read : Run.readWith exRaw [2, 0, 5] 1 = (#[0x61, 0x62, 0x63], some .eof, 18) := by decide +kernel
theorem exDep_read : Run.readWith exDep [4, 1, 100] 1 =
    (#[97, 98, 99, 98, 99, 98, 99, 98, 99, 98, 99], some .eof, 30) := by decide +kernel

example : ∃ info, Spec.Frame.decode (exRaw.extract 0 18).toList false = .ok ⟨info, #[0x61, 0x62, 0x63], 18⟩ :=
  (c05_read_partial exRaw _ [2, 0, 5] 1 18 exRaw_read ⟨_, rfl⟩ (by decide)).2
example : ∃ info, Spec.Frame.decode (exDep.extract 0 30).toList false =
    .ok ⟨info, #[97, 98, 99, 98, 99, 98, 99, 98, 99, 98, 99], 30⟩ :=
  (c05_read_partial exDep _ [4, 1, 100] 1 30 exDep_read ⟨_, rfl⟩ (by decide)).2

/-- a legacy frame both sides accept: magic, one block `10 61` -/
def exLegacy : Array UInt8 := #[0x02, 0x21, 0x4C, 0x18, 2, 0, 0, 0, 0x10, 0x61]

theorem exLegacy_run (num : Nat) : Run.readAll exLegacy num = (#[0x61], none, 10) := by
  rw [← obs_eq_some, legacy_readAll exLegacy num (by decide)]
  decide +kernel

def getOk : Except Spec.Frame.Err (Array UInt8 × List Nat) → Option (Array UInt8 × List Nat)
  | .ok v => some v
  | .error _ => none

theorem eq_ok_of_getOk {x : Except Spec.Frame.Err (Array UInt8 × List Nat)} {v : Array UInt8 × List Nat}
    (h : getOk x = some v) : x = .ok v := by
  cases x with
  | ok w => simp only [getOk, Option.some.injEq] at h; rw [h]
  | error e => simp [getOk] at h

example : ∃ sizes, Spec.Frame.decodeLegacy (exLegacy.extract 0 10).toList = .ok (#[0x61], sizes) :=
  c05_legacy exLegacy _ 1 10 (exLegacy_run 1) (by decide)

/-- the specification evaluated independently on the same bytes -/
example : Spec.Frame.decodeLegacy (exLegacy.extract 0 10).toList = .ok (#[0x61], [1]) :=
  eq_ok_of_getOk (by decide +kernel)

/-- two blocks, a repeated legacy magic in between, and the Linux-kernel style trailing total (2) -/
def exLegacy2 : Array UInt8 :=
  #[0x02, 0x21, 0x4C, 0x18, 2, 0, 0, 0, 0x10, 0x61, 0x02, 0x21, 0x4C, 0x18, 2, 0, 0, 0, 0x10, 0x62, 2, 0, 0, 0]

theorem exLegacy2_run (num : Nat) : Run.readAll exLegacy2 num = (#[0x61, 0x62], none, 24) := by
  rw [← obs_eq_some, legacy_readAll exLegacy2 num (by decide)]
  decide +kernel

example : ∃ sizes, Spec.Frame.decodeLegacy (exLegacy2.extract 0 24).toList = .ok (#[0x61, 0x62], sizes) :=
  c05_legacy exLegacy2 _ 4 24 (exLegacy2_run 4) (by decide)

end Lz4V.Props.C05
