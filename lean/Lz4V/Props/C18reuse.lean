import Lz4V.Proofs.CReaderReuse
/-!
# C18reuse — the compressing reader, REUSED: `Reset(src)` from any earlier state, optionally `Apply`

`Props/C18.lean` states the frame properties for `apply (new (srcOf data)) opts`.  Here they are extended
to `reset c (srcOf data)` and `apply (reset c (srcOf data)) opts` for ANY earlier state `c` (mid-frame
with pending overflow, flushing, done after `io.EOF`, failed by a source error, …).

The one thing a reader keeps across `Reset` that matters is its configuration `c.cfg`.  An arbitrary value
of the `CR` structure may carry a flag word no reader can ever have (e.g. `flags = 0`: block size index 0,
`poolSize 0 = 0`, the read loop then never terminates with `io.EOF`; see `cfg_needed` below), so the theorems
carry the hypothesis `CfgOK c.cfg` (`Proofs/CReaderReuse.lean`): the flag word is one of the 32 words
`NewCompressingReader` + `Apply` can produce (`Proofs.FrameW.reachable`) or such a word with the version and
block-independence bits that the first `Read` of a frame stores back into the configuration.  `CfgOK` holds
for `new`, is preserved by `apply`, `read`, `reset` (in every state, for every source, successful or not):
`cfgOK_new`, `cfgOK_apply`, `cfgOK_read`, `cfgOK_reset`; hence it holds for every reader obtained through
the API (`Reach`, `reach_cfgOK`), and the `_reach` variants below have no hypothesis on the configuration.
Nothing else about `c` is assumed: `c.st`, `c.ov`, `c.ovPosNonZero`, `c.src`, `c.cks` are arbitrary.
-/
namespace Lz4V.Props.C18reuse
open Lz4V Lz4V.Go Lz4V.Model Lz4V.Model.CReader
open Lz4V.Proofs.CReader (session output srcOf frameOf WF CfgOK Reach ObsEq)

/-! ## `CfgOK`: holds for `new`, preserved by everything -/

theorem cfgOK_new (src : Source) : CfgOK (new src).cfg := Proofs.CReader.cfgOK_new src

theorem cfgOK_apply (c : CR) (opts : List FrameW.Opt) (h : CfgOK c.cfg) : CfgOK (apply c opts).1.cfg :=
  Proofs.CReader.cfgOK_apply c opts h

theorem cfgOK_read (c : CR) (want : Nat) (h : CfgOK c.cfg) : CfgOK (read c want).1.cfg :=
  Proofs.CReader.cfgOK_read c want h

theorem cfgOK_reset (c : CR) (src : Source) (h : CfgOK c.cfg) : CfgOK (reset c src).cfg := h

/-- every reader obtained from `new` by `apply`, `read`, `reset` in any order (any sources, sizes, options) -/
theorem reach_cfgOK (c : CR) (h : Reach c) : CfgOK c.cfg := h.cfgOK

/-- `CfgOK` is what it says: one of the 32 flag words of `NewCompressingReader` + `Apply`, possibly with the
descriptor bits (version 1, block independence) of a frame already started -/
theorem cfgOK_iff (cfg : FrameW.Cfg) :
    CfgOK cfg ↔ cfg.flags ∈ Proofs.FrameW.reachable ∨
      ∃ f ∈ Proofs.FrameW.reachable, cfg.flags = Proofs.FrameW.initFlags f := by
  unfold CfgOK Proofs.CReader.reusable
  rw [List.mem_append, List.mem_map]
  constructor
  · rintro (h | ⟨f, hf, he⟩)
    · exact Or.inl h
    · exact Or.inr ⟨f, hf, he.symm⟩
  · rintro (h | ⟨f, hf, he⟩)
    · exact Or.inl h
    · exact Or.inr ⟨f, hf, he.symm⟩

/-! ## (1) a reset reader is well-formed -/

theorem reset_wf (c : CR) (data : Array UInt8) (hc : CfgOK c.cfg) : WF (reset c (srcOf data)) :=
  Proofs.CReader.reset_wf c data hc

theorem reset_apply_wf (c : CR) (data : Array UInt8) (opts : List FrameW.Opt) (hc : CfgOK c.cfg) :
    WF (apply (reset c (srcOf data)) opts).1 :=
  Proofs.CReader.reset_apply_wf c data opts hc

/-- the hypothesis on the configuration cannot be dropped: with the flag word 0 (not a configuration any
reader can have: block size index 0, `poolSize 0 = 0`) the reset reader is not well-formed, and indeed never
delivers a frame: a 100-byte read of the 3-byte source fails with `unhandledState` (the model's fuel for Go's
endless loop of empty blocks), and 40 one-byte reads deliver header and empty blocks, never `io.EOF` -/
theorem cfg_needed :
    let c : CR := { new (srcOf #[]) with cfg := {} }
    ¬ CfgOK c.cfg ∧ ¬ WF (reset c (srcOf #[1, 2, 3])) ∧
      (session (reset c (srcOf #[1, 2, 3])) [100, 100]).1 = [(100, #[], some .unhandledState)] ∧
      (session (reset c (srcOf #[1, 2, 3])) (List.replicate 40 1)).1.getLast?.map (·.2.2) = some none := by
  refine ⟨by decide, fun h => ?_, by decide +kernel, by decide +kernel⟩
  have := (h.ini rfl).2
  revert this
  decide

/-! ## (2) the frame -/

/-- `Reset(src)` then `Apply(opts)` (whether or not `Apply` reports an error) then reads with any buffer
sizes until `io.EOF`: the bytes delivered are `frameOf` for the configuration in force -/
theorem reuse_frame_eq (c : CR) (hc : CfgOK c.cfg) (data : Array UInt8) (opts : List FrameW.Opt)
    (sizes : List Nat) (rs : List (Nat × Array UInt8 × Option Err)) (c' : CR)
    (hs : session (apply (reset c (srcOf data)) opts).1 sizes = (rs, c'))
    (heof : (rs.getLast?.map (·.2.2)) = some (some .eof)) :
    output rs = frameOf (apply (reset c (srcOf data)) opts).1.cfg data := by
  have h := Proofs.CReader.reset_apply_session_frame c hc data opts sizes
  rw [hs] at h
  exact h heof

/-- the same without `Apply` -/
theorem reuse_frame_eq_reset (c : CR) (hc : CfgOK c.cfg) (data : Array UInt8)
    (sizes : List Nat) (rs : List (Nat × Array UInt8 × Option Err)) (c' : CR)
    (hs : session (reset c (srcOf data)) sizes = (rs, c'))
    (heof : (rs.getLast?.map (·.2.2)) = some (some .eof)) :
    output rs = frameOf (reset c (srcOf data)).cfg data := by
  have h := Proofs.CReader.reset_session_frame c hc data sizes
  rw [hs] at h
  exact h heof

/-- no hypothesis on the configuration for readers obtained through the API -/
theorem reuse_frame_eq_reach (c : CR) (hr : Reach c) (data : Array UInt8) (opts : List FrameW.Opt)
    (sizes : List Nat) (rs : List (Nat × Array UInt8 × Option Err)) (c' : CR)
    (hs : session (apply (reset c (srcOf data)) opts).1 sizes = (rs, c'))
    (heof : (rs.getLast?.map (·.2.2)) = some (some .eof)) :
    output rs = frameOf (apply (reset c (srcOf data)) opts).1.cfg data :=
  reuse_frame_eq c hr.cfgOK data opts sizes rs c' hs heof

/-- the configuration in force after `Reset` + `Apply`: the old one with the options applied in order up to
the first refused one; after `Reset` alone: the old one -/
theorem reuse_cfg (c : CR) (src : Source) (opts : List FrameW.Opt) :
    (apply (reset c src) opts).1.cfg = (apply.go c.cfg opts).1 ∧ (reset c src).cfg = c.cfg := ⟨rfl, rfl⟩

/-- `frameOf` only looks at the descriptor flags: the version and block-independence bits a first `Read`
stores back into the configuration do not change the frame of the next session.  So a reader that has read
a frame (or part of one) with the configuration `cfg`, once reset, delivers the same frame as a fresh
reader with `cfg` -/
theorem frameOf_descriptor_bits (cfg : FrameW.Cfg) (hc : CfgOK cfg) (data : Array UInt8) :
    frameOf (Proofs.FrameW.cfgInit cfg) data = frameOf cfg data :=
  Proofs.CReader.frameOf_flags (Proofs.FrameW.cfgInit cfg) cfg.flags
    (Proofs.CReader.reusable_init_idem _ hc) data

/-! ## (3) the strict specification accepts it -/

theorem reuse_frame_valid (c : CR) (hc : CfgOK c.cfg) (data : Array UInt8) (opts : List FrameW.Opt)
    (sizes : List Nat) (hsz : data.size < 2 ^ 64)
    (hcs : (apply (reset c (srcOf data)) opts).1.cfg.contentSize < 2 ^ 64)
    (rs : List (Nat × Array UInt8 × Option Err)) (c' : CR)
    (hs : session (apply (reset c (srcOf data)) opts).1 sizes = (rs, c'))
    (heof : (rs.getLast?.map (·.2.2)) = some (some .eof)) :
    ∃ info, Spec.Frame.decode (output rs).toList true = .ok ⟨info, data, (output rs).size⟩ ∧
      info.version = 1 ∧ info.blockIndep = true ∧ info.legacy = false ∧
      info.blockChecksum = Gen.flagBlockChecksum (apply (reset c (srcOf data)) opts).1.cfg.flags ∧
      info.contentChecksum = Gen.flagContentChecksum (apply (reset c (srcOf data)) opts).1.cfg.flags ∧
      info.contentSize = (if Gen.flagSize (apply (reset c (srcOf data)) opts).1.cfg.flags
        then some (apply (reset c (srcOf data)) opts).1.cfg.contentSize else none) ∧
      info.blockMax = FrameW.poolSize (FrameW.blockSizeIndex (apply (reset c (srcOf data)) opts).1.cfg.flags) := by
  rw [reuse_frame_eq c hc data opts sizes rs c' hs heof]
  exact Proofs.CReader.frameOf_valid_cfgOK _ (cfgOK_apply (reset c (srcOf data)) opts hc) data hsz hcs

theorem reuse_frame_valid_reset (c : CR) (hc : CfgOK c.cfg) (data : Array UInt8)
    (sizes : List Nat) (hsz : data.size < 2 ^ 64) (hcs : c.cfg.contentSize < 2 ^ 64)
    (rs : List (Nat × Array UInt8 × Option Err)) (c' : CR)
    (hs : session (reset c (srcOf data)) sizes = (rs, c'))
    (heof : (rs.getLast?.map (·.2.2)) = some (some .eof)) :
    ∃ info, Spec.Frame.decode (output rs).toList true = .ok ⟨info, data, (output rs).size⟩ ∧
      info.version = 1 ∧ info.blockIndep = true ∧ info.legacy = false ∧
      info.blockChecksum = Gen.flagBlockChecksum c.cfg.flags ∧
      info.contentChecksum = Gen.flagContentChecksum c.cfg.flags ∧
      info.contentSize = (if Gen.flagSize c.cfg.flags then some c.cfg.contentSize else none) ∧
      info.blockMax = FrameW.poolSize (FrameW.blockSizeIndex c.cfg.flags) := by
  rw [reuse_frame_eq_reset c hc data sizes rs c' hs heof]
  exact Proofs.CReader.frameOf_valid_cfgOK _ hc data hsz hcs

/-- termination carries over too: one-byte reads reach `io.EOF` after at most `frame size + 1` calls -/
theorem reuse_reaches_eof (c : CR) (hc : CfgOK c.cfg) (data : Array UInt8) (opts : List FrameW.Opt) (k : Nat)
    (hk : k ≥ (frameOf (apply (reset c (srcOf data)) opts).1.cfg data).size + 1) :
    (session (apply (reset c (srcOf data)) opts).1 (List.replicate k 1)).1.getLast?.map (·.2.2) =
      some (some .eof) :=
  Proofs.CReader.reset_apply_session_reaches c hc data opts k (by omega)

/-! ## (4) `Reset` forgets

The statement as given is literally true: `XXH.reset` overwrites all three fields of the checksum state, so
`cks := XXH.reset c.cks` in the first `Read` of a frame does not depend on `c.cks`, and no call returns
anything computed from `cks` before that.  No hypothesis on `c`, `src` (any source: chunked, failing, …) or
the sizes.  What is NOT equal is the final *state* of the two sessions (`.2`): as long as the reader is in
the initial state (no call yet, or only zero-length ones) `reset c src` still carries the old `c.cks`
(`reset_keeps_cks`); `reset_forgets_state` gives the precise relation `ObsEq`: all fields equal, and `cks`
equal too once the state is not initial. -/

theorem reset_forgets (c : CR) (src : Source) (sizes : List Nat) :
    (session (reset c src) sizes).1 = (session { (new src) with cfg := c.cfg } sizes).1 :=
  (Proofs.CReader.session_obsEq sizes _ _ (Proofs.CReader.reset_obsEq_new c src)).1

theorem reset_forgets_state (c : CR) (src : Source) (sizes : List Nat) :
    ObsEq (session (reset c src) sizes).2 (session { (new src) with cfg := c.cfg } sizes).2 :=
  (Proofs.CReader.session_obsEq sizes _ _ (Proofs.CReader.reset_obsEq_new c src)).2

/-- once a call has left the initial state, the final states are equal outright -/
theorem reset_forgets_state_eq (c : CR) (src : Source) (sizes : List Nat)
    (h : (session (reset c src) sizes).2.st ≠ .initial) :
    (session (reset c src) sizes).2 = (session { (new src) with cfg := c.cfg } sizes).2 :=
  (reset_forgets_state c src sizes).eq_of_not_initial h

/-- the same with `Apply` after `Reset`: same `Apply` result, same session -/
theorem reset_apply_forgets (c : CR) (src : Source) (opts : List FrameW.Opt) (sizes : List Nat) :
    (apply (reset c src) opts).2 = (apply { (new src) with cfg := c.cfg } opts).2 ∧
    (session (apply (reset c src) opts).1 sizes).1 =
      (session (apply { (new src) with cfg := c.cfg } opts).1 sizes).1 := by
  obtain ⟨h1, h2⟩ := Proofs.CReader.apply_obsEq _ _ (Proofs.CReader.reset_obsEq_new c src) opts
  exact ⟨h1, (Proofs.CReader.session_obsEq sizes _ _ h2).1⟩

/-- in particular two readers with the same configuration, whatever their states, overflows, sources and
checksum states, behave identically after `Reset` to the same source -/
theorem reset_forgets_two (c1 c2 : CR) (hcfg : c1.cfg = c2.cfg) (src : Source) (sizes : List Nat) :
    (session (reset c1 src) sizes).1 = (session (reset c2 src) sizes).1 := by
  rw [reset_forgets c1 src sizes, reset_forgets c2 src sizes, hcfg]

/-- why the final states are only `ObsEq`: `Reset` keeps the checksum state, and zero-length reads (or no
read at all) do not touch it -/
theorem reset_keeps_cks (c : CR) (src : Source) : (reset c src).cks = c.cks := rfl

/-! ## (5) non-vacuity -/

/-- a reader in the middle of delivering a frame: 4 MiB blocks and content checksum (defaults), 3-byte
source, one 1-byte read done: the whole 22-byte frame is encoded, 1 header byte delivered, the other 6 header
bytes + block + trailer (21 bytes) pending in the overflow, checksum state dirty, descriptor bits stored -/
private def mid : CR := (read (apply (new (srcOf #[1, 2, 3])) []).1 1).1

example : mid.st = .flushing ∧ mid.ov.size = 21 ∧ mid.ovPosNonZero = false ∧
    mid.cks ≠ XXH.zero ∧ mid.cfg.flags = 0x7064 ∧ CfgOK mid.cfg := by
  decide +kernel

/-- … `Reset` to a 2-byte source and read with sizes 5, 0, 3, 100, 4: the 21 pending bytes are gone, a
complete 21-byte frame for `[9, 8]` is delivered, then `io.EOF` -/
example : (session (reset mid (srcOf #[9, 8])) [5, 0, 3, 100, 4]).1 =
    [(5, #[4, 34, 77, 24, 100], none),
     (0, #[], none),
     (3, #[112, 185, 2], none),
     (100, #[0, 0, 128, 9, 8, 0, 0, 0, 0, 23, 75, 176, 198], none),
     (4, #[], some .eof)] := by
  decide +kernel

/-- the hypotheses of `reuse_frame_eq_reset` / `reuse_frame_valid_reset` hold, so the theorems apply … -/
example : output (session (reset mid (srcOf #[9, 8])) [5, 0, 3, 100, 4]).1 =
      frameOf (reset mid (srcOf #[9, 8])).cfg #[9, 8] ∧
    ∃ info, Spec.Frame.decode (output (session (reset mid (srcOf #[9, 8])) [5, 0, 3, 100, 4]).1).toList true =
      .ok ⟨info, #[9, 8], 21⟩ := by
  have hs : session (reset mid (srcOf #[9, 8])) [5, 0, 3, 100, 4] =
      ((session (reset mid (srcOf #[9, 8])) [5, 0, 3, 100, 4]).1,
       (session (reset mid (srcOf #[9, 8])) [5, 0, 3, 100, 4]).2) :=
    by generalize session (reset mid (srcOf #[9, 8])) [5, 0, 3, 100, 4] = p; rfl
  have hc : CfgOK mid.cfg := by decide +kernel
  refine ⟨reuse_frame_eq_reset mid hc #[9, 8] _ _ _ hs (by decide +kernel), ?_⟩
  obtain ⟨info, h, _⟩ := reuse_frame_valid_reset mid hc #[9, 8] [5, 0, 3, 100, 4] (by decide +kernel)
    (by decide +kernel) _ _ hs (by decide +kernel)
  rw [show (output (session (reset mid (srcOf #[9, 8])) [5, 0, 3, 100, 4]).1).size = 21 by decide +kernel] at h
  exact ⟨info, h⟩

/-- … and with `Apply` after `Reset` (64 KiB blocks, block checksums, no content checksum, announced size):
hypotheses of `reuse_frame_eq` / `reuse_frame_valid` checked by evaluation, conclusions by the theorems -/
private def opts2 : List FrameW.Opt := [.blockSize 65536, .blockChecksum true, .checksum false, .size 2]

example : (apply (reset mid (srcOf #[9, 8])) opts2).2 = none ∧
    (session (apply (reset mid (srcOf #[9, 8])) opts2).1 [2, 30, 1, 1]).1 =
      [(2, #[4, 34], none),
       (30, #[77, 24, 120, 64, 2, 0, 0, 0, 0, 0, 0, 0, 158, 2, 0, 0, 128, 9, 8, 23, 75, 176, 198, 0, 0, 0, 0], none),
       (1, #[], some .eof)] := by
  decide +kernel

example : output (session (apply (reset mid (srcOf #[9, 8])) opts2).1 [2, 30, 1, 1]).1 =
      frameOf (apply (reset mid (srcOf #[9, 8])) opts2).1.cfg #[9, 8] ∧
    ∃ info, Spec.Frame.decode (output (session (apply (reset mid (srcOf #[9, 8])) opts2).1 [2, 30, 1, 1]).1).toList
        true = .ok ⟨info, #[9, 8], 29⟩ ∧ info.blockChecksum = true ∧ info.contentChecksum = false ∧
      info.contentSize = some 2 ∧ info.blockMax = 65536 := by
  have hs : session (apply (reset mid (srcOf #[9, 8])) opts2).1 [2, 30, 1, 1] =
      ((session (apply (reset mid (srcOf #[9, 8])) opts2).1 [2, 30, 1, 1]).1,
       (session (apply (reset mid (srcOf #[9, 8])) opts2).1 [2, 30, 1, 1]).2) :=
    by generalize session (apply (reset mid (srcOf #[9, 8])) opts2).1 [2, 30, 1, 1] = p; rfl
  have hc : CfgOK mid.cfg := by decide +kernel
  refine ⟨reuse_frame_eq mid hc #[9, 8] opts2 _ _ _ hs (by decide +kernel), ?_⟩
  obtain ⟨info, h, _, _, _, h4, h5, h6, h7⟩ := reuse_frame_valid mid hc #[9, 8] opts2 [2, 30, 1, 1]
    (by decide +kernel) (by decide +kernel) _ _ hs (by decide +kernel)
  rw [show (output (session (apply (reset mid (srcOf #[9, 8])) opts2).1 [2, 30, 1, 1]).1).size = 29
    by decide +kernel] at h
  refine ⟨info, h, ?_, ?_, ?_, ?_⟩
  · rw [h4]; decide +kernel
  · rw [h5]; decide +kernel
  · rw [h6]; decide +kernel
  · rw [h7]; decide +kernel

/-- a reader killed by a source error (state done) is revived by `Reset`; `Apply` on the dead reader is
refused, on the reset one accepted -/
example :
    let dead : CR := (read (new { data := #[1, 2, 3], failAt := some 0 }) 100).1
    dead.st = .done ∧ (read dead 10).2 = (#[], some .readerDone) ∧
    (apply dead []).2 = some .closedOrError ∧ (apply (reset dead (srcOf #[9, 8])) []).2 = none ∧
    output (session (reset dead (srcOf #[9, 8])) [100, 1]).1 =
      #[4, 34, 77, 24, 100, 112, 185, 2, 0, 0, 128, 9, 8, 0, 0, 0, 0, 23, 75, 176, 198] ∧
    (session (reset dead (srcOf #[9, 8])) [100, 1]).1.getLast?.map (·.2.2) = some (some .eof) := by
  decide +kernel

/-- a hand-made state no session produces exactly (state reading, source half consumed, overflow pending
with `ovPos > 0`, arbitrary checksum state): the theorems only ask for `CfgOK`, and the reset reader delivers
the frame of the new source -/
example :
    let c : CR := { st := .reading, cfg := (new (srcOf #[])).cfg, src := { data := #[5, 6, 7, 8], pos := 2, calls := 1 },
                    cks := XXH.write XXH.zero [5, 6], ov := #[1, 2, 3], ovPosNonZero := true }
    CfgOK c.cfg ∧
    (session (reset c (srcOf #[9, 8])) [100, 1]).1 =
      [(100, #[4, 34, 77, 24, 100, 112, 185, 2, 0, 0, 128, 9, 8, 0, 0, 0, 0, 23, 75, 176, 198], none),
       (1, #[], some .eof)] := by
  decide +kernel

/-- `reset_forgets`, evaluated on both sides independently, and the reason the final states are only
`ObsEq`: with no read (or zero-length reads only) the reset reader still has the old checksum state -/
example : (session (reset mid (srcOf #[9, 8])) [5, 0, 3, 100, 4]).1 =
      (session { (new (srcOf #[9, 8])) with cfg := mid.cfg } [5, 0, 3, 100, 4]).1 ∧
    (session (reset mid (srcOf #[9, 8])) [0, 0]).2.cks = mid.cks ∧
    (session { (new (srcOf #[9, 8])) with cfg := mid.cfg } [0, 0]).2.cks = XXH.zero ∧
    mid.cks ≠ XXH.zero := by
  decide +kernel

/-- so the literal equality of the whole sessions (results AND final state) fails -/
example : session (reset mid (srcOf #[9, 8])) [0, 0] ≠
    session { (new (srcOf #[9, 8])) with cfg := mid.cfg } [0, 0] := by
  intro h
  have h2 := congrArg (fun p => p.2.cks) h
  revert h2
  decide +kernel

/-- the reused reader's frame is the fresh reader's frame (`mid.cfg` is the default configuration with the
descriptor bits set) -/
example : mid.cfg.flags = Proofs.FrameW.initFlags (new (srcOf #[])).cfg.flags ∧
    frameOf mid.cfg #[9, 8] = frameOf (new (srcOf #[9, 8])).cfg #[9, 8] ∧
    frameOf mid.cfg #[9, 8] = Run.writtenBytes [] [#[9, 8]] := by
  decide +kernel

end Lz4V.Props.C18reuse

#print axioms Lz4V.Props.C18reuse.cfgOK_new
#print axioms Lz4V.Props.C18reuse.cfgOK_apply
#print axioms Lz4V.Props.C18reuse.cfgOK_read
#print axioms Lz4V.Props.C18reuse.cfgOK_reset
#print axioms Lz4V.Props.C18reuse.reach_cfgOK
#print axioms Lz4V.Props.C18reuse.cfgOK_iff
#print axioms Lz4V.Props.C18reuse.reset_wf
#print axioms Lz4V.Props.C18reuse.reset_apply_wf
#print axioms Lz4V.Props.C18reuse.cfg_needed
#print axioms Lz4V.Props.C18reuse.reuse_frame_eq
#print axioms Lz4V.Props.C18reuse.reuse_frame_eq_reset
#print axioms Lz4V.Props.C18reuse.reuse_frame_eq_reach
#print axioms Lz4V.Props.C18reuse.reuse_cfg
#print axioms Lz4V.Props.C18reuse.frameOf_descriptor_bits
#print axioms Lz4V.Props.C18reuse.reuse_frame_valid
#print axioms Lz4V.Props.C18reuse.reuse_frame_valid_reset
#print axioms Lz4V.Props.C18reuse.reuse_reaches_eof
#print axioms Lz4V.Props.C18reuse.reset_forgets
#print axioms Lz4V.Props.C18reuse.reset_forgets_state
#print axioms Lz4V.Props.C18reuse.reset_forgets_state_eq
#print axioms Lz4V.Props.C18reuse.reset_apply_forgets
#print axioms Lz4V.Props.C18reuse.reset_forgets_two
#print axioms Lz4V.Props.C18reuse.reset_keeps_cks
