import Lz4V.Props.C01fast
import Lz4V.Props.C01hc
import Lz4V.Props.C03asm
import Lz4V.Props.C04go
import Lz4V.Proofs.FrameRBlk
/-!
# C01 as literally stated: compress a block, then decompress it *with the package's own decoders*
into a buffer of the original length

`C01fast.c01_fast` / `C01hc.c01_hc` say that the compressor output decodes, under the independent
block specification, to the source.  Here this is composed with the correctness of the two decoders
of the package (C04): the portable decoder behind the `UncompressBlock` wrapper (`uncompressGo`) and
the amd64 assembly decoder (`Model.DecodeAsm.decodeBlock`).

* `c01_fast_go`, `c01_hc_go` — proved exactly as stated (the hypothesis `src.size < 2^63` is the
  standing assumption of the portable decoder's model, true of every Go slice);
* `c01_fast_asm`, `c01_hc_asm` — proved exactly as stated: for any memory layout Go guarantees, with
  no dictionary, whose source region is the compressed block and whose destination length is the
  original length, the routine returns the original length and `dst[0:len)` holds the source.
-/
namespace Lz4V.Props.C01rt
open Lz4V Lz4V.Model

/-- the `UncompressBlock` wrapper over the portable decoder: empty source ↦ (0, nil) -/
def uncompressGo (blk : Array UInt8) (dstLen : Nat) : Option (Array UInt8) :=
  FrameR.uncompressBlock blk dstLen #[]

/-- a compressed block of `n > 0` bytes inside `d`, as an array -/
theorem size_block (d : Array UInt8) (n : Nat) (hn : n ≤ d.size) : (d.extract 0 n).size = n := by
  simp only [Array.size_extract]; omega

/-- the wrapper over the portable decoder agrees with the block specification on a non-empty block -/
theorem uncompressGo_of_spec (blk src : Array UInt8) (hne : blk.size ≠ 0) (hs : src.size < 2 ^ 63)
    (hdec : Spec.Block.decode blk.toList [] src.size = some src) :
    uncompressGo blk src.size = some src := by
  unfold uncompressGo
  rw [Proofs.FrameR.uncompressBlock_eq blk #[] src.size hne hs]
  exact hdec

/-- C01, fast compressor + portable decoder: any destination of at least the bound -/
theorem c01_fast_go (src dst : Array UInt8) (h : Fast.bound src.size ≤ dst.size) (hs : src.size < 2 ^ 63) :
    ∃ n d, Fast.compressBlock src dst = .ok n d ∧ uncompressGo (d.extract 0 n) src.size = some src := by
  have h11 := C01fast.c11_fast src dst
  obtain ⟨n, d, hc, _, _, _⟩ := C01fast.c01_fast src dst h
  rw [hc] at h11
  obtain ⟨hn0, hn, hd, hdec, _⟩ := h11
  refine ⟨n, d, hc, uncompressGo_of_spec _ _ ?_ hs hdec⟩
  rw [size_block d n (by omega)]; omega

/-- C01, HC compressor at any depth + portable decoder -/
theorem c01_hc_go (src dst : Array UInt8) (depth : Nat) (h : HC.bound src.size ≤ dst.size)
    (hs : src.size < 2 ^ 63) :
    ∃ n d, HC.compressBlock src dst depth = .ok n d ∧ uncompressGo (d.extract 0 n) src.size = some src := by
  have h11 := C01hc.c11_hc src dst depth
  obtain ⟨n, d, hc, _, _, _⟩ := C01hc.c01_hc src dst depth h
  rw [hc] at h11
  obtain ⟨hn0, hn, hd, hdec, _⟩ := h11
  refine ⟨n, d, hc, uncompressGo_of_spec _ _ ?_ hs hdec⟩
  rw [size_block d n (by omega)]; omega

/-- the assembly decoder on a block that the specification decodes (no dictionary) to `src`, into a
destination of length `src.size`: returns `src.size`, and `dst[0:src.size)` is `src` -/
theorem asm_of_spec (src : Array UInt8) (m : DecodeAsm.Mem) (hl : C03asm.Layout m)
    (hd : m.dict.size = 0) (hlen : m.dstLen = src.size) (hne : m.src.size ≠ 0)
    (hdec : Spec.Block.decode m.src.toList [] src.size = some src) :
    ∃ m', DecodeAsm.decodeBlock m = .ok ((src.size : Int), m') ∧ m'.dst.extract 0 src.size = src := by
  have h3 := C03asm.c03_asm m hl
  have h4 := C03asm.c04_asm_partial m hl (Or.inl hd) hne
  have hdict : m.dict.toList = [] := by
    have : m.dict = #[] := Array.eq_empty_of_size_eq_zero hd
    rw [this]
  rw [hdict, hlen, hdec] at h4
  have hle := hl.dstLen_le
  cases hr : DecodeAsm.decodeBlock m with
  | error e => rw [hr] at h4; exact h4.elim
  | ok p =>
    obtain ⟨ret, m'⟩ := p
    rw [hr] at h3 h4
    simp only at h3 h4
    obtain ⟨hret, hsz, _⟩ := h3
    by_cases hneg : ret < 0
    · rw [if_pos hneg] at h4; exact absurd h4 (by simp)
    · rw [if_neg hneg] at h4
      have he : src = m'.dst.extract 0 ret.toNat := Option.some.inj h4
      have hsize := congrArg Array.size he
      simp only [Array.size_extract] at hsize
      have hret' : ret.toNat = src.size := by omega
      have hreq : ret = (src.size : Int) := by omega
      refine ⟨m', ?_, ?_⟩
      · rw [hreq]
      · rw [← hret']; exact he.symm

/-- C01 with the assembly decoder (fast compressor): for any memory layout Go guarantees whose source
region holds the compressed block and whose destination has the original length, the assembly
decoder returns the original length and bytes.  (`h` is kept from the statement as given; it is not
needed once `hc` says that the compressor succeeded.) -/
theorem c01_fast_asm (src dst : Array UInt8) (h : Fast.bound src.size ≤ dst.size)
    (m : DecodeAsm.Mem) (hl : C03asm.Layout m) (hd : m.dict.size = 0) (hlen : m.dstLen = src.size)
    (n : Nat) (d : Array UInt8) (hc : Fast.compressBlock src dst = .ok n d) (hsrc : m.src = d.extract 0 n) :
    ∃ m', DecodeAsm.decodeBlock m = .ok ((src.size : Int), m') ∧ m'.dst.extract 0 src.size = src := by
  have _ := h
  have h11 := C01fast.c11_fast src dst
  rw [hc] at h11
  obtain ⟨hn0, hn, hds, hdec, _⟩ := h11
  refine asm_of_spec src m hl hd hlen ?_ ?_
  · rw [hsrc, size_block d n (by omega)]; omega
  · rw [hsrc]; exact hdec

/-- C01 with the assembly decoder (HC compressor, any depth) -/
theorem c01_hc_asm (src dst : Array UInt8) (depth : Nat) (h : HC.bound src.size ≤ dst.size)
    (m : DecodeAsm.Mem) (hl : C03asm.Layout m) (hd : m.dict.size = 0) (hlen : m.dstLen = src.size)
    (n : Nat) (d : Array UInt8) (hc : HC.compressBlock src dst depth = .ok n d)
    (hsrc : m.src = d.extract 0 n) :
    ∃ m', DecodeAsm.decodeBlock m = .ok ((src.size : Int), m') ∧ m'.dst.extract 0 src.size = src := by
  have _ := h
  have h11 := C01hc.c11_hc src dst depth
  rw [hc] at h11
  obtain ⟨hn0, hn, hds, hdec, _⟩ := h11
  refine asm_of_spec src m hl hd hlen ?_ ?_
  · rw [hsrc, size_block d n (by omega)]; omega
  · rw [hsrc]; exact hdec

/-! ## Non-vacuity -/

/-- the hypotheses of `c01_fast_go` are satisfiable (a compressible 40-byte input, 100-byte buffer) -/
example : ∃ n d, Fast.compressBlock (Array.replicate 40 97) (Array.replicate 100 0) = .ok n d ∧
    uncompressGo (d.extract 0 n) (Array.replicate 40 (97 : UInt8)).size = some (Array.replicate 40 97) :=
  c01_fast_go _ _ (by decide) (by decide)

/-- the same for the HC compressor at depth 0 (unlimited) and depth 4 -/
example : ∃ n d, HC.compressBlock (Array.replicate 40 97) (Array.replicate 100 0) 0 = .ok n d ∧
    uncompressGo (d.extract 0 n) (Array.replicate 40 (97 : UInt8)).size = some (Array.replicate 40 97) :=
  c01_hc_go _ _ 0 (by decide) (by decide)
example : ∃ n d, HC.compressBlock (Array.replicate 40 97) (Array.replicate 100 0) 4 = .ok n d ∧
    uncompressGo (d.extract 0 n) (Array.replicate 40 (97 : UInt8)).size = some (Array.replicate 40 97) :=
  c01_hc_go _ _ 4 (by decide) (by decide)

/-- the empty source: the compressed block is the single token `00`, and it decompresses to nothing -/
example : ∃ n d, Fast.compressBlock #[] (Array.replicate 16 0) = .ok n d ∧
    uncompressGo (d.extract 0 n) (#[] : Array UInt8).size = some #[] :=
  c01_fast_go _ _ (by decide) (by decide)

/-- a concrete memory image for the assembly decoder: the block produced by the fast compressor on
40 × `a` placed at a Go-like address, a 40-byte destination inside a 48-byte capacity -/
def exMem (blk : Array UInt8) : DecodeAsm.Mem :=
  { dst := Array.replicate 48 0, dstLen := 40, src := blk, dict := #[],
    dstBase := 0xc000100000, srcBase := 0xc000200000, dictBase := 0 }

/-- all hypotheses of `c01_fast_asm` / `c01_hc_asm` are jointly satisfiable, for whatever block the
compressor returns -/
example : ∃ n d m, Fast.compressBlock (Array.replicate 40 97) (Array.replicate 100 0) = .ok n d ∧
    C03asm.Layout m ∧ m.dict.size = 0 ∧ m.dstLen = (Array.replicate 40 (97 : UInt8)).size ∧
    m.src = d.extract 0 n ∧
    ∃ m', DecodeAsm.decodeBlock m = .ok (((Array.replicate 40 (97 : UInt8)).size : Int), m') ∧
      m'.dst.extract 0 (Array.replicate 40 (97 : UInt8)).size = Array.replicate 40 97 := by
  obtain ⟨n, d, hc, _, hn, _⟩ := C01fast.c01_fast (Array.replicate 40 97) (Array.replicate 100 0) (by decide)
  have hlay : C03asm.Layout (exMem (d.extract 0 n)) := by
    simp only [Array.size_replicate] at hn
    constructor <;> simp [exMem] <;> omega
  exact ⟨n, d, exMem (d.extract 0 n), hc, hlay, rfl, rfl, rfl,
    c01_fast_asm _ _ (by decide) _ hlay rfl rfl n d hc rfl⟩

example : ∃ n d m, HC.compressBlock (Array.replicate 40 97) (Array.replicate 100 0) 0 = .ok n d ∧
    C03asm.Layout m ∧ m.dict.size = 0 ∧ m.dstLen = (Array.replicate 40 (97 : UInt8)).size ∧
    m.src = d.extract 0 n ∧
    ∃ m', DecodeAsm.decodeBlock m = .ok (((Array.replicate 40 (97 : UInt8)).size : Int), m') ∧
      m'.dst.extract 0 (Array.replicate 40 (97 : UInt8)).size = Array.replicate 40 97 := by
  obtain ⟨n, d, hc, _, hn, _⟩ := C01hc.c01_hc (Array.replicate 40 97) (Array.replicate 100 0) 0 (by decide)
  have hlay : C03asm.Layout (exMem (d.extract 0 n)) := by
    simp only [Array.size_replicate] at hn
    constructor <;> simp [exMem] <;> omega
  exact ⟨n, d, exMem (d.extract 0 n), hc, hlay, rfl, rfl, rfl,
    c01_hc_asm _ _ 0 (by decide) _ hlay rfl rfl n d hc rfl⟩

end Lz4V.Props.C01rt

#print axioms Lz4V.Props.C01rt.c01_fast_go
#print axioms Lz4V.Props.C01rt.c01_hc_go
#print axioms Lz4V.Props.C01rt.c01_fast_asm
#print axioms Lz4V.Props.C01rt.c01_hc_asm
