import Lz4V.Model.Objects
/-!
# C14 / C01 / C11 — compressor objects: every call on every reused object is the per-call function

`fast_object`: for ANY table and bitmap contents a `Compressor` may hold, `CompressBlock` computes
`Fast.compressBlock` (the function all block-level theorems are about).
`hc_object`: for every `CompressorHC` reachable from the zero value — whatever the earlier calls left
in the tables, whether they succeeded, failed or panicked-and-recovered — `CompressBlock` computes
`HC.compressBlock`.  The invariant `HCInv` (flag set, or tables still zero) is what the two opening
statements of the Go function maintain; an object with dirty tables and a clear flag — what a misplaced
`needsReset = true` produces when a call fails early — is outside it, and the `hist:` cases of the
correspondence drive exactly such histories on the real object.
-/
namespace Lz4V.Props.C14obj
open Lz4V.Gen Lz4V.Model Lz4V.Model.Objects

theorem fast_view_reset (c : FastObj) : c.reset.view = Fast.emptyTable := by
  unfold FastObj.view FastObj.reset Fast.emptyTable
  apply Array.ext
  · simp
  · intro i h1 h2
    simp only [Array.size_ofFn] at h1
    simp

/-- fast compressor: the result does not depend on the object's state -/
theorem fast_object (c : FastObj) (src dst : Array UInt8) :
    c.compressBlock src dst = Fast.compressBlock src dst := by
  unfold FastObj.compressBlock Fast.compressBlock
  rw [fast_view_reset]

/-- the invariant of `CompressorHC`: the flag is set, or the tables are still zero -/
def HCInv (c : HCObj) : Prop := c.needsReset = true ∨ (c.hashTable = HC.zeroTable ∧ c.chainTable = HC.zeroTable)

theorem hcInv_zero : HCInv HCObj.zero := Or.inr ⟨rfl, rfl⟩

theorem hcInv_after (c : HCObj) (ht ct : Array Nat) : HCInv (c.after ht ct) := by
  left; simp [HCObj.after, HCObj.enter]

theorem hcInv_reach (c : HCObj) (h : HCObj.Reach c) : HCInv c := by
  cases h with
  | zero => exact hcInv_zero
  | call c ht ct _ => exact hcInv_after c ht ct

theorem enter_tables (c : HCObj) (h : HCInv c) :
    c.enter.hashTable = HC.zeroTable ∧ c.enter.chainTable = HC.zeroTable := by
  unfold HCObj.enter
  rcases h with h | ⟨h1, h2⟩
  · simp [h]
  · by_cases hn : c.needsReset = true
    · simp [hn]
    · simp [hn, h1, h2]

/-- HC compressor: under the invariant every call is the per-call function -/
theorem hc_object_inv (c : HCObj) (h : HCInv c) (src dst : Array UInt8) (depth : Nat) :
    c.compressBlock src dst depth = HC.compressBlock src dst depth := by
  unfold HCObj.compressBlock HC.compressBlock
  obtain ⟨h1, h2⟩ := enter_tables c h
  simp only [h1, h2]

/-- … hence on every reachable object, whatever the earlier calls left behind -/
theorem hc_object (c : HCObj) (h : HCObj.Reach c) (src dst : Array UInt8) (depth : Nat) :
    c.compressBlock src dst depth = HC.compressBlock src dst depth :=
  hc_object_inv c (hcInv_reach c h) src dst depth

/-- the object after any call has the flag set: the next call zeroes the tables -/
theorem hc_after_flag (c : HCObj) (ht ct : Array Nat) : (c.after ht ct).needsReset = true := by
  simp [HCObj.after, HCObj.enter]

end Lz4V.Props.C14obj
