import Lz4V.Proofs.HC
/-!
# C01 / C10 / C11 for the high-compression block compressor (`Model.HC.compressBlock`)

* `c11_hc` — for *any* destination size and *any* search depth the call never panics (in particular
  the chain walk and the unmasked table indices `blockHashHC(x)`, `si&winMask` never go out of range
  — `side_hash_in_range`, `side_win_le_ht` — so the `recoverBlock` path is dead); on success the `n`
  bytes written decode (under `Spec.Block.decode`, no dictionary, `maxOut = len(src)`) to `src` and
  are strictly valid (`Spec.Block.strictValid`: parses, offsets in range, last 5 bytes literals, last
  match starts ≥ 12 bytes before the end); `(0, nil)` / `(0, err)` are returned only when
  `len(dst) < CompressBlockBound(len(src))`;
* `c01_hc` — with `len(dst) ≥ CompressBlockBound(len(src))` the call succeeds and round-trips.
-/
namespace Lz4V.Props.C01hc
open Lz4V Lz4V.Model.HC Lz4V.Model.Emit

/-! ## Side conditions on the regenerated constants

The model indexes `hashTable` with the unmasked `blockHashHC` value and `chainTable` with
`si & winMask`, like the Go code; an out-of-range index is a (recovered) panic, i.e. `.err`.  The
property rests on these two facts about the regenerated `Gen` definitions (e.g. `hashLog = 15`
would falsify both). -/

/-- `blockHashHC` (a 32-bit product shifted right by 16) is always a valid index into `hashTable [htSize]int` -/
theorem side_hash_in_range (x : UInt32) : (Gen.blockHashHC x).toNat < Gen.htSize :=
  Proofs.HC.hash_in_range x

/-- `si & winMask < winSize ≤ htSize`: a valid index into `chainTable [htSize]int` -/
theorem side_win_le_ht : Gen.winSize ≤ Gen.htSize := Proofs.HC.win_le_ht

/-- C01/C10/C11 for the HC compressor: any destination size, any search depth -/
theorem c11_hc (src dst : Array UInt8) (depth : Nat) :
    match compressBlock src dst depth with
    | .ok n d => 0 < n ∧ n ≤ dst.size ∧ d.size = dst.size ∧
        Spec.Block.decode (d.extract 0 n).toList [] src.size = some src ∧
        Spec.Block.strictValid (d.extract 0 n).toList = true
    | .zero => dst.size < bound src.size
    | .err => dst.size < bound src.size
    | .panic => False :=
  Proofs.HC.compressBlock_spec src dst depth

/-- C01: a destination of at least CompressBlockBound(len(src)) bytes always succeeds, at any depth -/
theorem c01_hc (src dst : Array UInt8) (depth : Nat) (h : bound src.size ≤ dst.size) :
    ∃ n d, compressBlock src dst depth = .ok n d ∧ 0 < n ∧ n ≤ dst.size ∧
      Spec.Block.decode (d.extract 0 n).toList [] src.size = some src := by
  have h11 := c11_hc src dst depth
  cases hr : compressBlock src dst depth with
  | ok n d =>
    rw [hr] at h11
    exact ⟨n, d, rfl, h11.1, h11.2.1, h11.2.2.2.1⟩
  | zero => rw [hr] at h11; simp only at h11; omega
  | err => rw [hr] at h11; simp only at h11; omega
  | panic => rw [hr] at h11; exact h11.elim

/-! ## Non-vacuity -/

/-- the hypothesis of `c01_hc` is satisfiable, hence the `.ok` branch of `c11_hc` is inhabited
(a compressible 40-byte input into a 100-byte buffer, depth 0 = unlimited; `#eval` gives `ok 21 …`) -/
example : ∃ n d, compressBlock (Array.replicate 40 97) (Array.replicate 100 0) 0 = .ok n d ∧ 0 < n ∧
    n ≤ (Array.replicate 100 (0 : UInt8)).size ∧
    Spec.Block.decode (d.extract 0 n).toList [] (Array.replicate 40 (97 : UInt8)).size
      = some (Array.replicate 40 97) :=
  c01_hc _ _ 0 (by decide)

/-- the same at depth 4 -/
example : ∃ n d, compressBlock (Array.replicate 40 97) (Array.replicate 100 0) 4 = .ok n d ∧ 0 < n ∧
    n ≤ (Array.replicate 100 (0 : UInt8)).size ∧
    Spec.Block.decode (d.extract 0 n).toList [] (Array.replicate 40 (97 : UInt8)).size
      = some (Array.replicate 40 97) :=
  c01_hc _ _ 4 (by decide)

/-- the `.err` branch of `c11_hc` is inhabited (empty destination; short inputs skip the
"incompressible" test, so this is `.err` where the fast compressor returns `.zero`) -/
example : compressBlock #[] #[] 0 = .err := by rfl

/-- the `.zero` branch of `c11_hc` is inhabited (one byte into a one-byte destination) -/
example : compressBlock #[1] #[0] 0 = .zero := by rfl

/-- with an empty destination the result is never `.ok` (so `.zero`/`.err` do occur): instance of `c11_hc` -/
example (src : Array UInt8) (depth : Nat) : ∀ n d, compressBlock src #[] depth ≠ .ok n d := by
  intro n d h
  have := c11_hc src #[] depth
  rw [h] at this
  simp only [Array.size_empty] at this
  omega

end Lz4V.Props.C01hc

#print axioms Lz4V.Props.C01hc.side_hash_in_range
#print axioms Lz4V.Props.C01hc.side_win_le_ht
#print axioms Lz4V.Props.C01hc.c11_hc
#print axioms Lz4V.Props.C01hc.c01_hc
