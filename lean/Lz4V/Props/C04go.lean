import Lz4V.Proofs.DecodeGo
import Lz4V.Proofs.DecodeGoUnbounded
/-!
# C03 / C04 for the portable Go block decoder (`decode_other.go`)

`c03_go` is proved exactly as stated.

`c04_go` and `c04_go_indep` are proved under ONE added hypothesis, `dst.size < 2 ^ 63`
(theorems `c04_go_partial`, `c04_go_indep_partial`).  The hypothesis is the model's own standing
assumption ("no length reaches 2^63", see `Model/DecodeGo.lean`) and holds for every Go slice
(`len` is an `int`).  It cannot be dropped: the model runs the doubling copy with a fuel of 64
iterations, so for an overlapping match with `mLen ≥ 2^63 * offset` into a destination of
`≥ 2^63` bytes the model answers `.err` while the specification defines an output.  This is
machine-checked: `c04_go_unbounded_false` proves the NEGATION of `c04_go` as literally stated
(witness: a `2^63`-byte destination and a `2^63`-byte match at offset 1).  Nothing else
is restricted: all paths (plain literals, Shortcut 1, Shortcut 2, dictionary matches,
non-overlapping and overlapping (doubling) matches, every error case) are covered.
-/
namespace Lz4V.Props.C04go
open Lz4V Lz4V.Model.DecodeGo

/-- C03 (portable decoder): the result is an error or a count within the destination; the
destination array never changes size -/
theorem c03_go (src dst dict : Array UInt8) :
    match decodeBlock dst src dict with
    | .ok di d => di ≤ dst.size ∧ d.size = dst.size
    | .err d => d.size = dst.size :=
  Proofs.DecodeGo.decodeBlock_safe src dst dict

/- Full statement as given (NOT proved in this generality, see the header):
theorem c04_go (src dst dict : Array UInt8) (hsrc : src.size ≠ 0) :
    match decodeBlock dst src dict with
    | .ok di d => Spec.Block.decode src.toList dict.toList dst.size = some (d.extract 0 di)
    | .err _ => Spec.Block.decode src.toList dict.toList dst.size = none
-/

/-- `c04_go` as literally stated (no bound on `dst.size`) is false for the model. -/
theorem c04_go_unbounded_false :
    ¬ (∀ (src dst dict : Array UInt8), src.size ≠ 0 →
      match decodeBlock dst src dict with
      | .ok di d => Spec.Block.decode src.toList dict.toList dst.size = some (d.extract 0 di)
      | .err _ => Spec.Block.decode src.toList dict.toList dst.size = none) :=
  Proofs.DecodeGoUnbounded.decodeBlock_spec_unbounded_false

/-- C04 (portable decoder): total agreement with the specification.
Added hypothesis relative to `c04_go`: `hdst : dst.size < 2 ^ 63`. -/
theorem c04_go_partial (src dst dict : Array UInt8) (hsrc : src.size ≠ 0) (hdst : dst.size < 2 ^ 63) :
    match decodeBlock dst src dict with
    | .ok di d => Spec.Block.decode src.toList dict.toList dst.size = some (d.extract 0 di)
    | .err _ => Spec.Block.decode src.toList dict.toList dst.size = none :=
  Proofs.DecodeGo.decodeBlock_spec src dst dict hsrc hdst

/- Full statement as given:
theorem c04_go_indep (src dst dst' dict : Array UInt8) (hsz : dst.size = dst'.size) (hsrc : src.size ≠ 0) :
    (match decodeBlock dst src dict, decodeBlock dst' src dict with
     | .ok di d, .ok di' d' => di = di' ∧ d.extract 0 di = d'.extract 0 di'
     | .err _, .err _ => True
     | _, _ => False)
-/

/-- consequence: the decoded bytes do not depend on the prior contents of the destination.
Added hypothesis relative to `c04_go_indep`: `hdst : dst.size < 2 ^ 63`. -/
theorem c04_go_indep_partial (src dst dst' dict : Array UInt8) (hsz : dst.size = dst'.size)
    (hsrc : src.size ≠ 0) (hdst : dst.size < 2 ^ 63) :
    (match decodeBlock dst src dict, decodeBlock dst' src dict with
     | .ok di d, .ok di' d' => di = di' ∧ d.extract 0 di = d'.extract 0 di'
     | .err _, .err _ => True
     | _, _ => False) := by
  have h1 := c04_go_partial src dst dict hsrc hdst
  have h2 := c04_go_partial src dst' dict hsrc (by omega)
  have s1 := c03_go src dst dict
  have s2 := c03_go src dst' dict
  rw [← hsz] at h2
  cases hr1 : decodeBlock dst src dict with
  | ok di d =>
    cases hr2 : decodeBlock dst' src dict with
    | ok di' d' =>
      rw [hr1] at h1 s1
      rw [hr2] at h2 s2
      simp only at h1 h2 s1 s2 ⊢
      rw [h1] at h2
      have he : d.extract 0 di = d'.extract 0 di' := Option.some.inj h2
      have hsize := congrArg Array.size he
      simp only [Array.size_extract] at hsize
      exact ⟨by omega, he⟩
    | err d' =>
      rw [hr1] at h1
      rw [hr2] at h2
      simp only at h1 h2 ⊢
      rw [h1] at h2
      exact absurd h2 (by simp)
  | err d =>
    cases hr2 : decodeBlock dst' src dict with
    | ok di' d' =>
      rw [hr1] at h1
      rw [hr2] at h2
      simp only at h1 h2 ⊢
      rw [h1] at h2
      exact absurd h2 (by simp)
    | err d' => trivial

/-! ## non-vacuity -/

/-- observable part of a result, with decidable equality -/
def toOpt : Res → Option (Nat × Array UInt8)
  | .ok di d => some (di, d)
  | .err _ => none

/-- one literal `a`, then an overlapping match (offset 1, length 7): exercises the doubling copy -/
example : toOpt (decodeBlock (Array.replicate 8 0) #[0x13, 0x61, 0x01, 0x00] #[]) =
    some (8, Array.replicate 8 0x61) := by decide
example : Spec.Block.decode [0x13, 0x61, 0x01, 0x00] [] 8 = some (Array.replicate 8 0x61) := by decide
/-- the hypotheses of `c04_go_partial` / `c04_go_indep_partial` are satisfiable on that block, and
the conclusion is the non-trivial `.ok` case -/
example : (#[0x13, 0x61, 0x01, 0x00] : Array UInt8).size ≠ 0 ∧ (Array.replicate 8 (0 : UInt8)).size < 2 ^ 63 := by
  decide
/-- the same block with a dictionary match (offset 2 reaches one byte into the dictionary) -/
example : toOpt (decodeBlock (Array.replicate 8 7) #[0x13, 0x61, 0x02, 0x00] #[0x62]) =
    some (8, #[0x61, 0x62, 0x61, 0x62, 0x61, 0x62, 0x61, 0x62]) := by decide
/-- independence of the prior destination contents, on the concrete block -/
example : toOpt (decodeBlock (Array.replicate 8 0) #[0x13, 0x61, 0x01, 0x00] #[]) =
    toOpt (decodeBlock (Array.replicate 8 9) #[0x13, 0x61, 0x01, 0x00] #[]) := by decide
/-- an error case (output larger than the destination) -/
example : toOpt (decodeBlock (Array.replicate 7 0) #[0x13, 0x61, 0x01, 0x00] #[]) = none ∧
    Spec.Block.decode [0x13, 0x61, 0x01, 0x00] [] 7 = none := by decide

end Lz4V.Props.C04go

