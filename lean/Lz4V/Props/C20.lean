import Lz4V.Props.C09full
/-!
# C20 — the flag-to-option mapping of `lz4c compress`

`cmd/lz4c/compress.go` builds the Writer options from the command-line flags as

    lz4.BlockChecksumOption(blockChecksum),          // -bc   "enable block checksum"
    lz4.BlockSizeOption(lz4.BlockSize(blockSize)),   // -size "block max size [64K,256K,1M,4M]"
    lz4.ChecksumOption(streamChecksum),              // -sc   "disable stream checksum"; streamChecksum = !sc
    lz4.CompressionLevelOption(level),               // -l    "compression level (0=fastest)"; level = switch(l)
    lz4.ConcurrencyOption(concurrency),              // -c

`optsOf` is that list; `flags_effect` states that every flag has the effect its usage text
announces on the configuration the frame is emitted from, and `roundtrip` that the emitted frame
carries those parameters and decodes (strict specification) to the content.

`roundtrip` is stated against `Spec.Frame.decode` (the reference decoder): the Reader-side
completeness theorem (C02, "the Reader delivers what the specification decodes") is proved
separately; composing it with `roundtrip` gives the `uncompress` half.  The reader concurrency
`num` therefore does not appear here.  Two concrete sessions are evaluated through the Reader model
(`Run.readAll`) at the end of the file.
-/
namespace Lz4V.Props.C20
open Lz4V Lz4V.Model

/-- the flags of `lz4c compress` -/
structure Flags where
  (bc sc : Bool) (size : Nat) (l : Nat) (c : Nat)

/-- the level switch of compress.go: 0 ↦ Fast, 1..9 ↦ Level1..Level9, anything else ↦ Fast -/
def levelOf (l : Nat) : Nat :=
  match l with
  | 1 => Gen.lvl1 | 2 => Gen.lvl2 | 3 => Gen.lvl3 | 4 => Gen.lvl4 | 5 => Gen.lvl5 | 6 => Gen.lvl6
  | 7 => Gen.lvl7 | 8 => Gen.lvl8 | 9 => Gen.lvl9 | _ => Gen.lvlFast

/-- the option list handed to `Writer.Apply` -/
def optsOf (f : Flags) : List FrameW.Opt :=
  [.blockChecksum f.bc, .blockSize f.size, .checksum (!f.sc), .level (levelOf f.l), .concurrency f.c]

/-- the level switch only produces levels `CompressionLevelOption` accepts -/
theorem validLevel_levelOf (l : Nat) : FrameW.validLevel (levelOf l) = true := by
  unfold levelOf; split <;> decide

/-- the HC search depth is `1 <<< (8 + l)` for `l` in 1..9 and 0 (fast compressor) otherwise -/
theorem levelOf_eq : ∀ l : Nat, levelOf l = if 1 ≤ l ∧ l ≤ 9 then 2 ^ (8 + l) else 0
  | 0 => rfl | 1 => rfl | 2 => rfl | 3 => rfl | 4 => rfl | 5 => rfl | 6 => rfl | 7 => rfl | 8 => rfl | 9 => rfl
  | n + 10 => by rw [if_neg (by omega)]; rfl

/-- the descriptor flags after the three flag-setting options, starting from `NewWriter`'s defaults -/
def flagsOf (bc sc : Bool) (size : Nat) : FrameW.Flags :=
  FrameW.contentChecksumSet (FrameW.blockSizeIndexSet (FrameW.blockChecksumSet (FrameW.new none).cfg.flags bc)
    (FrameW.indexOf size).toUInt16) (!sc)

theorem go_optsOf (f : Flags) (hs : f.size = 65536 ∨ f.size = 262144 ∨ f.size = 1048576 ∨ f.size = 4194304) :
    FrameW.apply.go (FrameW.new none).cfg (optsOf f) =
      ({ flags := flagsOf f.bc f.sc f.size, level := levelOf f.l, num := f.c }, none) := by
  have hv := validLevel_levelOf f.l
  have hi : FrameW.indexOf f.size = 4 ∨ FrameW.indexOf f.size = 5 ∨ FrameW.indexOf f.size = 6 ∨
      FrameW.indexOf f.size = 7 := by
    rcases hs with h | h | h | h <;> rw [h] <;> decide
  simp only [optsOf, FrameW.apply.go, FrameW.applyOne, hv, hi, if_true, flagsOf]
  rfl

/-- `Apply` accepts the option list and the resulting configuration is … -/
theorem apply_optsOf (f : Flags) (hs : f.size = 65536 ∨ f.size = 262144 ∨ f.size = 1048576 ∨ f.size = 4194304) :
    FrameW.apply (FrameW.new none) (optsOf f) =
      ({ FrameW.reset (FrameW.new none) none with
          cfg := { flags := flagsOf f.bc f.sc f.size, level := levelOf f.l, num := f.c } }, none) := by
  rw [Proofs.FrameW.apply_new, go_optsOf f hs]
  rfl

theorem flagsOf_spec (bc sc : Bool) (size : Nat)
    (hs : size = 65536 ∨ size = 262144 ∨ size = 1048576 ∨ size = 4194304) :
    Gen.flagBlockChecksum (flagsOf bc sc size) = bc ∧ Gen.flagContentChecksum (flagsOf bc sc size) = !sc ∧
    FrameW.poolSize (FrameW.blockSizeIndex (flagsOf bc sc size)) = size ∧
    Gen.flagSize (flagsOf bc sc size) = false := by
  rcases hs with h | h | h | h <;> subst h <;> cases bc <;> cases sc <;> decide

/-- every flag has the effect its usage text states, on the frame that is emitted: block checksum flag in the
descriptor iff -bc; content checksum iff not -sc; declared block maximum = -size; HC depth = level -/
theorem flags_effect (f : Flags) (hs : f.size = 65536 ∨ f.size = 262144 ∨ f.size = 1048576 ∨ f.size = 4194304) :
    let w := (FrameW.apply (FrameW.new none) (optsOf f)).1
    (FrameW.apply (FrameW.new none) (optsOf f)).2 = none ∧
    Gen.flagBlockChecksum w.cfg.flags = f.bc ∧ Gen.flagContentChecksum w.cfg.flags = !f.sc ∧
    FrameW.poolSize (FrameW.blockSizeIndex w.cfg.flags) = f.size ∧ w.cfg.level = levelOf f.l ∧
    w.cfg.legacy = false := by
  obtain ⟨h1, h2, h3, -⟩ := flagsOf_spec f.bc f.sc f.size hs
  rw [apply_optsOf f hs]
  exact ⟨rfl, h1, h2, h3, rfl, rfl⟩

/-- the remaining two settings: `-c` is the Writer's concurrency, and no content size is announced -/
theorem flags_effect_rest (f : Flags) (hs : f.size = 65536 ∨ f.size = 262144 ∨ f.size = 1048576 ∨ f.size = 4194304) :
    let w := (FrameW.apply (FrameW.new none) (optsOf f)).1
    w.cfg.num = f.c ∧ Gen.flagSize w.cfg.flags = false ∧ w.cfg.contentSize = 0 := by
  obtain ⟨-, -, -, h4⟩ := flagsOf_spec f.bc f.sc f.size hs
  rw [apply_optsOf f hs]
  exact ⟨rfl, h4, rfl⟩

theorem concat_single (data : Array UInt8) : Run.concat [data] = data := by
  simp [Run.concat]

/-- and the file round trip: what `compress` writes for content `data` (one ReadFrom = one chunk here) is
one frame that carries the parameters the flags ask for and that the strict frame specification decodes
to `data`; the session reports no error -/
theorem roundtrip (f : Flags) (hs : f.size = 65536 ∨ f.size = 262144 ∨ f.size = 1048576 ∨ f.size = 4194304)
    (data : Array UInt8) (hlen : data.size < 2 ^ 64) :
    (Run.writeSession (optsOf f) [data]).2 = none ∧
    ∃ info, Spec.Frame.decode (Run.writtenBytes (optsOf f) [data]).toList true =
        .ok ⟨info, data, (Run.writtenBytes (optsOf f) [data]).size⟩ ∧
      info.blockChecksum = f.bc ∧ info.contentChecksum = !f.sc ∧ info.blockMax = f.size ∧
      info.contentSize = none ∧ info.version = 1 ∧ info.blockIndep = true := by
  obtain ⟨e1, e2, e3, e4, -, e6⟩ := flags_effect f hs
  obtain ⟨-, r2, r3⟩ := flags_effect_rest f hs
  have hnl : (C09.cfgOf (optsOf f)).legacy = false := e6
  have hclean := C09.c09_clean_all (optsOf f) [data] e1 hnl
  have hcs : (C09.cfgOf (optsOf f)).contentSize < 2 ^ 64 := by
    show (FrameW.apply (FrameW.new none) (optsOf f)).1.cfg.contentSize < 2 ^ 64
    rw [r3]; decide
  obtain ⟨info, hdec, hv, hbi, hbc, hcc, hsz, hbm⟩ :=
    C09.c09_writer_all (optsOf f) [data] hclean hnl hcs (by rw [concat_single]; exact hlen)
  rw [concat_single] at hdec
  refine ⟨hclean, info, hdec, ?_, ?_, ?_, ?_, hv, hbi⟩
  · rw [hbc]; exact e2
  · rw [hcc]; exact e3
  · rw [hbm]; exact e4
  · rw [hsz]
    show (if Gen.flagSize (FrameW.apply (FrameW.new none) (optsOf f)).1.cfg.flags = true then _ else _) = _
    rw [r2]; rfl

/-! ## non-vacuity -/

/-- `lz4c compress -bc -sc -size 64K -l 3 -c 4` on the 12-byte content `abcabcabcabc` (kept short so that the
kernel evaluates the compressor quickly: 12 bytes are below the LZ4 minimum and are stored) -/
private def exF : Flags := ⟨true, true, 65536, 3, 4⟩
private def exData : Array UInt8 := #[97, 98, 99, 97, 98, 99, 97, 98, 99, 97, 98, 99]

example : exF.size = 65536 ∨ exF.size = 262144 ∨ exF.size = 1048576 ∨ exF.size = 4194304 := Or.inl rfl
example : levelOf exF.l = Gen.lvl3 ∧ levelOf 0 = Gen.lvlFast ∧ levelOf 9 = Gen.lvl9 ∧ levelOf 10 = Gen.lvlFast := by
  decide

/-- the frame, evaluated independently of the theorems: magic, FLG = 0x70 (version 1, independent, block
checksum, NO content checksum), BD = 0x40 (64 KiB), HC, one stored block + block checksum, end mark -/
example : Run.writtenBytes (optsOf exF) [exData] =
    #[4, 34, 77, 24, 112, 64, 173, 12, 0, 0, 128, 97, 98, 99, 97, 98, 99, 97, 98, 99, 97, 98, 99,
      51, 102, 230, 65, 0, 0, 0, 0] := by decide +kernel

/-- `uncompress` (the Reader model, sequential or concurrent) restores the content and consumes the whole file -/
example : Run.readAll (Run.writtenBytes (optsOf exF) [exData]) 1 = (exData, none, 31) ∧
    Run.readAll (Run.writtenBytes (optsOf exF) [exData]) 4 = (exData, none, 31) := by decide +kernel

/-- the defaults (`lz4c compress` without flags: 4 MiB, stream checksum, fast): FLG = 0x64, BD = 0x70, no block
checksum, content checksum after the end mark -/
example : Run.writtenBytes (optsOf ⟨false, false, 4194304, 0, 1⟩) [exData] =
    #[4, 34, 77, 24, 100, 112, 185, 12, 0, 0, 128, 97, 98, 99, 97, 98, 99, 97, 98, 99, 97, 98, 99,
      0, 0, 0, 0, 51, 102, 230, 65] := by decide +kernel

/-
`#eval` evidence with a block that is really compressed (40 bytes `a`; kernel evaluation of the compressors'
64 Ki-entry tables takes minutes, so this is not an `example`):

  #eval Run.writtenBytes (optsOf ⟨true, true, 65536, 3, 4⟩) [Array.replicate 40 97]
  -- #[4, 34, 77, 24, 112, 64, 173, 21, 0, 0, 0, 47, 97, 97, 1, 0, 5, 224, 97 ×14, 198, 55, 165, 43, 0, 0, 0, 0]
  #eval Run.readAll (Run.writtenBytes (optsOf ⟨true, true, 65536, 3, 4⟩) [Array.replicate 40 97]) 4
  -- (Array.replicate 40 97, none, 40)
  #eval Run.writtenBytes (optsOf ⟨false, false, 4194304, 0, 1⟩) [Array.replicate 40 97]
  -- #[4, 34, 77, 24, 100, 112, 185, 23, 0, 0, 0, 31, 97, 1, 0, 1, 0, 2, 0, 0, 2, 0, 176, 97 ×11, 0, 0, 0, 0, 214, 22, 150, 106]
-/

/-- the hypothesis on `-size` is needed: any other value is refused by `BlockSizeOption` -/
example : (FrameW.apply (FrameW.new none) (optsOf ⟨false, false, 8388608, 0, 1⟩)).2 = some .badBlockSize ∧
    (FrameW.apply (FrameW.new none) (optsOf ⟨false, false, 1000, 0, 1⟩)).2 = some .badBlockSize := by
  decide +kernel

end Lz4V.Props.C20

#print axioms Lz4V.Props.C20.flags_effect
#print axioms Lz4V.Props.C20.flags_effect_rest
#print axioms Lz4V.Props.C20.roundtrip
