import Lz4V.Proofs.Det
/-!
# C14 — determinism: the emitted frame is a function of the stream and the options

* block level: the compressor models are functions of (source, destination size, depth);
* frame level: the bytes a clean session hands to the sink do not depend on how the stream is split across
  `Write` calls (`chunking`), nor on the concurrency level (`concurrency`).

Both frame-level statements are corollaries of `Proofs.Det.session_char`: a session hands the payload list
`frameW cfg cks BL p` to its sink, where `(BL, p)` is the unique cut of the whole stream into full blocks and a short
remainder.  The statements hold for every option list (also those `Apply` rejects, also legacy frames, every level)
and for empty chunks; the `_sessions` versions also cover sinks that fail.
-/
namespace Lz4V.Props.C14
open Lz4V Lz4V.Go Lz4V.Model Lz4V.Model.FrameW
open Lz4V.Proofs.Det (sessionWith)

/-- block level: the compressor models are functions of (source, destination size, depth) only — stated for the
record: whatever table state a previous call left behind, after the `reset` the Go code performs the call starts from
the empty table and the result is the same -/
theorem fast_pure (src dst : Array UInt8) :
    Fast.compressBlock src dst = Fast.compressBlockFrom Fast.emptyTable src dst := rfl

/-- block level, frame view: the payloads one data block contributes to the frame are a function of the descriptor
flags, the level, the frame kind and the block's source bytes (no hidden state: `writeBlock` over any sink that
accepts them stores exactly these) -/
theorem block_pure (cfg : Cfg) (lg : Bool) (cks : XXH.State) (sink : Sink) (src : Array UInt8) :
    (writeBlock cfg lg cks sink src).1 =
      (Proofs.Det.emits (sink, none) (Proofs.Det.blkWrites cfg.flags cfg.level lg src)).1 := by
  rw [Proofs.Det.writeBlock_eq]

/-- chunking independence: any two ways of splitting the same stream into Write calls give the same frame -/
theorem chunking (opts : List Opt) (chunks₁ chunks₂ : List (Array UInt8))
    (h : Run.concat chunks₁ = Run.concat chunks₂) :
    Run.writtenBytes opts chunks₁ = Run.writtenBytes opts chunks₂ := by
  unfold Run.writtenBytes
  rw [Proofs.Det.writeSession_eq, Proofs.Det.writeSession_eq,
    (Proofs.Det.chunking_sessions none opts chunks₁ chunks₂ h).1]

/-- the same for the whole observable outcome and for any sink (also one that fails from its `k`-th call on):
what the sink holds, how often it was called and what the session returns depend on the chunks only through their
concatenation -/
theorem chunking_sessions (fa : Option Nat) (opts : List Opt) (chunks₁ chunks₂ : List (Array UInt8))
    (h : Run.concat chunks₁ = Run.concat chunks₂) :
    (sessionWith fa opts chunks₁).1.sink = (sessionWith fa opts chunks₂).1.sink ∧
      (sessionWith fa opts chunks₁).2 = (sessionWith fa opts chunks₂).2 :=
  Proofs.Det.chunking_sessions fa opts chunks₁ chunks₂ h

/-- hence the frame is a function of the options and the stream -/
theorem frame_function : ∃ f : List Opt → Array UInt8 → Array UInt8,
    ∀ opts chunks, Run.writtenBytes opts chunks = f opts (Run.concat chunks) :=
  ⟨fun opts d => Run.writtenBytes opts [d], fun opts chunks =>
    chunking opts chunks [Run.concat chunks] (by simp [Run.concat])⟩

/-- `opts` followed by the concurrency option -/
def setNum (opts : List Opt) (n : Nat) : List Opt := opts ++ [.concurrency n]

/-- concurrency independence: the concurrency option does not change the bytes (`n = 1` is the sequential
Writer, every other value — `0` included, the model stores the number as given — the concurrent one) -/
theorem concurrency (opts : List Opt) (chunks : List (Array UInt8)) (n m : Nat) :
    Run.writtenBytes (setNum opts n) chunks = Run.writtenBytes (setNum opts m) chunks := by
  unfold Run.writtenBytes
  rw [Proofs.Det.writeSession_eq, Proofs.Det.writeSession_eq]
  exact congrArg Sink.bytes (Proofs.Det.concurrency_sessions none opts chunks n m).1

/-- the same for any sink: also with a failing sink the concurrency level changes neither what reached the sink
nor the result of the session (the failure surfaces in `Close` instead of `Write`, the session result is the same) -/
theorem concurrency_sessions (fa : Option Nat) (opts : List Opt) (chunks : List (Array UInt8)) (n m : Nat) :
    (sessionWith fa (setNum opts n) chunks).1.sink = (sessionWith fa (setNum opts m) chunks).1.sink ∧
      (sessionWith fa (setNum opts n) chunks).2 = (sessionWith fa (setNum opts m) chunks).2 :=
  Proofs.Det.concurrency_sessions fa opts chunks n m

/-! ## non-vacuity -/

/-- `fast_pure` on a concrete block -/
example : Fast.compressBlock #[1, 2, 3] (Array.replicate 3 0) =
    Fast.compressBlockFrom Fast.emptyTable #[1, 2, 3] (Array.replicate 3 0) := fast_pure _ _

/-- a session that emits a real frame (header 7, one raw block 4 + 3, end mark 4, checksum 4) … -/
example : (Run.writtenBytes [.blockSize 65536] [#[1, 2], #[], #[3]]).size = 22 := by decide +kernel

/-- … emits the same one for another chunking (empty chunks inside), … -/
example : Run.writtenBytes [.blockSize 65536] [#[1, 2], #[], #[3]] =
    Run.writtenBytes [.blockSize 65536] [#[], #[1], #[2, 3], #[]] :=
  chunking _ _ _ (by decide)

/-- … also when `Apply` rejects the options (nothing is emitted either way), … -/
example : Run.writtenBytes [.blockSize 5] [#[1, 2], #[3]] = Run.writtenBytes [.blockSize 5] [#[1, 2, 3]] :=
  chunking _ _ _ (by decide)
example : (Run.writtenBytes [.blockSize 5] [#[1, 2], #[3]]).size = 0 := by decide +kernel

/-- … and for every concurrency level, `0` included -/
example : Run.writtenBytes (setNum [.blockChecksum true] 1) [#[1, 2], #[3]] =
    Run.writtenBytes (setNum [.blockChecksum true] 0) [#[1, 2], #[3]] := concurrency _ _ _ _
example : (Run.writtenBytes (setNum [.blockChecksum true] 4) [#[1, 2], #[3]]).size = 26 := by decide +kernel

end Lz4V.Props.C14

#print axioms Lz4V.Props.C14.fast_pure
#print axioms Lz4V.Props.C14.block_pure
#print axioms Lz4V.Props.C14.chunking
#print axioms Lz4V.Props.C14.chunking_sessions
#print axioms Lz4V.Props.C14.frame_function
#print axioms Lz4V.Props.C14.concurrency
#print axioms Lz4V.Props.C14.concurrency_sessions
