import Lz4V.Proofs.FrameW
/-!
# C09 / C02 (write side) — every frame the Writer model emits is accepted by the strict frame
specification and decodes to exactly the data written

**Historical finding (fixed in the Go code, defect D30).**  Before the fix `BlockSizeOption(8 MiB)`
was accepted by `Apply` (block-size index 3, meant for legacy frames only); a *non-legacy* Writer
configured that way wrote BD block-size code 3, which the frame format does not define
(`Spec.Frame.blockMaxOf 3 = none`): the session `opts = [.blockSize 8388608]`, `chunks = []` reported no
error and wrote the 15 bytes `04 22 4D 18 64 30 13 00 00 00 00 05 5D CC 02`, which the strict
specification and the package's own Reader rejected ("bad block size").  Against that model the
theorems below were false and had been proved only with the extra hypothesis
`hidx : blockSizeIndex (cfgOf opts).flags ∈ [4, 5, 6, 7]`.  `BlockSizeOption` now rejects 8 MiB, the
model (`applyOne (.blockSize n)`) follows, `idx_valid` proves `hidx` for every option list, and
`c09_writer` / `c09_writer_fast` hold exactly as first stated.
-/
namespace Lz4V.Props.C09
open Lz4V Lz4V.Go Lz4V.Model Lz4V.Model.FrameW

/-- correctness of the HC block compressor, as an explicit hypothesis (discharged in `Props/C09full.lean`) -/
def HCCorrect : Prop := ∀ (src dst : Array UInt8) (depth : Nat),
  match HC.compressBlock src dst depth with
  | .ok n d => 0 < n ∧ n ≤ dst.size ∧ Spec.Block.decode (d.extract 0 n).toList [] src.size = some src
  | _ => True

/-- the configuration after `NewWriter` + `Apply(opts)` -/
def cfgOf (opts : List Opt) : Cfg := (apply (new none) opts).1.cfg

/-- the block-size index of a configured Writer is always one the frame format defines: `NewWriter`
sets 7 (4 MiB) and `BlockSizeOption` only ever sets 4, 5, 6 or 7 — whatever `Apply` returns -/
theorem idx_valid (opts : List Opt) : blockSizeIndex (cfgOf opts).flags ∈ [4, 5, 6, 7] := by
  have h := Proofs.FrameW.reach_idx_range _ (Proofs.FrameW.cfgOf_reach opts)
  show blockSizeIndex (Proofs.FrameW.cfgOf opts).flags ∈ [4, 5, 6, 7]
  simp only [List.mem_cons, List.not_mem_nil, or_false]
  omega

/-- C09 / C02 (write side), non-legacy frames: a clean session emits one frame that the strict
specification decodes to the concatenation of the chunks, with the configured parameters. -/
theorem c09_writer (opts : List Opt) (chunks : List (Array UInt8)) (hHC : HCCorrect)
    (hclean : (Run.writeSession opts chunks).2 = none)
    (hnl : (cfgOf opts).legacy = false)
    (hsz : (cfgOf opts).contentSize < 2 ^ 64)
    (hlen : (Run.concat chunks).size < 2 ^ 64) :
    ∃ info, Spec.Frame.decode (Run.writtenBytes opts chunks).toList true =
        .ok ⟨info, Run.concat chunks, (Run.writtenBytes opts chunks).size⟩ ∧
      info.version = 1 ∧ info.blockIndep = true ∧
      info.blockChecksum = Gen.flagBlockChecksum (cfgOf opts).flags ∧
      info.contentChecksum = Gen.flagContentChecksum (cfgOf opts).flags ∧
      info.contentSize = (if Gen.flagSize (cfgOf opts).flags then some (cfgOf opts).contentSize else none) ∧
      info.blockMax = poolSize (blockSizeIndex (cfgOf opts).flags) :=
  ⟨Proofs.FrameW.infoOf (cfgOf opts),
    Proofs.FrameW.writer_main opts chunks (Proofs.FrameW.compOK_any hHC _) hclean hnl hsz hlen,
    rfl, rfl, rfl, rfl, rfl, rfl⟩

/-- the same without the HC hypothesis when the fast compressor is configured -/
theorem c09_writer_fast (opts : List Opt) (chunks : List (Array UInt8))
    (hclean : (Run.writeSession opts chunks).2 = none)
    (hnl : (cfgOf opts).legacy = false) (hfast : (cfgOf opts).level = 0)
    (hsz : (cfgOf opts).contentSize < 2 ^ 64) (hlen : (Run.concat chunks).size < 2 ^ 64) :
    ∃ info, Spec.Frame.decode (Run.writtenBytes opts chunks).toList true =
        .ok ⟨info, Run.concat chunks, (Run.writtenBytes opts chunks).size⟩ := by
  have hc : Proofs.FrameW.CompOK (cfgOf opts).level := by rw [hfast]; exact Proofs.FrameW.compOK_fast
  exact ⟨Proofs.FrameW.infoOf (cfgOf opts), Proofs.FrameW.writer_main opts chunks hc hclean hnl hsz hlen⟩

/-- with the fast compressor the frame parameters are the configured ones, too
(the full conclusion of `c09_writer` without `HCCorrect`) -/
theorem c09_writer_fast_info (opts : List Opt) (chunks : List (Array UInt8))
    (hclean : (Run.writeSession opts chunks).2 = none)
    (hnl : (cfgOf opts).legacy = false) (hfast : (cfgOf opts).level = 0)
    (hsz : (cfgOf opts).contentSize < 2 ^ 64) (hlen : (Run.concat chunks).size < 2 ^ 64) :
    ∃ info, Spec.Frame.decode (Run.writtenBytes opts chunks).toList true =
        .ok ⟨info, Run.concat chunks, (Run.writtenBytes opts chunks).size⟩ ∧
      info.version = 1 ∧ info.blockIndep = true ∧
      info.blockChecksum = Gen.flagBlockChecksum (cfgOf opts).flags ∧
      info.contentChecksum = Gen.flagContentChecksum (cfgOf opts).flags ∧
      info.contentSize = (if Gen.flagSize (cfgOf opts).flags then some (cfgOf opts).contentSize else none) ∧
      info.blockMax = poolSize (blockSizeIndex (cfgOf opts).flags) := by
  have hc : Proofs.FrameW.CompOK (cfgOf opts).level := by rw [hfast]; exact Proofs.FrameW.compOK_fast
  exact ⟨Proofs.FrameW.infoOf (cfgOf opts),
    Proofs.FrameW.writer_main opts chunks hc hclean hnl hsz hlen, rfl, rfl, rfl, rfl, rfl, rfl⟩

/-- `hclean` is not a hidden restriction: on the all-accepting sink a non-legacy session fails only if
`Apply` rejects an option (bad block size / bad level) -/
theorem c09_clean (opts : List Opt) (chunks : List (Array UInt8)) (hHC : HCCorrect)
    (hap : (apply (new none) opts).2 = none)
    (hnl : (cfgOf opts).legacy = false) :
    (Run.writeSession opts chunks).2 = none := by
  obtain ⟨w', hws, _⟩ :=
    Proofs.FrameW.session_result opts chunks (Proofs.FrameW.compOK_any hHC _) hap hnl
  rw [hws]

/-! ## non-vacuity -/

private def exOpts : List Opt := [.blockSize 65536, .blockChecksum true]
private def exChunks : List (Array UInt8) := [#[1, 2, 3], #[]]

/-- the hypotheses of `c09_writer_fast` / `c09_writer` hold on a concrete session
(64 KiB blocks, block checksums, chunks `[1,2,3]` and `[]`), by kernel evaluation of the model -/
example : (Run.writeSession exOpts exChunks).2 = none ∧ (cfgOf exOpts).legacy = false ∧
    (cfgOf exOpts).level = 0 ∧ (cfgOf exOpts).contentSize < 2 ^ 64 ∧
    (Run.concat exChunks).size < 2 ^ 64 := by
  decide +kernel

/-- hence the theorem applies: the 26 bytes written decode to `[1,2,3]` -/
example : ∃ info, Spec.Frame.decode (Run.writtenBytes exOpts exChunks).toList true =
    .ok ⟨info, #[1, 2, 3], 26⟩ := by
  have h := c09_writer_fast exOpts exChunks (by decide +kernel) (by decide +kernel)
    (by decide +kernel) (by decide +kernel) (by decide +kernel)
  rw [show Run.concat exChunks = #[1, 2, 3] by decide +kernel,
    show (Run.writtenBytes exOpts exChunks).size = 26 by decide +kernel] at h
  exact h

/-- the bytes of that session, evaluated independently of the theorem: magic, FLG=0x74 (version 1,
independent, block checksum, content checksum), BD=0x40, HC, one raw block + its checksum, end mark,
content checksum -/
example : Run.writtenBytes exOpts exChunks =
    #[4, 34, 77, 24, 116, 64, 189, 3, 0, 0, 128, 1, 2, 3, 196, 120, 156, 245, 0, 0, 0, 0, 196, 120, 156, 245] := by
  decide +kernel

/-- an HC session (level 1, announced content size): the hypotheses of `c09_writer` other than
`HCCorrect` hold by evaluation, so under `HCCorrect` the theorem yields the frame parameters -/
example (hHC : HCCorrect) : ∃ info, Spec.Frame.decode
      (Run.writtenBytes [.level 512, .size 5, .checksum false] [#[7, 7], #[], #[7, 7, 7]]).toList true =
        .ok ⟨info, #[7, 7, 7, 7, 7], 28⟩ ∧ info.contentSize = some 5 ∧ info.contentChecksum = false ∧
      info.blockMax = 4194304 := by
  obtain ⟨info, h, _, _, _, hcc, hcs, hbm⟩ :=
    c09_writer [.level 512, .size 5, .checksum false] [#[7, 7], #[], #[7, 7, 7]] hHC
      (by decide +kernel) (by decide +kernel) (by decide +kernel) (by decide +kernel)
  refine ⟨info, ?_, ?_, ?_, ?_⟩
  · rw [show Run.concat [#[7, 7], #[], #[7, 7, 7]] = #[7, 7, 7, 7, 7] by decide +kernel,
      show (Run.writtenBytes [.level 512, .size 5, .checksum false] [#[7, 7], #[], #[7, 7, 7]]).size = 28
        by decide +kernel] at h
    exact h
  · rw [hcs]; decide +kernel
  · rw [hcc]; decide +kernel
  · rw [hbm]; decide +kernel

/-- the empty session (no `Write` at all, `Close` only) is covered, too -/
example : ∃ info, Spec.Frame.decode (Run.writtenBytes [] []).toList true = .ok ⟨info, #[], 15⟩ := by
  have h := c09_writer_fast [] [] (by decide +kernel) (by decide +kernel)
    (by decide +kernel) (by decide +kernel) (by decide +kernel)
  rw [show Run.concat [] = #[] by decide +kernel,
    show (Run.writtenBytes [] []).size = 15 by decide +kernel] at h
  exact h

/-- the option that used to produce the undecodable frame is now refused by `Apply`, so such a
session is not clean (and `idx_valid` holds for it: the index stays 7) -/
example : (apply (new none) [.blockSize 8388608]).2 = some .badBlockSize ∧
    (Run.writeSession [.blockSize 8388608] []).2 = some .badBlockSize ∧
    blockSizeIndex (cfgOf [.blockSize 8388608]).flags = 7 := by
  decide +kernel

/-
`#eval` evidence for a multi-block session (kernel evaluation of the compressor over 70000 bytes is
not attempted): 64 KiB blocks, HC level 1, announced size, chunks of 3, 0 and 70000 bytes:

  #eval (Run.writeSession [.blockSize 65536, .blockChecksum true, .size 70003, .level 512]
          [#[1,2,3], #[], Array.replicate 70000 7]).2                          -- none
  #eval match Spec.Frame.decode (Run.writtenBytes [.blockSize 65536, .blockChecksum true, .size 70003, .level 512]
          [#[1,2,3], #[], Array.replicate 70000 7]).toList true with
        | .ok r => (r.content == Run.concat [#[1,2,3], #[], Array.replicate 70000 7], r.consumed, repr r.info)
        | .error e => (false, 0, repr e)
  -- (true, (349, { version := 1, blockIndep := true, blockChecksum := true, contentChecksum := true,
  --                contentSize := some 70003, blockMax := 65536, legacy := false }))
-/

end Lz4V.Props.C09

#print axioms Lz4V.Props.C09.idx_valid
#print axioms Lz4V.Props.C09.c09_writer
#print axioms Lz4V.Props.C09.c09_writer_fast
#print axioms Lz4V.Props.C09.c09_writer_fast_info
#print axioms Lz4V.Props.C09.c09_clean
