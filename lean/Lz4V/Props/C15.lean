import Lz4V.Proofs.Det
/-!
# C15 — I/O failures are reported faithfully; read fragmentation is irrelevant

Write side: over a sink that fails from its `k`-th `Write` call on, the session returns the injected error iff that
call was made (from the failing `Write` in sequential mode, from `Close` at the latest in concurrent mode — the
session result is the same), and what reached the sink before is a prefix of the fault-free frame: exactly the
first `k` payloads (`outcome`).

Read side: `io.ReadFull` over a source that does not fail returns the same bytes, result and position whatever
the size of the pieces the source hands out and whether the last bytes come together with `io.EOF`
(`readFull_frag`, explicit form `readFull_spec`); hence `Writer.ReadFrom` is insensitive to the fragmentation
(`readFrom_frag`).
-/
namespace Lz4V.Props.C15
open Lz4V Lz4V.Go Lz4V.Model Lz4V.Model.FrameW
open Lz4V.Proofs.Det (sessionWith errA apply_err fail_vs_clean session_rejected bytes_eq flat flat_append)

/-- the session of `Run.writeSession` but with a sink that fails from call `k` on -/
def failSession (k : Nat) (opts : List Opt) (chunks : List (Array UInt8)) : W × Option Err :=
  sessionWith (some k) opts chunks

/-- it is `Run.writeSession` with `new (some k)` instead of `new none` -/
theorem failSession_eq (k : Nat) (opts : List Opt) (chunks : List (Array UInt8)) :
    failSession k opts chunks =
      (let (w, e) := apply (new (some k)) opts
       match e with
       | some e => (w, some e)
       | none => Run.writeSession.go w chunks) := rfl

theorem writeSession_eq (opts : List Opt) (chunks : List (Array UInt8)) :
    Run.writeSession opts chunks = sessionWith none opts chunks := rfl

/-- the complete outcome, when `Apply` accepts the options: there is one list `ws` of payloads — the fault-free
session hands all of it to its sink and is clean — such that the failing sink stored exactly the first `k` of them,
was called `min |ws| (k+1)` times, and the session returned the injected error iff `|ws| > k` -/
theorem outcome (k : Nat) (opts : List Opt) (chunks : List (Array UInt8))
    (happly : (apply (new (some k)) opts).2 = none) :
    ∃ ws : List (Array UInt8),
      (Run.writeSession opts chunks).1.sink = { writes := ws.toArray, calls := ws.length, failAt := none } ∧
      (Run.writeSession opts chunks).2 = none ∧
      (failSession k opts chunks).1.sink =
        { writes := (ws.take k).toArray, calls := min ws.length (k + 1), failAt := some k } ∧
      (failSession k opts chunks).2 = (if ws.length > k then some .injected else none) :=
  fail_vs_clean k opts chunks (by rw [← apply_err (some k)]; exact happly)

/-- prefix: whatever reached the sink is a prefix of the fault-free output -/
theorem sink_prefix (k : Nat) (opts : List Opt) (chunks : List (Array UInt8)) :
    ∃ rest, Run.writtenBytes opts chunks = (failSession k opts chunks).1.sink.bytes ++ rest := by
  unfold Run.writtenBytes
  cases he : errA opts with
  | some e =>
    refine ⟨#[], ?_⟩
    rw [writeSession_eq, (session_rejected none opts chunks e he).1]
    unfold failSession
    rw [(session_rejected (some k) opts chunks e he).1]
    rfl
  | none =>
    obtain ⟨ws, h1, _, h3, _⟩ := fail_vs_clean k opts chunks he
    refine ⟨flat (ws.drop k), ?_⟩
    unfold failSession
    rw [writeSession_eq, h1, h3, bytes_eq, bytes_eq]
    show flat ws = flat (ws.take k) ++ flat (ws.drop k)
    rw [← flat_append, List.take_append_drop]

/-- reported — in fact without the hypothesis on `Apply`: a rejected option list never touches the sink -/
theorem failure_reported' (k : Nat) (opts : List Opt) (chunks : List (Array UInt8))
    (hhit : (failSession k opts chunks).1.sink.calls > k) :
    (failSession k opts chunks).2 = some .injected := by
  cases he : errA opts with
  | some e =>
    unfold failSession at hhit
    rw [(session_rejected (some k) opts chunks e he).1] at hhit
    exact absurd hhit (Nat.not_lt_zero _)
  | none =>
    obtain ⟨ws, _, _, h3, h4⟩ := fail_vs_clean k opts chunks he
    unfold failSession at hhit ⊢
    rw [h3] at hhit
    simp only at hhit
    rw [h4, if_pos (by omega)]

/-- reported: if the sink was asked to write at or after its failure point, the session returns the injected error
(from the failing Write in sequential mode, from Close at the latest in concurrent mode) -/
theorem failure_reported (k : Nat) (opts : List Opt) (chunks : List (Array UInt8))
    (_happly : (apply (new (some k)) opts).2 = none)
    (hhit : (failSession k opts chunks).1.sink.calls > k) :
    (failSession k opts chunks).2 = some .injected :=
  failure_reported' k opts chunks hhit

/-- and conversely no error is invented: if the failure point was never reached the session is clean and complete -/
theorem no_spurious (k : Nat) (opts : List Opt) (chunks : List (Array UInt8))
    (happly : (apply (new (some k)) opts).2 = none)
    (hnot : (failSession k opts chunks).1.sink.calls ≤ k) :
    (failSession k opts chunks).2 = none ∧
      (failSession k opts chunks).1.sink.bytes = Run.writtenBytes opts chunks := by
  obtain ⟨ws, h1, _, h3, h4⟩ := outcome k opts chunks happly
  rw [h3] at hnot
  simp only at hnot
  have hle : ws.length ≤ k := by omega
  refine ⟨by rw [h4, if_neg (by omega)], ?_⟩
  unfold Run.writtenBytes
  rw [h1, h3, bytes_eq, bytes_eq, List.take_of_length_le hle]

/-- concurrent mode: a `Write` on a started Writer never returns the sink's failure — it is latched and returned by
`Close` (the `failure_reported` above is about the session, i.e. `Close` included) -/
theorem write_concurrent_ok (P : Proofs.Det.Par) (hB : 0 < P.B) (s0 : Proofs.Det.SE) (cks0 : XXH.State) (w : W)
    (bl : List (Array UInt8)) (buf : Array UInt8) (h : Proofs.Det.Trk P s0 cks0 w bl) (hn : w.cfg.num ≠ 1) :
    (write w buf).2.2 = none :=
  Proofs.Det.write_conc_ok P hB s0 cks0 w bl buf h hn

/-- `io.ReadFull` over a source that does not fail, explicitly: the next `want` bytes (or what is left), `nil` if
the request was satisfied (in particular for `want = 0`), otherwise `io.EOF` if nothing was read and
`io.ErrUnexpectedEOF` if something was; the position advances by the bytes delivered.  Neither `chunk` nor
`eofWithData` appear. -/
theorem readFull_spec (data : Array UInt8) (pos want c : Nat) (e : Bool) :
    let s : Source := { data := data, pos := pos, chunk := c, eofWithData := e }
    (readFull s want).2 = (data.extract pos (pos + want), Proofs.Det.rfErr want (data.size - pos) 0) ∧
      (readFull s want).1.pos = pos + min want (data.size - pos) := by
  intro s
  obtain ⟨s', h, _, hp, _⟩ := Proofs.Det.readFull_char s want rfl
  rw [h]
  exact ⟨rfl, hp⟩

/-- read fragmentation is irrelevant: `io.ReadFull` over any non-failing source returns the same bytes and the same
result whatever the chunk size and whether the last bytes come together with io.EOF -/
theorem readFull_frag (data : Array UInt8) (pos want c₁ c₂ : Nat) (e₁ e₂ : Bool) :
    let s₁ : Source := { data := data, pos := pos, chunk := c₁, eofWithData := e₁ }
    let s₂ : Source := { data := data, pos := pos, chunk := c₂, eofWithData := e₂ }
    (readFull s₁ want).2 = (readFull s₂ want).2 ∧ (readFull s₁ want).1.pos = (readFull s₂ want).1.pos := by
  intro s₁ s₂
  have h := Proofs.Det.readFull_sim (s₁ := s₁) (s₂ := s₂) ⟨rfl, rfl, rfl, rfl⟩ want
  exact ⟨h.1, h.2.2.1⟩

/-- hence ReadFrom emits the same bytes and returns the same result for every fragmentation of its source
(in fact the whole Writer state is the same, not only its sink) -/
theorem readFrom_frag (w : W) (data : Array UInt8) (c₁ c₂ : Nat) (e₁ e₂ : Bool) :
    let r₁ := readFrom w { data := data, chunk := c₁, eofWithData := e₁ }
    let r₂ := readFrom w { data := data, chunk := c₂, eofWithData := e₂ }
    r₁.1.sink = r₂.1.sink ∧ r₁.2.2 = r₂.2.2 := by
  intro r₁ r₂
  have h := Proofs.Det.readFrom_sim w { data := data, chunk := c₁, eofWithData := e₁ }
    { data := data, chunk := c₂, eofWithData := e₂ } ⟨rfl, rfl, rfl, rfl⟩
  exact ⟨congrArg W.sink h.1, h.2⟩

theorem readFrom_frag_state (w : W) (data : Array UInt8) (c₁ c₂ : Nat) (e₁ e₂ : Bool) :
    (readFrom w { data := data, chunk := c₁, eofWithData := e₁ }).1 =
      (readFrom w { data := data, chunk := c₂, eofWithData := e₂ }).1 :=
  (Proofs.Det.readFrom_sim w { data := data, chunk := c₁, eofWithData := e₁ }
    { data := data, chunk := c₂, eofWithData := e₂ } ⟨rfl, rfl, rfl, rfl⟩).1

/-! ## non-vacuity -/

/-- the sink fails at its third call (header, size word, ▸payload): 11 bytes of the 22-byte frame got through -/
example : (failSession 2 [.blockSize 65536] [#[1, 2], #[3]]).1.sink.bytes.size = 11 := by decide +kernel
example : ∃ rest, Run.writtenBytes [.blockSize 65536] [#[1, 2], #[3]] =
    (failSession 2 [.blockSize 65536] [#[1, 2], #[3]]).1.sink.bytes ++ rest := sink_prefix _ _ _

/-- sequential mode: the failure is reported (hypotheses satisfiable) -/
example : (failSession 2 [.blockSize 65536] [#[1, 2], #[3]]).2 = some .injected :=
  failure_reported 2 _ _ (by decide +kernel) (by decide +kernel)

/-- concurrent mode: the call that makes the sink fail (here a `Flush`) is clean, the failure is latched and `Close`
reports it; in sequential mode the same `Flush` returns it -/
example :
    let w := (apply (new (some 2)) [.blockSize 65536, .concurrency 4]).1
    let f := flush (write w #[1, 2, 3]).1
    f.2 = none ∧ f.1.sink.calls = 3 ∧ f.1.deferred = some .injected ∧ (close f.1).2 = some .injected := by
  decide +kernel
example :
    let w := (apply (new (some 2)) [.blockSize 65536]).1
    let f := flush (write w #[1, 2, 3]).1
    f.2 = some .injected ∧ f.1.sink.calls = 3 := by
  decide +kernel
example : (failSession 2 [.blockSize 65536, .concurrency 4] [#[1, 2], #[3]]).2 = some .injected :=
  failure_reported 2 _ _ (by decide +kernel) (by decide +kernel)

/-- the failure point is never reached: clean and complete -/
example : (failSession 4 [.blockSize 65536] [#[1, 2], #[3]]).2 = none ∧
    (failSession 4 [.blockSize 65536] [#[1, 2], #[3]]).1.sink.bytes =
      Run.writtenBytes [.blockSize 65536] [#[1, 2], #[3]] :=
  no_spurious 4 _ _ (by decide +kernel) (by decide +kernel)
/-- … and one call earlier it is reached (the frame has four payloads) -/
example : (failSession 3 [.blockSize 65536] [#[1, 2], #[3]]).2 = some .injected :=
  failure_reported 3 _ _ (by decide +kernel) (by decide +kernel)

/-- `ReadFull`: one-byte reads with EOF delivered together with the last byte vs. one big read -/
example :
    (readFull { data := #[1, 2, 3, 4, 5], pos := 2, chunk := 1, eofWithData := true } 3).2 = (#[3, 4, 5], none) ∧
    (readFull { data := #[1, 2, 3, 4, 5], pos := 2 } 3).2 = (#[3, 4, 5], none) ∧
    (readFull { data := #[1, 2, 3, 4, 5], pos := 2, chunk := 2, eofWithData := true } 4).2 =
      (#[3, 4, 5], some .unexpectedEOF) ∧
    (readFull { data := #[1, 2, 3, 4, 5], pos := 7, chunk := 2 } 4).2 = (#[], some .eof) ∧
    (readFull { data := #[1, 2, 3, 4, 5], pos := 7, chunk := 2 } 0).2 = (#[], none) := by decide +kernel

/-- `ReadFrom` really emits something (here: header, one 3-byte block) and the fragmentation does not matter -/
example :
    (readFrom (new none) { data := #[1, 2, 3], chunk := 1, eofWithData := true }).1.sink.bytes.size = 14 := by
  decide +kernel
example :
    (readFrom (new none) { data := #[1, 2, 3], chunk := 1, eofWithData := true }).1.sink =
      (readFrom (new none) { data := #[1, 2, 3] }).1.sink := (readFrom_frag _ _ _ _ _ _).1

end Lz4V.Props.C15

#print axioms Lz4V.Props.C15.outcome
#print axioms Lz4V.Props.C15.sink_prefix
#print axioms Lz4V.Props.C15.failure_reported'
#print axioms Lz4V.Props.C15.failure_reported
#print axioms Lz4V.Props.C15.no_spurious
#print axioms Lz4V.Props.C15.write_concurrent_ok
#print axioms Lz4V.Props.C15.readFull_spec
#print axioms Lz4V.Props.C15.readFull_frag
#print axioms Lz4V.Props.C15.readFrom_frag
#print axioms Lz4V.Props.C15.readFrom_frag_state
