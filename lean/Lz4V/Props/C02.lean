import Lz4V.Props.C16
import Lz4V.Props.C09full
/-!
# C02 — the frame round trip: Writer, then Reader

`C09.c09_writer_all`: a clean non-legacy Writer session emits one frame which the *strict* frame
specification decodes to the concatenation of the chunks, consuming every byte.  The strict grammar only
adds checks to the lenient one (`Proofs.FrameR.decode_strict_lenient`), and the Reader is complete for
the lenient grammar (`C16`).  Hence the Reader restores exactly what was written.
-/
namespace Lz4V.Props.C02
open Lz4V Lz4V.Go Lz4V.Model Lz4V.Proofs.FrameR

/-- what the Writer emitted, as the lenient specification (the Reader's acceptance grammar) sees it -/
theorem written_lenient (opts : List FrameW.Opt) (chunks : List (Array UInt8))
    (hclean : (Run.writeSession opts chunks).2 = none)
    (hnl : (Lz4V.Props.C09.cfgOf opts).legacy = false)
    (hsz : (Lz4V.Props.C09.cfgOf opts).contentSize < 2 ^ 64)
    (hlen : (Run.concat chunks).size < 2 ^ 64) :
    ∃ info, Spec.Frame.decode (Run.writtenBytes opts chunks).toList false =
      .ok ⟨info, Run.concat chunks, (Run.writtenBytes opts chunks).size⟩ := by
  obtain ⟨info, h, -⟩ := Lz4V.Props.C09.c09_writer_all opts chunks hclean hnl hsz hlen
  exact ⟨info, decode_strict_lenient _ _ h⟩

/-- C02: whatever an accepted option combination, chunking of the input into Write calls, and Reader
concurrency: the Reader restores exactly the input from what the Writer emitted, then reports a clean end. -/
theorem c02_roundtrip (opts : List FrameW.Opt) (chunks : List (Array UInt8)) (num : Nat)
    (hclean : (Run.writeSession opts chunks).2 = none)
    (hnl : (Lz4V.Props.C09.cfgOf opts).legacy = false)
    (hsz : (Lz4V.Props.C09.cfgOf opts).contentSize < 2 ^ 64)
    (hlen : (Run.concat chunks).size < 2 ^ 64) :
    Run.readAll (Run.writtenBytes opts chunks) num = (Run.concat chunks, none, (Run.writtenBytes opts chunks).size) := by
  obtain ⟨info, h⟩ := written_lenient opts chunks hclean hnl hsz hlen
  exact Lz4V.Props.C16.c16_writeTo _ info _ _ num h hlen

/-- the same through `Read` with any buffer sizes, for a session that reached `io.EOF` -/
theorem c02_roundtrip_read (opts : List FrameW.Opt) (chunks : List (Array UInt8)) (num : Nat) (sizes : List Nat)
    (out : Array UInt8) (c' : Nat)
    (hclean : (Run.writeSession opts chunks).2 = none)
    (hnl : (Lz4V.Props.C09.cfgOf opts).legacy = false)
    (hsz : (Lz4V.Props.C09.cfgOf opts).contentSize < 2 ^ 64)
    (hlen : (Run.concat chunks).size < 2 ^ 64)
    (hrun : Run.readWith (Run.writtenBytes opts chunks) sizes num = (out, some .eof, c')) :
    out = Run.concat chunks := by
  obtain ⟨info, h⟩ := written_lenient opts chunks hclean hnl hsz hlen
  exact ((Lz4V.Props.C16.c16_read _ info _ _ num sizes out _ c' h hlen hrun).1 rfl).1

/-- moreover such a `Read` session consumes the whole frame, and a `Read` session on what the Writer
emitted never fails: each call returns `nil` or, once, `io.EOF` -/
theorem c02_roundtrip_read_consumed (opts : List FrameW.Opt) (chunks : List (Array UInt8)) (num : Nat)
    (sizes : List Nat) (out : Array UInt8) (c' : Nat)
    (hclean : (Run.writeSession opts chunks).2 = none)
    (hnl : (Lz4V.Props.C09.cfgOf opts).legacy = false)
    (hsz : (Lz4V.Props.C09.cfgOf opts).contentSize < 2 ^ 64)
    (hlen : (Run.concat chunks).size < 2 ^ 64)
    (hrun : Run.readWith (Run.writtenBytes opts chunks) sizes num = (out, some .eof, c')) :
    c' = (Run.writtenBytes opts chunks).size := by
  obtain ⟨info, h⟩ := written_lenient opts chunks hclean hnl hsz hlen
  exact ((Lz4V.Props.C16.c16_read _ info _ _ num sizes out _ c' h hlen hrun).1 rfl).2

theorem c02_read_no_error (opts : List FrameW.Opt) (chunks : List (Array UInt8)) (num : Nat) (sizes : List Nat)
    (hclean : (Run.writeSession opts chunks).2 = none)
    (hnl : (Lz4V.Props.C09.cfgOf opts).legacy = false)
    (hsz : (Lz4V.Props.C09.cfgOf opts).contentSize < 2 ^ 64)
    (hlen : (Run.concat chunks).size < 2 ^ 64) :
    (Run.readWith (Run.writtenBytes opts chunks) sizes num).2.1 = some .eof ∨
    (Run.readWith (Run.writtenBytes opts chunks) sizes num).2.1 = none := by
  obtain ⟨info, h⟩ := written_lenient opts chunks hclean hnl hsz hlen
  exact Lz4V.Props.C16.c16_read_no_error _ info _ _ num sizes h hlen

/-! ## non-vacuity -/

private def exOpts : List FrameW.Opt := [.blockSize 65536]
private def exChunks : List (Array UInt8) := [#[1, 2, 3]]

/-- the hypotheses hold on a concrete session (kernel evaluation of the Writer model) -/
example : (Run.writeSession exOpts exChunks).2 = none ∧ (Lz4V.Props.C09.cfgOf exOpts).legacy = false ∧
    (Lz4V.Props.C09.cfgOf exOpts).contentSize < 2 ^ 64 ∧ (Run.concat exChunks).size < 2 ^ 64 := by
  decide +kernel

/-- hence, at every Reader concurrency, the 22 bytes written are read back as `[1,2,3]` -/
example (num : Nat) : Run.readAll (Run.writtenBytes exOpts exChunks) num = (#[1, 2, 3], none, 22) := by
  have h := c02_roundtrip exOpts exChunks num (by decide +kernel) (by decide +kernel) (by decide +kernel)
    (by decide +kernel)
  rw [show Run.concat exChunks = #[1, 2, 3] by decide +kernel,
    show (Run.writtenBytes exOpts exChunks).size = 22 by decide +kernel] at h
  exact h

/-- the same session evaluated independently of the theorems: the bytes written (magic, FLG = 0x64,
BD = 0x40, HC, one stored block, end mark, content checksum), and the Reader model run on them through `Read` -/
example : Run.writtenBytes exOpts exChunks =
    #[4, 34, 77, 24, 100, 64, 167, 3, 0, 0, 128, 1, 2, 3, 0, 0, 0, 0, 196, 120, 156, 245] := by decide +kernel

theorem ex_read : Run.readWith (Run.writtenBytes exOpts exChunks) [2, 2, 2] 1 = (#[1, 2, 3], some .eof, 22) := by
  decide +kernel

/-- `c02_roundtrip_read` instantiated on that `Read` session -/
example : (#[1, 2, 3] : Array UInt8) = Run.concat exChunks :=
  c02_roundtrip_read exOpts exChunks 1 [2, 2, 2] _ 22 (by decide +kernel) (by decide +kernel) (by decide +kernel)
    (by decide +kernel) ex_read

/-- several chunks (one of them empty), block checksums, HC level: three `Write` calls, one frame, read back -/
example (num : Nat) : Run.readAll
    (Run.writtenBytes [.level 512, .blockChecksum true] [#[7, 7], #[], #[7, 7, 7]]) num =
    (#[7, 7, 7, 7, 7], none, (Run.writtenBytes [.level 512, .blockChecksum true] [#[7, 7], #[], #[7, 7, 7]]).size) := by
  have h := c02_roundtrip [.level 512, .blockChecksum true] [#[7, 7], #[], #[7, 7, 7]] num
    (by decide +kernel) (by decide +kernel) (by decide +kernel) (by decide +kernel)
  rw [show Run.concat [#[7, 7], #[], #[7, 7, 7]] = #[7, 7, 7, 7, 7] by decide +kernel] at h
  exact h

end Lz4V.Props.C02

#print axioms Lz4V.Props.C02.written_lenient
#print axioms Lz4V.Props.C02.c02_roundtrip
#print axioms Lz4V.Props.C02.c02_roundtrip_read
#print axioms Lz4V.Props.C02.c02_roundtrip_read_consumed
#print axioms Lz4V.Props.C02.c02_read_no_error
