import Lz4V.Proofs.Fast
/-!
# C01 / C10 / C11 for the fast block compressor (`Model.Fast.compressBlock`)

* `decode_emitAll` — serialised sequences decode (independent spec) to their expansion;
* `c11_fast` — for *any* destination size the call never panics; on success the `n` bytes written
  decode (under `Spec.Block.decode`, no dictionary, `maxOut = len(src)`) to `src` and are strictly
  valid (`Spec.Block.strictValid`: parses, offsets in range, last 5 bytes literals, last match starts
  ≥ 12 bytes before the end); `(0, nil)` / `(0, err)` are returned only when
  `len(dst) < CompressBlockBound(len(src))`;
* `c01_fast` — with `len(dst) ≥ CompressBlockBound(len(src))` the call succeeds and round-trips.
-/
namespace Lz4V.Props.C01fast
open Lz4V Lz4V.Model.Fast Lz4V.Model.Emit

/-- serialised sequences decode, under the independent spec, to their expansion -/
theorem decode_emitAll (ss : List Spec.Block.Seq) (l : List UInt8) (hist : Array UInt8) (dl maxOut fuel : Nat)
    (hwf : Spec.Block.WF hist ss) (hfuel : ss.length < fuel)
    (hmax : (Spec.Block.expand hist ss l).size - dl ≤ maxOut) :
    Spec.Block.decodeAux fuel (Spec.Block.emitAll ss l) hist dl maxOut = some (Spec.Block.expand hist ss l) :=
  Proofs.BlockSpec2.decode_emitAll ss l hist dl maxOut fuel hwf hfuel hmax

/-- C01/C10/C11 for the fast compressor, any destination size -/
theorem c11_fast (src dst : Array UInt8) :
    match compressBlock src dst with
    | .ok n d => 0 < n ∧ n ≤ dst.size ∧ d.size = dst.size ∧
        Spec.Block.decode (d.extract 0 n).toList [] src.size = some src ∧
        Spec.Block.strictValid (d.extract 0 n).toList = true
    | .zero => dst.size < bound src.size
    | .err => dst.size < bound src.size
    | .panic => False :=
  Proofs.Fast.compressBlockFrom_spec emptyTable src dst (Proofs.Fast.TInv.empty 0)

/-- C01: a destination of at least CompressBlockBound(len(src)) bytes always succeeds -/
theorem c01_fast (src dst : Array UInt8) (h : bound src.size ≤ dst.size) :
    ∃ n d, compressBlock src dst = .ok n d ∧ 0 < n ∧ n ≤ dst.size ∧
      Spec.Block.decode (d.extract 0 n).toList [] src.size = some src := by
  have h11 := c11_fast src dst
  cases hr : compressBlock src dst with
  | ok n d =>
    rw [hr] at h11
    exact ⟨n, d, rfl, h11.1, h11.2.1, h11.2.2.2.1⟩
  | zero => rw [hr] at h11; simp only at h11; omega
  | err => rw [hr] at h11; simp only at h11; omega
  | panic => rw [hr] at h11; exact h11.elim

/-! ## Non-vacuity -/

/-- `decode_emitAll` has satisfiable hypotheses: one sequence (3 literals, match of 4 at offset 3). -/
example : Spec.Block.decodeAux 2 (Spec.Block.emitAll [⟨[1, 2, 3], 3, 0⟩] [9]) #[] 0 100
    = some (Spec.Block.expand #[] [⟨[1, 2, 3], 3, 0⟩] [9]) :=
  decode_emitAll [⟨[1, 2, 3], 3, 0⟩] [9] #[] 0 100 2 (by simp [Spec.Block.WF]) (by simp)
    (by rw [show (Spec.Block.expand #[] [⟨[1, 2, 3], 3, 0⟩] [9]).size = 8 from by decide]; omega)

/-- the hypothesis of `c01_fast` is satisfiable, hence the `.ok` branch of `c11_fast` is inhabited
(a compressible 40-byte input into a 100-byte buffer) -/
example : ∃ n d, compressBlock (Array.replicate 40 97) (Array.replicate 100 0) = .ok n d ∧ 0 < n ∧
    n ≤ (Array.replicate 100 (0 : UInt8)).size ∧
    Spec.Block.decode (d.extract 0 n).toList [] (Array.replicate 40 (97 : UInt8)).size
      = some (Array.replicate 40 97) :=
  c01_fast _ _ (by decide)

/-- the `.zero` branch of `c11_fast` is inhabited (empty destination) -/
example : compressBlock #[] #[] = .zero := by rfl

/-- with an empty destination the result is never `.ok` (so `.zero`/`.err` do occur): instance of `c11_fast` -/
example (src : Array UInt8) : ∀ n d, compressBlock src #[] ≠ .ok n d := by
  intro n d h
  have := c11_fast src #[]
  rw [h] at this
  simp only [Array.size_empty] at this
  omega

end Lz4V.Props.C01fast

#print axioms Lz4V.Props.C01fast.decode_emitAll
#print axioms Lz4V.Props.C01fast.c11_fast
#print axioms Lz4V.Props.C01fast.c01_fast
