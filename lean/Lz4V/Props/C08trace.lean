import Lz4V.Proofs.Trace
/-!
# C08trace — the event-trace checkers `validTrace` are sound and non-vacuous w.r.t. the pipeline LTSs

The real Go code (build tag `verif`) logs an event next to each channel operation and the recorded log is
checked with `Model.PipeW.validTrace` / `Model.PipeR.validTrace`.  Here the checkers are tied to the
transition systems `Model.PipeW` / `Model.PipeR` themselves:

* SOUNDNESS (`trace_valid`, `trace_valid_complete`): label every step of the LTS with the event the
  instrumented code logs at that point (`eventOf`); then the trace of *every* schedule — hence of every prefix of
  every run, with or without a sink failure / undecodable blocks — is accepted.  The checker never raises an
  alarm on a behaviour the model allows.
* NON-VACUITY (`rejects_*`): traces that break the order of the pipeline are rejected.

Position of the hooks in the Go code (`writer.go`, `internal/lz4stream/block.go`) and the LTS step carrying the event:

| hook | where | LTS step |
|---|---|---|
| `EvWSubmit c` | before `Blocks <- c` | producer `submit k` |
| `EvWSentinel c` | before `Blocks <- c` in `close` | producer `sentEnq` |
| `EvWCompressed c` | in the worker, before `c <- b.Compress(..)` | worker `compress → sending` |
| `EvWDequeued c` | first statement of the `range Blocks` body | orderer `idle → recv i` |
| `EvWDone c` | after `<-c` returned `nil`, before `close(c)` | orderer `recv n → closing n` |
| `EvWWritten c` | before `close(c)`, whether or not the sink write was skipped/failed | orderer `closing i`, `i < n` |
| `EvWReleased c` | last statement of the worker | worker `release → done` |
| `EvRRead c` / `EvRSentinel c` | before `blocks <- c` | reader `read k` (enqueue) / `sentEnq` |
| `EvRDecoded c` | after `Uncompress`, *before* the error test | decoder `decoding → sending/failed` |
| `EvRDone c` | after `nil` was received, before `close(c)` | collector `recv n → closing n` |
| `EvRDelivered c` | after `data <- buf`, before `close(c)` | collector `deliver i → closing i` |
-/
namespace Lz4V.Props.C08trace
open Lz4V.Model

namespace W
open PipeW

/-- the event logged by the instrumented code when actor `a` takes a step in state `s` (`none` = unlogged step):
producer submit `k` ↦ `submit k`; sentinel enqueue ↦ `sentinel n`; worker `k` leaving `compress` ↦ `compressed k`;
orderer dequeue of `i` ↦ `dequeued i` (also for the sentinel `i = n`); orderer `closing i` (`i < n`) ↦ `written i`
(the hook logs "written" right before `close(c)`, whether or not the sink write was skipped after a failure);
orderer `closing n` (closing the sentinel) is not logged; orderer receiving `nil` from the sentinel ↦ `done n`;
worker `k` leaving `release` ↦ `released k` -/
def eventOf (s : State) (a : Actor) : Option Ev :=
  match a with
  | .producer =>
    match s.p with
    | .submit k => some (.submit k)
    | .sentEnq => some (.sentinel s.n)
    | _ => none
  | .orderer =>
    match s.o with
    | .idle =>
      match s.queue with
      | i :: _ => some (.dequeued i)
      | [] => none
    | .recv i => if i < s.n then none else some (.done i)
    | .closing i => if i < s.n then some (.written i) else none
    | _ => none
  | .worker k =>
    match s.w[k]? with
    | some .compress => some (.compressed k)
    | some .release => some (.released k)
    | _ => none

/-- the trace of a schedule: events of the steps that are enabled, in order -/
def traceOf (s : State) : List Actor → List Ev
  | [] => []
  | a :: as =>
    match step s a with
    | none => traceOf s as
    | some s' => (eventOf s a).toList ++ traceOf s' as

theorem traceOf_eq (s : State) (sched : List Actor) : traceOf s sched = Proofs.Trace.W.traceOf s sched := by
  induction sched generalizing s with
  | nil => rfl
  | cons a as ih =>
    simp only [traceOf, Proofs.Trace.W.traceOf]
    cases step s a with
    | none => exact ih s
    | some s' => simp only; rw [ih s']; rfl

/-- SOUNDNESS: every (prefix of a) run yields an accepted trace, for every schedule, every queue capacity, every
number of blocks and every sink failure.  (`hnum` is not needed.) -/
theorem trace_valid (num n : Nat) (failAt : Option Nat) (_hnum : 0 < num) (sched : List Actor) :
    validTrace (traceOf (init num n failAt) sched) false = true := by
  rw [traceOf_eq]; exact Proofs.Trace.W.trace_valid num n failAt sched

/-- … and a run that reaches `returned` (`Close` has returned) yields a trace accepted as complete -/
theorem trace_valid_complete (num n : Nat) (failAt : Option Nat) (_hnum : 0 < num) (sched : List Actor)
    (h : (run (init num n failAt) sched).p = .returned) :
    validTrace (traceOf (init num n failAt) sched) true = true := by
  rw [traceOf_eq]; exact Proofs.Trace.W.trace_valid_complete num n failAt sched h

/-- non-vacuity of the hypotheses: a complete run of two blocks through a queue of capacity 1, its trace, and
the same with the sink failing at block 0 (the trace is the same: `written` is logged before `close(c)` anyway) -/
def demo : List Actor :=
  [.producer, .orderer, .worker 0, .producer, .worker 1, .orderer, .orderer, .orderer, .worker 0, .orderer,
   .producer, .orderer, .orderer, .orderer, .worker 1, .worker 0, .orderer, .orderer, .orderer, .producer, .worker 1]

example : (run (init 1 2) demo).p = .returned := by decide
example : traceOf (init 1 2) demo =
    [.submit 0, .dequeued 0, .compressed 0, .submit 1, .compressed 1, .written 0, .dequeued 1, .sentinel 2,
     .written 1, .released 0, .dequeued 2, .done 2, .released 1] := by decide
example : (run (init 1 2 (some 0)) demo).p = .returned ∧ (run (init 1 2 (some 0)) demo).sink = [] ∧
    traceOf (init 1 2 (some 0)) demo = traceOf (init 1 2) demo := by decide
/-- the `complete` clause is not vacuous: a proper prefix of that run is accepted as a prefix but not as complete -/
example : validTrace (traceOf (init 1 2) (demo.take 12)) false = true ∧
    validTrace (traceOf (init 1 2) (demo.take 12)) true = false := by decide

/-- NON-VACUITY of the checker: writing block 1 before block 0 -/
theorem rejects_reorder : validTrace [.submit 0, .submit 1, .compressed 0, .compressed 1, .dequeued 0, .dequeued 1,
    .written 1, .written 0] false = false := by decide
/-- dequeuing in the wrong order -/
theorem rejects_reorder_dequeue : validTrace [.submit 0, .submit 1, .dequeued 1, .dequeued 0] false = false := by decide
/-- writing a block that was never compressed -/
theorem rejects_uncompressed : validTrace [.submit 0, .dequeued 0, .written 0] false = false := by decide
/-- releasing the buffers before the block was written -/
theorem rejects_early_release :
    validTrace [.submit 0, .compressed 0, .dequeued 0, .released 0, .written 0] false = false := by decide
/-- a released block that was never written at all -/
theorem rejects_release_unwritten :
    validTrace [.submit 0, .compressed 0, .dequeued 0, .released 0] false = false := by decide
/-- a duplicate submit -/
theorem rejects_dup_submit : validTrace [.submit 0, .submit 0] false = false := by decide
/-- `Close` returned although a submitted block was not written / the orderer never saw the sentinel -/
theorem rejects_lost_block : validTrace [.submit 0, .submit 1, .compressed 0, .dequeued 0, .written 0,
    .sentinel 2, .dequeued 2, .done 2] true = false := by decide
theorem rejects_no_done : validTrace [.submit 0, .compressed 0, .dequeued 0, .written 0, .sentinel 1] true = false := by
  decide

/-! ### the doc-comment of `validTrace` promises more than the checker tests

"the sentinel is queued after every submit and the orderer is done after every write; nothing follows `done`
except releases" — none of this is tested by `validTrace` (a missed-bug risk, not a false-alarm risk): -/
example : validTrace [.sentinel 1, .submit 0, .compressed 0, .dequeued 0, .written 0, .done 1] true = true := by decide
example : validTrace [.submit 0, .done 1, .compressed 0, .dequeued 0, .written 0] true = true := by decide
example : validTrace [.submit 0, .compressed 0, .dequeued 0, .written 0, .done 1,
    .submit 1, .compressed 1, .dequeued 1, .written 1] true = true := by decide
/-- events on a channel that was never submitted are only caught for `written` -/
example : validTrace [.submit 0, .compressed 0, .dequeued 0, .written 0, .released 7] false = true ∧
    validTrace [.written 5] false = false := by decide

/-- the missing test: no `submit` after the `sentinel`; after `done` only `released` events -/
def tailOK : List Ev → Bool
  | [] => true
  | .sentinel _ :: l => l.all (fun e => match e with | .submit _ => false | _ => true) && tailOK l
  | .done _ :: l => l.all (fun e => match e with | .released _ => true | _ => false)
  | _ :: l => tailOK l

theorem tailOK_eq (l : List Ev) : tailOK l = Proofs.Trace.W.tailOK l := by
  induction l with
  | nil => rfl
  | cons x xs ih => cases x <;> simp only [tailOK, Proofs.Trace.W.tailOK, ih] <;> rfl

/-- the LTS does guarantee these orders on every schedule, so `validTrace` could be strengthened by `tailOK`
without introducing false alarms -/
theorem trace_tail (num n : Nat) (failAt : Option Nat) (sched : List Actor) :
    tailOK (traceOf (init num n failAt) sched) = true := by
  rw [traceOf_eq, tailOK_eq]; exact Proofs.Trace.W.trace_tail num n failAt sched

theorem trace_valid_strict (num n : Nat) (failAt : Option Nat) (sched : List Actor) :
    (validTrace (traceOf (init num n failAt) sched) false && tailOK (traceOf (init num n failAt) sched)) = true := by
  rw [trace_tail, Bool.and_true, traceOf_eq]; exact Proofs.Trace.W.trace_valid num n failAt sched

example : tailOK [.sentinel 1, .submit 0, .compressed 0, .dequeued 0, .written 0, .done 1] = false := by decide
example : tailOK [.submit 0, .done 1, .compressed 0, .dequeued 0, .written 0] = false := by decide
example : tailOK (traceOf (init 1 2) demo) = true := by decide

/-- the checker the harness actually applies (`Model.PipeW.validTraceStrict`) accepts every run of the LTS -/
theorem model_tailOK_eq (l : List Ev) : PipeW.tailOK l = tailOK l := by
  induction l with
  | nil => rfl
  | cons x xs ih => cases x <;> simp only [tailOK, PipeW.tailOK, ih] <;> rfl

theorem strict_checker_sound (num n : Nat) (failAt : Option Nat) (sched : List Actor) :
    PipeW.validTraceStrict (traceOf (init num n failAt) sched) false = true := by
  unfold PipeW.validTraceStrict
  rw [model_tailOK_eq]
  exact trace_valid_strict num n failAt sched

end W

namespace R
open PipeR

/-- the event logged when actor `a` takes a step in state `s`: reader enqueue of `k` ↦ `read k` (nothing is logged
when the reader stops because an error is latched); decoder `k` leaving `decoding` successfully ↦ `decoded k`;
collector `deliver i` step ↦ `delivered i`; sentinel enqueue ↦ `sentinel n`; collector receiving `nil` ↦ `done n` -/
def eventOf (s : State) (a : Actor) : Option Ev :=
  match a with
  | .reader =>
    match s.g with
    | .read k => if s.err then none else some (.read k)
    | .sentEnq => some (.sentinel s.n)
    | _ => none
  | .collector =>
    match s.c with
    | .recv i => if i < s.n then none else some (.done i)
    | .deliver i => some (.delivered i)
    | _ => none
  | .decoder k =>
    match s.d[k]? with
    | some .decoding => if k ∈ s.bad then none else some (.decoded k)
    | _ => none
  | .consumer => none

/-- the labelling of the hook as it sits in `block.go`: `EvRDecoded` is logged right after `Uncompress`, *before*
the error test, i.e. also for a block that fails to decode -/
def eventOfHook (s : State) (a : Actor) : Option Ev :=
  match a with
  | .decoder k =>
    match s.d[k]? with
    | some .decoding => some (.decoded k)
    | _ => none
  | a => eventOf s a

def traceOf (s : State) : List Actor → List Ev
  | [] => []
  | a :: as =>
    match step s a with
    | none => traceOf s as
    | some s' => (eventOf s a).toList ++ traceOf s' as

def traceOfHook (s : State) : List Actor → List Ev
  | [] => []
  | a :: as =>
    match step s a with
    | none => traceOfHook s as
    | some s' => (eventOfHook s a).toList ++ traceOfHook s' as

theorem eventOf_eq (s : State) (a : Actor) : eventOf s a = Proofs.Trace.R.eventOf false s a := by
  cases a with
  | decoder k =>
    simp only [eventOf, Proofs.Trace.R.eventOf]
    cases s.d[k]? with
    | none => rfl
    | some x => cases x <;> simp
  | _ => rfl

theorem eventOfHook_eq (s : State) (a : Actor) : eventOfHook s a = Proofs.Trace.R.eventOf true s a := by
  cases a with
  | decoder k =>
    simp only [eventOfHook, Proofs.Trace.R.eventOf]
    cases s.d[k]? with
    | none => rfl
    | some x => cases x <;> simp
  | _ => rfl

theorem traceOf_eq (s : State) (sched : List Actor) : traceOf s sched = Proofs.Trace.R.traceOf false s sched := by
  induction sched generalizing s with
  | nil => rfl
  | cons a as ih =>
    simp only [traceOf, Proofs.Trace.R.traceOf]
    cases step s a with
    | none => exact ih s
    | some s' => simp only; rw [ih s', eventOf_eq]

theorem traceOfHook_eq (s : State) (sched : List Actor) :
    traceOfHook s sched = Proofs.Trace.R.traceOf true s sched := by
  induction sched generalizing s with
  | nil => rfl
  | cons a as ih =>
    simp only [traceOfHook, Proofs.Trace.R.traceOf]
    cases step s a with
    | none => exact ih s
    | some s' => simp only; rw [ih s', eventOfHook_eq]

/-- SOUNDNESS for the read pipeline, for every schedule and every set `bad` of undecodable blocks -/
theorem trace_valid (num n : Nat) (bad : List Nat) (_hnum : 0 < num) (sched : List Actor) :
    validTrace (traceOf (init num n bad) sched) false = true := by
  rw [traceOf_eq]; exact Proofs.Trace.R.trace_valid false num n bad sched

theorem trace_valid_complete (num n : Nat) (bad : List Nat) (_hnum : 0 < num) (sched : List Actor)
    (h : (run (init num n bad) sched).u = .finished) :
    validTrace (traceOf (init num n bad) sched) true = true := by
  rw [traceOf_eq]; exact Proofs.Trace.R.trace_valid_complete false num n bad sched h

/-- the same with the `decoded` hook where it really is (logged for failing blocks too) -/
theorem trace_valid_hook (num n : Nat) (bad : List Nat) (_hnum : 0 < num) (sched : List Actor) :
    validTrace (traceOfHook (init num n bad) sched) false = true := by
  rw [traceOfHook_eq]; exact Proofs.Trace.R.trace_valid true num n bad sched

theorem trace_valid_complete_hook (num n : Nat) (bad : List Nat) (_hnum : 0 < num) (sched : List Actor)
    (h : (run (init num n bad) sched).u = .finished) :
    validTrace (traceOfHook (init num n bad) sched) true = true := by
  rw [traceOfHook_eq]; exact Proofs.Trace.R.trace_valid_complete true num n bad sched h

/-- non-vacuity of the hypotheses: two blocks, the second one undecodable; block 0 is delivered, block 1 is not -/
def demo : List Actor :=
  [.reader, .reader, .decoder 1, .decoder 0, .collector, .collector, .collector, .collector, .reader,
   .collector, .collector, .reader, .collector, .collector, .collector, .reader, .reader, .consumer]

example : (run (init 2 2 [1]) demo).u = .finished ∧ (run (init 2 2 [1]) demo).delivered = [0] := by decide
example : traceOf (init 2 2 [1]) demo =
    [.read 0, .read 1, .decoded 0, .delivered 0, .sentinel 2, .done 2] := by decide
example : traceOfHook (init 2 2 [1]) demo =
    [.read 0, .read 1, .decoded 1, .decoded 0, .delivered 0, .sentinel 2, .done 2] := by decide
example : validTrace (traceOf (init 2 2 [1]) (demo.take 10)) false = true ∧
    validTrace (traceOf (init 2 2 [1]) (demo.take 10)) true = false := by decide

/-- NON-VACUITY: delivering block 1 before block 0 -/
theorem rejects_reorder :
    validTrace [.read 0, .read 1, .decoded 0, .decoded 1, .delivered 1, .delivered 0] false = false := by decide
/-- delivering block 1 although block 0 was not delivered (a gap) -/
theorem rejects_gap : validTrace [.read 0, .read 1, .decoded 1, .delivered 1] false = false := by decide
/-- delivering a block that was not decoded -/
theorem rejects_undecoded : validTrace [.read 0, .delivered 0] false = false := by decide
/-- decoding a block that was never read, a duplicate read, a finished run without `done` -/
theorem rejects_decoded_before_read : validTrace [.decoded 0, .read 0] false = false := by decide
theorem rejects_dup_read : validTrace [.read 0, .read 0] false = false := by decide
theorem rejects_no_done : validTrace [.read 0, .decoded 0, .delivered 0, .sentinel 1] true = false := by decide

/-! ### the doc-comment of `validTrace` promises more than the checker tests

"the sentinel follows every read; `done` is last among the collector's events" is not tested: -/
example : validTrace [.sentinel 1, .done 1, .read 0, .decoded 0, .delivered 0] true = true := by decide

/-- the missing test: no `read` after the `sentinel`, no `delivered` after `done` -/
def tailOK : List Ev → Bool
  | [] => true
  | .sentinel _ :: l => l.all (fun e => match e with | .read _ => false | _ => true) && tailOK l
  | .done _ :: l => l.all (fun e => match e with | .delivered _ => false | _ => true) && tailOK l
  | _ :: l => tailOK l

theorem tailOK_eq (l : List Ev) : tailOK l = Proofs.Trace.R.tailOK l := by
  induction l with
  | nil => rfl
  | cons x xs ih => cases x <;> simp only [tailOK, Proofs.Trace.R.tailOK, ih] <;> rfl

/-- the LTS guarantees these orders on every schedule (under either labelling of `decoded`) -/
theorem trace_tail (num n : Nat) (bad : List Nat) (sched : List Actor) :
    tailOK (traceOf (init num n bad) sched) = true := by
  rw [traceOf_eq, tailOK_eq]; exact Proofs.Trace.R.trace_tail false num n bad sched

theorem trace_tail_hook (num n : Nat) (bad : List Nat) (sched : List Actor) :
    tailOK (traceOfHook (init num n bad) sched) = true := by
  rw [traceOfHook_eq, tailOK_eq]; exact Proofs.Trace.R.trace_tail true num n bad sched

example : tailOK [.sentinel 1, .done 1, .read 0, .decoded 0, .delivered 0] = false := by decide
example : tailOK (traceOf (init 2 2 [1]) demo) = true := by decide

end R
end Lz4V.Props.C08trace
