import Lz4V.Proofs.DecodeAsm
/-!
# C03 / C04 for the amd64 assembly block decoder (`decode_amd64.s`, model `Model.DecodeAsm`)

* `c03_asm` (memory safety) is proved exactly as stated.
* `c04_asm` (agreement with the block-format specification) is FALSE as literally stated, i.e.
  with the 4096-byte margin of `Layout`: `c04_asm_false` proves its negation on a concrete witness.
  Cause: shortcut stage 1 (label `loop`, model `iter`) computes the match address `DI - DX` and
  executes `JC err_corrupt` on a borrow *before* the dictionary is considered; when the destination
  lies below 64 KiB (here `dstBase = 4096`) an offset `DX ≤ 65535` that validly reaches into the
  dictionary makes the raw address subtraction borrow, and the decoder answers `-1` although the
  specification defines an output.
* `c04_asm_partial` is `c04_asm` with ONE added hypothesis,
  `hbase : m.dict.size = 0 ∨ 65536 ≤ m.dstBase` (there is no dictionary, or the destination does not
  lie in the first 64 KiB of the address space; the latter is true of every Go heap or stack
  address, which are ≥ 0xc000000000 on amd64).  Nothing else is restricted: dictionary matches,
  both shortcut stages, wide copies, overlapping matches, every error exit are covered.
-/
namespace Lz4V.Props.C03asm
open Lz4V Lz4V.Model.DecodeAsm

/-- what Go guarantees about the three slices handed to the assembly routine (after the
`UncompressBlock` wrapper, which replaces an empty destination by one with a real base address) -/
structure Layout (m : Mem) : Prop where
  dstLen_le : m.dstLen ≤ m.dst.size
  dst_base : 4096 ≤ m.dstBase
  src_base : 4096 ≤ m.srcBase
  dict_base : m.dict.size = 0 ∨ 4096 ≤ m.dictBase
  dst_end : m.dstBase + m.dst.size + 4096 < 2 ^ 63
  src_end : m.srcBase + m.src.size + 4096 < 2 ^ 63
  dict_end : m.dictBase + m.dict.size + 4096 < 2 ^ 63
  disj_ds : m.dstBase + m.dst.size ≤ m.srcBase ∨ m.srcBase + m.src.size ≤ m.dstBase
  disj_dd : m.dict.size = 0 ∨ m.dstBase + m.dst.size ≤ m.dictBase ∨ m.dictBase + m.dict.size ≤ m.dstBase
  disj_sd : m.dict.size = 0 ∨ m.srcBase + m.src.size ≤ m.dictBase ∨ m.dictBase + m.dict.size ≤ m.srcBase

theorem Layout.toLay {m : Mem} (h : Layout m) : Proofs.DecodeAsm.Lay m :=
  ⟨h.dstLen_le, h.dst_base, h.src_base, h.dict_base, h.dst_end, h.src_end, h.dict_end, h.disj_ds, h.disj_dd,
    h.disj_sd⟩

/-- C03 (assembly decoder): no fault (no out-of-bounds load, no store outside dst[0:len)), result an
error code or a count within the destination, nothing outside dst[0:len) modified -/
theorem c03_asm (m : Mem) (h : Layout m) :
    match decodeBlock m with
    | .ok (ret, m') => (ret < 0 ∨ ret ≤ m.dstLen) ∧ m'.dst.size = m.dst.size ∧
        (∀ i, m.dstLen ≤ i → i < m.dst.size → m'.dst[i]! = m.dst[i]!) ∧
        m'.src = m.src ∧ m'.dict = m.dict ∧ m'.dstLen = m.dstLen
    | .error _ => False :=
  Proofs.DecodeAsm.decodeBlock_safe m h.toLay

/- Full statement as given (FALSE for the model, see `c04_asm_false`):
theorem c04_asm (m : Mem) (h : Layout m) (hsrc : m.src.size ≠ 0) :
    match decodeBlock m with
    | .ok (ret, m') =>
        if ret < 0 then Spec.Block.decode m.src.toList m.dict.toList m.dstLen = none
        else Spec.Block.decode m.src.toList m.dict.toList m.dstLen = some (m'.dst.extract 0 ret.toNat)
    | .error _ => False
-/

/-- C04 (assembly decoder): total agreement with the block-format specification.
Added hypothesis relative to `c04_asm`: `hbase : m.dict.size = 0 ∨ 65536 ≤ m.dstBase`. -/
theorem c04_asm_partial (m : Mem) (h : Layout m) (hbase : m.dict.size = 0 ∨ 65536 ≤ m.dstBase)
    (hsrc : m.src.size ≠ 0) :
    match decodeBlock m with
    | .ok (ret, m') =>
        if ret < 0 then Spec.Block.decode m.src.toList m.dict.toList m.dstLen = none
        else Spec.Block.decode m.src.toList m.dict.toList m.dstLen = some (m'.dst.extract 0 ret.toNat)
    | .error _ => False :=
  Proofs.DecodeAsm.decodeBlock_spec m h.toLay hbase hsrc

/-! ## `c04_asm` as literally stated is false -/

/-- observable part of a result, with decidable equality -/
def obs : X (Int × Mem) → Option (Int × Array UInt8)
  | .ok (ret, m) => some (ret, m.dst)
  | .error _ => none

/-- a 40-byte destination at address 4096, a 4097-byte dictionary, and the block
`10 61 | 02 10 | F0 00 09×15`: one literal, then a 4-byte match at offset 0x1002 = 4098 (4097 bytes
into the dictionary), then 15 literals -/
def wit : Mem :=
  { dst := Array.replicate 40 0, dstLen := 40,
    src := #[0x10, 0x61, 0x02, 0x10, 0xF0, 0, 9, 9, 9, 9, 9, 9, 9, 9, 9, 9, 9, 9, 9, 9, 9],
    dict := Array.replicate 4097 7, dstBase := 4096, srcBase := 0x200000, dictBase := 0x300000 }

theorem wit_layout : Layout wit := by
  constructor <;> simp [wit]

theorem wit_ret : (obs (decodeBlock wit)).map (·.1) = some (-1) := by decide +kernel

theorem wit_spec : (Spec.Block.decode wit.src.toList wit.dict.toList wit.dstLen).isSome = true := by
  decide +kernel

/-- the negation of `c04_asm` as literally stated -/
theorem c04_asm_false :
    ¬ (∀ (m : Mem), Layout m → m.src.size ≠ 0 →
      match decodeBlock m with
      | .ok (ret, m') =>
          if ret < 0 then Spec.Block.decode m.src.toList m.dict.toList m.dstLen = none
          else Spec.Block.decode m.src.toList m.dict.toList m.dstLen = some (m'.dst.extract 0 ret.toNat)
      | .error _ => False) := by
  intro h
  have h1 := h wit wit_layout (by decide)
  have h2 := wit_ret
  have h3 := wit_spec
  cases hres : decodeBlock wit with
  | error e => rw [hres] at h1; exact h1
  | ok p =>
    obtain ⟨ret, mm⟩ := p
    rw [hres] at h1 h2
    simp only [obs, Option.map_some, Option.some.injEq] at h2
    subst h2
    simp only [] at h1
    rw [if_pos (by decide)] at h1
    rw [h1] at h3
    exact absurd h3 (by decide)

/-! ## non-vacuity -/

/-- one literal `a`, then an overlapping match (offset 1, length 7) into `dst[0:8)` of a 10-byte
array, at Go-like addresses -/
def ex1 : Mem :=
  { dst := Array.replicate 10 0, dstLen := 8, src := #[0x13, 0x61, 0x01, 0x00], dict := #[],
    dstBase := 0xc000100000, srcBase := 0xc000200000, dictBase := 0xc000300000 }

/-- the hypotheses of `c03_asm` / `c04_asm_partial` are satisfiable … -/
example : Layout ex1 ∧ (ex1.dict.size = 0 ∨ 65536 ≤ ex1.dstBase) ∧ ex1.src.size ≠ 0 :=
  ⟨by constructor <;> simp [ex1], Or.inr (by decide), by decide⟩
/-- … and the conclusion is the non-trivial `.ok` case: 8 bytes decoded, `dst[8:10)` untouched -/
example : obs (decodeBlock ex1) = some (8, #[0x61, 0x61, 0x61, 0x61, 0x61, 0x61, 0x61, 0x61, 0, 0]) := by
  decide +kernel
example : Spec.Block.decode ex1.src.toList ex1.dict.toList ex1.dstLen = some (Array.replicate 8 0x61) := by
  decide +kernel

/-- shortcut stage 1, then a 22-byte match at offset 3 that starts 2 bytes inside the dictionary
(`copy_match_from_dict`, then the overlapping byte loop), then a 15-byte literal run read through
`lit_len_loop`: the decoder agrees with the specification, as `c04_asm_partial` says -/
def ex2 : Mem :=
  { dst := Array.replicate 40 0, dstLen := 40,
    src := #[0x1F, 0x61, 0x03, 0x00, 3, 0xF0, 0, 9, 9, 9, 9, 9, 9, 9, 9, 9, 9, 9, 9, 9, 9, 9],
    dict := #[1, 2, 3, 4, 5, 6, 7, 8],
    dstBase := 0xc000100000, srcBase := 0xc000200000, dictBase := 0xc000300000 }

example : Layout ex2 ∧ (ex2.dict.size = 0 ∨ 65536 ≤ ex2.dstBase) ∧ ex2.src.size ≠ 0 :=
  ⟨by constructor <;> simp [ex2], Or.inr (by decide), by decide⟩
example : (obs (decodeBlock ex2)).map (fun p => (p.1, p.2.extract 0 38)) =
    some (38, #[0x61, 7, 8, 0x61, 7, 8, 0x61, 7, 8, 0x61, 7, 8, 0x61, 7, 8, 0x61, 7, 8, 0x61, 7, 8, 0x61, 7,
      9, 9, 9, 9, 9, 9, 9, 9, 9, 9, 9, 9, 9, 9, 9]) := by decide +kernel
example : Spec.Block.decode ex2.src.toList ex2.dict.toList ex2.dstLen =
    some #[0x61, 7, 8, 0x61, 7, 8, 0x61, 7, 8, 0x61, 7, 8, 0x61, 7, 8, 0x61, 7, 8, 0x61, 7, 8, 0x61, 7,
      9, 9, 9, 9, 9, 9, 9, 9, 9, 9, 9, 9, 9, 9, 9] := by decide +kernel

/-- the witness block of `c04_asm_false` with the destination moved to 64 KiB: now decoded -/
example : (obs (decodeBlock { wit with dstBase := 65536 })).map (fun p => (p.1, p.2.extract 0 20)) =
    some (20, #[0x61, 7, 7, 7, 7, 9, 9, 9, 9, 9, 9, 9, 9, 9, 9, 9, 9, 9, 9, 9]) := by decide +kernel

/-- an error case: the output does not fit (`dstLen = 7`); error code, destination beyond
`dst[0:7)` untouched, the specification rejects -/
def ex3 : Mem := { ex1 with dstLen := 7 }
example : Layout ex3 := by constructor <;> simp [ex3, ex1]
example : (obs (decodeBlock ex3)).map (·.1) = some (-2) ∧
    Spec.Block.decode ex3.src.toList ex3.dict.toList ex3.dstLen = none := by decide +kernel

end Lz4V.Props.C03asm
