import Lz4V.Gen.Leaf
import Lz4V.Model.FrameW
import Lz4V.Proofs.Header
/-!
# The bit-field setters and getters of `internal/lz4stream/frame_gen.go`, regenerated, agree with the models

`Gen/Leaf.lean` is translated on every run from the bodies of the generated accessors of `DescriptorFlags`
and `DataBlockSize`.  The frame models use hand-written setters (`FrameW.setBit`, `versionSet`,
`blockSizeIndexSet`), the arithmetic block-size word `len % 2^31 + (raw ? 2^31 : 0)` (`FrameW.writeBlock`) and
its arithmetic reading (`x % 2^31`, `x ≥ 2^31` in `FrameR`).  The theorems below prove, for every argument,
that these are the functions the Go source defines; a change of a mask, of a shift or of a branch in
`frame_gen.go` breaks them at build time.
-/
namespace Lz4V.Props.Leaf
open Lz4V.Gen Lz4V.Model

theorem set_cc_gen (x : UInt16) (v : Bool) : FrameW.contentChecksumSet x v = setContentChecksum x v := by
  have h : (1 : UInt16) <<< (2 : Nat).toUInt16 = 4 := by decide
  simp only [FrameW.contentChecksumSet, FrameW.setBit, setContentChecksum, h]

theorem set_size_gen (x : UInt16) (v : Bool) : FrameW.sizeSet x v = setSize x v := by
  have h : (1 : UInt16) <<< (3 : Nat).toUInt16 = 8 := by decide
  simp only [FrameW.sizeSet, FrameW.setBit, setSize, h]

theorem set_bc_gen (x : UInt16) (v : Bool) : FrameW.blockChecksumSet x v = setBlockChecksum x v := by
  have h : (1 : UInt16) <<< (4 : Nat).toUInt16 = 16 := by decide
  simp only [FrameW.blockChecksumSet, FrameW.setBit, setBlockChecksum, h]

theorem set_bi_gen (x : UInt16) (v : Bool) : FrameW.blockIndependenceSet x v = setBlockIndependence x v := by
  have h : (1 : UInt16) <<< (5 : Nat).toUInt16 = 32 := by decide
  simp only [FrameW.blockIndependenceSet, FrameW.setBit, setBlockIndependence, h]

theorem set_version_gen (x v : UInt16) : FrameW.versionSet x v = setVersion x v := by
  have h : (3 : UInt16) <<< 6 = 192 := by decide
  simp only [FrameW.versionSet, setVersion, h]

/-- `BlockSizeIndexSet(lz4block.Index(size))`: the model passes the index as a `UInt16`, Go as the `uint8`
`BlockSizeIndex`; they agree for every value a `uint8` can hold. -/
theorem set_idx_gen (x : UInt16) (v : UInt8) : FrameW.blockSizeIndexSet x v.toUInt16 = setBlockSizeIndex x v := by
  have h : (7 : UInt16) <<< 12 = 28672 := by decide
  simp only [FrameW.blockSizeIndexSet, setBlockSizeIndex, h]

theorem set_idx_gen_nat (x : UInt16) (i : Nat) (hi : i < 256) :
    FrameW.blockSizeIndexSet x i.toUInt16 = setBlockSizeIndex x i.toUInt8 := by
  rw [← set_idx_gen]
  congr 1
  apply UInt16.toNat_inj.mp
  simp only [Nat.toUInt16_eq, Nat.toUInt8_eq, UInt16.toNat_ofNat', UInt8.toNat_toUInt16, UInt8.toNat_ofNat']
  omega

/-- the model's block-size index getter is `DescriptorFlags.BlockSizeIndex` -/
theorem get_idx_gen (x : UInt16) : FrameW.blockSizeIndex x = (flagBlockSizeIndex x).toNat := by
  have h := Proofs.Header.blockSizeIndex_eq x
  unfold flagBlockSizeIndex
  rw [UInt16.toNat_toUInt8]
  unfold FrameW.blockSizeIndex at h ⊢
  rw [h]; omega

/-! ## `DataBlockSize` (the 4-byte block header word) -/

/-- `DataBlockSize.size()` is the arithmetic the Reader model uses: the low 31 bits -/
theorem dbs_size_gen (x : UInt32) : dbsSize x = ((x.toNat % 2147483648 : Nat) : Int) := by
  unfold dbsSize
  rw [UInt32.toNat_and]
  have h : (2147483647 : UInt32).toNat = 2^31 - 1 := by decide
  rw [h, Nat.and_two_pow_sub_one_eq_mod]

/-- `DataBlockSize.Uncompressed()` is the test `x ≥ 2^31` of the Reader model -/
theorem dbs_unc_gen (x : UInt32) : dbsUncompressed x = decide (x.toNat ≥ 2147483648) := by
  unfold dbsUncompressed
  have hx := x.toNat_lt
  have h31 : (31 : UInt32).toNat % 32 = 31 := by decide
  have h1 : (1 : UInt32).toNat = 1 := by decide
  have h0 : (0 : UInt32).toNat = 0 := by decide
  by_cases hge : x.toNat ≥ 2147483648
  · rw [decide_eq_true hge, bne_iff_ne, Ne, ← UInt32.toNat_inj, UInt32.toNat_and, UInt32.toNat_shiftRight,
      h31, h1, h0, Nat.and_one_is_mod, Nat.shiftRight_eq_div_pow]
    omega
  · rw [decide_eq_false hge]
    have : ((x >>> 31) &&& 1) = 0 := by
      rw [← UInt32.toNat_inj, UInt32.toNat_and, UInt32.toNat_shiftRight, h31, h1, h0, Nat.and_one_is_mod,
        Nat.shiftRight_eq_div_pow]
      omega
    rw [this]; rfl

theorem and_or_distrib_right (a b c : UInt32) : (a ||| b) &&& c = (a &&& c) ||| (b &&& c) := by
  rw [← UInt32.toBitVec_inj]
  simp only [UInt32.toBitVec_and, UInt32.toBitVec_or]
  ext i hi
  simp only [BitVec.getElem_and, BitVec.getElem_or, Bool.and_or_distrib_right]

theorem hi_part (x : UInt32) (raw : Bool) :
    (dbsSetUncompressed x raw) &&& ~~~(2147483647 : UInt32) = if raw then 2147483648 else 0 := by
  have hn : ~~~(2147483647 : UInt32) = 2147483648 := by decide
  have hm : ~~~(2147483648 : UInt32) = 2147483647 := by decide
  have hz : (2147483647 : UInt32) &&& 2147483648 = 0 := by decide
  have hs : (2147483648 : UInt32) &&& 2147483648 = 2147483648 := by decide
  unfold dbsSetUncompressed
  rw [hn, hm]
  cases raw
  · simp only [Bool.false_eq_true, if_false, UInt32.and_assoc, hz, UInt32.and_zero]
  · simp only [if_true, and_or_distrib_right, UInt32.and_assoc, hz, hs, UInt32.and_zero, UInt32.zero_or]

theorem lo_part (n : Nat) :
    ((((n : Int).emod 4294967296).toNat.toUInt32 &&& 2147483647 : UInt32)).toNat = n % 2147483648 := by
  rw [UInt32.toNat_and]
  have h : (2147483647 : UInt32).toNat = 2^31 - 1 := by decide
  rw [h, Nat.and_two_pow_sub_one_eq_mod]
  have e : ((n : Int).emod 4294967296).toNat = n % 4294967296 := by
    have : (n : Int).emod 4294967296 = ((n % 4294967296 : Nat) : Int) := by
      simp [Int.emod]
    rw [this]; rfl
  rw [e, Nat.toUInt32_eq, UInt32.toNat_ofNat']
  omega

/-- `b.Size.UncompressedSet(raw); b.Size.sizeSet(len)` (FrameDataBlock.Compress) produces, from ANY previous value
of the size word, the arithmetic word of `FrameW.writeBlock`: nothing of the previous block's word survives. -/
theorem dbs_word_gen (x : UInt32) (raw : Bool) (n : Nat) :
    (dbsSetSize (dbsSetUncompressed x raw) (n : Int)).toNat
      = n % 2147483648 + (if raw then 2147483648 else 0) := by
  unfold dbsSetSize
  rw [hi_part, UInt32.toNat_or, lo_part]
  have hlt : n % 2147483648 < 2^31 := Nat.mod_lt _ (by decide)
  cases raw
  · simp only [Bool.false_eq_true, if_false]
    have : (0 : UInt32).toNat = 0 := by decide
    rw [this, Nat.zero_or, Nat.add_zero]
  · simp only [if_true]
    have : (2147483648 : UInt32).toNat = 2^31 := by decide
    rw [this]
    have h := Nat.two_pow_add_eq_or_of_lt hlt 1
    rw [Nat.mul_one] at h
    rw [← h]
    omega

end Lz4V.Props.Leaf
