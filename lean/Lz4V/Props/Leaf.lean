import Lz4V.Gen.Leaf
import Lz4V.Model.FrameW
import Lz4V.Proofs.Header
/-!
# The bit-field setters and getters of `internal/lz4stream/frame_gen.go`, regenerated, agree with the models

`Gen/Leaf.lean` is translated on every run from the bodies of the generated accessors of `DescriptorFlags`
and `DataBlockSize`.  The frame models use hand-written setters (`FrameW.setBit`, `versionSet`,
`blockSizeIndexSet`), the arithmetic block-size word `len % 2^31 + (raw ? 2^31 : 0)` (`FrameW.writeBlock`) and
its arithmetic reading (`x % 2^31`, `x ≥ 2^31` in `FrameR`).  The theorems below prove, for every argument,
that these are the functions the Go source defines; a change of a mask, of a shift or of a branch in
`frame_gen.go` breaks them at build time.
-/
namespace Lz4V.Props.Leaf
open Lz4V.Gen Lz4V.Model

theorem set_cc_gen (x : UInt16) (v : Bool) : FrameW.contentChecksumSet x v = setContentChecksum x v := by
  have h : (1 : UInt16) <<< (2 : Nat).toUInt16 = 4 := by decide
  simp only [FrameW.contentChecksumSet, FrameW.setBit, setContentChecksum, h]

theorem set_size_gen (x : UInt16) (v : Bool) : FrameW.sizeSet x v = setSize x v := by
  have h : (1 : UInt16) <<< (3 : Nat).toUInt16 = 8 := by decide
  simp only [FrameW.sizeSet, FrameW.setBit, setSize, h]

theorem set_bc_gen (x : UInt16) (v : Bool) : FrameW.blockChecksumSet x v = setBlockChecksum x v := by
  have h : (1 : UInt16) <<< (4 : Nat).toUInt16 = 16 := by decide
  simp only [FrameW.blockChecksumSet, FrameW.setBit, setBlockChecksum, h]

theorem set_bi_gen (x : UInt16) (v : Bool) : FrameW.blockIndependenceSet x v = setBlockIndependence x v := by
  have h : (1 : UInt16) <<< (5 : Nat).toUInt16 = 32 := by decide
  simp only [FrameW.blockIndependenceSet, FrameW.setBit, setBlockIndependence, h]

theorem set_version_gen (x v : UInt16) : FrameW.versionSet x v = setVersion x v := by
  have h : (3 : UInt16) <<< 6 = 192 := by decide
  simp only [FrameW.versionSet, setVersion, h]

/-- `BlockSizeIndexSet(lz4block.Index(size))`: the model passes the index as a `UInt16`, Go as the `uint8`
`BlockSizeIndex`; they agree for every value a `uint8` can hold. -/
theorem set_idx_gen (x : UInt16) (v : UInt8) : FrameW.blockSizeIndexSet x v.toUInt16 = setBlockSizeIndex x v := by
  have h : (7 : UInt16) <<< 12 = 28672 := by decide
  simp only [FrameW.blockSizeIndexSet, setBlockSizeIndex, h]

theorem set_idx_gen_nat (x : UInt16) (i : Nat) (hi : i < 256) :
    FrameW.blockSizeIndexSet x i.toUInt16 = setBlockSizeIndex x i.toUInt8 := by
  rw [← set_idx_gen]
  congr 1
  apply UInt16.toNat_inj.mp
  simp only [Nat.toUInt16_eq, Nat.toUInt8_eq, UInt16.toNat_ofNat', UInt8.toNat_toUInt16, UInt8.toNat_ofNat']
  omega

/-- the model's block-size index getter is `DescriptorFlags.BlockSizeIndex` -/
theorem get_idx_gen (x : UInt16) : FrameW.blockSizeIndex x = (flagBlockSizeIndex x).toNat := by
  have h := Proofs.Header.blockSizeIndex_eq x
  unfold flagBlockSizeIndex
  rw [UInt16.toNat_toUInt8]
  unfold FrameW.blockSizeIndex at h ⊢
  rw [h]; omega

/-! ## `DataBlockSize` (the 4-byte block header word) -/

/-- `DataBlockSize.size()` is the arithmetic the Reader model uses: the low 31 bits -/
theorem dbs_size_gen (x : UInt32) : dbsSize x = ((x.toNat % 2147483648 : Nat) : Int) := by
  unfold dbsSize
  rw [UInt32.toNat_and]
  have h : (2147483647 : UInt32).toNat = 2^31 - 1 := by decide
  rw [h, Nat.and_two_pow_sub_one_eq_mod]

/-- `DataBlockSize.Uncompressed()` is the test `x ≥ 2^31` of the Reader model -/
theorem dbs_unc_gen (x : UInt32) : dbsUncompressed x = decide (x.toNat ≥ 2147483648) := by
  unfold dbsUncompressed
  have hx := x.toNat_lt
  have h31 : (31 : UInt32).toNat % 32 = 31 := by decide
  have h1 : (1 : UInt32).toNat = 1 := by decide
  have h0 : (0 : UInt32).toNat = 0 := by decide
  by_cases hge : x.toNat ≥ 2147483648
  · rw [decide_eq_true hge, bne_iff_ne, Ne, ← UInt32.toNat_inj, UInt32.toNat_and, UInt32.toNat_shiftRight,
      h31, h1, h0, Nat.and_one_is_mod, Nat.shiftRight_eq_div_pow]
    omega
  · rw [decide_eq_false hge]
    have : ((x >>> 31) &&& 1) = 0 := by
      rw [← UInt32.toNat_inj, UInt32.toNat_and, UInt32.toNat_shiftRight, h31, h1, h0, Nat.and_one_is_mod,
        Nat.shiftRight_eq_div_pow]
      omega
    rw [this]; rfl

theorem and_or_distrib_right (a b c : UInt32) : (a ||| b) &&& c = (a &&& c) ||| (b &&& c) := by
  rw [← UInt32.toBitVec_inj]
  simp only [UInt32.toBitVec_and, UInt32.toBitVec_or]
  ext i hi
  simp only [BitVec.getElem_and, BitVec.getElem_or, Bool.and_or_distrib_right]

theorem hi_part (x : UInt32) (raw : Bool) :
    (dbsSetUncompressed x raw) &&& ~~~(2147483647 : UInt32) = if raw then 2147483648 else 0 := by
  have hn : ~~~(2147483647 : UInt32) = 2147483648 := by decide
  have hm : ~~~(2147483648 : UInt32) = 2147483647 := by decide
  have hz : (2147483647 : UInt32) &&& 2147483648 = 0 := by decide
  have hs : (2147483648 : UInt32) &&& 2147483648 = 2147483648 := by decide
  unfold dbsSetUncompressed
  rw [hn, hm]
  cases raw
  · simp only [Bool.false_eq_true, if_false, UInt32.and_assoc, hz, UInt32.and_zero]
  · simp only [if_true, and_or_distrib_right, UInt32.and_assoc, hz, hs, UInt32.and_zero, UInt32.zero_or]

theorem lo_part (n : Nat) :
    ((((n : Int).emod 4294967296).toNat.toUInt32 &&& 2147483647 : UInt32)).toNat = n % 2147483648 := by
  rw [UInt32.toNat_and]
  have h : (2147483647 : UInt32).toNat = 2^31 - 1 := by decide
  rw [h, Nat.and_two_pow_sub_one_eq_mod]
  have e : ((n : Int).emod 4294967296).toNat = n % 4294967296 := by
    have : (n : Int).emod 4294967296 = ((n % 4294967296 : Nat) : Int) := by
      simp [Int.emod]
    rw [this]; rfl
  rw [e, Nat.toUInt32_eq, UInt32.toNat_ofNat']
  omega

/-- `b.Size.UncompressedSet(raw); b.Size.sizeSet(len)` (FrameDataBlock.Compress) produces, from ANY previous value
of the size word, the arithmetic word of `FrameW.writeBlock`: nothing of the previous block's word survives. -/
theorem dbs_word_gen (x : UInt32) (raw : Bool) (n : Nat) :
    (dbsSetSize (dbsSetUncompressed x raw) (n : Int)).toNat
      = n % 2147483648 + (if raw then 2147483648 else 0) := by
  unfold dbsSetSize
  rw [hi_part, UInt32.toNat_or, lo_part]
  have hlt : n % 2147483648 < 2^31 := Nat.mod_lt _ (by decide)
  cases raw
  · simp only [Bool.false_eq_true, if_false]
    have : (0 : UInt32).toNat = 0 := by decide
    rw [this, Nat.zero_or, Nat.add_zero]
  · simp only [if_true]
    have : (2147483648 : UInt32).toNat = 2^31 := by decide
    rw [this]
    have h := Nat.two_pow_add_eq_or_of_lt hlt 1
    rw [Nat.mul_one] at h
    rw [← h]
    omega

/-! ## accessor laws of the generated code itself

These speak about the regenerated Go accessors directly (no hand-written model in between): each one-bit setter of
`DescriptorFlags` sets exactly its own flag and leaves the other three flags as they were, for every word. -/

theorem bne_zero_toNat (a : UInt16) : (a != 0) = (a.toNat != 0) := by
  by_cases h : a = 0
  · subst h; rfl
  · have h' : a.toNat ≠ 0 := fun e => h (UInt16.toNat_inj.mp (by simpa using e))
    rw [bne_iff_ne.mpr h, bne_iff_ne.mpr h']

theorem getBit (y : UInt16) (k : Nat) (hk : k < 16) :
    (((y >>> k.toUInt16) &&& 1) != 0) = y.toNat.testBit k := by
  rw [bne_zero_toNat, UInt16.toNat_and, UInt16.toNat_shiftRight]
  have h1 : (1 : UInt16).toNat = 1 := by decide
  have hk' : k.toUInt16.toNat % 16 = k := by
    simp only [Nat.toUInt16_eq, UInt16.toNat_ofNat']; omega
  rw [h1, hk']
  unfold Nat.testBit
  rw [Nat.and_comm]

theorem cc_bit (y : UInt16) : flagContentChecksum y = y.toNat.testBit 2 := getBit y 2 (by decide)
theorem size_bit (y : UInt16) : flagSize y = y.toNat.testBit 3 := getBit y 3 (by decide)
theorem bc_bit (y : UInt16) : flagBlockChecksum y = y.toNat.testBit 4 := getBit y 4 (by decide)
theorem bi_bit (y : UInt16) : flagBlockIndependence y = y.toNat.testBit 5 := getBit y 5 (by decide)


theorem n4 : (~~~(4 : UInt16)).toNat = 65531 := by decide
theorem n8 : (~~~(8 : UInt16)).toNat = 65527 := by decide
theorem n16 : (~~~(16 : UInt16)).toNat = 65519 := by decide
theorem n32 : (~~~(32 : UInt16)).toNat = 65503 := by decide
theorem c4 : (4 : UInt16).toNat = 4 := by decide
theorem c8 : (8 : UInt16).toNat = 8 := by decide
theorem c16 : (16 : UInt16).toNat = 16 := by decide
theorem c32 : (32 : UInt16).toNat = 32 := by decide

theorem tb_65531_2 : Nat.testBit 65531 2 = false := by decide
theorem tb_65531_3 : Nat.testBit 65531 3 = true := by decide
theorem tb_65531_4 : Nat.testBit 65531 4 = true := by decide
theorem tb_65531_5 : Nat.testBit 65531 5 = true := by decide
theorem tb_65527_2 : Nat.testBit 65527 2 = true := by decide
theorem tb_65527_3 : Nat.testBit 65527 3 = false := by decide
theorem tb_65527_4 : Nat.testBit 65527 4 = true := by decide
theorem tb_65527_5 : Nat.testBit 65527 5 = true := by decide
theorem tb_65519_2 : Nat.testBit 65519 2 = true := by decide
theorem tb_65519_3 : Nat.testBit 65519 3 = true := by decide
theorem tb_65519_4 : Nat.testBit 65519 4 = false := by decide
theorem tb_65519_5 : Nat.testBit 65519 5 = true := by decide
theorem tb_65503_2 : Nat.testBit 65503 2 = true := by decide
theorem tb_65503_3 : Nat.testBit 65503 3 = true := by decide
theorem tb_65503_4 : Nat.testBit 65503 4 = true := by decide
theorem tb_65503_5 : Nat.testBit 65503 5 = false := by decide
theorem tb_4_2 : Nat.testBit 4 2 = true := by decide
theorem tb_4_3 : Nat.testBit 4 3 = false := by decide
theorem tb_4_4 : Nat.testBit 4 4 = false := by decide
theorem tb_4_5 : Nat.testBit 4 5 = false := by decide
theorem tb_8_2 : Nat.testBit 8 2 = false := by decide
theorem tb_8_3 : Nat.testBit 8 3 = true := by decide
theorem tb_8_4 : Nat.testBit 8 4 = false := by decide
theorem tb_8_5 : Nat.testBit 8 5 = false := by decide
theorem tb_16_2 : Nat.testBit 16 2 = false := by decide
theorem tb_16_3 : Nat.testBit 16 3 = false := by decide
theorem tb_16_4 : Nat.testBit 16 4 = true := by decide
theorem tb_16_5 : Nat.testBit 16 5 = false := by decide
theorem tb_32_2 : Nat.testBit 32 2 = false := by decide
theorem tb_32_3 : Nat.testBit 32 3 = false := by decide
theorem tb_32_4 : Nat.testBit 32 4 = false := by decide
theorem tb_32_5 : Nat.testBit 32 5 = true := by decide

macro "bitlaw" : tactic => `(tactic| (
  simp only [cc_bit, size_bit, bc_bit, bi_bit, setContentChecksum, setSize, setBlockChecksum, setBlockIndependence]
  split <;> simp only [UInt16.toNat_or, UInt16.toNat_and, Nat.testBit_or, Nat.testBit_and, n4, n8, n16, n32, c4, c8, c16, c32,
      tb_65531_2, tb_65531_3, tb_65531_4, tb_65531_5, tb_65527_2, tb_65527_3, tb_65527_4, tb_65527_5, tb_65519_2, tb_65519_3, tb_65519_4, tb_65519_5, tb_65503_2, tb_65503_3, tb_65503_4, tb_65503_5, tb_4_2, tb_4_3, tb_4_4, tb_4_5, tb_8_2, tb_8_3, tb_8_4, tb_8_5, tb_16_2, tb_16_3, tb_16_4, tb_16_5, tb_32_2, tb_32_3, tb_32_4, tb_32_5, Bool.and_true, Bool.and_false, Bool.or_false, Bool.or_true]
    <;> simp_all))

theorem get_set_cc (x : UInt16) (v : Bool) : flagContentChecksum (setContentChecksum x v) = v := by bitlaw
theorem size_set_cc (x : UInt16) (v : Bool) : flagSize (setContentChecksum x v) = flagSize x := by bitlaw
theorem bc_set_cc (x : UInt16) (v : Bool) : flagBlockChecksum (setContentChecksum x v) = flagBlockChecksum x := by bitlaw
theorem bi_set_cc (x : UInt16) (v : Bool) : flagBlockIndependence (setContentChecksum x v) = flagBlockIndependence x := by bitlaw
theorem cc_set_size (x : UInt16) (v : Bool) : flagContentChecksum (setSize x v) = flagContentChecksum x := by bitlaw
theorem get_set_size (x : UInt16) (v : Bool) : flagSize (setSize x v) = v := by bitlaw
theorem bc_set_size (x : UInt16) (v : Bool) : flagBlockChecksum (setSize x v) = flagBlockChecksum x := by bitlaw
theorem bi_set_size (x : UInt16) (v : Bool) : flagBlockIndependence (setSize x v) = flagBlockIndependence x := by bitlaw
theorem cc_set_bc (x : UInt16) (v : Bool) : flagContentChecksum (setBlockChecksum x v) = flagContentChecksum x := by bitlaw
theorem size_set_bc (x : UInt16) (v : Bool) : flagSize (setBlockChecksum x v) = flagSize x := by bitlaw
theorem get_set_bc (x : UInt16) (v : Bool) : flagBlockChecksum (setBlockChecksum x v) = v := by bitlaw
theorem bi_set_bc (x : UInt16) (v : Bool) : flagBlockIndependence (setBlockChecksum x v) = flagBlockIndependence x := by bitlaw
theorem cc_set_bi (x : UInt16) (v : Bool) : flagContentChecksum (setBlockIndependence x v) = flagContentChecksum x := by bitlaw
theorem size_set_bi (x : UInt16) (v : Bool) : flagSize (setBlockIndependence x v) = flagSize x := by bitlaw
theorem bc_set_bi (x : UInt16) (v : Bool) : flagBlockChecksum (setBlockIndependence x v) = flagBlockChecksum x := by bitlaw
theorem get_set_bi (x : UInt16) (v : Bool) : flagBlockIndependence (setBlockIndependence x v) = v := by bitlaw

/-! `VersionSet` / `BlockSizeIndexSet` (what `FrameDescriptor.initW` and the options apply) leave the four option
flags as they were, for every word and every argument. -/

theorem n192 : (~~~(192 : UInt16)).toNat = 65343 := by decide
theorem n28672 : (~~~(28672 : UInt16)).toNat = 36863 := by decide

theorem shl_low (a : UInt16) (s k : Nat) (hs : s < 16) (hk : k < s) : ((a <<< s.toUInt16).toNat).testBit k = false := by
  rw [UInt16.toNat_shiftLeft]
  have hs' : s.toUInt16.toNat % 16 = s := by
    simp only [Nat.toUInt16_eq, UInt16.toNat_ofNat']; omega
  rw [hs']
  show Nat.testBit ((a.toNat <<< s) % 2^16) k = false
  rw [Nat.testBit_mod_two_pow, Nat.testBit_shiftLeft]
  have : ¬ (k ≥ s) := by omega
  simp [this]

theorem cc_set_version (x : UInt16) (v : UInt16) : flagContentChecksum (setVersion x v) = flagContentChecksum x := by
  simp only [cc_bit, setVersion, UInt16.toNat_or, UInt16.toNat_and, Nat.testBit_or, Nat.testBit_and, n192]
  have h := shl_low (v &&& 3) 6 2 (by decide) (by decide)
  have e : (6 : Nat).toUInt16 = 6 := by decide
  rw [e] at h
  rw [h]
  have : Nat.testBit 65343 2 = true := by decide
  simp [this]
theorem cc_set_idx (x : UInt16) (v : UInt8) : flagContentChecksum (setBlockSizeIndex x v) = flagContentChecksum x := by
  simp only [cc_bit, setBlockSizeIndex, UInt16.toNat_or, UInt16.toNat_and, Nat.testBit_or, Nat.testBit_and, n28672]
  have h := shl_low ((v).toUInt16 &&& 7) 12 2 (by decide) (by decide)
  have e : (12 : Nat).toUInt16 = 12 := by decide
  rw [e] at h
  rw [h]
  have : Nat.testBit 36863 2 = true := by decide
  simp [this]
theorem size_set_version (x : UInt16) (v : UInt16) : flagSize (setVersion x v) = flagSize x := by
  simp only [size_bit, setVersion, UInt16.toNat_or, UInt16.toNat_and, Nat.testBit_or, Nat.testBit_and, n192]
  have h := shl_low (v &&& 3) 6 3 (by decide) (by decide)
  have e : (6 : Nat).toUInt16 = 6 := by decide
  rw [e] at h
  rw [h]
  have : Nat.testBit 65343 3 = true := by decide
  simp [this]
theorem size_set_idx (x : UInt16) (v : UInt8) : flagSize (setBlockSizeIndex x v) = flagSize x := by
  simp only [size_bit, setBlockSizeIndex, UInt16.toNat_or, UInt16.toNat_and, Nat.testBit_or, Nat.testBit_and, n28672]
  have h := shl_low ((v).toUInt16 &&& 7) 12 3 (by decide) (by decide)
  have e : (12 : Nat).toUInt16 = 12 := by decide
  rw [e] at h
  rw [h]
  have : Nat.testBit 36863 3 = true := by decide
  simp [this]
theorem bc_set_version (x : UInt16) (v : UInt16) : flagBlockChecksum (setVersion x v) = flagBlockChecksum x := by
  simp only [bc_bit, setVersion, UInt16.toNat_or, UInt16.toNat_and, Nat.testBit_or, Nat.testBit_and, n192]
  have h := shl_low (v &&& 3) 6 4 (by decide) (by decide)
  have e : (6 : Nat).toUInt16 = 6 := by decide
  rw [e] at h
  rw [h]
  have : Nat.testBit 65343 4 = true := by decide
  simp [this]
theorem bc_set_idx (x : UInt16) (v : UInt8) : flagBlockChecksum (setBlockSizeIndex x v) = flagBlockChecksum x := by
  simp only [bc_bit, setBlockSizeIndex, UInt16.toNat_or, UInt16.toNat_and, Nat.testBit_or, Nat.testBit_and, n28672]
  have h := shl_low ((v).toUInt16 &&& 7) 12 4 (by decide) (by decide)
  have e : (12 : Nat).toUInt16 = 12 := by decide
  rw [e] at h
  rw [h]
  have : Nat.testBit 36863 4 = true := by decide
  simp [this]
theorem bi_set_version (x : UInt16) (v : UInt16) : flagBlockIndependence (setVersion x v) = flagBlockIndependence x := by
  simp only [bi_bit, setVersion, UInt16.toNat_or, UInt16.toNat_and, Nat.testBit_or, Nat.testBit_and, n192]
  have h := shl_low (v &&& 3) 6 5 (by decide) (by decide)
  have e : (6 : Nat).toUInt16 = 6 := by decide
  rw [e] at h
  rw [h]
  have : Nat.testBit 65343 5 = true := by decide
  simp [this]
theorem bi_set_idx (x : UInt16) (v : UInt8) : flagBlockIndependence (setBlockSizeIndex x v) = flagBlockIndependence x := by
  simp only [bi_bit, setBlockSizeIndex, UInt16.toNat_or, UInt16.toNat_and, Nat.testBit_or, Nat.testBit_and, n28672]
  have h := shl_low ((v).toUInt16 &&& 7) 12 5 (by decide) (by decide)
  have e : (12 : Nat).toUInt16 = 12 := by decide
  rw [e] at h
  rw [h]
  have : Nat.testBit 36863 5 = true := by decide
  simp [this]

/-! The block-size index is read back as it was stored (`BlockSizeIndexSet` then `BlockSizeIndex`), whatever the
word held before. -/

theorem n28672' : (~~~(28672 : UInt16)).toNat = 36863 := by decide

/-- `DescriptorFlags.BlockSizeIndex` as arithmetic -/
theorem idx_arith (y : UInt16) : (flagBlockSizeIndex y).toNat = y.toNat / 4096 % 8 := by
  rw [← get_idx_gen, Lz4V.Proofs.Header.blockSizeIndex_eq]

/-- reading back the index that `BlockSizeIndexSet` stored: the low three bits of the argument -/
theorem get_set_idx (x : UInt16) (v : UInt8) : (flagBlockSizeIndex (setBlockSizeIndex x v)).toNat = v.toNat % 8 := by
  rw [idx_arith]
  unfold setBlockSizeIndex
  rw [UInt16.toNat_or, UInt16.toNat_and, n28672', UInt16.toNat_shiftLeft, UInt16.toNat_and, UInt8.toNat_toUInt16]
  have h12 : (12 : UInt16).toNat % 16 = 12 := by decide
  have h7 : (7 : UInt16).toNat = 2^3 - 1 := by decide
  rw [h12, h7, Nat.and_two_pow_sub_one_eq_mod]
  have hv : v.toNat % 2^3 < 8 := Nat.mod_lt _ (by decide)
  have hsh : (v.toNat % 2^3) <<< 12 % 65536 = (v.toNat % 2^3) * 4096 := by
    rw [Nat.shiftLeft_eq]; omega
  show ((x.toNat &&& 36863) ||| (v.toNat % 2^3) <<< 12 % 2^16) / 4096 % 8 = v.toNat % 8
  have e16 : (2:Nat)^16 = 65536 := by decide
  rw [e16, hsh]
  have e4096 : (4096 : Nat) = 2^12 := by decide
  rw [e4096, ← Nat.shiftRight_eq_div_pow, Nat.shiftRight_or_distrib, Nat.shiftRight_and_distrib]
  have c : (36863 : Nat) >>> 12 = 8 := by decide
  rw [c, Nat.shiftRight_eq_div_pow ((v.toNat % 2^3) * 2^12), Nat.mul_div_cancel _ (by decide : 0 < 2^12)]
  have e8 : (8 : Nat) = 2^3 := by decide
  rw [e8]
  apply Nat.eq_of_testBit_eq; intro i
  rw [Nat.testBit_mod_two_pow, Nat.testBit_or, Nat.testBit_and, Nat.testBit_two_pow]
  by_cases hi : i < 3
  · have h3 : ¬ (3 = i) := by omega
    simp [hi, h3]
  · have hp : (2:Nat)^3 ≤ 2^i := Nat.pow_le_pow_right (by decide) (by omega)
    have hb : (v.toNat % 2^3).testBit i = false := Nat.testBit_lt_two_pow (by omega)
    simp [hi, hb]

/-- every index `lz4block.Index` can return is below 8, so it is read back unchanged -/
theorem get_set_idx_small (x : UInt16) (v : UInt8) (hv : v.toNat < 8) :
    (flagBlockSizeIndex (setBlockSizeIndex x v)).toNat = v.toNat := by
  rw [get_set_idx]; omega

/-! The one-bit setters (what the options apply) leave the block-size index as it was. -/

/-- clearing / setting bits below bit 12 does not change the bits from 12 up -/
theorem hi_unchanged (a c b : Nat) (ha : a < 65536) (hc : c >>> 12 = 15) (hb : b < 4096) :
    ((a &&& c) ||| b) / 4096 = a / 4096 := by
  have e4096 : (4096 : Nat) = 2^12 := by decide
  rw [e4096, ← Nat.shiftRight_eq_div_pow, ← Nat.shiftRight_eq_div_pow, Nat.shiftRight_or_distrib,
    Nat.shiftRight_and_distrib, hc]
  have hb0 : b >>> 12 = 0 := by
    rw [Nat.shiftRight_eq_div_pow]; exact Nat.div_eq_of_lt (by omega)
  have h15 : (15 : Nat) = 2^4 - 1 := by decide
  rw [hb0, Nat.or_zero, h15, Nat.and_two_pow_sub_one_eq_mod]
  apply Nat.mod_eq_of_lt
  rw [Nat.shiftRight_eq_div_pow]
  omega

theorem idx_set_cc (x : UInt16) (v : Bool) : flagBlockSizeIndex (setContentChecksum x v) = flagBlockSizeIndex x := by
  apply UInt8.toNat_inj.mp
  rw [idx_arith, idx_arith]
  unfold setContentChecksum
  have hx := x.toNat_lt
  split
  · rw [UInt16.toNat_or, UInt16.toNat_and, n4, c4, hi_unchanged _ _ _ (by omega) (by decide) (by decide)]
  · rw [UInt16.toNat_and, n4]
    have := hi_unchanged x.toNat 65531 0 (by omega) (by decide) (by decide)
    rw [Nat.or_zero] at this
    rw [this]
theorem idx_set_size (x : UInt16) (v : Bool) : flagBlockSizeIndex (setSize x v) = flagBlockSizeIndex x := by
  apply UInt8.toNat_inj.mp
  rw [idx_arith, idx_arith]
  unfold setSize
  have hx := x.toNat_lt
  split
  · rw [UInt16.toNat_or, UInt16.toNat_and, n8, c8, hi_unchanged _ _ _ (by omega) (by decide) (by decide)]
  · rw [UInt16.toNat_and, n8]
    have := hi_unchanged x.toNat 65527 0 (by omega) (by decide) (by decide)
    rw [Nat.or_zero] at this
    rw [this]
theorem idx_set_bc (x : UInt16) (v : Bool) : flagBlockSizeIndex (setBlockChecksum x v) = flagBlockSizeIndex x := by
  apply UInt8.toNat_inj.mp
  rw [idx_arith, idx_arith]
  unfold setBlockChecksum
  have hx := x.toNat_lt
  split
  · rw [UInt16.toNat_or, UInt16.toNat_and, n16, c16, hi_unchanged _ _ _ (by omega) (by decide) (by decide)]
  · rw [UInt16.toNat_and, n16]
    have := hi_unchanged x.toNat 65519 0 (by omega) (by decide) (by decide)
    rw [Nat.or_zero] at this
    rw [this]
theorem idx_set_bi (x : UInt16) (v : Bool) : flagBlockSizeIndex (setBlockIndependence x v) = flagBlockSizeIndex x := by
  apply UInt8.toNat_inj.mp
  rw [idx_arith, idx_arith]
  unfold setBlockIndependence
  have hx := x.toNat_lt
  split
  · rw [UInt16.toNat_or, UInt16.toNat_and, n32, c32, hi_unchanged _ _ _ (by omega) (by decide) (by decide)]
  · rw [UInt16.toNat_and, n32]
    have := hi_unchanged x.toNat 65503 0 (by omega) (by decide) (by decide)
    rw [Nat.or_zero] at this
    rw [this]

/-! The version is read back as it was stored (`VersionSet(1)` in `FrameDescriptor.initW`, `Version()` in `initR`). -/

/-- `DescriptorFlags.Version` as arithmetic -/
theorem version_arith (y : UInt16) : (flagVersion y).toNat = y.toNat / 64 % 4 := by
  unfold flagVersion
  rw [UInt16.toNat_and, UInt16.toNat_shiftRight]
  have h6 : (6 : UInt16).toNat % 16 = 6 := by decide
  have h3 : (3 : UInt16).toNat = 2^2 - 1 := by decide
  rw [h6, h3, Nat.and_two_pow_sub_one_eq_mod, Nat.shiftRight_eq_div_pow]

/-- reading back the version `VersionSet` stored: the low two bits of the argument -/
theorem get_set_version (x v : UInt16) : (flagVersion (setVersion x v)).toNat = v.toNat % 4 := by
  rw [version_arith]
  unfold setVersion
  rw [UInt16.toNat_or, UInt16.toNat_and, n192, UInt16.toNat_shiftLeft, UInt16.toNat_and]
  have h6 : (6 : UInt16).toNat % 16 = 6 := by decide
  have h3 : (3 : UInt16).toNat = 2^2 - 1 := by decide
  rw [h6, h3, Nat.and_two_pow_sub_one_eq_mod]
  have hv : v.toNat % 2^2 < 4 := Nat.mod_lt _ (by decide)
  have hsh : (v.toNat % 2^2) <<< 6 % 65536 = (v.toNat % 2^2) * 2^6 := by
    rw [Nat.shiftLeft_eq]; omega
  show ((x.toNat &&& 65343) ||| (v.toNat % 2^2) <<< 6 % 2^16) / 64 % 4 = v.toNat % 4
  have e16 : (2:Nat)^16 = 65536 := by decide
  rw [e16, hsh]
  have e64 : (64 : Nat) = 2^6 := by decide
  rw [e64, ← Nat.shiftRight_eq_div_pow, Nat.shiftRight_or_distrib, Nat.shiftRight_and_distrib]
  have c : (65343 : Nat) >>> 6 = 1020 := by decide
  rw [c, Nat.shiftRight_eq_div_pow ((v.toNat % 2^2) * 2^6), Nat.mul_div_cancel _ (by decide : 0 < 2^6)]
  have e4 : (4 : Nat) = 2^2 := by decide
  rw [e4]
  apply Nat.eq_of_testBit_eq; intro i
  rw [Nat.testBit_mod_two_pow, Nat.testBit_or, Nat.testBit_and]
  by_cases hi : i < 2
  · have h1020 : Nat.testBit 1020 i = false := by
      have : i = 0 ∨ i = 1 := by omega
      rcases this with rfl | rfl <;> decide
    simp [hi, h1020]
  · have hp : (2:Nat)^2 ≤ 2^i := Nat.pow_le_pow_right (by decide) (by omega)
    have hb : (v.toNat % 2^2).testBit i = false := Nat.testBit_lt_two_pow (by omega)
    simp [hi, hb]

end Lz4V.Props.Leaf
