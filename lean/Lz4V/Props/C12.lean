import Lz4V.Props.C03asm
import Lz4V.Props.C04go
/-!
# C12 — the amd64 assembly block decoder and the portable Go block decoder are observationally equivalent

Both decoders have been proved equal to `Spec.Block.decode` (`C03asm.c04_asm_partial`,
`C04go.c04_go_partial`) and memory safe (`C03asm.c03_asm`, `C04go.c03_go`).  `c12` composes the four:
for every source, every destination length and every dictionary, under the memory layout Go
guarantees, the two builds observe the same outcome (error / success), the same length and the
same bytes.

The hypotheses are exactly those of the two agreement theorems:
* `hbase` — no dictionary, or the destination does not lie in the first 64 KiB of the address space
  (needed by the assembly, see `C03asm.c04_asm_false`);
* `hlen` — the destination is shorter than `2^63` bytes (the portable model's standing assumption,
  see `C04go.c04_go_unbounded_false`); true of every Go slice.

The observation identifies all error codes (`-1`, `-2`, `-3` of the assembly; `hasError` of the
portable code): the Go wrapper `UncompressBlock` maps every negative result to the same
`ErrInvalidSourceShortBuffer`.
-/
namespace Lz4V.Props.C12
open Lz4V Lz4V.Model

/-- the API-level result of a decoder run: error, or the count and the decoded bytes -/
inductive Obs where
  | err
  | ok (n : Nat) (bytes : Array UInt8)
deriving DecidableEq

/-- observation of the portable decoder -/
def obsGo (dst src dict : Array UInt8) : Obs :=
  match DecodeGo.decodeBlock dst src dict with
  | .ok di d => .ok di (d.extract 0 di)
  | .err _ => .err

/-- observation of the assembly decoder; `none` = memory fault -/
def obsAsm (m : DecodeAsm.Mem) : Option Obs :=
  match DecodeAsm.decodeBlock m with
  | .ok (ret, m') => if ret < 0 then some .err else some (.ok ret.toNat (m'.dst.extract 0 ret.toNat))
  | .error _ => none

/-- C12: for every source, destination length and dictionary, under the memory layout Go guarantees,
both builds observe the same outcome, the same length and the same bytes -/
theorem c12 (m : DecodeAsm.Mem) (h : Lz4V.Props.C03asm.Layout m) (hsrc : m.src.size ≠ 0)
    (hbase : m.dict.size = 0 ∨ 65536 ≤ m.dstBase) (hlen : m.dstLen < 2 ^ 63) :
    obsAsm m = some (obsGo (m.dst.extract 0 m.dstLen) m.src m.dict) := by
  have hsz : (m.dst.extract 0 m.dstLen).size = m.dstLen := by
    have := h.dstLen_le
    simp only [Array.size_extract]; omega
  have a1 := C03asm.c04_asm_partial m h hbase hsrc
  have a2 := C03asm.c03_asm m h
  have g1 := C04go.c04_go_partial m.src (m.dst.extract 0 m.dstLen) m.dict hsrc (by omega)
  have g2 := C04go.c03_go m.src (m.dst.extract 0 m.dstLen) m.dict
  rw [hsz] at g1 g2
  unfold obsAsm obsGo
  cases ha : DecodeAsm.decodeBlock m with
  | error e => rw [ha] at a1; exact a1.elim
  | ok p =>
    obtain ⟨ret, m'⟩ := p
    rw [ha] at a1 a2
    simp only at a1 a2 ⊢
    cases hg : DecodeGo.decodeBlock (m.dst.extract 0 m.dstLen) m.src m.dict with
    | err d =>
      rw [hg] at g1
      simp only at g1 ⊢
      by_cases hr : ret < 0
      · rw [if_pos hr]
      · rw [if_neg hr, g1] at a1
        exact absurd a1 (by simp)
    | ok di d =>
      rw [hg] at g1 g2
      simp only at g1 g2 ⊢
      by_cases hr : ret < 0
      · rw [if_pos hr, g1] at a1
        exact absurd a1 (by simp)
      · rw [if_neg hr, g1] at a1
        rw [if_neg hr]
        have he : d.extract 0 di = m'.dst.extract 0 ret.toNat := Option.some.inj a1
        have hs := congrArg Array.size he
        simp only [Array.size_extract] at hs
        have hdl := h.dstLen_le
        obtain ⟨hr1, hr2, -⟩ := a2
        have hn : ret.toNat = di := by omega
        rw [← he, hn]

/-! ## non-vacuity -/

/-- hypotheses satisfiable and conclusion non-trivial on `C03asm.ex1` (one literal, an overlapping
match): both decoders deliver 8 bytes `a` -/
example : C03asm.Layout C03asm.ex1 ∧ C03asm.ex1.src.size ≠ 0 ∧
    (C03asm.ex1.dict.size = 0 ∨ 65536 ≤ C03asm.ex1.dstBase) ∧ C03asm.ex1.dstLen < 2 ^ 63 :=
  ⟨by constructor <;> simp [C03asm.ex1], by decide, Or.inr (by decide), by decide⟩
example : obsAsm C03asm.ex1 = some (.ok 8 (Array.replicate 8 0x61)) := by decide +kernel
example : obsGo (C03asm.ex1.dst.extract 0 C03asm.ex1.dstLen) C03asm.ex1.src C03asm.ex1.dict =
    .ok 8 (Array.replicate 8 0x61) := by decide +kernel

/-- with a dictionary (`C03asm.ex2`: match starting inside the dictionary) -/
example : obsAsm C03asm.ex2 =
    some (obsGo (C03asm.ex2.dst.extract 0 C03asm.ex2.dstLen) C03asm.ex2.src C03asm.ex2.dict) := by
  decide +kernel
example : obsAsm C03asm.ex2 =
    some (.ok 38 #[0x61, 7, 8, 0x61, 7, 8, 0x61, 7, 8, 0x61, 7, 8, 0x61, 7, 8, 0x61, 7, 8, 0x61, 7, 8, 0x61, 7,
      9, 9, 9, 9, 9, 9, 9, 9, 9, 9, 9, 9, 9, 9, 9]) := by decide +kernel

/-- the error case (`C03asm.ex3`: output does not fit): both report an error -/
example : obsAsm C03asm.ex3 = some .err ∧
    obsGo (C03asm.ex3.dst.extract 0 C03asm.ex3.dstLen) C03asm.ex3.src C03asm.ex3.dict = .err := by
  decide +kernel

/-- `hbase` cannot be dropped: on the witness of `C03asm.c04_asm_false` (destination below 64 KiB,
match reaching into the dictionary) the assembly reports an error and the portable decoder succeeds -/
example : obsAsm C03asm.wit = some .err ∧
    obsGo (C03asm.wit.dst.extract 0 C03asm.wit.dstLen) C03asm.wit.src C03asm.wit.dict =
      .ok 20 #[0x61, 7, 7, 7, 7, 9, 9, 9, 9, 9, 9, 9, 9, 9, 9, 9, 9, 9, 9, 9] := by decide +kernel

end Lz4V.Props.C12

#print axioms Lz4V.Props.C12.c12
