import Lz4V.Proofs.PipeW
import Lz4V.Proofs.PipeR
/-!
# C08 — the concurrent pipelines are safe, ordered, deadlock-free, terminating and leak-free
for every schedule (interleaving) of their goroutines

`W`: write pipeline (`Model.PipeW`), `R`: read pipeline (`Model.PipeR`).
-/
namespace Lz4V.Props.C08
open Lz4V.Model

namespace W
open PipeW

/-- reachable states of the write pipeline with queue capacity `num`, `n` blocks, optional sink failure -/
def Reach (num n : Nat) (failAt : Option Nat) (s : State) : Prop := ∃ sched, s = run (init num n failAt) sched

/-- ORDER: blocks reach the sink in submission order, at every moment -/
theorem order {num n failAt s} (h : Reach num n failAt s) : s.sink = List.range s.sink.length :=
  Proofs.PipeW.inv_order (Proofs.PipeW.inv_reach h)

/-- … and all of them once `close` has returned, unless the sink failed -/
theorem order_final {num n s} (h : Reach num n none s) (hp : s.p = .returned) : s.sink = List.range n :=
  Proofs.PipeW.inv_order_final (Proofs.PipeW.inv_reach h) hp

/-- with a sink failure at block `i` exactly the blocks before `i` were written and the error is latched -/
theorem order_fail {num n i s} (h : Reach num n (some i) s) (hi : i < n) (hp : s.p = .returned) :
    s.sink = List.range i ∧ s.failed = true :=
  Proofs.PipeW.inv_order_fail (Proofs.PipeW.inv_reach h) hi hp

/-- OWNERSHIP (race-freedom at buffer granularity, no use after release): whenever an actor can move, every
buffer it touches in that move is owned by it (in particular it is not owned by the pool or by another actor) -/
theorem ownership {num n failAt s} (h : Reach num n failAt s) (a : Actor) (ha : (step s a).isSome) :
    ∀ p ∈ touches s a, p.1 = p.2 :=
  Proofs.PipeW.inv_ownership (Proofs.PipeW.inv_reach h) a ha

/-- PROGRESS (deadlock-freedom): as long as `close` has not returned, some actor can move -/
theorem progress {num n failAt s} (hnum : 0 < num) (h : Reach num n failAt s) (hp : s.p ≠ .returned) :
    ∃ a, (step s a).isSome :=
  Proofs.PipeW.inv_progress hnum (Proofs.PipeW.inv_reach h) hp

/-- the hypothesis `0 < num` of `progress` is necessary: with a zero-capacity queue the first submit blocks forever
(the Go code never creates such a queue: `num` is the concurrency level, at least 1) -/
example : ¬ ∃ a, (step (init 0 2) a).isSome := by
  rintro ⟨a, ha⟩
  cases a <;> simp [step, init] at ha

/-- TERMINATION: every real step decreases a natural-number measure, so every schedule is finite.
`measure s = pW s.n s.p + oW s.o + 4 * s.queue.length + Σ_k wW s.w[k]` with
producer weights `submit k ↦ 9 (n - k) + 16, sentEnq ↦ 7, sentSend ↦ 2, sentWait ↦ 1, returned ↦ 0`,
orderer weights `idle ↦ 0, recv ↦ 3, write ↦ 2, closing ↦ 1, exited ↦ 0`,
worker weights `compress ↦ 4, sending ↦ 3, waitClose ↦ 2, release ↦ 1, done ↦ 0`. -/
def measure (s : State) : Nat :=
  Proofs.PipeW.pW s.n s.p + Proofs.PipeW.oW s.o + 4 * s.queue.length + (s.w.map Proofs.PipeW.wW).sum

/-- holds in every state, reachable or not -/
theorem terminates {num n failAt s} (_h : Reach num n failAt s) (a : Actor) (s' : State) (hs : step s a = some s') :
    measure s' < measure s :=
  Proofs.PipeW.measure_step a hs

/-- the initial value bounds the number of real steps of any schedule: `9 n + 16` when `n > 0` -/
example : measure (init 2 3) = 43 := by decide

/- NO LEAK, as first stated:
```
theorem noleak {num n failAt s} (h : Reach num n failAt s) (hp : s.p = .returned) :
    s.o = .exited ∧ s.queue = [] ∧ s.w.length = n ∧ ∀ k, k < n → (s.w[k]? = some .release ∨ s.w[k]? = some .done)
```
is FALSE for the model: the wake-up of a worker after `close(c_k)` is a step of its own, and nothing
forces it to be scheduled before `close` returns.  This is not a leak (the worker is enabled and stays so,
`closed` only grows) but the statement has to allow `waitClose` with `k ∈ closed`. -/

/-- the schedule on which the statement above fails (`num = 2, n = 1`): worker 0 is never scheduled after
its send was received -/
def noleakCex : List Actor :=
  [.producer, .worker 0, .producer, .orderer, .orderer, .orderer, .orderer, .orderer, .orderer, .orderer, .producer]

theorem noleak_false :
    ¬ ∀ {num n failAt s}, Reach num n failAt s → s.p = .returned →
      s.o = .exited ∧ s.queue = [] ∧ s.w.length = n ∧ ∀ k, k < n → (s.w[k]? = some .release ∨ s.w[k]? = some .done) := by
  intro h
  have := (@h 2 1 none (run (init 2 1) noleakCex) ⟨_, rfl⟩ (by decide)).2.2.2 0 (by decide)
  revert this
  decide

/-- NO LEAK (`noleak_partial`; changed: a worker may also still be in `waitClose` *with its channel already
closed*, i.e. runnable): once `close` has returned the ordering goroutine has exited and no worker is, or can
ever be, blocked: each is finished, about to release its buffers, or about to observe the closed channel -/
theorem noleak_partial {num n failAt s} (h : Reach num n failAt s) (hp : s.p = .returned) :
    s.o = .exited ∧ s.queue = [] ∧ s.w.length = n ∧
      ∀ k, k < n → ((s.w[k]? = some .waitClose ∧ k ∈ s.closed) ∨ s.w[k]? = some .release ∨ s.w[k]? = some .done) :=
  Proofs.PipeW.inv_noleak (Proofs.PipeW.inv_reach h) hp

/-- consequently every worker that has not finished is enabled -/
theorem noleak_enabled {num n failAt s} (h : Reach num n failAt s) (hp : s.p = .returned) (k : Nat) (hk : k < n) :
    s.w[k]? = some .done ∨ (step s (.worker k)).isSome := by
  rcases (noleak_partial h hp).2.2.2 k hk with ⟨h1, h2⟩ | h1 | h1
  · right; simp [step, h1, h2]
  · right; simp [step, h1]
  · left; exact h1

/-- reachability is closed under further scheduling -/
theorem Reach.run {num n failAt s} (h : Reach num n failAt s) (sched : List Actor) : Reach num n failAt (run s sched) := by
  obtain ⟨l, rfl⟩ := h
  exact ⟨l ++ sched, (Proofs.PipeW.run_append _ _ _).symm⟩

/-- PROGRESS + TERMINATION together: from every reachable state `close` can still return (and by `terminates`
every schedule that keeps scheduling enabled actors gets there after at most `measure s` real steps) -/
theorem can_finish {num n failAt s} (hnum : 0 < num) (h : Reach num n failAt s) : ∃ sched, (run s sched).p = .returned :=
  Proofs.PipeW.inv_can_finish hnum _ s (Nat.le_refl _) (Proofs.PipeW.inv_reach h)

/-- non-vacuity: a schedule for `num = 2, n = 3` after which `close` has returned -/
def sched23 : List Actor :=
  [.producer, .producer, .worker 0, .worker 1, .orderer, .orderer, .orderer, .orderer,
   .producer, .worker 2, .orderer, .orderer, .orderer, .orderer, .producer,
   .orderer, .orderer, .orderer, .orderer, .orderer, .orderer, .orderer, .producer,
   .worker 0, .worker 0, .worker 1, .worker 1, .worker 2, .worker 2]

example : Reach 2 3 none (run (init 2 3) sched23) := ⟨_, rfl⟩
example : (run (init 2 3) sched23).p = .returned := by decide
example : (run (init 2 3) sched23).sink = [0, 1, 2] := by decide
example : (run (init 2 3) sched23).w = [.done, .done, .done] := by decide
example : (run (init 2 3 (some 1)) sched23).p = .returned ∧ (run (init 2 3 (some 1)) sched23).sink = [0] := by decide

end W

namespace R
open PipeR

/-- reachable states of the read pipeline with queue capacity `num`, `n` source blocks, undecodable blocks `bad` -/
def Reach (num n : Nat) (bad : List Nat) (s : State) : Prop := ∃ sched, s = run (init num n bad) sched

/-- ORDER: the consumer receives blocks in source order, without gaps, and never a block at or after the first bad one -/
theorem order {num n bad s} (h : Reach num n bad s) :
    s.delivered = List.range s.delivered.length ∧ ∀ k ∈ s.delivered, ∀ b ∈ bad, k < b :=
  Proofs.PipeR.inv_order (Proofs.PipeR.inv_reach h)

/-- COMPLETENESS: when the consumer has finished and no block was bad, every block was delivered -/
theorem order_final {num n s} (h : Reach num n [] s) (hu : s.u = .finished) : s.delivered = List.range n :=
  Proofs.PipeR.inv_order_final (Proofs.PipeR.inv_reach h) hu

/-- a bad block that was decoded latches the error -/
theorem error_latched {num n bad s} (h : Reach num n bad s) (k : Nat) (hk : s.d[k]? = some .failed) : s.err = true :=
  Proofs.PipeR.inv_error_latched (Proofs.PipeR.inv_reach h) k hk

/-- … and conversely a latched error always comes from a decoder that failed -/
theorem error_latched_iff {num n bad s} (h : Reach num n bad s) : s.err = true ↔ ∃ k : Nat, s.d[k]? = some .failed :=
  ⟨Proofs.PipeR.errInv_reach h, fun ⟨k, hk⟩ => error_latched h k hk⟩

/-- PROGRESS: as long as the consumer has not finished, some actor can move -/
theorem progress {num n bad s} (hnum : 0 < num) (h : Reach num n bad s) (hu : s.u ≠ .finished) :
    ∃ a, (step s a).isSome :=
  Proofs.PipeR.inv_progress hnum (Proofs.PipeR.inv_reach h) hu

/-- `0 < num` is necessary here too -/
example : ¬ ∃ a, (step (init 0 2) a).isSome := by
  rintro ⟨a, ha⟩
  cases a <;> simp [step, init] at ha

/-- TERMINATION: `measure s = gW s.n s.g + cW s.c + 4 * s.queue.length + Σ_k dW s.d[k] + uW s.u` with
reader weights `read k ↦ 7 (n - k) + 15, sentEnq ↦ 8, sentSend ↦ 3, sentWait ↦ 2, closeData ↦ 1, exited ↦ 0`,
collector weights `idle ↦ 0, recv ↦ 3, deliver ↦ 2, closing ↦ 1, exited ↦ 0`,
decoder weights `decoding ↦ 2, sending ↦ 1, failed ↦ 0, done ↦ 0`, consumer `receiving ↦ 1, finished ↦ 0`. -/
def measure (s : State) : Nat :=
  Proofs.PipeR.gW s.n s.g + Proofs.PipeR.cW s.c + 4 * s.queue.length + (s.d.map Proofs.PipeR.dW).sum + Proofs.PipeR.uW s.u

/-- holds in every state, reachable or not -/
theorem terminates {num n bad s} (_h : Reach num n bad s) (a : Actor) (s' : State) (hs : step s a = some s') :
    measure s' < measure s :=
  Proofs.PipeR.measure_step a hs

example : measure (init 2 3) = 37 := by decide

/-- NO LEAK: when the consumer has seen the end of the stream (or the error) every library goroutine has exited:
reader and collector are gone, the queue is empty and every decoder that was spawned has completed its send
(`done`) or closed its channel (`failed`) -/
theorem noleak {num n bad s} (h : Reach num n bad s) (hu : s.u = .finished) :
    s.g = .exited ∧ s.c = .exited ∧ s.queue = [] ∧
      ∀ k, k < s.d.length → (s.d[k]? = some .done ∨ s.d[k]? = some .failed) :=
  Proofs.PipeR.inv_noleak (Proofs.PipeR.inv_reach h) hu

/-- reachability is closed under further scheduling -/
theorem Reach.run {num n bad s} (h : Reach num n bad s) (sched : List Actor) : Reach num n bad (run s sched) := by
  obtain ⟨l, rfl⟩ := h
  exact ⟨l ++ sched, (Proofs.PipeR.run_append _ _ _).symm⟩

/-- PROGRESS + TERMINATION together: from every reachable state the consumer can still reach the end of the stream -/
theorem can_finish {num n bad s} (hnum : 0 < num) (h : Reach num n bad s) : ∃ sched, (run s sched).u = .finished :=
  Proofs.PipeR.inv_can_finish hnum _ s (Nat.le_refl _) (Proofs.PipeR.inv_reach h)

/-- non-vacuity: a schedule for `num = 2, n = 3` after which the consumer has finished -/
def sched23 : List Actor :=
  [.reader, .reader, .decoder 0, .decoder 1, .collector, .collector, .collector, .collector,
   .reader, .decoder 2, .collector, .collector, .collector, .collector, .reader,
   .collector, .collector, .collector, .collector, .collector, .collector, .collector,
   .reader, .reader, .consumer]

example : Reach 2 3 [] (run (init 2 3) sched23) := ⟨_, rfl⟩
example : (run (init 2 3) sched23).u = .finished := by decide
example : (run (init 2 3) sched23).delivered = [0, 1, 2] := by decide
example : (run (init 2 3) sched23).d = [.done, .done, .done] := by decide

/-- … and one with an undecodable block 1: block 0 is delivered, the error is latched, block 2 is never read,
everything exits -/
def sched23bad : List Actor :=
  [.reader, .reader, .decoder 0, .decoder 1, .collector, .collector, .collector, .collector,
   .reader, .collector, .collector, .reader, .collector, .collector, .collector, .reader, .reader, .consumer]

example : (run (init 2 3 [1]) sched23bad).u = .finished ∧ (run (init 2 3 [1]) sched23bad).delivered = [0] ∧
    (run (init 2 3 [1]) sched23bad).err = true ∧ (run (init 2 3 [1]) sched23bad).d = [.done, .failed] := by decide

end R

end Lz4V.Props.C08
