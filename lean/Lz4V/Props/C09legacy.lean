import Lz4V.Props.C09
import Lz4V.Proofs.FrameWLegacy
/-!
# C09, legacy half — legacy frames emitted by the Writer

With `LegacyOption(true)` the Writer emits the legacy magic `0x184C2102` followed only by plain
size-prefixed compressed blocks (no flag bit, no block checksum, no end mark, no content checksum),
every block but the last holding exactly 8 MiB of content; the legacy specification
(`Spec.Frame.decodeLegacy`, which consumes its whole input) decodes it to the data written.

`c09_legacy` is proved exactly as stated, for every option list (every level: the fast compressor
and the HC compressor at any depth, by `C01fast.c11_fast` / `C01hc.c11_hc`; every concurrency
setting; block-size / checksum options, which legacy mode ignores) and every chunking.

The corner cases of the legacy grammar do not arise for the Writer's output:
* an empty stream is just the 4 magic bytes, which the specification decodes to `(#[], [])`;
* a block-size word is never mistaken for a repeated legacy magic: it is the size of a compressed
  block of at most 8 MiB of content, at most `CompressBlockBound(8 MiB) = 8421520 < 0x184C2102`
  (`size_word_range`);
* a block-size word is never mistaken for the Linux-kernel trailer ("a last word equal to the total
  decoded size"): the trailer test requires the word to be the *last* four bytes of the input, while a
  size word is always followed by its payload, and a compressed block is never empty (`0 < n`,
  part of `c11_fast` / `c11_hc`; a legacy block is never stored raw — the Writer retries into
  `CompressBlockBound(len(src))` bytes, which always succeeds).  So no hypothesis on the emitted size
  words is needed.
-/
namespace Lz4V.Props.C09legacy
open Lz4V Lz4V.Go Lz4V.Model Lz4V.Model.FrameW

/-- C09 (legacy): a clean legacy session of Write calls emits a frame that the legacy specification
decodes to the concatenation of the chunks, every block but the last holding exactly 8 MiB of content -/
theorem c09_legacy (opts : List Opt) (chunks : List (Array UInt8))
    (hclean : (Run.writeSession opts chunks).2 = none)
    (hleg : (Lz4V.Props.C09.cfgOf opts).legacy = true) :
    ∃ sizes, Spec.Frame.decodeLegacy (Run.writtenBytes opts chunks).toList = .ok (Run.concat chunks, sizes) ∧
      Spec.Frame.legacySizesOk sizes = true :=
  Proofs.FrameWLegacy.legacy_main opts chunks hclean hleg

/-- `hclean` is not a hidden restriction: on the all-accepting sink a session fails only if `Apply`
rejects an option (bad block size / bad level) -/
theorem c09_legacy_clean (opts : List Opt) (chunks : List (Array UInt8))
    (hap : (apply (new none) opts).2 = none) : (Run.writeSession opts chunks).2 = none :=
  Proofs.FrameWLegacy.clean_of_apply opts chunks hap

/-- the shape of one legacy data block as emitted: a size word `n` and `n` payload bytes with
`0 < n ≤ CompressBlockBound(8 MiB) < legacy magic`, the payload decoding to the block's content
(`flags` with block-size index 3 = the 8 MiB buffer `init` selects in legacy mode) -/
theorem size_word_range (flags : Flags) (level : Nat) (src : Array UInt8)
    (hidx : blockSizeIndex flags = 3) (hsz : src.size ≤ 8388608) :
    ∃ d, Proofs.Det.blkWrites flags level true src = [FrameW.le32 d.size, d] ∧ 0 < d.size ∧
      d.size ≤ Fast.bound 8388608 ∧ Fast.bound 8388608 < Spec.Frame.legacyMagic ∧
      Spec.Block.decode d.toList [] src.size = some src := by
  obtain ⟨d, h, h0, hn, hdec⟩ :=
    Proofs.FrameWLegacy.bw_legacy ⟨flags, level, true, 8388608⟩ rfl hidx src hsz
  exact ⟨d, h, h0, by rw [Proofs.Fast.bound_eq]; exact hn,
    by rw [Proofs.Fast.bound_eq]; decide, hdec⟩

/-! ## non-vacuity

In legacy mode every block is compressed into an 8 MiB destination, which the kernel cannot
evaluate (`Array.replicate 8388608 0`), so the hypothesis `hclean` of the examples is discharged
through `c09_legacy_clean` (only `Apply` is evaluated) and the concrete bytes are `#eval` evidence. -/

/-- the hypotheses of `c09_legacy` hold on a concrete session … -/
example : (Run.writeSession [.legacy true] [#[1, 2, 3]]).2 = none ∧
    (Lz4V.Props.C09.cfgOf [.legacy true]).legacy = true :=
  ⟨c09_legacy_clean _ _ (by decide +kernel), by decide +kernel⟩

/-- … hence the theorem applies -/
example : ∃ sizes, Spec.Frame.decodeLegacy (Run.writtenBytes [.legacy true] [#[1, 2, 3]]).toList =
    .ok (#[1, 2, 3], sizes) ∧ Spec.Frame.legacySizesOk sizes = true := by
  have h := c09_legacy [.legacy true] [#[1, 2, 3]] (c09_legacy_clean _ _ (by decide +kernel)) (by decide +kernel)
  rw [show Run.concat [#[1, 2, 3]] = #[1, 2, 3] by decide +kernel] at h
  exact h

/-- the empty stream (no block is compressed, so the kernel evaluates the whole session): just the
magic, decoded to nothing -/
example : (Run.writeSession [.legacy true] []).2 = none ∧
    Run.writtenBytes [.legacy true] [] = #[2, 33, 76, 24] ∧
    (Spec.Frame.decodeLegacy (Run.writtenBytes [.legacy true] []).toList).toOption = some (#[], []) := by
  decide +kernel
example : ∃ sizes, Spec.Frame.decodeLegacy (Run.writtenBytes [.legacy true] []).toList =
    .ok (Run.concat [], sizes) ∧ Spec.Frame.legacySizesOk sizes = true :=
  c09_legacy [.legacy true] [] (by decide +kernel) (by decide +kernel)

/-- an empty chunk, then one byte, HC level 1, concurrency 4, block checksums requested (ignored in
legacy mode) -/
example : ∃ sizes, Spec.Frame.decodeLegacy
      (Run.writtenBytes [.legacy true, .level 512, .concurrency 4, .blockChecksum true] [#[], #[7]]).toList =
    .ok (Run.concat [#[], #[7]], sizes) ∧ Spec.Frame.legacySizesOk sizes = true :=
  c09_legacy _ _ (c09_legacy_clean _ _ (by decide +kernel)) (by decide +kernel)

/-- the specification side of the `#eval`ed bytes below, checked by the kernel: one block `30 01 02 03`;
and a one-byte stream `10 07` (content size 1, size word 2) -/
example : (Spec.Frame.decodeLegacy [2, 33, 76, 24, 4, 0, 0, 0, 48, 1, 2, 3]).toOption = some (#[1, 2, 3], [3]) := by
  decide +kernel
example : (Spec.Frame.decodeLegacy [2, 33, 76, 24, 2, 0, 0, 0, 16, 7]).toOption = some (#[7], [1]) := by
  decide +kernel

/-- `size_word_range` is not vacuous: the flags `init` selects in legacy mode have block-size index 3 -/
example : blockSizeIndex (blockSizeIndexSet (new none).cfg.flags (indexOf Gen.Block8Mb).toUInt16) = 3 := by
  decide

/-
`#eval` evidence (compiled evaluation of the model and of the specification):

  def t (opts : List Opt) (chunks : List (Array UInt8)) :=
    let b := Run.writtenBytes opts chunks
    (Go.errName (Run.writeSession opts chunks).2, b.size, b.extract 0 12,
      match Spec.Frame.decodeLegacy b.toList with
      | .ok (c, s) => (c == Run.concat chunks, s, Spec.Frame.legacySizesOk s)
      | .error _ => (false, [], false))
  #eval t [.legacy true] [#[1,2,3]]        -- ("ok", 12, #[2, 33, 76, 24, 4, 0, 0, 0, 48, 1, 2, 3], true, [3], true)
  #eval t [.legacy true] []                -- ("ok", 4, #[2, 33, 76, 24], true, [], true)
  #eval t [.legacy true] [#[], #[7]]       -- ("ok", 10, #[2, 33, 76, 24, 2, 0, 0, 0, 16, 7], true, [1], true)
  -- two full 8 MiB blocks and a 3-byte remainder, cut across three Write calls
  #eval t [.legacy true] [Array.replicate 8388608 5, #[1,2,3], Array.replicate 8388608 6]
  -- ("ok", 65858, #[2, 33, 76, 24, 151, 128, 0, 0, 31, 5, 1, 0], true, [8388608, 8388608, 3], true)
  -- an incompressible (xorshift) 8 MiB block + 1 byte: the first attempt (8 MiB destination) fails, the retry
  -- into CompressBlockBound bytes gives a block of 0x808082 = 8421506 > 8 MiB bytes, still compressed format
  #eval t [.legacy true] [rnd 8388608, #[9]]
  -- ("ok", 8421520, #[2, 33, 76, 24, 130, 128, 128, 0, 240, 255, 255, 255], true, [8388608, 1], true)
-/

end Lz4V.Props.C09legacy

#print axioms Lz4V.Props.C09legacy.c09_legacy
#print axioms Lz4V.Props.C09legacy.c09_legacy_clean
#print axioms Lz4V.Props.C09legacy.size_word_range
