import Lz4V.Proofs.Life
/-!
# C17 — object lifecycle: every call sequence on a `Writer` or a `Reader` follows the state machine

The call alphabets, `wstep`/`wrun`, the invariant `WF` and `obsEq` are defined in `Proofs/Life.lean`
(namespace `Lz4V.Props.C17`).
-/
namespace Lz4V.Props.C17
open Lz4V Lz4V.Go Lz4V.Model Lz4V.Proofs.Life Lz4V.Proofs.LifeR

/-! ## Writer -/

/-- (5) every reachable Writer satisfies the invariant `WF`: the state is one of the four and the error
state carries an error -/
theorem wrun_wf (failAt : Option Nat) (ops : List WOp) : WF (wrun failAt ops) :=
  wrunFrom_wf ops (new_wf failAt)

/-- (5) the state is always one of the four -/
theorem state_inv (failAt : Option Nat) (ops : List WOp) :
    let s := (wrun failAt ops).st; s = Gen.stNew ∨ s = Gen.stWrite ∨ s = Gen.stClosed ∨ s = Gen.stError :=
  (wrun_wf failAt ops).four

/-! ### (1) closed -/

theorem closed_write (w : FrameW.W) (h : w.st = Gen.stClosed) (buf : Array UInt8) :
    (FrameW.write w buf).2.2 ≠ none ∧ (FrameW.write w buf).2.1 = 0 ∧ (FrameW.write w buf).1.sink = w.sink := by
  rw [write_closed h, check_some_ne_eof (by rw [h]; decide) _ (by decide)]
  exact ⟨by simp, rfl, rfl⟩

theorem closed_readFrom (w : FrameW.W) (h : w.st = Gen.stClosed) (src : Source) :
    (FrameW.readFrom w src).2.2.2 ≠ none ∧ (FrameW.readFrom w src).1.sink = w.sink := by
  rw [readFrom_closed h]
  exact ⟨by simp, rfl⟩

theorem closed_close (w : FrameW.W) (h : w.st = Gen.stClosed) : FrameW.close w = (w, none) := close_closed h

theorem closed_flush (w : FrameW.W) (h : w.st = Gen.stClosed) : FrameW.flush w = (w, none) := flush_closed h

/- The statement as given,
   `theorem close_closes (w : FrameW.W) (h : (FrameW.close w).2 = none) : (FrameW.close w).1.st = Gen.stClosed`,
   is false on states no call sequence can reach (error state without an error): see `close_closes_false`.
   Added hypothesis: `WF w` (which holds for every reachable Writer: `wrun_wf`). -/
theorem close_closes_partial (w : FrameW.W) (hw : WF w) (h : (FrameW.close w).2 = none) :
    (FrameW.close w).1.st = Gen.stClosed := close_ok hw h

/-- the same for every Writer reached by calls, without extra hypothesis -/
theorem close_closes (failAt : Option Nat) (ops : List WOp)
    (h : (FrameW.close (wrun failAt ops)).2 = none) : (FrameW.close (wrun failAt ops)).1.st = Gen.stClosed :=
  close_ok (wrun_wf failAt ops) h

/-! ### (2) error state -/

/- As given (`∀ w, w.st = stError → …`) false on the same unreachable states (`error_sticky_false`);
   added hypothesis: `WF w`. -/
theorem error_sticky_partial (w : FrameW.W) (hw : WF w) (h : w.st = Gen.stError) (op : WOp) (hop : ∀ f, op ≠ .reset f) :
    (wstep w op).1.st = Gen.stError ∧ (wstep w op).1.sink = w.sink := by
  rw [(error_step hw h op hop).1]; exact ⟨h, rfl⟩

/-- stronger: the object is unchanged and the call returns the stored error, which is not nil -/
theorem error_sticky_strong (w : FrameW.W) (hw : WF w) (h : w.st = Gen.stError) (op : WOp) (hop : ∀ f, op ≠ .reset f) :
    (wstep w op).1 = w ∧ (wstep w op).2 = w.err ∧ w.err ≠ none :=
  ⟨(error_step hw h op hop).1, (error_step hw h op hop).2, hw.err h⟩

theorem error_sticky (failAt : Option Nat) (ops : List WOp) (h : (wrun failAt ops).st = Gen.stError)
    (op : WOp) (hop : ∀ f, op ≠ .reset f) :
    (wstep (wrun failAt ops) op).1.st = Gen.stError ∧ (wstep (wrun failAt ops) op).1.sink = (wrun failAt ops).sink :=
  error_sticky_partial _ (wrun_wf failAt ops) h op hop

/-! ### (3) options -/

/- As given false on the unreachable states (`apply_only_new_false`); added hypothesis: `WF w`. -/
theorem apply_only_new_partial (w : FrameW.W) (hw : WF w) (h : w.st ≠ Gen.stNew) (opts : List FrameW.Opt) :
    (FrameW.apply w opts).2 ≠ none ∧ (FrameW.apply w opts).1.cfg = w.cfg := apply_not_new hw h opts

theorem apply_only_new (failAt : Option Nat) (ops : List WOp) (h : (wrun failAt ops).st ≠ Gen.stNew)
    (opts : List FrameW.Opt) :
    (FrameW.apply (wrun failAt ops) opts).2 ≠ none ∧ (FrameW.apply (wrun failAt ops) opts).1.cfg = (wrun failAt ops).cfg :=
  apply_not_new (wrun_wf failAt ops) h opts

/-- (3) strengthened: outside the new state NO call (not only `Apply`) changes the options -/
theorem options_fixed (failAt : Option Nat) (ops : List WOp) (h : (wrun failAt ops).st ≠ Gen.stNew) (op : WOp) :
    (wstep (wrun failAt ops) op).1.cfg = (wrun failAt ops).cfg := cfg_fixed (wrun_wf failAt ops) h op

theorem options_fixed' (w : FrameW.W) (hw : WF w) (h : w.st ≠ Gen.stNew) (op : WOp) :
    (wstep w op).1.cfg = w.cfg := cfg_fixed hw h op

theorem reset_keeps_options (w : FrameW.W) (f : Option Nat) :
    (FrameW.reset w f).cfg = w.cfg ∧ (FrameW.reset w f).st = Gen.stNew := ⟨rfl, rfl⟩

/-! ### (4) Reset ≈ new -/

/-- after `Reset` the Writer is observationally equivalent to a new one with the same options -/
theorem reset_obsEq (w : FrameW.W) (f : Option Nat) :
    obsEq (FrameW.reset w f) { FrameW.new f with cfg := w.cfg } :=
  ⟨reset_wf w f, rfl, rfl, rfl, rfl, fun h => absurd h (by show Gen.stNew ≠ Gen.stWrite; decide)⟩

/-- one call preserves `obsEq` and returns the same values (byte count, source position, error) -/
theorem obsEq_step (a b : FrameW.W) (h : obsEq a b) (op : WOp) :
    obsEq (wstepFull a op).1 (wstepFull b op).1 ∧ (wstepFull a op).2 = (wstepFull b op).2 := wstepFull_obs h op

theorem reset_like_new (w : FrameW.W) (f : Option Nat) (ops : List WOp) :
    let a := FrameW.reset w f
    let b : FrameW.W := { FrameW.new f with cfg := w.cfg }
    (ops.foldl (fun s op => (wstep s op).1) a).sink = (ops.foldl (fun s op => (wstep s op).1) b).sink ∧
    wresults a ops = wresults b ops ∧ wresultsFull a ops = wresultsFull b ops ∧
    obsEq (ops.foldl (fun s op => (wstep s op).1) a) (ops.foldl (fun s op => (wstep s op).1) b) := by
  intro a b
  obtain ⟨h1, h2, h3⟩ := wrun_obs ops (reset_obsEq w f)
  exact ⟨h1.sink, h2, h3, h1⟩

/-! ### (6) Flush -/

theorem flush_empties (w : FrameW.W) (h : (FrameW.flush w).2 = none) (hst : w.st = Gen.stWrite ∨ w.st = Gen.stNew) :
    (FrameW.flush w).1.pending = #[] := (flush_ok hst.symm h).2


/-! ### the statements as given are false on unreachable junk states -/

/-- a state no call sequence reaches: error state without an error -/
def wJunk : FrameW.W := { FrameW.new none with st := Gen.stError }

theorem wJunk_not_wf : ¬ WF wJunk := fun h => h.err rfl rfl

/-- `close_closes` as given (for every `w`) is false: `Close` "succeeds" on `wJunk`, writes an end mark and
leaves the state `new` -/
theorem close_closes_false :
    ¬ ∀ w : FrameW.W, (FrameW.close w).2 = none → (FrameW.close w).1.st = Gen.stClosed := by
  intro h
  have := h wJunk (by decide)
  revert this
  decide

theorem error_sticky_false :
    ¬ ∀ (w : FrameW.W), w.st = Gen.stError → ∀ (op : WOp), (∀ f, op ≠ .reset f) →
      (wstep w op).1.st = Gen.stError ∧ (wstep w op).1.sink = w.sink := by
  intro h
  have := (h wJunk rfl .close (fun _ => nofun)).1
  revert this
  decide

theorem apply_only_new_false :
    ¬ ∀ (w : FrameW.W), w.st ≠ Gen.stNew → ∀ opts, (FrameW.apply w opts).2 ≠ none ∧ (FrameW.apply w opts).1.cfg = w.cfg := by
  intro h
  have := (h wJunk (by decide) []).1
  revert this
  decide

/-! ### non-vacuity (Writer): write, close, write again -/

def session1 : List WOp := [.write #[1, 2, 3], .close]

/-- the session ends closed with a complete frame in the sink … -/
example : (wrun none session1).st = Gen.stClosed ∧ wresults (FrameW.new none) session1 = [none, none] ∧
    (wrun none session1).sink.writes =
      #[#[4, 34, 77, 24, 100, 112, 185], #[3, 0, 0, 128], #[1, 2, 3], #[0, 0, 0, 0, 196, 120, 156, 245]] := by
  decide +kernel

/-- … a further `Write` fails with `io.ErrClosedPipe`, accepts nothing and leaves the sink unchanged … -/
example : (FrameW.write (wrun none session1) #[9]).2 = (0, some .closedPipe) ∧
    (FrameW.write (wrun none session1) #[9]).1.sink.writes = (wrun none session1).sink.writes ∧
    (FrameW.write (wrun none session1) #[9]).1.st = Gen.stError := by
  decide +kernel

/-- … and agrees with what `closed_write` says -/
example : (FrameW.write (wrun none session1) #[9]).2.2 ≠ none ∧ (FrameW.write (wrun none session1) #[9]).2.1 = 0 ∧
    (FrameW.write (wrun none session1) #[9]).1.sink = (wrun none session1).sink :=
  closed_write _ (by decide +kernel) _

/-- `Flush` and a second `Close` on the closed Writer succeed and change nothing; after the failed `Write` the
Writer is in the error state until `Reset`, after which it works again (same results as a new one) -/
example : wresults (FrameW.new none) (session1 ++ [.flush, .close, .write #[9], .flush, .reset none, .write #[1], .close]) =
    [none, none, none, none, some .closedPipe, some .closedPipe, none, none, none] := by decide +kernel

/-- `reset_like_new` instantiated: a Writer whose `Flush` failed mid-block (the sink fails at its 3rd call; the
Writer stays in the write state with 3 bytes pending), then `Reset`, versus a new one: the stale `pending`,
`bufSize`, `cks` do not show in what `Write`+`Close` hand to the sink -/
example :
    let w := wrun (some 2) [.write #[1, 2, 3], .flush]
    w.st = Gen.stWrite ∧ w.pending = #[1, 2, 3] ∧
    (wrunFrom (FrameW.reset w none) [.write #[7], .close]).sink.writes =
      (wrunFrom { FrameW.new none with cfg := w.cfg } [.write #[7], .close]).sink.writes := by
  decide +kernel

/-! ### FINDING (real defect, reproduced on the Go code): "options persist across Reset" is too true

In the new state the options are changed not only by `Apply` but also by `init` (`Frame.InitW`): for a legacy
frame it overwrites the block-size option with the legacy-only 8 MiB code (index 3) *in the persistent
descriptor flags*.  The value survives `Reset`, so `Reset` + `Apply(LegacyOption(false))` + `Write` + `Close`
succeeds without error and emits a current-format frame whose BD byte is `0x30` (block-size code 3, invalid in
the frame format), which the package's own Reader rejects with `invalid block size`.
Go reproduction: `w.Apply(LegacyOption(true)); w.Write; w.Close; w.Reset; w.Apply(LegacyOption(false)); w.Write;
w.Close` gives `04 22 4d 18 64 30 13 03 00 00 80 01 02 03 00 00 00 00 c4 78 9c f5`. -/

def legacyEpisode : List WOp :=
  [.apply [.legacy true], .write #[1, 2, 3], .close, .reset none, .apply [.legacy false], .write #[1, 2, 3], .close]

/- evidence by evaluation (`#guard` runs the compiled model; a kernel `decide` would have to allocate the
   8 MiB legacy block buffer): every call succeeds, the block-size option has silently become the legacy-only
   code 3, the header's BD byte is `0x30` (= 48) … -/
#guard wresults (FrameW.new none) legacyEpisode = [none, none, none, none, none, none, none]
#guard FrameW.blockSizeIndex (wrun none legacyEpisode).cfg.flags = 3
#guard (wrun none legacyEpisode).sink.writes ==
  #[#[4, 34, 77, 24, 100, 48, 19], #[3, 0, 0, 128], #[1, 2, 3], #[0, 0, 0, 0, 196, 120, 156, 245]]
/- … and the Reader of the same package rejects the frame -/
#guard (FrameR.read (FrameR.new { data := (wrun none legacyEpisode).sink.bytes }) 10).2 == (#[], some Err.badBlockSize)

/-- without the legacy episode the same calls give a valid frame (BD byte `0x70`) -/
example : (wrun none [.write #[1, 2, 3], .close]).sink.writes =
      #[#[4, 34, 77, 24, 100, 112, 185], #[3, 0, 0, 128], #[1, 2, 3], #[0, 0, 0, 0, 196, 120, 156, 245]] := by
  decide +kernel

/-! ## Reader -/

/-- (7) after the end of the stream `Read` keeps returning `io.EOF` and does not touch the source -/
theorem reader_closed_read (r : FrameR.R) (h : r.st = Gen.stClosed) (n : Nat) :
    (FrameR.read r n).2.2 = some .eof ∧ (FrameR.read r n).2.1 = #[] ∧ (FrameR.read r n).1.src = r.src ∧
      (FrameR.read r n).1.st = Gen.stClosed := by
  rw [read_closed h, check_eof (by rw [h]; decide)]
  exact ⟨rfl, rfl, rfl, h⟩

/- (8) as given (`hst : r.st = stRead ∨ r.st = stNew ∨ r.st = stClosed`) is false for `stNew`: on a source that
   holds no frame at all (empty, or only skippable frames) `Reader.init` returns the bare `io.EOF` of the magic
   read, `_State.next` turns it into the error state (`reader_eof_closes_false`).  Proved: the statement with
   `stNew` removed (`_partial`), the exact outcome for `stNew` (`reader_eof_new`), and the consequence the
   statement was wanted for, without restriction (`reader_eof_sticky`). -/
theorem reader_eof_closes_partial (r : FrameR.R) (n : Nat) (h : (FrameR.read r n).2.2 = some .eof)
    (hst : r.st = Gen.stRead ∨ r.st = Gen.stClosed) : (FrameR.read r n).1.st = Gen.stClosed := by
  rcases hst with hs | hs
  · rw [read_read hs] at h ⊢; exact readGo_eof hs n h
  · exact (reader_closed_read r hs n).2.2.2

theorem reader_eof_new (r : FrameR.R) (n : Nat) (h : (FrameR.read r n).2.2 = some .eof) (hst : r.st = Gen.stNew) :
    (FrameR.read r n).1.st = Gen.stClosed ∨
      ((FrameR.read r n).1.st = Gen.stError ∧ (FrameR.read r n).1.err = some .eof) := read_new_eof hst n h

theorem reader_eof_closes_false :
    ¬ ∀ (r : FrameR.R) (n : Nat), (FrameR.read r n).2.2 = some .eof →
      (r.st = Gen.stRead ∨ r.st = Gen.stNew ∨ r.st = Gen.stClosed) → (FrameR.read r n).1.st = Gen.stClosed := by
  intro h
  have := h (FrameR.new { data := #[] }) 1 (by decide) (Or.inr (Or.inl rfl))
  revert this
  decide

/-- (9) the error state is sticky for the Reader -/
theorem reader_error_sticky (r : FrameR.R) (h : r.st = Gen.stError) (n : Nat) :
    (FrameR.read r n).1.st = Gen.stError ∧ (FrameR.read r n).2.1 = #[] ∧ (FrameR.read r n).1.src = r.src := by
  rw [read_error h]; exact ⟨h, rfl, rfl⟩

/-- (7)+(8): once a `Read` has returned `io.EOF`, every later `Read` returns `io.EOF`, delivers nothing and
does not touch the source -/
theorem reader_eof_sticky (r : FrameR.R) (n : Nat) (h : (FrameR.read r n).2.2 = some .eof)
    (hst : r.st = Gen.stRead ∨ r.st = Gen.stNew ∨ r.st = Gen.stClosed) (m : Nat) :
    let r' := (FrameR.read r n).1
    (FrameR.read r' m).2.2 = some .eof ∧ (FrameR.read r' m).2.1 = #[] ∧ (FrameR.read r' m).1.src = r'.src ∧
      (FrameR.read r' m).1.st = r'.st := by
  intro r'
  have hc : r'.st = Gen.stClosed ∨ (r'.st = Gen.stError ∧ r'.err = some .eof) := by
    rcases hst with hs | hs | hs
    · exact Or.inl (reader_eof_closes_partial r n h (Or.inl hs))
    · exact reader_eof_new r n h hs
    · exact Or.inl (reader_eof_closes_partial r n h (Or.inr hs))
  rcases hc with hc | ⟨hc, he⟩
  · obtain ⟨h1, h2, h3, h4⟩ := reader_closed_read r' hc m
    exact ⟨h1, h2, h3, by rw [h4, hc]⟩
  · rw [read_error hc]; exact ⟨he, rfl, rfl, rfl⟩

/-- (10) `Reset`: the Reader is like a new one with the same concurrency setting -/
theorem reader_reset_like_new (r : FrameR.R) (src : Source) :
    let a := FrameR.reset r src
    a.st = Gen.stNew ∧ a.magic = 0 ∧ a.dict = #[] ∧ a.src = src ∧ a.num = r.num := ⟨rfl, rfl, rfl, rfl, rfl⟩

/-- after `Reset` the Reader is observationally equivalent to a new one over the same source -/
theorem reader_reset_obsEq (r : FrameR.R) (src : Source) :
    robsEq (FrameR.reset r src) { FrameR.new src with num := r.num } :=
  ⟨⟨rfl, rfl, rfl, rfl, rfl, rfl⟩, fun _ => rfl,
    fun h => by rcases h with h | h <;> exact absurd h (by show Gen.stNew ≠ _; decide)⟩

/-- one call preserves `robsEq` and returns the same values -/
theorem robsEq_step (a b : FrameR.R) (h : robsEq a b) (op : ROp) :
    robsEq (rstep a op).1 (rstep b op).1 ∧ (rstep a op).2 = (rstep b op).2 := rstep_obs h op

/-- (4) for the Reader: whatever the Reader did before, after `Reset(src)` every sequence of `Read(n)` /
`WriteTo` / `Size` / `Reset` calls returns the same bytes, counts, sink writes and errors as on a new Reader,
and consumes the source identically.  (The fields `idx`, `cum`, `data`, `flags`, `contentSize`, `cks`,
`bSize/bData/bChecksum` that survive `Reset` are never read before being overwritten.) -/
theorem reader_reset_equiv (r : FrameR.R) (src : Source) (ops : List ROp) :
    let a := FrameR.reset r src
    let b : FrameR.R := { FrameR.new src with num := r.num }
    rresults a ops = rresults b ops ∧ (rrunFrom a ops).src = (rrunFrom b ops).src ∧
      robsEq (rrunFrom a ops) (rrunFrom b ops) := by
  intro a b
  obtain ⟨h1, h2⟩ := rrun_obs ops (reader_reset_obsEq r src)
  exact ⟨h2, h1.pe.src, h1⟩

/-! ### non-vacuity (Reader): the 15-byte empty frame -/

def emptyFrame : Array UInt8 :=
  #[0x04, 0x22, 0x4D, 0x18, 0x64, 0x40, 0xA7, 0x00, 0x00, 0x00, 0x00, 0x05, 0x5D, 0xCC, 0x02]

def rEmpty : FrameR.R := FrameR.new { data := emptyFrame }

/-- first `Read`: `io.EOF`, the whole frame consumed, Reader closed -/
example : (FrameR.read rEmpty 10).2 = (#[], some .eof) ∧ (FrameR.read rEmpty 10).1.st = Gen.stClosed ∧
    (FrameR.read rEmpty 10).1.src.pos = 15 ∧ (FrameR.read rEmpty 10).1.src.calls = 4 := by decide +kernel

/-- second `Read`: `io.EOF` again, source position and call count unchanged -/
example :
    let r1 := (FrameR.read rEmpty 10).1
    (FrameR.read r1 10).2 = (#[], some .eof) ∧ (FrameR.read r1 10).1.src.pos = 15 ∧
      (FrameR.read r1 10).1.src.calls = 4 ∧ (FrameR.read r1 10).1.st = Gen.stClosed := by decide +kernel

/-- the same from the theorems -/
example (m : Nat) :
    (FrameR.read (FrameR.read rEmpty 10).1 m).2.2 = some .eof ∧
      (FrameR.read (FrameR.read rEmpty 10).1 m).1.src = (FrameR.read rEmpty 10).1.src :=
  let h := reader_eof_sticky rEmpty 10 (by decide +kernel) (Or.inr (Or.inl rfl)) m
  ⟨h.1, h.2.2.1⟩

/-- `reader_reset_equiv` instantiated: a Reader that hit a bad magic (error state), reset over the empty frame -/
example :
    let r := (FrameR.read (FrameR.new { data := #[1, 2, 3, 4, 5] }) 4).1
    r.st = Gen.stError ∧ rresults (FrameR.reset r { data := emptyFrame }) [.read 10, .size, .read 1] =
      rresults (FrameR.new { data := emptyFrame }) [.read 10, .size, .read 1] :=
  ⟨by decide +kernel, (reader_reset_equiv _ _ _).1⟩

end Lz4V.Props.C17
