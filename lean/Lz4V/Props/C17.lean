import Lz4V.Proofs.Life
/-!
# C17 — object lifecycle: every call sequence on a `Writer` or a `Reader` follows the state machine

The call alphabets, `wstep`/`wrun`, the invariant `WF` and `obsEq` are defined in `Proofs/Life.lean`
(namespace `Lz4V.Props.C17`).
-/
namespace Lz4V.Props.C17
open Lz4V Lz4V.Go Lz4V.Model Lz4V.Proofs.Life Lz4V.Proofs.LifeR Lz4V.Proofs.FrameWBits

/-! ## Writer -/

/-- (5) every reachable Writer satisfies the invariant `WF`: the state is one of the four and the error
state carries an error -/
theorem wrun_wf (failAt : Option Nat) (ops : List WOp) : WF (wrun failAt ops) :=
  wrunFrom_wf ops (new_wf failAt)

/-- (5) the state is always one of the four -/
theorem state_inv (failAt : Option Nat) (ops : List WOp) :
    let s := (wrun failAt ops).st; s = Gen.stNew ∨ s = Gen.stWrite ∨ s = Gen.stClosed ∨ s = Gen.stError :=
  (wrun_wf failAt ops).four

/-! ### (1) closed -/

theorem closed_write (w : FrameW.W) (h : w.st = Gen.stClosed) (buf : Array UInt8) :
    (FrameW.write w buf).2.2 ≠ none ∧ (FrameW.write w buf).2.1 = 0 ∧ (FrameW.write w buf).1.sink = w.sink := by
  rw [write_closed h, check_some_ne_eof (by rw [h]; decide) _ (by decide)]
  exact ⟨by simp, rfl, rfl⟩

theorem closed_readFrom (w : FrameW.W) (h : w.st = Gen.stClosed) (src : Source) :
    (FrameW.readFrom w src).2.2.2 ≠ none ∧ (FrameW.readFrom w src).1.sink = w.sink := by
  rw [readFrom_closed h]
  exact ⟨by simp, rfl⟩

theorem closed_close (w : FrameW.W) (h : w.st = Gen.stClosed) : FrameW.close w = (w, none) := close_closed h

theorem closed_flush (w : FrameW.W) (h : w.st = Gen.stClosed) : FrameW.flush w = (w, none) := flush_closed h

/- The statement as given,
   `theorem close_closes (w : FrameW.W) (h : (FrameW.close w).2 = none) : (FrameW.close w).1.st = Gen.stClosed`,
   is false on states no call sequence can reach (error state without an error): see `close_closes_false`.
   Added hypothesis: `WF w` (which holds for every reachable Writer: `wrun_wf`). -/
theorem close_closes_partial (w : FrameW.W) (hw : WF w) (h : (FrameW.close w).2 = none) :
    (FrameW.close w).1.st = Gen.stClosed := close_ok hw h

/-- the same for every Writer reached by calls, without extra hypothesis -/
theorem close_closes (failAt : Option Nat) (ops : List WOp)
    (h : (FrameW.close (wrun failAt ops)).2 = none) : (FrameW.close (wrun failAt ops)).1.st = Gen.stClosed :=
  close_ok (wrun_wf failAt ops) h

/-! ### (2) error state -/

/- As given (`∀ w, w.st = stError → …`) false on the same unreachable states (`error_sticky_false`);
   added hypothesis: `WF w`. -/
theorem error_sticky_partial (w : FrameW.W) (hw : WF w) (h : w.st = Gen.stError) (op : WOp) (hop : ∀ f, op ≠ .reset f) :
    (wstep w op).1.st = Gen.stError ∧ (wstep w op).1.sink = w.sink := by
  rw [(error_step hw h op hop).1]; exact ⟨h, rfl⟩

/-- stronger: the object is unchanged and the call returns the stored error, which is not nil -/
theorem error_sticky_strong (w : FrameW.W) (hw : WF w) (h : w.st = Gen.stError) (op : WOp) (hop : ∀ f, op ≠ .reset f) :
    (wstep w op).1 = w ∧ (wstep w op).2 = w.err ∧ w.err ≠ none :=
  ⟨(error_step hw h op hop).1, (error_step hw h op hop).2, hw.err h⟩

theorem error_sticky (failAt : Option Nat) (ops : List WOp) (h : (wrun failAt ops).st = Gen.stError)
    (op : WOp) (hop : ∀ f, op ≠ .reset f) :
    (wstep (wrun failAt ops) op).1.st = Gen.stError ∧ (wstep (wrun failAt ops) op).1.sink = (wrun failAt ops).sink :=
  error_sticky_partial _ (wrun_wf failAt ops) h op hop

/-! ### (3) options -/

/- As given false on the unreachable states (`apply_only_new_false`); added hypothesis: `WF w`. -/
theorem apply_only_new_partial (w : FrameW.W) (hw : WF w) (h : w.st ≠ Gen.stNew) (opts : List FrameW.Opt) :
    (FrameW.apply w opts).2 ≠ none ∧ (FrameW.apply w opts).1.cfg = w.cfg := apply_not_new hw h opts

theorem apply_only_new (failAt : Option Nat) (ops : List WOp) (h : (wrun failAt ops).st ≠ Gen.stNew)
    (opts : List FrameW.Opt) :
    (FrameW.apply (wrun failAt ops) opts).2 ≠ none ∧ (FrameW.apply (wrun failAt ops) opts).1.cfg = (wrun failAt ops).cfg :=
  apply_not_new (wrun_wf failAt ops) h opts

/-- (3) strengthened: outside the new state no call other than `Reset` changes the options.  (`Reset` is
excluded since the `Frame.InitW`/`Frame.Reset` fix: after a legacy frame it puts the configured block-size index
back into the descriptor flags — see `reset_keeps_options`, `options_fixed_reset_false`.) -/
theorem options_fixed (failAt : Option Nat) (ops : List WOp) (h : (wrun failAt ops).st ≠ Gen.stNew) (op : WOp)
    (hop : ∀ f, op ≠ .reset f) :
    (wstep (wrun failAt ops) op).1.cfg = (wrun failAt ops).cfg := cfg_fixed (wrun_wf failAt ops) h op hop

theorem options_fixed' (w : FrameW.W) (hw : WF w) (h : w.st ≠ Gen.stNew) (op : WOp) (hop : ∀ f, op ≠ .reset f) :
    (wstep w op).1.cfg = w.cfg := cfg_fixed hw h op hop

/-- without excluding `Reset` the statement is false now: in the middle of a legacy frame the descriptor flags
hold the 8 MiB index and `Reset` puts the configured one (4 MiB) back -/
theorem options_fixed_reset_false :
    ¬ ∀ (failAt : Option Nat) (ops : List WOp), (wrun failAt ops).st ≠ Gen.stNew → ∀ op : WOp,
      (wstep (wrun failAt ops) op).1.cfg = (wrun failAt ops).cfg := by
  intro h
  have := congrArg (fun c : FrameW.Cfg => FrameW.blockSizeIndex c.flags)
    (h none [.apply [.legacy true], .flush] (by decide +kernel) (.reset none))
  revert this
  decide +kernel

/-- `Reset`: the state machine restarts and nothing stays saved; level, concurrency, legacy flag, content size and
every flag bit outside the block-size index are unchanged; the block-size index becomes the saved one if there
is one (`savedIdx ≠ 0`: a legacy frame had replaced it), else it is unchanged.
(Before the fix of `Frame.InitW`/`Frame.Reset` this read `(FrameW.reset w f).cfg = w.cfg`, which now holds
exactly when nothing is saved: `reset_keeps_options_unsaved`.) -/
theorem reset_keeps_options (w : FrameW.W) (f : Option Nat) :
    (FrameW.reset w f).st = Gen.stNew ∧ (FrameW.reset w f).savedIdx = 0 ∧
    (FrameW.reset w f).cfg.level = w.cfg.level ∧ (FrameW.reset w f).cfg.num = w.cfg.num ∧
    (FrameW.reset w f).cfg.legacy = w.cfg.legacy ∧ (FrameW.reset w f).cfg.contentSize = w.cfg.contentSize ∧
    (FrameW.reset w f).cfg.flags &&& ~~~((7 : UInt16) <<< 12) = w.cfg.flags &&& ~~~((7 : UInt16) <<< 12) ∧
    Gen.flagContentChecksum (FrameW.reset w f).cfg.flags = Gen.flagContentChecksum w.cfg.flags ∧
    Gen.flagSize (FrameW.reset w f).cfg.flags = Gen.flagSize w.cfg.flags ∧
    Gen.flagBlockChecksum (FrameW.reset w f).cfg.flags = Gen.flagBlockChecksum w.cfg.flags ∧
    Gen.flagBlockIndependence (FrameW.reset w f).cfg.flags = Gen.flagBlockIndependence w.cfg.flags ∧
    Gen.flagVersion (FrameW.reset w f).cfg.flags = Gen.flagVersion w.cfg.flags ∧
    FrameW.blockSizeIndex (FrameW.reset w f).cfg.flags =
      (if w.savedIdx ≠ 0 then w.savedIdx % 8 else FrameW.blockSizeIndex w.cfg.flags) := by
  obtain ⟨h1, h2, h3, h4, h5⟩ := reset_fields w f
  refine ⟨rfl, rfl, h1, h2, h3, h4, ?_⟩
  rw [h5]
  by_cases h : w.savedIdx ≠ 0
  · rw [if_pos h, if_pos h]
    exact ⟨bsiSet_mask _ _, bsiSet_flagContentChecksum _ _, bsiSet_flagSize _ _, bsiSet_flagBlockChecksum _ _,
      bsiSet_flagBlockIndependence _ _, bsiSet_flagVersion _ _, bsi_set_mod _ _⟩
  · rw [if_neg h, if_neg h]
    exact ⟨rfl, rfl, rfl, rfl, rfl, rfl, rfl⟩

/-- the saved index of a Writer reached by calls is a valid index (or 0), so `% 8` is the identity there -/
theorem reset_block_size (w : FrameW.W) (f : Option Nat) (h0 : w.savedIdx ≠ 0) (h8 : w.savedIdx < 8) :
    FrameW.blockSizeIndex (FrameW.reset w f).cfg.flags = w.savedIdx := by
  rw [(reset_keeps_options w f).2.2.2.2.2.2.2.2.2.2.2.2, if_pos h0]; omega

/-- with nothing saved (no legacy frame since the last `Reset`) `Reset` keeps the options as they are -/
theorem reset_keeps_options_unsaved (w : FrameW.W) (f : Option Nat) (h : w.savedIdx = 0) :
    (FrameW.reset w f).cfg = w.cfg ∧ (FrameW.reset w f).st = Gen.stNew := ⟨reset_cfg_of_saved_zero h f, rfl⟩

/-! ### (3') the block-size option survives legacy frames (the point of the `InitW`/`Reset` fix) -/

/-- a Writer with a valid block-size index and nothing saved starts a frame (legacy or not), then is `Reset`:
the block-size index is the configured one again -/
theorem block_size_survives_legacy (w₀ : FrameW.W) (h0 : w₀.savedIdx = 0)
    (hk : FrameW.blockSizeIndex w₀.cfg.flags ∈ [4, 5, 6, 7]) (f : Option Nat) :
    FrameW.blockSizeIndex (FrameW.reset (FrameW.init w₀).1 f).cfg.flags = FrameW.blockSizeIndex w₀.cfg.flags :=
  (bsInv_reset hk (bsInv_init hk (Or.inl ⟨h0, rfl⟩)) f).2

/-- for a legacy frame all the options are back, not only the block size -/
theorem legacy_frame_keeps_options (w₀ : FrameW.W) (hl : w₀.cfg.legacy = true) (h0 : w₀.savedIdx = 0)
    (hk : FrameW.blockSizeIndex w₀.cfg.flags ≠ 0) (f : Option Nat) :
    (FrameW.reset (FrameW.init w₀).1 f).cfg = w₀.cfg := legacy_reset_cfg hl h0 hk f

/-- the invariant behind it: the option `k` is in the flags with nothing saved, or a legacy frame has put index 3
there and `k` is saved (`BsInv`); every call other than `Apply` preserves it … -/
theorem block_size_inv_step (k : Nat) (hk : k ∈ [4, 5, 6, 7]) (w : FrameW.W) (h : BsInv k w) (op : WOp)
    (hop : op.notApply) : BsInv k (wstep w op).1 := bsInv_step hk h op hop

/-- … so after ANY sequence of `Write`/`Flush`/`Close`/`ReadFrom`/`Reset` calls (frames of either format,
completed or not, failed or not) a `Reset` gives back the configured block-size index -/
theorem block_size_survives_calls (w₀ : FrameW.W) (h0 : w₀.savedIdx = 0)
    (hk : FrameW.blockSizeIndex w₀.cfg.flags ∈ [4, 5, 6, 7]) (ops : List WOp) (hops : ∀ op ∈ ops, op.notApply)
    (f : Option Nat) :
    FrameW.blockSizeIndex (FrameW.reset (wrunFrom w₀ ops) f).cfg.flags = FrameW.blockSizeIndex w₀.cfg.flags :=
  (bsInv_reset hk (bsInv_run hk ops (Or.inl ⟨h0, rfl⟩) hops) f).2

/-- the same for a freshly configured Writer (`NewWriter` + `Apply(opts)`, whether `Apply` succeeded or not) -/
theorem block_size_survives_configured (fa : Option Nat) (opts : List FrameW.Opt) (ops : List WOp)
    (hops : ∀ op ∈ ops, op.notApply) (f : Option Nat) :
    let w₀ := (FrameW.apply (FrameW.new fa) opts).1
    FrameW.blockSizeIndex (FrameW.reset (wrunFrom w₀ ops) f).cfg.flags = FrameW.blockSizeIndex w₀.cfg.flags :=
  block_size_survives_calls _ (apply_new_fresh fa opts).1 (apply_new_fresh fa opts).2 ops hops f

/-- every Writer reached by calls (including `Apply`) has its block-size option intact: a valid index
(4…7 = 64 KiB…4 MiB) in the flags, or the legacy index 3 in the flags and the valid one saved -/
theorem block_size_intact (failAt : Option Nat) (ops : List WOp) :
    ∃ k ∈ [4, 5, 6, 7], BsInv k (wrun failAt ops) :=
  wrunFrom_bsInv ops ⟨7, by decide, Or.inl (new_idx failAt)⟩

/-- in the new state — where the next frame's format is still open — nothing is saved and the flags hold a
valid block-size index: the legacy-only index can no longer leak into a current-format frame header
(the defect reproduced by `legacyEpisode` below) -/
theorem new_state_block_size_valid (failAt : Option Nat) (ops : List WOp) (h : (wrun failAt ops).st = Gen.stNew) :
    (wrun failAt ops).savedIdx = 0 ∧ FrameW.blockSizeIndex (wrun failAt ops).cfg.flags ∈ [4, 5, 6, 7] := by
  have h0 := wrunFrom_newClean ops (new_wf failAt) (fun _ => rfl) h
  obtain ⟨k, hk, hb⟩ := block_size_intact failAt ops
  refine ⟨h0, ?_⟩
  rcases hb with ⟨_, h2⟩ | ⟨h1, _⟩
  · rw [h2]; exact hk
  · have : k = 0 := by rw [← h1]; exact h0
    subst this
    exact absurd hk (by decide)

/-! ### (4) Reset ≈ new -/

/-- after `Reset` the Writer is observationally equivalent to a new one with the same (restored:
`reset_keeps_options`) options; `obsEq` now also relates `savedIdx` (0 on both sides here), which a later
`Reset` or `init` reads -/
theorem reset_obsEq (w : FrameW.W) (f : Option Nat) :
    obsEq (FrameW.reset w f) { FrameW.new f with cfg := (FrameW.reset w f).cfg } :=
  ⟨reset_wf w f, rfl, rfl, rfl, rfl, rfl, fun h => absurd h (by show Gen.stNew ≠ Gen.stWrite; decide)⟩

/-- one call preserves `obsEq` and returns the same values (byte count, source position, error) -/
theorem obsEq_step (a b : FrameW.W) (h : obsEq a b) (op : WOp) :
    obsEq (wstepFull a op).1 (wstepFull b op).1 ∧ (wstepFull a op).2 = (wstepFull b op).2 := wstepFull_obs h op

theorem reset_like_new (w : FrameW.W) (f : Option Nat) (ops : List WOp) :
    let a := FrameW.reset w f
    let b : FrameW.W := { FrameW.new f with cfg := (FrameW.reset w f).cfg }
    (ops.foldl (fun s op => (wstep s op).1) a).sink = (ops.foldl (fun s op => (wstep s op).1) b).sink ∧
    wresults a ops = wresults b ops ∧ wresultsFull a ops = wresultsFull b ops ∧
    obsEq (ops.foldl (fun s op => (wstep s op).1) a) (ops.foldl (fun s op => (wstep s op).1) b) := by
  intro a b
  obtain ⟨h1, h2, h3⟩ := wrun_obs ops (reset_obsEq w f)
  exact ⟨h1.sink, h2, h3, h1⟩

/-! ### (6) Flush -/

theorem flush_empties (w : FrameW.W) (h : (FrameW.flush w).2 = none) (hst : w.st = Gen.stWrite ∨ w.st = Gen.stNew) :
    (FrameW.flush w).1.pending = #[] := (flush_ok hst.symm h).2


/-! ### the statements as given are false on unreachable junk states -/

/-- a state no call sequence reaches: error state without an error -/
def wJunk : FrameW.W := { FrameW.new none with st := Gen.stError }

theorem wJunk_not_wf : ¬ WF wJunk := fun h => h.err rfl rfl

/-- `close_closes` as given (for every `w`) is false: `Close` "succeeds" on `wJunk`, writes an end mark and
leaves the state `new` -/
theorem close_closes_false :
    ¬ ∀ w : FrameW.W, (FrameW.close w).2 = none → (FrameW.close w).1.st = Gen.stClosed := by
  intro h
  have := h wJunk (by decide)
  revert this
  decide

theorem error_sticky_false :
    ¬ ∀ (w : FrameW.W), w.st = Gen.stError → ∀ (op : WOp), (∀ f, op ≠ .reset f) →
      (wstep w op).1.st = Gen.stError ∧ (wstep w op).1.sink = w.sink := by
  intro h
  have := (h wJunk rfl .close (fun _ => nofun)).1
  revert this
  decide

theorem apply_only_new_false :
    ¬ ∀ (w : FrameW.W), w.st ≠ Gen.stNew → ∀ opts, (FrameW.apply w opts).2 ≠ none ∧ (FrameW.apply w opts).1.cfg = w.cfg := by
  intro h
  have := (h wJunk (by decide) []).1
  revert this
  decide

/-! ### non-vacuity (Writer): write, close, write again -/

def session1 : List WOp := [.write #[1, 2, 3], .close]

/-- the session ends closed with a complete frame in the sink … -/
example : (wrun none session1).st = Gen.stClosed ∧ wresults (FrameW.new none) session1 = [none, none] ∧
    (wrun none session1).sink.writes =
      #[#[4, 34, 77, 24, 100, 112, 185], #[3, 0, 0, 128], #[1, 2, 3], #[0, 0, 0, 0, 196, 120, 156, 245]] := by
  decide +kernel

/-- … a further `Write` fails with `io.ErrClosedPipe`, accepts nothing and leaves the sink unchanged … -/
example : (FrameW.write (wrun none session1) #[9]).2 = (0, some .closedPipe) ∧
    (FrameW.write (wrun none session1) #[9]).1.sink.writes = (wrun none session1).sink.writes ∧
    (FrameW.write (wrun none session1) #[9]).1.st = Gen.stError := by
  decide +kernel

/-- … and agrees with what `closed_write` says -/
example : (FrameW.write (wrun none session1) #[9]).2.2 ≠ none ∧ (FrameW.write (wrun none session1) #[9]).2.1 = 0 ∧
    (FrameW.write (wrun none session1) #[9]).1.sink = (wrun none session1).sink :=
  closed_write _ (by decide +kernel) _

/-- `Flush` and a second `Close` on the closed Writer succeed and change nothing; after the failed `Write` the
Writer is in the error state until `Reset`, after which it works again (same results as a new one) -/
example : wresults (FrameW.new none) (session1 ++ [.flush, .close, .write #[9], .flush, .reset none, .write #[1], .close]) =
    [none, none, none, none, some .closedPipe, some .closedPipe, none, none, none] := by decide +kernel

/-- `reset_like_new` instantiated: a Writer whose `Flush` failed mid-block (the sink fails at its 3rd call; the
Writer stays in the write state with 3 bytes pending), then `Reset`, versus a new one: the stale `pending`,
`bufSize`, `cks` do not show in what `Write`+`Close` hand to the sink -/
example :
    let w := wrun (some 2) [.write #[1, 2, 3], .flush]
    w.st = Gen.stWrite ∧ w.pending = #[1, 2, 3] ∧
    (wrunFrom (FrameW.reset w none) [.write #[7], .close]).sink.writes =
      (wrunFrom { FrameW.new none with cfg := (FrameW.reset w none).cfg } [.write #[7], .close]).sink.writes := by
  decide +kernel

/-! ### REGRESSION (defect found here, reproduced on the Go code, now fixed): legacy frames and the block size

Before the fix, `init` (`Frame.InitW`) of a legacy frame overwrote the block-size option with the legacy-only
8 MiB code (index 3) *in the persistent descriptor flags*; the value survived `Reset`, so `Reset` +
`Apply(LegacyOption(false))` + `Write` + `Close` succeeded and emitted a current-format frame whose BD byte was
`0x30` (block-size code 3, invalid in the frame format), which the package's own Reader rejected with
`invalid block size`.  Go reproduction: `w.Apply(LegacyOption(true)); w.Write; w.Close; w.Reset;
w.Apply(LegacyOption(false)); w.Write; w.Close` gave `04 22 4d 18 64 30 13 03 00 00 80 01 02 03 00 00 00 00 c4 78 9c f5`.
Now `InitW` remembers the configured index (`savedIdx`) and `Frame.Reset` restores it: theorems
`block_size_survives_legacy` … `new_state_block_size_valid` above; the episode evaluates as follows. -/

def legacyEpisode : List WOp :=
  [.apply [.legacy true], .write #[1, 2, 3], .close, .reset none, .apply [.legacy false], .write #[1, 2, 3], .close]

/- evidence by evaluation (`#guard` runs the compiled model; a kernel `decide` would have to allocate the
   8 MiB legacy block buffer): every call succeeds; during and after the legacy frame (first three calls) the
   flags hold index 3 and the configured index 7 is saved (second branch of `BsInv`) … -/
#guard wresults (FrameW.new none) legacyEpisode = [none, none, none, none, none, none, none]
#guard FrameW.blockSizeIndex (wrun none (legacyEpisode.take 3)).cfg.flags = 3
#guard (wrun none (legacyEpisode.take 3)).savedIdx = 7
#guard (wrun none (legacyEpisode.take 3)).sink.writes == #[#[2, 33, 76, 24], #[4, 0, 0, 0], #[48, 1, 2, 3]]
/- … `Reset` puts it back, the second frame's BD byte is `0x70` (= 112, 4 MiB) … -/
#guard FrameW.blockSizeIndex (wrun none (legacyEpisode.take 4)).cfg.flags = 7
#guard (wrun none (legacyEpisode.take 4)).savedIdx = 0
#guard FrameW.blockSizeIndex (wrun none legacyEpisode).cfg.flags = 7
#guard (wrun none legacyEpisode).sink.writes ==
  #[#[4, 34, 77, 24, 100, 112, 185], #[3, 0, 0, 128], #[1, 2, 3], #[0, 0, 0, 0, 196, 120, 156, 245]]
/- … and the Reader of the same package accepts the frame -/
#guard (FrameR.read (FrameR.new { data := (wrun none legacyEpisode).sink.bytes }) 10).2 == (#[1, 2, 3], some Err.eof)

/-- `block_size_survives_configured` instantiated on the episode's legacy frame (non-vacuity: the hypothesis
"no `Apply` among the calls" holds, and the configured index is a non-default one, 64 KiB = 4) -/
example (f : Option Nat) :
    let w₀ := (FrameW.apply (FrameW.new none) [.blockSize Gen.Block64Kb, .legacy true]).1
    FrameW.blockSizeIndex (FrameW.reset (wrunFrom w₀ [.write #[1, 2, 3], .close]) f).cfg.flags =
      FrameW.blockSizeIndex w₀.cfg.flags ∧ FrameW.blockSizeIndex w₀.cfg.flags = 4 :=
  ⟨block_size_survives_configured none _ _ (by intro op h; simp at h; rcases h with rfl | rfl <;> trivial) f,
   by decide +kernel⟩

/-- both branches of `BsInv` occur: nothing saved on a new Writer; index 3 + saved 7 once a legacy frame is open
(`Flush` in the new state starts the frame without buffering anything) -/
example : BsInv 7 (wrun none []) ∧ (wrun none []).savedIdx = 0 ∧
    BsInv 7 (wrun none [.apply [.legacy true], .flush]) ∧ (wrun none [.apply [.legacy true], .flush]).savedIdx = 7 :=
  ⟨Or.inl (by decide +kernel), by decide +kernel, Or.inr (by decide +kernel), by decide +kernel⟩

/-- `reset_keeps_options` where it matters: in the middle of that legacy frame `Reset` changes the block-size
index from 3 back to 7 and keeps everything else -/
example :
    let w := wrun none [.apply [.legacy true], .flush]
    FrameW.blockSizeIndex w.cfg.flags = 3 ∧ FrameW.blockSizeIndex (FrameW.reset w none).cfg.flags = 7 ∧
      (FrameW.reset w none).cfg.legacy = true ∧ (FrameW.reset w none).savedIdx = 0 := by
  decide +kernel

/-- without the legacy episode the same calls give a valid frame (BD byte `0x70`) -/
example : (wrun none [.write #[1, 2, 3], .close]).sink.writes =
      #[#[4, 34, 77, 24, 100, 112, 185], #[3, 0, 0, 128], #[1, 2, 3], #[0, 0, 0, 0, 196, 120, 156, 245]] := by
  decide +kernel

/-! ## Reader -/

/-- (7) after the end of the stream `Read` keeps returning `io.EOF` and does not touch the source -/
theorem reader_closed_read (r : FrameR.R) (h : r.st = Gen.stClosed) (n : Nat) :
    (FrameR.read r n).2.2 = some .eof ∧ (FrameR.read r n).2.1 = #[] ∧ (FrameR.read r n).1.src = r.src ∧
      (FrameR.read r n).1.st = Gen.stClosed := by
  rw [read_closed h, check_eof (by rw [h]; decide)]
  exact ⟨rfl, rfl, rfl, h⟩

/- (8) as given (`hst : r.st = stRead ∨ r.st = stNew ∨ r.st = stClosed`) is false for `stNew`: on a source that
   holds no frame at all (empty, or only skippable frames) `Reader.init` returns the bare `io.EOF` of the magic
   read, `_State.next` turns it into the error state (`reader_eof_closes_false`).  Proved: the statement with
   `stNew` removed (`_partial`), the exact outcome for `stNew` (`reader_eof_new`), and the consequence the
   statement was wanted for, without restriction (`reader_eof_sticky`). -/
theorem reader_eof_closes_partial (r : FrameR.R) (n : Nat) (h : (FrameR.read r n).2.2 = some .eof)
    (hst : r.st = Gen.stRead ∨ r.st = Gen.stClosed) : (FrameR.read r n).1.st = Gen.stClosed := by
  rcases hst with hs | hs
  · rw [read_read hs] at h ⊢; exact readGo_eof hs n h
  · exact (reader_closed_read r hs n).2.2.2

theorem reader_eof_new (r : FrameR.R) (n : Nat) (h : (FrameR.read r n).2.2 = some .eof) (hst : r.st = Gen.stNew) :
    (FrameR.read r n).1.st = Gen.stClosed ∨
      ((FrameR.read r n).1.st = Gen.stError ∧ (FrameR.read r n).1.err = some .eof) := read_new_eof hst n h

theorem reader_eof_closes_false :
    ¬ ∀ (r : FrameR.R) (n : Nat), (FrameR.read r n).2.2 = some .eof →
      (r.st = Gen.stRead ∨ r.st = Gen.stNew ∨ r.st = Gen.stClosed) → (FrameR.read r n).1.st = Gen.stClosed := by
  intro h
  have := h (FrameR.new { data := #[] }) 1 (by decide) (Or.inr (Or.inl rfl))
  revert this
  decide

/-- (9) the error state is sticky for the Reader -/
theorem reader_error_sticky (r : FrameR.R) (h : r.st = Gen.stError) (n : Nat) :
    (FrameR.read r n).1.st = Gen.stError ∧ (FrameR.read r n).2.1 = #[] ∧ (FrameR.read r n).1.src = r.src := by
  rw [read_error h]; exact ⟨h, rfl, rfl⟩

/-- (7)+(8): once a `Read` has returned `io.EOF`, every later `Read` returns `io.EOF`, delivers nothing and
does not touch the source -/
theorem reader_eof_sticky (r : FrameR.R) (n : Nat) (h : (FrameR.read r n).2.2 = some .eof)
    (hst : r.st = Gen.stRead ∨ r.st = Gen.stNew ∨ r.st = Gen.stClosed) (m : Nat) :
    let r' := (FrameR.read r n).1
    (FrameR.read r' m).2.2 = some .eof ∧ (FrameR.read r' m).2.1 = #[] ∧ (FrameR.read r' m).1.src = r'.src ∧
      (FrameR.read r' m).1.st = r'.st := by
  intro r'
  have hc : r'.st = Gen.stClosed ∨ (r'.st = Gen.stError ∧ r'.err = some .eof) := by
    rcases hst with hs | hs | hs
    · exact Or.inl (reader_eof_closes_partial r n h (Or.inl hs))
    · exact reader_eof_new r n h hs
    · exact Or.inl (reader_eof_closes_partial r n h (Or.inr hs))
  rcases hc with hc | ⟨hc, he⟩
  · obtain ⟨h1, h2, h3, h4⟩ := reader_closed_read r' hc m
    exact ⟨h1, h2, h3, by rw [h4, hc]⟩
  · rw [read_error hc]; exact ⟨he, rfl, rfl, rfl⟩

/-- (10) `Reset`: the Reader is like a new one with the same concurrency setting -/
theorem reader_reset_like_new (r : FrameR.R) (src : Source) :
    let a := FrameR.reset r src
    a.st = Gen.stNew ∧ a.magic = 0 ∧ a.dict = #[] ∧ a.src = src ∧ a.num = r.num := ⟨rfl, rfl, rfl, rfl, rfl⟩

/-- after `Reset` the Reader is observationally equivalent to a new one over the same source -/
theorem reader_reset_obsEq (r : FrameR.R) (src : Source) :
    robsEq (FrameR.reset r src) { FrameR.new src with num := r.num } :=
  ⟨⟨rfl, rfl, rfl, rfl, rfl, rfl⟩, fun _ => rfl,
    fun h => by rcases h with h | h <;> exact absurd h (by show Gen.stNew ≠ _; decide)⟩

/-- one call preserves `robsEq` and returns the same values -/
theorem robsEq_step (a b : FrameR.R) (h : robsEq a b) (op : ROp) :
    robsEq (rstep a op).1 (rstep b op).1 ∧ (rstep a op).2 = (rstep b op).2 := rstep_obs h op

/-- (4) for the Reader: whatever the Reader did before, after `Reset(src)` every sequence of `Read(n)` /
`WriteTo` / `Size` / `Reset` calls returns the same bytes, counts, sink writes and errors as on a new Reader,
and consumes the source identically.  (The fields `idx`, `cum`, `data`, `flags`, `contentSize`, `cks`,
`bSize/bData/bChecksum` that survive `Reset` are never read before being overwritten.) -/
theorem reader_reset_equiv (r : FrameR.R) (src : Source) (ops : List ROp) :
    let a := FrameR.reset r src
    let b : FrameR.R := { FrameR.new src with num := r.num }
    rresults a ops = rresults b ops ∧ (rrunFrom a ops).src = (rrunFrom b ops).src ∧
      robsEq (rrunFrom a ops) (rrunFrom b ops) := by
  intro a b
  obtain ⟨h1, h2⟩ := rrun_obs ops (reader_reset_obsEq r src)
  exact ⟨h2, h1.pe.src, h1⟩

/-! ### non-vacuity (Reader): the 15-byte empty frame -/

def emptyFrame : Array UInt8 :=
  #[0x04, 0x22, 0x4D, 0x18, 0x64, 0x40, 0xA7, 0x00, 0x00, 0x00, 0x00, 0x05, 0x5D, 0xCC, 0x02]

def rEmpty : FrameR.R := FrameR.new { data := emptyFrame }

/-- first `Read`: `io.EOF`, the whole frame consumed, Reader closed -/
example : (FrameR.read rEmpty 10).2 = (#[], some .eof) ∧ (FrameR.read rEmpty 10).1.st = Gen.stClosed ∧
    (FrameR.read rEmpty 10).1.src.pos = 15 ∧ (FrameR.read rEmpty 10).1.src.calls = 4 := by decide +kernel

/-- second `Read`: `io.EOF` again, source position and call count unchanged -/
example :
    let r1 := (FrameR.read rEmpty 10).1
    (FrameR.read r1 10).2 = (#[], some .eof) ∧ (FrameR.read r1 10).1.src.pos = 15 ∧
      (FrameR.read r1 10).1.src.calls = 4 ∧ (FrameR.read r1 10).1.st = Gen.stClosed := by decide +kernel

/-- the same from the theorems -/
example (m : Nat) :
    (FrameR.read (FrameR.read rEmpty 10).1 m).2.2 = some .eof ∧
      (FrameR.read (FrameR.read rEmpty 10).1 m).1.src = (FrameR.read rEmpty 10).1.src :=
  let h := reader_eof_sticky rEmpty 10 (by decide +kernel) (Or.inr (Or.inl rfl)) m
  ⟨h.1, h.2.2.1⟩

/-- `reader_reset_equiv` instantiated: a Reader that hit a bad magic (error state), reset over the empty frame -/
example :
    let r := (FrameR.read (FrameR.new { data := #[1, 2, 3, 4, 5] }) 4).1
    r.st = Gen.stError ∧ rresults (FrameR.reset r { data := emptyFrame }) [.read 10, .size, .read 1] =
      rresults (FrameR.new { data := emptyFrame }) [.read 10, .size, .read 1] :=
  ⟨by decide +kernel, (reader_reset_equiv _ _ _).1⟩

end Lz4V.Props.C17
