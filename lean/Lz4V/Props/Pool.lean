import Lz4V.Model.Pool
/-!
# The block-buffer pools keep their size classes (supports C05, C07, C16, C17: the `cap(b.data)` bound)

Whatever slices are put back (any length, any capacity) and whatever `sync.Pool` chooses to return or
drop, a buffer obtained for block-size index `idx ∈ {3,…,7}` has length and capacity `poolSize idx`.
-/
namespace Lz4V.Props.Pool
open Lz4V.Gen Lz4V.Model.FrameW Lz4V.Model.Pool

theorem classOf_poolSize (c i : Nat) (h : classOf c = some i) : poolSize i = c := by
  unfold classOf at h
  split at h
  · cases h; simp_all [poolSize]
  · split at h
    · cases h; simp_all [poolSize]
    · split at h
      · cases h; simp_all [poolSize]
      · split at h
        · cases h; simp_all [poolSize]
        · split at h
          · cases h; simp_all [poolSize]
          · cases h

theorem inv_empty : Inv empty := by
  intro idx b hb
  simp [empty] at hb

theorem inv_put (ps : Pools) (b : Buf) (h : Inv ps) : Inv (put ps b) := by
  unfold put
  cases hc : classOf b.cap with
  | none => simpa using h
  | some i =>
    intro idx x hx
    simp only at hx
    by_cases hj : idx = i
    · subst hj
      simp only [if_true, List.mem_cons] at hx
      rcases hx with hx | hx
      · subst hx
        have := classOf_poolSize _ _ hc
        exact ⟨this.symm, this.symm⟩
      · exact h idx x hx
    · simp only [hj, if_false] at hx
      exact h idx x hx

theorem inv_remove (ps : Pools) (idx : Nat) (b : Buf) (l r : List Buf) (hp : ps.p idx = l ++ b :: r) (h : Inv ps) :
    Inv ⟨fun j => if j = idx then l ++ r else ps.p j⟩ := by
  intro j x hx
  simp only at hx
  by_cases hj : j = idx
  · subst hj
    simp only [if_true] at hx
    apply h j x
    rw [hp]
    simp only [List.mem_append, List.mem_cons] at hx ⊢
    rcases hx with hx | hx
    · exact Or.inl hx
    · exact Or.inr (Or.inr hx)
  · simp only [hj, if_false] at hx
    exact h j x hx

theorem inv_get (ps ps' : Pools) (idx : Nat) (b : Buf) (h : Inv ps) (hg : GetR ps idx b ps') : Inv ps' := by
  cases hg with
  | new => exact h
  | reuse _ l r hp => exact inv_remove ps idx b l r hp h

theorem inv_drop (ps ps' : Pools) (h : Inv ps) (hd : Drop ps ps') : Inv ps' := by
  cases hd with
  | drop idx b l r hp => exact inv_remove ps idx b l r hp h

/-- the invariant holds after every history -/
theorem reach_inv (ps : Pools) (hr : Reach ps) : Inv ps := by
  induction hr with
  | init => exact inv_empty
  | put ps b _ ih => exact inv_put ps b ih
  | get ps idx b ps' _ hg ih => exact inv_get ps ps' idx b ih hg
  | drop ps ps' _ hd ih => exact inv_drop ps ps' ih hd

/-- **what `Get` returns**: after any history, a buffer obtained for index `idx` has length and capacity
`poolSize idx` — so the Reader's `size > cap(b.data)` test is `size > poolSize idx`, the declared block
maximum, whatever other Readers and Writers of the process did with their buffers before -/
theorem get_size (ps ps' : Pools) (idx : Nat) (b : Buf) (hr : Reach ps) (hg : GetR ps idx b ps') :
    b.len = poolSize idx ∧ b.cap = poolSize idx := by
  cases hg with
  | new => exact ⟨rfl, rfl⟩
  | reuse _ l r hp =>
    apply reach_inv ps hr idx b
    rw [hp]; simp

/-- a buffer of a foreign capacity is never pooled, a short slice of a pooled buffer returns to its own class -/
theorem put_foreign (ps : Pools) (b : Buf) (h : classOf b.cap = none) : put ps b = ps := by
  unfold put; rw [h]

theorem put_slice (ps : Pools) (idx n : Nat) (hi : idx = 3 ∨ idx = 4 ∨ idx = 5 ∨ idx = 6 ∨ idx = 7) :
    (put ps ⟨n, poolSize idx⟩).p idx = fresh idx :: ps.p idx := by
  rcases hi with h | h | h | h | h <;> subst h <;> simp [put, classOf, poolSize, fresh, Block64Kb, Block256Kb, Block1Mb, Block4Mb, Block8Mb]

/-- non-vacuity: a 64 KiB slice of a 4 MiB buffer goes back to the 4 MiB pool, not to the 64 KiB pool -/
example : (put empty ⟨65536, 4194304⟩).p 4 = [] ∧ (put empty ⟨65536, 4194304⟩).p 7 = [⟨4194304, 4194304⟩] := by
  decide

/-- and the variant that files by length (a seeded change of round 3) breaks the invariant: the model of
that variant puts the same slice into the 64 KiB pool with its 4 MiB capacity -/
def putByLen (ps : Pools) (b : Buf) : Pools :=
  match classOf b.len with
  | some i => ⟨fun j => if j = i then ⟨b.len, b.cap⟩ :: ps.p j else ps.p j⟩
  | none => ps

example : ¬ Inv (putByLen empty ⟨65536, 4194304⟩) := by
  intro h
  have := h 4 ⟨65536, 4194304⟩ (by decide)
  simp [poolSize, Block64Kb] at this

end Lz4V.Props.Pool
