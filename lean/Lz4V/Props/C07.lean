import Lz4V.Proofs.Hostile
import Lz4V.Proofs.HostileShift
import Lz4V.Props.C05
/-!
# C07 — the Reader terminates safely on arbitrary input

The Reader model (`Model.FrameR`) is a total Lean function on fuel: termination and the absence of panics
(index out of range, nil dereference, …) hold by construction — every `a[i]!` of the model is inside a branch
that has checked the length, and the validation harness compares the model with the Go code on hostile inputs.
What is stated and proved here:

* (a) `pos_monotone_read` / `pos_monotone_writeTo`: the Reader never asks the source for more than it holds and
  never goes back — for ARBITRARY sources (chunked, failing, `io.EOF` together with data);
* (b) `read_le`: one `Read` never delivers more than the length of the caller's buffer;
* (c) `bounded_new` / `bounded_read` / `bounded_writeTo` / `bounded_reset`: BOUNDED MEMORY — whatever sizes the
  input announces, the stored block is at most `CompressBlockBound(8 MiB)`, the decoded block at most 8 MiB and the
  dictionary window at most 128 KiB + 8 MiB;
* (d) `bad_magic_read` / `bad_magic_writeTo`: a first word that is no magic is an invalid frame, nothing delivered;
* (e) `skippable_transparent`: exactly the sixteen skippable magics skip the announced number of bytes — a
  skippable frame in front of ANY input (valid, corrupt, truncated, empty, legacy, another skippable frame …)
  changes neither the delivered bytes nor the result, and shifts the consumption by its own length.  This is
  stronger than the clause first proposed (`… ≠ 0 ∨ … = none → …`): the consumption is shifted unconditionally;
  `skippable_transparent_as_given` derives the proposed form.

All five are proved as stated (no added hypothesis).  Lemmas: `Proofs/Hostile.lean`, `Proofs/HostileShift.lean`.
-/
namespace Lz4V.Props.C07
open Lz4V Lz4V.Go Lz4V.Model
open Lz4V.Proofs.Hostile

/-- whole-read source -/
def srcOf (b : Array UInt8) : Source := { data := b }

/-! ## (a) the source position -/

/-- (a) the Reader never asks the source for more than it holds, and never goes back -/
theorem pos_monotone_read (r : FrameR.R) (n : Nat) (h : r.src.pos ≤ r.src.data.size) :
    r.src.pos ≤ (FrameR.read r n).1.src.pos ∧ (FrameR.read r n).1.src.pos ≤ r.src.data.size :=
  ⟨(read_pres r n).1.1.mono, (read_pres r n).1.1.bound h⟩

/-- the same for `WriteTo` -/
theorem pos_monotone_writeTo (r : FrameR.R) (k : Sink) (h : r.src.pos ≤ r.src.data.size) :
    r.src.pos ≤ (FrameR.writeTo r k).1.src.pos ∧ (FrameR.writeTo r k).1.src.pos ≤ r.src.data.size :=
  ⟨(writeTo_pres r k).1.mono, (writeTo_pres r k).1.bound h⟩

/-- … and the Reader never alters the source it was given (data and script are those of the caller) -/
theorem source_unchanged_read (r : FrameR.R) (n : Nat) :
    (FrameR.read r n).1.src.data = r.src.data ∧ (FrameR.read r n).1.src.failAt = r.src.failAt ∧
    (FrameR.read r n).1.src.chunk = r.src.chunk :=
  ⟨(read_pres r n).1.1.data, (read_pres r n).1.1.failAt, (read_pres r n).1.1.chunk⟩

/-! ## (b) delivered bytes -/

/-- (b) no more than `want` bytes are ever delivered by one Read -/
theorem read_le (r : FrameR.R) (n : Nat) : (FrameR.read r n).2.1.size ≤ n := (read_pres r n).2

/-! ## (c) bounded memory -/

/-- every buffer the Reader holds is bounded: the stored block (`CompressBlockBound(8 MiB)` = 8 421 520 bytes, reached
by legacy frames only), the decoded block (8 MiB) and the dictionary window (128 KiB + one block) -/
def Bounded (r : FrameR.R) : Prop :=
  r.bData.size ≤ Fast.bound Gen.Block8Mb ∧ r.data.size ≤ Gen.Block8Mb ∧ r.dict.size ≤ 128 * 1024 + Gen.Block8Mb

theorem bounded_new (s : Source) : Bounded (FrameR.new s) := Proofs.Hostile.bounded_new s

theorem bounded_read (r : FrameR.R) (n : Nat) (h : Bounded r) : Bounded (FrameR.read r n).1 :=
  (read_pres r n).1.2 h

theorem bounded_writeTo (r : FrameR.R) (k : Sink) (h : Bounded r) : Bounded (FrameR.writeTo r k).1 :=
  (writeTo_pres r k).2 h

theorem bounded_reset (r : FrameR.R) (s : Source) (h : Bounded r) : Bounded (FrameR.reset r s) :=
  Proofs.Hostile.bounded_reset r s h

/-- the bounds in numbers -/
theorem bounds_values : Fast.bound Gen.Block8Mb = 8421520 ∧ Gen.Block8Mb = 8388608 ∧
    128 * 1024 + Gen.Block8Mb = 8519680 := by decide

/-! ## (d) invalid magic -/

/-- (d) a first word that is not a frame magic, a legacy magic or one of the sixteen skippable magics is reported as
an invalid frame by Read, and nothing is delivered -/
theorem bad_magic_read (m : Nat) (rest : Array UInt8) (num n : Nat) (hm : m < 2 ^ 32)
    (h1 : m ≠ Gen.frameMagic) (h2 : m ≠ Gen.frameMagicLegacy) (h3 : ¬ (0x184D2A50 ≤ m ∧ m ≤ 0x184D2A5F)) :
    let r : FrameR.R := { FrameR.new (srcOf (FrameW.le32 m ++ rest)) with num := num }
    (FrameR.read r n).2.2 = some .badMagic ∧ (FrameR.read r n).2.1 = #[] := by
  intro r
  have hi := init_badMagic m rest num hm h1 h2 h3
  have hr : r = Proofs.FrameR.r0 (FrameW.le32 m ++ rest) num := rfl
  rw [hr, Proofs.FrameR.read_stNew_err _ n rfl _ _ hi]
  exact ⟨rfl, rfl⟩

/-- … and by WriteTo: nothing written, exactly the four bytes of the word consumed -/
theorem bad_magic_writeTo (m : Nat) (rest : Array UInt8) (num : Nat) (hm : m < 2 ^ 32)
    (h1 : m ≠ Gen.frameMagic) (h2 : m ≠ Gen.frameMagicLegacy) (h3 : ¬ (0x184D2A50 ≤ m ∧ m ≤ 0x184D2A5F)) :
    Run.readAll (FrameW.le32 m ++ rest) num = (#[], some .badMagic, 4) := by
  have hi := init_badMagic m rest num hm h1 h2 h3
  rw [Proofs.FrameR.readAll_eq, Proofs.FrameR.writeTo_new _ _ rfl, hi]
  rfl

/-- the header parser's verdict on such a word (`C19.c19_bad_magic`), for reference -/
example (m : Nat) (rest : Array UInt8) (hm : m < 2 ^ 32)
    (h1 : m ≠ Gen.frameMagic) (h2 : m ≠ Gen.frameMagicLegacy) (h3 : ¬ (0x184D2A50 ≤ m ∧ m ≤ 0x184D2A5F)) :
    (FrameR.parseHeaders (FrameR.new (C19.srcOf (FrameW.le32 m ++ rest))) ((FrameW.le32 m ++ rest).size + 2)).2
      = some .badMagic := C19.c19_bad_magic m rest hm h1 h2 h3

/-! ## (e) skippable frames -/

/-- (e) exactly the sixteen skippable magics cause the announced number of bytes to be skipped: a skippable frame
in front of any input is transparent — same delivered bytes, same result, consumption shifted by the frame -/
theorem skippable_transparent (k : Nat) (hk : k < 16) (payload rest : Array UInt8) (hp : payload.size < 2 ^ 32)
    (num : Nat) :
    let pre := FrameW.le32 (0x184D2A50 + k) ++ FrameW.le32 payload.size ++ payload
    (Run.readAll (pre ++ rest) num).1 = (Run.readAll rest num).1 ∧
    (Run.readAll (pre ++ rest) num).2.1 = (Run.readAll rest num).2.1 ∧
    (Run.readAll (pre ++ rest) num).2.2 = pre.size + (Run.readAll rest num).2.2 := by
  intro pre
  have h := readAll_skip k hk payload rest hp num
  have hpre : pre = skipFrame k payload := rfl
  rw [hpre, h]
  exact ⟨rfl, rfl, rfl⟩

/-- the clause as first proposed (consumption only claimed when `rest` made the Reader consume something or finish
cleanly); it follows from the unconditional statement -/
theorem skippable_transparent_as_given (k : Nat) (hk : k < 16) (payload rest : Array UInt8)
    (hp : payload.size < 2 ^ 32) (num : Nat) :
    let pre := FrameW.le32 (0x184D2A50 + k) ++ FrameW.le32 payload.size ++ payload
    (Run.readAll (pre ++ rest) num).1 = (Run.readAll rest num).1 ∧
    (Run.readAll (pre ++ rest) num).2.1 = (Run.readAll rest num).2.1 ∧
    ((Run.readAll rest num).2.2 ≠ 0 ∨ (Run.readAll rest num).2.1 = none →
       (Run.readAll (pre ++ rest) num).2.2 = pre.size + (Run.readAll rest num).2.2) := by
  intro pre
  have h := readAll_skip k hk payload rest hp num
  have hpre : pre = skipFrame k payload := rfl
  rw [hpre, h]
  exact ⟨rfl, rfl, fun _ => rfl⟩

/-- the corner the task description warns about: a skippable frame alone at the end of the input — both sides report
`io.EOF` from the magic read, the frame itself has been consumed -/
theorem skippable_alone (k : Nat) (hk : k < 16) (payload : Array UInt8) (hp : payload.size < 2 ^ 32) (num : Nat) :
    Run.readAll (FrameW.le32 (0x184D2A50 + k) ++ FrameW.le32 payload.size ++ payload) num =
      (#[], some .eof, 8 + payload.size) := by
  have h := readAll_skip k hk payload #[] hp num
  rw [Array.append_empty] at h
  have he : Run.readAll #[] num = (#[], some .eof, 0) := by
    rw [Proofs.FrameR.readAll_eq]; rfl
  rw [he, skipFrame_size] at h
  exact h

/-! ## non-vacuity -/

/-- (a), (b), (c) on a source that returns two bytes at a time and fails at its tenth call (`exDep` of C05): the
first block (3 bytes) is delivered, the error surfaces while the second block is read, 16 of 30 bytes consumed -/
private def hostileSrc : Source := { data := C05.exDep, chunk := 2, failAt := some 9 }
example : (FrameR.read (FrameR.new hostileSrc) 5).2.2 = some .injected ∧
    (FrameR.read (FrameR.new hostileSrc) 5).1.src.pos = 16 ∧ (FrameR.read (FrameR.new hostileSrc) 5).2.1.size = 3 := by
  decide +kernel
example : (FrameR.new hostileSrc).src.pos ≤ (FrameR.new hostileSrc).src.data.size := by decide
/-- a hostile header: valid descriptor (4 MiB blocks) then a block that announces 0x7FFFFFFF bytes — refused without
any allocation (`bData` stays empty) -/
private def hugeBlock : Array UInt8 := #[0x04, 0x22, 0x4D, 0x18, 0x60, 0x70, 0x73, 0xFF, 0xFF, 0xFF, 0x7F, 1, 2, 3]
example : (Run.readAll hugeBlock 1).2.1 = some .badBlockSize ∧
    (FrameR.read (FrameR.new (srcOf hugeBlock)) 10).1.bData.size = 0 := by decide +kernel
/-- (d) `0x184D2A60` is one past the skippable range; `0x184D2204 + 1` is one past the frame magic -/
example : Run.readAll (FrameW.le32 0x184D2A60 ++ #[1, 2, 3]) 1 = (#[], some .badMagic, 4) :=
  bad_magic_writeTo 0x184D2A60 #[1, 2, 3] 1 (by decide) (by decide) (by decide) (by decide)
example : Run.readAll (FrameW.le32 0x184D2A4F ++ #[1, 2, 3]) 1 = (#[], some .badMagic, 4) := by decide +kernel
/-- (e) `C05.exSkip` is a skippable frame (`k = 0`, payload `09 09`) in front of `C05.exRaw ++ [7, 7]` -/
example : C05.exSkip = FrameW.le32 (0x184D2A50 + 0) ++ FrameW.le32 (#[9, 9] : Array UInt8).size ++ #[9, 9] ++
    (C05.exRaw ++ #[7, 7]) := by decide
example : Run.readAll C05.exSkip 1 = (#[0x61, 0x62, 0x63], none, 28) ∧
    Run.readAll (C05.exRaw ++ #[7, 7]) 1 = (#[0x61, 0x62, 0x63], none, 18) := by decide +kernel
/-- the last skippable magic, an empty payload, in front of a truncated frame: same error, shifted consumption -/
example : Run.readAll (FrameW.le32 0x184D2A5F ++ FrameW.le32 0 ++ #[] ++ C05.exDep.extract 0 20) 4 =
      (#[0x61, 0x62, 0x63], some .unexpectedEOF, 8 + 20) ∧
    Run.readAll (C05.exDep.extract 0 20) 4 = (#[0x61, 0x62, 0x63], some .unexpectedEOF, 20) := by decide +kernel

end Lz4V.Props.C07

#print axioms Lz4V.Props.C07.pos_monotone_read
#print axioms Lz4V.Props.C07.pos_monotone_writeTo
#print axioms Lz4V.Props.C07.source_unchanged_read
#print axioms Lz4V.Props.C07.read_le
#print axioms Lz4V.Props.C07.bounded_new
#print axioms Lz4V.Props.C07.bounded_read
#print axioms Lz4V.Props.C07.bounded_writeTo
#print axioms Lz4V.Props.C07.bounded_reset
#print axioms Lz4V.Props.C07.bad_magic_read
#print axioms Lz4V.Props.C07.bad_magic_writeTo
#print axioms Lz4V.Props.C07.skippable_transparent
#print axioms Lz4V.Props.C07.skippable_transparent_as_given
#print axioms Lz4V.Props.C07.skippable_alone
