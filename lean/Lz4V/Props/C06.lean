import Lz4V.Proofs.FrameR2
import Lz4V.Props.C05
/-!
# C06 — truncated frames are never presented as complete
-/
namespace Lz4V.Props.C06
open Lz4V Lz4V.Go Lz4V.Model Lz4V.Proofs.FrameR

/-- every proper prefix (cut after the first byte) of a spec-valid frame that starts with the frame magic
ends with an error other than io.EOF, and what was delivered is a prefix of the content -/
theorem c06_truncated (F : Array UInt8) (info : Spec.Frame.Info) (content : Array UInt8)
    (hF : Spec.Frame.decode F.toList false = .ok ⟨info, content, F.size⟩)
    (hmagic : FrameR.u32 F = Gen.frameMagic)
    (k : Nat) (hk0 : 0 < k) (hk : k < F.size) (num : Nat) :
    let res := Run.readAll (F.extract 0 k) num
    res.2.1 ≠ none ∧ res.2.1 ≠ some .eof ∧ res.1 = content.extract 0 res.1.size :=
  truncated_core F info content hF hmagic k hk0 hk num

/-! ## non-vacuity: the 30-byte frame `C05.exDep` (dependent blocks, content checksum) -/

open Lz4V.Props.C05 in
/-- the frame is spec-valid and consumed entirely -/
theorem exDep_valid : ∃ info, Spec.Frame.decode exDep.toList false =
    .ok ⟨info, #[97, 98, 99, 98, 99, 98, 99, 98, 99, 98, 99], exDep.size⟩ := by
  obtain ⟨-, info, h⟩ := c05_writeTo_partial exDep _ 1 30 exDep_run ⟨_, rfl⟩ (by decide)
  have : exDep.extract 0 30 = exDep := by decide
  rw [this] at h
  exact ⟨info, h⟩

open Lz4V.Props.C05 in
/-- cut inside the second block (k = 20): "abc" was delivered, the error is `io.ErrUnexpectedEOF` -/
example : Run.readAll (exDep.extract 0 20) 1 = (#[97, 98, 99], some .unexpectedEOF, 20) := by decide +kernel

open Lz4V.Props.C05 in
/-- cut right after the end mark, before the content checksum (k = 26) -/
example : Run.readAll (exDep.extract 0 26) 1 =
    (#[97, 98, 99, 98, 99, 98, 99, 98, 99, 98, 99], some .unexpectedEOF, 26) := by decide +kernel

open Lz4V.Props.C05 in
/-- cut inside the magic (k = 2) -/
example : Run.readAll (exDep.extract 0 2) 1 = (#[], some .unexpectedEOF, 2) := by decide +kernel

open Lz4V.Props.C05 in
/-- the theorem instantiated at every cut of the 30-byte frame -/
example (k : Nat) (hk0 : 0 < k) (hk : k < 30) (num : Nat) :
    (Run.readAll (exDep.extract 0 k) num).2.1 ≠ none ∧ (Run.readAll (exDep.extract 0 k) num).2.1 ≠ some .eof := by
  obtain ⟨info, h⟩ := exDep_valid
  have := c06_truncated exDep info _ h (by decide) k hk0 hk num
  exact ⟨this.1, this.2.1⟩

end Lz4V.Props.C06
