import Lz4V.Proofs.XXH
/-!
# C13 — the Go XXH32 implementation (one-shot and streaming) equals the reference XXH32
-/
namespace Lz4V.Props.C13
open Lz4V

/-- one-shot checksum = reference XXH32, for every byte string -/
theorem oneshot (bs : List UInt8) : Model.XXH.checksumZero bs = Spec.XXH32.xxh32 bs :=
  Proofs.XXH.checksumZero_eq bs

/-- streaming: any sequence of writes (any sizes, including empty) starting from the Go zero value -/
theorem stream (chunks : List (List UInt8)) (hlen : chunks.flatten.length < 2^64) :
    Model.XXH.sum32 (chunks.foldl Model.XXH.write Model.XXH.zero) = Spec.XXH32.xxh32 chunks.flatten := by
  have h := Proofs.XXH.inv_foldl chunks Model.XXH.zero [] Proofs.XXH.inv_zero (by simpa using hlen)
  rw [List.nil_append] at h
  rw [Proofs.XXH.sum32_of_inv _ _ hlen h, oneshot]

/-- the same after an explicit Reset of an arbitrary state -/
theorem stream_reset (s : Model.XXH.State) (chunks : List (List UInt8)) (hlen : chunks.flatten.length < 2^64) :
    Model.XXH.sum32 (chunks.foldl Model.XXH.write (Model.XXH.reset s)) = Spec.XXH32.xxh32 chunks.flatten := by
  have h := Proofs.XXH.inv_foldl chunks (Model.XXH.reset s) [] (Proofs.XXH.inv_reset s)
    (by simpa using hlen)
  rw [List.nil_append] at h
  rw [Proofs.XXH.sum32_of_inv _ _ hlen h, oneshot]

/-! ## non-vacuity: a concrete 3-chunk stream of 5 + 0 + 28 = 33 bytes (crosses two stripe
boundaries, exercises the buffer-completion path) hashes to a concrete value on both sides. -/

private def ex1 : List (List UInt8) :=
  [[1, 2, 3, 4, 5], [], [6, 7, 8, 9, 10, 11, 12, 13, 14, 15, 16, 17, 18, 19, 20, 21, 22, 23, 24, 25,
    26, 27, 28, 29, 30, 31, 32, 33]]

example : ex1.flatten.length = 33 := by decide

example : Model.XXH.sum32 (ex1.foldl Model.XXH.write Model.XXH.zero) = Spec.XXH32.xxh32 ex1.flatten :=
  stream ex1 (by decide)

/-- both sides evaluated independently by kernel reduction (`#eval` gives 273426168 as well) -/
example : Model.XXH.sum32 (ex1.foldl Model.XXH.write Model.XXH.zero) = 273426168 := by decide
example : Spec.XXH32.xxh32 ex1.flatten = 273426168 := by decide
example : Model.XXH.checksumZero ex1.flatten = 273426168 := by decide
/-- after Reset of a dirty state -/
example : Model.XXH.sum32 (ex1.foldl Model.XXH.write
    (Model.XXH.reset ⟨⟨1, 2, 3, 4⟩, 77, [9, 9, 9]⟩)) = 273426168 := by decide

/-- the empty input: well-known XXH32 (seed 0) value 0x02CC5D05 -/
example : Model.XXH.sum32 Model.XXH.zero = 0x02CC5D05 := by decide
example : Spec.XXH32.xxh32 [] = 0x02CC5D05 := by decide

end Lz4V.Props.C13
