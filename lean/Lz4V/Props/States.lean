import Lz4V.Gen.States
import Lz4V.Model.FrameR
/-!
# The state tables of `reader.go` / `writer.go`, regenerated, agree with the models

`Gen/States.lean` is the slice Go builds from the keyed composite literals `readerStates` / `writerStates`
(index = current state, value = next state, a key that is missing is the zero value `noState`), translated on
every run.  `_State.next(nil)` is `s.state = s.states[s.state]`, `init` and `reset` are `s.states[0]`.  The models
use the hand-written functions `FrameW.writerStates` / `FrameR.readerStates`.  For every state an object of that
kind can be in (the tables are closed over those states, `*_closed`) the model's transition is the table's, the
index is inside the slice (no panic), and the zero-filled slot of the other kind's state is never reached.
-/
namespace Lz4V.Props.States
open Lz4V.Gen Lz4V.Model

def writerSet : List Nat := [stNo, stError, stNew, stWrite, stClosed]
def readerSet : List Nat := [stNo, stError, stNew, stRead, stClosed]

theorem writer_next_gen : ∀ s ∈ writerSet, FrameW.writerStates s = writerStatesTab.getD s 0 := by decide
theorem reader_next_gen : ∀ s ∈ readerSet, FrameR.readerStates s = readerStatesTab.getD s 0 := by decide

/-- `init` / `reset`: `states[0]` is `newState`, the initial state of the models -/
theorem writer_init_gen (f : Option Nat) : writerStatesTab.getD 0 0 = stNew ∧ (FrameW.new f).st = stNew := ⟨by decide, rfl⟩
theorem reader_init_gen (src : Go.Source) : readerStatesTab.getD 0 0 = stNew ∧ (FrameR.new src).st = stNew := ⟨by decide, rfl⟩

/-- closure: from a state of the set the table leads into the set, and `errorState` (set by `next(err)`,
`check`, `fail`) is in it — so the zero-filled slot is never used and the index never leaves the slice -/
theorem writer_closed : ∀ s ∈ writerSet, writerStatesTab.getD s 0 ∈ writerSet ∧ s < writerStatesTab.length := by decide
theorem reader_closed : ∀ s ∈ readerSet, readerStatesTab.getD s 0 ∈ readerSet ∧ s < readerStatesTab.length := by decide

end Lz4V.Props.States
