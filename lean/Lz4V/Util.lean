/-! Line-protocol helpers shared by the driver (hex, FNV-1a 64, fill pattern). -/
namespace Lz4V.Util

def hexVal (c : Char) : UInt8 :=
  if c.isDigit then (c.toNat - 48).toUInt8 else (c.toNat - 87).toUInt8

/-- `-` encodes the empty string -/
def parseHex (s : String) : Array UInt8 := Id.run do
  if s == "-" then return #[]
  let cs := s.toList.toArray
  let mut out : Array UInt8 := Array.mkEmpty (cs.size / 2)
  let mut i := 0
  while i + 1 < cs.size do
    out := out.push (hexVal cs[i]! * 16 + hexVal cs[i+1]!)
    i := i + 2
  out

def hexDigit (n : Nat) : Char := if n < 10 then Char.ofNat (48 + n) else Char.ofNat (87 + n)
def toHex (a : Array UInt8) : String := Id.run do
  if a.size == 0 then return "-"
  let mut s := ""
  for b in a do
    s := s.push (hexDigit (b.toNat / 16))
    s := s.push (hexDigit (b.toNat % 16))
  s

/-- FNV-1a 64 of `a[0:n)` -/
def fnv (a : Array UInt8) (n : Nat) : UInt64 := Id.run do
  let mut h : UInt64 := 14695981039346656037
  for i in [0:n] do
    h := (h ^^^ (a[i]!).toUInt64) * 1099511628211
  h

def fnvList (l : List UInt8) : UInt64 :=
  l.foldl (fun h b => (h ^^^ b.toUInt64) * 1099511628211) 14695981039346656037

/-- deterministic fill pattern shared with the Go harness: `byte(i*131 + seed*7 + 13)` -/
def fill (n seed : Nat) : Array UInt8 := Id.run do
  let mut a : Array UInt8 := Array.mkEmpty n
  for i in [0:n] do
    a := a.push (i * 131 + seed * 7 + 13).toUInt8
  a

/-! ## content generator shared with the Go harness (`k.seed.len`) -/

def smNext (s : UInt64) : UInt64 × UInt64 :=
  let s := s + 0x9E3779B97F4A7C15
  let z := s
  let z := (z ^^^ (z >>> 30)) * 0xBF58476D1CE4E5B9
  let z := (z ^^^ (z >>> 27)) * 0x94D049BB133111EB
  (s, z ^^^ (z >>> 31))

/-- `n` pseudo-random bytes: 8 per draw, little-endian (same as `Rng.Bytes` in Go) -/
def rndBytes (seed : Nat) (n : Nat) : Array UInt8 := Id.run do
  let mut s : UInt64 := seed.toUInt64 * 0x9E3779B97F4A7C15 + 0x1234567
  let mut out : Array UInt8 := Array.mkEmpty n
  let mut i := 0
  while i < n do
    let (s', x) := smNext s
    s := s'
    for j in [0:8] do
      if i + j < n then out := out.push (x >>> (8 * j).toUInt64).toUInt8
    i := i + 8
  out

def genContent (k seed n : Nat) : Array UInt8 :=
  match k with
  | 0 => rndBytes seed n
  | 1 => (rndBytes seed n).map (fun b => (97 + b.toNat % (1 + seed % 4)).toUInt8)
  | 2 => Array.replicate n (seed % 256).toUInt8
  | 3 =>
    let p := 1 + seed % 40
    let pat := rndBytes seed p
    Array.ofFn (n := n) (fun i => pat[i.val % p]!)
  | 4 =>
    let r := rndBytes seed n
    r.map (fun b => if b.toNat % 50 == 0 then b else 0)
  | 6 =>   -- incompressible first, compressible after
    let r := rndBytes seed n
    Array.ofFn (n := n) (fun i => if i.val < n / 2 then r[i.val]! else (i.val % 7).toUInt8)
  | 7 =>   -- alternating 64 KiB stretches: incompressible, compressible, …
    let r := rndBytes seed n
    Array.ofFn (n := n) (fun i => if i.val / 65536 % 2 = 0 then r[i.val]! else (i.val % 7).toUInt8)
  | _ =>
    let r := rndBytes seed n
    Array.ofFn (n := n) (fun i => if i.val < n / 2 then (i.val % 7).toUInt8 else r[i.val]!)

/-- data token: `k.seed.len` or `x<hex>` -/
def parseData (t : String) : Array UInt8 :=
  if t.startsWith "x" then parseHex (t.drop 1).toString else
  match t.splitOn "." with
  | [k, s, n] => genContent k.toNat! s.toNat! n.toNat!
  | _ => #[]

end Lz4V.Util
