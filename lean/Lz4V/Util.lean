/-! Line-protocol helpers shared by the driver (hex, FNV-1a 64, fill pattern). -/
namespace Lz4V.Util

def hexVal (c : Char) : UInt8 :=
  if c.isDigit then (c.toNat - 48).toUInt8 else (c.toNat - 87).toUInt8

/-- `-` encodes the empty string -/
def parseHex (s : String) : Array UInt8 := Id.run do
  if s == "-" then return #[]
  let cs := s.toList.toArray
  let mut out : Array UInt8 := Array.mkEmpty (cs.size / 2)
  let mut i := 0
  while i + 1 < cs.size do
    out := out.push (hexVal cs[i]! * 16 + hexVal cs[i+1]!)
    i := i + 2
  out

def hexDigit (n : Nat) : Char := if n < 10 then Char.ofNat (48 + n) else Char.ofNat (87 + n)
def toHex (a : Array UInt8) : String := Id.run do
  if a.size == 0 then return "-"
  let mut s := ""
  for b in a do
    s := s.push (hexDigit (b.toNat / 16))
    s := s.push (hexDigit (b.toNat % 16))
  s

/-- FNV-1a 64 of `a[0:n)` -/
def fnv (a : Array UInt8) (n : Nat) : UInt64 := Id.run do
  let mut h : UInt64 := 14695981039346656037
  for i in [0:n] do
    h := (h ^^^ (a[i]!).toUInt64) * 1099511628211
  h

def fnvList (l : List UInt8) : UInt64 :=
  l.foldl (fun h b => (h ^^^ b.toUInt64) * 1099511628211) 14695981039346656037

/-- deterministic fill pattern shared with the Go harness: `byte(i*131 + seed*7 + 13)` -/
def fill (n seed : Nat) : Array UInt8 := Id.run do
  let mut a : Array UInt8 := Array.mkEmpty n
  for i in [0:n] do
    a := a.push (i * 131 + seed * 7 + 13).toUInt8
  a

end Lz4V.Util
