import Lz4V.Gen.Leaf
import Lz4V.Go.Slice
/-!
# Model.Emit — the sequence-emission code shared (textually duplicated in Go) by the
fast and the HC compressor, in its bounds-checked (fast) form.

`dst` is an `Array UInt8` whose size is the Go `len(dst)`.
`none` = the Go code returned `(0, ErrInvalidSourceShortBuffer)`.
-/
namespace Lz4V.Model.Emit
open Lz4V.Go

/-- `for ; l >= 0xFF && di < len(dst); l -= 0xFF { dst[di] = 0xFF; di++ }` → `(dst, di, l)` -/
def ffLoop (dst : Array UInt8) (di l : Nat) : Array UInt8 × Nat × Nat :=
  if l ≥ 255 ∧ di < dst.size then ffLoop (dst.set! di 255) (di+1) (l - 255) else (dst, di, l)
termination_by l
decreasing_by omega

/-- token + literal length + literals + offset + match length of one sequence
(block.go lines 196–248). -/
def emitSeq (src : Array UInt8) (dst : Array UInt8) (di : Nat) (anchor lLen offset mLen : Nat) :
    Option (Array UInt8 × Nat) :=
  if di ≥ dst.size then none else
  let tok0 : Nat := if mLen < 15 then mLen else 15
  -- Encode literals length.
  let r : Option (Array UInt8 × Nat) :=
    if lLen < 15 then some (dst.set! di (tok0 + lLen * 16).toUInt8, di)
    else
      let dst := dst.set! di (tok0 + 0xF0).toUInt8
      let (dst, di, l) := ffLoop dst (di+1) (lLen - 15)
      if di ≥ dst.size then none else some (dst.set! di l.toUInt8, di)
  match r with
  | none => none
  | some (dst, di) =>
  let di := di + 1
  -- Literals.
  if di + lLen > dst.size then none else
  let dst := blit dst di src anchor lLen
  let di := di + lLen + 2
  -- Encode offset.
  if di > dst.size then none else
  let dst := (dst.set! (di - 2) (offset % 256).toUInt8).set! (di - 1) (offset / 256 % 256).toUInt8
  -- Encode match length part 2.
  if mLen ≥ 15 then
    let (dst, di, m) := ffLoop dst di (mLen - 15)
    if di ≥ dst.size then none else some (dst.set! di m.toUInt8, di + 1)
  else some (dst, di)

inductive Ret where
  | ok (n : Nat) (dst : Array UInt8)    -- `(n, nil)`, n > 0
  | zero                                -- `(0, nil)`: incompressible
  | err                                 -- `(0, ErrInvalidSourceShortBuffer)`
  | panic                               -- a run-time panic escaped (never, see C11)

/-- the `lastLiterals:` part (block.go lines 258–294).  `first` = the
`isNotCompressible && anchor == 0` test is executed (always for the fast compressor; the HC
compressor places it before the label, so the `goto lastLiterals` of short inputs skips it). -/
def lastLiterals (src : Array UInt8) (dst : Array UInt8) (di anchor : Nat) (notComp : Bool)
    (first : Bool := true) : Ret :=
  if first ∧ notComp ∧ anchor = 0 then .zero else
  if di ≥ dst.size then .err else
  let lLen := src.size - anchor
  let r : Option (Array UInt8 × Nat) :=
    if lLen < 15 then some (dst.set! di (lLen * 16).toUInt8, di)
    else
      let dst := dst.set! di 0xF0
      let (dst, di, l) := ffLoop dst (di+1) (lLen - 15)
      if di ≥ dst.size then none else some (dst.set! di l.toUInt8, di)
  match r with
  | none => .err
  | some (dst', di) =>
  let di := di + 1
  if notComp ∧ di ≥ anchor then .zero else
  if di + src.size - anchor > dst'.size then .err else
  .ok (di + (src.size - anchor)) (blit dst' di src anchor (src.size - anchor))

end Lz4V.Model.Emit
