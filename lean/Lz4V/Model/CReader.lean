import Lz4V.Model.FrameW
/-!
# Model.CReader — model of `CompressingReader` (compressing_reader.go) and its overflow writer

`ovWriter` is modelled by the bytes placed in the caller's buffer during the current call
(`out`, `out.size = dataPos`, capacity `want = len(p)`) and the not-yet-delivered overflow
(`ov`, i.e. Go's `ov[ovPos:]`).  The frame encoder is the same code as the Writer's
(`FrameW.writeBlock`, header and trailer), writing into the overflow writer, which never fails.
-/
namespace Lz4V.Model.CReader
open Lz4V.Go Lz4V.Gen Lz4V.Model Lz4V.Model.FrameW

inductive St where | initial | reading | flushing | done
deriving DecidableEq, Repr

structure CR where
  st : St := .initial
  cfg : Cfg
  src : Source
  cks : XXH.State := XXH.zero
  ov : Array UInt8 := #[]          -- overflow not yet delivered (`ov[ovPos:]`)
  ovPosNonZero : Bool := false     -- `ovPos > 0`

/-- `NewCompressingReader`: 4 MiB blocks, content checksum -/
def new (src : Source) : CR :=
  { cfg := { flags := contentChecksumSet (blockSizeIndexSet 0 (indexOf Block4Mb).toUInt16) true }, src := src }

/-- `Apply`: only in the initial state; `Reset` first, then the options in order -/
def apply (c : CR) (opts : List Opt) : CR × Option Err :=
  if c.st ≠ .initial then (c, some .closedOrError) else
  let c := { c with ov := #[], ovPosNonZero := false }
  let rec go (cfg : Cfg) : List Opt → Cfg × Option Err
    | [] => (cfg, none)
    | o :: os =>
      match o with
      | .concurrency _ | .legacy _ => (cfg, some .notApplicable)
      | _ => match applyOne cfg o with
        | .ok cfg' => go cfg' os
        | .error e => (cfg, some e)
  let (cfg, e) := go c.cfg opts
  ({ c with cfg := cfg }, e)

/-- `ovWriter.Write(p)`: fill the caller's buffer, the rest goes to the overflow -/
def ovWrite (want : Nat) (out ov : Array UInt8) (p : Array UInt8) : Array UInt8 × Array UInt8 :=
  let count := min (want - out.size) p.size
  (out ++ p.extract 0 count, if count < p.size then ov ++ p.extract count p.size else ov)

/-- run `FrameW.writeBlock` against the overflow writer -/
def emitBlock (c : CR) (want : Nat) (out : Array UInt8) (data : Array UInt8) : CR × Array UInt8 :=
  let (sink, cks, _) := writeBlock c.cfg false c.cks {} data
  let (out, ov) := sink.writes.foldl (fun (o, v) w => ovWrite want o v w) (out, c.ov)
  ({ c with cks := cks, ov := ov }, out)

/-- `CompressingReader.Read(p)` with `len(p) = want`: the bytes returned (`p[:n]`) and the error -/
def read (c : CR) (want : Nat) : CR × Array UInt8 × Option Err :=
  let fail (c : CR) (e : Err) : CR × Array UInt8 × Option Err := ({ c with st := .done }, #[], some e)
  -- out.reset(p)
  if c.ov.size ≥ want then
    ({ c with ov := c.ov.extract want c.ov.size, ovPosNonZero := true }, c.ov.extract 0 want, none)
  else
  let out := c.ov
  let c := { c with ov := #[], ovPosNonZero := false }
  let idx := blockSizeIndex c.cfg.flags
  -- the `for zrd.state == crStateReading` loop
  let rec loop (c : CR) (out : Array UInt8) : Nat → CR × Array UInt8 × Option Err
    | 0 => fail c .unhandledState
    | fuel+1 =>
      let (src, got, e) := readFull c.src (poolSize idx)
      let c := { c with src := src }
      match e with
      | none =>
        let (c, out) := emitBlock c want out got
        if out.size = want then (c, out, none) else loop c out fuel
      | some err =>
        if err = .eof ∨ err = .unexpectedEOF then
          let (c, out) := if got.size > 0 then emitBlock c want out got else (c, out)
          -- frame.CloseW(&out, 1)
          let tail := le32 0 ++ (if flagContentChecksum c.cfg.flags then le32 (XXH.sum32 c.cks).toNat else #[])
          let (out, ov) := ovWrite want out c.ov tail
          ({ c with st := .flushing, ov := ov }, out, none)
        else fail c err
  match c.st with
  | .initial =>
    -- init(): InitW + descriptor
    let flags := blockIndependenceSet (versionSet c.cfg.flags 1) true
    let cfg := { c.cfg with flags := flags }
    let d : Array UInt8 := #[(flags.toNat % 256).toUInt8, (flags.toNat / 256).toUInt8] ++
      (if flagSize flags then le64 cfg.contentSize else #[])
    let hdr := le32 frameMagic ++ d ++ #[((XXH.checksumZero d.toList).toNat / 256 % 256).toUInt8]
    let (out, ov) := ovWrite want out c.ov hdr
    let c := { c with cfg := cfg, cks := XXH.reset c.cks, ov := ov, st := .reading }
    loop c out (c.src.data.size / (max (poolSize (blockSizeIndex flags)) 1) + 3)
  | .done => fail c .readerDone
  | .flushing =>
    if out.size > 0 then (c, out, none) else ({ c with st := .done }, #[], some .eof)
  | .reading => loop c out (c.src.data.size / (max (poolSize idx) 1) + 3)

/-- `Reset(src)` -/
def reset (c : CR) (src : Source) : CR :=
  { c with st := .initial, src := src, ov := #[], ovPosNonZero := false }

end Lz4V.Model.CReader
