import Lz4V.Model.FrameW
/-!
# Model.Pool — the shared block-buffer pools (`internal/lz4block/blocks.go`: `BlockSizeIndex.Get`, `Put`)

The Reader and the Writer take their block buffers from five process-wide `sync.Pool`s selected by the
block-size index and give them back with `Put`, which files a buffer by its *capacity*.  The frame
models (`FrameW`, `FrameR`, `CReader`) assume that a buffer obtained for index `idx` has length and
capacity `poolSize idx`; in particular the Reader bounds every block size it reads by `cap(b.data)`.
This file models the pools and proves that assumption as an invariant of every `Get`/`Put` history,
whatever slices are put back (C05, C07: "never … beyond the declared block maximum").

A buffer is represented by what the pools can observe of a slice: its length and its capacity.
`sync.Pool.Get` may return any buffer put earlier or a new one, and the runtime may drop buffers at any
time: `GetR` and `Drop` are relations covering all those choices.
-/
namespace Lz4V.Model.Pool
open Lz4V.Gen Lz4V.Model.FrameW

structure Buf where
  len : Nat
  cap : Nat
deriving DecidableEq, Repr

/-- the five pools, by block-size index (3 = 8 MiB legacy, 4…7) -/
structure Pools where
  p : Nat → List Buf

def empty : Pools := ⟨fun _ => []⟩

/-- `sync.Pool.New` of the pool for index `idx` -/
def fresh (idx : Nat) : Buf := ⟨poolSize idx, poolSize idx⟩

/-- the index `Put` files a capacity under (`switch c := cap(buf)`), if any -/
def classOf (c : Nat) : Option Nat :=
  if c = Block64Kb then some 4 else if c = Block256Kb then some 5 else if c = Block1Mb then some 6
  else if c = Block4Mb then some 7 else if c = Block8Mb then some 3 else none

/-- `Put(buf)`: filed by capacity, re-sliced to the full capacity (`buf[:c]`); other capacities are dropped -/
def put (ps : Pools) (b : Buf) : Pools :=
  match classOf b.cap with
  | some i => ⟨fun j => if j = i then ⟨b.cap, b.cap⟩ :: ps.p j else ps.p j⟩
  | none => ps

/-- `idx.Get()`: a new buffer, or any buffer of pool `idx` (which leaves the pool) -/
inductive GetR (ps : Pools) (idx : Nat) : Buf → Pools → Prop
  | new : GetR ps idx (fresh idx) ps
  | reuse (b : Buf) (l r : List Buf) (h : ps.p idx = l ++ b :: r) :
      GetR ps idx b ⟨fun j => if j = idx then l ++ r else ps.p j⟩

/-- the runtime may drop any pooled buffer at any time -/
inductive Drop (ps : Pools) : Pools → Prop
  | drop (idx : Nat) (b : Buf) (l r : List Buf) (h : ps.p idx = l ++ b :: r) :
      Drop ps ⟨fun j => if j = idx then l ++ r else ps.p j⟩

/-- every pooled buffer has exactly the length and capacity of its pool's class -/
def Inv (ps : Pools) : Prop := ∀ idx, ∀ b ∈ ps.p idx, b.len = poolSize idx ∧ b.cap = poolSize idx

/-- a history of pool operations: puts of arbitrary slices, gets, drops -/
inductive Reach : Pools → Prop
  | init : Reach empty
  | put (ps : Pools) (b : Buf) : Reach ps → Reach (put ps b)
  | get (ps : Pools) (idx : Nat) (b : Buf) (ps' : Pools) : Reach ps → GetR ps idx b ps' → Reach ps'
  | drop (ps ps' : Pools) : Reach ps → Drop ps ps' → Reach ps'

end Lz4V.Model.Pool
