import Lz4V.Model.Emit
/-!
# Model.HC — model of `(*CompressorHC).CompressBlock` (internal/lz4block/block.go)

`hashTable` and `chainTable` are `Array Nat` of size `htSize`.  The Go function
zeroes them on entry unless this is the first call on a zero-valued object, so
every call starts from all-zero tables.  Run-time panics (index out of range)
are converted by the deferred `recoverBlock` into
`(0, ErrInvalidSourceShortBuffer)`, i.e. `.err`.  The emission code is the same
text as the fast compressor's without the explicit `di < len(dst)` tests; with
the capacity clipped to the length at entry an out-of-range write panics exactly
where the fast compressor's tests fail, so `Emit.emitSeq` models both.
-/
namespace Lz4V.Model.HC
open Lz4V.Go Lz4V.Gen Lz4V.Model.Emit

/-- `blockHashHC(x)` used directly as an index into `hashTable [htSize]int` (the Go code does not mask it:
an out-of-range value is an index panic, recovered into an error) -/
@[inline] def hashIdx (x : UInt32) : Nat := (blockHashHC x).toNat

/-- `binary.LittleEndian.Uint32(src[i:])` -/
def ld32 (s : Array UInt8) (i : Nat) : UInt32 :=
  (s[i]!).toUInt32 ||| ((s[i+1]!).toUInt32 <<< 8) ||| ((s[i+2]!).toUInt32 <<< 16) ||| ((s[i+3]!).toUInt32 <<< 24)

/-- `for ml < sn-si { x := … ; if x == 0 { ml += 8 } else { ml += tz>>3; break } }` -/
def commonLen (src : Array UInt8) (next si sn : Nat) : (fuel : Nat) → (ml : Nat) → Nat
  | 0, ml => ml
  | fuel+1, ml =>
    if ml < sn - si then
      let x := le64 src (next + ml) ^^^ le64 src (si + ml)
      if x = 0 then commonLen src next si sn fuel (ml + 8) else ml + tzBytes x
    else ml

/-- the chain walk `for next, try := c.hashTable[h], depth; try > 0 && next > 0 && si-next < winSize; …`.
`none` = an index panicked. -/
def chainWalk (src : Array UInt8) (ct : Array Nat) (si sn : Nat) :
    (try_ : Nat) → (next mLen offset : Nat) → Option (Nat × Nat)
  | 0, _, mLen, offset => some (mLen, offset)
  | try_+1, next, mLen, offset =>
    if next > 0 ∧ (si : Int) - next < winSize then
      if next + mLen ≥ src.size ∨ si + mLen ≥ src.size then none else
      if next % winSize ≥ ct.size then none else   -- `c.chainTable[next&winMask]`
      let nn := ct[next % winSize]!
      if src[next + mLen]! ≠ src[si + mLen]! then chainWalk src ct si sn try_ nn mLen offset
      else
        if next ≥ si then none else   -- (unreachable from zeroed tables) le64 past the end
        let ml := commonLen src next si sn (sn - si + 1) 0
        if ml < minMatch ∨ ml ≤ mLen then chainWalk src ct si sn try_ nn mLen offset
        else chainWalk src ct si sn try_ nn ml (si - next)
    else some (mLen, offset)

/-- the table update for the bytes covered by the match:
`for si, ml := winStart, si+mLen; si < ml; { match >>= 8; match |= uint32(src[si+3])<<24; … si++ }`;
`none` = an index panicked (hash value outside `hashTable`) -/
def rehash (src : Array UInt8) : (n : Nat) → (si : Nat) → (m : UInt32) → (ht ct : Array Nat) →
    Option (Array Nat × Array Nat)
  | 0, _, _, ht, ct => some (ht, ct)
  | n+1, si, m, ht, ct =>
    let m := (m >>> 8) ||| ((src[si+3]!).toUInt32 <<< 24)
    let h := hashIdx m
    if h ≥ ht.size ∨ si % winSize ≥ ct.size then none else
    let ct := ct.set! (si % winSize) ht[h]!
    let ht := ht.set! h si
    rehash src n (si+1) m ht ct

def mainLoop (src : Array UInt8) (sn depth : Nat) (notComp : Bool) :
    (fuel : Nat) → (ht ct : Array Nat) → (dst : Array UInt8) → (di si anchor : Nat) → Ret
  | 0, _, _, _, _, _, _ => .panic
  | fuel+1, ht, ct, dst, di, si, anchor =>
    if si < sn then
      let m := ld32 src si
      let h := hashIdx m
      -- `c.hashTable[h]`, `c.chainTable[si&winMask]`: index panics if the tables are too small
      if h ≥ ht.size ∨ si % winSize ≥ ct.size then .err else
      match chainWalk src ct si sn depth ht[h]! 0 0 with
      | none => .err
      | some (mLen, offset) =>
      let ct := ct.set! (si % winSize) ht[h]!
      let ht := ht.set! h si
      if mLen = 0 then
        mainLoop src sn depth notComp fuel ht ct dst di (si + 1 + (si - anchor) / 2 ^ adaptSkipLogHC) anchor
      else
        let winStart := if si + mLen > winSize + (si + 1) then si + mLen - winSize else si + 1
        match rehash src (si + mLen - winStart) winStart m ht ct with
        | none => .err
        | some (ht, ct) =>
        let lLen := si - anchor
        let si := si + mLen
        match emitSeq src dst di anchor lLen offset (mLen - minMatch) with
        | none => .err
        | some (dst, di) => mainLoop src sn depth notComp fuel ht ct dst di si si
    else
      lastLiterals src dst di anchor notComp

def bound (n : Nat) : Nat := (CompressBlockBound n).toNat

def zeroTable : Array Nat := Array.replicate htSize 0

/-- `(*CompressorHC).CompressBlock(src, dst, depth)`; `depth` is a `uint32`. -/
def compressBlock (src dst : Array UInt8) (depth : Nat) : Ret :=
  let notComp := dst.size < bound src.size
  if src.size ≤ mfLimit then lastLiterals src dst 0 0 notComp (first := false)
  else
    let depth := if depth = 0 then winSize else depth
    mainLoop src (src.size - mfLimit) depth notComp (src.size + 1) zeroTable zeroTable dst 0 0 0

end Lz4V.Model.HC
