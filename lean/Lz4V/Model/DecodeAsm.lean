/-!
# Model.DecodeAsm — label-by-label model of internal/lz4block/decode_amd64.s

Registers hold flat 64-bit addresses (`Nat` < 2^64, wrap-around made explicit by
`add64`/`sub64`, which also return the carry flag).  Memory is three regions —
`dst[0:len)`, `src`, `dict` — at universally quantified base addresses.  Every
load must lie inside `src ∪ dict ∪ dst[0:len)` and every store inside
`dst[0:len)`; anything else is a `fault`, which is what C03 forbids.
`dst.size` is the *capacity* image (so that the correspondence can check that
nothing beyond `len` changes); `dstLen` is the Go `len`.

Each assembly label is one function; the outer `loop` label is iterated by
`run` on fuel (each iteration consumes at least one source byte).
-/
namespace Lz4V.Model.DecodeAsm

def W : Nat := 18446744073709551616  -- 2^64

structure Mem where
  dst : Array UInt8      -- size = cap
  dstLen : Nat
  src : Array UInt8
  dict : Array UInt8
  dstBase : Nat
  srcBase : Nat
  dictBase : Nat

abbrev X := Except String

def ld8 (m : Mem) (a : Nat) : X Nat :=
  if m.srcBase ≤ a ∧ a < m.srcBase + m.src.size then pure (m.src[a - m.srcBase]!).toNat
  else if m.dstBase ≤ a ∧ a < m.dstBase + m.dstLen then pure (m.dst[a - m.dstBase]!).toNat
  else if m.dictBase ≤ a ∧ a < m.dictBase + m.dict.size then pure (m.dict[a - m.dictBase]!).toNat
  else throw s!"load fault at {a}"

def st8 (m : Mem) (a : Nat) (v : Nat) : X Mem :=
  if m.dstBase ≤ a ∧ a < m.dstBase + m.dstLen then
    pure { m with dst := m.dst.set! (a - m.dstBase) v.toUInt8 }
  else throw s!"store fault at {a}"

/-- load n bytes (register / xmm load, or memmove: all bytes are read before any is written) -/
def ldN (m : Mem) (a : Nat) : Nat → X (List Nat)
  | 0 => pure []
  | n+1 => do let v ← ld8 m a; let vs ← ldN m (a+1) n; pure (v :: vs)
def stN (m : Mem) (a : Nat) : List Nat → X Mem
  | [] => pure m
  | v :: vs => do let m ← st8 m a v; stN m (a+1) vs
/-- register-width copy (MOVQ/MOVOU/MOVW load then store) -/
def cpy (m : Mem) (to fr n : Nat) : X Mem := do let vs ← ldN m fr n; stN m to vs
/-- `CALL runtime·memmove` -/
def memmove := cpy

def sub64 (a b : Nat) : Nat × Bool := if a ≥ b then (a - b, false) else (a + W - b, true)
def add64 (a b : Nat) : Nat × Bool := if a + b < W then (a + b, false) else (a + b - W, true)

structure R where
  di : Nat
  si : Nat
  r8 : Nat    -- dst end
  r9 : Nat    -- src end
  r11 : Nat   -- dst base
  r12 : Nat   -- dst end - 32 (shortcut guard)
  r13 : Nat   -- src end - 16 (shortcut guard)
  r14 : Nat   -- dict base
  r15 : Nat   -- dict len

def errCorrupt : Int := -1
def errShortBuf : Int := -2
def errShortDict : Int := -3

inductive Step where
  | done (ret : Int) (m : Mem)
  | cont (m : Mem) (r : R)

/-- `end:` -/
def endL (m : Mem) (r : R) (cx : Nat) : Step :=
  if cx != 0 then .done errCorrupt m else .done (Int.ofNat (r.di - r.r11)) m

/-- `loop_check` / the `CMPQ SI, R9; JB loop` tails -/
def loopcheck (m : Mem) (r : R) (cx : Nat) : Step :=
  if r.si < r.r9 then .cont m r else endL m r cx

/-- `copy_match_loop`: byte loop `MOVB (BX),AX; MOVB AX,(DI); INCQ; DECQ CX; JNZ` -/
def copyMatchLoop (m : Mem) (di bx : Nat) : Nat → X (Mem × Nat)
  | 0 => pure (m, di)
  | cx+1 => do
    let v ← ld8 m bx
    let m ← st8 m di v
    copyMatchLoop m (di+1) (bx+1) cx

/-- `memmove_match` -/
def memmoveMatch (m : Mem) (r : R) (cx bx : Nat) : X Step := do
  let m ← memmove m r.di bx cx
  pure (loopcheck m {r with di := r.di + cx} 0)

/-- `copy_match_from_dict` -/
def copyMatchFromDict (m : Mem) (r : R) (cx bx : Nat) : X Step := do
  let (ax, _) := sub64 r.r11 bx
  -- BX = len(dict) - AX ; JS err_short_dict
  let (bx2, _) := sub64 r.r15 ax
  if bx2 ≥ W / 2 then return .done errShortDict m
  let (bx3, _) := add64 bx2 r.r14
  -- CMPQ CX, AX; JLT memmove_match (signed)
  let slt := (if cx ≥ W/2 then (cx : Int) - W else cx) < (if ax ≥ W/2 then (ax : Int) - W else ax)
  if slt then memmoveMatch m r cx bx3
  else do
    let m ← memmove m r.di bx3 ax
    let di := r.di + ax
    let cx := cx - ax
    let bx := r.r11
    let ax2 := cx + bx
    if ax2 > di then
      if cx == 0 then throw "copy_match_loop entered with CX=0 (2^64 iterations)"
      let (m, di) ← copyMatchLoop m di bx cx
      pure (loopcheck m {r with di := di} 0)
    else memmoveMatch m {r with di := di} cx bx

/-- `copy_match` -/
def copyMatch (m : Mem) (r : R) (cx dx : Nat) : X Step := do
  let cx := cx + 4
  let (ax, c) := add64 r.di cx
  if c then return .done errShortBuf m
  if ax > r.r8 then return .done errShortBuf m
  let (bx, c) := sub64 r.di dx
  if c then copyMatchFromDict m r cx bx
  else if bx ≤ r.r11 then copyMatchFromDict m r cx bx   -- CMPQ BX, R11; JBE
  else if r.di > bx + cx then
    -- copy_interior_match
    if cx > 16 ∨ r.r8 - r.di < 16 then memmoveMatch m r cx bx
    else do
      let m ← cpy m r.di bx 16
      pure (loopcheck m {r with di := r.di + cx} 0)
  else do
    let (m, di) ← copyMatchLoop m r.di bx cx
    pure (loopcheck m {r with di := di} 0)

/-- `match_len_loop` -/
def matchLenLoop (m : Mem) (r : R) (cx dx : Nat) : (fuel : Nat) → X Step
  | 0 => throw "fuel"
  | fuel+1 => do
    if r.si ≥ r.r9 then return .done errShortBuf m
    let bx ← ld8 m r.si
    let r := {r with si := r.si + 1}
    let cx := cx + bx
    if bx == 255 then matchLenLoop m r cx dx fuel else copyMatch m r cx dx

/-- `match_len_loop_pre` -/
def matchLenLoopPre (m : Mem) (r : R) (cx dx : Nat) : X Step :=
  if cx % 256 != 15 then copyMatch m r cx dx else matchLenLoop m r cx dx (m.src.size + 1)

/-- `finish_lit_copy` -/
def finishLitCopy (m : Mem) (r : R) (tok : Nat) : X Step := do
  let cx := tok % 16
  if r.si ≥ r.r9 then return endL m r cx
  let (si, c) := add64 r.si 2
  if c then return .done errShortBuf m
  if si > r.r9 then return .done errShortBuf m
  let lo ← ld8 m (si-2)
  let hi ← ld8 m (si-1)
  let dx := lo + 256*hi
  if dx == 0 then return .done errCorrupt m
  matchLenLoopPre m {r with si := si} cx dx

/-- `copy_literal` -/
def copyLiteral (m : Mem) (r : R) (tok cx : Nat) : X Step := do
  let (ax, c) := add64 r.si cx
  if c then return .done errShortBuf m
  if ax > r.r9 then return .done errShortBuf m
  let (bx, c) := add64 r.di cx
  if c then return .done errShortBuf m
  if bx > r.r8 then return .done errShortBuf m
  let wide := cx ≤ 48 ∧ (r.r8 - r.di) ≥ 48 ∧ (r.r9 - r.si) ≥ 48
  let m ← if wide then cpy m r.di r.si 48 else memmove m r.di r.si cx
  finishLitCopy m {r with si := r.si + cx, di := r.di + cx} tok

/-- `lit_len_loop` -/
def litLenLoop (m : Mem) (r : R) (tok cx : Nat) : (fuel : Nat) → X Step
  | 0 => throw "fuel"
  | fuel+1 => do
    if r.si ≥ r.r9 then return .done errShortBuf m
    let bx ← ld8 m r.si
    let r := {r with si := r.si + 1}
    let cx := cx + bx
    if bx == 255 then litLenLoop m r tok cx fuel else copyLiteral m r tok cx

/-- label `loop`: one sequence -/
def iter (m : Mem) (r : R) : X Step := do
  let tok ← ld8 m r.si
  let si := r.si + 1
  let cx := tok / 16
  if cx == 15 then litLenLoop m {r with si := si} tok cx (m.src.size + 1)
  else if r.di ≥ r.r12 then copyLiteral m {r with si := si} tok cx
  else if si ≥ r.r13 then copyLiteral m {r with si := si} tok cx
  else do
    -- shortcut stage 1: 16-byte literal copy
    let m ← cpy m r.di si 16
    let di := r.di + cx
    let si := si + cx
    let cx := tok % 16
    let lo ← ld8 m si
    let hi ← ld8 m (si+1)
    let dx := lo + 256 * hi
    if dx == 0 then return .done errCorrupt m
    let (si, c) := add64 si 2
    if c then return .done errShortBuf m
    let (ax, c) := sub64 di dx
    if c then return .done errCorrupt m
    if ax > di then return .done errShortBuf m
    let r := {r with di := di, si := si}
    if cx == 15 then matchLenLoopPre m r cx dx
    else if dx < 8 then matchLenLoopPre m r cx dx
    else if ax < r.r11 then matchLenLoopPre m r cx dx
    else do
      -- shortcut stage 2: 18-byte match copy
      let m ← cpy m di ax 8
      let m ← cpy m (di+8) (ax+8) 8
      let m ← cpy m (di+16) (ax+16) 2
      pure (loopcheck m {r with di := di + 4 + cx} cx)

def run (m : Mem) (r : R) : (fuel : Nat) → X (Int × Mem)
  | 0 => throw "fuel"
  | fuel+1 => do
    match ← iter m r with
    | .done ret m => pure (ret, m)
    | .cont m r => run m r fuel

/-- `TEXT ·decodeBlock` prologue + loop -/
def decodeBlock (m : Mem) : X (Int × Mem) := do
  if m.src.size == 0 then return (errCorrupt, m)
  let r8 := m.dstBase + m.dstLen
  let r9 := m.srcBase + m.src.size
  let r : R := { di := m.dstBase, si := m.srcBase, r8 := r8, r9 := r9, r11 := m.dstBase,
                 r12 := (sub64 r8 32).1, r13 := (sub64 r9 16).1, r14 := m.dictBase, r15 := m.dict.size }
  run m r (m.src.size + 1)

end Lz4V.Model.DecodeAsm
