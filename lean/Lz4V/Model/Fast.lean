import Lz4V.Model.Emit
/-!
# Model.Fast — model of `(*Compressor).CompressBlock` (internal/lz4block/block.go)

The hash table (`table [htSize]uint16` + `inUse` bitmap) is an
`Array (Option Nat)`: `some v` when the in-use bit is set, `v` the stored
16-bit value.  The first statement of the Go function is `c.reset()`, which
clears every in-use bit, so the result does not depend on the prior state of
the compressor object: `compressBlock` starts from the all-`none` table, and
`compressBlockFrom` (no reset) is what a compressor *without* that statement
would compute — the correspondence drives one Go object across many inputs, so
a missing reset shows as a difference.
-/
namespace Lz4V.Model.Fast
open Lz4V.Go Lz4V.Gen Lz4V.Model.Emit

abbrev Table := Array (Option Nat)

@[inline] def hashIdx (x : UInt64) : Nat := (blockHash x).toNat % htSize

/-- `(*Compressor).get` -/
def get (t : Table) (h : Nat) (si : Nat) : Int :=
  let i : Nat := match t[h]! with | some v => v | none => 0
  let i : Int := (i : Int) + ((si - si % winSize : Nat) : Int)
  if i ≥ (si : Int) then i - winSize else i

/-- `(*Compressor).put` -/
def put (t : Table) (h : Nat) (si : Nat) : Table := t.set! h (some (si % 65536))

/-- backward extension: `for lLen > 0 && tOff >= 0 && src[si-1] == src[tOff]`; returns the
number of steps taken. `k` = steps so far. -/
def backExt (src : Array UInt8) (si off : Nat) : (lLen : Nat) → (k : Nat) → Nat
  | 0, k => k
  | lLen+1, k =>
    if si - k ≥ off + 1 ∧ src[si - k - 1]! = src[si - k - off - 1]! then backExt src si off lLen (k+1) else k

/-- forward extension by batches of 8 bytes: `for si+8 <= sn { … }`; returns the new si -/
def fwdExt (src : Array UInt8) (off sn : Nat) : (fuel : Nat) → (si : Nat) → Nat
  | 0, si => si
  | fuel+1, si =>
    if si + 8 ≤ sn then
      let x := le64 src si ^^^ le64 src (si - off)
      if x = 0 then fwdExt src off sn fuel (si + 8) else si + tzBytes x
    else si

/-- result of the three-probe search at `si`: `none` = no match (with the updated table and the
next `si`), `some (si', offset)` = match found at `si'` -/
def probe (src : Array UInt8) (t : Table) (si anchor : Nat) : Option (Table × Option (Nat × Nat) × Nat) :=
  let m := le64 src si
  let h := hashIdx m
  let h2 := hashIdx (m >>> 8)
  let ref := get t h si
  let ref2 := get t h2 (si+1)
  let t := put t h si
  let t := put t h2 (si+1)
  let offset : Int := (si : Int) - ref
  -- `src[ref:]` with a negative ref would panic
  if ¬ (offset ≤ 0 ∨ offset ≥ winSize) ∧ ref < 0 then none else
  if offset ≤ 0 ∨ offset ≥ winSize ∨ (m &&& 0xFFFFFFFF) != le32 src ref.toNat then
    let h3 := hashIdx (m >>> 16)
    let ref3 := get t h3 (si+2)
    let si := si + 1
    let offset : Int := (si : Int) - ref2
    if ¬ (offset ≤ 0 ∨ offset ≥ winSize) ∧ ref2 < 0 then none else
    if offset ≤ 0 ∨ offset ≥ winSize ∨ ((m >>> 8) &&& 0xFFFFFFFF) != le32 src ref2.toNat then
      let si := si + 1
      let offset : Int := (si : Int) - ref3
      let t := put t h3 si
      if ¬ (offset ≤ 0 ∨ offset ≥ winSize) ∧ ref3 < 0 then none else
      if offset ≤ 0 ∨ offset ≥ winSize ∨ ((m >>> 16) &&& 0xFFFFFFFF) != le32 src ref3.toNat then
        some (t, none, si + 2 + (si - anchor) / 2 ^ adaptSkipLogFast)
      else some (t, some (si, offset.toNat), si)
    else some (t, some (si, offset.toNat), si)
  else some (t, some (si, offset.toNat), si)

/-- the main loop `for si < sn` -/
def mainLoop (src : Array UInt8) (sn : Nat) (notComp : Bool) :
    (fuel : Nat) → (t : Table) → (dst : Array UInt8) → (di si anchor : Nat) → Ret
  | 0, _, _, _, _, _ => .panic
  | fuel+1, t, dst, di, si, anchor =>
    if si < sn then
      match probe src t si anchor with
      | none => .panic
      | some (t, none, si') => mainLoop src sn notComp fuel t dst di si' anchor
      | some (t, some (si, off), _) =>
        -- Match found.
        let lLen0 := si - anchor
        let back := backExt src si off lLen0 0
        let lLen := lLen0 - back
        let si := si - back
        let base := si + minMatch
        let si := fwdExt src off sn sn (si + (4 + back))
        let mLen := si - base
        match emitSeq src dst di anchor lLen off mLen with
        | none => .err
        | some (dst, di) =>
          if si ≥ sn then lastLiterals src dst di si notComp
          else
            let t := put t (hashIdx (le64 src (si - 2))) (si - 2)
            mainLoop src sn notComp fuel t dst di si si
    else lastLiterals src dst di anchor notComp

def bound (n : Nat) : Nat := (CompressBlockBound n).toNat

/-- `CompressBlock` without the initial `reset()`: from an arbitrary table -/
def compressBlockFrom (t : Table) (src dst : Array UInt8) : Ret :=
  let notComp := dst.size < bound src.size
  if src.size ≤ mfLimit then lastLiterals src dst 0 0 notComp
  else mainLoop src (src.size - mfLimit) notComp (src.size + 1) t dst 0 0 0

def emptyTable : Table := Array.replicate htSize none

/-- `(*Compressor).CompressBlock(src, dst)` -/
def compressBlock (src dst : Array UInt8) : Ret := compressBlockFrom emptyTable src dst

end Lz4V.Model.Fast
