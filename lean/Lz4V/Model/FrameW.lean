import Lz4V.Go.IO
import Lz4V.Model.XXH
import Lz4V.Model.Fast
import Lz4V.Model.HC
/-!
# Model.FrameW — the write side: options, `Frame.InitW/CloseW`, `FrameDescriptor.Write`,
`FrameDataBlock.Compress/Write`, and the `Writer` object (`writer.go`) with its `_State`.

The descriptor flags are the Go `DescriptorFlags` bit-field (a `UInt16`), manipulated with the
regenerated getters (`Gen.flag…`); setters are the obvious bit operations.  The sink is a scripted
`io.Writer` (`Go.Sink`).  `num` is the concurrency level: with `num > 1` compression happens in
goroutines and a sink failure is not returned by `Write`/`Flush` but by `Close`
(`Blocks.err`); the bytes handed to the sink and their order are the same (C08 refinement), so one
model serves both and the flag only changes where errors surface.
-/
namespace Lz4V.Model.FrameW
open Lz4V.Go Lz4V.Gen Lz4V.Model

/-! ## descriptor flags (frame_gen.go) -/
abbrev Flags := UInt16
def setBit (x : Flags) (bit : Nat) (v : Bool) : Flags :=
  let b : UInt16 := (1 : UInt16) <<< bit.toUInt16
  if v then (x &&& ~~~b) ||| b else x &&& ~~~b
def contentChecksumSet (x : Flags) (v : Bool) := setBit x 2 v
def sizeSet (x : Flags) (v : Bool) := setBit x 3 v
def blockChecksumSet (x : Flags) (v : Bool) := setBit x 4 v
def blockIndependenceSet (x : Flags) (v : Bool) := setBit x 5 v
def versionSet (x : Flags) (v : UInt16) : Flags := (x &&& ~~~((3 : UInt16) <<< 6)) ||| ((v &&& 3) <<< 6)
def blockSizeIndexSet (x : Flags) (v : UInt16) : Flags := (x &&& ~~~((7 : UInt16) <<< 12)) ||| ((v &&& 7) <<< 12)
def blockSizeIndex (x : Flags) : Nat := ((x >>> 12) &&& 7).toNat

/-- `lz4block.Index` -/
def indexOf (b : Nat) : Nat :=
  if b = Block64Kb then 4 else if b = Block256Kb then 5 else if b = Block1Mb then 6
  else if b = Block4Mb then 7 else if b = Block8Mb then 3 else 0

/-- size of the pooled buffer `BlockSizeIndex.Get()` returns -/
def poolSize (idx : Nat) : Nat :=
  match idx with
  | 4 => Block64Kb | 5 => Block256Kb | 6 => Block1Mb | 7 => Block4Mb | 3 => Block8Mb | _ => 0

def le32 (x : Nat) : Array UInt8 :=
  #[(x % 256).toUInt8, (x / 256 % 256).toUInt8, (x / 65536 % 256).toUInt8, (x / 16777216 % 256).toUInt8]
def le64 (x : Nat) : Array UInt8 := le32 (x % 4294967296) ++ le32 (x / 4294967296)

/-- `lz4block.CompressBlock` / `CompressBlockHC` as called by `FrameDataBlock.Compress`:
returns `n` and the compressed bytes; errors are ignored by the caller (`n, _ =`) -/
def compressBlock (src : Array UInt8) (dstLen : Nat) (level : Nat) : Option (Array UInt8) :=
  let dst := Array.replicate dstLen 0
  let r := if level = 0 then Fast.compressBlock src dst else HC.compressBlock src dst level
  match r with
  | .ok n d => some (d.extract 0 n)
  | _ => none

/-- persistent configuration of a Writer (survives Reset) -/
structure Cfg where
  flags : Flags := 0
  contentSize : Nat := 0       -- uint64
  level : Nat := 0
  num : Nat := 1
  legacy : Bool := false
deriving Repr

/-- `FrameDataBlock.Compress` + `FrameDataBlock.Write` for one block: returns the sink, the
content-checksum state and the error of the first failing sink write -/
def writeBlock (cfg : Cfg) (isLegacy : Bool) (cks : XXH.State) (sink : Sink) (src : Array UInt8) :
    Sink × XXH.State × Option Err :=
  -- Compress
  let idx := blockSizeIndex cfg.flags
  let dstLen := if isLegacy then poolSize idx else min src.size (poolSize idx)
  let (raw, data) := match compressBlock src dstLen cfg.level with
    | some d => (false, d)
    | none =>
      -- legacy frames cannot store a block uncompressed: retry with room for the worst case
      if isLegacy then
        match compressBlock src (Fast.bound src.size) cfg.level with
        | some d => (false, d)
        | none => (true, src)
      else (true, src)
  let sizeWord := data.size % 2147483648 + (if raw then 2147483648 else 0)
  let bck := if flagBlockChecksum cfg.flags then (XXH.checksumZero data.toList).toNat else 0
  -- Write
  let cks := if flagContentChecksum cfg.flags then XXH.write cks src.toList else cks
  let (sink, e) := sink.write (le32 sizeWord)
  match e with
  | some e => (sink, cks, some e)
  | none =>
  let (sink, e) := sink.write data
  match e with
  | some e => (sink, cks, some e)
  | none =>
  if isLegacy ∨ ¬ flagBlockChecksum cfg.flags then (sink, cks, none) else
  let (sink, e) := sink.write (le32 bck)
  (sink, cks, e)

/-- `_State` + the mutable part of the Writer -/
structure W where
  cfg : Cfg
  st : Nat := stNew                 -- aState
  err : Option Err := none          -- _State.err (the error class it wraps)
  flags : Flags := 0                -- frame.Descriptor.Flags lives in cfg.flags; kept equal
  magicLegacy : Bool := false       -- f.Magic == frameMagicLegacy (set by InitW)
  pending : Array UInt8 := #[]      -- w.data[:w.idx]
  bufSize : Nat := 0                -- len(w.data)
  cks : XXH.State := XXH.zero
  deferred : Option Err := none     -- Blocks.err (concurrent mode)
  savedIdx : Nat := 0               -- Frame.savedBlockSizeIndex: the configured index hidden by a legacy frame (0 = none)
  sink : Sink := {}

def writerStates (s : Nat) : Nat :=
  if s = stNo then stNew else if s = stNew then stWrite else if s = stWrite then stClosed
  else if s = stClosed then stNew else if s = stError then stNew else s

/-- `_State.next(err)` -/
def next (w : W) (e : Option Err) : W × Bool :=
  match e with
  | some e => ({ w with st := stError, err := some e }, true)
  | none => ({ w with st := writerStates w.st }, false)

/-- `_State.check(&err)` (deferred) -/
def check (w : W) (e : Option Err) : W :=
  if w.st = stError then w else
  match e with
  | none => w
  | some e => if e = .eof then { w with err := some e } else { w with st := stError, err := some e }

/-- `Writer.init` = `Frame.InitW` + buffer + `FrameDescriptor.Write` -/
def init (w : W) : W × Option Err :=
  let cfg := w.cfg
  let flags := if cfg.legacy then blockSizeIndexSet cfg.flags (indexOf Block8Mb).toUInt16
               else blockIndependenceSet (versionSet cfg.flags 1) true
  let cfg := { cfg with flags := flags }
  let hdr : Array UInt8 :=
    if cfg.legacy then le32 frameMagicLegacy
    else
      let d : Array UInt8 := #[(flags.toNat % 256).toUInt8, (flags.toNat / 256).toUInt8] ++
        (if flagSize flags then le64 cfg.contentSize else #[])
      le32 frameMagic ++ d ++ #[((XXH.checksumZero d.toList).toNat / 256 % 256).toUInt8]
  let (sink, e) := w.sink.write hdr
  -- InitW (legacy): remember the configured block size index before imposing the 8 MiB one
  let saved := if cfg.legacy ∧ blockSizeIndex w.cfg.flags ≠ indexOf Block8Mb then blockSizeIndex w.cfg.flags else w.savedIdx
  ({ w with cfg := cfg, magicLegacy := cfg.legacy, pending := #[], bufSize := poolSize (blockSizeIndex flags),
            cks := XXH.reset w.cks, deferred := none, savedIdx := saved, sink := sink }, e)

/-- `Writer.write(data)` : one block through compress + sink -/
def writeOne (w : W) (data : Array UInt8) : W × Option Err :=
  if w.cfg.num = 1 then
    let (sink, cks, e) := writeBlock w.cfg w.magicLegacy w.cks w.sink data
    ({ w with sink := sink, cks := cks }, e)
  else
    -- concurrent: the ordering goroutine writes blocks in order until the first error, which it keeps
    match w.deferred with
    | some _ => (w, none)
    | none =>
      let (sink, cks, e) := writeBlock w.cfg w.magicLegacy w.cks w.sink data
      ({ w with sink := sink, cks := cks, deferred := e }, none)

/-- the `for len(buf) > 0` loop of `Writer.Write`; returns bytes consumed -/
def writeLoop (w : W) (buf : Array UInt8) (off n : Nat) : (fuel : Nat) → W × Nat × Option Err
  | 0 => (w, n, none)
  | fuel+1 =>
    if off ≥ buf.size then (w, n, none) else
    let zn := w.bufSize
    if w.cfg.num = 1 ∧ w.pending.size = 0 ∧ buf.size - off ≥ zn then
      let (w, e) := writeOne w (buf.extract off (off + zn))
      match e with
      | some e => (w, n, some e)
      | none => writeLoop w buf (off + zn) (n + zn) fuel
    else
      let m := min (zn - w.pending.size) (buf.size - off)
      let w := { w with pending := w.pending ++ buf.extract off (off + m) }
      let n := n + m
      let off := off + m
      if w.pending.size < zn then (w, n, none) else
      let (w, e) := writeOne w w.pending
      match e with
      | some e => (w, n, some e)
      | none => writeLoop { w with pending := #[] } buf off n fuel

/-- `Writer.Write(buf)` -/
def write (w : W) (buf : Array UInt8) : W × Nat × Option Err :=
  let go (w : W) : W × Nat × Option Err :=
    let (w, n, e) := writeLoop w buf 0 0 (buf.size + 2)
    (check w e, n, e)
  if w.st = stWrite then go w
  else if w.st = stClosed then (check w (some .closedPipe), 0, some .closedPipe)
  else if w.st = stError then (w, 0, w.err)
  else if w.st = stNew then
    let (w, e) := init w
    let (w, bad) := next w e
    if bad then (check w e, 0, e) else go w
  else ({ w with st := stError, err := some .unhandledState }, 0, some .unhandledState)

/-- `Writer.Flush()` -/
def flush (w : W) : W × Option Err :=
  let go (w : W) : W × Option Err :=
    if w.pending.size > 0 then
      let (w, e) := writeOne w w.pending
      match e with
      | some e => (w, some e)
      | none => ({ w with pending := #[] }, none)
    else (w, none)
  if w.st = stWrite then go w
  else if w.st = stError then (w, w.err)
  else if w.st = stNew then
    let (w, e) := init w
    let (w, bad) := next w e
    if bad then (w, e) else go w
  else (w, none)

/-- `Frame.CloseW` -/
def closeW (w : W) : W × Option Err :=
  -- Blocks.close: returns (and clears) the deferred error
  match w.deferred with
  | some e => ({ w with deferred := none }, some e)
  | none =>
  if w.magicLegacy then (w, none) else
  let tail := le32 0 ++ (if flagContentChecksum w.cfg.flags then le32 (XXH.sum32 w.cks).toNat else #[])
  let (sink, e) := w.sink.write tail
  ({ w with sink := sink }, e)

/-- `Writer.Close()` -/
def close (w : W) : W × Option Err :=
  if w.st = stClosed then (w, none) else
  let (w, e) := flush w
  match e with
  | some e => (w, some e)
  | none =>
    let (w, e) := closeW w
    let w := { w with pending := #[], bufSize := 0 }
    let (w, _) := next w e
    (w, e)

/-- `Writer.Reset(w')`: the frame is reset (`Frame.Reset`), the state machine restarts; options stay -/
def reset (w : W) (failAt : Option Nat) : W :=
  -- Frame.Reset restores the block size index that a legacy frame had replaced
  let cfg := if w.savedIdx ≠ 0 then { w.cfg with flags := blockSizeIndexSet w.cfg.flags w.savedIdx.toUInt16 } else w.cfg
  { w with cfg := cfg, savedIdx := 0, st := stNew, err := none, deferred := none, sink := { failAt := failAt } }

/-- `Writer.ReadFrom(r)` -/
def readFrom (w : W) (src : Source) : W × Source × Nat × Option Err :=
  let go (w : W) : W × Source × Nat × Option Err :=
    let size := poolSize (blockSizeIndex w.cfg.flags)
    let rec loop (w : W) (src : Source) (n : Nat) : Nat → W × Source × Nat × Option Err
      | 0 => (w, src, n, none)
      | fuel+1 =>
        let (src, got, e) := readFull src size
        let done := e = some .eof ∨ e = some .unexpectedEOF
        if e.isSome ∧ ¬ done then (w, src, n, e) else
        let n := n + got.size
        let (w, we) := writeOne w got
        match we with
        | some we => (w, src, n, some we)
        | none => if done then (w, src, n, none) else loop w src n fuel
    let (w, src, n, e) := loop w src 0 (src.data.size / (max size 1) + 3)
    (check w e, src, n, e)
  if w.st = stClosed then (w, src, 0, some .closedPipe)
  else if w.st = stError then (w, src, 0, w.err)
  else if w.st = stNew then
    let (w, e) := init w
    let (w, bad) := next w e
    if bad then (w, src, 0, e) else go w
  else ({ w with st := stError, err := some .unhandledState }, src, 0, some .unhandledState)

/-! ## options (options.go) -/
inductive Opt where
  | blockSize (n : Nat) | blockChecksum (b : Bool) | checksum (b : Bool) | size (n : Nat)
  | concurrency (n : Nat) | level (n : Nat) | legacy (b : Bool)
deriving Repr

def validLevel (n : Nat) : Bool :=
  n = lvlFast ∨ n = lvl1 ∨ n = lvl2 ∨ n = lvl3 ∨ n = lvl4 ∨ n = lvl5 ∨ n = lvl6 ∨ n = lvl7 ∨ n = lvl8 ∨ n = lvl9

def applyOne (c : Cfg) : Opt → Except Err Cfg
  | .blockSize n =>
    -- `lz4block.Index(size).IsValid()`: the four sizes of the frame format (8 MiB is legacy-only)
    if indexOf n = 4 ∨ indexOf n = 5 ∨ indexOf n = 6 ∨ indexOf n = 7 then
      .ok { c with flags := blockSizeIndexSet c.flags (indexOf n).toUInt16 } else .error .badBlockSize
  | .blockChecksum b => .ok { c with flags := blockChecksumSet c.flags b }
  | .checksum b => .ok { c with flags := contentChecksumSet c.flags b }
  | .size n => .ok { c with flags := sizeSet c.flags (n > 0), contentSize := n }
  | .concurrency n => .ok { c with num := n }
  | .level n => if validLevel n then .ok { c with level := n } else .error .badLevel
  | .legacy b => .ok { c with legacy := b }

/-- `Writer.Apply(options...)`: options are applied in order until the first failure (the earlier
ones stay applied); only allowed in the new state -/
def apply (w : W) (opts : List Opt) : W × Option Err :=
  if w.st = stError then (w, w.err)
  else if w.st ≠ stNew then (check w (some .closedOrError), some .closedOrError)
  else
    let w := reset w w.sink.failAt   -- `w.Reset(w.src)`
    let rec go (c : Cfg) : List Opt → Cfg × Option Err
      | [] => (c, none)
      | o :: os => match applyOne c o with
        | .ok c' => go c' os
        | .error e => (c, some e)
    let (c, e) := go w.cfg opts
    let w := { w with cfg := c }
    (check w e, e)

/-- `NewWriter`: default options (4 MiB blocks, content checksum, concurrency 1) -/
def new (failAt : Option Nat) : W :=
  let c : Cfg := { flags := contentChecksumSet (blockSizeIndexSet 0 (indexOf Block4Mb).toUInt16) true, num := 1 }
  { cfg := c, sink := { failAt := failAt } }

end Lz4V.Model.FrameW
