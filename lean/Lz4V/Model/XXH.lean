import Lz4V.Gen.Leaf
/-!
# Model.XXH — model of internal/xxh32/xxh32zero.go

`checksumZeroGo`, `XXHZero.{Reset,Write,Sum32,Sum}` and `updateGo`, statement
by statement.  Go `uint32`/`uint64` arithmetic is `UInt32`/`UInt64`
(wrap-around).  The 16-byte array `buf` is modelled by the list of its first
`bufused` bytes (the stale bytes beyond `bufused` are never read by the code).
All constants and the `rolN` functions come from `Lz4V.Gen` (regenerated from
the Go source on every run).
-/
namespace Lz4V.Model.XXH
open Lz4V.Gen

abbrev Bytes := List UInt8

def p1 : UInt32 := prime1.toUInt32
def p2 : UInt32 := prime2.toUInt32
def p3 : UInt32 := prime3.toUInt32
def p4 : UInt32 := prime4.toUInt32
def p5 : UInt32 := prime5.toUInt32

/-- `binary.LittleEndian.Uint32` on four bytes. -/
@[inline] def le32 (a b c d : UInt8) : UInt32 :=
  a.toUInt32 ||| (b.toUInt32 <<< 8) ||| (c.toUInt32 <<< 16) ||| (d.toUInt32 <<< 24)

/-- `v = rol13(v + x*prime2) * prime1` -/
@[inline] def rnd (v x : UInt32) : UInt32 := rol13 (v + x * p2) * p1

structure V4 where
  v1 : UInt32
  v2 : UInt32
  v3 : UInt32
  v4 : UInt32
deriving DecidableEq, Repr

/-- the `for ; len(input) >= 16; input = input[16:]` loop of `updateGo`
    (also the `for n := n-16; p <= n; p += 16` loop of `checksumZeroGo`):
    returns the lanes and the unconsumed rest. -/
def stripeLoop : V4 → Bytes → V4 × Bytes
  | ⟨v1, v2, v3, v4⟩,
    a0::a1::a2::a3::b0::b1::b2::b3::c0::c1::c2::c3::d0::d1::d2::d3::rest =>
      stripeLoop ⟨rnd v1 (le32 a0 a1 a2 a3), rnd v2 (le32 b0 b1 b2 b3),
                  rnd v3 (le32 c0 c1 c2 c3), rnd v4 (le32 d0 d1 d2 d3)⟩ rest
  | v, rest => (v, rest)

/-- the two tail loops shared by `Sum32` and `checksumZeroGo`:
    4 bytes at a time with prime3/rol17/prime4, then single bytes with prime5/rol11/prime1 -/
def tailLoop : UInt32 → Bytes → UInt32
  | h, a::b::c::d::rest => tailLoop (rol17 (h + le32 a b c d * p3) * p4) rest
  | h, rest => rest.foldl (fun h x => rol11 (h + x.toUInt32 * p5) * p1) h

def finalMix (h32 : UInt32) : UInt32 :=
  let h32 := h32 ^^^ (h32 >>> 15)
  let h32 := h32 * p2
  let h32 := h32 ^^^ (h32 >>> 13)
  let h32 := h32 * p3
  h32 ^^^ (h32 >>> 16)

def initV : V4 := ⟨prime1plus2.toUInt32, p2, 0, prime1minus.toUInt32⟩

/-- `checksumZeroGo(input)`; `n := len(input)` is a Go `int` (unbounded here), `h32 := uint32(n)`. -/
def checksumZero (input : Bytes) : UInt32 :=
  let n := input.length
  let h32 : UInt32 := n.toUInt32
  if n < 16 then
    finalMix (tailLoop (h32 + p5) input)
  else
    let r := stripeLoop initV input
    let v := r.1
    finalMix (tailLoop (h32 + (rol1 v.v1 + rol7 v.v2 + rol12 v.v3 + rol18 v.v4)) r.2)

/-- `XXHZero` -/
structure State where
  v : V4
  totalLen : UInt64
  buf : Bytes          -- buf[0:bufused]
deriving DecidableEq, Repr

/-- the Go zero value -/
def zero : State := ⟨⟨0, 0, 0, 0⟩, 0, []⟩

def reset (s : State) : State := { s with v := initV, totalLen := 0, buf := [] }

/-- `(*XXHZero).Write` -/
def write (s : State) (input : Bytes) : State :=
  let s := if s.totalLen == 0 then reset s else s
  let n := input.length
  let m := s.buf.length
  let s := { s with totalLen := s.totalLen + n.toUInt64 }
  let r := 16 - m
  if n < r then
    { s with buf := s.buf ++ input }
  else
    -- if m != 0 the buffer is completed to 16 bytes and consumed as one stripe
    let c := if m != 0 then r else 0
    let v := if m != 0 then (stripeLoop s.v (s.buf ++ input.take c)).1 else s.v
    let input := input.drop c
    let res := stripeLoop v input
    -- bufused = copy(buf, input[n-n%16:])
    { s with v := res.1, buf := input.drop (input.length - input.length % 16) }

/-- `(*XXHZero).Sum32`.  `wide` is the Go condition selecting the four-lane
    formula; regenerated as `Gen.sum32Wide`. -/
def sum32 (s : State) : UInt32 :=
  let h32 : UInt32 := s.totalLen.toUInt32
  let h32 := if s.totalLen ≥ 16 then
      h32 + (rol1 s.v.v1 + rol7 s.v.v2 + rol12 s.v.v3 + rol18 s.v.v4)
    else h32 + p5
  finalMix (tailLoop h32 s.buf)

end Lz4V.Model.XXH
