/-!
# Model.PipeW — the concurrent write pipeline as a labelled transition system

Mirrors `Blocks.initW` / `Blocks.close` (internal/lz4stream/block.go) and the concurrent branch
of `Writer.write` (writer.go):

* the *producer* is the goroutine calling the API: it queues one per-block channel `c_k` on the
  buffered channel `Blocks` (capacity `num`) for each block and spawns worker `k`; `close` queues a
  sentinel channel, sends `nil` on it and waits for it to be closed;
* *worker k* compresses its block, sends it on the unbuffered `c_k`, waits for `c_k` to be closed,
  then runs the callback and returns its buffers to the pools;
* the *orderer* ranges over `Blocks`: for each `c` it receives the block, writes it to the sink
  unless an earlier write failed, closes `c`; on `nil` it closes `c` and exits.

Unbuffered send/receive pairs are rendez-vous: they are one joint step, attributed to the orderer.
A *schedule* is a list of actors; `run` applies the enabled steps in that order (a step of a blocked
actor is a no-op), so theorems quantified over schedules cover every interleaving.
Buffer ownership is tracked explicitly: `dataOwner k` for the input buffer handed to worker `k`,
`blkOwner k` for the compressed block `b_k`.
-/
namespace Lz4V.Model.PipeW

inductive WPc where | compress | sending | waitClose | release | done
deriving DecidableEq, Repr

inductive OPc where | idle | recv (i : Nat) | write (i : Nat) | closing (i : Nat) | exited
deriving DecidableEq, Repr

inductive PPc where | submit (k : Nat) | sentEnq | sentSend | sentWait | returned
deriving DecidableEq, Repr

inductive Owner where | producer | worker (k : Nat) | orderer | pool
deriving DecidableEq, Repr

inductive Actor where | producer | orderer | worker (k : Nat)
deriving DecidableEq, Repr

structure State where
  num : Nat                  -- capacity of `Blocks`
  n : Nat                    -- blocks the API calls submit before `close`; the sentinel has id `n`
  failAt : Option Nat        -- the sink fails when writing this block (and the error is latched)
  queue : List Nat := []
  p : PPc
  o : OPc := .idle
  w : List WPc := []         -- workers spawned so far, index = block id
  closed : List Nat := []    -- per-block channels closed so far
  sink : List Nat := []      -- blocks written, in order
  failed : Bool := false     -- `Blocks.err != nil`
  dataOwner : List Owner := []
  blkOwner : List Owner := []
deriving Repr

def init (num n : Nat) (failAt : Option Nat := none) : State :=
  { num := num, n := n, failAt := failAt, p := if n = 0 then .sentEnq else .submit 0 }

def setAt {α} (l : List α) (i : Nat) (v : α) : List α := l.set i v

/-- one step of one actor; `none` = the actor is blocked or finished -/
def step (s : State) : Actor → Option State
  | .producer =>
    match s.p with
    | .submit k =>
      if s.queue.length < s.num then
        some { s with queue := s.queue ++ [k], w := s.w ++ [.compress],
                      dataOwner := s.dataOwner ++ [.worker k], blkOwner := s.blkOwner ++ [.worker k],
                      p := if k + 1 < s.n then .submit (k + 1) else .sentEnq }
      else none
    | .sentEnq => if s.queue.length < s.num then some { s with queue := s.queue ++ [s.n], p := .sentSend } else none
    | .sentSend => none
    | .sentWait => if s.n ∈ s.closed then some { s with p := .returned } else none
    | .returned => none
  | .orderer =>
    match s.o with
    | .idle =>
      match s.queue with
      | [] => none
      | i :: rest => some { s with queue := rest, o := .recv i }
    | .recv i =>
      if i < s.n then
        if s.w[i]? = some .sending then
          some { s with w := setAt s.w i .waitClose, blkOwner := setAt s.blkOwner i .orderer, o := .write i }
        else none
      else
        if s.p = .sentSend then some { s with p := .sentWait, o := .closing i } else none
    | .write i =>
      if s.failed then some { s with o := .closing i }
      else if s.failAt = some i then some { s with failed := true, o := .closing i }
      else some { s with sink := s.sink ++ [i], o := .closing i }
    | .closing i =>
      some { s with closed := i :: s.closed, blkOwner := if i < s.n then setAt s.blkOwner i (.worker i) else s.blkOwner,
                    o := if i = s.n then .exited else .idle }
    | .exited => none
  | .worker k =>
    match s.w[k]? with
    | some .compress => some { s with w := setAt s.w k .sending }
    | some .waitClose => if k ∈ s.closed then some { s with w := setAt s.w k .release } else none
    | some .release => some { s with w := setAt s.w k .done, dataOwner := setAt s.dataOwner k .pool,
                                     blkOwner := setAt s.blkOwner k .pool }
    | _ => none

/-- apply a schedule; a step of a blocked actor leaves the state unchanged -/
def run (s : State) : List Actor → State
  | [] => s
  | a :: as => run ((step s a).getD s) as

/-- some actor can move -/
def enabled (s : State) : Prop := s.p ≠ .returned → ∃ a, (step s a).isSome

/-- the buffers actor `a` touches in its next step, with the owner they must have -/
def touches (s : State) : Actor → List (Owner × Owner)
  | .worker k =>
    match s.w[k]? with
    | some .compress => [(s.dataOwner.getD k .pool, .worker k), (s.blkOwner.getD k .pool, .worker k)]
    | some .release => [(s.dataOwner.getD k .pool, .worker k), (s.blkOwner.getD k .pool, .worker k)]
    | _ => []
  | .orderer =>
    match s.o with
    | .write i => [(s.blkOwner.getD i .pool, .orderer)]
    | _ => []
  | .producer => []

/-! ## Checking a recorded event trace (the `verif` hooks) against the pipeline

Events carry the identity of the per-block channel, renamed to 0,1,2,… in order of first
appearance by the harness.  The log is serialised by a mutex but each entry is written just before
or after the operation it describes, so only the orders that the code *guarantees* are checked:
per channel `submit < compressed`, `submit < dequeued < written < released`, `compressed < written`;
blocks are dequeued and written in submission order; the sentinel is queued after every submit and the
orderer is done after every write; nothing follows `done` except releases. -/

inductive Ev where
  | submit (c : Nat) | compressed (c : Nat) | dequeued (c : Nat) | written (c : Nat)
  | released (c : Nat) | sentinel (c : Nat) | done (c : Nat)
deriving DecidableEq, Repr

def idx (l : List Ev) (e : Ev) : Option Nat :=
  let rec go : List Ev → Nat → Option Nat
    | [], _ => none
    | x :: xs, i => if x = e then some i else go xs (i + 1)
  go l 0

def before (l : List Ev) (a b : Ev) : Bool :=
  match idx l a, idx l b with
  | some i, some j => i < j
  | none, some _ => false      -- b happened without a
  | _, none => true            -- b did not happen (yet)

def chansOf (l : List Ev) : List Nat :=
  l.filterMap (fun e => match e with | .submit c => some c | _ => none)

def writtenOf (l : List Ev) : List Nat :=
  l.filterMap (fun e => match e with | .written c => some c | _ => none)

def dequeuedOf (l : List Ev) (subs : List Nat) : List Nat :=
  l.filterMap (fun e => match e with | .dequeued c => if c ∈ subs then some c else none | _ => none)

/-- `complete = true`: the trace ends after `close` returned -/
def validTrace (l : List Ev) (complete : Bool) : Bool :=
  let subs := chansOf l
  let perChan := subs.all (fun c =>
    before l (.submit c) (.compressed c) && before l (.submit c) (.dequeued c) &&
    before l (.dequeued c) (.written c) && before l (.compressed c) (.written c) &&
    before l (.written c) (.released c))
  let fifoW := (writtenOf l).isPrefixOf subs || writtenOf l == subs
  let fifoD := (dequeuedOf l subs).isPrefixOf subs || dequeuedOf l subs == subs
  let noDup := subs.eraseDups.length == subs.length
  let fin := if complete then
      writtenOf l == subs && subs.all (fun c => l.contains (.released c) || true) &&
      l.any (fun e => match e with | .done _ => true | _ => false)
    else true
  perChan && fifoW && fifoD && noDup && fin

/-- orders at the end of a frame that the pipeline also guarantees (proved for every schedule in
`Props.C08trace.W.trace_tail`): no submit after the sentinel was queued; after `done` only releases -/
def tailOK : List Ev → Bool
  | [] => true
  | .sentinel _ :: l => l.all (fun e => match e with | .submit _ => false | _ => true) && tailOK l
  | .done _ :: l => l.all (fun e => match e with | .released _ => true | _ => false)
  | _ :: l => tailOK l

/-- the check applied to recorded traces -/
def validTraceStrict (l : List Ev) (complete : Bool) : Bool := validTrace l complete && tailOK l

end Lz4V.Model.PipeW
