import Lz4V.Gen.Consts
import Lz4V.Go.Slice
/-!
# Model.DecodeGo — model of `decodeBlock` in internal/lz4block/decode_other.go

Statement by statement.  `dst` and `src` have their capacities clipped at entry
(`dst = dst[:len(dst):len(dst)]`), so each is an `Array UInt8` whose size is the
Go `len`.  `si`, `di`, `lLen`, `mLen`, `offset` are Go `uint`s; they are `Nat`
here under the stated assumption that no length reaches 2^63 (the two
`int(x) < 0` tests of the Go code can then never fire and are omitted).
Every indexing or slicing that would panic in Go (and be turned into `hasError`
by the deferred `recover`) is an explicit `.err` here, carrying the destination
as it was when the panic occurred.
-/
namespace Lz4V.Model.DecodeGo
open Lz4V.Go Lz4V.Gen

inductive Res where
  | ok (di : Nat) (dst : Array UInt8)     -- `return int(di)`
  | err (dst : Array UInt8)               -- `return hasError` (explicitly or through recover)
deriving Repr

/-- `for { x := uint(src[si]); l += x; si++; if x != 0xFF { break } }`; `none` = index panic -/
def lenLoop (src : Array UInt8) (si acc : Nat) : Option (Nat × Nat) :=
  if h : si < src.size then
    let x := src[si].toNat
    if x = 255 then lenLoop src (si+1) (acc + 255) else some (acc + x, si + 1)
  else none
termination_by src.size - si

/-- the doubling copy `for n := offset; n <= lim; n *= 2 { copy(expanded[n:], expanded[:n]) }`
where `expanded = dst[base:]` and `lim = bytesToCopy+offset`.  The flag is `false` when a
slice expression panicked (`n > len(expanded)`); the array is the destination at that point. -/
def doubling (dst : Array UInt8) (base lim : Nat) (n : Nat) : (fuel : Nat) → Bool × Array UInt8
  | 0 => (false, dst)
  | fuel+1 =>
    if n ≤ lim then
      if base + n > dst.size then (false, dst) else
      -- copy(expanded[n:], expanded[:n]) copies min(n, len(expanded)-n) bytes
      let k := min n (dst.size - base - n)
      doubling (copyWithin dst (base + n) base k) base lim (2 * n) fuel
    else (true, dst)

/-- the part of one iteration after the literals: end test, offset, match. Returns the
continuation `(si, di, dst)` or a final result. -/
def matchPart (src dict dst : Array UInt8) (b si di : Nat) : Res ⊕ (Nat × Nat × Array UInt8) :=
  let mLen := b % 16
  if si = src.size ∧ mLen = 0 then .inl (.ok di dst)
  else if si ≥ src.size then .inl (.err dst)
  else
  -- offset := u16(src[si:])
  if si + 2 > src.size then .inl (.err dst) else
  let offset := le16 src si
  if offset = 0 then .inl (.err dst) else
  let si := si + 2
  let mLen := mLen + minMatch
  match (if mLen = minMatch + 15 then lenLoop src si mLen else some (mLen, si)) with
  | none => .inl (.err dst)
  | some (mLen, si) =>
  -- Copy the match.
  if di < offset then
    -- fromDict := dict[len(dict)+di-offset:]
    if dict.size + di < offset then .inl (.err dst) else
    let from_ := dict.size + di - offset
    -- n := copy(dst[di:di+mLen], fromDict)
    if di + mLen > dst.size then .inl (.err dst) else
    let n := min mLen (dict.size - from_)
    let dst := blit dst di dict from_ n
    let di := di + n
    let mLen := mLen - n
    if mLen = 0 then .inr (si, di, dst) else
    -- here di = offset
    matchTail dst si di offset mLen
  else matchTail dst si di offset mLen
where
  matchTail (dst : Array UInt8) (si di offset mLen : Nat) : Res ⊕ (Nat × Nat × Array UInt8) :=
    -- expanded := dst[di-offset:]
    if di > dst.size then .inl (.err dst) else
    let base := di - offset
    if mLen > offset then
      let bytesToCopy := offset * (mLen / offset)
      -- n doubles from offset ≥ 1, so it exceeds the limit within 64 iterations
      match doubling dst base (bytesToCopy + offset) offset 64 with
      | (false, dst) => .inl (.err dst)
      | (true, dst) =>
      let di := di + bytesToCopy
      let mLen := mLen - bytesToCopy
      -- di += copy(dst[di:di+mLen], expanded[:mLen])
      if di + mLen > dst.size then .inl (.err dst) else
      .inr (si, di + mLen, copyWithin dst di base mLen)
    else
      if di + mLen > dst.size then .inl (.err dst) else
      .inr (si, di + mLen, copyWithin dst di base mLen)

/-- one iteration of `for si < uint(len(src))` -/
def step (src dict dst : Array UInt8) (si di : Nat) : Res ⊕ (Nat × Nat × Array UInt8) :=
  let b := src[si]!.toNat
  let si := si + 1
  let lLen := b / 16
  if lLen > 0 then
    if lLen < 15 ∧ si + 16 < src.size then
      -- Shortcut 1: copy(dst[di:], src[si:si+16])
      if di > dst.size then .inl (.err dst) else
      let dst := blit dst di src si (min 16 (dst.size - di))
      let si := si + lLen
      let di := di + lLen
      let mLen := b % 16
      if mLen < 15 then
        -- Shortcut 2
        let mLen := mLen + 4
        let offset := le16 src si
        if mLen ≤ offset ∧ offset < di then
          let i := di - offset
          if i + 18 ≤ dst.size ∧ di + mLen ≤ dst.size then
            -- copy(dst[di:], dst[i:end])
            .inr (si + 2, di + mLen, copyWithin dst di i (min 18 (dst.size - di)))
          else matchPart src dict dst b si di
        else matchPart src dict dst b si di
      else matchPart src dict dst b si di
    else
      match (if lLen = 15 then lenLoop src si lLen else some (lLen, si)) with
      | none => .inl (.err dst)
      | some (lLen, si) =>
        -- copy(dst[di:di+lLen], src[si:si+lLen])
        if di + lLen > dst.size ∨ si + lLen > src.size then .inl (.err dst) else
        matchPart src dict (blit dst di src si lLen) b (si + lLen) (di + lLen)
  else matchPart src dict dst b si di

def loop (src dict : Array UInt8) : (fuel : Nat) → (dst : Array UInt8) → (si di : Nat) → Res
  | 0, dst, _, _ => .err dst
  | fuel+1, dst, si, di =>
    if si < src.size then
      match step src dict dst si di with
      | .inl r => r
      | .inr (si', di', dst') => loop src dict fuel dst' si' di'
    else .ok di dst

/-- `decodeBlock(dst, src, dict)`; every iteration consumes at least one source byte, so
`src.size + 1` iterations suffice. -/
def decodeBlock (dst src dict : Array UInt8) : Res :=
  if src.size = 0 then .err dst else loop src dict (src.size + 1) dst 0 0

end Lz4V.Model.DecodeGo
