import Lz4V.Model.FrameW
import Lz4V.Model.FrameR
/-!
# Model.Run — whole-session runners over the Writer / Reader models

These compose the per-call model functions into the sessions the property theorems quantify
over.  They add no behaviour of their own.
-/
namespace Lz4V.Model.Run
open Lz4V.Go Lz4V.Model

/-- `NewWriter(sink)`, `Apply(opts…)`, one `Write` per chunk, `Close`; the sink accepts everything.
Returns the Writer (its `sink` holds what was emitted) and the error of the first failing call. -/
def writeSession (opts : List FrameW.Opt) (chunks : List (Array UInt8)) : FrameW.W × Option Err :=
  let (w, e) := FrameW.apply (FrameW.new none) opts
  match e with
  | some e => (w, some e)
  | none =>
    let rec go (w : FrameW.W) : List (Array UInt8) → FrameW.W × Option Err
      | [] => FrameW.close w
      | c :: cs =>
        let (w, _, e) := FrameW.write w c
        match e with
        | some e => (w, some e)
        | none => go w cs
    go w chunks

/-- the bytes a clean `writeSession` hands to the sink -/
def writtenBytes (opts : List FrameW.Opt) (chunks : List (Array UInt8)) : Array UInt8 :=
  (writeSession opts chunks).1.sink.bytes

def concat (chunks : List (Array UInt8)) : Array UInt8 := chunks.foldl (· ++ ·) #[]

/-- `NewReader(bytes)` with concurrency `num`, then `WriteTo(sink)`: delivered bytes, result, bytes consumed -/
def readAll (bytes : Array UInt8) (num : Nat := 1) : Array UInt8 × Option Err × Nat :=
  let r : FrameR.R := { FrameR.new { data := bytes } with num := num }
  let (r, sink, _, e) := FrameR.writeTo r {}
  (sink.bytes, e, r.src.pos)

/-- `NewReader(bytes)`, then `Read` with the given buffer sizes: the bytes delivered by all calls,
the result of the last call that returned an error (or none), bytes consumed -/
def readWith (bytes : Array UInt8) (sizes : List Nat) (num : Nat := 1) : Array UInt8 × Option Err × Nat :=
  let r : FrameR.R := { FrameR.new { data := bytes } with num := num }
  let rec go (r : FrameR.R) (out : Array UInt8) : List Nat → Array UInt8 × Option Err × Nat
    | [] => (out, none, r.src.pos)
    | n :: ns =>
      let (r, got, e) := FrameR.read r n
      match e with
      | some e => (out ++ got, some e, r.src.pos)
      | none => go r (out ++ got) ns
  go r #[] sizes

end Lz4V.Model.Run
