import Lz4V.Go.IO
import Lz4V.Model.XXH
import Lz4V.Model.DecodeGo
import Lz4V.Model.FrameW
import Lz4V.Model.Fast
/-!
# Model.FrameR — the read side: `Frame.ParseHeaders`, `FrameDescriptor.initR`,
`FrameDataBlock.Read/Uncompress`, `Frame.CloseR`, and the `Reader` object (`reader.go`).

Sequential decoding (`num = 1`, and every frame with dependent blocks or legacy frames).
With `num > 1` and independent blocks the real Reader decodes in goroutines; by the
refinement argument of C08 it delivers the same bytes per call and the same final error, so
the same model is compared with it on those observables (not on source consumption, since the
pipeline reads ahead).

Block decoding is `Model.DecodeGo.decodeBlock` (the assembly decoder gives the same result:
C12 / C04).
-/
namespace Lz4V.Model.FrameR
open Lz4V.Go Lz4V.Gen Lz4V.Model Lz4V.Model.FrameW

def readerStates (s : Nat) : Nat :=
  if s = stNo then stNew else if s = stError then stNew else if s = stNew then stRead
  else if s = stRead then stClosed else if s = stClosed then stNew else s

structure R where
  st : Nat := stNew
  err : Option Err := none
  num : Nat := 1
  src : Source
  magic : Nat := 0                 -- f.Magic
  flags : Flags := 0               -- f.Descriptor.Flags
  contentSize : Nat := 0
  cks : XXH.State := XXH.zero
  data : Array UInt8 := #[]        -- r.data[:len]
  idx : Nat := 0
  cum : Nat := 0                   -- uint32
  dict : Array UInt8 := #[]
  -- current block (FrameDataBlock)
  bSize : Nat := 0                 -- b.Size (32-bit word)
  bData : Array UInt8 := #[]
  bChecksum : Nat := 0

def next (r : R) (e : Option Err) : R × Bool :=
  match e with
  | some e => ({ r with st := stError, err := some e }, true)
  | none => ({ r with st := readerStates r.st }, false)

def check (r : R) (e : Option Err) : R :=
  if r.st = stError then r else
  match e with
  | none => r
  | some e => if e = .eof then { r with err := some e } else { r with st := stError, err := some e }

def unexpected : Option Err → Option Err
  | some .eof => some .unexpectedEOF
  | e => e

def u32 (a : Array UInt8) : Nat :=
  a[0]!.toNat + 256 * a[1]!.toNat + 65536 * a[2]!.toNat + 16777216 * a[3]!.toNat

/-- `Frame.readUint32` -/
def readUint32 (s : Source) : Source × Nat × Option Err :=
  let (s, b, e) := readFull s 4
  match e with
  | some e => (s, 0, some e)
  | none => (s, u32 b, none)

/-- `io.CopyN(ioutil.Discard, src, n)`: 8 KiB reads through a LimitedReader -/
def discardN (s : Source) : (n : Nat) → (fuel : Nat) → Source × Option Err
  | _, 0 => (s, none)
  | n, fuel+1 =>
    if n = 0 then (s, none) else
    let (s, got, e) := s.read (min n 8192)
    let n := n - got.size
    match e with
    | some .eof => if n = 0 then (s, none) else (s, some .eof)
    | some e => (s, some e)
    | none => discardN s n fuel

def isLegacy (r : R) : Bool := r.magic = frameMagicLegacy

/-- `Frame.ParseHeaders` (+ `FrameDescriptor.initR`) -/
def parseHeaders (r : R) : (fuel : Nat) → R × Option Err
  | 0 => (r, some .unhandledState)
  | fuel+1 =>
    if r.magic > 0 then (r, none) else
    let (s, m, e) := readUint32 r.src
    let r := { r with src := s }
    match e with
    | some e => (r, some e)
    | none =>
    let r := { r with magic := m }
    if m = frameMagic ∨ m = frameMagicLegacy then
      if m = frameMagicLegacy then
        ({ r with flags := blockSizeIndexSet 0 (indexOf Block8Mb).toUInt16, cks := XXH.reset r.cks }, none)
      else
        let (s, b, e) := readFull r.src 3
        let r := { r with src := s }
        match e with
        | some e => (r, unexpected (some e))
        | none =>
        let flags : Flags := (b[0]!.toNat + 256 * b[1]!.toNat).toUInt16
        let r := { r with flags := flags }
        let step2 : R × Array UInt8 × Option Err :=
          if flagSize flags then
            let (s, b8, e) := readFull r.src 8
            ({ r with src := s }, b ++ b8, e)
          else (r, b, none)
        let (r, buf, e) := step2
        match e with
        | some e => (r, unexpected (some e))
        | none =>
        let r := if flagSize flags then
            { r with contentSize := u32 (buf.extract 2 6) + 4294967296 * u32 (buf.extract 6 10) } else r
        let ck := buf[buf.size - 1]!
        let body := buf.extract 0 (buf.size - 1)
        if ck.toNat ≠ (XXH.checksumZero body.toList).toNat / 256 % 256 then (r, some .badHeaderChecksum) else
        let idx := blockSizeIndex flags
        if ¬ (idx = 4 ∨ idx = 5 ∨ idx = 6 ∨ idx = 7) then (r, some .badBlockSize) else
        ({ r with cks := XXH.reset r.cks }, none)
    else if m / 16 = frameSkipMagic / 16 then
      let (s, n, e) := readUint32 r.src
      let r := { r with src := s }
      match e with
      | some e => (r, unexpected (some e))
      | none =>
        let (s, e) := discardN r.src n (n + 1)
        let r := { r with src := s }
        match e with
        | some e => (r, unexpected (some e))
        | none => parseHeaders { r with magic := 0 } fuel
    else (r, some .badMagic)

/-- `Reader.init` -/
def init (r : R) : R × Option Err :=
  let (r, e) := parseHeaders r (r.src.data.size + 2)
  match e with
  | some e => (r, some e)
  | none =>
    let r := if ¬ flagBlockIndependence r.flags then { r with num := 1 } else r
    -- `r.data = size.Get()`: a pooled buffer with arbitrary contents; every path overwrites `r.data`
    -- (or empties it) before reading from it, so its initial contents are not represented
    ({ r with idx := 0, data := #[], cum := 0 }, none)

/-- `FrameDataBlock.Read` -/
def blockRead (r : R) : (fuel : Nat) → R × Option Err
  | 0 => (r, some .unhandledState)
  | fuel+1 =>
    let (s, x, e) := readUint32 r.src
    let r := { r with src := s }
    match e with
    | some e => (r, if isLegacy r then some e else unexpected (some e))
    | none =>
    if isLegacy r ∧ x = frameMagicLegacy then blockRead r fuel
    else if isLegacy r ∧ x = r.cum % 4294967296 then (r, some .eof)
    else if ¬ isLegacy r ∧ x = 0 then (r, some .eof)
    else
      let size := x % 2147483648
      let r := { r with bSize := x }
      -- legacy: no flag bit; blocks up to CompressBlockBound(8 MiB)
      if isLegacy r ∧ (x ≥ 2147483648 ∨ size = 0) then (r, some .badBlockSize) else
      let cap := if isLegacy r then Fast.bound Block8Mb else poolSize (blockSizeIndex r.flags)
      if size > cap then (r, some .badBlockSize) else
      let (s, d, e) := readFull r.src size
      let r := { r with src := s, bData := d }
      match e with
      | some e => (r, unexpected (some e))
      | none =>
        if flagBlockChecksum r.flags then
          let (s, c, e) := readUint32 r.src
          let r := { r with src := s }
          match e with
          | some e => (r, unexpected (some e))
          | none => ({ r with bChecksum := c }, none)
        else (r, none)

/-- `lz4block.UncompressBlock(src, dst, dict)` with `len(dst) = dstLen`: the decoded bytes -/
def uncompressBlock (src : Array UInt8) (dstLen : Nat) (dict : Array UInt8) : Option (Array UInt8) :=
  if src.size = 0 then some #[] else
  match DecodeGo.decodeBlock (Array.replicate dstLen 0) src dict with
  | .ok di d => some (d.extract 0 di)
  | .err _ => none

/-- `FrameDataBlock.Uncompress(f, dst, dict, sum=true)` with `len(dst) = dstLen` -/
def uncompress (r : R) (dstLen : Nat) : R × Option (Array UInt8) × Option Err :=
  if flagBlockChecksum r.flags ∧ (XXH.checksumZero r.bData.toList).toNat ≠ r.bChecksum then
    (r, none, some .badBlockChecksum) else
  let out : Option (Array UInt8) :=
    if r.bSize ≥ 2147483648 then some (r.bData.extract 0 (min dstLen r.bData.size))
    else uncompressBlock r.bData dstLen (if isLegacy r then #[] else r.dict)   -- legacy blocks are independent
  match out with
  | none => (r, none, some .shortBuffer)
  | some dst =>
    let r := if flagContentChecksum r.flags then { r with cks := XXH.write r.cks dst.toList } else r
    (r, some dst, none)

/-- `Reader.read(buf)` with `len(buf) = want`: `(n, bytes decoded directly into buf)`; when the
block was buffered instead, `n = 0` and `r.data` holds it -/
def readBlock (r : R) (want : Nat) : R × Array UInt8 × Option Err :=
  let (r, e) := blockRead r (r.src.data.size + 2)
  match e with
  | some e => (r, #[], some e)
  | none =>
    let cap := poolSize (blockSizeIndex r.flags)
    let direct := want ≥ cap
    let (r, out, e) := uncompress r cap
    match e, out with
    | some e, _ => (r, #[], some e)
    | none, none => (r, #[], some .shortBuffer)
    | none, some dst =>
      let r := if ¬ flagBlockIndependence r.flags then
          let dict := if r.dict.size + dst.size > 128 * 1024 then
              let preserve := 64 * 1024 - dst.size
              r.dict.extract (r.dict.size - preserve) r.dict.size
            else r.dict
          { r with dict := dict ++ dst }
        else r
      let r := { r with cum := r.cum + dst.size }
      if direct then
        (if dst.size = 0 then { r with data := #[] } else r, dst, none)
      else ({ r with data := dst }, #[], none)

/-- `Frame.CloseR` -/
def closeR (r : R) : R × Option Err :=
  if isLegacy r then (r, none) else
  if ¬ flagContentChecksum r.flags then (r, none) else
  let (s, c, e) := readUint32 r.src
  let r := { r with src := s }
  match e with
  | some e => (r, unexpected (some e))
  | none => if (XXH.sum32 r.cks).toNat ≠ c then (r, some .badFrameChecksum) else (r, none)

/-- the `for len(buf) > 0` loop of `Reader.Read`; `out` = bytes delivered so far -/
def readLoop (r : R) (want : Nat) (out : Array UInt8) : (fuel : Nat) → R × Array UInt8 × Option Err
  | 0 => (r, out, none)
  | fuel+1 =>
    if out.size ≥ want then (r, out, none) else
    let rem := want - out.size
    let step : R × Array UInt8 × Option Err × Bool :=
      if r.idx = 0 then
        let (r, got, e) := readBlock r rem
        match e with
        | none => (r, got, none, false)
        | some .eof =>
          let (r, ce) := closeR r
          match ce with
          | some ce => ({ r with data := #[] }, #[], some ce, true)
          | none => ({ (next r none).1 with data := #[] }, #[], some .eof, true)
        | some e => (r, #[], some e, true)
      else (r, #[], none, false)
    let (r, got, e, stop) := step
    if stop then (r, out, e) else
    if got.size > 0 then readLoop r want (out ++ got) fuel else
    -- Fill buf with buffered data.
    let bn := min rem (r.data.size - r.idx)
    let out := out ++ r.data.extract r.idx (r.idx + bn)
    let idx := r.idx + bn
    let r := { r with idx := if idx = r.data.size then 0 else idx }
    readLoop r want out fuel

/-- `Reader.Read(buf)`, `len(buf) = want` -/
def read (r : R) (want : Nat) : R × Array UInt8 × Option Err :=
  let go (r : R) : R × Array UInt8 × Option Err :=
    let (r, out, e) := readLoop r want #[] (r.src.data.size + want + 4)
    (check r e, out, e)
  if r.st = stRead then go r
  else if r.st = stClosed then (check r (some .eof), #[], some .eof)
  else if r.st = stError then (r, #[], r.err)
  else if r.st = stNew then
    let (r, e) := init r
    let (r, bad) := next r e
    if bad then (r, #[], e) else go r
  else ({ r with st := stError, err := some .unhandledState }, #[], some .unhandledState)

/-- `Reader.WriteTo(w)` (sequential) -/
def writeTo (r : R) (sink : Sink) : R × Sink × Nat × Option Err :=
  let go (r : R) : R × Sink × Nat × Option Err :=
    let cap := poolSize (blockSizeIndex r.flags)
    let rec loop (r : R) (sink : Sink) (n : Nat) : Nat → R × Sink × Nat × Option Err
      | 0 => (r, sink, n, none)
      | fuel+1 =>
        -- r.read(data) with len(data) = cap is always the direct path
        let saved := r.data
        let (r, got, e) := readBlock r cap
        let r := { r with data := saved }
        match e with
        | some .eof => let (r, ce) := closeR r; (r, sink, n, ce)
        | some e => (r, sink, n, some e)
        | none =>
          let (sink, we) := sink.write got
          match we with
          | some we => (r, sink, n, some we)
          | none => loop r sink (n + got.size) fuel
    let (r, sink, n, e) := loop r sink 0 (r.src.data.size + 4)
    ((next r e).1, sink, n, e)
  if r.st = stClosed ∨ r.st = stError then (r, sink, 0, r.err)
  else if r.st = stNew then
    let (r, e) := init r
    let (r, bad) := next r e
    if bad then (r, sink, 0, e) else go r
  else ({ r with st := stError, err := some .unhandledState }, sink, 0, some .unhandledState)

/-- `Reader.Size()` -/
def size (r : R) : Nat :=
  if (r.st = stRead ∨ r.st = stClosed) ∧ flagSize r.flags then r.contentSize else 0

/-- `Reader.Reset(src)` -/
def reset (r : R) (src : Source) : R :=
  { r with st := stNew, err := none, src := src, magic := 0, data := #[], dict := #[], idx := r.idx }

def new (src : Source) : R := { src := src }

end Lz4V.Model.FrameR
