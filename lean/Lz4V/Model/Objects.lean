import Lz4V.Model.Fast
import Lz4V.Model.HC
/-!
# Model.Objects — the compressor OBJECTS (`Compressor`, `CompressorHC`) with their tables as state

`Model.Fast.compressBlock` and `Model.HC.compressBlock` describe one call on fresh tables.  The Go
objects keep their tables between calls (and the package-level functions recycle objects through
`sync.Pool`s); what makes a call independent of the object's history is

* fast: `c.reset()` — the first statement of `CompressBlock` — clears the in-use bitmap; stale 16-bit
  entries of `table` stay but are masked by it (`get`);
* HC: `if c.needsReset { zero both tables }; c.needsReset = true` — the flag is false only on a
  zero-valued object, whose tables are zero anyway.

This file models exactly that logic on top of the per-call models; `Props.C14obj` proves that every call
on every reachable object equals the per-call model (C01, C11, C14: "fresh, reused and pooled
compressors").
-/
namespace Lz4V.Model.Objects
open Lz4V.Gen Lz4V.Model

/-! ## fast compressor -/

/-- `type Compressor struct { table [htSize]uint16; inUse [htSize/32]uint32 }`: the bitmap as one Bool per slot -/
structure FastObj where
  table : Array Nat
  inUse : Array Bool

/-- what `get` sees of slot `h`: `if c.inUse[h/32]&(1<<(h%32)) != 0 { i = int(c.table[h]) }` -/
def FastObj.view (c : FastObj) : Fast.Table :=
  Array.ofFn (n := htSize) (fun h => if c.inUse[h.val]! then some (c.table[h.val]!) else none)

/-- `c.reset()`: `c.inUse = [htSize/32]uint32{}` -/
def FastObj.reset (c : FastObj) : FastObj := { c with inUse := Array.replicate htSize false }

/-- `(*Compressor).CompressBlock`: reset, then the call proper on what `get` can see.  The object after the
call is left unspecified (`any`): nothing may depend on it. -/
def FastObj.compressBlock (c : FastObj) (src dst : Array UInt8) : Emit.Ret :=
  Fast.compressBlockFrom c.reset.view src dst

/-! ## HC compressor -/

/-- `type CompressorHC struct { hashTable, chainTable [htSize]int; needsReset bool }` -/
structure HCObj where
  hashTable : Array Nat := HC.zeroTable
  chainTable : Array Nat := HC.zeroTable
  needsReset : Bool := false

/-- the zero value (`new(CompressorHC)`, `lz4.CompressorHC{}`) -/
def HCObj.zero : HCObj := {}

/-- the first two statements of `(*CompressorHC).CompressBlock` -/
def HCObj.enter (c : HCObj) : HCObj :=
  let c := if c.needsReset then { c with hashTable := HC.zeroTable, chainTable := HC.zeroTable } else c
  { c with needsReset := true }

/-- `(*CompressorHC).CompressBlock` on the object's tables -/
def HCObj.compressBlock (c : HCObj) (src dst : Array UInt8) (depth : Nat) : Emit.Ret :=
  let c := c.enter
  let notComp := dst.size < HC.bound src.size
  if src.size ≤ mfLimit then Emit.lastLiterals src dst 0 0 notComp (first := false)
  else
    let depth := if depth = 0 then winSize else depth
    HC.mainLoop src (src.size - mfLimit) depth notComp (src.size + 1) c.hashTable c.chainTable dst 0 0 0

/-- the object after a call: the flag is set; the tables hold whatever the call left (any arrays) -/
def HCObj.after (c : HCObj) (ht ct : Array Nat) : HCObj := { c.enter with hashTable := ht, chainTable := ct }

/-- objects reachable from the zero value by calls (with arbitrary table contents left behind) -/
inductive HCObj.Reach : HCObj → Prop
  | zero : HCObj.Reach HCObj.zero
  | call (c : HCObj) (ht ct : Array Nat) : HCObj.Reach c → HCObj.Reach (c.after ht ct)

end Lz4V.Model.Objects
