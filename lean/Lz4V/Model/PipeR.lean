/-!
# Model.PipeR — the concurrent read pipeline as a labelled transition system

Mirrors `Blocks.initR` (internal/lz4stream/block.go) and the consumer loops of `Reader.Read` /
`Reader.WriteTo` for `num > 1` (independent blocks only):

* the *reader* goroutine reads blocks from the source one after the other; for each it queues a
  per-block channel `c_k` on the buffered channel `blocks` (capacity `num`) and spawns *decoder k*;
  when the source ends, fails, or an error has been latched it queues a sentinel channel, sends `nil`
  on it, waits for it to be closed, latches its own error (first error wins) and closes `data`;
* *decoder k* decodes its block; on success it sends the bytes on `c_k` (rendez-vous with the
  collector), on failure it latches the error and closes `c_k`;
* the *collector* ranges over `blocks` in order: a closed `c_k` switches it to skipping; a `nil`
  makes it close the channel and exit; otherwise (when not skipping) it hands the bytes to the
  consumer on the unbuffered `data` channel (rendez-vous) and closes `c_k`;
* the *consumer* (the API caller) receives from `data` until it is closed, then reads the latched error.

`bad k` says whether block `k` fails to decode; `n` is the number of blocks the source yields before
it ends (with `srcErr` telling whether it ends in an error).  Schedules are lists of actors, as in
`Model.PipeW`.
-/
namespace Lz4V.Model.PipeR

inductive DPc where | decoding | sending | failed | done
deriving DecidableEq, Repr

inductive GPc where | read (k : Nat) | sentEnq | sentSend | sentWait | closeData | exited
deriving DecidableEq, Repr

inductive CPc where | idle | recv (i : Nat) | deliver (i : Nat) | closing (i : Nat) | exited
deriving DecidableEq, Repr

inductive UPc where | receiving | finished      -- the consumer
deriving DecidableEq, Repr

inductive Actor where | reader | collector | decoder (k : Nat) | consumer
deriving DecidableEq, Repr

structure State where
  num : Nat
  n : Nat                       -- blocks available from the source; the sentinel has id `n`
  bad : List Nat                -- blocks that fail to decode
  queue : List Nat := []
  g : GPc
  c : CPc := .idle
  d : List DPc := []
  u : UPc := .receiving
  skip : Bool := false
  closed : List Nat := []
  dataClosed : Bool := false
  err : Bool := false           -- an error has been latched (`Blocks.err`)
  delivered : List Nat := []
deriving Repr

def init (num n : Nat) (bad : List Nat := []) : State :=
  { num := num, n := n, bad := bad, g := if n = 0 then .sentEnq else .read 0 }

def step (s : State) : Actor → Option State
  | .reader =>
    match s.g with
    | .read k =>
      -- `for b.ErrorR() == nil`: stop reading once an error is latched
      if s.err then some { s with g := .sentEnq }
      else if s.queue.length < s.num then
        some { s with queue := s.queue ++ [k], d := s.d ++ [.decoding],
                      g := if k + 1 < s.n then .read (k + 1) else .sentEnq }
      else none
    | .sentEnq => if s.queue.length < s.num then some { s with queue := s.queue ++ [s.n], g := .sentSend } else none
    | .sentSend => none
    | .sentWait => if s.n ∈ s.closed then some { s with g := .closeData } else none
    | .closeData => some { s with dataClosed := true, g := .exited }
    | .exited => none
  | .collector =>
    match s.c with
    | .idle =>
      match s.queue with
      | [] => none
      | i :: rest => some { s with queue := rest, c := .recv i }
    | .recv i =>
      if i < s.n then
        match s.d[i]? with
        | some .sending =>
          -- received the bytes; the decoder's send completes
          some { s with d := s.d.set i .done, c := if s.skip then .idle else .deliver i }
        | some .failed => some { s with skip := true, c := .idle }     -- channel closed: an error occurred
        | _ => none
      else if s.g = .sentSend then some { s with g := .sentWait, c := .closing i } else none
    | .deliver i =>
      -- `data <- buf`: rendez-vous with the consumer
      if s.u = .receiving then some { s with delivered := s.delivered ++ [i], c := .closing i } else none
    | .closing i => some { s with closed := i :: s.closed, c := if i = s.n then .exited else .idle }
    | .exited => none
  | .decoder k =>
    match s.d[k]? with
    | some .decoding =>
      if k ∈ s.bad then some { s with d := s.d.set k .failed, err := true }
      else some { s with d := s.d.set k .sending }
    | _ => none
  | .consumer =>
    match s.u with
    | .receiving => if s.dataClosed then some { s with u := .finished } else none
    | .finished => none

def run (s : State) : List Actor → State
  | [] => s
  | a :: as => run ((step s a).getD s) as

/-! ## event traces of the read pipeline (see `Model.PipeW` for the conventions) -/

inductive Ev where
  | read (c : Nat) | decoded (c : Nat) | delivered (c : Nat) | sentinel (c : Nat) | done (c : Nat)
deriving DecidableEq, Repr

def idx (l : List Ev) (e : Ev) : Option Nat :=
  let rec go : List Ev → Nat → Option Nat
    | [], _ => none
    | x :: xs, i => if x = e then some i else go xs (i + 1)
  go l 0

def before (l : List Ev) (a b : Ev) : Bool :=
  match idx l a, idx l b with
  | some i, some j => i < j
  | none, some _ => false
  | _, none => true

def readsOf (l : List Ev) : List Nat := l.filterMap (fun e => match e with | .read c => some c | _ => none)
def deliveredOf (l : List Ev) : List Nat := l.filterMap (fun e => match e with | .delivered c => some c | _ => none)

/-- per block `read < decoded < delivered`; blocks are delivered in the order they were read, without
gaps (once a block is not delivered, no later one is); the sentinel follows every read; `done` is last
among the collector's events -/
def validTrace (l : List Ev) (complete : Bool) : Bool :=
  let rs := readsOf l
  let perChan := rs.all (fun c => before l (.read c) (.decoded c) && before l (.decoded c) (.delivered c))
  let fifo := (deliveredOf l).isPrefixOf rs || deliveredOf l == rs
  let noDup := rs.eraseDups.length == rs.length
  let fin := if complete then l.any (fun e => match e with | .done _ => true | _ => false) else true
  perChan && fifo && noDup && fin

/-- orders at the end of the stream that the pipeline also guarantees (proved for every schedule in
`Props.C08trace.R.trace_tail`): no block is read after the sentinel was queued; nothing is delivered after `done` -/
def tailOK : List Ev → Bool
  | [] => true
  | .sentinel _ :: l => l.all (fun e => match e with | .read _ => false | _ => true) && tailOK l
  | .done _ :: l => l.all (fun e => match e with | .delivered _ => false | _ => true) && tailOK l
  | _ :: l => tailOK l

/-- the check applied to recorded traces -/
def validTraceStrict (l : List Ev) (complete : Bool) : Bool := validTrace l complete && tailOK l

end Lz4V.Model.PipeR
