import Lz4V.Model.FrameW
/-!
# Proofs.FrameWBits — the block-size-index bit field of the descriptor flags

`blockSizeIndexSet` only touches bits 12–14, reading it back gives what was written, writing twice keeps the
last value, writing back what is there changes nothing, and `Writer.init` of a current-format frame (version and
block-independence bits) leaves the field alone.  All by bit-wise extensionality on `BitVec 16`.
-/
namespace Lz4V.Proofs.FrameWBits
open Lz4V Lz4V.Gen Lz4V.Model.FrameW

/-- two `BitVec 16` are equal when their 16 bits are -/
macro "bits16" : tactic => `(tactic| (
  ext i hi
  have : i = 0 ∨ i = 1 ∨ i = 2 ∨ i = 3 ∨ i = 4 ∨ i = 5 ∨ i = 6 ∨ i = 7 ∨ i = 8 ∨ i = 9 ∨ i = 10 ∨ i = 11 ∨
      i = 12 ∨ i = 13 ∨ i = 14 ∨ i = 15 := by omega
  rcases this with h | h | h | h | h | h | h | h | h | h | h | h | h | h | h | h <;> subst h <;> simp))

theorem bsi_set_raw (x v : UInt16) : ((blockSizeIndexSet x v) >>> 12) &&& 7 = v &&& 7 := by
  unfold blockSizeIndexSet
  rw [← UInt16.toBitVec_inj]
  simp
  bits16

/-- reading the index back -/
theorem bsi_set (x v : UInt16) : blockSizeIndex (blockSizeIndexSet x v) = (v &&& 7).toNat := by
  unfold blockSizeIndex; rw [bsi_set_raw]

theorem bsi_set_nat (x : UInt16) (n : Nat) (h : n < 8) : blockSizeIndex (blockSizeIndexSet x n.toUInt16) = n := by
  rw [bsi_set]
  have : n = 0 ∨ n = 1 ∨ n = 2 ∨ n = 3 ∨ n = 4 ∨ n = 5 ∨ n = 6 ∨ n = 7 := by omega
  rcases this with h | h | h | h | h | h | h | h <;> subst h <;> decide

/-- in general the three low bits of the value are stored -/
theorem bsi_set_mod (x : UInt16) (n : Nat) : blockSizeIndex (blockSizeIndexSet x n.toUInt16) = n % 8 := by
  rw [bsi_set, UInt16.toNat_and, Nat.toUInt16_eq, UInt16.toNat_ofNat']
  have h7 : (7 : UInt16).toNat = 2 ^ 3 - 1 := by decide
  rw [h7, Nat.and_two_pow_sub_one_eq_mod]
  omega

theorem bsi_lt (x : UInt16) : blockSizeIndex x < 8 := by
  unfold blockSizeIndex
  rw [UInt16.toNat_and]
  exact Nat.lt_of_le_of_lt Nat.and_le_right (by decide)

/-- the last write wins -/
theorem bsiSet_bsiSet (x a b : UInt16) : blockSizeIndexSet (blockSizeIndexSet x a) b = blockSizeIndexSet x b := by
  unfold blockSizeIndexSet
  rw [← UInt16.toBitVec_inj]
  simp
  bits16

/-- writing back the index that is there changes nothing -/
theorem bsiSet_self (x : UInt16) : blockSizeIndexSet x (blockSizeIndex x).toUInt16 = x := by
  have : (blockSizeIndex x).toUInt16 = (x >>> 12) &&& 7 := by
    unfold blockSizeIndex; rw [Nat.toUInt16_eq, UInt16.ofNat_toNat]
  rw [this]
  unfold blockSizeIndexSet
  rw [← UInt16.toBitVec_inj]
  simp
  bits16

/-- every bit outside the index field is kept -/
theorem bsiSet_mask (x v : UInt16) :
    blockSizeIndexSet x v &&& ~~~((7 : UInt16) <<< 12) = x &&& ~~~((7 : UInt16) <<< 12) := by
  unfold blockSizeIndexSet
  rw [← UInt16.toBitVec_inj]
  simp
  bits16

theorem bsiSet_flagContentChecksum (x v : UInt16) :
    flagContentChecksum (blockSizeIndexSet x v) = flagContentChecksum x := by
  have : (blockSizeIndexSet x v >>> (2 : UInt16)) &&& (1 : UInt16) = (x >>> (2 : UInt16)) &&& (1 : UInt16) := by
    unfold blockSizeIndexSet; rw [← UInt16.toBitVec_inj]; simp; bits16
  unfold flagContentChecksum; rw [this]

theorem bsiSet_flagSize (x v : UInt16) : flagSize (blockSizeIndexSet x v) = flagSize x := by
  have : (blockSizeIndexSet x v >>> (3 : UInt16)) &&& (1 : UInt16) = (x >>> (3 : UInt16)) &&& (1 : UInt16) := by
    unfold blockSizeIndexSet; rw [← UInt16.toBitVec_inj]; simp; bits16
  unfold flagSize; rw [this]

theorem bsiSet_flagBlockChecksum (x v : UInt16) :
    flagBlockChecksum (blockSizeIndexSet x v) = flagBlockChecksum x := by
  have : (blockSizeIndexSet x v >>> (4 : UInt16)) &&& (1 : UInt16) = (x >>> (4 : UInt16)) &&& (1 : UInt16) := by
    unfold blockSizeIndexSet; rw [← UInt16.toBitVec_inj]; simp; bits16
  unfold flagBlockChecksum; rw [this]

theorem bsiSet_flagBlockIndependence (x v : UInt16) :
    flagBlockIndependence (blockSizeIndexSet x v) = flagBlockIndependence x := by
  have : (blockSizeIndexSet x v >>> (5 : UInt16)) &&& (1 : UInt16) = (x >>> (5 : UInt16)) &&& (1 : UInt16) := by
    unfold blockSizeIndexSet; rw [← UInt16.toBitVec_inj]; simp; bits16
  unfold flagBlockIndependence; rw [this]

theorem bsiSet_flagVersion (x v : UInt16) : flagVersion (blockSizeIndexSet x v) = flagVersion x := by
  unfold flagVersion blockSizeIndexSet; rw [← UInt16.toBitVec_inj]; simp; bits16

/-- `Writer.init` of a current-format frame sets the version and block-independence bits only -/
theorem bsi_init (x : UInt16) : blockSizeIndex (blockIndependenceSet (versionSet x 1) true) = blockSizeIndex x := by
  unfold blockSizeIndex
  congr 1
  unfold blockIndependenceSet versionSet setBit
  rw [← UInt16.toBitVec_inj]
  simp
  bits16

end Lz4V.Proofs.FrameWBits

namespace Lz4V.Proofs.FrameWBits
open Lz4V Lz4V.Gen Lz4V.Model.FrameW

/-- the checksum / size option bits are not in the index field -/
theorem bsi_contentChecksumSet (x : UInt16) (v : Bool) : blockSizeIndex (contentChecksumSet x v) = blockSizeIndex x := by
  unfold blockSizeIndex
  congr 1
  unfold contentChecksumSet setBit
  cases v <;> (rw [← UInt16.toBitVec_inj]; simp; bits16)

theorem bsi_sizeSet (x : UInt16) (v : Bool) : blockSizeIndex (sizeSet x v) = blockSizeIndex x := by
  unfold blockSizeIndex
  congr 1
  unfold sizeSet setBit
  cases v <;> (rw [← UInt16.toBitVec_inj]; simp; bits16)

theorem bsi_blockChecksumSet (x : UInt16) (v : Bool) : blockSizeIndex (blockChecksumSet x v) = blockSizeIndex x := by
  unfold blockSizeIndex
  congr 1
  unfold blockChecksumSet setBit
  cases v <;> (rw [← UInt16.toBitVec_inj]; simp; bits16)

end Lz4V.Proofs.FrameWBits
