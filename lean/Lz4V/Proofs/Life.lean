import Lz4V.Model.FrameW
import Lz4V.Model.FrameR
import Lz4V.Proofs.FrameRRead
import Lz4V.Proofs.FrameWBits
/-!
# Proofs.Life — lifecycle of the `Writer` and `Reader` objects (property C17)

Definitions of the call alphabets (`WOp`, `ROp`), the step/run functions, the well-formedness invariant
(`WF`: the state is one of the four and the error state carries an error) and the observational
equivalences used by `Props/C17.lean`, with all the supporting lemmas.
-/

/-! ## definitions used in the statements of C17 -/
namespace Lz4V.Props.C17
open Lz4V Lz4V.Go Lz4V.Gen Lz4V.Model

/-- a call on a Writer -/
inductive WOp where
  | apply (opts : List FrameW.Opt) | write (buf : Array UInt8) | flush | close
  | reset (failAt : Option Nat) | readFrom (src : Source)

/-- everything a call returns: byte count, the source after `ReadFrom`, the error -/
structure WRes where
  n : Nat := 0
  src : Option Source := none
  err : Option Err := none

/-- run one call: new state and everything the call returns -/
def wstepFull (w : FrameW.W) : WOp → FrameW.W × WRes
  | .apply opts => ((FrameW.apply w opts).1, { err := (FrameW.apply w opts).2 })
  | .write buf => ((FrameW.write w buf).1, { n := (FrameW.write w buf).2.1, err := (FrameW.write w buf).2.2 })
  | .flush => ((FrameW.flush w).1, { err := (FrameW.flush w).2 })
  | .close => ((FrameW.close w).1, { err := (FrameW.close w).2 })
  | .reset f => (FrameW.reset w f, {})
  | .readFrom src => ((FrameW.readFrom w src).1,
      { n := (FrameW.readFrom w src).2.2.1, src := some (FrameW.readFrom w src).2.1, err := (FrameW.readFrom w src).2.2.2 })

/-- run one call: new state and the call's error result (Reset has none) -/
def wstep (w : FrameW.W) : WOp → FrameW.W × Option Err
  | .apply opts => FrameW.apply w opts
  | .write buf => ((FrameW.write w buf).1, (FrameW.write w buf).2.2)
  | .flush => FrameW.flush w
  | .close => FrameW.close w
  | .reset f => (FrameW.reset w f, none)
  | .readFrom src => ((FrameW.readFrom w src).1, (FrameW.readFrom w src).2.2.2)

/-- run a call sequence from a given Writer -/
def wrunFrom (w : FrameW.W) (ops : List WOp) : FrameW.W := ops.foldl (fun s op => (wstep s op).1) w

/-- run a call sequence from a fresh Writer -/
def wrun (failAt : Option Nat) (ops : List WOp) : FrameW.W := wrunFrom (FrameW.new failAt) ops

/-- the error results of every call of the sequence -/
def wresults (w : FrameW.W) : List WOp → List (Option Err)
  | [] => []
  | op :: ops => (wstep w op).2 :: wresults (wstep w op).1 ops

/-- everything returned by every call of the sequence -/
def wresultsFull (w : FrameW.W) : List WOp → List WRes
  | [] => []
  | op :: ops => (wstepFull w op).2 :: wresultsFull (wstepFull w op).1 ops

/-- the states reachable by calls: the state is one of the four and the error state carries its error -/
structure WF (w : FrameW.W) : Prop where
  four : w.st = stNew ∨ w.st = stWrite ∨ w.st = stClosed ∨ w.st = stError
  err : w.st = stError → w.err ≠ none

/-- equal up to the `flags` field of `W` (which no function of the model reads) -/
structure FE (a b : FrameW.W) : Prop where
  cfg : a.cfg = b.cfg
  st : a.st = b.st
  err : a.err = b.err
  ml : a.magicLegacy = b.magicLegacy
  pending : a.pending = b.pending
  bufSize : a.bufSize = b.bufSize
  cks : a.cks = b.cks
  deferred : a.deferred = b.deferred
  saved : a.savedIdx = b.savedIdx
  sink : a.sink = b.sink

/-- observational equivalence of two Writers: the configuration, the state, the state's error, the sink and the
saved block-size index (`savedIdx`, read by `Reset` in every state and by `init`) agree; the frame fields (`magicLegacy`, `pending`, `bufSize`, `cks`, `deferred`) agree whenever a frame is
open (state `write`) — in every other state they are re-initialised by `init` before they are next read -/
structure obsEq (a b : FrameW.W) : Prop where
  wf : WF a
  cfg : a.cfg = b.cfg
  st : a.st = b.st
  err : a.err = b.err
  sink : a.sink = b.sink
  saved : a.savedIdx = b.savedIdx
  open_ : a.st = stWrite → FE a b

end Lz4V.Props.C17

namespace Lz4V.Proofs.Life
open Lz4V Lz4V.Go Lz4V.Gen Lz4V.Model Lz4V.Model.FrameW Lz4V.Props.C17

/-! ## unfolding lemmas (all by `rfl`; `unfold` on the model functions is slow) -/

def writeGo (buf : Array UInt8) (w : W) : W × Nat × Option Err :=
    let (w, n, e) := writeLoop w buf 0 0 (buf.size + 2)
    (check w e, n, e)

theorem write_eq (w : W) (buf : Array UInt8) : write w buf =
  (if w.st = stWrite then writeGo buf w
  else if w.st = stClosed then (check w (some .closedPipe), 0, some .closedPipe)
  else if w.st = stError then (w, 0, w.err)
  else if w.st = stNew then
    let (w, e) := init w
    let (w, bad) := next w e
    if bad then (check w e, 0, e) else writeGo buf w
  else ({ w with st := stError, err := some .unhandledState }, 0, some .unhandledState)) := rfl

def flushGo (w : W) : W × Option Err :=
    if w.pending.size > 0 then
      let (w, e) := writeOne w w.pending
      match e with
      | some e => (w, some e)
      | none => ({ w with pending := #[] }, none)
    else (w, none)

theorem flush_eq (w : W) : flush w =
  (if w.st = stWrite then flushGo w
  else if w.st = stError then (w, w.err)
  else if w.st = stNew then
    let (w, e) := init w
    let (w, bad) := next w e
    if bad then (w, e) else flushGo w
  else (w, none)) := rfl

def closeRest (r : W × Option Err) : W × Option Err :=
  match r.2 with
  | some e => (r.1, some e)
  | none =>
    let (w, e) := closeW r.1
    let w := { w with pending := #[], bufSize := 0 }
    let (w, _) := next w e
    (w, e)

theorem close_eq (w : W) : close w = (if w.st = stClosed then (w, none) else closeRest (flush w)) := rfl

def rfGo (src : Source) (w : W) : W × Source × Nat × Option Err :=
    let size := poolSize (blockSizeIndex w.cfg.flags)
    let (w, src, n, e) := readFrom.loop size w src 0 (src.data.size / (max size 1) + 3)
    (check w e, src, n, e)

theorem readFrom_eq (w : W) (src : Source) : readFrom w src =
  (if w.st = stClosed then (w, src, 0, some .closedPipe)
  else if w.st = stError then (w, src, 0, w.err)
  else if w.st = stNew then
    let (w, e) := init w
    let (w, bad) := next w e
    if bad then (w, src, 0, e) else rfGo src w
  else ({ w with st := stError, err := some .unhandledState }, src, 0, some .unhandledState)) := rfl

theorem rfLoop_succ (size : Nat) (w : W) (src : Source) (n fuel : Nat) :
  readFrom.loop size w src n (fuel+1) =
       (let (src, got, e) := readFull src size
        let done := e = some .eof ∨ e = some .unexpectedEOF
        if e.isSome ∧ ¬ done then (w, src, n, e) else
        let n := n + got.size
        let (w, we) := writeOne w got
        match we with
        | some we => (w, src, n, some we)
        | none => if done then (w, src, n, none) else readFrom.loop size w src n fuel) := rfl

theorem writeLoop_succ (w : W) (buf : Array UInt8) (off n fuel : Nat) : writeLoop w buf off n (fuel+1) =
    (if off ≥ buf.size then (w, n, none) else
    let zn := w.bufSize
    if w.cfg.num = 1 ∧ w.pending.size = 0 ∧ buf.size - off ≥ zn then
      let (w, e) := writeOne w (buf.extract off (off + zn))
      match e with
      | some e => (w, n, some e)
      | none => writeLoop w buf (off + zn) (n + zn) fuel
    else
      let m := min (zn - w.pending.size) (buf.size - off)
      let w := { w with pending := w.pending ++ buf.extract off (off + m) }
      let n := n + m
      let off := off + m
      if w.pending.size < zn then (w, n, none) else
      let (w, e) := writeOne w w.pending
      match e with
      | some e => (w, n, some e)
      | none => writeLoop { w with pending := #[] } buf off n fuel) := rfl

/-- `Writer.Reset` (`Frame.Reset` restores the block size index a legacy frame had replaced) -/
theorem reset_eq (w : W) (f : Option Nat) : reset w f =
  { w with cfg := (if w.savedIdx ≠ 0 then { w.cfg with flags := blockSizeIndexSet w.cfg.flags w.savedIdx.toUInt16 } else w.cfg),
           savedIdx := 0, st := stNew, err := none, deferred := none, sink := { failAt := f } } := rfl

/-- with nothing saved (no legacy frame since the last `Reset`) `Reset` leaves the options alone -/
theorem reset_cfg_of_saved_zero {w : W} (h : w.savedIdx = 0) (f : Option Nat) : (reset w f).cfg = w.cfg := by
  rw [reset_eq]
  show (if w.savedIdx ≠ 0 then _ else w.cfg) = w.cfg
  rw [if_neg (by rw [h]; exact fun h => h rfl)]

/-- the configuration after `Reset` depends on the configuration and the saved index only -/
theorem reset_cfg_congr {a b : W} (hc : a.cfg = b.cfg) (hs : a.savedIdx = b.savedIdx) (f g : Option Nat) :
    (reset a f).cfg = (reset b g).cfg := by
  rw [reset_eq, reset_eq]
  show (if a.savedIdx ≠ 0 then _ else a.cfg) = (if b.savedIdx ≠ 0 then _ else b.cfg)
  rw [hc, hs]

theorem reset_saved (w : W) (f : Option Nat) : (reset w f).savedIdx = 0 := rfl

theorem apply_eq (w : W) (opts : List Opt) : apply w opts =
  (if w.st = stError then (w, w.err)
  else if w.st ≠ stNew then (check w (some .closedOrError), some .closedOrError)
  else
    let w := reset w w.sink.failAt
    let (c, e) := apply.go w.cfg opts
    let w := { w with cfg := c }
    (check w e, e)) := rfl


/-! ## `st` and `err` are only changed by `next`, `check` and `reset` -/

theorem writeOne_st (w : W) (d : Array UInt8) : (writeOne w d).1.st = w.st ∧ (writeOne w d).1.err = w.err := by
  unfold writeOne
  rcases writeBlock w.cfg w.magicLegacy w.cks w.sink d with ⟨s, c, e⟩
  dsimp only
  split
  · exact ⟨rfl, rfl⟩
  · split <;> exact ⟨rfl, rfl⟩

theorem writeLoop_st (buf : Array UInt8) : ∀ (fuel : Nat) (w : W) (off n : Nat),
    (writeLoop w buf off n fuel).1.st = w.st ∧ (writeLoop w buf off n fuel).1.err = w.err := by
  intro fuel
  induction fuel with
  | zero => intro w off n; exact ⟨rfl, rfl⟩
  | succ fuel ih =>
    intro w off n
    rw [writeLoop_succ]
    dsimp only
    split
    · exact ⟨rfl, rfl⟩
    · split
      · have := writeOne_st w (buf.extract off (off + w.bufSize))
        generalize writeOne w _ = r at this ⊢
        obtain ⟨w1, e1⟩ := r
        cases e1 with
        | some e => exact this
        | none =>
          dsimp only at this ⊢
          rw [(ih _ _ _).1, (ih _ _ _).2]; exact this
      · split
        · exact ⟨rfl, rfl⟩
        · have := writeOne_st { w with pending := w.pending ++ buf.extract off (off + min (w.bufSize - w.pending.size) (buf.size - off)) }
            (w.pending ++ buf.extract off (off + min (w.bufSize - w.pending.size) (buf.size - off)))
          generalize writeOne _ _ = r at this ⊢
          obtain ⟨w1, e1⟩ := r
          cases e1 with
          | some e => exact this
          | none =>
            dsimp only at this ⊢
            rw [(ih _ _ _).1, (ih _ _ _).2]; exact this

theorem rfLoop_st (size : Nat) : ∀ (fuel : Nat) (w : W) (src : Source) (n : Nat),
    (readFrom.loop size w src n fuel).1.st = w.st ∧ (readFrom.loop size w src n fuel).1.err = w.err := by
  intro fuel
  induction fuel with
  | zero => intro w src n; exact ⟨rfl, rfl⟩
  | succ fuel ih =>
    intro w src n
    rw [rfLoop_succ]
    rcases readFull src size with ⟨s1, got, e⟩
    dsimp only
    split
    · exact ⟨rfl, rfl⟩
    · have := writeOne_st w got
      generalize writeOne w got = r at this ⊢
      obtain ⟨w1, e1⟩ := r
      cases e1 with
      | some e => exact this
      | none =>
        dsimp only at this ⊢
        split
        · exact this
        · rw [(ih _ _ _).1, (ih _ _ _).2]; exact this

theorem init_st (w : W) : (init w).1.st = w.st ∧ (init w).1.err = w.err := ⟨rfl, rfl⟩

theorem flushGo_st (w : W) : (flushGo w).1.st = w.st ∧ (flushGo w).1.err = w.err := by
  unfold flushGo
  split
  · have := writeOne_st w w.pending
    generalize writeOne w w.pending = r at this ⊢
    obtain ⟨w1, e1⟩ := r
    cases e1 <;> exact this
  · exact ⟨rfl, rfl⟩

theorem closeW_st (w : W) : (closeW w).1.st = w.st ∧ (closeW w).1.err = w.err := by
  unfold closeW
  split
  · exact ⟨rfl, rfl⟩
  · split
    · exact ⟨rfl, rfl⟩
    · exact ⟨rfl, rfl⟩

/-! ## the invariant `WF` -/

theorem _root_.Lz4V.Props.C17.WF.of_st {a b : W} (h : WF a) (h1 : b.st = a.st) (h2 : b.err = a.err) : WF b :=
  ⟨by rw [h1]; exact h.four, by rw [h1, h2]; exact h.err⟩

theorem wf_error (w : W) (e : Err) : WF { w with st := stError, err := some e } :=
  ⟨Or.inr (Or.inr (Or.inr rfl)), fun _ => by simp⟩

theorem check_wf {w : W} (h : WF w) (e : Option Err) : WF (check w e) := by
  unfold check
  split
  · exact h
  · rename_i hne
    cases e with
    | none => exact h
    | some e =>
      dsimp only
      split
      · exact ⟨h.four, fun h' => absurd h' hne⟩
      · exact wf_error w e

theorem next_wf {w : W} (h : WF w) (e : Option Err) : WF (next w e).1 := by
  cases e with
  | some e => exact wf_error w e
  | none =>
    show WF { w with st := writerStates w.st }
    rcases h.four with h' | h' | h' | h' <;>
      refine ⟨?_, ?_⟩ <;> simp [h', writerStates, stNo, stNew, stWrite, stClosed, stError]

theorem next_bad (w : W) (e : Option Err) : (next w e).2 = e.isSome := by
  cases e <;> rfl

theorem writeGo_wf {w : W} (h : WF w) (buf : Array UInt8) : WF (writeGo buf w).1 := by
  unfold writeGo
  have := writeLoop_st buf (buf.size + 2) w 0 0
  generalize writeLoop w buf 0 0 (buf.size + 2) = r at this ⊢
  obtain ⟨w1, n, e⟩ := r
  exact check_wf (h.of_st this.1 this.2) e

theorem rfGo_wf {w : W} (h : WF w) (src : Source) : WF (rfGo src w).1 := by
  unfold rfGo
  dsimp only
  have := rfLoop_st (poolSize (blockSizeIndex w.cfg.flags)) (src.data.size / (max (poolSize (blockSizeIndex w.cfg.flags)) 1) + 3) w src 0
  generalize readFrom.loop _ w src 0 _ = r at this ⊢
  obtain ⟨w1, s, n, e⟩ := r
  exact check_wf (h.of_st this.1 this.2) e

theorem init_next_wf {w : W} (h : WF w) : WF (next (init w).1 (init w).2).1 := by
  have : WF (init w).1 := h.of_st rfl rfl
  exact next_wf this _

theorem write_wf {w : W} (h : WF w) (buf : Array UInt8) : WF (write w buf).1 := by
  rw [write_eq]
  split
  · exact writeGo_wf h buf
  · split
    · exact check_wf h (some .closedPipe)
    · split
      · exact h
      · split
        · have := init_next_wf h
          generalize init w = r at this ⊢
          obtain ⟨w1, e⟩ := r
          dsimp only at this ⊢
          generalize next w1 e = r2 at this ⊢
          obtain ⟨w2, bad⟩ := r2
          dsimp only at this ⊢
          split
          · exact check_wf this e
          · exact writeGo_wf this buf
        · exact wf_error w _

theorem flushGo_wf {w : W} (h : WF w) : WF (flushGo w).1 := h.of_st (flushGo_st w).1 (flushGo_st w).2

theorem flush_wf {w : W} (h : WF w) : WF (flush w).1 := by
  rw [flush_eq]
  split
  · exact flushGo_wf h
  · split
    · exact h
    · split
      · have := init_next_wf h
        generalize init w = r at this ⊢
        obtain ⟨w1, e⟩ := r
        dsimp only at this ⊢
        generalize next w1 e = r2 at this ⊢
        obtain ⟨w2, bad⟩ := r2
        dsimp only at this ⊢
        split
        · exact this
        · exact flushGo_wf this
      · exact h

theorem closeRest_wf {r : W × Option Err} (h : WF r.1) : WF (closeRest r).1 := by
  unfold closeRest
  split
  · exact h
  · have := closeW_st r.1
    generalize closeW r.1 = r2 at this ⊢
    obtain ⟨w1, e⟩ := r2
    dsimp only at this ⊢
    have h1 : WF w1 := h.of_st this.1 this.2
    have h2 : WF { w1 with pending := #[], bufSize := 0 } := h1.of_st rfl rfl
    exact next_wf h2 e

theorem close_wf {w : W} (h : WF w) : WF (close w).1 := by
  rw [close_eq]
  split
  · exact h
  · exact closeRest_wf (flush_wf h)

theorem readFrom_wf {w : W} (h : WF w) (src : Source) : WF (readFrom w src).1 := by
  rw [readFrom_eq]
  split
  · exact h
  · split
    · exact h
    · split
      · have := init_next_wf h
        generalize init w = r at this ⊢
        obtain ⟨w1, e⟩ := r
        dsimp only at this ⊢
        generalize next w1 e = r2 at this ⊢
        obtain ⟨w2, bad⟩ := r2
        dsimp only at this ⊢
        split
        · exact this
        · exact rfGo_wf this src
      · exact wf_error w _

theorem reset_wf (w : W) (f : Option Nat) : WF (reset w f) :=
  ⟨Or.inl rfl, fun h => by simp [reset, stNew, stError] at h⟩

theorem apply_wf {w : W} (h : WF w) (opts : List Opt) : WF (apply w opts).1 := by
  rw [apply_eq]
  split
  · exact h
  · split
    · exact check_wf h (some .closedOrError)
    · dsimp only
      generalize apply.go _ opts = r
      obtain ⟨c, e⟩ := r
      have h2 : WF { reset w w.sink.failAt with cfg := c } := (reset_wf w w.sink.failAt).of_st rfl rfl
      exact check_wf h2 e

theorem new_wf (f : Option Nat) : WF (new f) := ⟨Or.inl rfl, fun h => by simp [new, stNew, stError] at h⟩

theorem wstep_wf {w : W} (h : WF w) (op : WOp) : WF (wstep w op).1 := by
  cases op with
  | apply opts => exact apply_wf h opts
  | write buf => exact write_wf h buf
  | flush => exact flush_wf h
  | close => exact close_wf h
  | reset f => exact reset_wf w f
  | readFrom src => exact readFrom_wf h src

theorem wrunFrom_wf (ops : List WOp) : ∀ {w : W}, WF w → WF (wrunFrom w ops) := by
  induction ops with
  | nil => intro w h; exact h
  | cons op ops ih => intro w h; exact ih (wstep_wf h op)


/-! ## the calls, state by state -/

theorem write_write {w : W} (h : w.st = stWrite) (buf : Array UInt8) : write w buf = writeGo buf w := by
  rw [write_eq, if_pos h]
theorem write_closed {w : W} (h : w.st = stClosed) (buf : Array UInt8) :
    write w buf = (check w (some .closedPipe), 0, some .closedPipe) := by
  rw [write_eq, if_neg (by rw [h]; decide), if_pos h]
theorem write_error {w : W} (h : w.st = stError) (buf : Array UInt8) : write w buf = (w, 0, w.err) := by
  rw [write_eq, if_neg (by rw [h]; decide), if_neg (by rw [h]; decide), if_pos h]
theorem write_new {w : W} (h : w.st = stNew) (buf : Array UInt8) : write w buf =
    (let (w, e) := init w
     let (w, bad) := next w e
     if bad then (check w e, 0, e) else writeGo buf w) := by
  rw [write_eq, if_neg (by rw [h]; decide), if_neg (by rw [h]; decide), if_neg (by rw [h]; decide), if_pos h]

theorem flush_write {w : W} (h : w.st = stWrite) : flush w = flushGo w := by
  rw [flush_eq, if_pos h]
theorem flush_closed {w : W} (h : w.st = stClosed) : flush w = (w, none) := by
  rw [flush_eq, if_neg (by rw [h]; decide), if_neg (by rw [h]; decide), if_neg (by rw [h]; decide)]
theorem flush_error {w : W} (h : w.st = stError) : flush w = (w, w.err) := by
  rw [flush_eq, if_neg (by rw [h]; decide), if_pos h]
theorem flush_new {w : W} (h : w.st = stNew) : flush w =
    (let (w, e) := init w
     let (w, bad) := next w e
     if bad then (w, e) else flushGo w) := by
  rw [flush_eq, if_neg (by rw [h]; decide), if_neg (by rw [h]; decide), if_pos h]

theorem readFrom_write {w : W} (h : w.st = stWrite) (src : Source) : readFrom w src =
    ({ w with st := stError, err := some .unhandledState }, src, 0, some .unhandledState) := by
  rw [readFrom_eq, if_neg (by rw [h]; decide), if_neg (by rw [h]; decide), if_neg (by rw [h]; decide)]
theorem readFrom_closed {w : W} (h : w.st = stClosed) (src : Source) :
    readFrom w src = (w, src, 0, some .closedPipe) := by
  rw [readFrom_eq, if_pos h]
theorem readFrom_error {w : W} (h : w.st = stError) (src : Source) : readFrom w src = (w, src, 0, w.err) := by
  rw [readFrom_eq, if_neg (by rw [h]; decide), if_pos h]
theorem readFrom_new {w : W} (h : w.st = stNew) (src : Source) : readFrom w src =
    (let (w, e) := init w
     let (w, bad) := next w e
     if bad then (w, src, 0, e) else rfGo src w) := by
  rw [readFrom_eq, if_neg (by rw [h]; decide), if_neg (by rw [h]; decide), if_pos h]

theorem close_closed {w : W} (h : w.st = stClosed) : close w = (w, none) := by
  rw [close_eq, if_pos h]
theorem close_other {w : W} (h : w.st ≠ stClosed) : close w = closeRest (flush w) := by
  rw [close_eq, if_neg h]

theorem apply_error {w : W} (h : w.st = stError) (opts : List Opt) : apply w opts = (w, w.err) := by
  rw [apply_eq, if_pos h]
theorem apply_other {w : W} (h : w.st ≠ stError) (h' : w.st ≠ stNew) (opts : List Opt) :
    apply w opts = (check w (some .closedOrError), some .closedOrError) := by
  rw [apply_eq, if_neg h, if_pos h']
theorem apply_new {w : W} (h : w.st = stNew) (opts : List Opt) : apply w opts =
    (check { reset w w.sink.failAt with cfg := (apply.go (reset w w.sink.failAt).cfg opts).1 }
        (apply.go (reset w w.sink.failAt).cfg opts).2, (apply.go (reset w w.sink.failAt).cfg opts).2) := by
  rw [apply_eq, if_neg (by rw [h]; decide), if_neg (by rw [h]; simp)]

theorem check_some_ne_eof {w : W} (h : w.st ≠ stError) (e : Err) (he : e ≠ .eof) :
    check w (some e) = { w with st := stError, err := some e } := by
  unfold check
  rw [if_neg h]
  dsimp only
  rw [if_neg he]


/-! ## no function reads the `flags` field of `W`: simulation up to `FE` -/

macro "fe_fields" : tactic =>
  `(tactic| (refine ⟨?_, ?_, ?_, ?_, ?_, ?_, ?_, ?_, ?_, ?_⟩ <;> first | rfl | assumption))
macro "fe_pair" : tactic =>
  `(tactic| (refine ⟨?_, rfl⟩; fe_fields))

theorem _root_.Lz4V.Props.C17.FE.refl (a : W) : FE a a := ⟨rfl, rfl, rfl, rfl, rfl, rfl, rfl, rfl, rfl, rfl⟩

theorem _root_.Lz4V.Props.C17.FE.mk' (c s e f1 f2 ml p bs k d sv sk) : FE ⟨c, s, e, f1, ml, p, bs, k, d, sv, sk⟩ ⟨c, s, e, f2, ml, p, bs, k, d, sv, sk⟩ :=
  ⟨rfl, rfl, rfl, rfl, rfl, rfl, rfl, rfl, rfl, rfl⟩

theorem _root_.Lz4V.Props.C17.FE.elim {a b : W} (h : FE a b) : ∃ c s e f1 f2 ml p bs k d sv sk,
    a = ⟨c, s, e, f1, ml, p, bs, k, d, sv, sk⟩ ∧ b = ⟨c, s, e, f2, ml, p, bs, k, d, sv, sk⟩ := by
  obtain ⟨c, s, e, f1, ml, p, bs, k, d, sv, sk⟩ := a
  obtain ⟨c', s', e', f2, ml', p', bs', k', d', sv', sk'⟩ := b
  obtain ⟨h1, h2, h3, h4, h5, h6, h7, h8, h9, h10⟩ := h
  dsimp only at h1 h2 h3 h4 h5 h6 h7 h8 h9 h10
  subst h1 h2 h3 h4 h5 h6 h7 h8 h9 h10
  exact ⟨_, _, _, _, _, _, _, _, _, _, _, _, rfl, rfl⟩

/-- `Sim F a b`: `F` gives `FE`-related states and equal results -/
abbrev Sim {β : Type} (ra rb : W × β) : Prop := FE ra.1 rb.1 ∧ ra.2 = rb.2

theorem writeOne_FE {a b : W} (h : FE a b) (d : Array UInt8) : Sim (writeOne a d) (writeOne b d) := by
  unfold writeOne
  rw [h.cfg, h.ml, h.cks, h.sink, h.deferred]
  rcases writeBlock b.cfg b.magicLegacy b.cks b.sink d with ⟨s, c, e⟩
  obtain ⟨h1, h2, h3, h4, h5, h6, h7, h8, h9, h10⟩ := h
  dsimp only
  split
  · fe_pair
  · split
    · fe_pair
    · fe_pair

theorem writeLoop_FE (buf : Array UInt8) : ∀ (fuel : Nat) (a b : W) (off n : Nat), FE a b →
    Sim (writeLoop a buf off n fuel) (writeLoop b buf off n fuel) := by
  intro fuel
  induction fuel with
  | zero => intro a b off n h; exact ⟨h, rfl⟩
  | succ fuel ih =>
    intro a b off n h
    obtain ⟨c, s, e, f1, f2, ml, p, bs, k, d, sv, sk, rfl, rfl⟩ := h.elim
    rw [writeLoop_succ, writeLoop_succ]
    dsimp only
    split
    · exact ⟨h, rfl⟩
    · split
      · have := writeOne_FE h (buf.extract off (off + bs))
        generalize writeOne (W.mk _ _ _ f1 _ _ _ _ _ _ _) _ = ra at this ⊢
        generalize writeOne (W.mk _ _ _ f2 _ _ _ _ _ _ _) _ = rb at this ⊢
        obtain ⟨a1, e1⟩ := ra
        obtain ⟨b1, e2⟩ := rb
        obtain ⟨hfe, he⟩ := this
        dsimp only at he hfe ⊢
        subst he
        cases e1 with
        | some e => exact ⟨hfe, rfl⟩
        | none => exact ih _ _ _ _ hfe
      · split
        · exact ⟨FE.mk' .., rfl⟩
        · have := writeOne_FE (FE.mk' c s e f1 f2 ml (p ++ buf.extract off (off + min (bs - p.size) (buf.size - off))) bs k d sv sk)
            (p ++ buf.extract off (off + min (bs - p.size) (buf.size - off)))
          generalize writeOne (W.mk _ _ _ f1 _ _ _ _ _ _ _) _ = ra at this ⊢
          generalize writeOne (W.mk _ _ _ f2 _ _ _ _ _ _ _) _ = rb at this ⊢
          obtain ⟨a1, e1⟩ := ra
          obtain ⟨b1, e2⟩ := rb
          obtain ⟨hfe, he⟩ := this
          dsimp only at he hfe ⊢
          subst he
          cases e1 with
          | some e => exact ⟨hfe, rfl⟩
          | none =>
            apply ih
            obtain ⟨g1, g2, g3, g4, g5, g6, g7, g8, g9, g10⟩ := hfe
            fe_fields

theorem rfLoop_FE (size : Nat) : ∀ (fuel : Nat) (a b : W) (src : Source) (n : Nat), FE a b →
    Sim (readFrom.loop size a src n fuel) (readFrom.loop size b src n fuel) := by
  intro fuel
  induction fuel with
  | zero => intro a b src n h; exact ⟨h, rfl⟩
  | succ fuel ih =>
    intro a b src n h
    rw [rfLoop_succ, rfLoop_succ]
    rcases readFull src size with ⟨s1, got, e⟩
    dsimp only
    split
    · exact ⟨h, rfl⟩
    · have := writeOne_FE h got
      generalize writeOne a got = ra at this ⊢
      generalize writeOne b got = rb at this ⊢
      obtain ⟨a1, e1⟩ := ra
      obtain ⟨b1, e2⟩ := rb
      obtain ⟨hfe, he⟩ := this
      dsimp only at he hfe ⊢
      subst he
      cases e1 with
      | some e => exact ⟨hfe, rfl⟩
      | none =>
        dsimp only
        split
        · exact ⟨hfe, rfl⟩
        · exact ih _ _ _ _ hfe

theorem check_FE {a b : W} (h : FE a b) (e : Option Err) : FE (check a e) (check b e) := by
  obtain ⟨c, s, e', f1, f2, ml, p, bs, k, d, sv, sk, rfl, rfl⟩ := h.elim
  unfold check
  dsimp only
  split
  · exact h
  · cases e with
    | none => exact h
    | some e =>
      dsimp only
      split <;> exact FE.mk' ..

theorem next_FE {a b : W} (h : FE a b) (e : Option Err) : Sim (next a e) (next b e) := by
  obtain ⟨c, s, e', f1, f2, ml, p, bs, k, d, sv, sk, rfl, rfl⟩ := h.elim
  cases e with
  | none => exact ⟨FE.mk' .., rfl⟩
  | some e => exact ⟨FE.mk' .., rfl⟩

/-- the part of the state that `init` (and `Reset`) reads -/
structure OE (a b : W) : Prop where
  cfg : a.cfg = b.cfg
  st : a.st = b.st
  err : a.err = b.err
  sink : a.sink = b.sink
  saved : a.savedIdx = b.savedIdx

theorem _root_.Lz4V.Props.C17.FE.oe {a b : W} (h : FE a b) : OE a b := ⟨h.cfg, h.st, h.err, h.sink, h.saved⟩

/-- `init` re-initialises every frame field: two Writers that agree on `OE` agree on everything afterwards -/
theorem init_OE {a b : W} (h : OE a b) : Sim (init a) (init b) := by
  obtain ⟨c, s, e, f1, ml, p, bs, k, d, sv, sk⟩ := a
  obtain ⟨c', s', e', f2, ml', p', bs', k', d', sv', sk'⟩ := b
  obtain ⟨h1, h2, h3, h4, h5⟩ := h
  dsimp only at h1 h2 h3 h4 h5
  subst h1 h2 h3 h4 h5
  unfold init
  dsimp only
  generalize Sink.write sk _ = r
  obtain ⟨s1, e1⟩ := r
  exact ⟨⟨rfl, rfl, rfl, rfl, rfl, rfl, rfl, rfl, rfl, rfl⟩, rfl⟩

theorem initNext_OE {a b : W} (h : OE a b) :
    Sim (next (init a).1 (init a).2) (next (init b).1 (init b).2) ∧ (init a).2 = (init b).2 := by
  have := init_OE h
  rw [this.2]
  exact ⟨next_FE this.1 _, rfl⟩

theorem writeGo_FE {a b : W} (h : FE a b) (buf : Array UInt8) : Sim (writeGo buf a) (writeGo buf b) := by
  unfold writeGo
  have := writeLoop_FE buf (buf.size + 2) a b 0 0 h
  generalize writeLoop a buf 0 0 (buf.size + 2) = ra at this ⊢
  generalize writeLoop b buf 0 0 (buf.size + 2) = rb at this ⊢
  obtain ⟨a1, n1, e1⟩ := ra
  obtain ⟨b1, n2, e2⟩ := rb
  obtain ⟨hfe, he⟩ := this
  dsimp only at he hfe ⊢
  simp only [Prod.mk.injEq] at he
  obtain ⟨rfl, rfl⟩ := he
  exact ⟨check_FE hfe _, rfl⟩

theorem rfGo_FE {a b : W} (h : FE a b) (src : Source) : Sim (rfGo src a) (rfGo src b) := by
  unfold rfGo
  rw [h.cfg]
  dsimp only
  have := rfLoop_FE (poolSize (blockSizeIndex b.cfg.flags)) (src.data.size / (max (poolSize (blockSizeIndex b.cfg.flags)) 1) + 3) a b src 0 h
  generalize readFrom.loop _ a src 0 _ = ra at this ⊢
  generalize readFrom.loop _ b src 0 _ = rb at this ⊢
  obtain ⟨a1, s1, n1, e1⟩ := ra
  obtain ⟨b1, s2, n2, e2⟩ := rb
  obtain ⟨hfe, he⟩ := this
  dsimp only at he hfe ⊢
  simp only [Prod.mk.injEq] at he
  obtain ⟨rfl, rfl, rfl⟩ := he
  exact ⟨check_FE hfe _, rfl⟩

theorem flushGo_FE {a b : W} (h : FE a b) : Sim (flushGo a) (flushGo b) := by
  unfold flushGo
  rw [h.pending]
  split
  · have := writeOne_FE h b.pending
    generalize writeOne a b.pending = ra at this ⊢
    generalize writeOne b b.pending = rb at this ⊢
    obtain ⟨a1, e1⟩ := ra
    obtain ⟨b1, e2⟩ := rb
    obtain ⟨hfe, he⟩ := this
    dsimp only at he hfe ⊢
    subst he
    cases e1 with
    | some e => exact ⟨hfe, rfl⟩
    | none =>
      obtain ⟨g1, g2, g3, g4, g5, g6, g7, g8, g9, g10⟩ := hfe
      dsimp only
      fe_pair
  · exact ⟨h, rfl⟩

theorem closeW_FE {a b : W} (h : FE a b) : Sim (closeW a) (closeW b) := by
  obtain ⟨c, s, e', f1, f2, ml, p, bs, k, d, sv, sk, rfl, rfl⟩ := h.elim
  unfold closeW
  dsimp only
  split
  · exact ⟨FE.mk' .., rfl⟩
  · split
    · exact ⟨h, rfl⟩
    · generalize Sink.write sk _ = r
      obtain ⟨s1, e1⟩ := r
      exact ⟨FE.mk' .., rfl⟩

theorem closeRest_FE {ra rb : W × Option Err} (h : Sim ra rb) : Sim (closeRest ra) (closeRest rb) := by
  obtain ⟨a, e1⟩ := ra
  obtain ⟨b, e2⟩ := rb
  obtain ⟨hfe, he⟩ := h
  dsimp only at hfe he
  subst he
  unfold closeRest
  dsimp only
  cases e1 with
  | some e => exact ⟨hfe, rfl⟩
  | none =>
    dsimp only
    have := closeW_FE hfe
    generalize closeW a = ra at this ⊢
    generalize closeW b = rb at this ⊢
    obtain ⟨a1, e1⟩ := ra
    obtain ⟨b1, e2⟩ := rb
    obtain ⟨hfe, he⟩ := this
    dsimp only at he hfe ⊢
    subst he
    obtain ⟨g1, g2, g3, g4, g5, g6, g7, g8, g9, g10⟩ := hfe
    have h2 : FE { a1 with pending := #[], bufSize := 0 } { b1 with pending := #[], bufSize := 0 } := by fe_fields
    exact ⟨(next_FE h2 e1).1, rfl⟩


/-! ## one call on two observationally equivalent Writers -/

/-- related results: equal up to `flags`, or equal on `OE` and not in the middle of a frame -/
def Rel (a b : W) : Prop := FE a b ∨ (OE a b ∧ a.st ≠ stWrite)

theorem obsEq_of_rel {a b : W} (hw : WF a) (h : Rel a b) : obsEq a b := by
  rcases h with h | ⟨h, hne⟩
  · exact ⟨hw, h.cfg, h.st, h.err, h.sink, h.saved, fun _ => h⟩
  · exact ⟨hw, h.cfg, h.st, h.err, h.sink, h.saved, fun h' => absurd h' hne⟩

theorem _root_.Lz4V.Props.C17.obsEq.oe {a b : W} (h : obsEq a b) : OE a b := ⟨h.cfg, h.st, h.err, h.sink, h.saved⟩

theorem oe_error {a b : W} (h : OE a b) (e : Err) :
    Rel { a with st := stError, err := some e } { b with st := stError, err := some e } :=
  Or.inr ⟨⟨h.cfg, rfl, rfl, h.sink, h.saved⟩, by show stError ≠ stWrite; decide⟩

theorem oe_self {a b : W} (h : OE a b) (hne : a.st ≠ stWrite) : Rel a b := Or.inr ⟨h, hne⟩

theorem write_new_sim {a b : W} (h : OE a b) (hs : a.st = stNew) (buf : Array UInt8) :
    Sim (write a buf) (write b buf) := by
  rw [write_new hs, write_new (h.st ▸ hs)]
  have := initNext_OE h
  generalize init a = ra at this ⊢
  generalize init b = rb at this ⊢
  obtain ⟨a1, e1⟩ := ra
  obtain ⟨b1, e2⟩ := rb
  dsimp only at this ⊢
  obtain ⟨hsim, he⟩ := this
  subst he
  generalize next a1 e1 = na at hsim ⊢
  generalize next b1 e1 = nb at hsim ⊢
  obtain ⟨a2, bad1⟩ := na
  obtain ⟨b2, bad2⟩ := nb
  obtain ⟨hfe, hb⟩ := hsim
  dsimp only at hfe hb ⊢
  subst hb
  split
  · exact ⟨check_FE hfe _, rfl⟩
  · exact writeGo_FE hfe buf

theorem flush_new_sim {a b : W} (h : OE a b) (hs : a.st = stNew) : Sim (flush a) (flush b) := by
  rw [flush_new hs, flush_new (h.st ▸ hs)]
  have := initNext_OE h
  generalize init a = ra at this ⊢
  generalize init b = rb at this ⊢
  obtain ⟨a1, e1⟩ := ra
  obtain ⟨b1, e2⟩ := rb
  dsimp only at this ⊢
  obtain ⟨hsim, he⟩ := this
  subst he
  generalize next a1 e1 = na at hsim ⊢
  generalize next b1 e1 = nb at hsim ⊢
  obtain ⟨a2, bad1⟩ := na
  obtain ⟨b2, bad2⟩ := nb
  obtain ⟨hfe, hb⟩ := hsim
  dsimp only at hfe hb ⊢
  subst hb
  split
  · exact ⟨hfe, rfl⟩
  · exact flushGo_FE hfe

theorem readFrom_new_sim {a b : W} (h : OE a b) (hs : a.st = stNew) (src : Source) :
    Sim (readFrom a src) (readFrom b src) := by
  rw [readFrom_new hs, readFrom_new (h.st ▸ hs)]
  have := initNext_OE h
  generalize init a = ra at this ⊢
  generalize init b = rb at this ⊢
  obtain ⟨a1, e1⟩ := ra
  obtain ⟨b1, e2⟩ := rb
  dsimp only at this ⊢
  obtain ⟨hsim, he⟩ := this
  subst he
  generalize next a1 e1 = na at hsim ⊢
  generalize next b1 e1 = nb at hsim ⊢
  obtain ⟨a2, bad1⟩ := na
  obtain ⟨b2, bad2⟩ := nb
  obtain ⟨hfe, hb⟩ := hsim
  dsimp only at hfe hb ⊢
  subst hb
  split
  · exact ⟨hfe, rfl⟩
  · exact rfGo_FE hfe src

theorem write_obs {a b : W} (h : obsEq a b) (buf : Array UInt8) :
    Rel (write a buf).1 (write b buf).1 ∧ (write a buf).2 = (write b buf).2 := by
  rcases h.wf.four with hs | hs | hs | hs
  · have := write_new_sim h.oe hs buf
    exact ⟨Or.inl this.1, this.2⟩
  · rw [write_write hs, write_write (h.st ▸ hs)]
    have := writeGo_FE (h.open_ hs) buf
    exact ⟨Or.inl this.1, this.2⟩
  · have hne : a.st ≠ stError := by rw [hs]; decide
    rw [write_closed hs, write_closed (h.st ▸ hs), check_some_ne_eof hne _ (by decide),
      check_some_ne_eof (h.st ▸ hne) _ (by decide)]
    exact ⟨oe_error h.oe _, rfl⟩
  · rw [write_error hs, write_error (h.st ▸ hs), h.err]
    exact ⟨oe_self h.oe (by rw [hs]; decide), rfl⟩

theorem flush_obs {a b : W} (h : obsEq a b) :
    Rel (flush a).1 (flush b).1 ∧ (flush a).2 = (flush b).2 := by
  rcases h.wf.four with hs | hs | hs | hs
  · have := flush_new_sim h.oe hs
    exact ⟨Or.inl this.1, this.2⟩
  · rw [flush_write hs, flush_write (h.st ▸ hs)]
    have := flushGo_FE (h.open_ hs)
    exact ⟨Or.inl this.1, this.2⟩
  · rw [flush_closed hs, flush_closed (h.st ▸ hs)]
    exact ⟨oe_self h.oe (by rw [hs]; decide), rfl⟩
  · rw [flush_error hs, flush_error (h.st ▸ hs), h.err]
    exact ⟨oe_self h.oe (by rw [hs]; decide), rfl⟩

theorem closeRest_some (w : W) (e : Err) : closeRest (w, some e) = (w, some e) := rfl

theorem close_obs {a b : W} (h : obsEq a b) :
    Rel (close a).1 (close b).1 ∧ (close a).2 = (close b).2 := by
  rcases h.wf.four with hs | hs | hs | hs
  · have hne : a.st ≠ stClosed := by rw [hs]; decide
    rw [close_other hne, close_other (h.st ▸ hne)]
    have := closeRest_FE (flush_new_sim h.oe hs)
    exact ⟨Or.inl this.1, this.2⟩
  · have hne : a.st ≠ stClosed := by rw [hs]; decide
    rw [close_other hne, close_other (h.st ▸ hne), flush_write hs, flush_write (h.st ▸ hs)]
    have := closeRest_FE (flushGo_FE (h.open_ hs))
    exact ⟨Or.inl this.1, this.2⟩
  · rw [close_closed hs, close_closed (h.st ▸ hs)]
    exact ⟨oe_self h.oe (by rw [hs]; decide), rfl⟩
  · have hne : a.st ≠ stClosed := by rw [hs]; decide
    rw [close_other hne, close_other (h.st ▸ hne), flush_error hs, flush_error (h.st ▸ hs), ← h.err]
    have he := h.wf.err hs
    cases hea : a.err with
    | none => exact absurd hea he
    | some e =>
      rw [closeRest_some, closeRest_some]
      exact ⟨oe_self h.oe (by rw [hs]; decide), rfl⟩

theorem readFrom_obs {a b : W} (h : obsEq a b) (src : Source) :
    Rel (readFrom a src).1 (readFrom b src).1 ∧ (readFrom a src).2 = (readFrom b src).2 := by
  rcases h.wf.four with hs | hs | hs | hs
  · have := readFrom_new_sim h.oe hs src
    exact ⟨Or.inl this.1, this.2⟩
  · rw [readFrom_write hs, readFrom_write (h.st ▸ hs)]
    exact ⟨oe_error h.oe _, rfl⟩
  · rw [readFrom_closed hs, readFrom_closed (h.st ▸ hs)]
    exact ⟨oe_self h.oe (by rw [hs]; decide), rfl⟩
  · rw [readFrom_error hs, readFrom_error (h.st ▸ hs), h.err]
    exact ⟨oe_self h.oe (by rw [hs]; decide), rfl⟩

theorem check_st_ne_write {w : W} (h : w.st ≠ stWrite) (e : Option Err) : (check w e).st ≠ stWrite := by
  unfold check
  split
  · exact h
  · cases e with
    | none => exact h
    | some e =>
      dsimp only
      split
      · exact h
      · show stError ≠ stWrite; decide

theorem check_OE {a b : W} (h : OE a b) (e : Option Err) : OE (check a e) (check b e) := by
  unfold check
  by_cases hs : a.st = stError
  · rw [if_pos hs, if_pos (h.st ▸ hs)]; exact h
  · rw [if_neg hs, if_neg (h.st ▸ hs)]
    cases e with
    | none => exact h
    | some e =>
      dsimp only
      split
      · exact ⟨h.cfg, h.st, rfl, h.sink, h.saved⟩
      · exact ⟨h.cfg, rfl, rfl, h.sink, h.saved⟩

theorem apply_obs {a b : W} (h : obsEq a b) (opts : List Opt) :
    Rel (apply a opts).1 (apply b opts).1 ∧ (apply a opts).2 = (apply b opts).2 := by
  rcases h.wf.four with hs | hs | hs | hs
  · rw [apply_new hs, apply_new (h.st ▸ hs), h.sink, reset_cfg_congr h.cfg h.saved b.sink.failAt b.sink.failAt]
    generalize apply.go (reset b b.sink.failAt).cfg opts = r
    obtain ⟨c, e⟩ := r
    have hoe : OE { reset a b.sink.failAt with cfg := c } { reset b b.sink.failAt with cfg := c } := ⟨rfl, rfl, rfl, rfl, rfl⟩
    have hne : ({ reset a b.sink.failAt with cfg := c } : W).st ≠ stWrite := by show stNew ≠ stWrite; decide
    exact ⟨Or.inr ⟨check_OE hoe e, check_st_ne_write hne e⟩, rfl⟩
  · have h1 : a.st ≠ stError := by rw [hs]; decide
    have h2 : a.st ≠ stNew := by rw [hs]; decide
    rw [apply_other h1 h2, apply_other (h.st ▸ h1) (h.st ▸ h2)]
    exact ⟨Or.inl (check_FE (h.open_ hs) (some .closedOrError)), rfl⟩
  · have h1 : a.st ≠ stError := by rw [hs]; decide
    have h2 : a.st ≠ stNew := by rw [hs]; decide
    have h3 : a.st ≠ stWrite := by rw [hs]; decide
    rw [apply_other h1 h2, apply_other (h.st ▸ h1) (h.st ▸ h2)]
    exact ⟨Or.inr ⟨check_OE h.oe (some .closedOrError), check_st_ne_write h3 (some .closedOrError)⟩, rfl⟩
  · rw [apply_error hs, apply_error (h.st ▸ hs), h.err]
    exact ⟨oe_self h.oe (by rw [hs]; decide), rfl⟩

theorem reset_obs {a b : W} (h : obsEq a b) (f : Option Nat) : Rel (reset a f) (reset b f) :=
  Or.inr ⟨⟨reset_cfg_congr h.cfg h.saved f f, rfl, rfl, rfl, rfl⟩, by show stNew ≠ stWrite; decide⟩

theorem wstepFull_fst (w : W) (op : WOp) : (wstepFull w op).1 = (wstep w op).1 := by
  cases op <;> rfl

theorem wstepFull_err (w : W) (op : WOp) : (wstepFull w op).2.err = (wstep w op).2 := by
  cases op <;> rfl

/-- one call preserves observational equivalence and returns the same values -/
theorem wstepFull_obs {a b : W} (h : obsEq a b) (op : WOp) :
    obsEq (wstepFull a op).1 (wstepFull b op).1 ∧ (wstepFull a op).2 = (wstepFull b op).2 := by
  have hw : WF (wstepFull a op).1 := by rw [wstepFull_fst]; exact wstep_wf h.wf op
  refine ⟨obsEq_of_rel hw ?_, ?_⟩
  · cases op with
    | apply opts => exact (apply_obs h opts).1
    | write buf => exact (write_obs h buf).1
    | flush => exact (flush_obs h).1
    | close => exact (close_obs h).1
    | reset f => exact reset_obs h f
    | readFrom src => exact (readFrom_obs h src).1
  · cases op with
    | apply opts => show WRes.mk _ _ _ = WRes.mk _ _ _; rw [(apply_obs h opts).2]
    | write buf => show WRes.mk _ _ _ = WRes.mk _ _ _; rw [(write_obs h buf).2]
    | flush => show WRes.mk _ _ _ = WRes.mk _ _ _; rw [(flush_obs h).2]
    | close => show WRes.mk _ _ _ = WRes.mk _ _ _; rw [(close_obs h).2]
    | reset f => rfl
    | readFrom src => show WRes.mk _ _ _ = WRes.mk _ _ _; rw [(readFrom_obs h src).2]

theorem wstep_obs {a b : W} (h : obsEq a b) (op : WOp) :
    obsEq (wstep a op).1 (wstep b op).1 ∧ (wstep a op).2 = (wstep b op).2 := by
  have := wstepFull_obs h op
  rw [wstepFull_fst, wstepFull_fst] at this
  refine ⟨this.1, ?_⟩
  rw [← wstepFull_err, ← wstepFull_err, this.2]

/-- a whole call sequence on two observationally equivalent Writers -/
theorem wrun_obs (ops : List WOp) : ∀ {a b : W}, obsEq a b →
    obsEq (wrunFrom a ops) (wrunFrom b ops) ∧ wresults a ops = wresults b ops ∧
      wresultsFull a ops = wresultsFull b ops := by
  induction ops with
  | nil => intro a b h; exact ⟨h, rfl, rfl⟩
  | cons op ops ih =>
    intro a b h
    have h1 := wstep_obs h op
    have h2 := wstepFull_obs h op
    obtain ⟨g1, g2, g3⟩ := ih h1.1
    refine ⟨g1, ?_, ?_⟩
    · show _ :: _ = _ :: _
      rw [h1.2, g2]
    · show _ :: _ = _ :: _
      rw [h2.2]
      have := ih h2.1
      rw [this.2.2]


/-! ## `Flush` and `Close` in detail -/

theorem next_none (w : W) : next w none = ({ w with st := writerStates w.st }, false) := rfl
theorem next_some (w : W) (e : Err) : next w (some e) = ({ w with st := stError, err := some e }, true) := rfl

/-- a `Flush` that succeeds on a Writer that is neither closed nor failed leaves it in the write state
with nothing pending -/
theorem flush_ok {w : W} (hs : w.st = stNew ∨ w.st = stWrite) (h : (flush w).2 = none) :
    (flush w).1.st = stWrite ∧ (flush w).1.pending = #[] := by
  have goOK : ∀ w : W, (flushGo w).2 = none → (flushGo w).1.pending = #[] := by
    intro w h
    unfold flushGo at h ⊢
    split
    · rename_i hp
      rw [if_pos hp] at h
      generalize writeOne w w.pending = r at h ⊢
      obtain ⟨w1, e1⟩ := r
      cases e1 with
      | some e => simp at h
      | none => rfl
    · rename_i hp
      show w.pending = #[]
      exact Array.eq_empty_of_size_eq_zero (by omega)
  rcases hs with hs | hs
  · rw [flush_new hs] at h ⊢
    have hi : (init w).1.st = stNew := hs
    generalize init w = r at h hi ⊢
    obtain ⟨w1, e1⟩ := r
    dsimp only at h hi ⊢
    cases e1 with
    | some e => rw [next_some] at h; simp at h
    | none =>
      rw [next_none] at h ⊢
      dsimp only at h ⊢
      simp only [Bool.false_eq_true, if_false] at h ⊢
      refine ⟨?_, goOK _ h⟩
      rw [(flushGo_st _).1]
      show writerStates w1.st = stWrite
      rw [hi]; decide
  · rw [flush_write hs] at h ⊢
    exact ⟨by rw [(flushGo_st w).1, hs], goOK w h⟩

theorem closeRest_none {r : W × Option Err} (h : (closeRest r).2 = none) :
    r.2 = none ∧ (closeRest r).1.st = writerStates r.1.st := by
  obtain ⟨w, e⟩ := r
  cases e with
  | some e => simp [closeRest] at h
  | none =>
    refine ⟨rfl, ?_⟩
    unfold closeRest at h ⊢
    dsimp only at h ⊢
    have hst := closeW_st w
    generalize closeW w = r at h hst ⊢
    obtain ⟨w1, e1⟩ := r
    dsimp only at h hst ⊢
    subst h
    show writerStates w1.st = _
    rw [hst.1]

/-- a `Close` that returns no error leaves the Writer closed -/
theorem close_ok {w : W} (hw : WF w) (h : (close w).2 = none) : (close w).1.st = stClosed := by
  by_cases hc : w.st = stClosed
  · rw [close_closed hc]; exact hc
  · rw [close_other hc] at h ⊢
    obtain ⟨h1, h2⟩ := closeRest_none h
    rw [h2]
    rcases hw.four with hs | hs | hs | hs
    · rw [(flush_ok (Or.inl hs) h1).1]; decide
    · rw [(flush_ok (Or.inr hs) h1).1]; decide
    · exact absurd hs hc
    · rw [flush_error hs] at h1
      exact absurd h1 (hw.err hs)

/-- in the error state nothing happens, whatever is called (except `Reset`) -/
theorem error_step {w : W} (hw : WF w) (hs : w.st = stError) (op : WOp) (hop : ∀ f, op ≠ .reset f) :
    (wstep w op).1 = w ∧ (wstep w op).2 = w.err := by
  cases op with
  | apply opts => show (apply w opts).1 = w ∧ (apply w opts).2 = w.err; rw [apply_error hs]; exact ⟨rfl, rfl⟩
  | write buf =>
    show (write w buf).1 = w ∧ (write w buf).2.2 = w.err; rw [write_error hs]; exact ⟨rfl, rfl⟩
  | flush => show (flush w).1 = w ∧ (flush w).2 = w.err; rw [flush_error hs]; exact ⟨rfl, rfl⟩
  | close =>
    show (close w).1 = w ∧ (close w).2 = w.err
    rw [close_other (by rw [hs]; decide), flush_error hs]
    have := hw.err hs
    cases he : w.err with
    | none => exact absurd he this
    | some e => exact ⟨rfl, rfl⟩
  | reset f => exact absurd rfl (hop f)
  | readFrom src =>
    show (readFrom w src).1 = w ∧ (readFrom w src).2.2.2 = w.err; rw [readFrom_error hs]; exact ⟨rfl, rfl⟩

/-- `Apply` outside the new state fails and leaves the configuration alone -/
theorem apply_not_new {w : W} (hw : WF w) (h : w.st ≠ stNew) (opts : List Opt) :
    (apply w opts).2 ≠ none ∧ (apply w opts).1.cfg = w.cfg := by
  by_cases he : w.st = stError
  · rw [apply_error he]; exact ⟨hw.err he, rfl⟩
  · rw [apply_other he h, check_some_ne_eof he _ (by decide)]
    exact ⟨by simp, rfl⟩

end Lz4V.Proofs.Life

/-! # Reader part of the lifecycle proofs (C17) -/

namespace Lz4V.Props.C17
open Lz4V Lz4V.Go Lz4V.Gen Lz4V.Model

/-- a call on a Reader -/
inductive ROp where
  | read (n : Nat) | writeTo (sink : Sink) | size | reset (src : Source)

/-- everything a call returns -/
structure RRes where
  bytes : Array UInt8 := #[]
  n : Nat := 0
  sink : Option Sink := none
  err : Option Err := none

def rstep (r : FrameR.R) : ROp → FrameR.R × RRes
  | .read n => ((FrameR.read r n).1, { bytes := (FrameR.read r n).2.1, err := (FrameR.read r n).2.2 })
  | .writeTo sink => ((FrameR.writeTo r sink).1,
      { sink := some (FrameR.writeTo r sink).2.1, n := (FrameR.writeTo r sink).2.2.1, err := (FrameR.writeTo r sink).2.2.2 })
  | .size => (r, { n := FrameR.size r })
  | .reset src => (FrameR.reset r src, {})

def rrunFrom (r : FrameR.R) (ops : List ROp) : FrameR.R := ops.foldl (fun s op => (rstep s op).1) r

def rresults (r : FrameR.R) : List ROp → List RRes
  | [] => []
  | op :: ops => (rstep r op).2 :: rresults (rstep r op).1 ops

/-- the fields every state of the Reader exposes -/
structure PE (a b : FrameR.R) : Prop where
  st : a.st = b.st
  err : a.err = b.err
  num : a.num = b.num
  src : a.src = b.src
  magic : a.magic = b.magic
  dict : a.dict = b.dict

/-- equal on everything that is read while a frame is open: all fields except the current-block scratch
fields (`bSize`, `bData`, `bChecksum`, overwritten by `blockRead` before use) and, when the frame has no
content size, `contentSize` -/
structure RE (a b : FrameR.R) : Prop where
  st : a.st = b.st
  err : a.err = b.err
  num : a.num = b.num
  src : a.src = b.src
  magic : a.magic = b.magic
  flags : a.flags = b.flags
  csize : flagSize a.flags = true → a.contentSize = b.contentSize
  cks : a.cks = b.cks
  data : a.data = b.data
  idx : a.idx = b.idx
  cum : a.cum = b.cum
  dict : a.dict = b.dict

/-- observational equivalence of two Readers -/
structure robsEq (a b : FrameR.R) : Prop where
  pe : PE a b
  new_ : a.st = stNew → a.magic = 0
  open_ : a.st = stRead ∨ a.st = stClosed → RE a b

end Lz4V.Props.C17

namespace Lz4V.Proofs.LifeR
open Lz4V Lz4V.Go Lz4V.Gen Lz4V.Model Lz4V.Model.FrameR Lz4V.Model.FrameW Lz4V.Props.C17 Lz4V.Proofs.FrameR

/-! ## `st`, `err` are only changed by `next`, `check`, `reset` -/

theorem hdrRest_st (r : R) : (hdrRest r).1.st = r.st ∧ (hdrRest r).1.err = r.err := by
  unfold hdrRest
  rcases readFull r.src 3 with ⟨s, b, e⟩
  cases e with
  | some e => exact ⟨rfl, rfl⟩
  | none =>
    dsimp only
    generalize (b[0]!.toNat + 256 * b[1]!.toNat).toUInt16 = fl
    cases hfs : flagSize fl with
    | false =>
      simp only [Bool.false_eq_true, if_false]
      repeat' (first | with_reducible exact ⟨rfl, rfl⟩ | split)
    | true =>
      simp only [if_true]
      rcases readFull s 8 with ⟨s2, b8, e2⟩
      cases e2 with
      | some e => exact ⟨rfl, rfl⟩
      | none =>
        dsimp only
        repeat' (first | with_reducible exact ⟨rfl, rfl⟩ | split)

theorem parseHeaders_st : ∀ (fuel : Nat) (r : R),
    (parseHeaders r fuel).1.st = r.st ∧ (parseHeaders r fuel).1.err = r.err := by
  intro fuel
  induction fuel with
  | zero => intro r; exact ⟨rfl, rfl⟩
  | succ fuel ih =>
    intro r
    rw [parseHeaders_succ]
    unfold skipRest
    dsimp only
    repeat' (first | with_reducible exact ⟨rfl, rfl⟩ | exact hdrRest_st _ | exact ih _ | split)

theorem init_st (r : R) : (init r).1.st = r.st ∧ (init r).1.err = r.err := by
  rw [init_eq]
  have := parseHeaders_st (r.src.data.size + 2) r
  generalize parseHeaders r (r.src.data.size + 2) = p at this ⊢
  obtain ⟨r1, e⟩ := p
  cases e with
  | some e => exact this
  | none =>
    dsimp only at this ⊢
    split <;> exact this

theorem blockRead_st : ∀ (fuel : Nat) (r : R),
    (blockRead r fuel).1.st = r.st ∧ (blockRead r fuel).1.err = r.err := by
  intro fuel
  induction fuel with
  | zero => intro r; exact ⟨rfl, rfl⟩
  | succ fuel ih =>
    intro r
    rw [blockRead_succ]
    dsimp only
    repeat' (first | with_reducible exact ⟨rfl, rfl⟩ | exact ih _ | split)

theorem uncompress_st (r : R) (n : Nat) : (uncompress r n).1.st = r.st ∧ (uncompress r n).1.err = r.err := by
  unfold uncompress
  split
  · exact ⟨rfl, rfl⟩
  · dsimp only
    split
    · exact ⟨rfl, rfl⟩
    · dsimp only
      split <;> exact ⟨rfl, rfl⟩

theorem afterBlock_err' (r : R) (dst : Array UInt8) (d : Bool) : (afterBlock r dst d).err = r.err :=
  afterBlock_err r dst d

theorem readBlock_st (r : R) (want : Nat) :
    (readBlock r want).1.st = r.st ∧ (readBlock r want).1.err = r.err := by
  rw [readBlock_eq]
  have h1 := blockRead_st (r.src.data.size + 2) r
  generalize blockRead r (r.src.data.size + 2) = p at h1 ⊢
  obtain ⟨r1, e⟩ := p
  cases e with
  | some e => exact h1
  | none =>
    dsimp only at h1 ⊢
    have h2 := uncompress_st r1 (poolSize (blockSizeIndex r1.flags))
    generalize uncompress r1 _ = q at h2 ⊢
    obtain ⟨r2, out, e2⟩ := q
    dsimp only at h2 ⊢
    cases e2 with
    | some e => exact ⟨h2.1.trans h1.1, h2.2.trans h1.2⟩
    | none =>
      cases out with
      | none => exact ⟨h2.1.trans h1.1, h2.2.trans h1.2⟩
      | some dst =>
        dsimp only
        split
        · exact ⟨(afterBlock_st ..).trans (h2.1.trans h1.1), (afterBlock_err ..).trans (h2.2.trans h1.2)⟩
        · exact ⟨(afterBlock_st ..).trans (h2.1.trans h1.1), (afterBlock_err ..).trans (h2.2.trans h1.2)⟩

theorem closeR_st (r : R) : (closeR r).1.st = r.st ∧ (closeR r).1.err = r.err ∧ (closeR r).2 ≠ some .eof := by
  unfold closeR
  split
  · exact ⟨rfl, rfl, by simp⟩
  · split
    · exact ⟨rfl, rfl, by simp⟩
    · rcases readUint32 r.src with ⟨s, c, e⟩
      dsimp only
      cases e with
      | some e => exact ⟨rfl, rfl, ne_eof_of_unexpected e⟩
      | none =>
        dsimp only
        split
        · exact ⟨rfl, rfl, by simp⟩
        · exact ⟨rfl, rfl, by simp⟩

def LoopSt (r : R) (res : R × Array UInt8 × Option Err) : Prop :=
  (res.2.2 = some .eof → res.1.st = readerStates r.st) ∧ (res.2.2 ≠ some .eof → res.1.st = r.st) ∧ res.1.err = r.err

theorem LoopSt.trans' {r r1 : R} {res} (h : LoopSt r1 res) (h1 : r1.st = r.st) (h2 : r1.err = r.err) : LoopSt r res := by
  unfold LoopSt at *
  rw [← h1, ← h2]; exact h

theorem readLoop_st (want : Nat) : ∀ (fuel : Nat) (r : R) (out : Array UInt8), LoopSt r (readLoop r want out fuel) := by
  intro fuel
  induction fuel with
  | zero => intro r out; exact ⟨nofun, fun _ => rfl, rfl⟩
  | succ fuel ih =>
    intro r out
    rw [readLoop_succ]
    split
    · exact ⟨nofun, fun _ => rfl, rfl⟩
    · dsimp only
      by_cases hidx : r.idx = 0
      · simp only [hidx, if_true]
        have h1 := readBlock_st r (want - out.size)
        generalize readBlock r (want - out.size) = p at h1 ⊢
        obtain ⟨r1, got, e⟩ := p
        dsimp only at h1 ⊢
        split
        · dsimp only
          simp only [Bool.false_eq_true, if_false]
          split
          · exact LoopSt.trans' (ih _ _) h1.1 h1.2
          · exact LoopSt.trans' (ih _ _) h1.1 h1.2
        · have h2 := closeR_st r1
          generalize closeR r1 = q at h2 ⊢
          obtain ⟨r2, ce⟩ := q
          dsimp only at h2 ⊢
          cases ce with
          | some ce =>
            dsimp only
            simp only [if_true]
            refine ⟨fun h => absurd h h2.2.2, fun _ => h2.1.trans h1.1, h2.2.1.trans h1.2⟩
          | none =>
            dsimp only
            simp only [if_true]
            refine ⟨fun _ => ?_, fun h => absurd rfl h, h2.2.1.trans h1.2⟩
            show readerStates r2.st = _
            rw [h2.1, h1.1]
        · dsimp only
          simp only [if_true]
          rename_i e' hne
          refine ⟨fun h => ?_, fun _ => h1.1, h1.2⟩
          simp only [Option.some.injEq] at h
          exact absurd h (by intro h'; subst h'; exact hne rfl)
      · simp only [hidx, if_false, Bool.false_eq_true]
        have : ¬ ((#[] : Array UInt8).size > 0) := by simp
        simp only [this, if_false]
        exact LoopSt.trans' (ih _ _) rfl rfl

theorem wtLoop_st (cap : Nat) : ∀ (fuel : Nat) (r : R) (sink : Sink) (n : Nat),
    (writeTo.loop cap r sink n fuel).1.st = r.st ∧ (writeTo.loop cap r sink n fuel).1.err = r.err := by
  intro fuel
  induction fuel with
  | zero => intro r sink n; exact ⟨rfl, rfl⟩
  | succ fuel ih =>
    intro r sink n
    rw [loop_succ]
    have h1 := readBlock_st r cap
    generalize readBlock r cap = p at h1 ⊢
    obtain ⟨r1, got, e⟩ := p
    dsimp only at h1 ⊢
    split
    · have h2 := closeR_st { r1 with data := r.data }
      generalize closeR { r1 with data := r.data } = q at h2 ⊢
      obtain ⟨r2, ce⟩ := q
      exact ⟨h2.1.trans h1.1, h2.2.1.trans h1.2⟩
    · exact h1
    · rcases sink.write got with ⟨sk, we⟩
      dsimp only
      cases we with
      | some we => exact h1
      | none =>
        dsimp only
        exact ⟨(ih _ _ _).1.trans h1.1, (ih _ _ _).2.trans h1.2⟩

/-! ## the calls, state by state -/

def readGo (want : Nat) (r : R) : R × Array UInt8 × Option Err :=
    let (r, out, e) := readLoop r want #[] (r.src.data.size + want + 4)
    (check r e, out, e)

theorem read_eq (r : R) (want : Nat) : read r want =
  (if r.st = stRead then readGo want r
  else if r.st = stClosed then (check r (some .eof), #[], some .eof)
  else if r.st = stError then (r, #[], r.err)
  else if r.st = stNew then
    let (r, e) := init r
    let (r, bad) := next r e
    if bad then (r, #[], e) else readGo want r
  else ({ r with st := stError, err := some .unhandledState }, #[], some .unhandledState)) := rfl

def wtGo (sink : Sink) (r : R) : R × Sink × Nat × Option Err :=
    let cap := poolSize (blockSizeIndex r.flags)
    let (r, sink, n, e) := writeTo.loop cap r sink 0 (r.src.data.size + 4)
    ((next r e).1, sink, n, e)

theorem writeTo_eq (r : R) (sink : Sink) : writeTo r sink =
  (if r.st = stClosed ∨ r.st = stError then (r, sink, 0, r.err)
  else if r.st = stNew then
    let (r, e) := init r
    let (r, bad) := next r e
    if bad then (r, sink, 0, e) else wtGo sink r
  else ({ r with st := stError, err := some .unhandledState }, sink, 0, some .unhandledState)) := rfl

theorem read_read {r : R} (h : r.st = stRead) (n : Nat) : read r n = readGo n r := by
  rw [read_eq, if_pos h]
theorem read_closed {r : R} (h : r.st = stClosed) (n : Nat) : read r n = (check r (some .eof), #[], some .eof) := by
  rw [read_eq, if_neg (by rw [h]; decide), if_pos h]
theorem read_error {r : R} (h : r.st = stError) (n : Nat) : read r n = (r, #[], r.err) := by
  rw [read_eq, if_neg (by rw [h]; decide), if_neg (by rw [h]; decide), if_pos h]
theorem read_new {r : R} (h : r.st = stNew) (n : Nat) : read r n =
    (let (r, e) := init r
     let (r, bad) := next r e
     if bad then (r, #[], e) else readGo n r) := by
  rw [read_eq, if_neg (by rw [h]; decide), if_neg (by rw [h]; decide), if_neg (by rw [h]; decide), if_pos h]
theorem read_other {r : R} (h1 : r.st ≠ stRead) (h2 : r.st ≠ stClosed) (h3 : r.st ≠ stError) (h4 : r.st ≠ stNew) (n : Nat) :
    read r n = ({ r with st := stError, err := some .unhandledState }, #[], some .unhandledState) := by
  rw [read_eq, if_neg h1, if_neg h2, if_neg h3, if_neg h4]

theorem writeTo_done {r : R} (h : r.st = stClosed ∨ r.st = stError) (sink : Sink) :
    writeTo r sink = (r, sink, 0, r.err) := by
  rw [writeTo_eq, if_pos h]
theorem writeTo_new' {r : R} (h : r.st = stNew) (sink : Sink) : writeTo r sink =
    (let (r, e) := init r
     let (r, bad) := next r e
     if bad then (r, sink, 0, e) else wtGo sink r) := by
  rw [writeTo_eq, if_neg (by rw [h]; decide), if_pos h]
theorem writeTo_other {r : R} (h1 : r.st ≠ stClosed) (h2 : r.st ≠ stError) (h3 : r.st ≠ stNew) (sink : Sink) :
    writeTo r sink = ({ r with st := stError, err := some .unhandledState }, sink, 0, some .unhandledState) := by
  rw [writeTo_eq, if_neg (by simp [h1, h2]), if_neg h3]

theorem check_eof {r : R} (h : r.st ≠ stError) : check r (some .eof) = { r with err := some .eof } := by
  unfold FrameR.check
  rw [if_neg h]
  rfl

theorem check_st_eof (r : R) : (check r (some .eof)).st = r.st := by
  unfold FrameR.check
  split
  · rfl
  · rfl

theorem rnext_none (r : R) : next r none = ({ r with st := readerStates r.st }, false) := rfl
theorem rnext_some (r : R) (e : Err) : next r (some e) = ({ r with st := stError, err := some e }, true) := rfl

/-- in the read state a `Read` that returns `io.EOF` closes the Reader -/
theorem readGo_eof {r : R} (hs : r.st = stRead) (n : Nat) (h : (readGo n r).2.2 = some .eof) :
    (readGo n r).1.st = stClosed := by
  unfold readGo at h ⊢
  have := readLoop_st n (r.src.data.size + n + 4) r #[]
  generalize readLoop r n #[] _ = p at this h ⊢
  obtain ⟨r1, out, e⟩ := p
  dsimp only at this h ⊢
  subst h
  rw [check_st_eof, this.1 rfl, hs]
  decide

/-- from a new Reader: `io.EOF` either closes the Reader or (when the source holds no frame at all) the
error state records `io.EOF` -/
theorem read_new_eof {r : R} (hs : r.st = stNew) (n : Nat) (h : (read r n).2.2 = some .eof) :
    (read r n).1.st = stClosed ∨ ((read r n).1.st = stError ∧ (read r n).1.err = some .eof) := by
  rw [read_new hs] at h ⊢
  have hi := init_st r
  generalize init r = p at hi h ⊢
  obtain ⟨r1, e⟩ := p
  dsimp only at hi h ⊢
  cases e with
  | some e =>
    rw [rnext_some] at h ⊢
    dsimp only at h ⊢
    rw [if_pos rfl] at h ⊢
    exact Or.inr ⟨rfl, h⟩
  | none =>
    rw [rnext_none] at h ⊢
    dsimp only at h ⊢
    simp only [Bool.false_eq_true, if_false] at h ⊢
    exact Or.inl (readGo_eof (by show readerStates r1.st = stRead; rw [hi.1, hs]; decide) n h)


/-! ## simulation up to `RE` -/

macro "re_fields" : tactic =>
  `(tactic| (refine ⟨?_, ?_, ?_, ?_, ?_, ?_, ?_, ?_, ?_, ?_, ?_, ?_⟩ <;> first | rfl | assumption))

theorem _root_.Lz4V.Props.C17.RE.elim {a b : R} (h : RE a b) : ∃ st err num src magic fl cs1 cs2 k data idx cum dict bs1 bd1 bc1 bs2 bd2 bc2,
    a = ⟨st, err, num, src, magic, fl, cs1, k, data, idx, cum, dict, bs1, bd1, bc1⟩ ∧
    b = ⟨st, err, num, src, magic, fl, cs2, k, data, idx, cum, dict, bs2, bd2, bc2⟩ ∧
    (flagSize fl = true → cs1 = cs2) := by
  obtain ⟨st, err, num, src, magic, fl, cs1, k, data, idx, cum, dict, bs1, bd1, bc1⟩ := a
  obtain ⟨st', err', num', src', magic', fl', cs2, k', data', idx', cum', dict', bs2, bd2, bc2⟩ := b
  obtain ⟨h1, h2, h3, h4, h5, h6, h7, h8, h9, h10, h11, h12⟩ := h
  dsimp only at h1 h2 h3 h4 h5 h6 h7 h8 h9 h10 h11 h12
  subst h1 h2 h3 h4 h5 h6 h8 h9 h10 h11 h12
  exact ⟨_, _, _, _, _, _, _, _, _, _, _, _, _, _, _, _, _, _, _, rfl, rfl, h7⟩

/-- the scratch fields of the current block agree -/
structure BE (a b : R) : Prop where
  bSize : a.bSize = b.bSize
  bData : a.bData = b.bData
  bChecksum : flagBlockChecksum a.flags = true → a.bChecksum = b.bChecksum

theorem unexpected_ne_none (e : Err) : unexpected (some e) ≠ none := by
  cases e <;> simp [unexpected]

macro "no_ok" : tactic =>
  `(tactic| (intro h; try dsimp only at h
             first | (cases h; done) | exact absurd h (unexpected_ne_none _)))

def BRel (ra rb : R × Option Err) : Prop := RE ra.1 rb.1 ∧ ra.2 = rb.2 ∧ (ra.2 = none → BE ra.1 rb.1)

macro "br_leaf" : tactic =>
  `(tactic| first
    | (refine ⟨?_, rfl, ?_⟩; (focus re_fields); no_ok)
    | (refine ⟨?_, rfl, fun _ => ⟨rfl, rfl, fun _ => rfl⟩⟩; re_fields)
    | (refine ⟨?_, rfl, fun _ => ⟨rfl, rfl, fun h => absurd h ‹_›⟩⟩; re_fields))

theorem blockRead_RE : ∀ (fuel : Nat) (a b : R), RE a b → BRel (blockRead a fuel) (blockRead b fuel) := by
  intro fuel
  induction fuel with
  | zero => intro a b h; exact ⟨h, rfl, nofun⟩
  | succ fuel ih =>
    intro a b h
    obtain ⟨st, err, num, src, magic, fl, cs1, cs2, k, data, idx, cum, dict, bs1, bd1, bc1, bs2, bd2, bc2, rfl, rfl, hcs⟩ := h.elim
    rw [blockRead_succ, blockRead_succ]
    rcases readUint32 src with ⟨s, x, e⟩
    simp only [isLegacy]
    by_cases hm : magic = frameMagicLegacy
    · simp only [hm, decide_true, true_and, not_true_eq_false, false_and, if_true, if_false]
      cases e with
      | some e => dsimp only; br_leaf
      | none =>
        dsimp only
        repeat' split
        all_goals (first | br_leaf | exact ih _ _ (by re_fields))
    · simp only [hm, decide_false, Bool.false_eq_true, false_and, not_false_eq_true, true_and, if_false]
      cases e with
      | some e => dsimp only; br_leaf
      | none =>
        dsimp only
        repeat' split
        all_goals (first | br_leaf | exact ih _ _ (by re_fields))

macro "re_pair" : tactic => `(tactic| (refine ⟨?_, rfl⟩; re_fields))

theorem uncompress_RE {a b : R} (h : RE a b) (hb : BE a b) (n : Nat) :
    RE (uncompress a n).1 (uncompress b n).1 ∧ (uncompress a n).2 = (uncompress b n).2 := by
  obtain ⟨st, err, num, src, magic, fl, cs1, cs2, k, data, idx, cum, dict, bs1, bd1, bc1, bs2, bd2, bc2, rfl, rfl, hcs⟩ := h.elim
  obtain ⟨h1, h2, h3⟩ := hb
  dsimp only at h1 h2 h3
  subst h1 h2
  unfold uncompress
  have hl : isLegacy (R.mk st err num src magic fl cs1 k data idx cum dict bs1 bd1 bc1) =
      isLegacy (R.mk st err num src magic fl cs2 k data idx cum dict bs1 bd1 bc2) := rfl
  rw [hl]
  generalize isLegacy _ = leg
  dsimp only
  generalize (if bs1 ≥ 2147483648 then some (bd1.extract 0 (min n bd1.size)) else uncompressBlock bd1 n (if leg = true then #[] else dict)) = out
  cases hbc : flagBlockChecksum fl with
  | true =>
    have := h3 hbc
    subst this
    split
    · re_pair
    · cases out with
      | none => re_pair
      | some dst => dsimp only; split <;> re_pair
  | false =>
    simp only [Bool.false_eq_true, false_and, if_false]
    cases out with
    | none => re_pair
    | some dst => dsimp only; split <;> re_pair

theorem afterBlock_RE {a b : R} (h : RE a b) (dst : Array UInt8) (d : Bool) :
    RE (afterBlock a dst d) (afterBlock b dst d) := by
  obtain ⟨st, err, num, src, magic, fl, cs1, cs2, k, data, idx, cum, dict, bs1, bd1, bc1, bs2, bd2, bc2, rfl, rfl, hcs⟩ := h.elim
  unfold afterBlock
  dsimp only
  repeat' split
  all_goals re_fields

theorem readBlock_RE {a b : R} (h : RE a b) (want : Nat) :
    RE (readBlock a want).1 (readBlock b want).1 ∧ (readBlock a want).2 = (readBlock b want).2 := by
  rw [readBlock_eq, readBlock_eq, h.src]
  have h1 := blockRead_RE (b.src.data.size + 2) a b h
  generalize blockRead a (b.src.data.size + 2) = pa at h1 ⊢
  generalize blockRead b (b.src.data.size + 2) = pb at h1 ⊢
  obtain ⟨a1, e1⟩ := pa
  obtain ⟨b1, e2⟩ := pb
  obtain ⟨hre, he, hbe⟩ := h1
  dsimp only at hre he hbe ⊢
  subst he
  cases e1 with
  | some e => exact ⟨hre, rfl⟩
  | none =>
    dsimp only
    rw [hre.flags]
    have h2 := uncompress_RE hre (hbe rfl) (poolSize (blockSizeIndex b1.flags))
    generalize uncompress a1 _ = qa at h2 ⊢
    generalize uncompress b1 _ = qb at h2 ⊢
    obtain ⟨a2, out1, e1⟩ := qa
    obtain ⟨b2, out2, e2⟩ := qb
    obtain ⟨hre2, he2⟩ := h2
    dsimp only at hre2 he2 ⊢
    simp only [Prod.mk.injEq] at he2
    obtain ⟨rfl, rfl⟩ := he2
    cases e1 with
    | some e => exact ⟨hre2, rfl⟩
    | none =>
      cases out1 with
      | none => exact ⟨hre2, rfl⟩
      | some dst =>
        dsimp only
        split
        · exact ⟨afterBlock_RE hre2 dst true, rfl⟩
        · exact ⟨afterBlock_RE hre2 dst false, rfl⟩

theorem closeR_RE {a b : R} (h : RE a b) : RE (closeR a).1 (closeR b).1 ∧ (closeR a).2 = (closeR b).2 := by
  obtain ⟨st, err, num, src, magic, fl, cs1, cs2, k, data, idx, cum, dict, bs1, bd1, bc1, bs2, bd2, bc2, rfl, rfl, hcs⟩ := h.elim
  unfold closeR
  simp only [isLegacy]
  repeat' split
  all_goals re_pair

theorem rcheck_RE {a b : R} (h : RE a b) (e : Option Err) : RE (check a e) (check b e) := by
  obtain ⟨st, err, num, src, magic, fl, cs1, cs2, k, data, idx, cum, dict, bs1, bd1, bc1, bs2, bd2, bc2, rfl, rfl, hcs⟩ := h.elim
  unfold FrameR.check
  dsimp only
  repeat' split
  all_goals re_fields

theorem rnext_RE {a b : R} (h : RE a b) (e : Option Err) : RE (next a e).1 (next b e).1 ∧ (next a e).2 = (next b e).2 := by
  obtain ⟨st, err, num, src, magic, fl, cs1, cs2, k, data, idx, cum, dict, bs1, bd1, bc1, bs2, bd2, bc2, rfl, rfl, hcs⟩ := h.elim
  cases e with
  | none => exact ⟨by re_fields, rfl⟩
  | some e => exact ⟨by re_fields, rfl⟩

theorem readLoop_RE (want : Nat) : ∀ (fuel : Nat) (a b : R) (out : Array UInt8), RE a b →
    RE (readLoop a want out fuel).1 (readLoop b want out fuel).1 ∧
      (readLoop a want out fuel).2 = (readLoop b want out fuel).2 := by
  intro fuel
  induction fuel with
  | zero => intro a b out h; exact ⟨h, rfl⟩
  | succ fuel ih =>
    intro a b out h
    rw [readLoop_succ, readLoop_succ]
    split
    · exact ⟨h, rfl⟩
    · dsimp only
      rw [h.idx]
      by_cases hidx : b.idx = 0
      · simp only [hidx, if_true]
        have h1 := readBlock_RE h (want - out.size)
        generalize readBlock a (want - out.size) = pa at h1 ⊢
        generalize readBlock b (want - out.size) = pb at h1 ⊢
        obtain ⟨a1, got1, e1⟩ := pa
        obtain ⟨b1, got2, e2⟩ := pb
        obtain ⟨hre, he⟩ := h1
        dsimp only at hre he ⊢
        simp only [Prod.mk.injEq] at he
        obtain ⟨rfl, rfl⟩ := he
        obtain ⟨st, err, num, src, magic, fl, cs1, cs2, k, data, idx, cum, dict, bs1, bd1, bc1, bs2, bd2, bc2, rfl, rfl, hcs⟩ := hre.elim
        split
        · dsimp only
          simp only [Bool.false_eq_true, if_false]
          split
          · exact ih _ _ _ hre
          · exact ih _ _ _ (by re_fields)
        · have h2 := closeR_RE hre
          generalize closeR (R.mk st err num src magic fl cs1 k data idx cum dict bs1 bd1 bc1) = qa at h2 ⊢
          generalize closeR (R.mk st err num src magic fl cs2 k data idx cum dict bs2 bd2 bc2) = qb at h2 ⊢
          obtain ⟨a2, ce1⟩ := qa
          obtain ⟨b2, ce2⟩ := qb
          obtain ⟨hre2, he2⟩ := h2
          dsimp only at hre2 he2 ⊢
          subst he2
          obtain ⟨h1, h2, h3, h4, h5, h6, h7, h8, h9, h10, h11, h12⟩ := hre2
          cases ce1 with
          | some ce =>
            dsimp only
            simp only [if_true]
            refine ⟨?_, trivial⟩
            re_fields
          | none =>
            dsimp only
            simp only [if_true]
            refine ⟨?_, trivial⟩
            show RE { a2 with st := readerStates a2.st, data := #[] } { b2 with st := readerStates b2.st, data := #[] }
            rw [h1]
            re_fields
        · dsimp only
          simp only [if_true]
          exact ⟨hre, trivial⟩
      · simp only [hidx, if_false, Bool.false_eq_true]
        have : ¬ ((#[] : Array UInt8).size > 0) := by simp
        simp only [this, if_false]
        obtain ⟨st, err, num, src, magic, fl, cs1, cs2, k, data, idx, cum, dict, bs1, bd1, bc1, bs2, bd2, bc2, rfl, rfl, hcs⟩ := h.elim
        exact ih _ _ _ (by re_fields)

theorem wtLoop_RE (cap : Nat) : ∀ (fuel : Nat) (a b : R) (sink : Sink) (n : Nat), RE a b →
    RE (writeTo.loop cap a sink n fuel).1 (writeTo.loop cap b sink n fuel).1 ∧
      (writeTo.loop cap a sink n fuel).2 = (writeTo.loop cap b sink n fuel).2 := by
  intro fuel
  induction fuel with
  | zero => intro a b sink n h; exact ⟨h, rfl⟩
  | succ fuel ih =>
    intro a b sink n h
    rw [loop_succ, loop_succ]
    have h1 := readBlock_RE h cap
    generalize readBlock a cap = pa at h1 ⊢
    generalize readBlock b cap = pb at h1 ⊢
    obtain ⟨a1, got1, e1⟩ := pa
    obtain ⟨b1, got2, e2⟩ := pb
    obtain ⟨hre, he⟩ := h1
    dsimp only at hre he ⊢
    simp only [Prod.mk.injEq] at he
    obtain ⟨rfl, rfl⟩ := he
    have hd := h.data
    have hre' : RE { a1 with data := a.data } { b1 with data := b.data } := by
      obtain ⟨h1, h2, h3, h4, h5, h6, h7, h8, h9, h10, h11, h12⟩ := hre
      re_fields
    generalize ({ a1 with data := a.data } : R) = a2 at hre' ⊢
    generalize ({ b1 with data := b.data } : R) = b2 at hre' ⊢
    split
    · have h2 := closeR_RE hre'
      generalize closeR a2 = qa at h2 ⊢
      generalize closeR b2 = qb at h2 ⊢
      obtain ⟨a3, ce1⟩ := qa
      obtain ⟨b3, ce2⟩ := qb
      obtain ⟨hre2, he2⟩ := h2
      dsimp only at hre2 he2 ⊢
      subst he2
      exact ⟨hre2, rfl⟩
    · exact ⟨hre', rfl⟩
    · rcases sink.write got1 with ⟨sk, we⟩
      dsimp only
      cases we with
      | some we => exact ⟨hre', rfl⟩
      | none => exact ih _ _ _ _ hre'

theorem readGo_RE {a b : R} (h : RE a b) (n : Nat) :
    RE (readGo n a).1 (readGo n b).1 ∧ (readGo n a).2 = (readGo n b).2 := by
  unfold readGo
  rw [h.src]
  have h1 := readLoop_RE n (b.src.data.size + n + 4) a b #[] h
  generalize readLoop a n #[] _ = pa at h1 ⊢
  generalize readLoop b n #[] _ = pb at h1 ⊢
  obtain ⟨a1, out1, e1⟩ := pa
  obtain ⟨b1, out2, e2⟩ := pb
  obtain ⟨hre, he⟩ := h1
  dsimp only at hre he ⊢
  simp only [Prod.mk.injEq] at he
  obtain ⟨rfl, rfl⟩ := he
  exact ⟨rcheck_RE hre _, rfl⟩

theorem wtGo_RE {a b : R} (h : RE a b) (sink : Sink) :
    RE (wtGo sink a).1 (wtGo sink b).1 ∧ (wtGo sink a).2 = (wtGo sink b).2 := by
  unfold wtGo
  rw [h.src, h.flags]
  dsimp only
  have h1 := wtLoop_RE (poolSize (blockSizeIndex b.flags)) (b.src.data.size + 4) a b sink 0 h
  generalize writeTo.loop _ a sink 0 _ = pa at h1 ⊢
  generalize writeTo.loop _ b sink 0 _ = pb at h1 ⊢
  obtain ⟨a1, s1, n1, e1⟩ := pa
  obtain ⟨b1, s2, n2, e2⟩ := pb
  obtain ⟨hre, he⟩ := h1
  dsimp only at hre he ⊢
  simp only [Prod.mk.injEq] at he
  obtain ⟨rfl, rfl, rfl⟩ := he
  exact ⟨(rnext_RE hre _).1, rfl⟩

/-! ## `init` re-initialises the frame fields: simulation up to `PE` -/

macro "pe_fields" : tactic =>
  `(tactic| (refine ⟨?_, ?_, ?_, ?_, ?_, ?_⟩ <;> first | rfl | assumption))

theorem _root_.Lz4V.Props.C17.PE.elim {a b : R} (h : PE a b) :
    ∃ st err num src magic fl1 cs1 k1 d1 i1 c1 dict bs1 bd1 bc1 fl2 cs2 k2 d2 i2 c2 bs2 bd2 bc2,
    a = ⟨st, err, num, src, magic, fl1, cs1, k1, d1, i1, c1, dict, bs1, bd1, bc1⟩ ∧
    b = ⟨st, err, num, src, magic, fl2, cs2, k2, d2, i2, c2, dict, bs2, bd2, bc2⟩ := by
  obtain ⟨st, err, num, src, magic, fl1, cs1, k1, d1, i1, c1, dict, bs1, bd1, bc1⟩ := a
  obtain ⟨st', err', num', src', magic', fl2, cs2, k2, d2, i2, c2, dict', bs2, bd2, bc2⟩ := b
  obtain ⟨h1, h2, h3, h4, h5, h6⟩ := h
  dsimp only at h1 h2 h3 h4 h5 h6
  subst h1 h2 h3 h4 h5 h6
  exact ⟨_, _, _, _, _, _, _, _, _, _, _, _, _, _, _, _, _, _, _, _, _, _, _, _, rfl, rfl⟩

/-- what a successful `parseHeaders` (re)initialises -/
structure HE (a b : R) : Prop where
  flags : a.flags = b.flags
  cks : a.cks = b.cks
  csize : flagSize a.flags = true → a.contentSize = b.contentSize

def HRel (ra rb : R × Option Err) : Prop := PE ra.1 rb.1 ∧ ra.2 = rb.2 ∧ (ra.2 = none → HE ra.1 rb.1)

theorem legacy_flagSize : flagSize (blockSizeIndexSet 0 (Nat.toUInt16 (indexOf Block8Mb))) = false := by decide

macro "hr_leaf" : tactic =>
  `(tactic| first
    | (refine ⟨?_, rfl, ?_⟩; (focus pe_fields); no_ok)
    | (refine ⟨?_, rfl, fun _ => ⟨rfl, rfl, ?_⟩⟩; (focus pe_fields);
       first | (intro _; rfl) | (intro h; cases h; done) | (intro h; simp_all; done)))

theorem hdrRest_PE {a b : R} (h : PE a b) : HRel (hdrRest a) (hdrRest b) := by
  obtain ⟨st, err, num, src, magic, fl1, cs1, k1, d1, i1, c1, dict, bs1, bd1, bc1, fl2, cs2, k2, d2, i2, c2, bs2, bd2, bc2, rfl, rfl⟩ := h.elim
  unfold hdrRest
  rcases readFull src 3 with ⟨s, b, e⟩
  cases e with
  | some e => dsimp only; hr_leaf
  | none =>
    dsimp only
    generalize (b[0]!.toNat + 256 * b[1]!.toNat).toUInt16 = fl
    cases hfs : flagSize fl with
    | false =>
      simp only [Bool.false_eq_true, if_false]
      repeat' split
      all_goals hr_leaf
    | true =>
      simp only [if_true]
      rcases readFull s 8 with ⟨s2, b8, e2⟩
      cases e2 with
      | some e => dsimp only; hr_leaf
      | none =>
        dsimp only
        repeat' split
        all_goals hr_leaf

theorem parseHeaders_PE : ∀ (fuel : Nat) (a b : R), PE a b → a.magic = 0 →
    HRel (parseHeaders a fuel) (parseHeaders b fuel) := by
  intro fuel
  induction fuel with
  | zero => intro a b h hm; exact ⟨h, rfl, nofun⟩
  | succ fuel ih =>
    intro a b h hm
    obtain ⟨st, err, num, src, magic, fl1, cs1, k1, d1, i1, c1, dict, bs1, bd1, bc1, fl2, cs2, k2, d2, i2, c2, bs2, bd2, bc2, rfl, rfl⟩ := h.elim
    dsimp only at hm
    subst hm
    rw [parseHeaders_succ, parseHeaders_succ]
    rcases readUint32 src with ⟨s, m, e⟩
    have h0 : ¬ ((0 : Nat) > 0) := by omega
    simp only [h0, if_false]
    cases e with
    | some e => dsimp only; hr_leaf
    | none =>
      dsimp only
      split
      · split
        · refine ⟨?_, rfl, fun _ => ⟨rfl, rfl, ?_⟩⟩
          · pe_fields
          · intro h; rw [legacy_flagSize] at h; cases h
        · exact hdrRest_PE (by pe_fields)
      · split
        · unfold skipRest
          dsimp only
          rcases readUint32 s with ⟨s2, n, e2⟩
          cases e2 with
          | some e => dsimp only; hr_leaf
          | none =>
            dsimp only
            rcases discardN s2 n (n + 1) with ⟨s3, e3⟩
            cases e3 with
            | some e => dsimp only; hr_leaf
            | none => exact ih _ _ (by pe_fields) rfl
        · hr_leaf

theorem init_PE {a b : R} (h : PE a b) (hm : a.magic = 0) :
    PE (init a).1 (init b).1 ∧ (init a).2 = (init b).2 ∧ ((init a).2 = none → RE (init a).1 (init b).1) := by
  rw [init_eq, init_eq, h.src]
  have h1 := parseHeaders_PE (b.src.data.size + 2) a b h hm
  generalize parseHeaders a _ = pa at h1 ⊢
  generalize parseHeaders b _ = pb at h1 ⊢
  obtain ⟨a1, e1⟩ := pa
  obtain ⟨b1, e2⟩ := pb
  obtain ⟨hpe, he, hhe⟩ := h1
  dsimp only at hpe he hhe ⊢
  subst he
  cases e1 with
  | some e => exact ⟨hpe, rfl, nofun⟩
  | none =>
    dsimp only
    obtain ⟨g1, g2, g3⟩ := hhe rfl
    obtain ⟨h1, h2, h3, h4, h5, h6⟩ := hpe
    obtain ⟨st, err, num, src, magic, fl1, cs1, k1, d1, i1, c1, dict, bs1, bd1, bc1⟩ := a1
    obtain ⟨st', err', num', src', magic', fl2, cs2, k2, d2, i2, c2, dict', bs2, bd2, bc2⟩ := b1
    dsimp only at h1 h2 h3 h4 h5 h6 g1 g2 g3
    subst h1 h2 h3 h4 h5 h6 g1 g2
    dsimp only
    split
    · exact ⟨by pe_fields, rfl, fun _ => by re_fields⟩
    · exact ⟨by pe_fields, rfl, fun _ => by re_fields⟩

/-- related results of a call on two equivalent Readers -/
def RRel (a b : R) : Prop := a.st ≠ stNew ∧ (RE a b ∨ (PE a b ∧ a.st ≠ stRead ∧ a.st ≠ stClosed))

theorem _root_.Lz4V.Props.C17.RE.pe {a b : R} (h : RE a b) : PE a b := ⟨h.st, h.err, h.num, h.src, h.magic, h.dict⟩

theorem robsEq_of_rrel {a b : R} (h : RRel a b) : robsEq a b := by
  obtain ⟨hn, h | ⟨h, h1, h2⟩⟩ := h
  · exact ⟨h.pe, fun h' => absurd h' hn, fun _ => h⟩
  · exact ⟨h, fun h' => absurd h' hn, fun h' => by rcases h' with h' | h' <;> contradiction⟩

theorem pe_error {a b : R} (h : PE a b) (e : Err) :
    RRel { a with st := stError, err := some e } { b with st := stError, err := some e } := by
  refine ⟨by show stError ≠ stNew; decide, Or.inr ⟨?_, by show stError ≠ stRead; decide, by show stError ≠ stClosed; decide⟩⟩
  obtain ⟨h1, h2, h3, h4, h5, h6⟩ := h
  pe_fields

theorem rcheck_st (r : R) (e : Option Err) : (check r e).st = r.st ∨ (check r e).st = stError := by
  unfold FrameR.check
  split
  · exact Or.inl rfl
  · cases e with
    | none => exact Or.inl rfl
    | some e =>
      dsimp only
      split
      · exact Or.inl rfl
      · exact Or.inr rfl

theorem readGo_st {r : R} (hs : r.st = stRead) (n : Nat) :
    (readGo n r).1.st = stRead ∨ (readGo n r).1.st = stClosed ∨ (readGo n r).1.st = stError := by
  unfold readGo
  have := readLoop_st n (r.src.data.size + n + 4) r #[]
  generalize readLoop r n #[] _ = p at this ⊢
  obtain ⟨r1, out, e⟩ := p
  dsimp only at this ⊢
  have h1 : r1.st = stRead ∨ r1.st = stClosed := by
    by_cases he : e = some .eof
    · right; rw [this.1 he, hs]; decide
    · left; rw [this.2.1 he, hs]
  rcases rcheck_st r1 e with h2 | h2
  · rw [h2]; rcases h1 with h1 | h1
    · exact Or.inl h1
    · exact Or.inr (Or.inl h1)
  · exact Or.inr (Or.inr h2)

theorem wtGo_st {r : R} (hs : r.st = stRead) (sink : Sink) :
    (wtGo sink r).1.st = stClosed ∨ (wtGo sink r).1.st = stError := by
  unfold wtGo
  dsimp only
  have := wtLoop_st (poolSize (blockSizeIndex r.flags)) (r.src.data.size + 4) r sink 0
  generalize writeTo.loop _ r sink 0 _ = p at this ⊢
  obtain ⟨r1, s1, n1, e⟩ := p
  dsimp only at this ⊢
  cases e with
  | none => left; show readerStates r1.st = stClosed; rw [this.1, hs]; decide
  | some e => right; rfl

theorem read_obs {a b : R} (h : robsEq a b) (n : Nat) :
    RRel (read a n).1 (read b n).1 ∧ (read a n).2 = (read b n).2 := by
  by_cases h1 : a.st = stRead
  · rw [read_read h1, read_read (h.pe.st ▸ h1)]
    have := readGo_RE (h.open_ (Or.inl h1)) n
    refine ⟨⟨?_, Or.inl this.1⟩, this.2⟩
    rcases readGo_st h1 n with g | g | g <;> rw [g] <;> decide
  by_cases h2 : a.st = stClosed
  · rw [read_closed h2, read_closed (h.pe.st ▸ h2)]
    refine ⟨⟨?_, Or.inl (rcheck_RE (h.open_ (Or.inr h2)) (some .eof))⟩, rfl⟩
    show (check a (some .eof)).st ≠ stNew
    rw [check_st_eof, h2]; decide
  by_cases h3 : a.st = stError
  · rw [read_error h3, read_error (h.pe.st ▸ h3), h.pe.err]
    exact ⟨⟨by rw [h3]; decide, Or.inr ⟨h.pe, h1, h2⟩⟩, rfl⟩
  by_cases h4 : a.st = stNew
  · rw [read_new h4, read_new (h.pe.st ▸ h4)]
    have hi := init_PE h.pe (h.new_ h4)
    have hst := init_st a
    generalize init a = pa at hi hst ⊢
    generalize init b = pb at hi ⊢
    obtain ⟨a1, e1⟩ := pa
    obtain ⟨b1, e2⟩ := pb
    obtain ⟨hpe, he, hre⟩ := hi
    dsimp only at hpe he hre hst ⊢
    subst he
    cases e1 with
    | some e =>
      rw [rnext_some, rnext_some]
      dsimp only
      rw [if_pos rfl, if_pos rfl]
      exact ⟨pe_error hpe e, rfl⟩
    | none =>
      rw [rnext_none, rnext_none]
      dsimp only
      simp only [Bool.false_eq_true, if_false]
      have hs : ({ a1 with st := readerStates a1.st } : R).st = stRead := by
        show readerStates a1.st = stRead; rw [hst.1, h4]; decide
      have := readGo_RE (rnext_RE (hre rfl) none).1 n
      rw [rnext_none, rnext_none] at this
      refine ⟨⟨?_, Or.inl this.1⟩, this.2⟩
      rcases readGo_st hs n with g | g | g <;> rw [g] <;> decide
  · rw [read_other h1 h2 h3 h4, read_other (h.pe.st ▸ h1) (h.pe.st ▸ h2) (h.pe.st ▸ h3) (h.pe.st ▸ h4)]
    exact ⟨pe_error h.pe _, rfl⟩

theorem writeTo_obs {a b : R} (h : robsEq a b) (sink : Sink) :
    RRel (writeTo a sink).1 (writeTo b sink).1 ∧ (writeTo a sink).2 = (writeTo b sink).2 := by
  by_cases h2 : a.st = stClosed
  · rw [writeTo_done (Or.inl h2), writeTo_done (Or.inl (h.pe.st ▸ h2)), h.pe.err]
    exact ⟨⟨by rw [h2]; decide, Or.inl (h.open_ (Or.inr h2))⟩, rfl⟩
  by_cases h3 : a.st = stError
  · rw [writeTo_done (Or.inr h3), writeTo_done (Or.inr (h.pe.st ▸ h3)), h.pe.err]
    exact ⟨⟨by rw [h3]; decide, Or.inr ⟨h.pe, by rw [h3]; decide, h2⟩⟩, rfl⟩
  by_cases h4 : a.st = stNew
  · rw [writeTo_new' h4, writeTo_new' (h.pe.st ▸ h4)]
    have hi := init_PE h.pe (h.new_ h4)
    have hst := init_st a
    generalize init a = pa at hi hst ⊢
    generalize init b = pb at hi ⊢
    obtain ⟨a1, e1⟩ := pa
    obtain ⟨b1, e2⟩ := pb
    obtain ⟨hpe, he, hre⟩ := hi
    dsimp only at hpe he hre hst ⊢
    subst he
    cases e1 with
    | some e =>
      rw [rnext_some, rnext_some]
      dsimp only
      rw [if_pos rfl, if_pos rfl]
      exact ⟨pe_error hpe e, rfl⟩
    | none =>
      rw [rnext_none, rnext_none]
      dsimp only
      simp only [Bool.false_eq_true, if_false]
      have hs : ({ a1 with st := readerStates a1.st } : R).st = stRead := by
        show readerStates a1.st = stRead; rw [hst.1, h4]; decide
      have := wtGo_RE (rnext_RE (hre rfl) none).1 sink
      rw [rnext_none, rnext_none] at this
      refine ⟨⟨?_, Or.inl this.1⟩, this.2⟩
      rcases wtGo_st hs sink with g | g <;> rw [g] <;> decide
  · rw [writeTo_other h2 h3 h4, writeTo_other (h.pe.st ▸ h2) (h.pe.st ▸ h3) (h.pe.st ▸ h4)]
    exact ⟨pe_error h.pe _, rfl⟩

theorem size_obs {a b : R} (h : robsEq a b) : size a = size b := by
  unfold size
  rw [← h.pe.st]
  by_cases hs : a.st = stRead ∨ a.st = stClosed
  · have hre := h.open_ hs
    rw [← hre.flags]
    by_cases hf : flagSize a.flags = true
    · rw [if_pos ⟨hs, hf⟩, if_pos ⟨hs, hf⟩, hre.csize hf]
    · rw [if_neg (fun h' => hf h'.2), if_neg (fun h' => hf h'.2)]
  · rw [if_neg (fun h' => hs h'.1), if_neg (fun h' => hs h'.1)]

theorem reset_robs {a b : R} (h : robsEq a b) (src : Source) : robsEq (reset a src) (reset b src) :=
  ⟨⟨rfl, rfl, h.pe.num, rfl, rfl, rfl⟩, fun _ => rfl, fun h' => by
    rcases h' with h' | h' <;> exact absurd h' (by show stNew ≠ _; decide)⟩

theorem rstep_obs {a b : R} (h : robsEq a b) (op : ROp) :
    robsEq (rstep a op).1 (rstep b op).1 ∧ (rstep a op).2 = (rstep b op).2 := by
  cases op with
  | read n =>
    have := read_obs h n
    refine ⟨robsEq_of_rrel this.1, ?_⟩
    show RRes.mk _ _ _ _ = RRes.mk _ _ _ _
    rw [this.2]
  | writeTo sink =>
    have := writeTo_obs h sink
    refine ⟨robsEq_of_rrel this.1, ?_⟩
    show RRes.mk _ _ _ _ = RRes.mk _ _ _ _
    rw [this.2]
  | size =>
    refine ⟨h, ?_⟩
    show RRes.mk _ _ _ _ = RRes.mk _ _ _ _
    rw [size_obs h]
  | reset src => exact ⟨reset_robs h src, rfl⟩

theorem rrun_obs (ops : List ROp) : ∀ {a b : R}, robsEq a b →
    robsEq (rrunFrom a ops) (rrunFrom b ops) ∧ rresults a ops = rresults b ops := by
  induction ops with
  | nil => intro a b h; exact ⟨h, rfl⟩
  | cons op ops ih =>
    intro a b h
    have h1 := rstep_obs h op
    obtain ⟨g1, g2⟩ := ih h1.1
    refine ⟨g1, ?_⟩
    show _ :: _ = _ :: _
    rw [h1.2, g2]

end Lz4V.Proofs.LifeR

namespace Lz4V.Proofs.Life
open Lz4V Lz4V.Go Lz4V.Gen Lz4V.Model Lz4V.Model.FrameW Lz4V.Props.C17

/-! ## the configuration is only changed by `Apply` and `init`, i.e. only in the new state, and by `Reset`
(which restores the block size index a legacy frame had replaced) -/

theorem writeOne_cfg (w : W) (d : Array UInt8) : (writeOne w d).1.cfg = w.cfg := by
  unfold writeOne
  rcases writeBlock w.cfg w.magicLegacy w.cks w.sink d with ⟨s, c, e⟩
  dsimp only
  split
  · rfl
  · split <;> rfl

theorem writeLoop_cfg (buf : Array UInt8) : ∀ (fuel : Nat) (w : W) (off n : Nat),
    (writeLoop w buf off n fuel).1.cfg = w.cfg := by
  intro fuel
  induction fuel with
  | zero => intro w off n; rfl
  | succ fuel ih =>
    intro w off n
    rw [writeLoop_succ]
    dsimp only
    split
    · rfl
    · split
      · have := writeOne_cfg w (buf.extract off (off + w.bufSize))
        generalize writeOne w _ = r at this ⊢
        obtain ⟨w1, e1⟩ := r
        cases e1 with
        | some e => exact this
        | none => dsimp only at this ⊢; rw [ih]; exact this
      · split
        · rfl
        · have := writeOne_cfg { w with pending := w.pending ++ buf.extract off (off + min (w.bufSize - w.pending.size) (buf.size - off)) }
            (w.pending ++ buf.extract off (off + min (w.bufSize - w.pending.size) (buf.size - off)))
          generalize writeOne _ _ = r at this ⊢
          obtain ⟨w1, e1⟩ := r
          cases e1 with
          | some e => exact this
          | none => dsimp only at this ⊢; rw [ih]; exact this

theorem check_cfg (w : W) (e : Option Err) : (check w e).cfg = w.cfg := by
  unfold check
  split
  · rfl
  · cases e with
    | none => rfl
    | some e => dsimp only; split <;> rfl

theorem flushGo_cfg (w : W) : (flushGo w).1.cfg = w.cfg := by
  unfold flushGo
  split
  · have := writeOne_cfg w w.pending
    generalize writeOne w w.pending = r at this ⊢
    obtain ⟨w1, e1⟩ := r
    cases e1 <;> exact this
  · rfl

theorem closeW_cfg (w : W) : (closeW w).1.cfg = w.cfg := by
  unfold closeW
  split
  · rfl
  · split <;> rfl

theorem closeRest_cfg (r : W × Option Err) : (closeRest r).1.cfg = r.1.cfg := by
  unfold closeRest
  split
  · rfl
  · have := closeW_cfg r.1
    generalize closeW r.1 = q at this ⊢
    obtain ⟨w1, e⟩ := q
    dsimp only at this ⊢
    cases e <;> exact this

/-- outside the new state no call other than `Reset` changes the options (`Reset` restores the block size
index that a legacy frame had replaced: `reset_eq`) -/
theorem cfg_fixed {w : W} (hw : WF w) (h : w.st ≠ stNew) (op : WOp) (hop : ∀ f, op ≠ .reset f) :
    (wstep w op).1.cfg = w.cfg := by
  cases op with
  | apply opts => exact (apply_not_new hw h opts).2
  | reset f => exact absurd rfl (hop f)
  | write buf =>
    show (write w buf).1.cfg = w.cfg
    rcases hw.four with hs | hs | hs | hs
    · exact absurd hs h
    · rw [write_write hs]
      unfold writeGo
      have := writeLoop_cfg buf (buf.size + 2) w 0 0
      generalize writeLoop w buf 0 0 (buf.size + 2) = r at this ⊢
      obtain ⟨w1, n, e⟩ := r
      dsimp only at this ⊢
      rw [check_cfg]; exact this
    · rw [write_closed hs]; exact check_cfg _ _
    · rw [write_error hs]
  | flush =>
    show (flush w).1.cfg = w.cfg
    rcases hw.four with hs | hs | hs | hs
    · exact absurd hs h
    · rw [flush_write hs]; exact flushGo_cfg w
    · rw [flush_closed hs]
    · rw [flush_error hs]
  | close =>
    show (close w).1.cfg = w.cfg
    rcases hw.four with hs | hs | hs | hs
    · exact absurd hs h
    · rw [close_other (by rw [hs]; decide), closeRest_cfg, flush_write hs]; exact flushGo_cfg w
    · rw [close_closed hs]
    · rw [close_other (by rw [hs]; decide), closeRest_cfg, flush_error hs]
  | readFrom src =>
    show (readFrom w src).1.cfg = w.cfg
    rcases hw.four with hs | hs | hs | hs
    · exact absurd hs h
    · rw [readFrom_write hs]
    · rw [readFrom_closed hs]
    · rw [readFrom_error hs]


/-! ## the saved block size index (`Frame.savedBlockSizeIndex`) is only changed by `init` and `Reset` -/

theorem writeOne_saved (w : W) (d : Array UInt8) : (writeOne w d).1.savedIdx = w.savedIdx := by
  unfold writeOne
  rcases writeBlock w.cfg w.magicLegacy w.cks w.sink d with ⟨s, c, e⟩
  dsimp only
  split
  · rfl
  · split <;> rfl

theorem writeLoop_saved (buf : Array UInt8) : ∀ (fuel : Nat) (w : W) (off n : Nat),
    (writeLoop w buf off n fuel).1.savedIdx = w.savedIdx := by
  intro fuel
  induction fuel with
  | zero => intro w off n; rfl
  | succ fuel ih =>
    intro w off n
    rw [writeLoop_succ]
    dsimp only
    split
    · rfl
    · split
      · have := writeOne_saved w (buf.extract off (off + w.bufSize))
        generalize writeOne w _ = r at this ⊢
        obtain ⟨w1, e1⟩ := r
        cases e1 with
        | some e => exact this
        | none => dsimp only at this ⊢; rw [ih]; exact this
      · split
        · rfl
        · have := writeOne_saved { w with pending := w.pending ++ buf.extract off (off + min (w.bufSize - w.pending.size) (buf.size - off)) }
            (w.pending ++ buf.extract off (off + min (w.bufSize - w.pending.size) (buf.size - off)))
          generalize writeOne _ _ = r at this ⊢
          obtain ⟨w1, e1⟩ := r
          cases e1 with
          | some e => exact this
          | none => dsimp only at this ⊢; rw [ih]; exact this

theorem check_saved (w : W) (e : Option Err) : (check w e).savedIdx = w.savedIdx := by
  unfold check
  split
  · rfl
  · cases e with
    | none => rfl
    | some e => dsimp only; split <;> rfl

theorem flushGo_saved (w : W) : (flushGo w).1.savedIdx = w.savedIdx := by
  unfold flushGo
  split
  · have := writeOne_saved w w.pending
    generalize writeOne w w.pending = r at this ⊢
    obtain ⟨w1, e1⟩ := r
    cases e1 <;> exact this
  · rfl

theorem closeW_saved (w : W) : (closeW w).1.savedIdx = w.savedIdx := by
  unfold closeW
  split
  · rfl
  · split <;> rfl

theorem closeRest_saved (r : W × Option Err) : (closeRest r).1.savedIdx = r.1.savedIdx := by
  unfold closeRest
  split
  · rfl
  · have := closeW_saved r.1
    generalize closeW r.1 = q at this ⊢
    obtain ⟨w1, e⟩ := q
    dsimp only at this ⊢
    cases e <;> exact this

/-- same options and same saved index -/
def CS (a b : W) : Prop := a.cfg = b.cfg ∧ a.savedIdx = b.savedIdx

theorem CS.rfl' (a : W) : CS a a := ⟨rfl, rfl⟩
theorem CS.trans' {a b c : W} (h1 : CS a b) (h2 : CS b c) : CS a c := ⟨h1.1.trans h2.1, h1.2.trans h2.2⟩

theorem next_cs (w : W) (e : Option Err) : CS (next w e).1 w := by cases e <;> exact ⟨rfl, rfl⟩
theorem check_cs (w : W) (e : Option Err) : CS (check w e) w := ⟨check_cfg w e, check_saved w e⟩
theorem writeOne_cs (w : W) (d : Array UInt8) : CS (writeOne w d).1 w := ⟨writeOne_cfg w d, writeOne_saved w d⟩
theorem flushGo_cs (w : W) : CS (flushGo w).1 w := ⟨flushGo_cfg w, flushGo_saved w⟩
theorem closeRest_cs (r : W × Option Err) : CS (closeRest r).1 r.1 := ⟨closeRest_cfg r, closeRest_saved r⟩

theorem writeGo_cs (buf : Array UInt8) (w : W) : CS (writeGo buf w).1 w := by
  unfold writeGo
  have h1 := writeLoop_cfg buf (buf.size + 2) w 0 0
  have h2 := writeLoop_saved buf (buf.size + 2) w 0 0
  generalize writeLoop w buf 0 0 (buf.size + 2) = r at h1 h2 ⊢
  obtain ⟨w1, n, e⟩ := r
  exact (check_cs w1 e).trans' ⟨h1, h2⟩

theorem rfLoop_cs (size : Nat) : ∀ (fuel : Nat) (w : W) (src : Source) (n : Nat),
    CS (readFrom.loop size w src n fuel).1 w := by
  intro fuel
  induction fuel with
  | zero => intro w src n; exact ⟨rfl, rfl⟩
  | succ fuel ih =>
    intro w src n
    rw [rfLoop_succ]
    rcases readFull src size with ⟨s1, got, e⟩
    dsimp only
    split
    · exact ⟨rfl, rfl⟩
    · have := writeOne_cs w got
      generalize writeOne w got = r at this ⊢
      obtain ⟨w1, e1⟩ := r
      cases e1 with
      | some e => exact this
      | none =>
        dsimp only at this ⊢
        split
        · exact this
        · exact (ih _ _ _).trans' this

theorem rfGo_cs (src : Source) (w : W) : CS (rfGo src w).1 w := by
  unfold rfGo
  dsimp only
  have := rfLoop_cs (poolSize (blockSizeIndex w.cfg.flags)) (src.data.size / (max (poolSize (blockSizeIndex w.cfg.flags)) 1) + 3) w src 0
  generalize readFrom.loop _ w src 0 _ = r at this ⊢
  obtain ⟨w1, s, n, e⟩ := r
  exact (check_cs w1 e).trans' this

/-- `Write`, `Flush`, `Close` and `ReadFrom` change the options and the saved index through `init` only -/
theorem write_cs (w : W) (buf : Array UInt8) : CS (write w buf).1 w ∨ CS (write w buf).1 (init w).1 := by
  rw [write_eq]
  split
  · exact Or.inl (writeGo_cs buf w)
  · split
    · exact Or.inl (check_cs w _)
    · split
      · exact Or.inl ⟨rfl, rfl⟩
      · split
        · right
          generalize init w = r
          obtain ⟨w1, e⟩ := r
          dsimp only
          have := next_cs w1 e
          generalize next w1 e = r2 at this ⊢
          obtain ⟨w2, bad⟩ := r2
          dsimp only at this ⊢
          split
          · exact (check_cs w2 e).trans' this
          · exact (writeGo_cs buf w2).trans' this
        · exact Or.inl ⟨rfl, rfl⟩

theorem flush_cs (w : W) : CS (flush w).1 w ∨ CS (flush w).1 (init w).1 := by
  rw [flush_eq]
  split
  · exact Or.inl (flushGo_cs w)
  · split
    · exact Or.inl ⟨rfl, rfl⟩
    · split
      · right
        generalize init w = r
        obtain ⟨w1, e⟩ := r
        dsimp only
        have := next_cs w1 e
        generalize next w1 e = r2 at this ⊢
        obtain ⟨w2, bad⟩ := r2
        dsimp only at this ⊢
        split
        · exact this
        · exact (flushGo_cs w2).trans' this
      · exact Or.inl ⟨rfl, rfl⟩

theorem close_cs (w : W) : CS (close w).1 w ∨ CS (close w).1 (init w).1 := by
  rw [close_eq]
  split
  · exact Or.inl ⟨rfl, rfl⟩
  · rcases flush_cs w with h | h
    · exact Or.inl ((closeRest_cs _).trans' h)
    · exact Or.inr ((closeRest_cs _).trans' h)

theorem readFrom_cs (w : W) (src : Source) : CS (readFrom w src).1 w ∨ CS (readFrom w src).1 (init w).1 := by
  rw [readFrom_eq]
  split
  · exact Or.inl ⟨rfl, rfl⟩
  · split
    · exact Or.inl ⟨rfl, rfl⟩
    · split
      · right
        generalize init w = r
        obtain ⟨w1, e⟩ := r
        dsimp only
        have := next_cs w1 e
        generalize next w1 e = r2 at this ⊢
        obtain ⟨w2, bad⟩ := r2
        dsimp only at this ⊢
        split
        · exact this
        · exact (rfGo_cs src w2).trans' this
      · exact Or.inl ⟨rfl, rfl⟩


end Lz4V.Proofs.Life

/-! # the block-size option survives legacy frames (the `Frame.InitW` / `Frame.Reset` fix) -/

namespace Lz4V.Props.C17
open Lz4V Lz4V.Go Lz4V.Gen Lz4V.Model

/-- the block-size option `k` of a Writer is intact: either it sits in the descriptor flags and nothing is
saved, or a legacy frame has put the 8 MiB index (3) there and `k` is saved for the next `Reset` -/
def BsInv (k : Nat) (w : FrameW.W) : Prop :=
  (w.savedIdx = 0 ∧ FrameW.blockSizeIndex w.cfg.flags = k) ∨
  (w.savedIdx = k ∧ FrameW.blockSizeIndex w.cfg.flags = 3)

/-- a call other than `Apply` -/
def WOp.notApply : WOp → Prop
  | .apply _ => False
  | _ => True

end Lz4V.Props.C17

namespace Lz4V.Proofs.Life
open Lz4V Lz4V.Go Lz4V.Gen Lz4V.Model Lz4V.Model.FrameW Lz4V.Props.C17 Lz4V.Proofs.FrameWBits

theorem indexOf_8Mb : indexOf Block8Mb = 3 := by decide

theorem init_flags (w : W) : (init w).1.cfg.flags =
    (if w.cfg.legacy then blockSizeIndexSet w.cfg.flags (indexOf Block8Mb).toUInt16
     else blockIndependenceSet (versionSet w.cfg.flags 1) true) := rfl

theorem init_saved (w : W) : (init w).1.savedIdx =
    (if w.cfg.legacy ∧ blockSizeIndex w.cfg.flags ≠ indexOf Block8Mb then blockSizeIndex w.cfg.flags
     else w.savedIdx) := rfl

theorem init_cfg (w : W) : (init w).1.cfg = { w.cfg with flags := (init w).1.cfg.flags } := rfl

theorem valid_idx {k : Nat} (hk : k ∈ [4, 5, 6, 7]) : k ≠ 0 ∧ k ≠ 3 ∧ k < 8 := by
  simp only [List.mem_cons, List.not_mem_nil, or_false] at hk
  omega

theorem bsInv_cs {k : Nat} {a b : W} (h : CS a b) (hb : BsInv k b) : BsInv k a := by
  unfold BsInv at hb ⊢
  rw [h.1, h.2]; exact hb

/-- `Writer.init` keeps the option intact: a legacy frame hides it, any other frame leaves it where it is -/
theorem bsInv_init {k : Nat} (hk : k ∈ [4, 5, 6, 7]) {w : W} (h : BsInv k w) : BsInv k (init w).1 := by
  have hk3 : k ≠ 3 := (valid_idx hk).2.1
  unfold BsInv at h ⊢
  rw [init_flags, init_saved, indexOf_8Mb]
  cases hl : w.cfg.legacy with
  | false =>
    simp only [Bool.false_eq_true, false_and, if_false]
    rw [bsi_init]; exact h
  | true =>
    simp only [true_and, if_true]
    rw [bsi_set_nat _ 3 (by decide)]
    rcases h with ⟨h1, h2⟩ | ⟨h1, h2⟩
    · right; rw [h2, if_pos hk3]; exact ⟨rfl, rfl⟩
    · right; rw [h2, if_neg (fun h => h rfl)]; exact ⟨h1, rfl⟩

/-- `Reset` puts the option back into the descriptor flags -/
theorem bsInv_reset {k : Nat} (hk : k ∈ [4, 5, 6, 7]) {w : W} (h : BsInv k w) (f : Option Nat) :
    (reset w f).savedIdx = 0 ∧ blockSizeIndex (reset w f).cfg.flags = k := by
  refine ⟨rfl, ?_⟩
  rcases h with ⟨h1, h2⟩ | ⟨h1, h2⟩
  · rw [reset_cfg_of_saved_zero h1]; exact h2
  · rw [reset_eq]
    show blockSizeIndex (if w.savedIdx ≠ 0 then _ else w.cfg : Cfg).flags = k
    rw [if_pos (by rw [h1]; exact (valid_idx hk).1), h1]
    exact bsi_set_nat _ k (valid_idx hk).2.2

/-- no call other than `Apply` changes the block-size option -/
theorem bsInv_step {k : Nat} (hk : k ∈ [4, 5, 6, 7]) {w : W} (h : BsInv k w) (op : WOp) (hop : op.notApply) :
    BsInv k (wstep w op).1 := by
  have key : ∀ w' : W, CS w' w ∨ CS w' (init w).1 → BsInv k w' := by
    intro w' hw'
    rcases hw' with h' | h'
    · exact bsInv_cs h' h
    · exact bsInv_cs h' (bsInv_init hk h)
  cases op with
  | apply opts => exact absurd hop (fun h => h)
  | write buf => exact key _ (write_cs w buf)
  | flush => exact key _ (flush_cs w)
  | close => exact key _ (close_cs w)
  | reset f => exact Or.inl (bsInv_reset hk h f)
  | readFrom src => exact key _ (readFrom_cs w src)

theorem bsInv_run {k : Nat} (hk : k ∈ [4, 5, 6, 7]) (ops : List WOp) : ∀ {w : W}, BsInv k w →
    (∀ op ∈ ops, op.notApply) → BsInv k (wrunFrom w ops) := by
  induction ops with
  | nil => intro w h _; exact h
  | cons op ops ih =>
    intro w h hops
    exact ih (bsInv_step hk h op (hops op (List.mem_cons_self ..)))
      (fun o ho => hops o (List.mem_cons_of_mem _ ho))

/-- after a legacy frame (`init` with the legacy option) `Reset` gives back exactly the options that were
configured -/
theorem legacy_reset_cfg {w : W} (hl : w.cfg.legacy = true) (h0 : w.savedIdx = 0)
    (hk : blockSizeIndex w.cfg.flags ≠ 0) (f : Option Nat) : (reset (init w).1 f).cfg = w.cfg := by
  have hs : (init w).1.savedIdx = if blockSizeIndex w.cfg.flags ≠ 3 then blockSizeIndex w.cfg.flags else 0 := by
    rw [init_saved, indexOf_8Mb, hl, h0]; simp only [true_and]
  have hf : (init w).1.cfg.flags = blockSizeIndexSet w.cfg.flags (3 : Nat).toUInt16 := by
    rw [init_flags, indexOf_8Mb, hl]; simp only [if_true]
  have hc : (init w).1.cfg = { w.cfg with flags := (init w).1.cfg.flags } := rfl
  have eta : ∀ x : Flags, x = w.cfg.flags → ({ w.cfg with flags := x } : Cfg) = w.cfg := by
    intro x hx; rw [hx]
  rw [reset_eq]
  show (if (init w).1.savedIdx ≠ 0 then ({ (init w).1.cfg with
      flags := blockSizeIndexSet (init w).1.cfg.flags (init w).1.savedIdx.toUInt16 } : Cfg) else (init w).1.cfg) = w.cfg
  by_cases h3 : blockSizeIndex w.cfg.flags = 3
  · have hs0 : (init w).1.savedIdx = 0 := by rw [hs, if_neg (fun h => h h3)]
    rw [if_neg (fun h => h hs0), hc]
    apply eta
    rw [hf, ← h3]; exact bsiSet_self _
  · have hs1 : (init w).1.savedIdx = blockSizeIndex w.cfg.flags := by rw [hs, if_pos h3]
    rw [if_pos (by rw [hs1]; exact hk), hs1]
    show ({ w.cfg with flags := blockSizeIndexSet (init w).1.cfg.flags (blockSizeIndex w.cfg.flags).toUInt16 } : Cfg) = w.cfg
    apply eta
    rw [hf, bsiSet_bsiSet, bsiSet_self]

end Lz4V.Proofs.Life

namespace Lz4V.Proofs.Life
open Lz4V Lz4V.Go Lz4V.Gen Lz4V.Model Lz4V.Model.FrameW Lz4V.Props.C17 Lz4V.Proofs.FrameWBits

/-! ## `Apply` keeps the block-size index valid; every reachable Writer has its option intact -/

theorem applyGo_nil (c : Cfg) : apply.go c [] = (c, none) := rfl
theorem applyGo_cons (c : Cfg) (o : Opt) (os : List Opt) : apply.go c (o :: os) =
    (match applyOne c o with
     | .ok c' => apply.go c' os
     | .error e => (c, some e)) := rfl

theorem applyOne_blockSize (c : Cfg) (n : Nat) : applyOne c (.blockSize n) =
    (if indexOf n = 4 ∨ indexOf n = 5 ∨ indexOf n = 6 ∨ indexOf n = 7 then
      .ok { c with flags := blockSizeIndexSet c.flags (indexOf n).toUInt16 } else .error .badBlockSize) := rfl
theorem applyOne_level (c : Cfg) (n : Nat) : applyOne c (.level n) =
    (if validLevel n then .ok { c with level := n } else .error .badLevel) := rfl

theorem applyOne_idx {c c' : Cfg} (o : Opt) (h : blockSizeIndex c.flags ∈ [4, 5, 6, 7]) (ho : applyOne c o = .ok c') :
    blockSizeIndex c'.flags ∈ [4, 5, 6, 7] := by
  cases o with
  | blockSize n =>
    rw [applyOne_blockSize] at ho
    split at ho
    · rename_i hv
      injection ho with ho
      subst ho
      show blockSizeIndex (blockSizeIndexSet c.flags (indexOf n).toUInt16) ∈ [4, 5, 6, 7]
      rw [bsi_set_nat _ _ (by omega)]
      simp only [List.mem_cons, List.not_mem_nil, or_false]
      exact hv
    · exact nomatch ho
  | blockChecksum b =>
    injection ho with ho; subst ho
    show blockSizeIndex (blockChecksumSet c.flags b) ∈ _
    rw [bsi_blockChecksumSet]; exact h
  | checksum b =>
    injection ho with ho; subst ho
    show blockSizeIndex (contentChecksumSet c.flags b) ∈ _
    rw [bsi_contentChecksumSet]; exact h
  | size n =>
    injection ho with ho; subst ho
    show blockSizeIndex (sizeSet c.flags (n > 0)) ∈ _
    rw [bsi_sizeSet]; exact h
  | concurrency n => injection ho with ho; subst ho; exact h
  | level n =>
    rw [applyOne_level] at ho
    split at ho
    · injection ho with ho; subst ho; exact h
    · exact nomatch ho
  | legacy b => injection ho with ho; subst ho; exact h

theorem applyGo_idx : ∀ (opts : List Opt) (c : Cfg), blockSizeIndex c.flags ∈ [4, 5, 6, 7] →
    blockSizeIndex (apply.go c opts).1.flags ∈ [4, 5, 6, 7] := by
  intro opts
  induction opts with
  | nil => intro c h; exact h
  | cons o os ih =>
    intro c h
    rw [applyGo_cons]
    cases ho : applyOne c o with
    | ok c' => exact ih c' (applyOne_idx o h ho)
    | error e => exact h

theorem new_idx (f : Option Nat) : (new f).savedIdx = 0 ∧ blockSizeIndex (new f).cfg.flags = 7 := ⟨rfl, by show blockSizeIndex (contentChecksumSet (blockSizeIndexSet 0 (indexOf Block4Mb).toUInt16) true) = 7; decide⟩

/-- a freshly configured Writer (`NewWriter` + `Apply`, successful or not): nothing saved, valid index -/
theorem apply_new_fresh (fa : Option Nat) (opts : List Opt) :
    (apply (new fa) opts).1.savedIdx = 0 ∧ blockSizeIndex (apply (new fa) opts).1.cfg.flags ∈ [4, 5, 6, 7] := by
  rw [apply_new (w := new fa) rfl]
  dsimp only
  rw [check_saved, check_cfg]
  refine ⟨rfl, ?_⟩
  show blockSizeIndex (apply.go (reset (new fa) (new fa).sink.failAt).cfg opts).1.flags ∈ [4, 5, 6, 7]
  apply applyGo_idx
  rw [reset_cfg_of_saved_zero rfl, (new_idx fa).2]
  decide

/-- the options after `Reset`, field by field -/
theorem reset_fields (w : W) (f : Option Nat) :
    (reset w f).cfg.level = w.cfg.level ∧ (reset w f).cfg.num = w.cfg.num ∧ (reset w f).cfg.legacy = w.cfg.legacy ∧
    (reset w f).cfg.contentSize = w.cfg.contentSize ∧
    (reset w f).cfg.flags = (if w.savedIdx ≠ 0 then blockSizeIndexSet w.cfg.flags w.savedIdx.toUInt16 else w.cfg.flags) := by
  rw [reset_eq]
  by_cases h : w.savedIdx ≠ 0
  · show ((if w.savedIdx ≠ 0 then _ else w.cfg : Cfg).level = _) ∧ ((if w.savedIdx ≠ 0 then _ else w.cfg : Cfg).num = _) ∧
      ((if w.savedIdx ≠ 0 then _ else w.cfg : Cfg).legacy = _) ∧ ((if w.savedIdx ≠ 0 then _ else w.cfg : Cfg).contentSize = _) ∧
      ((if w.savedIdx ≠ 0 then _ else w.cfg : Cfg).flags = _)
    rw [if_pos h, if_pos h]; exact ⟨rfl, rfl, rfl, rfl, rfl⟩
  · show ((if w.savedIdx ≠ 0 then _ else w.cfg : Cfg).level = _) ∧ ((if w.savedIdx ≠ 0 then _ else w.cfg : Cfg).num = _) ∧
      ((if w.savedIdx ≠ 0 then _ else w.cfg : Cfg).legacy = _) ∧ ((if w.savedIdx ≠ 0 then _ else w.cfg : Cfg).contentSize = _) ∧
      ((if w.savedIdx ≠ 0 then _ else w.cfg : Cfg).flags = _)
    rw [if_neg h, if_neg h]; exact ⟨rfl, rfl, rfl, rfl, rfl⟩

/-- `Apply` leaves a Writer whose block-size option is intact (possibly another one) -/
theorem apply_bsInv {w : W} (h : ∃ k ∈ [4, 5, 6, 7], BsInv k w) (opts : List Opt) :
    ∃ k ∈ [4, 5, 6, 7], BsInv k (apply w opts).1 := by
  obtain ⟨k, hk, hb⟩ := h
  rw [apply_eq]
  split
  · exact ⟨k, hk, hb⟩
  · split
    · exact ⟨k, hk, bsInv_cs (check_cs w _) hb⟩
    · dsimp only
      have hr := bsInv_reset hk hb w.sink.failAt
      have hi := applyGo_idx opts (reset w w.sink.failAt).cfg (by rw [hr.2]; exact hk)
      generalize apply.go (reset w w.sink.failAt).cfg opts = r at hi ⊢
      obtain ⟨c, e⟩ := r
      exact ⟨_, hi, bsInv_cs (check_cs _ e) (Or.inl ⟨rfl, rfl⟩)⟩

theorem wstep_bsInv {w : W} (h : ∃ k ∈ [4, 5, 6, 7], BsInv k w) (op : WOp) :
    ∃ k ∈ [4, 5, 6, 7], BsInv k (wstep w op).1 := by
  cases op with
  | apply opts => exact apply_bsInv h opts
  | write buf => obtain ⟨k, hk, hb⟩ := h; exact ⟨k, hk, bsInv_step hk hb (.write buf) trivial⟩
  | flush => obtain ⟨k, hk, hb⟩ := h; exact ⟨k, hk, bsInv_step hk hb .flush trivial⟩
  | close => obtain ⟨k, hk, hb⟩ := h; exact ⟨k, hk, bsInv_step hk hb .close trivial⟩
  | reset f => obtain ⟨k, hk, hb⟩ := h; exact ⟨k, hk, bsInv_step hk hb (.reset f) trivial⟩
  | readFrom src => obtain ⟨k, hk, hb⟩ := h; exact ⟨k, hk, bsInv_step hk hb (.readFrom src) trivial⟩

theorem wrunFrom_bsInv (ops : List WOp) : ∀ {w : W}, (∃ k ∈ [4, 5, 6, 7], BsInv k w) →
    ∃ k ∈ [4, 5, 6, 7], BsInv k (wrunFrom w ops) := by
  induction ops with
  | nil => intro w h; exact h
  | cons op ops ih => intro w h; exact ih (wstep_bsInv h op)

end Lz4V.Proofs.Life

namespace Lz4V.Proofs.Life
open Lz4V Lz4V.Go Lz4V.Gen Lz4V.Model Lz4V.Model.FrameW Lz4V.Props.C17 Lz4V.Proofs.FrameWBits

/-! ## only `Reset` and `Apply` lead to (or stay in) the new state; there nothing is saved -/

theorem check_st' (w : W) (e : Option Err) : (check w e).st = w.st ∨ (check w e).st = stError := by
  unfold check
  split
  · exact Or.inl rfl
  · cases e with
    | none => exact Or.inl rfl
    | some e => dsimp only; split
                · exact Or.inl rfl
                · exact Or.inr rfl

theorem check_ne_new {w : W} (h : w.st ≠ stNew) (e : Option Err) : (check w e).st ≠ stNew := by
  rcases check_st' w e with h' | h' <;> rw [h']
  · exact h
  · decide

theorem writeGo_ne_new {w : W} (h : w.st ≠ stNew) (buf : Array UInt8) : (writeGo buf w).1.st ≠ stNew := by
  unfold writeGo
  have := writeLoop_st buf (buf.size + 2) w 0 0
  generalize writeLoop w buf 0 0 (buf.size + 2) = r at this ⊢
  obtain ⟨w1, n, e⟩ := r
  exact check_ne_new (by rw [this.1]; exact h) e

theorem rfGo_ne_new {w : W} (h : w.st ≠ stNew) (src : Source) : (rfGo src w).1.st ≠ stNew := by
  unfold rfGo
  dsimp only
  have := rfLoop_st (poolSize (blockSizeIndex w.cfg.flags)) (src.data.size / (max (poolSize (blockSizeIndex w.cfg.flags)) 1) + 3) w src 0
  generalize readFrom.loop _ w src 0 _ = r at this ⊢
  obtain ⟨w1, s, n, e⟩ := r
  exact check_ne_new (by rw [this.1]; exact h) e

/-- after `init` + `next` from the new state the Writer is in the write or in the error state -/
theorem initNext_ne_new {w : W} (hs : w.st = stNew) : (next (init w).1 (init w).2).1.st ≠ stNew := by
  have hi : (init w).1.st = stNew := hs
  generalize init w = r at hi ⊢
  obtain ⟨w1, e1⟩ := r
  dsimp only at hi ⊢
  cases e1 with
  | some e => rw [next_some]; show stError ≠ stNew; decide
  | none => rw [next_none]; show writerStates w1.st ≠ stNew; rw [hi]; decide

theorem write_ne_new {w : W} (hw : WF w) (buf : Array UInt8) : (write w buf).1.st ≠ stNew := by
  rcases hw.four with hs | hs | hs | hs
  · rw [write_new hs]
    have := initNext_ne_new hs
    generalize init w = r at this ⊢
    obtain ⟨w1, e⟩ := r
    dsimp only at this ⊢
    generalize next w1 e = r2 at this ⊢
    obtain ⟨w2, bad⟩ := r2
    dsimp only at this ⊢
    split
    · exact check_ne_new this e
    · exact writeGo_ne_new this buf
  · rw [write_write hs]; exact writeGo_ne_new (by rw [hs]; decide) buf
  · rw [write_closed hs]; exact check_ne_new (by rw [hs]; decide) _
  · rw [write_error hs]; show w.st ≠ stNew; rw [hs]; decide

theorem flush_ne_new {w : W} (hw : WF w) : (flush w).1.st ≠ stNew := by
  rcases hw.four with hs | hs | hs | hs
  · rw [flush_new hs]
    have := initNext_ne_new hs
    generalize init w = r at this ⊢
    obtain ⟨w1, e⟩ := r
    dsimp only at this ⊢
    generalize next w1 e = r2 at this ⊢
    obtain ⟨w2, bad⟩ := r2
    dsimp only at this ⊢
    split
    · exact this
    · rw [(flushGo_st w2).1]; exact this
  · rw [flush_write hs, (flushGo_st w).1, hs]; decide
  · rw [flush_closed hs]; show w.st ≠ stNew; rw [hs]; decide
  · rw [flush_error hs]; show w.st ≠ stNew; rw [hs]; decide

theorem close_ne_new {w : W} (hw : WF w) : (close w).1.st ≠ stNew := by
  by_cases hc : w.st = stClosed
  · rw [close_closed hc]; show w.st ≠ stNew; rw [hc]; decide
  · rw [close_other hc]
    have hf := flush_ne_new hw
    have hwf := flush_wf hw
    cases he : (flush w).2 with
    | some e =>
      have : flush w = ((flush w).1, some e) := by rw [← he]
      rw [this, closeRest_some]; exact hf
    | none =>
      have hst : (flush w).1.st = stWrite := by
        rcases hw.four with hs | hs | hs | hs
        · exact (flush_ok (Or.inl hs) he).1
        · exact (flush_ok (Or.inr hs) he).1
        · exact absurd hs hc
        · rw [flush_error hs] at he; exact absurd he (hw.err hs)
      generalize flush w = r at he hst ⊢
      obtain ⟨w1, e1⟩ := r
      dsimp only at he hst
      subst he
      unfold closeRest
      dsimp only
      have hcw := closeW_st w1
      generalize closeW w1 = q at hcw ⊢
      obtain ⟨w2, e2⟩ := q
      dsimp only at hcw ⊢
      cases e2 with
      | some e => rw [next_some]; show stError ≠ stNew; decide
      | none => rw [next_none]; show writerStates w2.st ≠ stNew; rw [hcw.1, hst]; decide

theorem readFrom_ne_new {w : W} (hw : WF w) (src : Source) : (readFrom w src).1.st ≠ stNew := by
  rcases hw.four with hs | hs | hs | hs
  · rw [readFrom_new hs]
    have := initNext_ne_new hs
    generalize init w = r at this ⊢
    obtain ⟨w1, e⟩ := r
    dsimp only at this ⊢
    generalize next w1 e = r2 at this ⊢
    obtain ⟨w2, bad⟩ := r2
    dsimp only at this ⊢
    split
    · exact this
    · exact rfGo_ne_new this src
  · rw [readFrom_write hs]; show stError ≠ stNew; decide
  · rw [readFrom_closed hs]; show w.st ≠ stNew; rw [hs]; decide
  · rw [readFrom_error hs]; show w.st ≠ stNew; rw [hs]; decide

/-- in the new state nothing is saved (`Reset` has cleared it, `init` has not yet run) -/
theorem wstep_newClean {w : W} (hw : WF w) (h : w.st = stNew → w.savedIdx = 0) (op : WOp) :
    (wstep w op).1.st = stNew → (wstep w op).1.savedIdx = 0 := by
  cases op with
  | write buf => intro h'; exact absurd h' (write_ne_new hw buf)
  | flush => intro h'; exact absurd h' (flush_ne_new hw)
  | close => intro h'; exact absurd h' (close_ne_new hw)
  | readFrom src => intro h'; exact absurd h' (readFrom_ne_new hw src)
  | reset f => intro _; rfl
  | apply opts =>
    show (apply w opts).1.st = stNew → (apply w opts).1.savedIdx = 0
    rw [apply_eq]
    split
    · exact h
    · split
      · rename_i h1 h2
        intro h'
        exact absurd h' (check_ne_new h2 _)
      · intro _
        dsimp only
        generalize apply.go (reset w w.sink.failAt).cfg opts = r
        obtain ⟨c, e⟩ := r
        rw [check_saved]
        rfl

theorem wrunFrom_newClean (ops : List WOp) : ∀ {w : W}, WF w → (w.st = stNew → w.savedIdx = 0) →
    ((wrunFrom w ops).st = stNew → (wrunFrom w ops).savedIdx = 0) := by
  induction ops with
  | nil => intro w _ h; exact h
  | cons op ops ih => intro w hw h; exact ih (wstep_wf hw op) (wstep_newClean hw h op)

end Lz4V.Proofs.Life
