import Lz4V.Proofs.FrameR
/-!
# Proofs.FrameRRead — `Reader.Read`: the same blocks, delivered through `r.data` / `r.idx`
-/
set_option linter.unusedSimpArgs false
namespace Lz4V.Proofs.FrameR
open Lz4V Lz4V.Go Lz4V.Gen Lz4V.Model Lz4V.Model.FrameR Lz4V.Model.FrameW

theorem readLoop_zero (r : R) (want : Nat) (out : Array UInt8) : readLoop r want out 0 = (r, out, none) := rfl

theorem readLoop_succ (r : R) (want : Nat) (out : Array UInt8) (fuel : Nat) : readLoop r want out (fuel + 1) =
    (if out.size ≥ want then (r, out, none) else
    let rem := want - out.size
    let step : R × Array UInt8 × Option Err × Bool :=
      if r.idx = 0 then
        let (r, got, e) := readBlock r rem
        match e with
        | none => (r, got, none, false)
        | some .eof =>
          let (r, ce) := closeR r
          match ce with
          | some ce => ({ r with data := #[] }, #[], some ce, true)
          | none => ({ (FrameR.next r none).1 with data := #[] }, #[], some .eof, true)
        | some e => (r, #[], some e, true)
      else (r, #[], none, false)
    let (r, got, e, stop) := step
    if stop then (r, out, e) else
    if got.size > 0 then readLoop r want (out ++ got) fuel else
    let bn := min rem (r.data.size - r.idx)
    let out := out ++ r.data.extract r.idx (r.idx + bn)
    let idx := r.idx + bn
    let r := { r with idx := if idx = r.data.size then 0 else idx }
    readLoop r want out fuel) := rfl

/-- decoded but not yet delivered -/
def pending (r : R) : Array UInt8 := if r.idx = 0 then #[] else r.data.extract r.idx r.data.size

/-- the buffer-fill step of `readLoop` keeps `out ++ pending` -/
theorem fill_pending (r : R) (rem : Nat) (hrem : 0 < rem) (hidx : r.idx < r.data.size ∨ (r.idx = 0 ∧ r.data.size = 0)) :
    let bn := min rem (r.data.size - r.idx)
    let r' : R := { r with idx := if r.idx + bn = r.data.size then 0 else r.idx + bn }
    r.data.extract r.idx r.data.size = r.data.extract r.idx (r.idx + bn) ++ pending r' ∧
    (r'.idx = 0 ∨ r'.idx < r'.data.size) := by
  simp only []
  by_cases hfull : r.idx + min rem (r.data.size - r.idx) = r.data.size
  · simp only [hfull, if_true, pending, Array.append_empty, true_or, and_self]
  · simp only [hfull, if_false, pending]
    have hne : ¬ r.idx + min rem (r.data.size - r.idx) = 0 := by omega
    simp only [hne, if_false]
    refine ⟨extract_split _ _ _ _ (by omega) (by omega), Or.inr (by omega)⟩

theorem pending_zero (r : R) (h : r.idx = 0) : pending r = #[] := by simp [pending, h]
theorem pending_pos (r : R) (h : ¬ r.idx = 0) : pending r = r.data.extract r.idx r.data.size := by
  simp [pending, h]

theorem next_none_src (r : R) : (FrameR.next r none).1.src = r.src := rfl

theorem readLoop_spec (D : Array UInt8) (info : Spec.Frame.Info) (h0 want : Nat) (pre : Array UInt8) (fuel : Nat) :
    ∀ (r : R) (out content : Array UInt8), Inv D info r content → Reach D info h0 r.src.pos content →
      content = pre ++ out ++ pending r → (r.idx = 0 ∨ r.idx < r.data.size) →
      ∀ r' out' e, readLoop r want out fuel = (r', out', e) →
        (e = none → ∃ content', Inv D info r' content' ∧ Reach D info h0 r'.src.pos content' ∧
          content' = pre ++ out' ++ pending r' ∧ (r'.idx = 0 ∨ r'.idx < r'.data.size) ∧ r'.st = r.st) ∧
        (e = some .eof → ∃ content' pe, Reach D info h0 pe content' ∧ content' = pre ++ out' ∧
          EndOk D info pe r'.src.pos content') := by
  induction fuel with
  | zero =>
    intro r out content hinv hreach hc hidx r' out' e h
    rw [readLoop_zero] at h
    simp only [Prod.mk.injEq] at h
    obtain ⟨rfl, rfl, rfl⟩ := h
    exact ⟨fun _ => ⟨content, hinv, hreach, hc, hidx, rfl⟩, by simp⟩
  | succ fuel ih =>
    intro r out content hinv hreach hc hidx r' out' e h
    rw [readLoop_succ] at h
    by_cases hsz : out.size ≥ want
    · simp only [hsz, if_true, Prod.mk.injEq] at h
      obtain ⟨rfl, rfl, rfl⟩ := h
      exact ⟨fun _ => ⟨content, hinv, hreach, hc, hidx, rfl⟩, by simp⟩
    simp only [hsz, if_false] at h
    have hrem : 0 < want - out.size := by omega
    by_cases hi0 : r.idx = 0
    · rw [if_pos hi0] at h
      have hc0 : content = pre ++ out := by rw [hc, pending_zero r hi0, Array.append_empty]
      rcases readBlock_spec D info r content (want - out.size) hinv with
        ⟨r1, e1, h1, hne⟩ | ⟨s1, g1, d1, h4, hz, p1, h1⟩ | ⟨r1, dst, hinv1, hp, hple, hstep, hidx1, hst1, -, -, hdel⟩
      · -- error
        rw [h1] at h
        have : e = some e1 := by
          cases e1 <;> first | exact absurd rfl hne | (simp only [] at h; simp only [Bool.true_eq_false, if_true, if_false, Prod.mk.injEq] at h; exact h.2.2.symm)
        subst this
        exact ⟨by simp, by intro he; simp at he; exact absurd he hne⟩
      · -- end mark
        rw [h1] at h
        simp only [] at h
        have hinv2 : Inv D info { r with src := s1 } content := hinv.with_src s1 g1 d1
        rcases closeR_spec D info _ content hinv2 with ⟨r2, e2, h2, hne2⟩ | ⟨hcc, h2⟩ | ⟨s2, hcc, g2, d2, p2, h8, hck, h2⟩
        · rw [h2] at h
          simp only [if_true, Prod.mk.injEq] at h
          obtain ⟨-, -, rfl⟩ := h
          exact ⟨by simp, by intro he; simp at he; exact absurd he hne2⟩
        · rw [h2] at h
          simp only [if_true, Prod.mk.injEq] at h
          obtain ⟨rfl, rfl, rfl⟩ := h
          refine ⟨by simp, fun _ => ⟨content, r.src.pos, hreach, hc0, h4, hz, Or.inl ⟨hcc, p1⟩⟩⟩
        · rw [h2] at h
          simp only [if_true, Prod.mk.injEq] at h
          obtain ⟨rfl, rfl, rfl⟩ := h
          simp only [] at p2 h8 hck
          refine ⟨by simp, fun _ => ⟨content, r.src.pos, hreach, hc0, h4, hz,
            Or.inr ⟨hcc, by show s2.pos = _; omega, by omega, ?_⟩⟩⟩
          intro hsz'
          have := hck hsz'
          rw [p1] at this
          exact this
      · -- a block
        have hreach1 : Reach D info h0 r1.src.pos (content ++ dst) := hreach.step hp hstep
        have hi1 : r1.idx = 0 := by rw [hidx1]; exact hi0
        rcases hdel with ⟨-, h1, hdata⟩ | ⟨-, h1, hdata⟩
        · -- decoded directly into the caller's buffer
          rw [h1] at h
          simp only [Bool.false_eq_true, if_false] at h
          by_cases hd : dst.size > 0
          · simp only [hd, if_true] at h
            refine (fun x => ⟨fun he => ?_, x.2⟩) (ih r1 (out ++ dst) (content ++ dst) hinv1 hreach1
              (by rw [pending_zero r1 hi1, hc0]; simp) (Or.inl hi1) r' out' e h)
            obtain ⟨c', a1, a2, a3, a4, a5⟩ := (ih r1 (out ++ dst) (content ++ dst) hinv1 hreach1
              (by rw [pending_zero r1 hi1, hc0]; simp) (Or.inl hi1) r' out' e h).1 he
            exact ⟨c', a1, a2, a3, a4, by rw [a5, hst1]⟩
          · simp only [hd, if_false] at h
            have hd0 : dst.size = 0 := by omega
            have hdst : dst = #[] := Array.eq_empty_of_size_eq_zero hd0
            simp only [hd0, if_true] at hdata
            have hinv2 : Inv D info { r1 with idx := if r1.idx + min (want - out.size) (r1.data.size - r1.idx) = r1.data.size then 0 else r1.idx + min (want - out.size) (r1.data.size - r1.idx) } (content ++ dst) :=
              hinv1.of_fields rfl rfl rfl rfl rfl
            have hres := ih _ _ (content ++ dst) hinv2 hreach1
              (by rw [hi1, hdata, hdst, hc0]; simp [pending]) (by rw [hi1, hdata]; simp) r' out' e h
            refine ⟨fun he => ?_, hres.2⟩
            obtain ⟨c', a1, a2, a3, a4, a5⟩ := hres.1 he
            exact ⟨c', a1, a2, a3, a4, by rw [a5]; exact hst1⟩
        · -- buffered in `r.data`
          rw [h1] at h
          have hsz0 : ¬ (#[] : Array UInt8).size > 0 := by simp
          simp only [Bool.false_eq_true, if_false, hsz0] at h
          have hfp := fill_pending r1 (want - out.size) hrem
            (by rw [hi1, hdata]; by_cases hz : dst.size = 0
                · exact Or.inr ⟨rfl, hz⟩
                · exact Or.inl (by omega))
          simp only [] at hfp
          have hinv2 : Inv D info { r1 with idx := if r1.idx + min (want - out.size) (r1.data.size - r1.idx) = r1.data.size then 0 else r1.idx + min (want - out.size) (r1.data.size - r1.idx) } (content ++ dst) :=
            hinv1.of_fields rfl rfl rfl rfl rfl
          have hres := ih _ _ (content ++ dst) hinv2 hreach1
            (by
              have h1' := hfp.1
              rw [hi1, hdata] at h1'
              have : dst.extract 0 dst.size = dst := by simp
              rw [this] at h1'
              rw [hc0]
              conv => lhs; rw [h1']
              simp only [hi1, hdata, Array.append_assoc])
            hfp.2 r' out' e h
          refine ⟨fun he => ?_, hres.2⟩
          obtain ⟨c', a1, a2, a3, a4, a5⟩ := hres.1 he
          exact ⟨c', a1, a2, a3, a4, by rw [a5]; exact hst1⟩
    · -- serve from the buffer
      rw [if_neg hi0] at h
      have hsz0 : ¬ (#[] : Array UInt8).size > 0 := by simp
      simp only [Bool.false_eq_true, if_false, hsz0] at h
      have hlt : r.idx < r.data.size := by
        rcases hidx with h | h
        · exact absurd h hi0
        · exact h
      have hfp := fill_pending r (want - out.size) hrem (Or.inl hlt)
      simp only [] at hfp
      have hinv2 : Inv D info { r with idx := if r.idx + min (want - out.size) (r.data.size - r.idx) = r.data.size then 0 else r.idx + min (want - out.size) (r.data.size - r.idx) } content :=
        hinv.of_fields rfl rfl rfl rfl rfl
      exact ih _ _ content hinv2 hreach
        (by rw [hc, pending_pos r hi0]
            conv => lhs; rw [hfp.1]
            simp only [Array.append_assoc])
        hfp.2 r' out' e h

/-! ## `Read` -/

theorem check_none (r : R) : FrameR.check r none = r := by unfold FrameR.check; split <;> rfl

theorem check_src (r : R) (e : Option Err) : (FrameR.check r e).src = r.src := by
  unfold FrameR.check
  split
  · rfl
  · split
    · rfl
    · split <;> rfl

theorem read_stRead (r : R) (want : Nat) (h : r.st = stRead) : FrameR.read r want =
    (FrameR.check (readLoop r want #[] (r.src.data.size + want + 4)).1
        (readLoop r want #[] (r.src.data.size + want + 4)).2.2,
      (readLoop r want #[] (r.src.data.size + want + 4)).2.1,
      (readLoop r want #[] (r.src.data.size + want + 4)).2.2) := by
  unfold FrameR.read
  simp only [h, if_true]

theorem read_stNew_err (r : R) (want : Nat) (h : r.st = stNew) (r1 : R) (e : Err) (hi : init r = (r1, some e)) :
    FrameR.read r want = ({ r1 with st := stError, err := some e }, #[], some e) := by
  unfold FrameR.read
  have h1 : ¬ stNew = stRead := by decide
  have h2 : ¬ stNew = stClosed := by decide
  have h3 : ¬ stNew = stError := by decide
  simp only [h, h1, h2, h3, if_false, if_true, hi, FrameR.next]

theorem read_stNew_ok (r : R) (want : Nat) (h : r.st = stNew) (r1 : R) (hi : init r = (r1, none))
    (hst : r1.st = stNew) :
    FrameR.read r want = FrameR.read { r1 with st := readerStates r1.st } want := by
  conv => lhs; unfold FrameR.read
  have h1 : ¬ stNew = stRead := by decide
  have h2 : ¬ stNew = stClosed := by decide
  have h3 : ¬ stNew = stError := by decide
  simp only [h, h1, h2, h3, if_false, if_true, hi, FrameR.next, Bool.false_eq_true]
  have h4 : readerStates r1.st = stRead := by rw [hst]; decide
  rw [read_stRead _ _ h4]

/-- the Reader between two `Read` calls, `del` = bytes delivered so far -/
def SInv (D : Array UInt8) (info : Spec.Frame.Info) (h0 : Nat) (r : R) (del : Array UInt8) : Prop :=
  ∃ content, Inv D info r content ∧ Reach D info h0 r.src.pos content ∧ content = del ++ pending r ∧
    (r.idx = 0 ∨ r.idx < r.data.size) ∧ r.st = stRead

theorem go_nil (r : R) (out : Array UInt8) : Run.readWith.go r out [] = (out, none, r.src.pos) := rfl
theorem go_cons (r : R) (out : Array UInt8) (n : Nat) (ns : List Nat) : Run.readWith.go r out (n :: ns) =
    (let (r, got, e) := FrameR.read r n
     match e with
     | some e => (out ++ got, some e, r.src.pos)
     | none => Run.readWith.go r (out ++ got) ns) := rfl

theorem go_spec (D : Array UInt8) (info : Spec.Frame.Info) (h0 : Nat) (sizes : List Nat) :
    ∀ (r : R) (del : Array UInt8), SInv D info h0 r del → ∀ out c,
      Run.readWith.go r del sizes = (out, some .eof, c) →
      ∃ pe, Reach D info h0 pe out ∧ EndOk D info pe c out := by
  induction sizes with
  | nil => intro r del _ out c h; rw [go_nil] at h; simp at h
  | cons n ns ih =>
    intro r del hs out c h
    obtain ⟨content, hinv, hreach, hc, hidx, hst⟩ := hs
    rw [go_cons, read_stRead r n hst] at h
    rcases hl : readLoop r n #[] (r.src.data.size + n + 4) with ⟨r', out', e⟩
    rw [hl] at h
    simp only [] at h
    have hspec := readLoop_spec D info h0 n del _ r #[] content hinv hreach (by rw [hc]; simp) hidx r' out' e hl
    cases e with
    | none =>
      simp only [check_none] at h
      obtain ⟨c', a1, a2, a3, a4, a5⟩ := hspec.1 rfl
      exact ih r' (del ++ out') ⟨c', a1, a2, a3, a4, by rw [a5, hst]⟩ out c h
    | some e =>
      simp only [Prod.mk.injEq, Option.some.injEq] at h
      obtain ⟨rfl, rfl, rfl⟩ := h
      obtain ⟨c', pe, b1, b2, b3⟩ := hspec.2 rfl
      rw [check_src]
      rw [← b2]
      exact ⟨pe, b1, b3⟩

theorem readWith_eq (bytes : Array UInt8) (sizes : List Nat) (num : Nat) :
    Run.readWith bytes sizes num = Run.readWith.go (r0 bytes num) #[] sizes := by
  unfold Run.readWith
  simp only [r0_eq]

/-- a `Read` session that ends with `io.EOF` -/
theorem readWith_eof (bytes : Array UInt8) (sizes : List Nat) (num : Nat) (out : Array UInt8) (c : Nat)
    (h : Run.readWith bytes sizes num = (out, some .eof, c)) :
    (∀ F, bytes.size < F → Spec.Frame.skipToFrame F bytes.toList = .error .truncated) ∨
    (∃ p, 4 ≤ p ∧ p ≤ bytes.size ∧ ∀ T F, p < F →
      Spec.Frame.skipToFrame F ((bytes.extract 0 p).toList ++ T) = .error .badMagic) ∨
    (∃ pm h0 info pe, 4 ≤ pm ∧ pm + 3 ≤ h0 ∧
      (∀ T F, pm < F → Spec.Frame.skipToFrame F ((bytes.extract 0 pm).toList ++ T) = .ok T) ∧
      (∀ T, Spec.Frame.header ((bytes.extract pm h0).toList ++ T) false = .ok (info, T)) ∧
      Reach bytes info h0 pe out ∧ EndOk bytes info pe c out) := by
  rw [readWith_eq] at h
  cases sizes with
  | nil => rw [go_nil] at h; simp at h
  | cons n ns =>
    have hg0 : Good (r0 bytes num).src := ⟨rfl, rfl, rfl, Nat.zero_le _⟩
    rcases hinit : init (r0 bytes num) with ⟨r2, e2⟩
    have hspec := init_spec bytes (r0 bytes num) hg0 rfl rfl r2 e2 hinit
    cases e2 with
    | some e =>
      rw [go_cons, read_stNew_err _ _ rfl r2 e hinit] at h
      simp only [Prod.mk.injEq, Option.some.injEq] at h
      obtain ⟨-, rfl, -⟩ := h
      left
      intro F hF
      have := hspec.2 rfl F (by simp only [r0]; omega)
      simp only [r0] at this
      have h2 : bytes.extract 0 bytes.size = bytes := by simp
      rw [h2] at this
      exact this
    | none =>
      obtain ⟨r1, ⟨s', fl, csz, m, g', d', hr1, hcase⟩, f1, f2, f3, f4, f5, f6, f7, f8⟩ := hspec.1 rfl
      simp only [r0] at hr1 hcase
      rcases hcase with ⟨hm, pm, info, hpm1, hpm2, hfm, hskip, hhdr⟩ | ⟨hm, hfl, hq1, hq2, hq3, hskip⟩
      · right; right
        have hst2 : r2.st = stNew := by rw [f6, hr1]
        have hgo : Run.readWith.go (r0 bytes num) #[] (n :: ns) =
            Run.readWith.go { r2 with st := readerStates r2.st } #[] (n :: ns) := by
          rw [go_cons, go_cons, read_stNew_ok _ _ rfl r2 hinit hst2]
        rw [hgo] at h
        have hinv : Inv bytes info { r2 with st := readerStates r2.st } #[] := by
          refine ⟨?_, ?_, ?_, ?_, ?_, ?_, ?_⟩
          · show Good r2.src
            rw [f1, hr1]; exact g'
          · show r2.src.data = bytes
            rw [f1, hr1]; exact d'
          · show r2.magic = frameMagic
            rw [f2, hr1]; exact hm
          · show FlagsMatch r2.flags info
            rw [f3, hr1]; exact hfm
          · intro _ _
            show Proofs.XXH.Inv r2.cks _
            rw [f4, hr1]
            exact Proofs.XXH.inv_reset XXH.zero
          · intro _
            show r2.dict = #[]
            rw [f5, hr1]
          · intro _
            refine ⟨#[], ?_, Or.inl rfl⟩
            show #[] = #[] ++ r2.dict
            rw [f5, hr1]; rfl
        have hpos : r2.src.pos = s'.pos := by rw [f1, hr1]
        have hs : SInv bytes info s'.pos { r2 with st := readerStates r2.st } #[] := by
          refine ⟨#[], hinv, by simp only []; rw [hpos]; exact Reach.start _ _ _, ?_, Or.inl f7, ?_⟩
          · rw [pending_zero { r2 with st := readerStates r2.st } f7]; rfl
          · show readerStates r2.st = stRead
            rw [hst2]; decide
        obtain ⟨pe, hreach, hend⟩ := go_spec bytes info s'.pos (n :: ns) _ #[] hs out c h
        exact ⟨pm, s'.pos, info, pe, hpm1, hpm2, fun T F hF => hskip T F (by omega), hhdr, hreach, hend⟩
      · right; left
        exact ⟨s'.pos, by omega, hq2, fun T F hF => hskip T F (by omega)⟩

end Lz4V.Proofs.FrameR
