import Lz4V.Proofs.FrameR
import Lz4V.Proofs.FrameRLegacy
/-!
# Proofs.FrameR2 — truncated frames (C06)

No converse simulation is needed: the forward simulation (`readAll_cases`: `Reach` holds after every
successfully read block, whatever happens afterwards, and every segment lemma is stated for an
arbitrary continuation `T`) is instantiated with the rest of the *full* frame as continuation.  The
specification then reads the same blocks from the full frame, so (a) what was delivered is a prefix of
the content, and (b) a clean end inside the prefix would make the specification stop there too,
contradicting `consumed = F.size`.  `io.EOF` is excluded because the only unmapped source EOF is the
one at a frame boundary in `parseHeaders`.
-/
set_option linter.unusedSimpArgs false
namespace Lz4V.Proofs.FrameR
open Lz4V Lz4V.Go Lz4V.Gen Lz4V.Model Lz4V.Model.FrameR Lz4V.Model.FrameW

theorem extract_prefix (F : Array UInt8) (k i j : Nat) (hj : j ≤ k) :
    (F.extract 0 k).extract i j = F.extract i j := by
  rw [Array.extract_extract]
  congr 1 <;> omega

theorem toList_split' (bytes : Array UInt8) (p : Nat) (hp : p ≤ bytes.size) :
    bytes.toList = (bytes.extract 0 p).toList ++ (bytes.extract p bytes.size).toList := by
  rw [← Array.toList_append, ← extract_split bytes 0 p bytes.size (by omega) hp]
  simp

theorem u32_length (l : List UInt8) (c : Nat) (r : List UInt8) (h : Spec.Frame.u32 l = some (c, r)) :
    l.length = r.length + 4 := by
  match l, h with
  | a :: b :: c' :: d :: r', h =>
    simp only [Spec.Frame.u32, Option.some.injEq, Prod.mk.injEq] at h
    rw [← h.2]; simp

theorem decode_inv (L : List UInt8) (info : Spec.Frame.Info) (content : Array UInt8) (n : Nat)
    (h : Spec.Frame.decode L false = .ok ⟨info, content, n⟩) :
    ∃ T1 T2 rest, Spec.Frame.skipToFrame (L.length + 1) L = .ok T1 ∧
      Spec.Frame.header T1 false = .ok (info, T2) ∧
      Spec.Frame.blocks info (T2.length + 1) T2 #[] = .ok (content, rest) ∧
      ((info.contentChecksum = false ∧ n = L.length - rest.length) ∨
       (info.contentChecksum = true ∧ ∃ c r', Spec.Frame.u32 rest = some (c, r') ∧ n = L.length - r'.length)) := by
  unfold Spec.Frame.decode at h
  split at h
  · simp at h
  · rename_i T1 h1
    split at h
    · simp at h
    · rename_i info' T2 h2
      split at h
      · simp at h
      · rename_i content' rest h3
        by_cases hcc : info'.contentChecksum = true
        · simp only [hcc, if_true] at h
          split at h
          · simp at h
          · rename_i c r' h4
            split at h
            · simp only [Except.ok.injEq, Spec.Frame.Result.mk.injEq] at h
              obtain ⟨rfl, rfl, rfl⟩ := h
              exact ⟨T1, T2, rest, h1, h2, h3, Or.inr ⟨hcc, c, r', h4, rfl⟩⟩
            · simp at h
        · simp only [hcc, if_false, Bool.false_eq_true, Except.ok.injEq, Spec.Frame.Result.mk.injEq] at h
          obtain ⟨rfl, rfl, rfl⟩ := h
          exact ⟨T1, T2, rest, h1, h2, h3, Or.inl ⟨by simpa using hcc, rfl⟩⟩

theorem truncated_core (F : Array UInt8) (info : Spec.Frame.Info) (content : Array UInt8)
    (hF : Spec.Frame.decode F.toList false = .ok ⟨info, content, F.size⟩)
    (hmagic : u32 F = frameMagic)
    (k : Nat) (hk0 : 0 < k) (hk : k < F.size) (num : Nat) :
    (Run.readAll (F.extract 0 k) num).2.1 ≠ none ∧ (Run.readAll (F.extract 0 k) num).2.1 ≠ some .eof ∧
      (Run.readAll (F.extract 0 k) num).1 = content.extract 0 (Run.readAll (F.extract 0 k) num).1.size := by
  have hPsz : (F.extract 0 k).size = k := by simp only [Array.size_extract]; omega
  obtain ⟨T1, T2, rest, hd1, hd2, hd3, hd4⟩ := decode_inv F.toList info content F.size hF
  rw [Array.length_toList] at hd1 hd4
  rcases readAll_cases (F.extract 0 k) num with ⟨e, h1, h2, -, h4⟩ | ⟨p, hp4, hp, hbad⟩ |
    ⟨pm, h0, info', content', pe, hpm, hh0, hskip, hhdr, hreach, hpele, hout, hne, hend⟩
  · -- the descriptor was not read
    rw [h1, h2]
    refine ⟨by simp, ?_, by simp⟩
    intro he
    simp only [Option.some.injEq] at he
    rcases h4 he with h | ⟨h4k, hlo, -⟩
    · omega
    · rw [hPsz] at h4k
      rw [extract_prefix F k 0 4 h4k, u32_extract0 F (by omega), hmagic] at hlo
      exact absurd hlo (by decide)
  · -- a legacy magic: impossible, the specification found a frame
    exfalso
    rw [hPsz] at hp
    have := hbad (F.extract p F.size).toList (F.size + 1) (by omega)
    rw [extract_prefix F k 0 p hp, ← toList_split' F p (by omega), hd1] at this
    simp at this
  · -- the descriptor was read; `pe` = end of the last block the Reader decoded
    rw [hPsz] at hpele
    obtain ⟨hh0pe, j, hj, hblocks⟩ := hreach
    -- the specification on the full frame takes the same steps
    have e1 := hskip (F.extract pm F.size).toList (F.size + 1) (by omega)
    rw [extract_prefix F k 0 pm (by omega), ← toList_split' F pm (by omega), hd1] at e1
    have hT1 : T1 = (F.extract pm F.size).toList := by simpa using e1
    have e2 := hhdr (F.extract h0 F.size).toList
    rw [extract_prefix F k pm h0 (by omega), ← Array.toList_append,
      ← extract_split F pm h0 F.size (by omega) (by omega), ← hT1, hd2] at e2
    simp only [Except.ok.injEq, Prod.mk.injEq] at e2
    obtain ⟨hinfo, hT2⟩ := e2
    subst hinfo
    have hT2len : T2.length = F.size - h0 := by
      rw [hT2, toList_extract_length _ _ _ (Nat.le_refl _)]
    have e3 := hblocks (F.extract pe F.size).toList (F.size - h0 + 1 - j)
    rw [extract_prefix F k h0 pe hpele, ← Array.toList_append,
      ← extract_split F h0 pe F.size hh0pe (by omega), ← hT2] at e3
    have hfu : F.size - h0 + 1 - j + j = T2.length + 1 := by omega
    rw [hfu, hd3] at e3
    refine ⟨?_, hne, ?_⟩
    · -- a clean end inside the prefix would end the full frame there too
      intro hnone
      obtain ⟨he4, hez, hcase⟩ := hend hnone
      rw [hPsz] at he4
      have hF0 : F.size - h0 + 1 - j = (F.size - h0 - j) + 1 := by omega
      have hsp : (F.extract pe F.size).toList = ((F.extract 0 k).extract pe (pe + 4)).toList ++
          (F.extract (pe + 4) F.size).toList := by
        rw [extract_prefix F k pe (pe + 4) he4, ← Array.toList_append,
          ← extract_split F pe (pe + 4) F.size (by omega) (by omega)]
      rw [hF0, hsp, blocks_end info _ _ _ content'
        (by rw [extract_prefix F k pe (pe + 4) he4]; exact size_extract_of_le F pe 4 (by omega)) hez] at e3
      simp only [Except.ok.injEq, Prod.mk.injEq] at e3
      obtain ⟨-, hrest⟩ := e3
      have hrl : rest.length = F.size - (pe + 4) := by
        rw [hrest, toList_extract_length _ _ _ (Nat.le_refl _)]
      rcases hcase with ⟨hcc, -⟩ | ⟨hcc, -, h8, -⟩
      · rcases hd4 with ⟨-, hn⟩ | ⟨hcc', -⟩
        · omega
        · rw [hcc] at hcc'; simp at hcc'
      · rw [hPsz] at h8
        rcases hd4 with ⟨hcc', -⟩ | ⟨-, c, r', hu, hn⟩
        · rw [hcc] at hcc'; simp at hcc'
        · have := u32_length rest c r' hu
          omega
    · -- what was delivered is the content of the blocks decoded so far
      rw [hout]
      exact blocks_prefix info _ _ content' content rest e3.symm

end Lz4V.Proofs.FrameR
