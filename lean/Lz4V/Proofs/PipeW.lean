import Lz4V.Model.PipeW
/-!
# Proofs.PipeW — inductive invariant of the write pipeline LTS
-/
namespace Lz4V.Proofs.PipeW
open Lz4V.Model Lz4V.Model.PipeW

/-- 1 once the sentinel has been queued -/
def pExtra : PPc → Nat
  | .submit _ | .sentEnq => 0
  | _ => 1

/-- 1 while the orderer holds a received block (or the sentinel after `nil` was received) -/
def oExtra : OPc → Nat
  | .write _ | .closing _ => 1
  | _ => 0

/-- number of items ever queued on `Blocks` (`wl` workers spawned) -/
def tot (wl : Nat) (p : PPc) : Nat := wl + pExtra p
/-- number of per-block channels on which the orderer has completed the receive (`c` channels closed) -/
def rcv (c : Nat) (o : OPc) : Nat := c + oExtra o
/-- number of blocks that went through the write stage -/
def wr (c n : Nat) : OPc → Nat
  | .closing _ => min (c + 1) n
  | _ => min c n

def sinkLen : Option Nat → Nat → Nat
  | none, w => w
  | some f, w => min w f

def failedSpec : Option Nat → Nat → Bool
  | none, _ => false
  | some f, w => decide (f < w)

/-- per-worker invariant: position relative to the orderer and buffer ownership -/
def wOk (c r : Nat) (dO bO : List Owner) (k : Nat) : WPc → Prop
  | .compress => r ≤ k ∧ dO[k]? = some (.worker k) ∧ bO[k]? = some (.worker k)
  | .sending => r ≤ k ∧ dO[k]? = some (.worker k) ∧ bO[k]? = some (.worker k)
  | .waitClose => k < r ∧ dO[k]? = some (.worker k) ∧ bO[k]? = some (if k < c then .worker k else .orderer)
  | .release => k < c ∧ dO[k]? = some (.worker k) ∧ bO[k]? = some (.worker k)
  | .done => k < c ∧ dO[k]? = some .pool ∧ bO[k]? = some .pool

/-- producer invariant (`wl` workers spawned, `c` channels closed, orderer at `o`) -/
def pOk (wl n c : Nat) (o : OPc) : PPc → Prop
  | .submit k => wl = k ∧ k < n
  | .sentEnq => wl = n
  | .sentSend => wl = n ∧ c ≤ n ∧ o ≠ .closing n
  | .sentWait => wl = n ∧ (o = .closing n ∨ o = .exited)
  | .returned => wl = n ∧ o = .exited

/-- orderer invariant (`c` channels closed, `t` items ever queued) -/
def oOk (c t n : Nat) (q : List Nat) : OPc → Prop
  | .idle => c ≤ t ∧ q = List.range' c (t - c)
  | .recv i => i = c ∧ i < t ∧ q = List.range' (i + 1) (t - (i + 1))
  | .write i => i = c ∧ i < t ∧ i < n ∧ q = List.range' (i + 1) (t - (i + 1))
  | .closing i => i = c ∧ i < t ∧ q = List.range' (i + 1) (t - (i + 1))
  | .exited => c = n + 1 ∧ q = [] ∧ t = n + 1

structure Inv (num n : Nat) (failAt : Option Nat) (s : State) : Prop where
  hnum : s.num = num
  hn : s.n = n
  hf : s.failAt = failAt
  lenD : s.dataOwner.length = s.w.length
  lenB : s.blkOwner.length = s.w.length
  closedMem : ∀ k, k ∈ s.closed ↔ k < s.closed.length
  pinv : pOk s.w.length s.n s.closed.length s.o s.p
  oinv : oOk s.closed.length (tot s.w.length s.p) s.n s.queue s.o
  winv : ∀ k x, s.w[k]? = some x → wOk s.closed.length (rcv s.closed.length s.o) s.dataOwner s.blkOwner k x
  sinkEq : s.sink = List.range (sinkLen s.failAt (wr s.closed.length s.n s.o))
  failedEq : s.failed = failedSpec s.failAt (wr s.closed.length s.n s.o)

theorem inv_init (num n : Nat) (f : Option Nat) : Inv num n f (init num n f) := by
  unfold init
  constructor <;> try (simp; done)
  · by_cases h : n = 0 <;> simp [h, pOk]; omega
  · by_cases h : n = 0 <;> simp [h, oOk, tot, pExtra]
  · cases f <;> simp [sinkLen, wr]
  · cases f <;> simp [failedSpec, wr]

theorem q_push {q : List Nat} {a t : Nat} (h : q = List.range' a (t - a)) (hle : a ≤ t) :
    q ++ [t] = List.range' a (t + 1 - a) := by
  subst h
  have e : t + 1 - a = (t - a) + 1 := by omega
  rw [e, List.range'_concat]
  simp; omega

theorem q_pop {i : Nat} {rest : List Nat} {a t : Nat} (h : i :: rest = List.range' a (t - a)) :
    i = a ∧ a < t ∧ rest = List.range' (a + 1) (t - (a + 1)) := by
  have hlt : a < t := by
    apply Nat.lt_of_not_le; intro hle
    have : t - a = 0 := by omega
    rw [this] at h; simp at h
  have e : t - a = (t - (a + 1)) + 1 := by omega
  rw [e, List.range'_succ] at h
  injection h with h1 h2
  exact ⟨h1, hlt, h2⟩

theorem oOk_push {c t n : Nat} {q : List Nat} {o : OPc} (h : oOk c t n q o) (ht : t ≤ n) :
    oOk c (t + 1) n (q ++ [t]) o := by
  cases o <;> simp only [oOk] at h ⊢
  · exact ⟨by omega, q_push h.2 h.1⟩
  · obtain ⟨h1, h2, h3⟩ := h
    refine ⟨h1, by omega, ?_⟩
    have := q_push (a := _) (t := t) h3 (by omega); simpa using this
  · obtain ⟨h1, h2, h2', h3⟩ := h
    refine ⟨h1, by omega, h2', ?_⟩
    have := q_push (a := _) (t := t) h3 (by omega); simpa using this
  · obtain ⟨h1, h2, h3⟩ := h
    refine ⟨h1, by omega, ?_⟩
    have := q_push (a := _) (t := t) h3 (by omega); simpa using this
  · omega

theorem tot_le {wl n c o p} (h : pOk wl n c o p) : tot wl p ≤ n + 1 := by
  cases p <;> simp only [pOk, tot, pExtra] at h ⊢ <;> omega

theorem rcv_le {c t n q o} (h : oOk c t n q o) : rcv c o ≤ t := by
  cases o <;> simp only [oOk, rcv, oExtra] at h ⊢ <;> omega

theorem inv_producer {num n f s s'} (h : Inv num n f s) (hs : step s .producer = some s') : Inv num n f s' := by
  obtain ⟨hnum, hn, hf, lenD, lenB, closedMem, pinv, oinv, winv, sinkEq, failedEq⟩ := h
  simp only [step] at hs
  split at hs
  · -- submit
    rename_i k hp
    split at hs
    · injection hs with hs; subst hs
      rw [hp] at pinv oinv
      simp only [pOk] at pinv
      constructor <;> dsimp only
      all_goals (try assumption)
      · simp [lenD]
      · simp [lenB]
      · by_cases hk : k + 1 < s.n <;> simp only [hk, if_true, if_false, pOk] <;> grind
      · have e : tot (s.w ++ [WPc.compress]).length (if k + 1 < s.n then PPc.submit (k + 1) else PPc.sentEnq) = tot s.w.length (.submit k) + 1 := by
          split <;> simp [tot, pExtra]
        have e2 : tot s.w.length (.submit k) = k := by simp [tot, pExtra, pinv.1]
        rw [e]; rw [e2] at oinv ⊢
        exact oOk_push oinv (by omega)
      · intro k' x hx
        have hr := rcv_le oinv
        simp only [tot, pExtra] at hr
        by_cases hk' : k' < s.w.length
        · rw [List.getElem?_append_left hk'] at hx
          have := winv k' x hx
          cases x <;> simp only [wOk] at * <;> grind
        · have : k' = s.w.length := by
            have := (List.getElem?_eq_some_iff.1 hx).1; simp at this; omega
          subst this
          simp at hx; subst hx
          simp only [wOk]
          refine ⟨by omega, ?_, ?_⟩
          · rw [← lenD, pinv.1.symm]; simp [lenD]
          · rw [← lenB, pinv.1.symm]; simp [lenB]
    · simp at hs
  · -- sentEnq
    rename_i hp
    split at hs
    · injection hs with hs; subst hs
      rw [hp] at pinv oinv
      simp only [pOk] at pinv
      have e2 : tot s.w.length .sentEnq = s.n := by simp [tot, pExtra, pinv]
      rw [e2] at oinv
      constructor <;> dsimp only
      all_goals (try assumption)
      · simp only [pOk]
        cases ho : s.o <;> simp only [ho, oOk] at oinv <;> grind
      · have e : tot s.w.length .sentSend = s.n + 1 := by simp [tot, pExtra, pinv]
        rw [e]
        exact oOk_push oinv (by omega)
    · simp at hs
  · simp at hs
  · -- sentWait
    rename_i hp
    split at hs
    · injection hs with hs; subst hs
      rename_i hcl
      rw [hp] at pinv oinv
      simp only [pOk] at pinv
      rw [closedMem] at hcl
      constructor <;> dsimp only
      all_goals (try assumption)
      · simp only [pOk]
        rcases pinv with ⟨h1, h2 | h2⟩
        · rw [h2] at oinv; simp only [oOk] at oinv; omega
        · exact ⟨h1, h2⟩
    · simp at hs
  · simp at hs
theorem inv_worker {num n f s s'} (k : Nat) (h : Inv num n f s) (hs : step s (.worker k) = some s') : Inv num n f s' := by
  obtain ⟨hnum, hn, hf, lenD, lenB, closedMem, pinv, oinv, winv, sinkEq, failedEq⟩ := h
  simp only [step] at hs
  split at hs
  · -- compress
    rename_i hw
    injection hs with hs; subst hs
    have hk := winv k _ hw
    constructor <;> dsimp only [setAt]
    all_goals (try assumption)
    all_goals (try simp only [List.length_set])
    all_goals (try assumption)
    · intro k' x hx
      rw [List.getElem?_set] at hx
      have := winv k' x
      cases x <;> simp only [wOk] at * <;> grind
  · -- waitClose
    rename_i hw
    split at hs
    · rename_i hcl
      rw [closedMem] at hcl
      injection hs with hs; subst hs
      have hk := winv k _ hw
      constructor <;> dsimp only [setAt]
      all_goals (try assumption)
      all_goals (try simp only [List.length_set])
      all_goals (try assumption)
      · intro k' x hx
        rw [List.getElem?_set] at hx
        have := winv k' x
        cases x <;> simp only [wOk] at * <;> grind
    · simp at hs
  · -- release
    rename_i hw
    injection hs with hs; subst hs
    have hk := winv k _ hw
    constructor <;> dsimp only [setAt]
    all_goals (try assumption)
    all_goals (try simp only [List.length_set])
    all_goals (try assumption)
    · intro k' x hx
      rw [List.getElem?_set] at hx
      have := winv k' x
      cases x <;> simp only [wOk] at * <;> grind
  · simp at hs
theorem inv_orderer {num n f s s'} (h : Inv num n f s) (hs : step s .orderer = some s') : Inv num n f s' := by
  obtain ⟨hnum, hn, hf, lenD, lenB, closedMem, pinv, oinv, winv, sinkEq, failedEq⟩ := h
  simp only [step] at hs
  split at hs
  · -- idle
    rename_i ho
    rw [ho] at pinv oinv winv sinkEq failedEq
    split at hs
    · simp at hs
    · rename_i i rest hq
      injection hs with hs; subst hs
      simp only [oOk] at oinv
      rw [hq] at oinv
      obtain ⟨h1, h2, h3⟩ := q_pop oinv.2
      constructor <;> dsimp only
      all_goals (try assumption)
      · cases hp : s.p <;> simp only [hp, pOk] at pinv ⊢ <;> grind
      · simp only [oOk]; subst h1; exact ⟨rfl, h2, h3⟩
  · -- recv
    rename_i i ho
    rw [ho] at pinv oinv winv sinkEq failedEq
    simp only [oOk] at oinv
    obtain ⟨h1, h2, h3⟩ := oinv
    split at hs
    · rename_i hin
      split at hs
      · rename_i hw
        injection hs with hs; subst hs
        have hk := winv i _ hw
        constructor <;> dsimp only [setAt]
        all_goals (try assumption)
        all_goals (try simp only [List.length_set])
        all_goals (try assumption)
        · cases hp : s.p <;> simp only [hp, pOk] at pinv ⊢ <;> grind
        · simp only [oOk]; exact ⟨h1, h2, hin, h3⟩
        · intro k' x hx
          rw [List.getElem?_set] at hx
          have := winv k' x
          simp only [rcv, oExtra] at *
          cases x <;> simp only [wOk] at * <;> grind
      · simp at hs
    · rename_i hin
      split at hs
      · rename_i hp
        injection hs with hs; subst hs
        rw [hp] at pinv h2 h3
        simp only [pOk] at pinv
        simp only [tot, pExtra] at h2 h3
        have hi : i = s.n := by omega
        constructor <;> dsimp only
        all_goals (try assumption)
        · simp only [pOk]; subst hi; exact ⟨pinv.1, Or.inl rfl⟩
        · simp only [oOk, tot, pExtra]; exact ⟨h1, h2, h3⟩
        · intro k' x hx
          have := winv k' x hx
          have hlt := (List.getElem?_eq_some_iff.1 hx).1
          simp only [rcv, oExtra] at *
          cases x <;> simp only [wOk] at * <;> grind
        · simp only [wr] at sinkEq ⊢
          have : min (s.closed.length + 1) s.n = min s.closed.length s.n := by omega
          rw [this]; exact sinkEq
        · simp only [wr] at failedEq ⊢
          have : min (s.closed.length + 1) s.n = min s.closed.length s.n := by omega
          rw [this]; exact failedEq
      · simp at hs
  · -- write
    rename_i i ho
    rw [ho] at pinv oinv winv sinkEq failedEq
    simp only [oOk] at oinv
    obtain ⟨h1, h2, hin, h3⟩ := oinv
    simp only [wr] at sinkEq failedEq
    have hmin : min s.closed.length s.n = s.closed.length := by omega
    have hmin' : min (s.closed.length + 1) s.n = s.closed.length + 1 := by omega
    rw [hmin] at sinkEq failedEq
    have hpin : pOk s.w.length s.n s.closed.length (OPc.closing i) s.p := by
      cases hp : s.p <;> simp only [hp, pOk] at pinv ⊢ <;> grind
    have hoin : oOk s.closed.length (tot s.w.length s.p) s.n s.queue (OPc.closing i) := by
      simp only [oOk]; exact ⟨h1, h2, h3⟩
    split at hs
    · rename_i hfl
      injection hs with hs; subst hs
      constructor <;> dsimp only
      all_goals (try assumption)
      · simp only [wr, hmin']
        rw [sinkEq]; rw [hfl] at failedEq
        cases hfa : s.failAt <;> simp only [hfa, sinkLen, failedSpec] at failedEq ⊢
        · simp at failedEq
        · have := of_decide_eq_true failedEq.symm
          congr 1; omega
      · simp only [wr, hmin']
        rw [hfl] at failedEq ⊢
        cases hfa : s.failAt <;> simp only [hfa, failedSpec] at failedEq ⊢
        · simp at failedEq
        · have := of_decide_eq_true failedEq.symm
          simp; omega
    · rename_i hfl
      split at hs
      · rename_i hfa
        injection hs with hs; subst hs
        constructor <;> dsimp only
        all_goals (try assumption)
        · simp only [wr, hmin']
          rw [sinkEq]
          simp only [hfa, sinkLen]
          congr 1; omega
        · simp only [wr, hmin']
          simp only [hfa, failedSpec]
          simp; omega
      · rename_i hfa
        injection hs with hs; subst hs
        constructor <;> dsimp only
        all_goals (try assumption)
        · simp only [wr, hmin']
          rw [sinkEq]
          cases hfa' : s.failAt <;> simp only [hfa', sinkLen, failedSpec] at failedEq hfa ⊢
          · rw [List.range_succ, h1]
          · rename_i f'
            have hfl' : ¬ f' < s.closed.length := by
              intro hc; apply hfl; rw [failedEq]; exact decide_eq_true hc
            have hne : f' ≠ i := fun hc => hfa (by rw [hc])
            have e1 : min s.closed.length f' = s.closed.length := by omega
            have e2 : min (s.closed.length + 1) f' = s.closed.length + 1 := by omega
            rw [e1, e2, List.range_succ, h1]
        · simp only [wr, hmin']
          cases hfa' : s.failAt <;> simp only [hfa', failedSpec] at failedEq hfa ⊢
          · exact failedEq
          · rename_i f'
            have hfl' : ¬ f' < s.closed.length := by
              intro hc; apply hfl; rw [failedEq]; exact decide_eq_true hc
            have hne : f' ≠ i := fun hc => hfa (by rw [hc])
            rw [failedEq]
            simp; omega
  · -- closing
    rename_i i ho
    rw [ho] at pinv oinv winv sinkEq failedEq
    simp only [oOk] at oinv
    obtain ⟨h1, h2, h3⟩ := oinv
    have htot := tot_le pinv
    injection hs with hs; subst hs
    constructor <;> dsimp only [setAt]
    all_goals (try assumption)
    · split <;> simp [lenB]
    · intro k; simp only [List.mem_cons, closedMem, List.length_cons]; omega
    · simp only [List.length_cons]
      cases hp : s.p <;> simp only [hp, pOk, tot, pExtra] at pinv h2 ⊢ <;> grind
    · simp only [List.length_cons]
      by_cases hi : i = s.n
      · simp only [hi, if_true, oOk]
        refine ⟨by omega, ?_, by omega⟩
        rw [h3]; have : tot s.w.length s.p - (i + 1) = 0 := by omega
        rw [this]; rfl
      · simp only [hi, if_false, oOk]
        subst h1
        exact ⟨by omega, h3⟩
    · intro k' x hx
      have := winv k' x hx
      have hlt := (List.getElem?_eq_some_iff.1 hx).1
      have hwl : s.w.length ≤ s.n := by
        cases hp : s.p <;> simp only [hp, pOk] at pinv <;> omega
      have hr : rcv (i :: s.closed).length (if i = s.n then OPc.exited else OPc.idle) = s.closed.length + 1 := by
        split <;> simp [rcv, oExtra]
      rw [hr]
      simp only [rcv, oExtra, List.length_cons] at *
      cases x <;> simp only [wOk] at * <;> grind
    · simp only [List.length_cons]
      have : wr (s.closed.length + 1) s.n (if i = s.n then OPc.exited else OPc.idle) = wr s.closed.length s.n (.closing i) := by
        split <;> simp [wr]
      rw [this]; exact sinkEq
    · simp only [List.length_cons]
      have : wr (s.closed.length + 1) s.n (if i = s.n then OPc.exited else OPc.idle) = wr s.closed.length s.n (.closing i) := by
        split <;> simp [wr]
      rw [this]; exact failedEq
  · simp at hs

theorem inv_step {num n f s s'} (a : Actor) (h : Inv num n f s) (hs : step s a = some s') : Inv num n f s' := by
  cases a
  · exact inv_producer h hs
  · exact inv_orderer h hs
  · exact inv_worker _ h hs

theorem inv_run {num n f} (sched : List Actor) : ∀ s, Inv num n f s → Inv num n f (run s sched) := by
  induction sched with
  | nil => intro s h; exact h
  | cons a as ih =>
    intro s h
    simp only [run]
    apply ih
    cases hs : step s a with
    | none => exact h
    | some s' => exact inv_step a h hs

theorem inv_reach {num n f s} (h : ∃ sched, s = run (init num n f) sched) : Inv num n f s := by
  obtain ⟨sched, rfl⟩ := h
  exact inv_run sched _ (inv_init num n f)

/-! ## consequences of the invariant -/

theorem inv_order {num n f s} (h : Inv num n f s) : s.sink = List.range s.sink.length := by
  have := h.sinkEq
  rw [this]; simp

theorem inv_returned {num n f s} (h : Inv num n f s) (hp : s.p = .returned) :
    s.o = .exited ∧ s.closed.length = s.n + 1 ∧ s.queue = [] ∧ s.w.length = s.n := by
  have hpi := h.pinv; have hoi := h.oinv
  rw [hp] at hpi; simp only [pOk] at hpi
  rw [hpi.2] at hoi; simp only [oOk] at hoi
  exact ⟨hpi.2, hoi.1, hoi.2.1, hpi.1⟩

theorem inv_order_final {num n s} (h : Inv num n none s) (hp : s.p = .returned) : s.sink = List.range n := by
  obtain ⟨ho, hc, _, _⟩ := inv_returned h hp
  have := h.sinkEq
  rw [h.hf, ho, hc, h.hn] at this
  simp only [sinkLen, wr] at this
  rw [this]; congr 1; omega

theorem inv_order_fail {num n i s} (h : Inv num n (some i) s) (hi : i < n) (hp : s.p = .returned) :
    s.sink = List.range i ∧ s.failed = true := by
  obtain ⟨ho, hc, _, _⟩ := inv_returned h hp
  have h1 := h.sinkEq
  have h2 := h.failedEq
  rw [h.hf, ho, hc, h.hn] at h1 h2
  simp only [sinkLen, failedSpec, wr] at h1 h2
  constructor
  · rw [h1]; congr 1; omega
  · rw [h2]; simp; omega

theorem inv_ownership {num n f s} (h : Inv num n f s) (a : Actor) (ha : (step s a).isSome) :
    ∀ p ∈ touches s a, p.1 = p.2 := by
  cases a with
  | producer => intro p hp; simp [touches] at hp
  | orderer =>
    intro p hp
    simp only [touches] at hp
    split at hp
    · rename_i i ho
      have hoi := h.oinv
      rw [ho] at hoi; simp only [oOk] at hoi
      obtain ⟨h1, h2, h3, _⟩ := hoi
      have hwl : i < s.w.length := by
        have hpi := h.pinv
        cases hp' : s.p <;> simp only [hp', pOk, tot, pExtra] at hpi h2 <;> omega
      have hw := h.winv i (s.w[i]) (by simp [hwl])
      rw [ho] at hw
      simp only [rcv, oExtra] at hw
      have hb : s.blkOwner[i]? = some .orderer := by
        cases hx : s.w[i] <;> simp only [hx, wOk] at hw
        · omega
        · omega
        · rw [hw.2.2]; simp; omega
        · omega
        · omega
      simp only [List.mem_singleton] at hp
      subst hp
      simp [List.getD_eq_getElem?_getD, hb]
    · simp at hp
  | worker k =>
    intro p hp
    simp only [touches] at hp
    split at hp
    · rename_i hw
      have := h.winv k _ hw
      simp only [wOk] at this
      simp only [List.getD_eq_getElem?_getD, this.2.1, this.2.2, Option.getD_some, List.mem_cons, List.not_mem_nil, or_false] at hp
      rcases hp with rfl | rfl <;> rfl
    · rename_i hw
      have := h.winv k _ hw
      simp only [wOk] at this
      simp only [List.getD_eq_getElem?_getD, this.2.1, this.2.2, Option.getD_some, List.mem_cons, List.not_mem_nil, or_false] at hp
      rcases hp with rfl | rfl <;> rfl
    · simp at hp

theorem inv_progress {num n f s} (hnum : 0 < num) (h : Inv num n f s) (hp : s.p ≠ .returned) :
    ∃ a, (step s a).isSome := by
  have hpi := h.pinv; have hoi := h.oinv
  have hnum' : 0 < s.num := by rw [h.hnum]; exact hnum
  cases ho : s.o with
  | idle =>
    rw [ho] at hpi hoi; simp only [oOk] at hoi
    cases hq : s.queue with
    | cons i rest => exact ⟨.orderer, by simp [step, ho, hq]⟩
    | nil =>
      rw [hq] at hoi
      have ht : tot s.w.length s.p - s.closed.length = 0 := by
        have := congrArg List.length hoi.2; simpa using this.symm
      refine ⟨.producer, ?_⟩
      cases hp' : s.p with
      | submit k => simp [step, hp', hq, hnum']
      | sentEnq => simp [step, hp', hq, hnum']
      | sentSend => rw [hp'] at hpi ht; simp only [pOk, tot, pExtra] at hpi ht; omega
      | sentWait => rw [hp'] at hpi; simp only [pOk] at hpi; simp at hpi
      | returned => exact absurd hp' hp
  | recv i =>
    rw [ho] at hpi hoi; simp only [oOk] at hoi
    obtain ⟨h1, h2, h3⟩ := hoi
    by_cases hin : i < s.n
    · have hwl : i < s.w.length := by
        cases hp' : s.p <;> simp only [hp', pOk, tot, pExtra] at hpi h2 <;> omega
      have hw := h.winv i (s.w[i]) (by simp [hwl])
      rw [ho] at hw
      simp only [rcv, oExtra] at hw
      have hget : s.w[i]? = some s.w[i] := by simp [hwl]
      cases hx : s.w[i] <;> rw [hx] at hw hget <;> simp only [wOk] at hw
      · exact ⟨.worker i, by simp [step, hget]⟩
      · exact ⟨.orderer, by simp [step, ho, hin, hget]⟩
      · omega
      · omega
      · omega
    · refine ⟨.orderer, ?_⟩
      have : s.p = .sentSend := by
        cases hp' : s.p with
        | submit k => rw [hp'] at hpi h2; simp only [pOk, tot, pExtra] at hpi h2; omega
        | sentEnq => rw [hp'] at hpi h2; simp only [pOk, tot, pExtra] at hpi h2; omega
        | sentSend => rfl
        | sentWait => rw [hp'] at hpi; simp only [pOk] at hpi; simp at hpi
        | returned => exact absurd hp' hp
      simp [step, ho, hin, this]
  | write i =>
    refine ⟨.orderer, ?_⟩
    simp only [step, ho]
    split
    · simp
    · split <;> simp
  | closing i => exact ⟨.orderer, by simp [step, ho]⟩
  | exited =>
    rw [ho] at hpi hoi; simp only [oOk] at hoi
    refine ⟨.producer, ?_⟩
    cases hp' : s.p with
    | submit k => rw [hp'] at hpi hoi; simp only [pOk, tot, pExtra] at hpi hoi; omega
    | sentEnq => rw [hp'] at hpi hoi; simp only [pOk, tot, pExtra] at hpi hoi; omega
    | sentSend => rw [hp'] at hpi hoi; simp only [pOk, tot, pExtra] at hpi hoi; omega
    | sentWait =>
      have : s.n ∈ s.closed := by rw [h.closedMem]; omega
      simp [step, hp', this]
    | returned => exact absurd hp' hp

/-! ## termination measure -/

def wW : WPc → Nat
  | .compress => 4 | .sending => 3 | .waitClose => 2 | .release => 1 | .done => 0
def oW : OPc → Nat
  | .idle => 0 | .recv _ => 3 | .write _ => 2 | .closing _ => 1 | .exited => 0
def pW (n : Nat) : PPc → Nat
  | .submit k => 9 * (n - k) + 16 | .sentEnq => 7 | .sentSend => 2 | .sentWait => 1 | .returned => 0

/-- weighted sum of the remaining pc distances of all actors plus four per queued item -/
def measure (s : State) : Nat := pW s.n s.p + oW s.o + 4 * s.queue.length + (s.w.map wW).sum

theorem sum_map_set {α} (f : α → Nat) (l : List α) (i : Nat) (x v : α) (h : l[i]? = some x) :
    ((l.set i v).map f).sum + f x = (l.map f).sum + f v := by
  induction l generalizing i with
  | nil => simp at h
  | cons a l ih =>
    cases i with
    | zero => simp at h; subst h; simp only [List.set_cons_zero, List.map_cons, List.sum_cons]; omega
    | succ i =>
      simp at h; have := ih i h
      simp only [List.set_cons_succ, List.map_cons, List.sum_cons]; omega

theorem measure_step {s s'} (a : Actor) (hs : step s a = some s') : measure s' < measure s := by
  cases a with
  | producer =>
    simp only [step] at hs
    split at hs
    · rename_i k hp
      split at hs
      · injection hs with hs; subst hs
        by_cases hk : k + 1 < s.n <;>
          simp only [measure, hp, hk, if_true, if_false, pW, List.length_append, List.map_append, List.sum_append,
            List.length_singleton, List.map_cons, List.map_nil, List.sum_cons, List.sum_nil, wW] <;> omega
      · simp at hs
    · rename_i hp
      split at hs
      · injection hs with hs; subst hs
        simp only [measure, hp, pW, List.length_append, List.length_singleton]; omega
      · simp at hs
    · simp at hs
    · rename_i hp
      split at hs
      · injection hs with hs; subst hs
        simp only [measure, hp, pW]; omega
      · simp at hs
    · simp at hs
  | orderer =>
    simp only [step] at hs
    split at hs
    · rename_i ho
      split at hs
      · simp at hs
      · rename_i i rest hq
        injection hs with hs; subst hs
        simp only [measure, ho, hq, oW, List.length_cons]; omega
    · rename_i i ho
      split at hs
      · split at hs
        · rename_i hw
          injection hs with hs; subst hs
          have := sum_map_set wW s.w i _ .waitClose hw
          simp only [wW] at this
          simp only [measure, ho, oW, setAt]; omega
        · simp at hs
      · split at hs
        · rename_i hp
          injection hs with hs; subst hs
          simp only [measure, ho, hp, oW, pW]; omega
        · simp at hs
    · rename_i i ho
      split at hs
      · injection hs with hs; subst hs
        simp only [measure, ho, oW]; omega
      · split at hs
        · injection hs with hs; subst hs
          simp only [measure, ho, oW]; omega
        · injection hs with hs; subst hs
          simp only [measure, ho, oW]; omega
    · rename_i i ho
      injection hs with hs; subst hs
      by_cases hi : i = s.n <;> simp only [measure, ho, hi, if_true, if_false, oW] <;> omega
    · simp at hs
  | worker k =>
    simp only [step] at hs
    split at hs
    · rename_i hw
      injection hs with hs; subst hs
      have := sum_map_set wW s.w k _ .sending hw
      simp only [wW] at this
      simp only [measure, setAt]; omega
    · rename_i hw
      split at hs
      · injection hs with hs; subst hs
        have := sum_map_set wW s.w k _ .release hw
        simp only [wW] at this
        simp only [measure, setAt]; omega
      · simp at hs
    · rename_i hw
      injection hs with hs; subst hs
      have := sum_map_set wW s.w k _ .done hw
      simp only [wW] at this
      simp only [measure, setAt]; omega
    · simp at hs

/-- once `close` has returned: orderer gone, queue empty, every worker is past its last blocking point -/
theorem inv_noleak {num n f s} (h : Inv num n f s) (hp : s.p = .returned) :
    s.o = .exited ∧ s.queue = [] ∧ s.w.length = n ∧
      ∀ k, k < n → ((s.w[k]? = some .waitClose ∧ k ∈ s.closed) ∨ s.w[k]? = some .release ∨ s.w[k]? = some .done) := by
  obtain ⟨ho, hc, hq, hw⟩ := inv_returned h hp
  refine ⟨ho, hq, by rw [hw, h.hn], ?_⟩
  intro k hk
  rw [← h.hn, ← hw] at hk
  have hget : s.w[k]? = some s.w[k] := by simp [hk]
  have := h.winv k _ hget
  rw [ho] at this
  simp only [rcv, oExtra] at this
  rw [h.closedMem]
  cases hx : s.w[k] <;> rw [hx] at this hget <;> simp only [wOk] at this
  · omega
  · omega
  · left; exact ⟨hget, by omega⟩
  · right; left; exact hget
  · right; right; exact hget

/-! ## schedules compose -/

theorem run_append (s : State) (l1 l2 : List Actor) : run s (l1 ++ l2) = run (run s l1) l2 := by
  induction l1 generalizing s with
  | nil => rfl
  | cons a as ih => simp only [List.cons_append, run]; exact ih _

/-- every reachable state in which `close` has not returned can be driven to one where it has -/
theorem inv_can_finish {num n f} (hnum : 0 < num) :
    ∀ (m : Nat) (s : State), measure s ≤ m → Inv num n f s → ∃ sched, (run s sched).p = .returned := by
  intro m
  induction m with
  | zero =>
    intro s hm h
    by_cases hp : s.p = .returned
    · exact ⟨[], hp⟩
    · obtain ⟨a, ha⟩ := inv_progress hnum h hp
      obtain ⟨s', hs'⟩ := Option.isSome_iff_exists.1 ha
      have := measure_step a hs'
      omega
  | succ m ih =>
    intro s hm h
    by_cases hp : s.p = .returned
    · exact ⟨[], hp⟩
    · obtain ⟨a, ha⟩ := inv_progress hnum h hp
      obtain ⟨s', hs'⟩ := Option.isSome_iff_exists.1 ha
      have hlt := measure_step a hs'
      obtain ⟨sched, hsched⟩ := ih s' (by omega) (inv_step a h hs')
      refine ⟨a :: sched, ?_⟩
      simp only [run, hs', Option.getD_some]; exact hsched

end Lz4V.Proofs.PipeW
