import Lz4V.Proofs.DetIO
import Lz4V.Proofs.FrameRRead
/-!
# Proofs.FrameRFrag — the frame Reader does not depend on how its source fragments the reads, and reports a
failure of the source as that failure (Reader half of C15)
-/
set_option linter.unusedSimpArgs false
set_option linter.unusedVariables false
namespace Lz4V.Proofs.Frag
open Lz4V Lz4V.Go Lz4V.Gen Lz4V.Model Lz4V.Model.FrameR Lz4V.Model.FrameW
open Lz4V.Proofs.Det (rfErr readFull_char read_go_eq)

/-! ## a failing source against its non-failing twin -/

/-- the same source with another failure script -/
def withFail (f : Option Nat) (s : Source) : Source := { s with failAt := f }

theorem withFail_self (s : Source) : withFail s.failAt s = s := rfl
theorem withFail_withFail (f g : Option Nat) (s : Source) : withFail f (withFail g s) = withFail f s := rfl
theorem withFail_failAt (f : Option Nat) (s : Source) : (withFail f s).failAt = f := rfl

theorem go_withFail (f : Option Nat) (s : Source) (w : Nat) :
    Source.read.go w (withFail f s) = (withFail f (Source.read.go w s).1, (Source.read.go w s).2) := by
  obtain ⟨d, p, c, n, fa, e⟩ := s
  show Source.read.go w { data := d, pos := p, chunk := c, calls := n, failAt := f, eofWithData := e } = _
  simp only [Source.read.go]
  by_cases h1 : w = 0
  · simp only [if_pos h1]; rfl
  · simp only [if_neg h1]
    by_cases h2 : d.size - p = 0
    · simp only [if_pos h2]; rfl
    · simp only [if_neg h2]
      by_cases h3 : e = true ∧ p + min (min w (d.size - p)) (if c = 0 then w else c) = d.size
      · simp only [if_pos h3]; rfl
      · simp only [if_neg h3]; rfl

theorem go_failAt (s : Source) (w : Nat) : (Source.read.go w s).1.failAt = s.failAt := by
  have := go_withFail s.failAt s w
  rw [withFail_self] at this
  rw [this]
  rfl

theorem read_nf (s : Source) (w : Nat) (h : s.failAt = none) : (s.read w).1.failAt = none := by
  rw [Det.read_eq s w h, go_failAt]; exact h

/-- one `Read` of a scripted source: it fails, or it is the `Read` of the twin that never fails -/
theorem read_twin (s : Source) (w : Nat) :
    (s.failAt ≠ none ∧ s.read w = ({ s with calls := s.calls + 1 }, #[], some .injected)) ∨
    s.read w = (withFail s.failAt ((withFail none s).read w).1, ((withFail none s).read w).2) := by
  cases hf : s.failAt with
  | none =>
    right
    have : withFail none s = s := by rw [← hf]; rfl
    rw [this]
    have h2 := read_nf s w hf
    have : withFail none (s.read w).1 = (s.read w).1 := by rw [← h2]; rfl
    rw [this]
  | some k =>
    by_cases hk : s.calls ≥ k
    · left
      refine ⟨by simp, ?_⟩
      unfold Source.read
      simp only [hf, hk, if_true]
    · right
      have h1 : s.read w = Source.read.go w { s with calls := s.calls + 1 } := by
        unfold Source.read
        simp only [hf, hk, if_false]
      rw [h1, Det.read_eq (withFail none s) w rfl]
      have : ({ s with calls := s.calls + 1 } : Source) =
          withFail (some k) { withFail none s with calls := (withFail none s).calls + 1 } := by
        simp only [withFail, ← hf]
      rw [this, go_withFail]

theorem loop_twin (want : Nat) (fuel : Nat) : ∀ (s : Source) (acc : Array UInt8),
    (s.failAt ≠ none ∧ (readFull.loop want s acc fuel).2.2 = some .injected) ∨
    readFull.loop want s acc fuel = (withFail s.failAt (readFull.loop want (withFail none s) acc fuel).1,
      (readFull.loop want (withFail none s) acc fuel).2) := by
  induction fuel with
  | zero => intro s acc; right; rfl
  | succ fuel ih =>
    intro s acc
    rw [Det.loop_succ, Det.loop_succ]
    by_cases hdone : acc.size ≥ want
    · right; rw [if_pos hdone, if_pos hdone]; rfl
    · rw [if_neg hdone, if_neg hdone]
      rcases read_twin s (want - acc.size) with ⟨hne, hr⟩ | hr
      · left
        refine ⟨hne, ?_⟩
        rw [hr]
        simp only [Array.append_empty]
        rw [if_neg hdone, if_neg (by simp)]
      · rw [hr]
        rcases hx : (withFail none s).read (want - acc.size) with ⟨t, got, e⟩
        simp only []
        have htf : t.failAt = none := by
          have := read_nf (withFail none s) (want - acc.size) rfl
          rw [hx] at this; exact this
        have htt : withFail none (withFail s.failAt t) = t := by
          rw [withFail_withFail, ← htf]; rfl
        cases e with
        | none =>
          simp only []
          by_cases hg : got.size = 0
          · right; rw [if_pos hg, if_pos hg]
          · rw [if_neg hg, if_neg hg]
            rcases ih (withFail s.failAt t) (acc ++ got) with ⟨hne, hi⟩ | hi
            · left; exact ⟨hne, hi⟩
            · right; rw [hi, htt]; rfl
        | some err =>
          right
          simp only []
          split
          · rfl
          · split <;> rfl

theorem readFull_twin (s : Source) (want : Nat) :
    (s.failAt ≠ none ∧ (readFull s want).2.2 = some .injected) ∨
    readFull s want = (withFail s.failAt (readFull (withFail none s) want).1, (readFull (withFail none s) want).2) := by
  unfold readFull
  exact loop_twin want (want + 1) s #[]

/-! ## `io.CopyN(ioutil.Discard, …)` -/

theorem discardN_zero (s : Source) (n : Nat) : discardN s n 0 = (s, none) := rfl

theorem discardN_succ (s : Source) (n fuel : Nat) : discardN s n (fuel + 1) =
    (if n = 0 then (s, none) else
    match (s.read (min n 8192)).2.2 with
    | some .eof => if n - (s.read (min n 8192)).2.1.size = 0 then ((s.read (min n 8192)).1, none)
        else ((s.read (min n 8192)).1, some .eof)
    | some e => ((s.read (min n 8192)).1, some e)
    | none => discardN (s.read (min n 8192)).1 (n - (s.read (min n 8192)).2.1.size) fuel) := by
  rfl

theorem discardN_twin (fuel : Nat) : ∀ (s : Source) (n : Nat),
    (s.failAt ≠ none ∧ (discardN s n fuel).2 = some .injected) ∨
    discardN s n fuel = (withFail s.failAt (discardN (withFail none s) n fuel).1,
      (discardN (withFail none s) n fuel).2) := by
  induction fuel with
  | zero => intro s n; right; rfl
  | succ fuel ih =>
    intro s n
    rw [discardN_succ, discardN_succ]
    by_cases hn : n = 0
    · right; rw [if_pos hn, if_pos hn]; rfl
    · rw [if_neg hn, if_neg hn]
      rcases read_twin s (min n 8192) with ⟨hne, hr⟩ | hr
      · left
        refine ⟨hne, ?_⟩
        rw [hr]
      · rw [hr]
        rcases hx : (withFail none s).read (min n 8192) with ⟨t, got, e⟩
        simp only []
        have htf : t.failAt = none := by
          have := read_nf (withFail none s) (min n 8192) rfl
          rw [hx] at this; exact this
        have htt : withFail none (withFail s.failAt t) = t := by
          rw [withFail_withFail, ← htf]; rfl
        cases e with
        | none =>
          simp only []
          rcases ih (withFail s.failAt t) (n - got.size) with ⟨hne, hi⟩ | hi
          · left; exact ⟨hne, hi⟩
          · right; rw [hi, htt]; rfl
        | some err =>
          right
          cases err <;> simp only [] <;> (try split) <;> rfl

/-- `io.CopyN(ioutil.Discard, src, n)` over a source that never fails: `min n rem` bytes are consumed; the result
is nil iff `n` bytes were there, otherwise io.EOF — whatever the fragmentation -/
theorem discardN_char (fuel : Nat) : ∀ (s : Source) (n : Nat), s.failAt = none → n < fuel →
    ∃ s', discardN s n fuel = (s', if n ≤ s.data.size - s.pos then none else some .eof) ∧
      s'.data = s.data ∧ s'.pos = s.pos + min n (s.data.size - s.pos) ∧ s'.failAt = none := by
  induction fuel with
  | zero => intro s n _ h; omega
  | succ fuel ih =>
    intro s n hfa hf
    rw [discardN_succ]
    by_cases hn : n = 0
    · rw [if_pos hn]
      subst hn
      exact ⟨s, by simp, rfl, by simp, hfa⟩
    · rw [if_neg hn]
      rw [Det.read_eq s _ hfa, read_go_eq]
      have hr : ¬ (min n 8192 = 0) := by omega
      rw [if_neg hr]
      simp only
      by_cases hrem : s.data.size - s.pos = 0
      · rw [if_pos hrem]
        simp only []
        have h0 : ¬ n - (#[] : Array UInt8).size = 0 := by simp; exact hn
        rw [if_neg h0, if_neg (by omega)]
        exact ⟨_, rfl, rfl, by simp [hrem], hfa⟩
      · rw [if_neg hrem]
        generalize hm : min (min (min n 8192) (s.data.size - s.pos)) (if s.chunk = 0 then min n 8192 else s.chunk) = m
        have hm0 : 0 < m := by rw [← hm]; split <;> omega
        have hmn : m ≤ n := by rw [← hm]; omega
        have hmr : m ≤ s.data.size - s.pos := by rw [← hm]; omega
        have hsz : (s.data.extract s.pos (s.pos + m)).size = m := by
          rw [Array.size_extract]; omega
        by_cases heof : s.eofWithData = true ∧ s.pos + m = s.data.size
        · rw [if_pos heof]
          simp only [hsz]
          by_cases hnm : n - m = 0
          · rw [if_pos hnm, if_pos (by omega)]
            exact ⟨_, rfl, rfl, by show s.pos + m = _; omega, hfa⟩
          · rw [if_neg hnm, if_neg (by omega)]
            exact ⟨_, rfl, rfl, by show s.pos + m = _; omega, hfa⟩
        · rw [if_neg heof]
          simp only [hsz]
          obtain ⟨s', hl, hd, hp, hf'⟩ := ih { s with pos := s.pos + m, calls := s.calls + 1 } (n - m) hfa (by omega)
          refine ⟨s', ?_, hd, ?_, hf'⟩
          · rw [hl]
            congr 1
            show (if n - m ≤ s.data.size - (s.pos + m) then none else some Err.eof) = _
            by_cases hle : n ≤ s.data.size - s.pos
            · rw [if_pos hle, if_pos (by omega)]
            · rw [if_neg hle, if_neg (by omega)]
          · rw [hp]
            show s.pos + m + min (n - m) (s.data.size - (s.pos + m)) = _
            omega

/-! ## sources that agree on what is left to read -/

/-- same data, same position; the left one fails according to the script `k`, the right one never fails -/
def RelS (k : Option Nat) (s s' : Source) : Prop :=
  s.data = s'.data ∧ s.pos = s'.pos ∧ s.failAt = k ∧ s'.failAt = none

theorem RelS.ofSim {k : Option Nat} {s s' : Source} (h : Det.Sim s s') : RelS k (withFail k s) s' :=
  ⟨h.1, h.2.1, rfl, h.2.2.2⟩

theorem RelS.toSim {k : Option Nat} {s s' : Source} (h : RelS k s s') : Det.Sim (withFail none s) s' :=
  ⟨h.1, h.2.1, rfl, h.2.2.2⟩

theorem readFull_rel {k : Option Nat} {s s' : Source} (h : RelS k s s') (w : Nat) :
    ((readFull s w).2 = (readFull s' w).2 ∧ RelS k (readFull s w).1 (readFull s' w).1) ∨
    (k ≠ none ∧ (readFull s w).2.2 = some .injected) := by
  rcases readFull_twin s w with ⟨hne, hinj⟩ | ht
  · right; rw [← h.2.2.1]; exact ⟨hne, hinj⟩
  · left
    obtain ⟨h1, h2⟩ := Det.readFull_sim h.toSim w
    rw [ht, h.2.2.1]
    exact ⟨h1, RelS.ofSim h2⟩

theorem discardN_rel {k : Option Nat} {s s' : Source} (h : RelS k s s') (n fuel : Nat) (hf : n < fuel) :
    ((discardN s n fuel).2 = (discardN s' n fuel).2 ∧ RelS k (discardN s n fuel).1 (discardN s' n fuel).1) ∨
    (k ≠ none ∧ (discardN s n fuel).2 = some .injected) := by
  rcases discardN_twin fuel s n with ⟨hne, hinj⟩ | ht
  · right; rw [← h.2.2.1]; exact ⟨hne, hinj⟩
  · left
    obtain ⟨a, ha, had, hap, haf⟩ := discardN_char fuel (withFail none s) n rfl hf
    obtain ⟨b, hb, hbd, hbp, hbf⟩ := discardN_char fuel s' n h.2.2.2 hf
    have hd : (withFail none s).data = s'.data := h.1
    have hp : (withFail none s).pos = s'.pos := h.2.1
    rw [ht, ha, hb, h.2.2.1]
    refine ⟨by simp only [hd, hp], ?_, ?_, rfl, hbf⟩
    · show a.data = b.data
      rw [had, hbd, hd]
    · show a.pos = b.pos
      rw [hap, hbp, hd, hp]

theorem readUint32_eq (s : Source) : readUint32 s =
    (match (readFull s 4).2.2 with
    | some e => ((readFull s 4).1, 0, some e)
    | none => ((readFull s 4).1, u32 (readFull s 4).2.1, none)) := rfl

theorem readUint32_rel {k : Option Nat} {s s' : Source} (h : RelS k s s') :
    ((readUint32 s).2 = (readUint32 s').2 ∧ RelS k (readUint32 s).1 (readUint32 s').1) ∨
    (k ≠ none ∧ (readUint32 s).2.2 = some .injected) := by
  rw [readUint32_eq, readUint32_eq]
  rcases readFull_rel h 4 with ⟨h1, h2⟩ | ⟨hk, hinj⟩
  · left
    rw [h1]
    split <;> exact ⟨rfl, h2⟩
  · right
    rw [hinj]
    exact ⟨hk, rfl⟩

/-- the primitive steps in the form used below -/
theorem readFull_rel' {k : Option Nat} {s s' : Source} (h : RelS k s s') (w : Nat) :
    (∃ s1 s1' b e, readFull s w = (s1, b, e) ∧ readFull s' w = (s1', b, e) ∧ RelS k s1 s1') ∨
    (k ≠ none ∧ ∃ s1 b, readFull s w = (s1, b, some .injected)) := by
  rcases readFull_rel h w with ⟨h1, h2⟩ | ⟨hk, hinj⟩
  · left
    rcases hx : readFull s w with ⟨s1, b, e⟩
    rcases hy : readFull s' w with ⟨s1', b', e'⟩
    rw [hx, hy] at h1 h2
    simp only [Prod.mk.injEq] at h1
    obtain ⟨rfl, rfl⟩ := h1
    exact ⟨s1, s1', b, e, rfl, rfl, h2⟩
  · right
    rcases hx : readFull s w with ⟨s1, b, e⟩
    rw [hx] at hinj
    simp only at hinj
    subst hinj
    exact ⟨hk, s1, b, rfl⟩

theorem readUint32_rel' {k : Option Nat} {s s' : Source} (h : RelS k s s') :
    (∃ s1 s1' x e, readUint32 s = (s1, x, e) ∧ readUint32 s' = (s1', x, e) ∧ RelS k s1 s1') ∨
    (k ≠ none ∧ ∃ s1 x, readUint32 s = (s1, x, some .injected)) := by
  rcases readUint32_rel h with ⟨h1, h2⟩ | ⟨hk, hinj⟩
  · left
    rcases hx : readUint32 s with ⟨s1, b, e⟩
    rcases hy : readUint32 s' with ⟨s1', b', e'⟩
    rw [hx, hy] at h1 h2
    simp only [Prod.mk.injEq] at h1
    obtain ⟨rfl, rfl⟩ := h1
    exact ⟨s1, s1', b, e, rfl, rfl, h2⟩
  · right
    rcases hx : readUint32 s with ⟨s1, b, e⟩
    rw [hx] at hinj
    simp only at hinj
    subst hinj
    exact ⟨hk, s1, b, rfl⟩

theorem discardN_rel' {k : Option Nat} {s s' : Source} (h : RelS k s s') (n fuel : Nat) (hf : n < fuel) :
    (∃ s1 s1' e, discardN s n fuel = (s1, e) ∧ discardN s' n fuel = (s1', e) ∧ RelS k s1 s1') ∨
    (k ≠ none ∧ ∃ s1, discardN s n fuel = (s1, some .injected)) := by
  rcases discardN_rel h n fuel hf with ⟨h1, h2⟩ | ⟨hk, hinj⟩
  · left
    rcases hx : discardN s n fuel with ⟨s1, e⟩
    rcases hy : discardN s' n fuel with ⟨s1', e'⟩
    rw [hx, hy] at h1 h2
    simp only at h1
    subst h1
    exact ⟨s1, s1', e, rfl, rfl, h2⟩
  · right
    rcases hx : discardN s n fuel with ⟨s1, e⟩
    rw [hx] at hinj
    simp only at hinj
    subst hinj
    exact ⟨hk, s1, rfl⟩

/-! ## Readers that differ in their source only -/

def RelR (k : Option Nat) (a b : R) : Prop := RelS k a.src b.src ∧ b = { a with src := b.src }

/-- both runs went the same way, or the left one hit the injected failure -/
def OutE (k : Option Nat) (x y : R × Option Err) : Prop :=
  (x.2 = y.2 ∧ RelR k x.1 y.1) ∨ (k ≠ none ∧ x.2 = some .injected)

theorem unexpected_injected : unexpected (some .injected) = some .injected := rfl

/-- a step that does not touch the source -/
def Pure (g : R → R × Option Err) : Prop :=
  ∀ (r : R) (s : Source), g { r with src := s } = ({ (g r).1 with src := s }, (g r).2)

theorem OutE.pure {g : R → R × Option Err} (hg : Pure g) (k : Option Nat) (r : R) (s s' : Source)
    (h : RelS k s s') : OutE k (g { r with src := s }) (g { r with src := s' }) := by
  rw [hg r s, hg r s']
  exact Or.inl ⟨rfl, h, rfl⟩

/-- the checks of `ParseHeaders` once the descriptor bytes `buf` are there -/
def hdrFin (flags : Flags) (buf : Array UInt8) (r : R) : R × Option Err :=
  let r := if flagSize flags then
      { r with contentSize := u32 (buf.extract 2 6) + 4294967296 * u32 (buf.extract 6 10) } else r
  let ck := buf[buf.size - 1]!
  let body := buf.extract 0 (buf.size - 1)
  if ck.toNat ≠ (XXH.checksumZero body.toList).toNat / 256 % 256 then (r, some .badHeaderChecksum) else
  let idx := blockSizeIndex flags
  if ¬ (idx = 4 ∨ idx = 5 ∨ idx = 6 ∨ idx = 7) then (r, some .badBlockSize) else
  ({ r with cks := XXH.reset r.cks }, none)

theorem hdrFin_pure (flags : Flags) (buf : Array UInt8) : Pure (hdrFin flags buf) := by
  intro r s
  unfold hdrFin
  simp only []
  cases flagSize flags <;> simp only [Bool.false_eq_true, if_true, if_false] <;>
    split <;> (try split) <;> rfl

theorem hdrRest_eq (r : R) : FrameR.hdrRest r =
    (let (s, b, e) := readFull r.src 3
    let r := { r with src := s }
    match e with
    | some e => (r, unexpected (some e))
    | none =>
    let flags : Flags := (b[0]!.toNat + 256 * b[1]!.toNat).toUInt16
    let r := { r with flags := flags }
    if flagSize flags then
      let (s, b8, e) := readFull r.src 8
      let r := { r with src := s }
      match e with
      | some e => (r, unexpected (some e))
      | none => hdrFin flags (b ++ b8) r
    else hdrFin flags b r) := by
  unfold FrameR.hdrRest hdrFin
  rcases readFull r.src 3 with ⟨s, b, e⟩
  cases e with
  | some e => rfl
  | none =>
    simp only []
    cases flagSize (Nat.toUInt16 (b[0]!.toNat + 256 * b[1]!.toNat))
    · rfl
    · simp only [if_true]
      rcases readFull s 8 with ⟨s2, b8, e2⟩
      cases e2 <;> rfl

theorem hdrRest_rel (k : Option Nat) (r : R) (s s' : Source) (h : RelS k s s') :
    OutE k (FrameR.hdrRest { r with src := s }) (FrameR.hdrRest { r with src := s' }) := by
  rw [hdrRest_eq, hdrRest_eq]
  simp only []
  rcases readFull_rel' h 3 with ⟨s1, s1', b, e, hx, hy, hs1⟩ | ⟨hk, s1, b, hx⟩
  · rw [hx, hy]
    simp only []
    cases e with
    | some e => exact Or.inl ⟨rfl, hs1, rfl⟩
    | none =>
      simp only []
      cases flagSize (Nat.toUInt16 (b[0]!.toNat + 256 * b[1]!.toNat))
      · exact OutE.pure (hdrFin_pure _ _) k { r with flags := Nat.toUInt16 (b[0]!.toNat + 256 * b[1]!.toNat) } s1 s1' hs1
      · simp only [if_true]
        rcases readFull_rel' hs1 8 with ⟨s2, s2', b8, e, hx2, hy2, hs2⟩ | ⟨hk, s2, b8, hx2⟩
        · rw [hx2, hy2]
          simp only []
          cases e with
          | some e => exact Or.inl ⟨rfl, hs2, rfl⟩
          | none => exact OutE.pure (hdrFin_pure _ _) k { r with flags := Nat.toUInt16 (b[0]!.toNat + 256 * b[1]!.toNat) } s2 s2' hs2
        · rw [hx2]
          exact Or.inr ⟨hk, rfl⟩
  · rw [hx]
    exact Or.inr ⟨hk, rfl⟩

theorem RelR.lift {k : Option Nat} {α : Type} {P : α → α → Prop} {f : R → α}
    (H : ∀ (r : R) (s s' : Source), RelS k s s' → P (f { r with src := s }) (f { r with src := s' }))
    {a b : R} (h : RelR k a b) : P (f a) (f b) := by
  obtain ⟨hs, hb⟩ := h
  rw [hb]
  exact H a a.src b.src hs

theorem skipRest_eq (r : R) (fuel : Nat) : FrameR.skipRest r fuel =
    (let (s, n, e) := readUint32 r.src
    let r := { r with src := s }
    match e with
    | some e => (r, unexpected (some e))
    | none =>
      let (s, e) := discardN r.src n (n + 1)
      let r := { r with src := s }
      match e with
      | some e => (r, unexpected (some e))
      | none => parseHeaders { r with magic := 0 } fuel) := rfl

theorem parseHeaders_zero (r : R) : parseHeaders r 0 = (r, some .unhandledState) := rfl

theorem parseHeaders_rel (k : Option Nat) (fuel : Nat) : ∀ (r : R) (s s' : Source), RelS k s s' →
    OutE k (parseHeaders { r with src := s } fuel) (parseHeaders { r with src := s' } fuel) := by
  induction fuel with
  | zero => intro r s s' h; exact Or.inl ⟨rfl, h, rfl⟩
  | succ fuel ih =>
    intro r s s' h
    rw [FrameR.parseHeaders_succ, FrameR.parseHeaders_succ]
    simp only []
    by_cases hm : r.magic > 0
    · simp only [if_pos hm]
      exact Or.inl ⟨rfl, h, rfl⟩
    · simp only [if_neg hm]
      rcases readUint32_rel' h with ⟨s1, s1', m, e, hx, hy, hs1⟩ | ⟨hk, s1, m, hx⟩
      · rw [hx, hy]
        simp only []
        cases e with
        | some e => exact Or.inl ⟨rfl, hs1, rfl⟩
        | none =>
          simp only []
          by_cases hm1 : m = frameMagic ∨ m = frameMagicLegacy
          · simp only [if_pos hm1]
            by_cases hm2 : m = frameMagicLegacy
            · simp only [if_pos hm2]
              exact Or.inl ⟨rfl, hs1, rfl⟩
            · simp only [if_neg hm2]
              exact hdrRest_rel k { r with magic := m } s1 s1' hs1
          · simp only [if_neg hm1]
            by_cases hm3 : m / 16 = frameSkipMagic / 16
            · simp only [if_pos hm3]
              rw [skipRest_eq, skipRest_eq]
              simp only []
              rcases readUint32_rel' hs1 with ⟨s2, s2', n, e, hx2, hy2, hs2⟩ | ⟨hk, s2, n, hx2⟩
              · rw [hx2, hy2]
                simp only []
                cases e with
                | some e => exact Or.inl ⟨rfl, hs2, rfl⟩
                | none =>
                  simp only []
                  rcases discardN_rel' hs2 n (n + 1) (by omega) with ⟨s3, s3', e, hx3, hy3, hs3⟩ | ⟨hk, s3, hx3⟩
                  · rw [hx3, hy3]
                    simp only []
                    cases e with
                    | some e => exact Or.inl ⟨rfl, hs3, rfl⟩
                    | none => exact ih { r with magic := 0 } s3 s3' hs3
                  · rw [hx3]
                    exact Or.inr ⟨hk, rfl⟩
              · rw [hx2]
                exact Or.inr ⟨hk, rfl⟩
            · simp only [if_neg hm3]
              exact Or.inl ⟨rfl, hs1, rfl⟩
      · rw [hx]
        exact Or.inr ⟨hk, rfl⟩

/-- the part of `Reader.init` after the headers -/
def initFin (r : R) : R × Option Err :=
  let r := if ¬ flagBlockIndependence r.flags then { r with num := 1 } else r
  ({ r with idx := 0, data := #[], cum := 0 }, none)

theorem initFin_pure : Pure initFin := by
  intro r s
  unfold initFin
  simp only []
  split <;> rfl

theorem init_eq' (r : R) : init r =
    (match (parseHeaders r (r.src.data.size + 2)).2 with
    | some e => ((parseHeaders r (r.src.data.size + 2)).1, some e)
    | none => initFin (parseHeaders r (r.src.data.size + 2)).1) := rfl

theorem OutE.pure' {g : R → R × Option Err} (hg : Pure g) {k : Option Nat} {a b : R}
    (h : RelR k a b) : OutE k (g a) (g b) :=
  RelR.lift (P := OutE k) (f := g) (OutE.pure hg k) h

theorem init_rel (k : Option Nat) (r : R) (s s' : Source) (h : RelS k s s') :
    OutE k (init { r with src := s }) (init { r with src := s' }) := by
  rw [init_eq', init_eq']
  simp only []
  rw [← h.1]
  rcases parseHeaders_rel k (s.data.size + 2) r s s' h with ⟨h1, h2⟩ | ⟨hk, hinj⟩
  · rw [← h1]
    split
    · exact Or.inl ⟨rfl, h2⟩
    · exact OutE.pure' initFin_pure h2
  · rw [hinj]
    exact Or.inr ⟨hk, rfl⟩

theorem blockRead_zero (r : R) : blockRead r 0 = (r, some .unhandledState) := rfl

/-- what `FrameDataBlock.Read` does with the size word `x`: 0 = a repeated legacy magic, read on; 1 = end of the
blocks; 2 = bad block size; 3 = a data block follows -/
def bk (r : R) (x : Nat) : Nat :=
  if isLegacy r ∧ x = frameMagicLegacy then 0
  else if isLegacy r ∧ x = r.cum % 4294967296 then 1
  else if ¬ isLegacy r ∧ x = 0 then 1
  else if isLegacy r ∧ (x ≥ 2147483648 ∨ x % 2147483648 = 0) then 2
  else if x % 2147483648 > (if isLegacy r then Fast.bound Block8Mb else poolSize (blockSizeIndex r.flags)) then 2
  else 3

def hdErr (r : R) (e : Err) : Option Err := if isLegacy r then some e else unexpected (some e)

theorem bk_src (r : R) (s : Source) (x : Nat) : bk { r with src := s } x = bk r x := rfl
theorem hdErr_src (r : R) (s : Source) (e : Err) : hdErr { r with src := s } e = hdErr r e := rfl
theorem hdErr_injected (r : R) : hdErr r .injected = some .injected := by
  unfold hdErr; split <;> rfl

theorem chain5 {α : Type} (c1 c2 c3 c4 c5 : Prop) [Decidable c1] [Decidable c2] [Decidable c3] [Decidable c4]
    [Decidable c5] (A B C D : α) :
    (if c1 then A else if c2 then B else if c3 then B else if c4 then C else if c5 then C else D) =
    (match (if c1 then 0 else if c2 then 1 else if c3 then 1 else if c4 then 2 else if c5 then 2 else 3 : Nat) with
      | 0 => A | 1 => B | 2 => C | _ => D) := by
  by_cases h1 : c1
  · simp only [if_pos h1]
  · simp only [if_neg h1]
    by_cases h2 : c2
    · simp only [if_pos h2]
    · simp only [if_neg h2]
      by_cases h3 : c3
      · simp only [if_pos h3]
      · simp only [if_neg h3]
        by_cases h4 : c4
        · simp only [if_pos h4]
        · simp only [if_neg h4]
          by_cases h5 : c5
          · simp only [if_pos h5]
          · simp only [if_neg h5]

theorem blockRead_succ' (r : R) (fuel : Nat) : blockRead r (fuel + 1) =
    (let (s, x, e) := readUint32 r.src
    let r := { r with src := s }
    match e with
    | some e => (r, hdErr r e)
    | none =>
      match bk r x with
      | 0 => blockRead r fuel
      | 1 => (r, some .eof)
      | 2 => ({ r with bSize := x }, some .badBlockSize)
      | _ =>
        let r := { r with bSize := x }
        let (s, d, e) := readFull r.src (x % 2147483648)
        let r := { r with src := s, bData := d }
        match e with
        | some e => (r, unexpected (some e))
        | none =>
          if flagBlockChecksum r.flags then
            let (s, c, e) := readUint32 r.src
            let r := { r with src := s }
            match e with
            | some e => (r, unexpected (some e))
            | none => ({ r with bChecksum := c }, none)
          else (r, none)) := by
  rw [FrameR.blockRead_succ]
  rcases readUint32 r.src with ⟨s, x, e⟩
  cases e with
  | some e => rfl
  | none => exact chain5 _ _ _ _ _ _ _ _ _

theorem blockRead_rel (k : Option Nat) (fuel : Nat) : ∀ (r : R) (s s' : Source), RelS k s s' →
    OutE k (blockRead { r with src := s } fuel) (blockRead { r with src := s' } fuel) := by
  induction fuel with
  | zero => intro r s s' h; exact Or.inl ⟨rfl, h, rfl⟩
  | succ fuel ih =>
    intro r s s' h
    rw [blockRead_succ', blockRead_succ']
    simp only []
    rcases readUint32_rel' h with ⟨s1, s1', x, e, hx, hy, hs1⟩ | ⟨hk, s1, x, hx⟩
    · rw [hx, hy]
      simp only [bk_src, hdErr_src]
      cases e with
      | some e => exact Or.inl ⟨rfl, hs1, rfl⟩
      | none =>
        simp only []
        generalize bk r x = c
        match c with
        | 0 => exact ih r s1 s1' hs1
        | 1 => exact Or.inl ⟨rfl, hs1, rfl⟩
        | 2 => exact Or.inl ⟨rfl, hs1, rfl⟩
        | c + 3 =>
          simp only []
          rcases readFull_rel' hs1 (x % 2147483648) with ⟨s2, s2', d, e, hx2, hy2, hs2⟩ | ⟨hk, s2, d, hx2⟩
          · rw [hx2, hy2]
            simp only []
            cases e with
            | some e => exact Or.inl ⟨rfl, hs2, rfl⟩
            | none =>
              simp only []
              by_cases c6 : flagBlockChecksum r.flags = true
              · simp only [if_pos c6]
                rcases readUint32_rel' hs2 with ⟨s3, s3', c, e, hx3, hy3, hs3⟩ | ⟨hk, s3, c, hx3⟩
                · rw [hx3, hy3]
                  simp only []
                  cases e with
                  | some e => exact Or.inl ⟨rfl, hs3, rfl⟩
                  | none => exact Or.inl ⟨rfl, hs3, rfl⟩
                · rw [hx3]
                  exact Or.inr ⟨hk, rfl⟩
              · simp only [if_neg c6]
                exact Or.inl ⟨rfl, hs2, rfl⟩
          · rw [hx2]
            exact Or.inr ⟨hk, rfl⟩
    · rw [hx]
      exact Or.inr ⟨hk, hdErr_injected _⟩

theorem isLegacy_src (r : R) (s : Source) : isLegacy { r with src := s } = isLegacy r := rfl

theorem closeR_rel (k : Option Nat) (r : R) (s s' : Source) (h : RelS k s s') :
    OutE k (closeR { r with src := s }) (closeR { r with src := s' }) := by
  unfold closeR
  simp only [isLegacy_src]
  by_cases hl : isLegacy r = true
  · simp only [if_pos hl]
    exact Or.inl ⟨rfl, h, rfl⟩
  · simp only [if_neg hl]
    by_cases hc : ¬ flagContentChecksum r.flags = true
    · simp only [if_pos hc]
      exact Or.inl ⟨rfl, h, rfl⟩
    · simp only [if_neg hc]
      rcases readUint32_rel' h with ⟨s1, s1', c, e, hx, hy, hs1⟩ | ⟨hk, s1, c, hx⟩
      · rw [hx, hy]
        simp only []
        cases e with
        | some e => exact Or.inl ⟨rfl, hs1, rfl⟩
        | none =>
          simp only []
          by_cases hne : (XXH.sum32 r.cks).toNat ≠ c
          · simp only [if_pos hne]
            exact Or.inl ⟨rfl, hs1, rfl⟩
          · simp only [if_neg hne]
            exact Or.inl ⟨rfl, hs1, rfl⟩
      · rw [hx]
        exact Or.inr ⟨hk, rfl⟩

/-! ## `Reader.read` -/

/-- a step with an output that does not touch the source -/
def Pure3 {α : Type} (g : R → R × α) : Prop :=
  ∀ (r : R) (s : Source), g { r with src := s } = ({ (g r).1 with src := s }, (g r).2)

theorem uncompress_fin (r : R) (s : Source) (out : Option (Array UInt8)) :
    (match out with
      | none => (({ r with src := s } : R), (none : Option (Array UInt8)), some Err.shortBuffer)
      | some dst =>
        (if flagContentChecksum r.flags = true then { r with src := s, cks := XXH.write r.cks dst.toList }
          else { r with src := s }, some dst, none)) =
    ({ (match out with
      | none => (r, (none : Option (Array UInt8)), some Err.shortBuffer)
      | some dst =>
        (if flagContentChecksum r.flags = true then { r with cks := XXH.write r.cks dst.toList }
          else r, some dst, none)).1 with src := s },
     (match out with
      | none => (r, (none : Option (Array UInt8)), some Err.shortBuffer)
      | some dst =>
        (if flagContentChecksum r.flags = true then { r with cks := XXH.write r.cks dst.toList }
          else r, some dst, none)).2) := by
  cases out with
  | none => rfl
  | some dst =>
    simp only []
    by_cases h2 : flagContentChecksum r.flags = true
    · simp only [if_pos h2]
    · simp only [if_neg h2]

theorem uncompress_pure (n : Nat) : Pure3 (fun r => uncompress r n) := by
  intro r s
  simp only []
  unfold uncompress
  simp only [isLegacy_src]
  by_cases hc : flagBlockChecksum r.flags = true ∧ (XXH.checksumZero r.bData.toList).toNat ≠ r.bChecksum
  · simp only [if_pos hc]
  · simp only [if_neg hc]
    by_cases hl : isLegacy r = true
    · simp only [hl, if_true]
      exact uncompress_fin r s _
    · simp only [hl, if_false, Bool.false_eq_true]
      exact uncompress_fin r s _

theorem afterBlock_nat (r : R) (s : Source) (dst : Array UInt8) (d : Bool) :
    FrameR.afterBlock { r with src := s } dst d = { FrameR.afterBlock r dst d with src := s } := by
  unfold FrameR.afterBlock
  simp only []
  by_cases h1 : ¬ flagBlockIndependence r.flags = true
  · simp only [if_pos h1]
    cases d
    · rfl
    · simp only [if_true]
      split <;> rfl
  · simp only [if_neg h1]
    cases d
    · rfl
    · simp only [if_true]
      split <;> rfl

/-- the part of `Reader.read` after the block was read -/
def rbFin (want : Nat) (r : R) : R × Array UInt8 × Option Err :=
  let cap := poolSize (blockSizeIndex r.flags)
  let direct := want ≥ cap
  let (r, out, e) := uncompress r cap
  match e, out with
  | some e, _ => (r, #[], some e)
  | none, none => (r, #[], some .shortBuffer)
  | none, some dst =>
    if direct then (FrameR.afterBlock r dst true, dst, none) else (FrameR.afterBlock r dst false, #[], none)

theorem rbFin_pure (want : Nat) : Pure3 (rbFin want) := by
  intro r s
  unfold rbFin
  simp only []
  have hu := uncompress_pure (poolSize (blockSizeIndex r.flags)) r s
  simp only [] at hu
  rw [hu]
  rcases uncompress r (poolSize (blockSizeIndex r.flags)) with ⟨r1, out, e⟩
  simp only []
  cases e with
  | some e => rfl
  | none =>
    cases out with
    | none => rfl
    | some dst =>
      simp only [afterBlock_nat]
      split <;> rfl

theorem readBlock_eq' (r : R) (want : Nat) : readBlock r want =
    (match (blockRead r (r.src.data.size + 2)).2 with
    | some e => ((blockRead r (r.src.data.size + 2)).1, #[], some e)
    | none => rbFin want (blockRead r (r.src.data.size + 2)).1) := rfl

/-- both runs went the same way, or the left one hit the injected failure -/
def OutB (k : Option Nat) (x y : R × Array UInt8 × Option Err) : Prop :=
  (x.2 = y.2 ∧ RelR k x.1 y.1) ∨ (k ≠ none ∧ x.2.2 = some .injected)

theorem OutB.pure {g : R → R × Array UInt8 × Option Err} (hg : Pure3 g) {k : Option Nat} {a b : R}
    (h : RelR k a b) : OutB k (g a) (g b) := by
  refine RelR.lift (P := OutB k) (f := g) ?_ h
  intro r s s' hs
  rw [hg r s, hg r s']
  exact Or.inl ⟨rfl, hs, rfl⟩

theorem readBlock_rel (k : Option Nat) (want : Nat) (r : R) (s s' : Source) (h : RelS k s s') :
    OutB k (readBlock { r with src := s } want) (readBlock { r with src := s' } want) := by
  rw [readBlock_eq', readBlock_eq']
  simp only []
  rw [← h.1]
  rcases blockRead_rel k (s.data.size + 2) r s s' h with ⟨h1, h2⟩ | ⟨hk, hinj⟩
  · rw [← h1]
    split
    · exact Or.inl ⟨rfl, h2⟩
    · exact OutB.pure (rbFin_pure want) h2
  · rw [hinj]
    exact Or.inr ⟨hk, rfl⟩

/-! ## `Reader.WriteTo` -/

theorem RelR.with_data {k : Option Nat} {a b : R} (h : RelR k a b) (d : Array UInt8) :
    RelR k { a with data := d } { b with data := d } := by
  obtain ⟨hs, hb⟩ := h
  refine ⟨hs, ?_⟩
  rw [hb]

theorem write_bytes (sink : Sink) (p : Array UInt8) : ∃ X, (sink.write p).1.bytes = sink.bytes ++ X := by
  unfold Sink.write
  cases sink.failAt with
  | none => exact ⟨p, FrameR.sink_bytes_push sink p (sink.calls + 1)⟩
  | some j =>
    simp only []
    split
    · exact ⟨#[], by simp [Sink.bytes]⟩
    · exact ⟨p, FrameR.sink_bytes_push sink p (sink.calls + 1)⟩

theorem loop_zero (cap : Nat) (r : R) (sink : Sink) (n : Nat) :
    writeTo.loop cap r sink n 0 = (r, sink, n, none) := rfl

theorem loop_step (cap : Nat) (r : R) (sink : Sink) (n fuel : Nat) (r1 : R) (got : Array UInt8) (e : Option Err) :
    readBlock r cap = (r1, got, e) →
    writeTo.loop cap r sink n (fuel + 1) =
      (match e with
      | some .eof => ((closeR { r1 with data := r.data }).1, sink, n, (closeR { r1 with data := r.data }).2)
      | some e => ({ r1 with data := r.data }, sink, n, some e)
      | none =>
        match (sink.write got).2 with
        | some we => ({ r1 with data := r.data }, (sink.write got).1, n, some we)
        | none => writeTo.loop cap { r1 with data := r.data } (sink.write got).1 (n + got.size) fuel) := by
  intro hx
  rw [FrameR.loop_succ, hx]
  cases e with
  | none => rfl
  | some e => cases e <;> rfl

theorem loop_sink_mono (cap : Nat) (fuel : Nat) : ∀ (r : R) (sink : Sink) (n : Nat),
    ∃ X, (writeTo.loop cap r sink n fuel).2.1.bytes = sink.bytes ++ X := by
  induction fuel with
  | zero => intro r sink n; exact ⟨#[], by rw [loop_zero]; simp⟩
  | succ fuel ih =>
    intro r sink n
    rcases hx : readBlock r cap with ⟨r1, got, e⟩
    rw [loop_step cap r sink n fuel r1 got e hx]
    cases e with
    | some e => cases e <;> exact ⟨#[], by simp⟩
    | none =>
      simp only []
      obtain ⟨X, hX⟩ := write_bytes sink got
      cases hw : (sink.write got).2 with
      | some we => exact ⟨X, hX⟩
      | none =>
        simp only []
        obtain ⟨Y, hY⟩ := ih { r1 with data := r.data } (sink.write got).1 (n + got.size)
        exact ⟨X ++ Y, by rw [hY, hX, Array.append_assoc]⟩

/-- both runs went the same way, or the left one hit the injected failure having written a prefix -/
def OutL (k : Option Nat) (x y : R × Sink × Nat × Option Err) : Prop :=
  (x.2 = y.2 ∧ RelR k x.1 y.1) ∨
  (k ≠ none ∧ x.2.2.2 = some .injected ∧ ∃ X, y.2.1.bytes = x.2.1.bytes ++ X)

theorem loop_rel (k : Option Nat) (cap : Nat) (fuel : Nat) : ∀ (r : R) (s s' : Source) (sink : Sink) (n : Nat),
    RelS k s s' →
    OutL k (writeTo.loop cap { r with src := s } sink n fuel) (writeTo.loop cap { r with src := s' } sink n fuel) := by
  induction fuel with
  | zero => intro r s s' sink n h; exact Or.inl ⟨rfl, h, rfl⟩
  | succ fuel ih =>
    intro r s s' sink n h
    obtain ⟨X, hmono⟩ := loop_sink_mono cap (fuel + 1) { r with src := s' } sink n
    rcases hx : readBlock { r with src := s } cap with ⟨r1, got, e⟩
    rcases hy : readBlock { r with src := s' } cap with ⟨r1', got', e'⟩
    have hb := readBlock_rel k cap r s s' h
    rw [hx, hy] at hb
    rcases hb with ⟨heq, hr⟩ | ⟨hk, hinj⟩
    · simp only [Prod.mk.injEq] at heq
      obtain ⟨rfl, rfl⟩ := heq
      simp only [] at hr
      rw [loop_step cap _ sink n fuel r1 got e hx, loop_step cap _ sink n fuel r1' got e hy]
      simp only []
      have hr' := hr.with_data r.data
      cases e with
      | none =>
        simp only []
        cases hw : (sink.write got).2 with
        | some we => exact Or.inl ⟨rfl, hr'⟩
        | none =>
          simp only []
          exact RelR.lift (P := OutL k)
            (f := fun ρ => writeTo.loop cap { ρ with data := r.data } (sink.write got).1 (n + got.size) fuel)
            (fun ρ t t' ht => ih { ρ with data := r.data } t t' _ _ ht) hr
      | some e =>
        have hc : OutE k (closeR { r1 with data := r.data }) (closeR { r1' with data := r.data }) :=
          RelR.lift (P := OutE k) (f := closeR) (closeR_rel k) hr'
        cases e
        case eof =>
          simp only []
          rcases hc with ⟨h1, h2⟩ | ⟨hk, hinj⟩
          · exact Or.inl ⟨by rw [h1], h2⟩
          · exact Or.inr ⟨hk, hinj, #[], by simp⟩
        all_goals exact Or.inl ⟨rfl, hr'⟩
    · simp only [] at hinj
      subst hinj
      rw [loop_step cap _ sink n fuel r1 got _ hx]
      exact Or.inr ⟨hk, rfl, X, hmono⟩

/-- `WriteTo` on a new Reader, after `init` returned `(r1, e)` -/
def wt2 (sink : Sink) (r1 : R) (e : Option Err) : R × Sink × Nat × Option Err :=
  match e with
  | some err => ({ r1 with st := stError, err := some err }, sink, 0, some err)
  | none =>
    let r2 : R := { r1 with st := readerStates r1.st }
    let L := writeTo.loop (poolSize (blockSizeIndex r2.flags)) r2 sink 0 (r2.src.data.size + 4)
    ((FrameR.next L.1 L.2.2.2).1, L.2.1, L.2.2.1, L.2.2.2)

theorem writeTo_wt2 (r : R) (sink : Sink) (h : r.st = stNew) :
    writeTo r sink = wt2 sink (init r).1 (init r).2 := by
  rw [FrameR.writeTo_new r sink h]
  rcases init r with ⟨r1, e⟩
  cases e with
  | some err => rfl
  | none => rfl

theorem next_rel {k : Option Nat} {a b : R} (h : RelR k a b) (e : Option Err) :
    RelR k (FrameR.next a e).1 (FrameR.next b e).1 := by
  obtain ⟨hs, hb⟩ := h
  rw [hb]
  cases e with
  | some e => exact ⟨hs, rfl⟩
  | none => exact ⟨hs, rfl⟩

theorem wt2_mono (sink : Sink) (r1 : R) (e : Option Err) : ∃ X, (wt2 sink r1 e).2.1.bytes = sink.bytes ++ X := by
  cases e with
  | some err => exact ⟨#[], by simp [wt2]⟩
  | none => exact loop_sink_mono _ _ _ _ _

theorem wt2_rel (k : Option Nat) (sink : Sink) (e : Option Err) (r : R) (s s' : Source) (h : RelS k s s') :
    OutL k (wt2 sink { r with src := s } e) (wt2 sink { r with src := s' } e) := by
  cases e with
  | some err => exact Or.inl ⟨rfl, h, rfl⟩
  | none =>
    unfold wt2
    simp only []
    rw [← h.1]
    rcases loop_rel k (poolSize (blockSizeIndex r.flags)) (s.data.size + 4) { r with st := readerStates r.st } s s' sink 0 h
      with ⟨h1, h2⟩ | ⟨hk, hinj, X, hX⟩
    · refine Or.inl ⟨?_, ?_⟩
      · simp only []
        rw [← h1]
      · simp only []
        rw [← h1]
        exact next_rel h2 _
    · exact Or.inr ⟨hk, hinj, X, hX⟩

theorem writeTo_rel (k : Option Nat) (sink : Sink) (r : R) (s s' : Source) (hst : r.st = stNew) (h : RelS k s s') :
    OutL k (writeTo { r with src := s } sink) (writeTo { r with src := s' } sink) := by
  rw [writeTo_wt2 _ sink (show ({ r with src := s } : R).st = stNew from hst),
    writeTo_wt2 _ sink (show ({ r with src := s' } : R).st = stNew from hst)]
  rcases init_rel k r s s' h with ⟨h1, h2⟩ | ⟨hk, hinj⟩
  · rw [← h1]
    exact RelR.lift (P := OutL k) (f := fun ρ => wt2 sink ρ (init { r with src := s }).2)
      (fun ρ t t' ht => wt2_rel k sink _ ρ t t' ht) h2
  · rw [hinj]
    obtain ⟨X, hX⟩ := wt2_mono sink (init { r with src := s' }).1 (init { r with src := s' }).2
    exact Or.inr ⟨hk, rfl, X, hX⟩

/-! ## `Reader.Read` -/

/-- the first half of one iteration of the `Read` loop: get a block unless one is buffered -/
def stepF (r : R) (rem : Nat) : R × Array UInt8 × Option Err × Bool :=
  if r.idx = 0 then
    let (r, got, e) := readBlock r rem
    match e with
    | none => (r, got, none, false)
    | some .eof =>
      let (r, ce) := closeR r
      match ce with
      | some ce => ({ r with data := #[] }, #[], some ce, true)
      | none => ({ (FrameR.next r none).1 with data := #[] }, #[], some .eof, true)
    | some e => (r, #[], some e, true)
  else (r, #[], none, false)

/-- the second half: deliver -/
def rlTail (want : Nat) (out : Array UInt8) (fuel : Nat) (x : R × Array UInt8 × Option Err × Bool) :
    R × Array UInt8 × Option Err :=
  if x.2.2.2 then (x.1, out, x.2.2.1) else
  if x.2.1.size > 0 then readLoop x.1 want (out ++ x.2.1) fuel else
  readLoop { x.1 with idx := if x.1.idx + min (want - out.size) (x.1.data.size - x.1.idx) = x.1.data.size then 0
      else x.1.idx + min (want - out.size) (x.1.data.size - x.1.idx) } want
    (out ++ x.1.data.extract x.1.idx (x.1.idx + min (want - out.size) (x.1.data.size - x.1.idx))) fuel

theorem readLoop_succ' (r : R) (want : Nat) (out : Array UInt8) (fuel : Nat) : readLoop r want out (fuel + 1) =
    (if out.size ≥ want then (r, out, none) else rlTail want out fuel (stepF r (want - out.size))) := rfl

theorem readLoop_mono (want : Nat) (fuel : Nat) : ∀ (r : R) (out : Array UInt8),
    ∃ X, (readLoop r want out fuel).2.1 = out ++ X := by
  induction fuel with
  | zero => intro r out; exact ⟨#[], by simp [FrameR.readLoop_zero]⟩
  | succ fuel ih =>
    intro r out
    rw [readLoop_succ']
    split
    · exact ⟨#[], by simp⟩
    · generalize stepF r (want - out.size) = x
      unfold rlTail
      split
      · exact ⟨#[], by simp⟩
      · split
        · obtain ⟨Y, hY⟩ := ih x.1 (out ++ x.2.1)
          exact ⟨x.2.1 ++ Y, by rw [hY, Array.append_assoc]⟩
        · obtain ⟨Y, hY⟩ := ih
            { x.1 with idx := if x.1.idx + min (want - out.size) (x.1.data.size - x.1.idx) = x.1.data.size then 0
                else x.1.idx + min (want - out.size) (x.1.data.size - x.1.idx) }
            (out ++ x.1.data.extract x.1.idx (x.1.idx + min (want - out.size) (x.1.data.size - x.1.idx)))
          exact ⟨x.1.data.extract x.1.idx (x.1.idx + min (want - out.size) (x.1.data.size - x.1.idx)) ++ Y,
            by rw [hY, Array.append_assoc]⟩

def OutS (k : Option Nat) (x y : R × Array UInt8 × Option Err × Bool) : Prop :=
  (x.2 = y.2 ∧ RelR k x.1 y.1) ∨ (k ≠ none ∧ x.2.2.1 = some .injected ∧ x.2.2.2 = true)

theorem stepF_rel (k : Option Nat) (rem : Nat) (r : R) (s s' : Source) (h : RelS k s s') :
    OutS k (stepF { r with src := s } rem) (stepF { r with src := s' } rem) := by
  unfold stepF
  simp only []
  by_cases hi : r.idx = 0
  · simp only [if_pos hi]
    rcases hx : readBlock { r with src := s } rem with ⟨r1, got, e⟩
    rcases hy : readBlock { r with src := s' } rem with ⟨r1', got', e'⟩
    have hb := readBlock_rel k rem r s s' h
    rw [hx, hy] at hb
    rcases hb with ⟨heq, hr⟩ | ⟨hk, hinj⟩
    · simp only [Prod.mk.injEq] at heq
      obtain ⟨rfl, rfl⟩ := heq
      simp only [] at hr ⊢
      cases e with
      | none => exact Or.inl ⟨rfl, hr⟩
      | some e =>
        have hc : OutE k (closeR r1) (closeR r1') := RelR.lift (P := OutE k) (f := closeR) (closeR_rel k) hr
        cases e
        case eof =>
          simp only []
          rcases hcx : closeR r1 with ⟨r2, ce⟩
          rcases hcy : closeR r1' with ⟨r2', ce'⟩
          rw [hcx, hcy] at hc
          rcases hc with ⟨h1, h2⟩ | ⟨hk, hinj⟩
          · simp only [] at h1 h2
            subst h1
            cases ce with
            | some ce => exact Or.inl ⟨rfl, h2.with_data #[]⟩
            | none => exact Or.inl ⟨rfl, (next_rel h2 none).with_data #[]⟩
          · simp only [] at hinj
            subst hinj
            exact Or.inr ⟨hk, rfl, rfl⟩
        all_goals exact Or.inl ⟨rfl, hr⟩
    · simp only [] at hinj
      subst hinj
      exact Or.inr ⟨hk, rfl, rfl⟩
  · simp only [if_neg hi]
    exact Or.inl ⟨rfl, h, rfl⟩

/-- both runs went the same way, or the left one hit the injected failure having delivered a prefix -/
def OutRL (k : Option Nat) (x y : R × Array UInt8 × Option Err) : Prop :=
  (x.2 = y.2 ∧ RelR k x.1 y.1) ∨ (k ≠ none ∧ x.2.2 = some .injected ∧ ∃ X, y.2.1 = x.2.1 ++ X)

theorem readLoop_rel (k : Option Nat) (want : Nat) (fuel : Nat) : ∀ (r : R) (s s' : Source) (out : Array UInt8),
    RelS k s s' →
    OutRL k (readLoop { r with src := s } want out fuel) (readLoop { r with src := s' } want out fuel) := by
  induction fuel with
  | zero => intro r s s' out h; exact Or.inl ⟨rfl, h, rfl⟩
  | succ fuel ih =>
    intro r s s' out h
    obtain ⟨X, hmono⟩ := readLoop_mono want (fuel + 1) { r with src := s' } out
    rw [readLoop_succ'] at hmono
    rw [readLoop_succ', readLoop_succ']
    by_cases hd : out.size ≥ want
    · simp only [if_pos hd]
      exact Or.inl ⟨rfl, h, rfl⟩
    · simp only [if_neg hd] at hmono ⊢
      rcases hx : stepF { r with src := s } (want - out.size) with ⟨r1, got, e, stop⟩
      rcases hy : stepF { r with src := s' } (want - out.size) with ⟨r1', got', e', stop'⟩
      have hb := stepF_rel k (want - out.size) r s s' h
      rw [hy] at hmono
      rw [hx, hy] at hb
      rcases hb with ⟨heq, hr⟩ | ⟨hk, hinj, hstop⟩
      · simp only [Prod.mk.injEq] at heq
        obtain ⟨rfl, rfl, rfl⟩ := heq
        simp only [] at hr
        unfold rlTail
        simp only []
        obtain ⟨hs1, hb1⟩ := hr
        cases stop with
        | true => exact Or.inl ⟨rfl, hs1, hb1⟩
        | false =>
          simp only [Bool.false_eq_true, if_false]
          by_cases hg : got.size > 0
          · simp only [if_pos hg]
            exact RelR.lift (P := OutRL k) (f := fun ρ => readLoop ρ want (out ++ got) fuel)
              (fun ρ t t' ht => ih ρ t t' _ ht) ⟨hs1, hb1⟩
          · simp only [if_neg hg]
            rw [hb1]
            simp only []
            exact ih { r1 with idx := if r1.idx + min (want - out.size) (r1.data.size - r1.idx) = r1.data.size then 0
              else r1.idx + min (want - out.size) (r1.data.size - r1.idx) } r1.src r1'.src _ hs1
      · simp only [] at hinj hstop
        subst hinj
        subst hstop
        refine Or.inr ⟨hk, rfl, X, ?_⟩
        exact hmono

theorem check_rel {k : Option Nat} {a b : R} (h : RelR k a b) (e : Option Err) :
    RelR k (FrameR.check a e) (FrameR.check b e) := by
  obtain ⟨hs, hb⟩ := h
  rw [hb]
  unfold FrameR.check
  simp only []
  by_cases h1 : a.st = stError
  · simp only [if_pos h1]
    exact ⟨hs, rfl⟩
  · simp only [if_neg h1]
    cases e with
    | none => exact ⟨hs, rfl⟩
    | some e =>
      simp only []
      by_cases h2 : e = Err.eof
      · simp only [if_pos h2]
        exact ⟨hs, rfl⟩
      · simp only [if_neg h2]
        exact ⟨hs, rfl⟩

/-- the `Read` loop of one call, and the bookkeeping of its result -/
def rdGo (want : Nat) (r : R) : R × Array UInt8 × Option Err :=
  let L := readLoop r want #[] (r.src.data.size + want + 4)
  (FrameR.check L.1 L.2.2, L.2.1, L.2.2)

theorem read_eq (r : R) (want : Nat) : FrameR.read r want =
    (if r.st = stRead then rdGo want r
    else if r.st = stClosed then (FrameR.check r (some .eof), #[], some .eof)
    else if r.st = stError then (r, #[], r.err)
    else if r.st = stNew then
      (if (FrameR.next (init r).1 (init r).2).2 then ((FrameR.next (init r).1 (init r).2).1, #[], (init r).2)
      else rdGo want (FrameR.next (init r).1 (init r).2).1)
    else ({ r with st := stError, err := some .unhandledState }, #[], some .unhandledState)) := by
  unfold FrameR.read rdGo
  simp only []

theorem rdGo_rel (k : Option Nat) (want : Nat) (r : R) (s s' : Source) (h : RelS k s s') :
    OutRL k (rdGo want { r with src := s }) (rdGo want { r with src := s' }) := by
  unfold rdGo
  simp only []
  rw [← h.1]
  rcases readLoop_rel k want (s.data.size + want + 4) r s s' #[] h with ⟨h1, h2⟩ | ⟨hk, hinj, X, hX⟩
  · refine Or.inl ⟨by simp only []; rw [← h1], ?_⟩
    simp only []
    rw [← h1]
    exact check_rel h2 _
  · exact Or.inr ⟨hk, hinj, X, hX⟩

theorem read_rel (k : Option Nat) (want : Nat) (r : R) (s s' : Source) (h : RelS k s s') :
    OutRL k (FrameR.read { r with src := s } want) (FrameR.read { r with src := s' } want) := by
  rw [read_eq, read_eq]
  simp only []
  by_cases h1 : r.st = stRead
  · simp only [if_pos h1]
    exact rdGo_rel k want r s s' h
  · simp only [if_neg h1]
    by_cases h2 : r.st = stClosed
    · simp only [if_pos h2]
      exact Or.inl ⟨rfl, check_rel ⟨h, rfl⟩ _⟩
    · simp only [if_neg h2]
      by_cases h3 : r.st = stError
      · simp only [if_pos h3]
        exact Or.inl ⟨rfl, h, rfl⟩
      · simp only [if_neg h3]
        by_cases h4 : r.st = stNew
        · simp only [if_pos h4]
          rcases hx : init { r with src := s } with ⟨r1, e⟩
          rcases hy : init { r with src := s' } with ⟨r1', e'⟩
          have hb := init_rel k r s s' h
          rw [hx, hy] at hb
          rcases hb with ⟨heq, hr⟩ | ⟨hk, hinj⟩
          · simp only [] at heq hr ⊢
            subst heq
            cases e with
            | some e => exact Or.inl ⟨rfl, next_rel hr _⟩
            | none =>
              exact RelR.lift (P := OutRL k) (f := fun ρ => rdGo want (FrameR.next ρ none).1)
                (fun ρ t t' ht => rdGo_rel k want { ρ with st := readerStates ρ.st } t t' ht) hr
          · simp only [] at hinj ⊢
            subst hinj
            exact Or.inr ⟨hk, rfl, _, (Array.empty_append).symm⟩
        · simp only [if_neg h4]
          exact Or.inl ⟨rfl, h, rfl⟩

/-! ## a `Read` session -/

theorem go_mono (sizes : List Nat) : ∀ (r : R) (out : Array UInt8),
    ∃ X, (Run.readWith.go r out sizes).1 = out ++ X := by
  induction sizes with
  | nil => intro r out; exact ⟨#[], by simp [FrameR.go_nil]⟩
  | cons n ns ih =>
    intro r out
    rw [FrameR.go_cons]
    rcases FrameR.read r n with ⟨r1, got, e⟩
    cases e with
    | some e => exact ⟨got, rfl⟩
    | none =>
      obtain ⟨Y, hY⟩ := ih r1 (out ++ got)
      exact ⟨got ++ Y, by simp only []; rw [hY, Array.append_assoc]⟩

/-- the sessions went the same way, or the left one hit the injected failure having delivered a prefix -/
def OutG (k : Option Nat) (x y : Array UInt8 × Option Err × Nat) : Prop :=
  x = y ∨ (k ≠ none ∧ x.2.1 = some .injected ∧ ∃ X, y.1 = x.1 ++ X)

theorem go_rel (k : Option Nat) (sizes : List Nat) : ∀ (r : R) (s s' : Source) (out : Array UInt8), RelS k s s' →
    OutG k (Run.readWith.go { r with src := s } out sizes) (Run.readWith.go { r with src := s' } out sizes) := by
  induction sizes with
  | nil =>
    intro r s s' out h
    left
    rw [FrameR.go_nil, FrameR.go_nil]
    simp only [h.2.1]
  | cons n ns ih =>
    intro r s s' out h
    obtain ⟨Y, hmono⟩ := go_mono (n :: ns) { r with src := s' } out
    rw [FrameR.go_cons] at hmono
    rw [FrameR.go_cons, FrameR.go_cons]
    rcases hx : FrameR.read { r with src := s } n with ⟨r1, got, e⟩
    rcases hy : FrameR.read { r with src := s' } n with ⟨r1', got', e'⟩
    have hb := read_rel k n r s s' h
    rw [hy] at hmono
    rw [hx, hy] at hb
    rcases hb with ⟨heq, hr⟩ | ⟨hk, hinj, X, hX⟩
    · simp only [Prod.mk.injEq] at heq
      obtain ⟨rfl, rfl⟩ := heq
      simp only [] at hr ⊢
      cases e with
      | some e =>
        left
        simp only [hr.1.2.1]
      | none =>
        exact RelR.lift (P := OutG k) (f := fun ρ => Run.readWith.go ρ (out ++ got) ns)
          (fun ρ t t' ht => ih ρ t t' _ ht) hr
    · simp only [] at hinj hX hmono ⊢
      subst hinj
      subst hX
      refine Or.inr ⟨hk, rfl, ?_⟩
      simp only []
      cases e' with
      | some e' => exact ⟨X, by simp [Array.append_assoc]⟩
      | none =>
        obtain ⟨Z, hZ⟩ := go_mono ns r1' (out ++ (got ++ X))
        exact ⟨X ++ Z, by simp only []; rw [hZ]; simp [Array.append_assoc]⟩

end Lz4V.Proofs.Frag
