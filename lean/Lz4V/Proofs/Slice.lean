import Lz4V.Go.Slice
/-!
# Proofs.Slice — characterisation of `blit`, `copyWithin`, with the total accessor `a[i]!`
-/
namespace Lz4V.Proofs.Slice
open Lz4V.Go

theorem get!_set! (a : Array UInt8) (i j : Nat) (v : UInt8) :
    (a.set! i v)[j]! = if i = j ∧ j < a.size then v else a[j]! := by
  grind

theorem ext! {a b : Array UInt8} (hs : a.size = b.size) (h : ∀ i, i < a.size → a[i]! = b[i]!) : a = b := by
  grind

theorem blit_size (d : Array UInt8) (di : Nat) (s : Array UInt8) (si n : Nat) :
    (blit d di s si n).size = d.size := by
  induction n generalizing d di si with
  | zero => simp [blit]
  | succ n ih => simp [blit, ih]

theorem blit_get (d : Array UInt8) (di : Nat) (s : Array UInt8) (si n j : Nat) :
    (blit d di s si n)[j]! = if di ≤ j ∧ j < di + n ∧ j < d.size then s[si + (j - di)]! else d[j]! := by
  induction n generalizing d di si with
  | zero => simp [blit]; omega
  | succ n ih =>
    simp only [blit, ih, get!_set!]
    grind

theorem copyWithin_size (a : Array UInt8) (di si n : Nat) :
    (copyWithin a di si n).size = a.size := by
  simp [copyWithin, blit_size]

theorem extract_get! (a : Array UInt8) (s e t : Nat) :
    (a.extract s e)[t]! = if s + t < e then a[s + t]! else default := by
  grind

theorem copyWithin_get (a : Array UInt8) (di si n j : Nat) :
    (copyWithin a di si n)[j]! = if di ≤ j ∧ j < di + n ∧ j < a.size then a[si + (j - di)]! else a[j]! := by
  simp only [copyWithin, blit_get, extract_get!]
  grind

end Lz4V.Proofs.Slice
