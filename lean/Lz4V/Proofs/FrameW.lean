import Lz4V.Model.Run
import Lz4V.Spec.Frame
import Lz4V.Props.C13
import Lz4V.Props.C01fast
import Lz4V.Proofs.BlockSpec
/-!
# Proofs.FrameW — the frame Writer model emits frames the strict frame specification accepts (C09)
-/
namespace Lz4V.Proofs.FrameW
open Lz4V Lz4V.Gen Lz4V.Model Lz4V.Model.FrameW
open Lz4V.Go (Sink Err)
open Lz4V.Spec.Frame (u32 u64 splitN blocks header skipToFrame Info)

/-! ## `Spec.Block.decode` is monotone in `maxOut` -/

theorem decodeAux_mono (fuel : Nat) : ∀ (src : List UInt8) (hist : Array UInt8) (dl m m' : Nat) (out : Array UInt8),
    m ≤ m' → Spec.Block.decodeAux fuel src hist dl m = some out →
    Spec.Block.decodeAux fuel src hist dl m' = some out := by
  induction fuel with
  | zero => intro src hist dl m m' out _ h; simp [Spec.Block.decodeAux] at h
  | succ fuel ih =>
    intro src hist dl m m' out hm h
    cases src with
    | nil => simp [Spec.Block.decodeAux] at h
    | cons tok r0 =>
      rw [Proofs.BlockSpec.decodeAux_cons] at h ⊢
      cases hrf : Spec.Block.readField (tok.toNat / 16) r0 with
      | none => rw [hrf] at h; simp at h
      | some p =>
        obtain ⟨ll, r1⟩ := p
        rw [hrf] at h
        simp only at h ⊢
        by_cases hc : hist.size + ll - dl > m
        · rw [if_pos hc] at h; simp at h
        · rw [if_neg hc] at h
          rw [if_neg (by omega)]
          cases htl : Spec.Block.takeLits ll r1 hist with
          | none => rw [htl] at h; simp at h
          | some q =>
            obtain ⟨hist1, r2⟩ := q
            rw [htl] at h
            simp only at h ⊢
            unfold Proofs.BlockSpec.specMatch at h ⊢
            match r2, h with
            | [], h => exact h
            | [_], h => exact h
            | lo :: hi :: r3, h =>
              simp only at h ⊢
              by_cases h0 : lo.toNat + 256 * hi.toNat = 0
              · rw [if_pos h0] at h; simp at h
              · rw [if_neg h0] at h ⊢
                by_cases h1 : lo.toNat + 256 * hi.toNat > hist1.size
                · rw [if_pos h1] at h; simp at h
                · rw [if_neg h1] at h ⊢
                  cases hrf2 : Spec.Block.readField (tok.toNat % 16) r3 with
                  | none => rw [hrf2] at h; simp at h
                  | some p2 =>
                    obtain ⟨ml, r4⟩ := p2
                    rw [hrf2] at h
                    simp only at h ⊢
                    by_cases h2 : hist1.size + (ml + 4) - dl > m
                    · rw [if_pos h2] at h; simp at h
                    · rw [if_neg h2] at h
                      rw [if_neg (by omega)]
                      match r4, h with
                      | [], h => exact h
                      | x :: r5, h => exact ih _ _ _ _ _ _ hm h

theorem decode_mono (src dict : List UInt8) (m m' : Nat) (out : Array UInt8) (hm : m ≤ m')
    (h : Spec.Block.decode src dict m = some out) : Spec.Block.decode src dict m' = some out := by
  unfold Spec.Block.decode at h ⊢
  cases hd : Spec.Block.decodeAux (src.length + 1) src dict.toArray dict.length m with
  | none => rw [hd] at h; simp at h
  | some o =>
    rw [hd] at h
    rw [decodeAux_mono _ _ _ _ _ _ _ hm hd]
    exact h

theorem decode_nil (dict : List UInt8) (m : Nat) : Spec.Block.decode [] dict m = none := by
  simp [Spec.Block.decode, Spec.Block.decodeAux]

/-! ## the all-accepting sink -/

theorem sink_write (s : Sink) (p : Array UInt8) (h : s.failAt = none) :
    s.write p = ({ s with writes := s.writes.push p, calls := s.calls + 1 }, none) := by
  unfold Sink.write
  simp only [h]

theorem sink_write_bytes (s : Sink) (p : Array UInt8) (h : s.failAt = none) :
    (s.write p).1.bytes = s.bytes ++ p ∧ (s.write p).1.failAt = none ∧ (s.write p).2 = none := by
  rw [sink_write s p h]
  refine ⟨?_, h, rfl⟩
  simp [Sink.bytes]

/-! ## little-endian words -/

theorem toUInt8_toNat (n : Nat) (h : n < 256) : n.toUInt8.toNat = n := by
  simp [Nat.toUInt8_eq, UInt8.toNat_ofNat']
  omega

theorem u32_le32 (n : Nat) (h : n < 4294967296) (rest : List UInt8) :
    u32 ((le32 n).toList ++ rest) = some (n, rest) := by
  simp only [le32, List.cons_append, List.nil_append, u32]
  rw [toUInt8_toNat _ (by omega), toUInt8_toNat _ (by omega), toUInt8_toNat _ (by omega),
    toUInt8_toNat _ (by omega)]
  have : n % 256 + 256 * (n / 256 % 256) + 65536 * (n / 65536 % 256) + 16777216 * (n / 16777216 % 256) = n := by
    omega
  rw [this]

theorem le32_size (n : Nat) : (le32 n).size = 4 := rfl

theorem u64_le64 (n : Nat) (h : n < 2 ^ 64) (rest : List UInt8) :
    u64 ((le64 n).toList ++ rest) = some (n, rest) := by
  unfold u64 le64
  rw [Array.toList_append, List.append_assoc, u32_le32 _ (by omega)]
  simp only
  rw [u32_le32 _ (by omega)]
  simp only
  have : n % 4294967296 + 4294967296 * (n / 4294967296) = n := by omega
  rw [this]

theorem le64_size (n : Nat) : (le64 n).size = 8 := by
  simp [le64, le32_size]

theorem splitN_append (l : List UInt8) (rest : List UInt8) (acc : Array UInt8) :
    splitN l.length (l ++ rest) acc = some (acc ++ l.toArray, rest) := by
  induction l generalizing acc with
  | nil => simp [splitN]
  | cons b l ih =>
    simp only [List.length_cons, List.cons_append, splitN]
    rw [ih]
    simp

theorem splitN_array (a : Array UInt8) (rest : List UInt8) :
    splitN a.size (a.toList ++ rest) #[] = some (a, rest) := by
  have := splitN_append a.toList rest #[]
  simpa using this

/-! ## descriptor flags: the reachable values -/

/-- every flag word `NewWriter` + `Apply` can produce (bits 2,3,4 free, block-size index 4..7;
`BlockSizeOption` rejects the legacy-only 8 MiB = index 3) -/
def reachable : List UInt16 :=
  [4, 5, 6, 7].flatMap fun idx => [0, 4].flatMap fun cc => [0, 8].flatMap fun sz =>
    [0, 16].map fun bc => UInt16.ofNat (idx * 4096 + cc + sz + bc)

def initFlags (f : Flags) : Flags := blockIndependenceSet (versionSet f 1) true
def flgByte (f : Flags) : UInt8 := ((initFlags f).toNat % 256).toUInt8
def bdByte (f : Flags) : UInt8 := ((initFlags f).toNat / 256).toUInt8

theorem reach_new : (new none).cfg.flags ∈ reachable := by decide
theorem reach_setBit2 : ∀ f ∈ reachable, ∀ b, contentChecksumSet f b ∈ reachable := by decide
theorem reach_setBit3 : ∀ f ∈ reachable, ∀ b, sizeSet f b ∈ reachable := by decide
theorem reach_setBit4 : ∀ f ∈ reachable, ∀ b, blockChecksumSet f b ∈ reachable := by decide
theorem reach_idx : ∀ f ∈ reachable, ∀ i ∈ [4, 5, 6, 7], blockSizeIndexSet f (Nat.toUInt16 i) ∈ reachable := by decide
theorem reach_idx_range : ∀ f ∈ reachable, 4 ≤ blockSizeIndex f ∧ blockSizeIndex f ≤ 7 := by decide

theorem init_flagSize : ∀ f ∈ reachable, flagSize (initFlags f) = flagSize f := by decide
theorem init_flagBC : ∀ f ∈ reachable, flagBlockChecksum (initFlags f) = flagBlockChecksum f := by decide
theorem init_flagCC : ∀ f ∈ reachable, flagContentChecksum (initFlags f) = flagContentChecksum f := by decide
theorem init_idx : ∀ f ∈ reachable, blockSizeIndex (initFlags f) = blockSizeIndex f := by decide

theorem flg_size : ∀ f ∈ reachable, decide ((flgByte f).toNat / 8 % 2 = 1) = flagSize f := by decide
theorem flg_bc : ∀ f ∈ reachable, decide ((flgByte f).toNat / 16 % 2 = 1) = flagBlockChecksum f := by decide
theorem flg_cc : ∀ f ∈ reachable, decide ((flgByte f).toNat / 4 % 2 = 1) = flagContentChecksum f := by decide
theorem flg_fixed : ∀ f ∈ reachable, (flgByte f).toNat / 64 = 1 ∧ (flgByte f).toNat / 32 % 2 = 1 ∧
    (flgByte f).toNat / 2 % 2 = 0 ∧ (flgByte f).toNat % 2 = 0 ∧ (bdByte f).toNat / 128 = 0 ∧
    (bdByte f).toNat % 16 = 0 := by decide
theorem bd_idx : ∀ f ∈ reachable, (bdByte f).toNat / 16 % 8 = blockSizeIndex f := by decide

/-! ## the frame header -/

/-- the frame parameters the configuration `cfg` (before `init`) announces -/
def infoOf (cfg : Cfg) : Info :=
  { version := 1, blockIndep := true, blockChecksum := flagBlockChecksum cfg.flags,
    contentChecksum := flagContentChecksum cfg.flags,
    contentSize := if flagSize cfg.flags then some cfg.contentSize else none,
    blockMax := poolSize (blockSizeIndex cfg.flags) }

/-- FLG, BD, optional content size -/
def descOf (cfg : Cfg) : Array UInt8 :=
  #[flgByte cfg.flags, bdByte cfg.flags] ++ (if flagSize (initFlags cfg.flags) then le64 cfg.contentSize else #[])

def hcOf (cfg : Cfg) : UInt8 := ((XXH.checksumZero (descOf cfg).toList).toNat / 256 % 256).toUInt8

theorem blockMaxOf_pool (i : Nat) (h4 : 4 ≤ i) (h7 : i ≤ 7) :
    Spec.Frame.blockMaxOf i = some (poolSize i) := by
  have : i = 4 ∨ i = 5 ∨ i = 6 ∨ i = 7 := by omega
  rcases this with h | h | h | h <;> subst h <;> rfl

theorem header_ok (cfg : Cfg) (hf : cfg.flags ∈ reachable)
    (hcs : cfg.contentSize < 2 ^ 64) (rest : List UInt8) :
    header ((descOf cfg).toList ++ hcOf cfg :: rest) true = .ok (infoOf cfg, rest) := by
  have hs := flg_size _ hf
  have hbc := flg_bc _ hf
  have hcc := flg_cc _ hf
  obtain ⟨hv, hi, hr1, hr0, hb7, hb0⟩ := flg_fixed _ hf
  have hbd := bd_idx _ hf
  have his := init_flagSize _ hf
  have hrng := reach_idx_range _ hf
  have hc : (hcOf cfg).toNat = (Spec.XXH32.xxh32 (descOf cfg).toList).toNat / 256 % 256 := by
    unfold hcOf
    rw [Props.C13.oneshot, toUInt8_toNat _ (by omega)]
  have hbm := blockMaxOf_pool _ hrng.1 hrng.2
  cases hsz : flagSize cfg.flags with
  | false =>
    rw [hsz] at hs his
    have hs' : ¬ ((flgByte cfg.flags).toNat / 8 % 2 = 1) := by simpa using hs
    have hd : descOf cfg = #[flgByte cfg.flags, bdByte cfg.flags] := by simp [descOf, his]
    rw [hd] at hc ⊢
    simp only [List.cons_append, List.nil_append, header, if_neg hs']
    simp only [hc, hbd, hbm, hv, hr1, hr0, hb7, hb0, hi]
    simp [infoOf, hsz, ← hbc, ← hcc]
  | true =>
    rw [hsz] at hs his
    have hs' : ((flgByte cfg.flags).toNat / 8 % 2 = 1) := by simpa using hs
    have hd : descOf cfg = #[flgByte cfg.flags, bdByte cfg.flags] ++ le64 cfg.contentSize := by simp [descOf, his]
    rw [hd] at hc ⊢
    simp only [Array.toList_append, List.cons_append, List.nil_append, header, if_pos hs']
    rw [u64_le64 _ hcs]
    have htk : List.take 8 ((le64 cfg.contentSize).toList ++ hcOf cfg :: rest) = (le64 cfg.contentSize).toList :=
      List.take_left' (by simp [le64_size])
    simp only [Option.map, htk]
    simp only [Array.toList_append, List.cons_append, List.nil_append] at hc
    simp only [hc, hbd, hbm, hv, hr1, hr0, hb7, hb0, hi]
    simp [infoOf, hsz, ← hbc, ← hcc]

/-! ## data blocks -/

/-- `bs` is one data block that the specification reads as `src` -/
def Step (info : Info) (bs : List UInt8) (src : Array UInt8) : Prop :=
  ∀ fuel rest acc, blocks info (fuel + 1) (bs ++ rest) acc = blocks info fuel rest (acc ++ src)

/-- `bs` is `k` data blocks that the specification reads as `content` -/
def Run (info : Info) (bs : List UInt8) (content : Array UInt8) (k : Nat) : Prop :=
  ∀ fuel rest acc, blocks info (fuel + k) (bs ++ rest) acc = blocks info fuel rest (acc ++ content)

theorem Run.nil (info : Info) : Run info [] #[] 0 := by
  intro fuel rest acc; simp

theorem Run.snoc {info : Info} {bs bs' : List UInt8} {c src : Array UInt8} {k : Nat}
    (h : Run info bs c k) (h' : Step info bs' src) : Run info (bs ++ bs') (c ++ src) (k + 1) := by
  intro fuel rest acc
  have := h (fuel + 1) (bs' ++ rest) acc
  rw [List.append_assoc, show fuel + (k + 1) = fuel + 1 + k by omega, this, h' fuel rest, Array.append_assoc]

/-- the bytes of one data block as `FrameDataBlock.Write` emits them -/
def blockBytes (raw : Bool) (data : Array UInt8) (bc : Bool) : List UInt8 :=
  (le32 (data.size % 2147483648 + (if raw then 2147483648 else 0))).toList ++ (data.toList ++
    (if bc then (le32 (XXH.checksumZero data.toList).toNat).toList else []))

theorem blockBytes_length (raw : Bool) (data : Array UInt8) (bc : Bool) :
    1 ≤ (blockBytes raw data bc).length := by
  simp [blockBytes, le32_size]; omega

theorem u32_ck (data : Array UInt8) (rest : List UInt8) :
    u32 ((le32 (XXH.checksumZero data.toList).toNat).toList ++ rest) = some (Spec.Frame.xxh data, rest) := by
  rw [u32_le32 _ (XXH.checksumZero data.toList).toNat_lt]
  simp [Spec.Frame.xxh, Props.C13.oneshot]

theorem step_raw (info : Info) (data : Array UInt8) (h0 : 0 < data.size) (h1 : data.size ≤ info.blockMax)
    (h2 : data.size < 2147483648) : Step info (blockBytes true data info.blockChecksum) data := by
  intro fuel rest acc
  rw [blocks]
  simp only [blockBytes, List.append_assoc, if_true]
  rw [u32_le32 _ (by omega)]
  simp only
  have e1 : (data.size % 2147483648 + 2147483648) % 2147483648 = data.size := by omega
  have e2 : ¬ (data.size % 2147483648 + 2147483648 = 0) := by omega
  have e3 : data.size % 2147483648 + 2147483648 ≥ 2147483648 := by omega
  rw [if_neg e2, e1, if_neg (by omega), splitN_array]
  cases hbc : info.blockChecksum <;>
    simp only [Bool.false_eq_true, if_false, if_true, List.nil_append, u32_ck, if_pos e3]

theorem step_comp (info : Info) (data src : Array UInt8) (hi : info.blockIndep = true)
    (h1 : data.size ≤ info.blockMax) (h2 : data.size < 2147483648)
    (hd : Spec.Block.decode data.toList [] info.blockMax = some src) :
    Step info (blockBytes false data info.blockChecksum) src := by
  intro fuel rest acc
  have h0 : 0 < data.size := by
    cases hsz : data.size with
    | zero =>
      have : data = #[] := Array.eq_empty_of_size_eq_zero hsz
      rw [this] at hd; simp [decode_nil] at hd
    | succ n => omega
  rw [blocks]
  simp only [blockBytes, List.append_assoc]
  rw [u32_le32 _ (by simp; omega)]
  simp only [Bool.false_eq_true, if_false, Nat.add_zero]
  have e1 : data.size % 2147483648 = data.size := by omega
  have e3 : ¬ data.size ≥ 2147483648 := by omega
  rw [e1, e1, if_neg (by omega), if_neg (by omega), splitN_array]
  cases hbc : info.blockChecksum <;>
    simp only [Bool.false_eq_true, if_false, if_true, List.nil_append, u32_ck, if_neg e3, hi, hd]

/-! ## `FrameDataBlock.Compress` + `Write` -/

/-- what the Writer needs from a block compressor at level `level` -/
def CompOK (level : Nat) : Prop := ∀ (src : Array UInt8) (dstLen : Nat) (d : Array UInt8),
  compressBlock src dstLen level = some d →
    d.size ≤ dstLen ∧ Spec.Block.decode d.toList [] src.size = some src

/-- correctness of the HC block compressor (hypothesis of C09, proved separately) -/
def HCCorrect : Prop := ∀ (src dst : Array UInt8) (depth : Nat),
  match HC.compressBlock src dst depth with
  | .ok n d => 0 < n ∧ n ≤ dst.size ∧ Spec.Block.decode (d.extract 0 n).toList [] src.size = some src
  | _ => True

theorem compOK_fast : CompOK 0 := by
  intro src dstLen d h
  unfold compressBlock at h
  simp only [if_true] at h
  have h11 := Props.C01fast.c11_fast src (Array.replicate dstLen 0)
  cases hr : Fast.compressBlock src (Array.replicate dstLen 0) with
  | ok n d' =>
    rw [hr] at h h11
    simp only [Option.some.injEq] at h
    subst h
    obtain ⟨_, hn, hsz, hdec, _⟩ := h11
    refine ⟨?_, hdec⟩
    simp only [Array.size_extract, Array.size_replicate] at *
    omega
  | zero => rw [hr] at h; simp at h
  | err => rw [hr] at h; simp at h
  | panic => rw [hr] at h; simp at h

theorem compOK_hc (hHC : HCCorrect) (level : Nat) (hl : level ≠ 0) : CompOK level := by
  intro src dstLen d h
  unfold compressBlock at h
  simp only [if_neg hl] at h
  have h11 := hHC src (Array.replicate dstLen 0) level
  cases hr : HC.compressBlock src (Array.replicate dstLen 0) level with
  | ok n d' =>
    rw [hr] at h h11
    simp only [Option.some.injEq] at h
    subst h
    obtain ⟨_, hn, hdec⟩ := h11
    refine ⟨?_, hdec⟩
    simp only [Array.size_extract, Array.size_replicate] at *
    omega
  | zero => rw [hr] at h; simp at h
  | err => rw [hr] at h; simp at h
  | panic => rw [hr] at h; simp at h

theorem compOK_any (hHC : HCCorrect) (level : Nat) : CompOK level := by
  by_cases hl : level = 0
  · subst hl; exact compOK_fast
  · exact compOK_hc hHC level hl

theorem poolSize_bounds (i : Nat) (h4 : 4 ≤ i) (h7 : i ≤ 7) : 0 < poolSize i ∧ poolSize i ≤ 4194304 := by
  have : i = 4 ∨ i = 5 ∨ i = 6 ∨ i = 7 := by omega
  rcases this with h | h | h | h <;> subst h <;> decide

/-- the fixed data of one frame: the configuration after `init` and the parameters the
specification reads from the header -/
structure Ctx (cfg1 : Cfg) (info : Info) : Prop where
  indep : info.blockIndep = true
  bc : info.blockChecksum = flagBlockChecksum cfg1.flags
  bm : info.blockMax = poolSize (blockSizeIndex cfg1.flags)
  idx4 : 4 ≤ blockSizeIndex cfg1.flags
  idx7 : blockSizeIndex cfg1.flags ≤ 7
  comp : CompOK cfg1.level

theorem writeBlock_ok {cfg1 : Cfg} {info : Info} (ctx : Ctx cfg1 info) (cks : XXH.State) (sink : Sink)
    (src : Array UInt8) (hfa : sink.failAt = none) (h0 : 0 < src.size)
    (h1 : src.size ≤ poolSize (blockSizeIndex cfg1.flags)) :
    ∃ sink' bs, writeBlock cfg1 false cks sink src =
        (sink', (if flagContentChecksum cfg1.flags then XXH.write cks src.toList else cks), none) ∧
      sink'.failAt = none ∧ sink'.bytes.toList = sink.bytes.toList ++ bs ∧ Step info bs src ∧
      1 ≤ bs.length := by
  have hp := poolSize_bounds _ ctx.idx4 ctx.idx7
  have hmin : min src.size (poolSize (blockSizeIndex cfg1.flags)) = src.size := by omega
  unfold writeBlock
  simp only [Bool.false_eq_true, if_false, false_or]
  cases hc : compressBlock src (min src.size (poolSize (blockSizeIndex cfg1.flags))) cfg1.level with
  | none =>
    have hst : Step info (blockBytes true src (flagBlockChecksum cfg1.flags)) src := by
      rw [← ctx.bc]
      exact step_raw info src h0 (by rw [ctx.bm]; exact h1) (by omega)
    simp only [sink_write, hfa]
    cases hbc : flagBlockChecksum cfg1.flags <;>
      simp only [Bool.false_eq_true, not_false_eq_true, not_true_eq_false, if_false, if_true] <;>
      refine ⟨_, blockBytes true src (flagBlockChecksum cfg1.flags), rfl, rfl, ?_, hst,
        blockBytes_length _ _ _⟩ <;>
      simp [Sink.bytes, blockBytes, hbc]
  | some d =>
    have hst : Step info (blockBytes false d (flagBlockChecksum cfg1.flags)) src := by
      obtain ⟨hsz, hdec⟩ := ctx.comp _ _ _ hc
      rw [← ctx.bc]
      refine step_comp info d src ctx.indep (by rw [ctx.bm]; omega) (by omega) ?_
      exact decode_mono _ _ _ _ _ (by rw [ctx.bm]; exact h1) hdec
    simp only [sink_write, hfa]
    cases hbc : flagBlockChecksum cfg1.flags <;>
      simp only [Bool.false_eq_true, not_false_eq_true, not_true_eq_false, if_false, if_true] <;>
      refine ⟨_, blockBytes false d (flagBlockChecksum cfg1.flags), rfl, rfl, ?_, hst,
        blockBytes_length _ _ _⟩ <;>
      simp [Sink.bytes, blockBytes, hbc]

/-! ## the Writer invariant -/

/-- the streaming content checksum has seen exactly `content` since the last reset -/
def CksOK (cfg1 : Cfg) (cks : XXH.State) (content : Array UInt8) : Prop :=
  flagContentChecksum cfg1.flags = true →
    ∃ s0 L, cks = List.foldl XXH.write (XXH.reset s0) L ∧ L.flatten = content.toList

/-- the part of the invariant that does not mention `pending`: the sink holds the header and
blocks that the specification reads as `content` -/
structure Core (cfg1 : Cfg) (info : Info) (hdr : List UInt8) (w : W) (content : Array UInt8) : Prop where
  cfg : w.cfg = cfg1
  ml : w.magicLegacy = false
  dfr : w.deferred = none
  fa : w.sink.failAt = none
  bsz : w.bufSize = poolSize (blockSizeIndex cfg1.flags)
  ex : ∃ bs k, w.sink.bytes.toList = hdr ++ bs ∧ Run info bs content k ∧ k ≤ bs.length
  cks : CksOK cfg1 w.cks content

theorem cksOK_step {cfg1 : Cfg} {cks : XXH.State} {content : Array UInt8} (src : Array UInt8)
    (h : CksOK cfg1 cks content) :
    CksOK cfg1 (if flagContentChecksum cfg1.flags then XXH.write cks src.toList else cks) (content ++ src) := by
  intro hcc
  obtain ⟨s0, L, h1, h2⟩ := h hcc
  refine ⟨s0, L ++ [src.toList], ?_, ?_⟩
  · simp [hcc, h1]
  · simp [h2]

theorem writeOne_ok {cfg1 : Cfg} {info : Info} {hdr : List UInt8} (ctx : Ctx cfg1 info) (w : W)
    (content src : Array UInt8) (h : Core cfg1 info hdr w content) (h0 : 0 < src.size)
    (h1 : src.size ≤ w.bufSize) :
    ∃ w', writeOne w src = (w', none) ∧ Core cfg1 info hdr w' (content ++ src) ∧
      w'.pending = w.pending ∧ w'.st = w.st ∧ w'.err = w.err ∧ w'.bufSize = w.bufSize := by
  obtain ⟨sink', bs', hwb, hfa', hbytes, hstep, hlen⟩ :=
    writeBlock_ok ctx w.cks w.sink src h.fa h0 (by rw [← h.bsz]; exact h1)
  obtain ⟨bs, k, hb, hrun, hk⟩ := h.ex
  have hcore : Core cfg1 info hdr
      ({ w with sink := sink', cks := (if flagContentChecksum cfg1.flags then XXH.write w.cks src.toList else w.cks) } : W)
      (content ++ src) :=
    { cfg := h.cfg, ml := h.ml, dfr := h.dfr, fa := hfa', bsz := h.bsz,
      ex := ⟨bs ++ bs', k + 1, by rw [hbytes, hb, List.append_assoc], hrun.snoc hstep, by
        rw [List.length_append]; omega⟩,
      cks := cksOK_step src h.cks }
  have hwb' : writeBlock w.cfg w.magicLegacy w.cks w.sink src =
      (sink', (if flagContentChecksum cfg1.flags then XXH.write w.cks src.toList else w.cks), none) := by
    rw [h.cfg, h.ml]; exact hwb
  unfold writeOne
  rw [hwb']
  by_cases hn : w.cfg.num = 1
  · simp only [hn, if_true]
    exact ⟨_, rfl, hcore, rfl, rfl, rfl, rfl⟩
  · simp only [hn, if_false, h.dfr]
    refine ⟨_, rfl, ?_, rfl, rfl, rfl, rfl⟩
    exact { cfg := h.cfg, ml := h.ml, dfr := rfl, fa := hfa', bsz := h.bsz, ex := hcore.ex, cks := hcore.cks }

/-! ## `Writer.Write` -/

theorem extract_split (buf : Array UInt8) (a b : Nat) (hab : a ≤ b) (hb : b ≤ buf.size) :
    buf.extract a b ++ buf.extract b buf.size = buf.extract a buf.size := by
  rw [Array.extract_append_extract, Nat.min_eq_left hab, Nat.max_eq_right hb]

theorem Core.pending {cfg1 : Cfg} {info : Info} {hdr : List UInt8} {w : W} {content : Array UInt8}
    (h : Core cfg1 info hdr w content) (p : Array UInt8) :
    Core cfg1 info hdr { w with pending := p } content :=
  { cfg := h.cfg, ml := h.ml, dfr := h.dfr, fa := h.fa, bsz := h.bsz, ex := h.ex, cks := h.cks }

theorem writeLoop_ok {cfg1 : Cfg} {info : Info} {hdr : List UInt8} (ctx : Ctx cfg1 info)
    (buf : Array UInt8) (fuel : Nat) : ∀ (w : W) (off n : Nat) (content : Array UInt8),
    Core cfg1 info hdr w content → w.pending.size < w.bufSize → buf.size - off < fuel →
    ∃ w' n' content', writeLoop w buf off n fuel = (w', n', none) ∧ Core cfg1 info hdr w' content' ∧
      w'.pending.size < w'.bufSize ∧
      content' ++ w'.pending = content ++ w.pending ++ buf.extract off buf.size ∧
      w'.st = w.st ∧ w'.err = w.err := by
  induction fuel with
  | zero => intro w off n content _ _ hf; omega
  | succ fuel ih =>
    intro w off n content hc hp hf
    rw [writeLoop]
    by_cases hoff : off ≥ buf.size
    · rw [if_pos hoff]
      refine ⟨w, n, content, rfl, hc, hp, ?_, rfl, rfl⟩
      rw [Array.extract_empty_of_size_le_start hoff, Array.append_empty]
    · rw [if_neg hoff]
      simp only
      by_cases hA : w.cfg.num = 1 ∧ w.pending.size = 0 ∧ buf.size - off ≥ w.bufSize
      · rw [if_pos hA]
        obtain ⟨_, hp0, hge⟩ := hA
        have hsz : (buf.extract off (off + w.bufSize)).size = w.bufSize := by
          rw [Array.size_extract]; omega
        obtain ⟨w1, hw1, hc1, hp1, hst1, he1, hb1⟩ :=
          writeOne_ok ctx w content (buf.extract off (off + w.bufSize)) hc (by omega) (by omega)
        rw [hw1]
        simp only
        obtain ⟨w', n', content', hr, hc', hp', hcat, hst', he'⟩ :=
          ih w1 (off + w.bufSize) (n + w.bufSize) _ hc1 (by rw [hp1, hb1]; exact hp) (by omega)
        refine ⟨w', n', content', hr, hc', hp', ?_, by rw [hst', hst1], by rw [he', he1]⟩
        rw [hcat, hp1]
        have : w.pending = #[] := Array.eq_empty_of_size_eq_zero hp0
        rw [this, Array.append_empty, Array.append_empty, Array.append_assoc,
          extract_split buf off (off + w.bufSize) (by omega) (by omega)]
      · rw [if_neg hA]
        have hmpos : 0 < min (w.bufSize - w.pending.size) (buf.size - off) := by omega
        have hsz : (buf.extract off (off + min (w.bufSize - w.pending.size) (buf.size - off))).size =
            min (w.bufSize - w.pending.size) (buf.size - off) := by
          rw [Array.size_extract]; omega
        generalize hm : min (w.bufSize - w.pending.size) (buf.size - off) = m at hmpos hsz ⊢
        by_cases hB : (w.pending ++ buf.extract off (off + m)).size < w.bufSize
        · rw [if_pos hB]
          refine ⟨_, _, content, rfl, hc.pending _, hB, ?_, rfl, rfl⟩
          rw [Array.size_append, hsz] at hB
          have : off + m = buf.size := by omega
          rw [this, Array.append_assoc]
        · rw [if_neg hB]
          rw [Array.size_append, hsz] at hB
          obtain ⟨w1, hw1, hc1, hp1, hst1, he1, hb1⟩ :=
            writeOne_ok ctx { w with pending := w.pending ++ buf.extract off (off + m) } content
              (w.pending ++ buf.extract off (off + m)) (hc.pending _)
              (by rw [Array.size_append, hsz]; omega) (by rw [Array.size_append, hsz]; show _ ≤ w.bufSize; omega)
          rw [hw1]
          simp only
          obtain ⟨w', n', content', hr, hc', hp', hcat, hst', he'⟩ :=
            ih { w1 with pending := #[] } (off + m) (n + m) _ (hc1.pending _)
              (by show 0 < w1.bufSize; rw [hb1]; show 0 < w.bufSize; omega) (by omega)
          refine ⟨w', n', content', hr, hc', hp', ?_, by rw [hst', hst1], by rw [he', he1]⟩
          rw [hcat]
          simp only [Array.append_empty]
          rw [Array.append_assoc, Array.append_assoc, Array.append_assoc,
            extract_split buf off (off + m) (by omega) (by omega)]

/-! ## `Writer.init` -/

/-- the configuration after `init` (non-legacy): version 1, independent blocks -/
def cfgInit (cfg : Cfg) : Cfg := { cfg with flags := initFlags cfg.flags }

/-- magic, descriptor, header checksum -/
def hdrOf (cfg : Cfg) : List UInt8 := (le32 frameMagic).toList ++ ((descOf cfg).toList ++ [hcOf cfg])

/-- a Writer on which `init` has not run yet: fresh all-accepting sink -/
structure Pre (w : W) : Prop where
  st : w.st = stNew
  nl : w.cfg.legacy = false
  fa : w.sink.failAt = none
  bytes : w.sink.bytes = #[]
  reach : w.cfg.flags ∈ reachable

theorem ctx_of (cfg : Cfg) (hf : cfg.flags ∈ reachable)
    (hcomp : CompOK cfg.level) : Ctx (cfgInit cfg) (infoOf cfg) :=
  { indep := rfl
    bc := (init_flagBC _ hf).symm
    bm := by show poolSize _ = poolSize (blockSizeIndex (initFlags cfg.flags)); rw [init_idx _ hf]
    idx4 := by show 4 ≤ blockSizeIndex (initFlags cfg.flags); rw [init_idx _ hf]; exact (reach_idx_range _ hf).1
    idx7 := by show blockSizeIndex (initFlags cfg.flags) ≤ 7; rw [init_idx _ hf]; exact (reach_idx_range _ hf).2
    comp := hcomp }

theorem init_ok (w : W) (hp : Pre w) :
    ∃ w1, init w = (w1, none) ∧ Core (cfgInit w.cfg) (infoOf w.cfg) (hdrOf w.cfg) w1 #[] ∧
      w1.pending = #[] ∧ w1.st = w.st ∧ w1.err = w.err := by
  obtain ⟨hst, hnl, hfa, hby, hre⟩ := hp
  rcases w with ⟨⟨fl, cs, lv, nm, lg⟩, st, err, flags, ml, pend, bsz, cks, dfr, sink⟩
  simp only at hst hnl hfa hby hre
  subst hnl
  unfold init
  simp only [Bool.false_eq_true, if_false, sink_write _ _ hfa]
  refine ⟨_, rfl, ?_, rfl, rfl, rfl⟩
  refine
    { cfg := rfl, ml := rfl, dfr := rfl, fa := hfa, bsz := rfl
      ex := ⟨[], 0, ?_, Run.nil _, Nat.le_refl _⟩
      cks := fun _ => ⟨cks, [], rfl, by simp⟩ }
  simp only [Sink.bytes, List.append_nil] at hby ⊢
  rw [Array.foldl_push, hby, Array.empty_append]
  simp only [hdrOf, hcOf, descOf, Array.toList_append, List.append_assoc]
  rfl

/-! ## `Writer.Write`, `Flush`, `Close` on the state machine -/

/-- a Writer in the middle of a frame: `data` is everything accepted so far -/
def Inv (cfg1 : Cfg) (info : Info) (hdr : List UInt8) (w : W) (data : Array UInt8) : Prop :=
  w.st = stWrite ∧ ∃ content, Core cfg1 info hdr w content ∧ w.pending.size < w.bufSize ∧
    content ++ w.pending = data

theorem check_none (w : W) : check w none = w := by
  unfold check; split <;> rfl

theorem writeLoop_inv {cfg1 : Cfg} {info : Info} {hdr : List UInt8} (ctx : Ctx cfg1 info) (w : W)
    (data buf : Array UInt8) (h : Inv cfg1 info hdr w data) :
    ∃ w' n, writeLoop w buf 0 0 (buf.size + 2) = (w', n, none) ∧ Inv cfg1 info hdr w' (data ++ buf) := by
  obtain ⟨hst, content, hc, hp, hd⟩ := h
  obtain ⟨w', n', content', hr, hc', hp', hcat, hst', _⟩ :=
    writeLoop_ok ctx buf (buf.size + 2) w 0 0 content hc hp (by omega)
  refine ⟨w', n', hr, by rw [hst', hst], content', hc', hp', ?_⟩
  rw [hcat, hd]
  simp

theorem write_write {cfg1 : Cfg} {info : Info} {hdr : List UInt8} (ctx : Ctx cfg1 info) (w : W)
    (data buf : Array UInt8) (h : Inv cfg1 info hdr w data) :
    ∃ w' n, write w buf = (w', n, none) ∧ Inv cfg1 info hdr w' (data ++ buf) := by
  obtain ⟨w', n, hr, hinv⟩ := writeLoop_inv ctx w data buf h
  unfold write
  simp only [h.1, if_true, hr, check_none]
  exact ⟨w', n, rfl, hinv⟩

theorem pre_started (w : W) (hp : Pre w) (ctx : Ctx (cfgInit w.cfg) (infoOf w.cfg)) :
    ∃ w2 : W × W, init w = (w2.1, none) ∧ next w2.1 none = (w2.2, false) ∧
      Inv (cfgInit w.cfg) (infoOf w.cfg) (hdrOf w.cfg) w2.2 #[] ∧ w2.2.pending = #[] := by
  obtain ⟨w1, hi, hc, hpe, hst, _⟩ := init_ok w hp
  refine ⟨(w1, { w1 with st := writerStates w1.st }), hi, rfl, ?_, hpe⟩
  refine ⟨by show writerStates w1.st = stWrite; rw [hst, hp.st]; decide, #[], ?_, ?_, ?_⟩
  · exact { cfg := hc.cfg, ml := hc.ml, dfr := hc.dfr, fa := hc.fa, bsz := hc.bsz, ex := hc.ex, cks := hc.cks }
  · show w1.pending.size < w1.bufSize
    rw [hpe, hc.bsz]
    exact (poolSize_bounds _ ctx.idx4 ctx.idx7).1
  · show #[] ++ w1.pending = #[]
    rw [hpe]; rfl

theorem write_new (w : W) (hp : Pre w) (ctx : Ctx (cfgInit w.cfg) (infoOf w.cfg)) (buf : Array UInt8) :
    ∃ w' n, write w buf = (w', n, none) ∧ Inv (cfgInit w.cfg) (infoOf w.cfg) (hdrOf w.cfg) w' buf := by
  obtain ⟨⟨w1, w2⟩, hi, hn, hinv, _⟩ := pre_started w hp ctx
  obtain ⟨w', n, hr, hinv'⟩ := writeLoop_inv ctx w2 #[] buf hinv
  unfold write
  simp only [hp.st, if_true, if_false, hi, hn, Bool.false_eq_true, hr, check_none]
  refine ⟨w', n, rfl, ?_⟩
  rw [Array.empty_append] at hinv'
  exact hinv'

/-- `Flush` in the middle of a frame -/
theorem flush_go {cfg1 : Cfg} {info : Info} {hdr : List UInt8} (ctx : Ctx cfg1 info) (w : W)
    (data : Array UInt8) (h : Inv cfg1 info hdr w data) :
    ∃ w', flush w = (w', none) ∧ Core cfg1 info hdr w' data ∧ w'.st = stWrite := by
  obtain ⟨hst, content, hc, hp, hd⟩ := h
  unfold flush
  simp only [hst, if_true]
  by_cases hpos : w.pending.size > 0
  · obtain ⟨w1, hw1, hc1, _, hst1, _, _⟩ := writeOne_ok ctx w content w.pending hc hpos (by omega)
    rw [if_pos hpos, hw1]
    refine ⟨_, rfl, ?_, by show w1.st = stWrite; rw [hst1, hst]⟩
    rw [← hd]
    exact hc1.pending _
  · rw [if_neg hpos]
    refine ⟨w, rfl, ?_, hst⟩
    have : w.pending = #[] := Array.eq_empty_of_size_eq_zero (by omega)
    rw [← hd, this, Array.append_empty]
    exact hc

/-- the sink after `CloseW`: end mark and content checksum -/
def tailOf (cfg1 : Cfg) (cks : XXH.State) : List UInt8 :=
  (le32 0).toList ++ (if flagContentChecksum cfg1.flags then (le32 (XXH.sum32 cks).toNat).toList else [])

/-- what a clean `Close` leaves in the sink -/
def Final (cfg1 : Cfg) (info : Info) (hdr : List UInt8) (w : W) (data : Array UInt8) : Prop :=
  ∃ bs k cks, w.sink.bytes.toList = hdr ++ (bs ++ tailOf cfg1 cks) ∧ Run info bs data k ∧ k ≤ bs.length ∧
    CksOK cfg1 cks data

theorem closeW_ok {cfg1 : Cfg} {info : Info} {hdr : List UInt8} (w : W)
    (data : Array UInt8) (hc : Core cfg1 info hdr w data) :
    ∃ w', closeW w = (w', none) ∧ Final cfg1 info hdr w' data ∧ w'.st = w.st := by
  obtain ⟨bs, k, hb, hrun, hk⟩ := hc.ex
  unfold closeW
  simp only [hc.dfr, hc.ml, Bool.false_eq_true, if_false, sink_write _ _ hc.fa]
  refine ⟨_, rfl, ⟨bs, k, w.cks, ?_, hrun, hk, hc.cks⟩, rfl⟩
  have := hb
  simp only [Sink.bytes] at this ⊢
  rw [Array.foldl_push, Array.toList_append, this, hc.cfg, List.append_assoc]
  congr 2
  unfold tailOf
  split <;> simp

/-! ## `Writer.Close` and whole sessions -/

theorem close_write {cfg1 : Cfg} {info : Info} {hdr : List UInt8} (ctx : Ctx cfg1 info) (w : W)
    (data : Array UInt8) (h : Inv cfg1 info hdr w data) :
    ∃ w', close w = (w', none) ∧ Final cfg1 info hdr w' data := by
  obtain ⟨w1, hf, hc1, hst1⟩ := flush_go ctx w data h
  obtain ⟨w2, hcw, hfin, _⟩ := closeW_ok w1 data hc1
  have hne : ¬ (w.st = stClosed) := by rw [h.1]; decide
  unfold close
  simp only [hne, if_false, hf, hcw, next]
  exact ⟨_, rfl, hfin⟩

theorem flush_new (w : W) (hp : Pre w) (ctx : Ctx (cfgInit w.cfg) (infoOf w.cfg)) :
    ∃ w', flush w = (w', none) ∧ Core (cfgInit w.cfg) (infoOf w.cfg) (hdrOf w.cfg) w' #[] := by
  obtain ⟨⟨w1, w2⟩, hi, hn, hinv, hpe⟩ := pre_started w hp ctx
  obtain ⟨_, content, hc, _, hd⟩ := hinv
  simp only at hi hn hpe hc hd
  have hsz : ¬ (w2.pending.size > 0) := by rw [hpe]; simp
  unfold flush
  simp only [hp.st, if_true, hi, hn, Bool.false_eq_true, if_false, hsz]
  refine ⟨w2, ?_, ?_⟩
  · simp [stNew, stWrite, stError]
  · rw [hpe, Array.append_empty] at hd
    rw [← hd]; exact hc

theorem close_new (w : W) (hp : Pre w) (ctx : Ctx (cfgInit w.cfg) (infoOf w.cfg)) :
    ∃ w', close w = (w', none) ∧ Final (cfgInit w.cfg) (infoOf w.cfg) (hdrOf w.cfg) w' #[] := by
  obtain ⟨w1, hf, hc1⟩ := flush_new w hp ctx
  obtain ⟨w2, hcw, hfin, _⟩ := closeW_ok w1 #[] hc1
  have hne : ¬ (w.st = stClosed) := by rw [hp.st]; decide
  unfold close
  simp only [hne, if_false, hf, hcw, next]
  exact ⟨_, rfl, hfin⟩

theorem session_go {cfg1 : Cfg} {info : Info} {hdr : List UInt8} (ctx : Ctx cfg1 info)
    (chunks : List (Array UInt8)) : ∀ (w : W) (data : Array UInt8), Inv cfg1 info hdr w data →
    ∃ w', Run.writeSession.go w chunks = (w', none) ∧
      Final cfg1 info hdr w' (chunks.foldl (· ++ ·) data) := by
  induction chunks with
  | nil =>
    intro w data h
    simp only [Run.writeSession.go, List.foldl_nil]
    exact close_write ctx w data h
  | cons c cs ih =>
    intro w data h
    obtain ⟨w1, n, hw, hinv⟩ := write_write ctx w data c h
    simp only [Run.writeSession.go, hw, List.foldl_cons]
    exact ih w1 _ hinv

theorem session_pre (w : W) (hp : Pre w) (ctx : Ctx (cfgInit w.cfg) (infoOf w.cfg))
    (chunks : List (Array UInt8)) :
    ∃ w', Run.writeSession.go w chunks = (w', none) ∧
      Final (cfgInit w.cfg) (infoOf w.cfg) (hdrOf w.cfg) w' (Run.concat chunks) := by
  cases chunks with
  | nil =>
    simp only [Run.writeSession.go, Run.concat, List.foldl_nil]
    exact close_new w hp ctx
  | cons c cs =>
    obtain ⟨w1, n, hw, hinv⟩ := write_new w hp ctx c
    simp only [Run.writeSession.go, hw, Run.concat, List.foldl_cons, Array.empty_append]
    exact session_go ctx cs w1 c hinv

/-! ## `NewWriter` + `Apply` -/

theorem indexOf_mem (n : Nat) (h : indexOf n = 4 ∨ indexOf n = 5 ∨ indexOf n = 6 ∨ indexOf n = 7) :
    indexOf n ∈ [4, 5, 6, 7] := by
  simp only [List.mem_cons, List.not_mem_nil, or_false]
  exact h

theorem applyOne_reach (c c' : Cfg) (o : Opt) (hc : c.flags ∈ reachable) (h : applyOne c o = .ok c') :
    c'.flags ∈ reachable := by
  cases o with
  | blockSize n =>
    simp only [applyOne] at h
    split at h
    · rename_i hi
      cases h
      exact reach_idx _ hc _ (indexOf_mem n hi)
    · cases h
  | blockChecksum b => simp only [applyOne] at h; cases h; exact reach_setBit4 _ hc b
  | checksum b => simp only [applyOne] at h; cases h; exact reach_setBit2 _ hc b
  | size n => simp only [applyOne] at h; cases h; exact reach_setBit3 _ hc _
  | concurrency n => simp only [applyOne] at h; cases h; exact hc
  | level n =>
    simp only [applyOne] at h
    split at h
    · cases h; exact hc
    · cases h
  | legacy b => simp only [applyOne] at h; cases h; exact hc

theorem apply_go_reach (opts : List Opt) : ∀ c : Cfg, c.flags ∈ reachable →
    (apply.go c opts).1.flags ∈ reachable := by
  induction opts with
  | nil => intro c hc; exact hc
  | cons o os ih =>
    intro c hc
    simp only [apply.go]
    cases h : applyOne c o with
    | ok c' => exact ih c' (applyOne_reach c c' o hc h)
    | error e => exact hc

/-- the configuration after `NewWriter` + `Apply(opts)` -/
def cfgOf (opts : List Opt) : Cfg := (apply (new none) opts).1.cfg

theorem apply_new (opts : List Opt) :
    apply (new none) opts =
      (check { reset (new none) none with cfg := (apply.go (new none).cfg opts).1 } (apply.go (new none).cfg opts).2,
        (apply.go (new none).cfg opts).2) := by
  unfold apply
  rfl

/-- whatever `Apply` returns, the flags stay among the reachable ones -/
theorem cfgOf_reach (opts : List Opt) : (cfgOf opts).flags ∈ reachable := by
  unfold cfgOf
  rw [apply_new]
  have h := apply_go_reach opts _ reach_new
  unfold check
  repeat' split
  all_goals exact h

theorem apply_new_pre (opts : List Opt) (h : (apply (new none) opts).2 = none)
    (hnl : (cfgOf opts).legacy = false) : Pre (apply (new none) opts).1 := by
  unfold cfgOf at hnl
  rw [apply_new] at h hnl ⊢
  simp only at h
  simp only [h, check_none] at hnl ⊢
  exact
    { st := rfl, nl := hnl, fa := rfl, bytes := rfl
      reach := apply_go_reach opts _ reach_new }

/-! ## the specification reads the emitted frame -/

theorem cks_final {cfg1 : Cfg} {cks : XXH.State} {data : Array UInt8} (h : CksOK cfg1 cks data)
    (hcc : flagContentChecksum cfg1.flags = true) (hlen : data.size < 2 ^ 64) :
    (XXH.sum32 cks).toNat = Spec.Frame.xxh data := by
  obtain ⟨s0, L, h1, h2⟩ := h hcc
  have hl : L.flatten.length < 2 ^ 64 := by rw [h2]; simpa using hlen
  rw [h1, Props.C13.stream_reset s0 L hl, h2]
  rfl

theorem decode_final (cfg : Cfg) (hf : cfg.flags ∈ reachable)
    (hcs : cfg.contentSize < 2 ^ 64) (w' : W) (data : Array UInt8)
    (hfin : Final (cfgInit cfg) (infoOf cfg) (hdrOf cfg) w' data) (hlen : data.size < 2 ^ 64) :
    Spec.Frame.decode w'.sink.bytes.toList true = .ok ⟨infoOf cfg, data, w'.sink.bytes.size⟩ := by
  obtain ⟨bs, k, cks, hb, hrun, hk, hcks⟩ := hfin
  have hsize : w'.sink.bytes.size = w'.sink.bytes.toList.length := by simp
  rw [hsize]
  generalize w'.sink.bytes.toList = bytes at hb ⊢
  subst hb
  unfold Spec.Frame.decode
  -- magic
  have hskip : ∀ n rest, skipToFrame (n + 1) ((le32 frameMagic).toList ++ rest) = .ok rest := by
    intro n rest
    rw [skipToFrame, u32_le32 _ (by decide)]
    simp only [show frameMagic = Spec.Frame.magic from rfl, if_true]
  simp only [hdrOf, List.append_assoc]
  rw [hskip]
  simp only
  -- descriptor
  rw [List.singleton_append, header_ok cfg hf hcs]
  simp only
  -- blocks
  have hfuel : (bs ++ tailOf (cfgInit cfg) cks).length + 1 =
      ((bs ++ tailOf (cfgInit cfg) cks).length - k) + 1 + k := by
    rw [List.length_append]; omega
  rw [hfuel, hrun, Array.empty_append]
  have hend : ∀ f rest acc, blocks (infoOf cfg) (f + 1) ((le32 0).toList ++ rest) acc = .ok (acc, rest) := by
    intro f rest acc
    rw [blocks, u32_le32 _ (by decide)]
    simp only [if_true]
  unfold tailOf
  rw [hend]
  simp only
  have hcc := init_flagCC _ hf
  have hcc' : (infoOf cfg).contentChecksum = flagContentChecksum (cfgInit cfg).flags := hcc.symm
  rw [hcc']
  cases hc : flagContentChecksum (cfgInit cfg).flags with
  | false =>
    simp
  | true =>
    simp only [if_true]
    rw [← List.append_nil (le32 _).toList, u32_le32 _ (XXH.sum32 cks).toNat_lt]
    simp only [cks_final hcks hc hlen, if_true]
    simp

/-- a session on an all-accepting sink cannot fail once `Apply` has accepted the options -/
theorem session_result (opts : List Opt) (chunks : List (Array UInt8))
    (hcomp : CompOK (cfgOf opts).level)
    (hap : (apply (new none) opts).2 = none)
    (hnl : (cfgOf opts).legacy = false) :
    ∃ w', Run.writeSession opts chunks = (w', none) ∧ (cfgOf opts).flags ∈ reachable ∧
      Final (cfgInit (cfgOf opts)) (infoOf (cfgOf opts)) (hdrOf (cfgOf opts)) w' (Run.concat chunks) := by
  have hpre := apply_new_pre opts hap hnl
  have hreach := hpre.reach
  have ctx : Ctx (cfgInit (cfgOf opts)) (infoOf (cfgOf opts)) := ctx_of _ hreach hcomp
  obtain ⟨w', hgo, hfin⟩ := session_pre _ hpre ctx chunks
  refine ⟨w', ?_, hreach, hfin⟩
  cases hr : apply (new none) opts with
  | mk w0 e =>
    rw [hr] at hap hgo
    simp only at hap hgo
    subst hap
    simp only [Run.writeSession, hr]
    exact hgo

/-- the only way a session on an all-accepting sink reports an error is `Apply` rejecting an option -/
theorem apply_of_clean (opts : List Opt) (chunks : List (Array UInt8))
    (hclean : (Run.writeSession opts chunks).2 = none) : (apply (new none) opts).2 = none := by
  cases hr : apply (new none) opts with
  | mk w0 e =>
    cases e with
    | none => rfl
    | some e =>
      simp only [Run.writeSession, hr] at hclean
      cases hclean

/-- the Writer theorem, for any compressor that satisfies `CompOK` -/
theorem writer_main (opts : List Opt) (chunks : List (Array UInt8))
    (hcomp : CompOK (cfgOf opts).level)
    (hclean : (Run.writeSession opts chunks).2 = none)
    (hnl : (cfgOf opts).legacy = false)
    (hsz : (cfgOf opts).contentSize < 2 ^ 64)
    (hlen : (Run.concat chunks).size < 2 ^ 64) :
    Spec.Frame.decode (Run.writtenBytes opts chunks).toList true =
      .ok ⟨infoOf (cfgOf opts), Run.concat chunks, (Run.writtenBytes opts chunks).size⟩ := by
  obtain ⟨w', hws, hreach, hfin⟩ :=
    session_result opts chunks hcomp (apply_of_clean opts chunks hclean) hnl
  unfold Run.writtenBytes
  rw [hws]
  exact decode_final _ hreach hsz w' _ hfin hlen

end Lz4V.Proofs.FrameW
