import Lz4V.Spec.Block
import Lz4V.Proofs.Slice
/-!
# Proofs.BlockSpec — lemmas about the block-format specification
-/
namespace Lz4V.Proofs.BlockSpec
open Lz4V.Spec.Block Lz4V.Proofs.Slice

/-! ## copyMatch -/

theorem copyMatch_size (h : Array UInt8) (off n : Nat) : (copyMatch h off n).size = h.size + n := by
  induction n generalizing h with
  | zero => simp [copyMatch]
  | succ n ih => simp [copyMatch, ih]; omega

theorem copyMatch_get_lt (h : Array UInt8) (off n i : Nat) (hi : i < h.size) :
    (copyMatch h off n)[i]! = h[i]! := by
  induction n generalizing h with
  | zero => simp [copyMatch]
  | succ n ih =>
    simp only [copyMatch]
    rw [ih _ (by simp; omega)]
    grind

theorem copyMatch_add (h : Array UInt8) (off a b : Nat) :
    copyMatch h off (a + b) = copyMatch (copyMatch h off a) off b := by
  induction a generalizing h with
  | zero => simp [copyMatch]
  | succ a ih =>
    have : a + 1 + b = (a + b) + 1 := by omega
    rw [this]
    simp only [copyMatch, ih]

theorem copyMatch_get_ge (h : Array UInt8) (off n i : Nat) (ho : 1 ≤ off) (ho2 : off ≤ h.size)
    (hi : h.size ≤ i) (hi2 : i < h.size + n) :
    (copyMatch h off n)[i]! = (copyMatch h off n)[i - off]! := by
  induction n generalizing h with
  | zero => omega
  | succ n ih =>
    simp only [copyMatch]
    by_cases hc : i = h.size
    · subst hc
      rw [copyMatch_get_lt _ _ _ _ (by simp), copyMatch_get_lt _ _ _ _ (by simp; omega)]
      clear ih
      have hx : h.getD (h.size - off) 0 = h[h.size - off]'(by omega) := by
        have hb : h.size - off < h.size := by omega
        simp [Array.getD_eq_getD_getElem?, Array.getElem?_eq_getElem hb]
      rw [hx]
      grind
    · exact ih _ (by simp; omega) (by simp; omega) (by simp; omega)

theorem copyMatch_unique (h r : Array UInt8) (off n : Nat) (ho : 1 ≤ off) (ho2 : off ≤ h.size)
    (hs : r.size = h.size + n) (hlt : ∀ i, i < h.size → r[i]! = h[i]!)
    (hge : ∀ i, h.size ≤ i → i < h.size + n → r[i]! = r[i - off]!) :
    r = copyMatch h off n := by
  apply ext! (by rw [hs, copyMatch_size])
  intro i
  induction i using Nat.strongRecOn with
  | _ i ih =>
    intro hi
    by_cases hc : i < h.size
    · rw [hlt i hc, copyMatch_get_lt _ _ _ _ hc]
    · rw [hge i (by omega) (by omega), copyMatch_get_ge h off n i ho ho2 (by omega) (by omega)]
      exact ih (i - off) (by omega) (by omega)

/-! ## takeLits -/

theorem takeLits_eq (n : Nat) (r : Bytes) (h : Array UInt8) :
    takeLits n r h = if r.length < n then none else some (h ++ r.take n, r.drop n) := by
  induction n generalizing r h with
  | zero => simp [takeLits]
  | succ n ih =>
    cases r with
    | nil => simp [takeLits]
    | cons b r =>
      simp only [takeLits, ih, List.length_cons, List.take_succ_cons, List.drop_succ_cons]
      by_cases hc : r.length < n
      · simp [hc]
      · simp [hc]

/-! ## readLen -/

theorem readLen_shift (acc k : Nat) (r : Bytes) :
    readLen (acc + k) r = (readLen acc r).map (fun p => (p.1 + k, p.2)) := by
  induction r generalizing acc with
  | nil => simp [readLen]
  | cons b r ih =>
    simp only [readLen]
    split
    · have : acc + k + 255 = acc + 255 + k := by omega
      rw [this, ih]
    · simp; omega

/-! ## decodeAux: one sequence = literal part + match part -/

/-- the part of one sequence after the literals -/
def specMatch (nib : Nat) (r2 : Bytes) (hist1 : Array UInt8) (dl maxOut fuel : Nat) : Option (Array UInt8) :=
  match r2 with
  | [] => if nib = 0 then some hist1 else none
  | [_] => none
  | lo :: hi :: r3 =>
    let off := lo.toNat + 256 * hi.toNat
    if off = 0 then none else
    if off > hist1.size then none else
    match readField nib r3 with
    | none => none
    | some (ml, r4) =>
      if hist1.size + (ml + 4) - dl > maxOut then none else
      let hist2 := copyMatch hist1 off (ml + 4)
      match r4 with
      | [] => some hist2
      | _ => decodeAux fuel r4 hist2 dl maxOut

theorem decodeAux_cons (fuel : Nat) (tok : UInt8) (r0 : Bytes) (hist : Array UInt8) (dl maxOut : Nat) :
    decodeAux (fuel + 1) (tok :: r0) hist dl maxOut =
      match readField (tok.toNat / 16) r0 with
      | none => none
      | some (ll, r1) =>
        if hist.size + ll - dl > maxOut then none else
        match takeLits ll r1 hist with
        | none => none
        | some (hist1, r2) => specMatch (tok.toNat % 16) r2 hist1 dl maxOut fuel := by
  rw [decodeAux]
  rfl

end Lz4V.Proofs.BlockSpec
